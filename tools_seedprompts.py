#!/usr/bin/env python3
"""genprompts.py N : writes /tmp/seedprops/promptN-Cxx.txt and creates worktrees /tmp/seedN-Cxx of /repo HEAD."""
import sys, os, json, re, subprocess
N = int(sys.argv[1])
words = {1: "one other developer has", 2: "two", 3: "three", 4: "four", 5: "five", 6: "six", 7: "seven", 8: "eight", 9: "nine", 10: "ten"}
os.makedirs("/tmp/seedprops", exist_ok=True)
tmpl = open("/verif/tools_seedprompt_template.txt").read()  # the round-5 prompt of C08; property block and note are replaced below
for _l in open("/verif/properties.jsonl"):
    _d = json.loads(_l)
    open("/tmp/seedprops/%s.txt" % _d["id"], "w").write("%s - %s\n\nStatement: %s\n\nQuantified over: %s\n" % (_d["id"], _d["title"], _d["statement"], _d["quantifier"]["text"]))
import os as _os
ONLY=set(_os.environ.get('ONLY','').split()) if _os.environ.get('ONLY') else None
for i in range(1, 37):
    if ONLY and ('C%02d' % i) not in ONLY:
        continue
    pid = "C%02d" % i
    prop = open("/tmp/seedprops/%s.txt" % pid).read().rstrip("\n")
    prev = []
    for r in range(1, N):
        d = "/verif/seeded/%s%s" % (pid, "" if r == 1 else "-r%d" % r)
        if not os.path.exists(d + "/meta.json"):
            continue
        m = json.load(open(d + "/meta.json"))
        patch = open(d + "/patch.diff").read()
        files = sorted(set(re.findall(r"^\+\+\+ b/(\S+)", patch, re.M)))
        hunk = re.search(r"^@@[^@]*@@ ?(.*)$", patch, re.M)
        near = hunk.group(1).strip() if hunk and hunk.group(1).strip() else ""
        needs = (m.get("needs") or m.get("summary") or "")[:200]
        prev.append("touches %s%s; it needs: %s" % (", ".join(files), ("; near `%s`" % near) if near else "", needs))
    k = len(prev)
    note = "Note: %s other developers have already produced regressions for this property.\n" % words.get(k, str(k))
    for j, p in enumerate(prev):
        note += "  %d. %s\n" % (j + 1, p)
    note += ("Choose a DIFFERENT mechanism from all %s (another function, another clause of the property, another kind of trigger) so that the %s regressions are independent. "
             "Read the property statement and its 'Quantified over' line again, clause by clause and dimension by dimension, and pick a clause, configuration, actor, peer behaviour, data size, error path or call history that none of them exercises; "
             "regressions in shared lower layers that the property depends on (record layer, key schedule, handshake message marshalling and parsing, transcript hashing, session cache, Config cloning and defaults, extension dispatch) are welcome as long as they break THIS property.\n"
             % (words.get(k, str(k)), words.get(k + 1, str(k + 1))))
    wt = "/tmp/seed%d-%s" % (N, pid)
    body = tmpl
    # replace the property block and the note of the C08 round-5 prompt
    a = body.index("----\n") + 5
    b = body.index("----\n", a)
    body = body[:a] + prop + "\n\n\n" + note + "\n" + body[b:]
    body = body.replace("/tmp/seed5-C08", wt).replace('"property": "C08"', '"property": "%s"' % pid)
    open("/tmp/seedprops/prompt%d-%s.txt" % (N, pid), "w").write(body)
    if not os.path.exists(wt):
        subprocess.run(["git", "-C", "/repo", "worktree", "add", "-q", "--detach", wt, "HEAD"], check=True)
print("ok")
