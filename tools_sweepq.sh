#!/bin/bash
# quick sweep at the given seeds, sequential
cd /verif
for s in "$@"; do
  for p in $(seq -f "C%02g" 1 36); do
    r=$(VERIF_SEED=$s ./vcheck $p quick 2>&1 | grep -E "^(OK|VIOLATION|INCONCLUSIVE|KNOWN|BUILD|violation)" | cut -c1-300 | tr '\n' ' ')
    echo "seed=$s $p $r"
  done
done
