#!/usr/bin/env python3
"""apply fixes/<name>.diff to /repo, build, run the baseline, commit as 'fix: ...', record in known_findings.json.
usage: tools_applyfix.py <diff> <property> <key> <subject> <body> <what>"""
import sys, subprocess, json
diff, prop, key, subject, body, what = sys.argv[1:7]
def run(cmd, **kw):
    return subprocess.run(cmd, shell=True, text=True, stdout=subprocess.PIPE, stderr=subprocess.STDOUT, **kw)
r = run("git apply %s" % diff, cwd="/repo")
if r.returncode: print("apply failed", r.stdout); sys.exit(1)
r = run("go build ./...", cwd="/repo")
if r.returncode: print("build failed", r.stdout); sys.exit(1)
r = run("python3 /verif/tools_baseline.py")
print(r.stdout.strip().splitlines()[0])
if r.returncode: print("baseline failed", r.stdout); sys.exit(1)
msg = "fix: %s\n\n%s\n" % (subject, body)
r = run("git add -A && git commit -q -F -", cwd="/repo", input=msg)
h = run("git log --format=%h -1", cwd="/repo").stdout.strip()
kf = json.load(open("/verif/known_findings.json"))
kf["findings"] = [f for f in kf["findings"] if f["key"] != key]
kf["findings"].append({"property": prop, "key": key, "status": "fixed", "commit": h, "what": what,
                       "line": "fixed: property=%s %s %s" % (prop, h, what)})
json.dump(kf, open("/verif/known_findings.json", "w"), indent=1)
print("committed", h)
