#!/usr/bin/env python3
"""Run the repository's own suite (guard off) and compare with /root/.vp/BASELINE.json stable_pass."""
import json, subprocess, sys, os
repo = sys.argv[1] if len(sys.argv) > 1 else "/repo"
env = dict(os.environ); env.pop("GOFLAGS", None)
p = subprocess.run(["go", "test", "-json", "-vet=off", "-count=1", "-timeout", "25m", "./..."], cwd=repo, env=env,
                   stdout=subprocess.PIPE, stderr=subprocess.STDOUT, text=True)
passed = set(); failed = set()
for l in p.stdout.splitlines():
    try: e = json.loads(l)
    except Exception: continue
    if e.get("Test") and e.get("Action") in ("pass", "fail"):
        (passed if e["Action"] == "pass" else failed).add(e["Package"] + "::" + e["Test"])
base = set(json.load(open("/root/.vp/BASELINE.json"))["stable_pass"])
missing = sorted(base - passed)
print("passed=%d failed=%d baseline=%d missing_from_pass=%d" % (len(passed), len(failed), len(base), len(missing)))
for m in missing[:20]: print("  MISSING", m)
for f in sorted(failed)[:20]: print("  FAILED", f)
sys.exit(0 if not missing else 1)
