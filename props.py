"""Per-property configuration of the checks (tiers, budgets, evidence rule) and the MANIFEST generator.

A property appears in MANIFEST.checks only when IMPLEMENTED[...] is True; everything else is listed under
not_applicable with the reason it is not (yet) claimed.
"""
import json, os

BASE_ASSUME = [
    "the harness is compiled into package tls (overlay test files); it trusts its own reference parser/encoders",
    "rapid v1.3.0 generators; runs are a pure function of VERIF_SEED except for crypto/rand use inside utls",
]


def T(checks, shards=1, timeout=600, **kw):
    d = {"checks": checks, "shards": shards, "timeout": timeout}
    d.update(kw)
    return d


PROPS = {}


def P(pid, title, rule, quick, thorough, race=False, note="", text="", technique="", assumptions=None, implemented=True):
    PROPS[pid] = {
        "title": title, "rule": rule, "quick": quick, "thorough": thorough, "race": race,
        "note": note, "text": text, "technique": technique,
        "assumptions": BASE_ASSUME + (assumptions or []), "implemented": implemented,
    }


# ---------------------------------------------------------------------------------------------------
# property table: one JSON file per property under props.d/ (keys = the arguments of P(); "quick"/"thorough"
# are dicts with checks, shards, timeout [s], optional steps, shrinktime, parallel, fuzz=[{target,time,timeout}])
# ---------------------------------------------------------------------------------------------------
import glob as _glob
for _f in sorted(_glob.glob(os.path.join(os.path.dirname(os.path.abspath(__file__)), "props.d", "C*.json"))):
    _d = json.load(open(_f))
    _pid = _d.pop("id")
    for _tier in ("quick", "thorough"):
        _t = _d[_tier]
        _t.setdefault("shards", 1)
        _t.setdefault("timeout", 600)
    P(_pid, **_d)
# only properties listed in props.d/ACCEPTED (reviewed, run on the unchanged tree at several seeds) are claimed
_acc = set(open(os.path.join(os.path.dirname(os.path.abspath(__file__)), "props.d", "ACCEPTED")).read().split())
for _pid in PROPS:
    if _pid not in _acc:
        PROPS[_pid]["implemented"] = False

NOT_BUILT_REASON = "check not built yet (planned per DESIGN.md section 4); nothing is claimed for it"

ALL_IDS = ["C%02d" % i for i in range(1, 37)]


def write_manifest(verif):
    checks = []
    na = []
    for pid in ALL_IDS:
        p = PROPS.get(pid)
        if not p or not p["implemented"]:
            na.append({"property_id": pid, "reason": (p or {}).get("na_reason", NOT_BUILT_REASON)})
            continue
        checks.append({
            "property_id": pid,
            "quick_cmd": "./vcheck %s quick" % pid,
            "thorough_cmd": "./vcheck %s thorough" % pid,
            "evidence_file": "/verif/evidence/%s.json" % pid,
            "replay_cmd_template": "./vcheck %s --replay {path}" % pid,
            "engine": "vcheck",
            "level_claimed": {"category": "exploration", "text": p["text"], "design_ref": "DESIGN.md section 4, " + pid},
            "level_note": p["note"],
            "technique": p["technique"],
        })
    m = {
        "version": 1,
        "setup_cmd": "./vcheck build",
        "hooks": {
            "guard": "verif",
            "enable": "harness test files carry //go:build verif and are compiled into package tls through "
                      "'go test -c -tags verif -overlay ... -modfile /verif/mod/go.mod'; /repo itself contains no hook code",
            "baseline_off_cmd": "cd /repo && go test -json -vet=off -count=1 -timeout 25m ./...",
            "source_commits": [],
            "add_only": True,
        },
        "engines": [{
            "name": "vcheck", "path": "/verif/vcheck",
            "serves_properties": [c["property_id"] for c in checks],
            "kind_free_text": "python driver building /repo's working tree plus overlay harness (package tls, rapid "
                              "property tests, native go fuzz targets, porcupine oracle) and turning results into evidence",
        }],
        "checks": checks,
        "notes": "See DESIGN.md. Known, unrepaired defects are listed in known_findings.json and reported as KNOWN-FINDING lines.",
        "not_applicable": na,
    }
    json.dump(m, open(os.path.join(verif, "MANIFEST.json"), "w"), indent=1)
