#!/usr/bin/env python3
"""Regenerate the round-N table of seeded changes in SENSITIVITY.md (between the RN markers) from seeded/*-rN/meta.json.
usage: tools_seedtable.py [round, default 2]"""
import json, glob, os, re, sys
R = sys.argv[1] if len(sys.argv) > 1 else "2"
rows = []
for d in sorted(glob.glob("/verif/seeded/C??-r%s" % R)):
    pid = os.path.basename(d)[:3]
    m = json.load(open(os.path.join(d, "meta.json")))
    hist = [h for h in m.get("check_history", []) if pid in h.get("results", {})]
    first = hist[0]["results"][pid] if hist else "?"
    final = hist[-1]["results"][pid] if hist else "?"
    others = {k: v for h in hist for k, v in h["results"].items() if k != pid}
    valid = m.get("verification", {}).get("valid_seed")
    def cell(s):
        s = re.sub(r"\s+", " ", str(s or "")).replace("|", "/")
        return s[:260] + ("..." if len(s) > 260 else "")
    extra = "".join(" (%s: %s)" % kv for kv in sorted(others.items()))
    rows.append(("| %s-r" + R + " | %s | %s | %s | %s | %s%s |") % (pid, cell(m.get("summary")), cell(m.get("needs")), "yes" if valid else "NO", first, final, extra))
table = "| seed | change | needs | valid | first run | final |\n|---|---|---|---|---|---|\n" + "\n".join(rows)
p = "/verif/SENSITIVITY.md"
s = open(p).read()
b, e = "<!-- R%s-TABLE-BEGIN -->" % R, "<!-- R%s-TABLE-END -->" % R
if b in s:
    s = s[:s.index(b) + len(b)] + "\n" + table + "\n" + s[s.index(e):]
    open(p, "w").write(s)
    print("table refreshed: %d rows" % len(rows))
else:
    print(table)
caught1 = sum(1 for r in rows if "| VIOLATION | VIOLATION" in r)
print("first-run caught:", caught1, "final caught:", sum(1 for r in rows if r.rstrip(" |").split("|")[-1].strip().startswith("VIOLATION")))
