#!/usr/bin/env python3
"""Verify a seeded change delivered in /tmp/seed-<ID>/seed_out and run our check(s) against it.
usage: tools_seedverify.py <ID> [extra property ids to run too] [--tier quick|thorough] [--name suffix]
Steps: scratch copy of /repo HEAD -> demo passes without patch -> apply patch -> builds -> repo suite passes ->
demo fails with patch -> ./vcheck <ID> <tier> with VERIF_REPO=scratch. Records everything in /verif/seeded/<ID><suffix>/."""
import sys, os, subprocess, json, shutil, time
args = [a for a in sys.argv[1:] if not a.startswith("--")]
tier = "quick"; suffix = ""
for i, a in enumerate(sys.argv):
    if a == "--tier": tier = sys.argv[i+1]
    if a == "--name": suffix = sys.argv[i+1]
args = [a for a in args if a.startswith("C") and len(a) == 3]
pid = args[0]; others = [a for a in args[1:] if a.startswith("C")]
src = "/tmp/seed-%s/seed_out" % pid
for i, a in enumerate(sys.argv):
    if a == "--src": src = sys.argv[i+1]
scratch = "/tmp/sv-%s%s" % (pid, suffix)
def run(cmd, cwd=None, env=None, timeout=3000):
    p = subprocess.run(cmd, shell=True, cwd=cwd, env=env, text=True, stdout=subprocess.PIPE, stderr=subprocess.STDOUT, timeout=timeout)
    return p.returncode, p.stdout
rec = {"property": pid, "steps": []}
def step(name, ok, detail=""):
    rec["steps"].append({"step": name, "ok": ok, "detail": detail[-600:]})
    print("%-34s %s %s" % (name, "OK " if ok else "FAIL", detail.strip().splitlines()[-1][:160] if detail.strip() else ""))
    return ok
shutil.rmtree(scratch, ignore_errors=True)
run("rsync -a --exclude .git --exclude seed_out /repo/ %s/" % scratch)
demo = os.path.join(src, "zz_seed_demo_test.go")
shutil.copy(demo, scratch)
rc, out = run("go test -vet=off -count=1 -run 'TestSeedDemo' . 2>&1 | tail -5", cwd=scratch)
okA = step("demo passes without patch", "ok" in out and "FAIL" not in out, out)
rc, out = run("git apply --unsafe-paths --directory=%s %s/patch.diff" % (scratch, src), cwd="/")
if rc != 0:
    rc, out = run("patch -p1 < %s/patch.diff" % src, cwd=scratch)
okB = step("patch applies", rc == 0, out)
rc, out = run("go build ./... 2>&1 | tail -5", cwd=scratch)
okC = step("builds", rc == 0 and not out.strip(), out)
rc, out = run("go test -vet=off -count=1 -run 'TestSeedDemo' . 2>&1 | tail -8", cwd=scratch)
okD = step("demo fails with patch", "FAIL" in out, out)
os.remove(os.path.join(scratch, "zz_seed_demo_test.go"))
rc, out = run("python3 /verif/tools_baseline.py %s" % scratch)
okE = step("repo suite passes with patch", rc == 0, out)
valid = okA and okB and okC and okD and okE
rec["valid_seed"] = valid
results = {}
if valid:
    for p in [pid] + others:
        env = dict(os.environ); env["VERIF_REPO"] = scratch
        t0 = time.time()
        rc, out = run("./vcheck %s %s 2>&1 | grep -E '^(OK|VIOLATION|INCONCL|violation|BUILD)' | cut -c1-500 | head -6" % (p, tier), cwd="/verif", env=env)
        verdict = "VIOLATION" if ("VIOLATION" in out or "violation:" in out) else ("OK" if out.startswith("OK") or "\nOK" in out else "INCONCLUSIVE")
        results[p] = {"tier": tier, "verdict": verdict, "wall_s": round(time.time()-t0, 1), "output": out[-900:]}
        print("check %s %s -> %s (%.0fs)" % (p, tier, verdict, time.time()-t0))
        print(out[-500:])
rec["check_results"] = results
dst = "/verif/seeded/%s%s" % (pid, suffix)
os.makedirs(dst, exist_ok=True)
for f in ("patch.diff", "zz_seed_demo_test.go"):
    if os.path.realpath(src) != os.path.realpath(dst):
        shutil.copy(os.path.join(src, f), dst)
meta = {}
try: meta = json.load(open(os.path.join(src, "meta.json")))
except Exception as e: meta = {"error": str(e)}
old = {}
if os.path.exists(os.path.join(dst, "meta.json")):
    try: old = json.load(open(os.path.join(dst, "meta.json")))
    except Exception: pass
meta["verification"] = rec
hist = old.get("check_history", [])
hist.append({"at": time.strftime("%Y-%m-%dT%H:%M:%S"), "tier": tier, "results": {k: v["verdict"] for k, v in results.items()}})
meta["check_history"] = hist
json.dump(meta, open(os.path.join(dst, "meta.json"), "w"), indent=1)
shutil.rmtree(scratch, ignore_errors=True)
run("go clean -cache >/dev/null 2>&1 || true")  if False else None
