//go:build verif

package tls

// C10 (extension, directed + drawn): specs that carry signature_algorithms_cert. The extension narrows what the client
// accepts in certificate chains, not what it offered for handshake signatures; a compliant server signs the TLS 1.2
// ServerKeyExchange / TLS 1.3 CertificateVerify with any scheme from signature_algorithms. Browser specs get the
// extension inserted before or after signature_algorithms with a list that lacks schemes signature_algorithms has;
// upstream's server (RSA and ECDSA leaves; max version 1.2 and 1.3) must be able to complete the handshake.

import (
	"fmt"
	"testing"

	"pgregory.net/rapid"
)

func TestVerifC10SigAlgsCert(t *testing.T) {
	st := vfNewStats(t, "C10")
	bases := []ClientHelloID{HelloChrome_120, HelloChrome_102, HelloFirefox_120, HelloFirefox_105, HelloSafari_16_0, HelloIOS_14, HelloEdge_106}
	certLists := [][]SignatureScheme{
		{PKCS1WithSHA256, ECDSAWithP256AndSHA256},
		{ECDSAWithP256AndSHA256},
		{PKCS1WithSHA256, PKCS1WithSHA384, PKCS1WithSHA512},
		{PSSWithSHA256, ECDSAWithP256AndSHA256, PKCS1WithSHA256},
	}
	run := func(tt vfFataler, base ClientHelloID, after bool, list []SignatureScheme, keyType string, maxVer uint16) {
		spec, err := UTLSIdToSpec(base)
		if err != nil {
			tt.Fatalf("spec: %v", err)
		}
		var exts []TLSExtension
		placed := false
		for _, e := range spec.Extensions {
			if _, ok := e.(*SignatureAlgorithmsCertExtension); ok {
				continue
			}
			_, isSig := e.(*SignatureAlgorithmsExtension)
			if isSig && !after {
				exts = append(exts, &SignatureAlgorithmsCertExtension{SupportedSignatureAlgorithms: append([]SignatureScheme(nil), list...)})
				placed = true
			}
			exts = append(exts, e)
			if isSig && after {
				exts = append(exts, &SignatureAlgorithmsCertExtension{SupportedSignatureAlgorithms: append([]SignatureScheme(nil), list...)})
				placed = true
			}
		}
		if !placed {
			return
		}
		spec.Extensions = exts
		name := "sigalgscert.c10.test"
		ccfg := vfClientConfig(name)
		ccfg.OmitEmptyPsk = true
		scfg := vfServerConfig(keyType, name)
		scfg.MaxVersion = maxVer
		p := vfNewPair(ccfg, HelloCustom, scfg)
		defer p.Close()
		st.Eval()
		if err := p.Cli.ApplyPreset(&spec); err != nil {
			st.Violation(tt, "%s + signature_algorithms_cert: ApplyPreset: %v", base.Str(), err)
		}
		if err := p.Cli.BuildHandshakeState(); err != nil {
			st.Violation(tt, "%s + signature_algorithms_cert: %v", base.Str(), err)
		}
		o := vfOfferOf(vfParseClientHello(p.Cli.HandshakeState.Hello.Raw), 0)
		what := fmt.Sprintf("%s with signature_algorithms_cert %v %s signature_algorithms | upstream server, %s leaf, max version %04x", base.Str(), list,
			map[bool]string{true: "after", false: "before"}[after], keyType, maxVer)
		// the leaf chain of the harness PKI is signed with ECDSA-P256-SHA256 / RSA-PKCS1-SHA256: both are in every list
		// above that is paired with that key type below, so the server has no reason to refuse
		if len(vfCertKeysFor(o, maxVer, "")) == 0 {
			st.Class("sigalgscert:no-cert-type-offered")
			return
		}
		cerr, serr := p.Handshake()
		if cerr != nil || serr != nil {
			st.Violation(tt, "%s: handshake failed although every negotiated value was offered: client err=%v server err=%v", what, cerr, serr)
		}
		if err := p.Echo([]byte("ping"), []byte("pong")); err != nil {
			st.Violation(tt, "%s: echo: %v", what, err)
		}
		st.Class(fmt.Sprintf("sigalgscert:ver=%04x:%s", p.Cli.ConnectionState().Version, keyType))
		st.NonTrivial(fmt.Sprintf("sigalgscert|%s|%v|%v|%s|%04x", base.Str(), list, after, keyType, maxVer))
	}
	for _, b := range bases {
		for li, l := range certLists {
			for _, after := range []bool{true, false} {
				for _, kt := range []string{"rsa", "ecdsa"} {
					if kt == "rsa" && li == 1 {
						continue // an ECDSA-only certificate list and an RSA chain: the server may refuse
					}
					if kt == "ecdsa" && li == 2 {
						continue
					}
					for _, mv := range []uint16{VersionTLS12, VersionTLS13} {
						run(t, b, after, l, kt, mv)
					}
				}
			}
		}
	}
	rapid.Check(t, func(rt *rapid.T) {
		b := bases[rapid.IntRange(0, len(bases)-1).Draw(rt, "base")]
		kt := rapid.SampledFrom([]string{"rsa", "ecdsa"}).Draw(rt, "key")
		need := map[string]SignatureScheme{"rsa": PKCS1WithSHA256, "ecdsa": ECDSAWithP256AndSHA256}[kt]
		l := rapid.SliceOfNDistinct(rapid.SampledFrom([]SignatureScheme{PKCS1WithSHA256, PKCS1WithSHA384, PKCS1WithSHA512, PSSWithSHA256, PSSWithSHA384,
			ECDSAWithP256AndSHA256, ECDSAWithP384AndSHA384, Ed25519, PKCS1WithSHA1}), 0, 5, func(s SignatureScheme) SignatureScheme { return s }).Draw(rt, "certlist")
		l = append([]SignatureScheme{need}, l...)
		run(rt, b, rapid.Bool().Draw(rt, "after"), l, kt, rapid.SampledFrom([]uint16{VersionTLS12, VersionTLS13, VersionTLS12}).Draw(rt, "maxver"))
	})
}
