//go:build verif

package tls

// C32, second half - a ClientHello described in the supported JSON format yields, after ApplyPreset, the same cipher
// suites, extension order and extension parameters as the raw-bytes import of the same ClientHello, modulo GREASE
// and per-connection material. The harness renders hello -> JSON itself, turning code points into names through the
// value-indexed dicttls tables (the importer goes back through the name-indexed tables).

import (
	"encoding/binary"
	"encoding/json"
	"fmt"
	"io"
	"net"
	"reflect"
	"sort"
	"strings"
	"sync"
	"testing"

	"github.com/refraction-networking/utls/dicttls"
	"pgregory.net/rapid"
)

const vf32ServerName = "example.test"

// ---- renderer ----

type vf32Unsupported struct{ why string }

func vf32Names16(vals []uint16, table map[uint16]string, what string, greaseOK bool) ([]string, *vf32Unsupported) {
	out := make([]string, 0, len(vals))
	for _, v := range vals {
		if greaseOK && vfIsGREASE(v) {
			out = append(out, "GREASE")
			continue
		}
		n, ok := table[v]
		if !ok {
			return nil, &vf32Unsupported{fmt.Sprintf("%s %#04x has no name in the value-indexed table", what, v)}
		}
		out = append(out, n)
	}
	return out, nil
}

func vf32Names8(vals []uint8, table map[uint8]string, what string) ([]string, *vf32Unsupported) {
	out := make([]string, 0, len(vals))
	for _, v := range vals {
		n, ok := table[v]
		if !ok {
			return nil, &vf32Unsupported{fmt.Sprintf("%s %#02x has no name in the value-indexed table", what, v)}
		}
		out = append(out, n)
	}
	return out, nil
}

var vf32VersionNames = map[uint16]string{0x0304: "TLS 1.3", 0x0303: "TLS 1.2", 0x0302: "TLS 1.1", 0x0301: "TLS 1.0"}

func vf32Ints(b []byte) []int {
	out := make([]int, len(b))
	for i, x := range b {
		out[i] = int(x)
	}
	return out
}

// vf32Render describes a (reference-parsed, valid) hello in the JSON format of u_clienthello_json.go / testdata/*.json.
func vf32Render(h *vfHello, recVer uint16) ([]byte, *vf32Unsupported) {
	top := map[string]any{}
	suites, u := vf32Names16(h.Suites, dicttls.DictCipherSuiteValueIndexed, "cipher suite", true)
	if u != nil {
		return nil, u
	}
	top["cipher_suites"] = suites
	comp, u := vf32Names8(h.Compression, dicttls.DictCompMethValueIndexed, "compression method")
	if u != nil {
		return nil, u
	}
	top["compression_methods"] = comp
	exts := []any{}
	hasSV := false
	for _, e := range h.Exts {
		if vfIsGREASE(e.Type) {
			exts = append(exts, map[string]any{"name": "GREASE", "id": int(e.Type), "data": e.Body, "keep_data": true})
			continue
		}
		name, ok := dicttls.DictExtTypeValueIndexed[e.Type]
		if !ok {
			return nil, &vf32Unsupported{fmt.Sprintf("extension type %d has no name in DictExtTypeValueIndexed", e.Type)}
		}
		o := map[string]any{"name": name}
		r := &vfRd{b: e.Body}
		switch e.Type {
		case 10:
			l, u := vf32Names16(vfU16List16(e.Body), dicttls.DictSupportedGroupsValueIndexed, "group", true)
			if u != nil {
				return nil, u
			}
			o["named_group_list"] = l
		case 11:
			l, u := vf32Names8(r.vec8(), dicttls.DictECPointFormatValueIndexed, "point format")
			if u != nil {
				return nil, u
			}
			o["ec_point_format_list"] = l
		case 13, 50, 34:
			l, u := vf32Names16(vfU16List16(e.Body), dicttls.DictSignatureSchemeValueIndexed, "signature scheme", e.Type != 34)
			if u != nil {
				return nil, u
			}
			o["supported_signature_algorithms"] = l
		case 16:
			o["protocol_name_list"] = vfProtoList(e.Body)
		case 17513, 17613:
			o["supported_protocols"] = vfProtoList(e.Body)
		case 21:
			o["len"] = len(e.Body)
		case 24:
			maj, min := r.u8(), r.u8()
			var kp []string
			for _, p := range r.vec8() {
				n, ok := map[uint8]string{0: "rsa2048_pkcs1.5", 1: "rsa2048_pss", 2: "ecdsap256"}[p]
				if !ok {
					return nil, &vf32Unsupported{"token binding key parameter without a name"}
				}
				kp = append(kp, n)
			}
			o["token_binding_version"] = map[string]any{"major": int(maj), "minor": int(min)}
			o["key_parameters_list"] = kp
		case 27:
			l, u := vf32Names16(vfU16List8(e.Body), dicttls.DictCertificateCompressionAlgorithmValueIndexed, "certificate compression algorithm", false)
			if u != nil {
				return nil, u
			}
			o["algorithms"] = l
		case 28:
			o["record_size_limit"] = int(r.u16())
		case 41:
			p := h.PSK()
			ids := []any{}
			for i := range p.Identities {
				ids = append(ids, map[string]any{"identity": p.Identities[i], "obfuscated_ticket_age": p.Ages[i]})
			}
			o["identities"] = ids
			o["binders"] = p.Binders
		case 43:
			hasSV = true
			var vs []string
			for _, v := range vfU16List8(e.Body) {
				if vfIsGREASE(v) {
					vs = append(vs, "GREASE")
				} else if n, ok := vf32VersionNames[v]; ok {
					vs = append(vs, n)
				} else {
					return nil, &vf32Unsupported{fmt.Sprintf("version %#04x cannot be named in the JSON format", v)}
				}
			}
			o["versions"] = vs
		case 45:
			l, u := vf32Names8(r.vec8(), dicttls.DictPSKKeyExchangeModeValueIndexed, "psk key exchange mode")
			if u != nil {
				return nil, u
			}
			o["ke_modes"] = l
		case 51:
			shares := []any{}
			for _, ks := range h.KeyShares() {
				if vfIsGREASE(ks.Group) {
					shares = append(shares, map[string]any{"group": "GREASE", "key_exchange": vf32Ints(ks.Data)})
					continue
				}
				n, ok := dicttls.DictSupportedGroupsValueIndexed[ks.Group]
				if !ok {
					return nil, &vf32Unsupported{fmt.Sprintf("key share group %#04x has no name", ks.Group)}
				}
				shares = append(shares, map[string]any{"group": n}) // key material is per-connection
			}
			o["client_shares"] = shares
		}
		exts = append(exts, o)
	}
	top["extensions"] = exts
	if !hasSV { // FromRaw takes min/max from the record and handshake versions when supported_versions is absent
		top["min_vers"] = int(recVer)
		top["max_vers"] = int(h.Version)
	}
	b, err := json.Marshal(top)
	if err != nil {
		return nil, &vf32Unsupported{"harness: " + err.Error()}
	}
	return b, nil
}

// ---- apply + marshal ----

func vf32Wire(spec *ClientHelloSpec) (*vfHello, string, *vfPanic) {
	cfg := &Config{ServerName: vf32ServerName, InsecureSkipVerify: true, OmitEmptyPsk: true, Rand: vfNewDetRand(32, "c32")}
	uc := UClient(&net.TCPConn{}, cfg, HelloCustom)
	var err error
	if p := vfCatch(func() {
		if err = uc.ApplyPreset(spec); err == nil {
			err = uc.BuildHandshakeState()
		}
	}); p != nil {
		return nil, "", p
	}
	if err != nil {
		return nil, err.Error(), nil
	}
	return vfParseClientHello(uc.HandshakeState.Hello.Raw), "", nil
}

func vf32ErrKind(s string) string {
	for _, k := range []string{"unsupported Curve in KeyShareExtension", "does not support", "grease extensions", "SupportedVersions", "padding", "empty psk", "invalid binder size"} {
		if strings.Contains(s, k) {
			return k
		}
	}
	if len(s) > 50 {
		s = s[:50]
	}
	return s
}

// vf32Compare runs both importers on the same hello and compares the resulting wire hellos.
func vf32Compare(st *vfStats, t vfFataler, rec []byte, origin string) (outcome string) {
	t.Helper()
	st.Eval()
	if len(rec) < 9 {
		st.Violation(t, "harness: short record")
	}
	orig := vfParseClientHello(rec[5:])
	if len(orig.Violations) > 0 {
		st.Violation(t, "harness: generated hello (%s) is not valid: %v", origin, orig.Violations)
	}
	doc, uns := vf32Render(orig, binary.BigEndian.Uint16(rec[1:]))
	if uns != nil {
		st.Class("not-describable: " + vf07lessClass(uns.why))
		return "not-describable"
	}
	var jspec, rspec ClientHelloSpec
	var jerr, rerr error
	// both import routes as the application reaches them: directly, or through a Fingerprinter whose AlwaysAddPadding
	// option applies to both routes alike (chosen by a bit of the hello, so that the case stays a function of its input)
	route := "direct"
	if rec[len(rec)-1]&1 == 1 {
		route = "fingerprinter(AlwaysAddPadding)"
		f := &Fingerprinter{AlwaysAddPadding: true}
		js, e1 := f.UnmarshalJSONClientHello(doc)
		rs, e2 := f.RawClientHello(rec)
		jerr, rerr = e1, e2
		if js != nil {
			jspec = *js
		}
		if rs != nil {
			rspec = *rs
		}
	} else {
		jerr = jspec.UnmarshalJSON(doc)
		rerr = rspec.FromRaw(rec, false, false)
	}
	st.Class("import-route:" + route)
	if jerr != nil {
		es := jerr.Error()
		if strings.Contains(es, "is not JSON compatible") {
			// the JSON format has no representation for this extension: outside "the supported JSON format"
			st.Class("json-format-cannot-carry: " + vf07lessClass(es))
			return "json-format-cannot-carry"
		}
		st.Violation(t, "JSON import fails (%v) on a document rendered through the value-indexed tables (raw import: %v); hello(%s)=%x doc=%s", jerr, rerr, origin, rec, doc)
	}
	if rerr != nil {
		st.Class("raw-import-error-json-ok: " + vf07lessClass(rerr.Error()))
		return "raw-import-error"
	}
	// imported spec level: suites and extension kinds in order
	if !reflect.DeepEqual(jspec.CipherSuites, rspec.CipherSuites) && !(len(jspec.CipherSuites) == 0 && len(rspec.CipherSuites) == 0) {
		st.Violation(t, "cipher suites differ: JSON %04x raw %04x; hello(%s)=%x", jspec.CipherSuites, rspec.CipherSuites, origin, rec)
	}
	if len(jspec.Extensions) != len(rspec.Extensions) {
		st.Violation(t, "extension count differs: JSON %d raw %d; hello(%s)=%x", len(jspec.Extensions), len(rspec.Extensions), origin, rec)
	}
	for i := range jspec.Extensions {
		if a, b := fmt.Sprintf("%T", jspec.Extensions[i]), fmt.Sprintf("%T", rspec.Extensions[i]); a != b {
			st.Violation(t, "extension %d: JSON gives %s, raw gives %s; hello(%s)=%x", i, a, b, origin, rec)
		}
	}
	jw, jfail, jp := vf32Wire(&jspec)
	rw, rfail, rp := vf32Wire(&rspec)
	if jp != nil || rp != nil {
		st.Violation(t, "ApplyPreset/BuildHandshakeState panicked (json:%v raw:%v); hello(%s)=%x", jp != nil, rp != nil, origin, rec)
	}
	if jfail != "" || rfail != "" {
		if vf32ErrKind(jfail) != vf32ErrKind(rfail) {
			st.Violation(t, "one import is usable, the other is not: JSON spec: %q, raw spec: %q; hello(%s)=%x doc=%s", jfail, rfail, origin, rec, doc)
		}
		st.Class("both-specs-refused: " + vf32ErrKind(jfail))
		return "both-specs-refused"
	}
	o := vfNormOpts{}
	jn, rn, on := vfNormHello(jw, o), vfNormHello(rw, o), vfNormHello(orig, o)
	if d := vfDiffLines(jn, rn); d != "" {
		st.Violation(t, "wire hello from the JSON description differs from the wire hello of the raw import (JSON != raw):\n%s hello(%s)=%x\n doc=%s", d, origin, rec, doc)
	}
	st.Class("json==raw")
	st.NonTrivial(vfHashHex([]byte(strings.Join(on, "\n"))))
	if d := vfDiffLines(jn, on); d != "" {
		// both importers agree with each other but not with the captured hello: C06's subject, recorded only
		st.Class("info: json==raw but both differ from the original hello in: " + strings.SplitN(strings.TrimSpace(strings.SplitN(d, "\n", 2)[0]), "=", 2)[0])
	} else {
		st.Class("json==raw==original")
	}
	return "json==raw"
}

func vf07lessClass(s string) string { // C32 must build without the c07 files: own tiny error-class helper
	out := make([]byte, 0, len(s))
	for i := 0; i < len(s); i++ {
		c := s[i]
		if c >= '0' && c <= '9' {
			if len(out) > 0 && out[len(out)-1] == 'N' {
				continue
			}
			c = 'N'
		}
		out = append(out, c)
	}
	if len(out) > 70 {
		out = out[:70]
	}
	return string(out)
}

// ---- hello sources ----

var (
	vf32SeedOnce sync.Once
	vf32SeedRecs [][]byte
	vf32SeedName []string
	vf32SeedErr  error
)

func vf32Seeds() ([][]byte, []string, error) {
	vf32SeedOnce.Do(func() {
		for i, p := range vfParrots {
			cfg := &Config{ServerName: vf32ServerName, InsecureSkipVerify: true, OmitEmptyPsk: true, Rand: vfNewDetRand(uint64(i), "c32-seed")}
			uc := UClient(&net.TCPConn{}, cfg, p.ID)
			if err := uc.BuildHandshakeState(); err != nil {
				vf32SeedErr = fmt.Errorf("%s: %v", p.Name, err)
				return
			}
			raw := uc.HandshakeState.Hello.Raw
			vf32SeedRecs = append(vf32SeedRecs, append([]byte{22, 3, 1, byte(len(raw) >> 8), byte(len(raw))}, raw...))
			vf32SeedName = append(vf32SeedName, p.Name)
		}
	})
	return vf32SeedRecs, vf32SeedName, vf32SeedErr
}

func vf32Keys16(m map[uint16]string) []uint16 {
	out := make([]uint16, 0, len(m))
	for k := range m {
		out = append(out, k)
	}
	sort.Slice(out, func(i, j int) bool { return out[i] < out[j] })
	return out
}

var (
	vf32AllSuites = vf32Keys16(dicttls.DictCipherSuiteValueIndexed)
	vf32AllGroups = vf32Keys16(dicttls.DictSupportedGroupsValueIndexed)
	vf32AllSigs   = vf32Keys16(dicttls.DictSignatureSchemeValueIndexed)
	vf32AllCAlgs  = vf32Keys16(dicttls.DictCertificateCompressionAlgorithmValueIndexed)
)

func vf32Draw16s(rt *rapid.T, label string, pool []uint16, min, max int, grease bool) []uint16 {
	n := rapid.IntRange(min, max).Draw(rt, label+"_n")
	out := make([]uint16, 0, n+1)
	if grease && rapid.Bool().Draw(rt, label+"_g") {
		out = append(out, 0x0a0a+0x1010*uint16(rapid.IntRange(0, 15).Draw(rt, label+"_gv")))
	}
	seen := map[uint16]bool{}
	for i := 0; i < n; i++ {
		v := pool[rapid.IntRange(0, len(pool)-1).Draw(rt, fmt.Sprintf("%s_%d", label, i))]
		if vfIsGREASE(v) || seen[v] {
			continue
		}
		seen[v] = true
		out = append(out, v)
	}
	return out
}

func vf32List16(vals []uint16) []byte {
	b := []byte{byte(len(vals) * 2 >> 8), byte(len(vals) * 2)}
	for _, v := range vals {
		b = append(b, byte(v>>8), byte(v))
	}
	return b
}

func vf32List8of16(vals []uint16) []byte {
	b := []byte{byte(len(vals) * 2)}
	for _, v := range vals {
		b = append(b, byte(v>>8), byte(v))
	}
	return b
}

func vf32ProtoBody(protos []string) []byte {
	var l []byte
	for _, p := range protos {
		l = append(l, byte(len(p)))
		l = append(l, p...)
	}
	return append([]byte{byte(len(l) >> 8), byte(len(l))}, l...)
}

type vf32ExtB struct {
	typ  uint16
	body []byte
}

// vf32GenHello draws a syntactically valid hello that the JSON format can describe, with code points taken from the
// whole value-indexed tables (not only the ones the parrots use).
func vf32GenHello(rt *rapid.T) []byte {
	suites := vf32Draw16s(rt, "suites", vf32AllSuites, 1, 24, true)
	if len(suites) == 0 {
		suites = []uint16{0x1301}
	}
	comp := []byte{0}
	if rapid.IntRange(0, 5).Draw(rt, "comp") == 0 {
		comp = []byte{0, 1, 64}[:rapid.IntRange(1, 3).Draw(rt, "ncomp")]
	}
	var pool []vf32ExtB
	add := func(typ uint16, body []byte) { pool = append(pool, vf32ExtB{typ, body}) }
	pick := func(label string, prob int) bool { return rapid.IntRange(0, 9).Draw(rt, "has_"+label) < prob }
	if pick("sni", 8) {
		n := []byte(vf32ServerName)
		add(0, append([]byte{0, byte(len(n) + 3), 0, 0, byte(len(n))}, n...))
	}
	if pick("status", 5) {
		add(5, []byte{1, 0, 0, 0, 0})
	}
	if pick("groups", 8) {
		add(10, vf32List16(vf32Draw16s(rt, "groups", vf32AllGroups, 1, 8, true)))
	}
	if pick("points", 6) {
		add(11, [][]byte{{1, 0}, {3, 0, 1, 2}, {2, 1, 0}}[rapid.IntRange(0, 2).Draw(rt, "points")])
	}
	if pick("sigs", 8) {
		add(13, vf32List16(vf32Draw16s(rt, "sigs", vf32AllSigs, 1, 10, false)))
	}
	if pick("sigscert", 2) {
		add(50, vf32List16(vf32Draw16s(rt, "sigscert", vf32AllSigs, 1, 5, false)))
	}
	if pick("dc", 2) {
		add(34, vf32List16(vf32Draw16s(rt, "dc", vf32AllSigs, 1, 4, false)))
	}
	protos := [][]string{{"h2", "http/1.1"}, {"h2"}, {"http/1.1"}, {"h3", "h2", "spdy/3.1"}}
	if pick("alpn", 7) {
		add(16, vf32ProtoBody(protos[rapid.IntRange(0, 3).Draw(rt, "alpn")]))
	}
	if pick("alps", 3) {
		add([]uint16{17513, 17613}[rapid.IntRange(0, 1).Draw(rt, "alpscp")], vf32ProtoBody(protos[rapid.IntRange(0, 3).Draw(rt, "alps")]))
	}
	if pick("v2", 1) {
		add(17, []byte{0, 7, 2, 0, 4, 0, 0, 0, 0})
	}
	for _, e := range []struct {
		l string
		t uint16
		p int
	}{{"sct", 18, 5}, {"ems", 23, 7}, {"ticket", 35, 6}, {"npn", 13172, 1}, {"chid", 30032, 1}, {"chidold", 30031, 1}} {
		if pick(e.l, e.p) {
			add(e.t, nil)
		}
	}
	if pick("reneg", 6) {
		add(0xff01, []byte{0})
	}
	if pick("tb", 1) {
		add(24, []byte{1, 0, 2, 1, 2})
	}
	if pick("ccert", 4) {
		add(27, vf32List8of16(vf32Draw16s(rt, "ccert", vf32AllCAlgs, 1, 3, false)))
	}
	if pick("rsl", 3) {
		add(28, []byte{byte(rapid.IntRange(0, 255).Draw(rt, "rsl_hi")), byte(rapid.IntRange(0, 255).Draw(rt, "rsl_lo"))})
	}
	tls13 := pick("tls13", 7)
	if tls13 {
		vs := [][]uint16{{0x0304, 0x0303}, {0x0304}, {0x0304, 0x0303, 0x0302, 0x0301}, {0x0303, 0x0302}}[rapid.IntRange(0, 3).Draw(rt, "sv")]
		if rapid.Bool().Draw(rt, "sv_grease") {
			vs = append([]uint16{0x2a2a}, vs...)
		}
		add(43, vf32List8of16(vs))
		if pick("modes", 8) {
			add(45, [][]byte{{1, 1}, {2, 1, 0}, {1, 0}}[rapid.IntRange(0, 2).Draw(rt, "modes")])
		}
		if pick("ks", 9) {
			cands := []uint16{0x001d, 0x0017, 0x0018, 0x0019}
			if rapid.IntRange(0, 9).Draw(rt, "ks_pq") == 0 {
				cands = append(cands, 0x11ec, 0x6399) // hybrids utls can generate but dicttls has no name for
			}
			if rapid.IntRange(0, 7).Draw(rt, "ks_unsupported") == 0 {
				cands = append(cands, 0x0100, 0x001e) // ffdhe2048, x448: named, but utls cannot generate a key
			}
			var lst []byte
			if rapid.Bool().Draw(rt, "ks_grease") {
				lst = append(lst, 0x3a, 0x3a, 0, 1, 0)
			}
			for _, g := range vf32Draw16s(rt, "ks", cands, 0, 3, false) {
				sz := vfShareSize(g)
				if sz == 0 {
					sz = 56
				}
				lst = append(lst, byte(g>>8), byte(g), byte(sz>>8), byte(sz))
				lst = append(lst, make([]byte, sz)...)
			}
			add(51, append([]byte{byte(len(lst) >> 8), byte(len(lst))}, lst...))
		}
	}
	// order: a drawn permutation
	perm := rapid.Permutation(pool).Draw(rt, "order")
	// GREASE extensions: first anywhere (free body), second with the body {0} BoringSSL uses
	if pick("grease1", 4) {
		perm = append([]vf32ExtB{{0x4a4a, vf32Body(rt, "g1", 3)}}, perm...)
		if pick("grease2", 6) {
			j := rapid.IntRange(1, len(perm)).Draw(rt, "g2pos")
			perm = append(perm[:j:j], append([]vf32ExtB{{0x9a9a, []byte{0}}}, perm[j:]...)...)
		}
	}
	if pick("padding", 3) {
		perm = append(perm, vf32ExtB{21, make([]byte, rapid.IntRange(1, 200).Draw(rt, "padlen"))})
	}
	if tls13 && pick("psk", 2) {
		idl := rapid.IntRange(1, 120).Draw(rt, "psk_id")
		bl := []int{32, 48}[rapid.IntRange(0, 1).Draw(rt, "psk_b")]
		ids := append([]byte{byte(idl >> 8), byte(idl)}, make([]byte, idl)...)
		ids = append(ids, 1, 2, 3, 4)
		b := append([]byte{byte(bl)}, make([]byte, bl)...)
		body := append([]byte{byte(len(ids) >> 8), byte(len(ids))}, ids...)
		body = append(body, byte(len(b)>>8), byte(len(b)))
		perm = append(perm, vf32ExtB{41, append(body, b...)})
	}
	// assemble
	msg := []byte{3, 3}
	msg = append(msg, make([]byte, 32)...)
	msg = append(msg, 32)
	msg = append(msg, make([]byte, 32)...)
	msg = append(msg, vf32List16(suites)...)
	msg = append(msg, byte(len(comp)))
	msg = append(msg, comp...)
	var eb []byte
	for _, e := range perm {
		eb = append(eb, byte(e.typ>>8), byte(e.typ), byte(len(e.body)>>8), byte(len(e.body)))
		eb = append(eb, e.body...)
	}
	msg = append(msg, byte(len(eb)>>8), byte(len(eb)))
	msg = append(msg, eb...)
	hs := append([]byte{1, byte(len(msg) >> 16), byte(len(msg) >> 8), byte(len(msg))}, msg...)
	return append([]byte{22, 3, 1, byte(len(hs) >> 8), byte(len(hs))}, hs...)
}

func vf32Body(rt *rapid.T, label string, max int) []byte {
	return rapid.SliceOfN(rapid.Byte(), 0, max).Draw(rt, label)
}

func TestVerifC32JSONvsRaw(t *testing.T) {
	st := vfNewStats(t, "C32")
	recs, names, err := vf32Seeds()
	if err != nil {
		t.Fatalf("C32: cannot build parrot hellos: %v", err)
	}
	for i, r := range recs {
		st.Class("parrot: " + vf32Compare(st, t, r, names[i]))
	}
	rapid.Check(t, func(rt *rapid.T) {
		rec := vf32GenHello(rt)
		h := vfParseClientHello(rec[5:])
		st.Sample(map[string]any{"ext_types": h.ExtTypes(), "suites": len(h.Suites)})
		st.Class("generated: " + vf32Compare(st, rt, rec, "generated"))
	})
}

// ---- exhaustive: every name of the tables the JSON importer consults maps to the intended code point ----

func vf32ImportOne(doc string) (*ClientHelloSpec, error) {
	var s ClientHelloSpec
	var err error
	if p := vfCatch(func() { err = s.UnmarshalJSON([]byte(doc)) }); p != nil {
		return nil, fmt.Errorf("panic: %v", p.Val)
	}
	return &s, err
}

func vf32Q(s string) string { b, _ := json.Marshal(s); return string(b) }

func vf32ExtWireType(e TLSExtension) (uint16, bool) {
	switch x := e.(type) {
	case *SNIExtension:
		return 0, true
	case *UtlsPaddingExtension:
		return 21, true
	case *FakePreSharedKeyExtension, *UtlsPreSharedKeyExtension:
		return 41, true
	default:
		var buf []byte
		var n int
		var err error
		if p := vfCatch(func() { buf = make([]byte, x.Len()); n, err = x.Read(buf) }); p != nil || n < 4 || (err != nil && err != io.EOF) {
			return 0, false
		}
		return binary.BigEndian.Uint16(buf), true
	}
}

func TestVerifC32NamesImport(t *testing.T) {
	st := vfNewStats(t, "C32")
	wrap := func(ext string) string {
		return `{"cipher_suites":[],"compression_methods":[],"extensions":[` + ext + `]}`
	}
	check := func(table string, v uint64, name string, doc string, get func(*ClientHelloSpec) (uint64, bool)) {
		st.Eval()
		st.NonTrivial(fmt.Sprintf("%s[%d]", table, v))
		if name == "GREASE" {
			st.Class("name-is-GREASE")
			return
		}
		s, err := vf32ImportOne(doc)
		if err != nil {
			st.Class("name-import: error")
			st.KnownOrViolation(t, fmt.Sprintf("C32:json-import:%s[%d]:name-rejected", table, v),
				"%sValueIndexed[%d]=%q: the JSON importer rejects that name: %v", table, v, name, err)
			return
		}
		got, ok := get(s)
		if !ok || got != v {
			st.Class("name-import: wrong code point")
			st.KnownOrViolation(t, fmt.Sprintf("C32:json-import:%s[%d]:wrong-code-point", table, v),
				"%sValueIndexed[%d]=%q imports as %d (found=%v)", table, v, name, got, ok)
			return
		}
		st.Class("name-import: ok")
	}
	for _, v := range vf32AllSuites {
		n := dicttls.DictCipherSuiteValueIndexed[v]
		check("DictCipherSuite", uint64(v), n, `{"cipher_suites":[`+vf32Q(n)+`],"compression_methods":[],"extensions":[]}`,
			func(s *ClientHelloSpec) (uint64, bool) {
				if len(s.CipherSuites) != 1 {
					return 0, false
				}
				return uint64(s.CipherSuites[0]), true
			})
	}
	for v, n := range dicttls.DictCompMethValueIndexed {
		check("DictCompMeth", uint64(v), n, `{"cipher_suites":[],"compression_methods":[`+vf32Q(n)+`],"extensions":[]}`,
			func(s *ClientHelloSpec) (uint64, bool) {
				if len(s.CompressionMethods) != 1 {
					return 0, false
				}
				return uint64(s.CompressionMethods[0]), true
			})
	}
	for _, v := range vf32AllGroups {
		n := dicttls.DictSupportedGroupsValueIndexed[v]
		check("DictSupportedGroups", uint64(v), n, wrap(`{"name":"supported_groups","named_group_list":[`+vf32Q(n)+`]}`),
			func(s *ClientHelloSpec) (uint64, bool) {
				e, ok := s.Extensions[0].(*SupportedCurvesExtension)
				if !ok || len(e.Curves) != 1 {
					return 0, false
				}
				return uint64(e.Curves[0]), true
			})
		check("DictSupportedGroups(key_share)", uint64(v), n, wrap(`{"name":"key_share","client_shares":[{"group":`+vf32Q(n)+`}]}`),
			func(s *ClientHelloSpec) (uint64, bool) {
				e, ok := s.Extensions[0].(*KeyShareExtension)
				if !ok || len(e.KeyShares) != 1 {
					return 0, false
				}
				return uint64(e.KeyShares[0].Group), true
			})
	}
	for _, v := range vf32AllSigs {
		n := dicttls.DictSignatureSchemeValueIndexed[v]
		for _, ext := range []string{"signature_algorithms", "signature_algorithms_cert", "delegated_credentials"} {
			check("DictSignatureScheme("+ext+")", uint64(v), n, wrap(`{"name":"`+ext+`","supported_signature_algorithms":[`+vf32Q(n)+`]}`),
				func(s *ClientHelloSpec) (uint64, bool) {
					var l []SignatureScheme
					switch e := s.Extensions[0].(type) {
					case *SignatureAlgorithmsExtension:
						l = e.SupportedSignatureAlgorithms
					case *SignatureAlgorithmsCertExtension:
						l = e.SupportedSignatureAlgorithms
					case *FakeDelegatedCredentialsExtension:
						l = e.SupportedSignatureAlgorithms
					}
					if len(l) != 1 {
						return 0, false
					}
					return uint64(l[0]), true
				})
		}
	}
	for v, n := range dicttls.DictECPointFormatValueIndexed {
		check("DictECPointFormat", uint64(v), n, wrap(`{"name":"ec_point_formats","ec_point_format_list":[`+vf32Q(n)+`]}`),
			func(s *ClientHelloSpec) (uint64, bool) {
				e, ok := s.Extensions[0].(*SupportedPointsExtension)
				if !ok || len(e.SupportedPoints) != 1 {
					return 0, false
				}
				return uint64(e.SupportedPoints[0]), true
			})
	}
	for v, n := range dicttls.DictPSKKeyExchangeModeValueIndexed {
		check("DictPSKKeyExchangeMode", uint64(v), n, wrap(`{"name":"psk_key_exchange_modes","ke_modes":[`+vf32Q(n)+`]}`),
			func(s *ClientHelloSpec) (uint64, bool) {
				e, ok := s.Extensions[0].(*PSKKeyExchangeModesExtension)
				if !ok || len(e.Modes) != 1 {
					return 0, false
				}
				return uint64(e.Modes[0]), true
			})
	}
	for _, v := range vf32AllCAlgs {
		n := dicttls.DictCertificateCompressionAlgorithmValueIndexed[v]
		check("DictCertificateCompressionAlgorithm", uint64(v), n, wrap(`{"name":"compress_certificate","algorithms":[`+vf32Q(n)+`]}`),
			func(s *ClientHelloSpec) (uint64, bool) {
				e, ok := s.Extensions[0].(*UtlsCompressCertExtension)
				if !ok || len(e.Algorithms) != 1 {
					return 0, false
				}
				return uint64(e.Algorithms[0]), true
			})
	}
	// extension names: either refused as not representable, or an extension that marshals with exactly that type
	for _, v := range vf32Keys16(dicttls.DictExtTypeValueIndexed) {
		n := dicttls.DictExtTypeValueIndexed[v]
		st.Eval()
		st.NonTrivial(fmt.Sprintf("DictExtType[%d]", v))
		s, err := vf32ImportOne(wrap(`{"name":` + vf32Q(n) + `}`))
		if err != nil {
			if strings.Contains(err.Error(), "is not JSON compatible") && strings.Contains(err.Error(), fmt.Sprintf("(%d)", v)) {
				st.Class("ext-name: resolved to the right id, not representable in JSON")
				continue
			}
			st.Class("ext-name: error")
			st.KnownOrViolation(t, fmt.Sprintf("C32:json-import:DictExtType[%d]:name-rejected", v), "DictExtTypeValueIndexed[%d]=%q: %v", v, n, err)
			continue
		}
		got, ok := vf32ExtWireType(s.Extensions[0])
		if !ok {
			st.Class("ext-name: imported, wire type not observable")
			continue
		}
		if got != v {
			st.Class("ext-name: wrong code point")
			st.KnownOrViolation(t, fmt.Sprintf("C32:json-import:DictExtType[%d]:wrong-code-point", v), "extension name %q (value %d) imports as %T which marshals as type %d", n, v, s.Extensions[0], got)
			continue
		}
		st.Class("ext-name: ok")
	}
}
