//go:build verif

package tls

import (
	"fmt"
	"testing"
)

func TestVerifC20ZDebug(t *testing.T) {
	for _, pn := range []vfParrot{{"HelloFirefox_63", HelloFirefox_63}, {"HelloChrome_100", HelloChrome_100}, {"HelloChrome_100_PSK", HelloChrome_100_PSK}} {
		for _, seq := range [][]string{{"H"}, {"W", "H"}, {"W", "B", "H"}, {"B", "B", "H"}, {"W", "W", "H"}} {
			id, _ := vf20NewIdent(pn, nil)
			env := vf20NewEnv(id, VersionTLS13, 1)
			pair, _ := env.newPair(NewLRUClientSessionCache(4), VersionTLS13)
			var errs []error
			for _, o := range seq {
				switch o {
				case "W":
					errs = append(errs, pair.Cli.BuildHandshakeStateWithoutSession())
				case "B":
					errs = append(errs, pair.Cli.BuildHandshakeState())
				case "H":
					c, s, _, _ := vf20Run(pair)
					errs = append(errs, c, s)
				}
			}
			fmt.Printf("DBG %s %v -> %v\n", pn.Name, seq, errs)
		}
	}
}
