//go:build verif

package tls

// C04 - GREASE values are well-formed, distinct where required, and fresh.
//
// (a) GetBoringGREASEValue over drawn seeds and exhaustively over one seed word; (b) wire hellos of every parrot,
// of randomized IDs and of fingerprinted captures, K connections per source with distinct deterministic Config.Rand
// streams (and a sweep with crypto/rand); (c) the QUIC generators GREASETransportParameter and VersionInformation and
// the marshaled quic_transport_parameters body.
//
// Oracle: own predicates for the reserved spaces (RFC 8701: 0x?A?A with equal bytes; RFC 9000 18.1: 31*N+27 below
// 2^62; RFC 9000 15: 0x?a?a?a?a); the positions at which GREASE is expected come from the spec's placeholders, the
// values from the parsed wire bytes.

import (
	"encoding/binary"
	"fmt"
	"io"
	"reflect"
	"testing"

	"pgregory.net/rapid"
)

const vf04KeyQUICVersion = "C04:quic-grease-version-not-reserved"

func vf04Reserved16(v uint16) bool { return v&0x0f0f == 0x0a0a && byte(v>>8) == byte(v) }
func vf04Reserved32(v uint32) bool { return v&0x0f0f0f0f == 0x0a0a0a0a }
func vf04ReservedTP(id uint64) bool {
	return id < 1<<62 && id >= 27 && (id-27)%31 == 0
}

func vf04Mask(l []uint16) []uint16 {
	out := make([]uint16, len(l))
	for i, v := range l {
		if vf04Reserved16(v) {
			out[i] = 0x0a0a
		} else {
			out[i] = v
		}
	}
	return out
}

func vf04Count(l []uint16) (n int, vals []uint16) {
	for _, v := range l {
		if vf04Reserved16(v) {
			n++
			vals = append(vals, v)
		}
	}
	return
}

// ---- (a) the generator function ----

func TestVerifC04BoringValue(t *testing.T) {
	st := vfNewStats(t, "C04")
	rapid.Check(t, func(rt *rapid.T) {
		raw := rapid.SliceOfN(rapid.Uint16(), 5*16, 5*16).Draw(rt, "seeds")
		for k := 0; k < 16; k++ {
			var seed [ssl_grease_last_index]uint16
			copy(seed[:], raw[5*k:])
			st.Eval()
			st.NonTrivial(fmt.Sprintf("bv:%04x", seed))
			for idx := 0; idx < ssl_grease_last_index; idx++ {
				v := GetBoringGREASEValue(seed, idx)
				if !vf04Reserved16(v) {
					st.Violation(rt, "GetBoringGREASEValue(%04x,%d)=%04x is not of the form 0x?A?A", seed, idx, v)
				}
				// depends on the indexed word only, and is a function (same input, same output)
				other := seed
				for j := range other {
					if j != idx {
						other[j] ^= raw[(5*k+j+7)%len(raw)] | 1
					}
				}
				if GetBoringGREASEValue(other, idx) != v || GetBoringGREASEValue(seed, idx) != v {
					st.Violation(rt, "GetBoringGREASEValue(.,%d) depends on more than seed[%d]", idx, idx)
				}
			}
		}
		st.Class("drawn-seeds")
	})
	// exhaustive over one seed word: image = exactly the 16 reserved values, as the function documents
	for idx := 0; idx < ssl_grease_last_index; idx++ {
		img := map[uint16]int{}
		for x := 0; x < 1<<16; x++ {
			var seed [ssl_grease_last_index]uint16
			seed[idx] = uint16(x)
			v := GetBoringGREASEValue(seed, idx)
			if !vf04Reserved16(v) {
				st.Violation(t, "GetBoringGREASEValue(seed[%d]=%04x)=%04x is not of the form 0x?A?A", idx, x, v)
			}
			img[v]++
		}
		st.Eval()
		st.Class("exhaustive-word")
		st.NonTrivial(fmt.Sprintf("exh:%d", idx))
		if len(img) != 16 {
			st.Violation(t, "GetBoringGREASEValue index %d reaches %d of the 16 reserved values: %v", idx, len(img), img)
		}
	}
}

// ---- (b) wire hellos ----

type vf04Expect struct {
	suites, groups, shares, versions []uint16 // spec lists with reserved values masked to 0x0a0a
	nExt                             int      // GREASE extensions in the spec
}

func vf04ExpectOf(spec *ClientHelloSpec) vf04Expect {
	e := vf04Expect{suites: vf04Mask(spec.CipherSuites)}
	for _, x := range spec.Extensions {
		switch ext := x.(type) {
		case *UtlsGREASEExtension:
			e.nExt++
		case *SupportedCurvesExtension:
			for _, c := range ext.Curves {
				e.groups = append(e.groups, uint16(c))
			}
			e.groups = vf04Mask(e.groups)
		case *KeyShareExtension:
			for _, k := range ext.KeyShares {
				e.shares = append(e.shares, uint16(k.Group))
			}
			e.shares = vf04Mask(e.shares)
		case *SupportedVersionsExtension:
			e.versions = vf04Mask(ext.Versions)
		}
	}
	return e
}

type vf04Seen struct {
	cipher, group, version map[uint16]bool
	ext1, ext2             map[uint16]bool
	hellos                 int
	withGrease             int
}

func vf04NewSeen() *vf04Seen {
	return &vf04Seen{cipher: map[uint16]bool{}, group: map[uint16]bool{}, version: map[uint16]bool{}, ext1: map[uint16]bool{}, ext2: map[uint16]bool{}}
}

// vf04CheckHello judges one wire hello against the expectation derived from its spec; returns a failure text or "".
func vf04CheckHello(raw []byte, exp vf04Expect, seen *vf04Seen) string {
	h := vfParseClientHello(raw)
	if len(h.Violations) > 0 {
		return fmt.Sprintf("hello does not parse cleanly: %v", h.Violations)
	}
	seen.hellos++
	found := false
	// cipher suites
	if got := vf04Mask(h.Suites); !reflect.DeepEqual(got, exp.suites) {
		return fmt.Sprintf("cipher suites %04x: after masking reserved values they are not the spec's %04x", h.Suites, exp.suites)
	}
	_, cs := vf04Count(h.Suites)
	for _, v := range cs {
		if v != cs[0] {
			return fmt.Sprintf("two different GREASE cipher values in one hello: %04x", cs)
		}
		seen.cipher[v] = true
		found = true
	}
	// groups and key shares
	groups := h.Groups()
	var want []uint16
	if h.Ext(10) != nil || len(exp.groups) > 0 {
		want = exp.groups
		if got := vf04Mask(groups); !reflect.DeepEqual(got, want) && !(len(got) == 0 && len(want) == 0) {
			return fmt.Sprintf("supported_groups %04x: after masking reserved values not the spec's %04x", groups, want)
		}
	}
	_, gg := vf04Count(groups)
	for _, v := range gg {
		if v != gg[0] {
			return fmt.Sprintf("two different GREASE groups in supported_groups: %04x", gg)
		}
		seen.group[v] = true
		found = true
	}
	var shares []uint16
	for _, ks := range h.KeyShares() {
		shares = append(shares, ks.Group)
	}
	if got := vf04Mask(shares); !reflect.DeepEqual(got, exp.shares) && !(len(got) == 0 && len(exp.shares) == 0) {
		return fmt.Sprintf("key_share groups %04x: after masking reserved values not the spec's %04x", shares, exp.shares)
	}
	_, sg := vf04Count(shares)
	for _, v := range sg {
		if len(gg) == 0 || v != gg[0] {
			return fmt.Sprintf("GREASE key share group %04x != GREASE group in supported_groups %04x", v, gg)
		}
	}
	// versions
	vers, _ := h.SupportedVersions()
	if got := vf04Mask(vers); !reflect.DeepEqual(got, exp.versions) && !(len(got) == 0 && len(exp.versions) == 0) {
		return fmt.Sprintf("supported_versions %04x: after masking reserved values not the spec's %04x", vers, exp.versions)
	}
	_, vv := vf04Count(vers)
	for _, v := range vv {
		seen.version[v] = true
		found = true
	}
	// extensions
	_, ee := vf04Count(h.ExtTypes())
	if len(ee) != exp.nExt {
		return fmt.Sprintf("%d GREASE extensions on the wire (types %04x of %v), spec has %d", len(ee), ee, h.ExtTypes(), exp.nExt)
	}
	if len(ee) >= 1 {
		seen.ext1[ee[0]] = true
		found = true
	}
	if len(ee) >= 2 {
		if ee[0] == ee[1] {
			return fmt.Sprintf("both GREASE extensions use code point %04x", ee[0])
		}
		seen.ext2[ee[1]] = true
	}
	if found {
		seen.withGrease++
	}
	return ""
}

// vf04Fresh: every GREASE kind that occurs must take at least 2 values over the connections.
func vf04Fresh(seen *vf04Seen, conns int) string {
	if seen.withGrease == 0 {
		return ""
	}
	for _, k := range []struct {
		n string
		m map[uint16]bool
	}{{"cipher", seen.cipher}, {"group", seen.group}, {"version", seen.version}, {"extension1", seen.ext1}, {"extension2", seen.ext2}} {
		if len(k.m) == 1 {
			return fmt.Sprintf("GREASE %s value is the same (%v) in all %d connections", k.n, k.m, conns)
		}
	}
	return ""
}

type vf04Source struct {
	kind   string // parrot | randomized | fingerprinted | json
	parrot vfParrot
	id     ClientHelloID
	// share: ONE spec object (fingerprinted once) is applied to every connection of the source, as an application that
	// keeps its imported fingerprint around does; ApplyPreset re-draws the GREASE values of a spec it has seen before
	share      bool
	sharedSpec *ClientHelloSpec
	sharedExp  vf04Expect
	// concrete: the spec carries concrete reserved values (0x2a2a, 0x3a3a, ...) where a fingerprinted spec has the
	// 0x0a0a placeholder - what an import that copies a captured list verbatim produces (ImportTLSClientHello), or a
	// hand-written spec; they are GREASE all the same and vary per connection
	concrete bool
	// quic: the hello is built by a UQUICConn (UQUICClient): no legacy session id, same GREASE rules
	quic bool
	// moved > 0: a hand-edited copy of the parrot's spec whose GREASE placeholders are NOT at the head of the cipher,
	// group and version lists (rotated by this amount): GREASE is GREASE wherever it stands
	moved int
}

// vf04Concretize replaces every GREASE value of the spec's cipher, group, version and key-share lists by a fixed
// reserved value other than the placeholder.
func vf04Concretize(spec *ClientHelloSpec) {
	const v = 0x2a2a
	for i, c := range spec.CipherSuites {
		if vfIsGREASE(c) {
			spec.CipherSuites[i] = v
		}
	}
	for _, x := range spec.Extensions {
		switch ext := x.(type) {
		case *SupportedCurvesExtension:
			for i, c := range ext.Curves {
				if vfIsGREASE(uint16(c)) {
					ext.Curves[i] = CurveID(v)
				}
			}
		case *KeyShareExtension:
			for i, k := range ext.KeyShares {
				if vfIsGREASE(uint16(k.Group)) {
					ext.KeyShares[i].Group = CurveID(v)
				}
			}
		case *SupportedVersionsExtension:
			for i, c := range ext.Versions {
				if vfIsGREASE(c) {
					ext.Versions[i] = v
				}
			}
		}
	}
}

func (s *vf04Source) name() string {
	if s.kind == "randomized" {
		return "randomized:" + s.id.Client
	}
	k := s.kind
	if s.concrete {
		k += "(concrete reserved values in the spec)"
	}
	if s.quic && s.moved == 0 {
		k += "(UQUICClient)"
	}
	if s.moved > 0 {
		k += fmt.Sprintf("(GREASE placeholders moved by %d)", s.moved)
	}
	if s.share {
		return k + "(one spec object for all connections):" + s.parrot.Name
	}
	return k + ":" + s.parrot.Name
}

func vf04Record(msg []byte) []byte {
	rec := []byte{22, 3, 1, byte(len(msg) >> 8), byte(len(msg))}
	return append(rec, msg...)
}

// vf04Hello builds one hello for the source with the given random stream; returns raw bytes and the expectation.
// skip != "" means the source cannot be used (e.g. the capture could not be fingerprinted): not a verdict of C04.
func vf04Hello(s *vf04Source, rnd *vfDetRand, name string) (raw []byte, exp vf04Expect, skip string, err error) {
	cfg := &Config{ServerName: name, OmitEmptyPsk: true}
	if rnd != nil {
		cfg.Rand = rnd
		if vf04ShortReads > 0 {
			cfg.Rand = &vf04ShortReader{r: rnd, k: vf04ShortReads}
		}
	}
	cp, sp := vfPipe()
	defer cp.Close()
	defer sp.Close()
	switch s.kind {
	case "parrot", "randomized":
		var spec ClientHelloSpec
		spec, err = UTLSIdToSpec(s.id)
		if err != nil {
			return
		}
		exp = vf04ExpectOf(&spec)
		if s.moved > 0 {
			rot := func(l []uint16) []uint16 {
				if len(l) < 2 || !vfIsGREASE(l[0]) {
					return l
				}
				k := 1 + (s.moved-1)%(len(l)-1)
				out := append([]uint16(nil), l[1:k+1]...)
				out = append(out, l[0])
				return append(out, l[k+1:]...)
			}
			spec.CipherSuites = rot(spec.CipherSuites)
			for _, x := range spec.Extensions {
				switch ext := x.(type) {
				case *SupportedCurvesExtension:
					l := make([]uint16, len(ext.Curves))
					for i, c := range ext.Curves {
						l[i] = uint16(c)
					}
					l = rot(l)
					for i := range l {
						ext.Curves[i] = CurveID(l[i])
					}
				case *SupportedVersionsExtension:
					ext.Versions = rot(ext.Versions)
				}
			}
			exp = vf04ExpectOf(&spec)
			c := UClient(cp, cfg, HelloCustom)
			if err = c.ApplyPreset(&spec); err != nil {
				return
			}
			if err = c.BuildHandshakeState(); err != nil {
				return
			}
			return c.HandshakeState.Hello.Raw, exp, "", nil
		}
		c := UClient(cp, cfg, s.id)
		if s.quic {
			q := UQUICClient(&QUICConfig{TLSConfig: cfg}, s.id)
			q.SetTransportParameters([]byte{})
			c = q.conn
		}
		if err = c.BuildHandshakeState(); err != nil {
			return
		}
		if s.kind == "randomized" {
			// the spec really used is the connection's own (same seed => same lists; read them from there)
			exp = vf04ExpectOf(c.clientHelloSpec)
		}
		return c.HandshakeState.Hello.Raw, exp, "", nil
	default: // fingerprinted / json: capture = a hello of the parrot built with another stream; spec = fingerprint of it
		capCfg := &Config{ServerName: vfDNSNameOfLen(len(name), 'c'), OmitEmptyPsk: true, Rand: vfNewDetRand(uint64(len(name)), "capture-"+s.parrot.Name)}
		cc := UClient(cp, capCfg, s.parrot.ID)
		if err = cc.BuildHandshakeState(); err != nil {
			return
		}
		var spec *ClientHelloSpec
		if s.kind == "json" {
			// the same capture written in the documented JSON format and imported with ClientHelloSpec.UnmarshalJSON
			doc, ok := vf02HelloToJSON(vfParseClientHello(cc.HandshakeState.Hello.Raw))
			if !ok {
				return nil, exp, "capture-not-expressible-in-json", nil
			}
			spec = &ClientHelloSpec{}
			if jerr := spec.UnmarshalJSON(doc); jerr != nil {
				return nil, exp, "json-import-error: " + jerr.Error(), nil
			}
			exp = vf04ExpectOf(spec)
			cp2, sp2 := vfPipe()
			defer cp2.Close()
			defer sp2.Close()
			c := UClient(cp2, cfg, HelloCustom)
			if err = c.ApplyPreset(spec); err != nil {
				return nil, exp, "json-spec-not-applicable: " + err.Error(), nil
			}
			if err = c.BuildHandshakeState(); err != nil {
				return nil, exp, "json-spec-not-buildable: " + err.Error(), nil
			}
			return c.HandshakeState.Hello.Raw, exp, "", nil
		}
		var ferr error
		if s.share && s.sharedSpec != nil {
			spec, exp = s.sharedSpec, s.sharedExp
		} else {
			spec, ferr = (&Fingerprinter{}).FingerprintClientHello(vf04Record(cc.HandshakeState.Hello.Raw))
			if ferr != nil {
				return nil, exp, "fingerprint-error: " + ferr.Error(), nil
			}
			if s.concrete {
				vf04Concretize(spec)
			}
			exp = vf04ExpectOf(spec)
			if s.share {
				s.sharedSpec, s.sharedExp = spec, exp
			}
		}
		cp2, sp2 := vfPipe()
		defer cp2.Close()
		defer sp2.Close()
		c := UClient(cp2, cfg, HelloCustom)
		if err = c.ApplyPreset(spec); err != nil {
			return
		}
		if err = c.BuildHandshakeState(); err != nil {
			return
		}
		return c.HandshakeState.Hello.Raw, exp, "", nil
	}
}

// vf04ShortReads > 0: Config.Rand hands out at most that many bytes per Read call (legal for an io.Reader: a pipe, a
// hardware RNG, a small bufio.Reader); the values drawn from it must be as fresh as with a reader that fills the buffer
var vf04ShortReads int

type vf04ShortReader struct {
	r io.Reader
	k int
}

func (s *vf04ShortReader) Read(p []byte) (int, error) {
	if len(p) > s.k {
		p = p[:s.k]
	}
	return s.r.Read(p)
}

func vf04RunSource(st *vfStats, t vfFataler, s *vf04Source, conns int, streamSeed uint64, det bool) {
	seen := vf04NewSeen()
	name := "grease.example.test"
	for i := 0; i < conns; i++ {
		var rnd *vfDetRand
		if det {
			rnd = vfNewDetRand(streamSeed, fmt.Sprintf("%s|%d", s.name(), i))
		}
		raw, exp, skip, err := vf04Hello(s, rnd, name)
		if err != nil {
			st.Violation(t, "%s: building the hello failed: %v", s.name(), err)
		}
		if skip != "" {
			st.Class("skipped:" + s.kind)
			return
		}
		if msg := vf04CheckHello(raw, exp, seen); msg != "" {
			st.Violation(t, "%s (connection %d, stream %d): %s", s.name(), i, streamSeed, msg)
		}
	}
	if msg := vf04Fresh(seen, conns); msg != "" {
		st.Violation(t, "%s (stream %d): %s", s.name(), streamSeed, msg)
	}
	st.Eval()
	st.Class("source:" + s.kind)
	if s.share {
		st.Class("source:one-spec-object-reused")
	}
	if s.quic {
		st.Class("source:built-by-UQUICClient")
	}
	if s.moved > 0 {
		st.Class("source:GREASE-not-at-the-head-of-its-lists")
	}
	if seen.withGrease > 0 {
		st.Class("with-grease:" + s.kind)
		st.NonTrivial(fmt.Sprintf("%s|%d|%v", s.name(), streamSeed, det))
		if len(seen.ext2) > 0 {
			st.Class("two-grease-extensions")
		}
	} else {
		st.Class("no-grease:" + s.kind)
	}
	st.Sample(map[string]any{"source": s.name(), "connections": conns, "cipher_values": len(seen.cipher), "group_values": len(seen.group),
		"version_values": len(seen.version), "ext1_values": len(seen.ext1), "ext2_values": len(seen.ext2)})
}

func vf04GenSource(rt *rapid.T) *vf04Source {
	switch rapid.IntRange(0, 9).Draw(rt, "kind") {
	case 0:
		id := vf04VariantID(rapid.IntRange(0, 2).Draw(rt, "variant"))
		var seed PRNGSeed
		copy(seed[:], rapid.SliceOfN(rapid.Byte(), 32, 32).Draw(rt, "seed"))
		id.Seed = &seed
		return &vf04Source{kind: "randomized", id: id}
	case 1, 2:
		p := vfGenParrot(rt, "parrot")
		return &vf04Source{kind: "fingerprinted", parrot: p, id: p.ID, share: rapid.Bool().Draw(rt, "share_spec_object"), concrete: rapid.IntRange(0, 2).Draw(rt, "concrete_reserved_values") == 0}
	case 3:
		p := vfGenParrot(rt, "parrot")
		return &vf04Source{kind: "json", parrot: p, id: p.ID}
	default:
		p := vfGenParrot(rt, "parrot")
		return &vf04Source{kind: "parrot", parrot: p, id: p.ID, quic: rapid.IntRange(0, 3).Draw(rt, "via_uquic") == 0,
			moved: rapid.SampledFrom([]int{0, 0, 0, 1, 2, 5}).Draw(rt, "grease_moved")}
	}
}

func vf04VariantID(i int) ClientHelloID {
	return []ClientHelloID{HelloRandomized, HelloRandomizedALPN, HelloRandomizedNoALPN}[i]
}

const vf04Conns = 32

func TestVerifC04WireHellos(t *testing.T) {
	st := vfNewStats(t, "C04")
	rapid.Check(t, func(rt *rapid.T) {
		s := vf04GenSource(rt)
		stream := rapid.Uint64().Draw(rt, "stream")
		vf04ShortReads = rapid.SampledFrom([]int{0, 0, 0, 1, 3, 9}).Draw(rt, "rand_short_reads")
		defer func() { vf04ShortReads = 0 }()
		if vf04ShortReads > 0 {
			st.Class("config-rand:short-reads")
		}
		vf04RunSource(st, rt, s, vf04Conns, stream, true)
	})
}

// Every parrot once with deterministic streams and once with crypto/rand (Config.Rand == nil), and its fingerprint.
func TestVerifC04AllParrots(t *testing.T) {
	st := vfNewStats(t, "C04")
	for i, p := range vfParrots {
		vf04RunSource(st, t, &vf04Source{kind: "parrot", parrot: p, id: p.ID}, vf04Conns, uint64(1000+i), true)
		vf04RunSource(st, t, &vf04Source{kind: "parrot", parrot: p, id: p.ID}, 16, 0, false)
		vf04RunSource(st, t, &vf04Source{kind: "parrot", parrot: p, id: p.ID, quic: true}, 16, uint64(6000+i), true)
		vf04RunSource(st, t, &vf04Source{kind: "parrot", parrot: p, id: p.ID, moved: 1 + i%3}, 16, uint64(7000+i), true)
		vf04RunSource(st, t, &vf04Source{kind: "fingerprinted", parrot: p, id: p.ID}, vf04Conns, uint64(2000+i), true)
		vf04RunSource(st, t, &vf04Source{kind: "json", parrot: p, id: p.ID}, 8, uint64(3000+i), true)
		vf04RunSource(st, t, &vf04Source{kind: "fingerprinted", parrot: p, id: p.ID, share: true}, 12, uint64(4000+i), true)
		vf04RunSource(st, t, &vf04Source{kind: "fingerprinted", parrot: p, id: p.ID, concrete: true}, 16, uint64(5000+i), true)
	}
}

// ---- (c) QUIC ----

func TestVerifC04QUIC(t *testing.T) {
	st := vfNewStats(t, "C04")
	// directed: the generators themselves, many draws (values come from crypto/rand; only their form is judged)
	ids := map[uint64]bool{}
	for i := 0; i < 2000; i++ {
		id := GREASETransportParameter{}.GetGREASEID()
		if !vf04ReservedTP(id) {
			st.Violation(t, "GetGREASEID()=%#x is not 31*N+27 below 2^62", id)
		}
		ids[id] = true
	}
	st.Eval()
	st.NonTrivial("tp-id-draws")
	if len(ids) < 2 {
		st.Violation(t, "GetGREASEID returned the same value 2000 times")
	}
	vers := map[uint32]bool{}
	badVers := 0
	var example uint32
	for i := 0; i < 2000; i++ {
		v := (&VersionInformation{}).GetGREASEVersion()
		vers[v] = true
		if !vf04Reserved32(v) {
			badVers++
			example = v
		}
	}
	st.Eval()
	st.NonTrivial("version-draws")
	st.Extra("quic_grease_version_draws", map[string]any{"draws": 2000, "not_reserved": badVers, "distinct": len(vers)})
	if badVers > 0 {
		st.Class("known:quic-version")
		st.KnownOrViolation(t, vf04KeyQUICVersion, "VersionInformation.GetGREASEVersion: %d of 2000 draws are not of the form 0x?a?a?a?a (e.g. %#08x)", badVers, example)
	}
	if len(vers) < 2 {
		st.Violation(t, "GetGREASEVersion returned the same value 2000 times")
	}

	rapid.Check(t, func(rt *rapid.T) {
		st.Eval()
		// GREASE transport parameter with drawn override
		g := &GREASETransportParameter{}
		var wantID uint64
		switch rapid.IntRange(0, 2).Draw(rt, "gk") {
		case 0:
			g.Length = uint16(rapid.IntRange(0, 40).Draw(rt, "glen"))
		case 1:
			wantID = 27 + 31*rapid.Uint64Range(0, GREASE_MAX_MULTIPLIER-1).Draw(rt, "gm")
			g.IdOverride = wantID
			g.Length = uint16(rapid.IntRange(0, 40).Draw(rt, "glen"))
		case 2:
			g.IdOverride = rapid.Uint64().Draw(rt, "gbad")
			if vf04ReservedTP(g.IdOverride) {
				wantID = g.IdOverride
			}
		}
		// version information with GREASE slots
		pool := []uint32{VERSION_GREASE, VERSION_GREASE, VERSION_1, VERSION_2, VERSION_NEGOTIATION, 0x1a2a3a4a, 0xff00001d, 0x0a0a0a0b}
		av := rapid.SliceOfN(rapid.SampledFrom(pool), 0, 6).Draw(rt, "available")
		vi := &VersionInformation{ChoosenVersion: rapid.SampledFrom([]uint32{VERSION_1, VERSION_2, 0xdeadbeef}).Draw(rt, "chosen"),
			AvailableVersions: append([]uint32(nil), av...), LegacyID: rapid.Bool().Draw(rt, "legacy")}
		tps := TransportParameters{InitialMaxData(1 << 20), vi, g, &GREASEQUICBit{}}
		ext := &QUICTransportParametersExtension{TransportParameters: tps}
		// through a real hello: custom spec carrying the extension
		spec := &ClientHelloSpec{
			TLSVersMin: VersionTLS13, TLSVersMax: VersionTLS13,
			CipherSuites: []uint16{TLS_AES_128_GCM_SHA256},
			Extensions: []TLSExtension{&SNIExtension{}, &SupportedCurvesExtension{Curves: []CurveID{X25519}},
				&SignatureAlgorithmsExtension{SupportedSignatureAlgorithms: []SignatureScheme{ECDSAWithP256AndSHA256, PSSWithSHA256}},
				&KeyShareExtension{KeyShares: []KeyShare{{Group: X25519}}}, &SupportedVersionsExtension{Versions: []uint16{VersionTLS13}}, ext},
		}
		cp, sp := vfPipe()
		defer cp.Close()
		defer sp.Close()
		c := UClient(cp, &Config{ServerName: "quic.example.test", Rand: vfNewDetRand(rapid.Uint64().Draw(rt, "stream"), "quic")}, HelloCustom)
		if err := c.ApplyPreset(spec); err != nil {
			st.Violation(rt, "ApplyPreset: %v", err)
		}
		if err := c.BuildHandshakeState(); err != nil {
			st.Violation(rt, "BuildHandshakeState: %v", err)
		}
		h := vfParseClientHello(c.HandshakeState.Hello.Raw)
		if len(h.Violations) > 0 {
			st.Violation(rt, "hello with QUIC transport parameters does not parse: %v", h.Violations)
		}
		e := h.Ext(57)
		if e == nil {
			st.Violation(rt, "no quic_transport_parameters extension on the wire")
		}
		tlvs, err := vfParseTLVs(e.Body)
		if err != nil || len(tlvs) != 4 {
			st.Violation(rt, "quic_transport_parameters body: %v (%d entries)", err, len(tlvs))
		}
		// entry 2: the GREASE parameter
		gid := tlvs[2].id
		if !vf04ReservedTP(gid) {
			st.Violation(rt, "GREASE transport parameter id %#x on the wire is not 31*N+27 below 2^62", gid)
		}
		if wantID != 0 && gid != wantID {
			st.Violation(rt, "valid GREASE id override %#x replaced by %#x", wantID, gid)
		}
		if len(tlvs[2].val) != int(g.Length) {
			st.Violation(rt, "GREASE transport parameter value has %d bytes, Length=%d", len(tlvs[2].val), g.Length)
		}
		// entry 1: version information
		wantVI := uint64(0x11)
		if vi.LegacyID {
			wantVI = 0xff73db
		}
		val := tlvs[1].val
		if tlvs[1].id != wantVI || len(val) != 4+4*len(av) || binary.BigEndian.Uint32(val) != vi.ChoosenVersion {
			st.Violation(rt, "version_information encoded as (%#x,%x) for chosen=%#x available=%#x", tlvs[1].id, val, vi.ChoosenVersion, av)
		}
		slots := 0
		var bad []uint32
		for j, v := range av {
			got := binary.BigEndian.Uint32(val[4+4*j:])
			if v == VERSION_GREASE {
				slots++
				if !vf04Reserved32(got) {
					bad = append(bad, got)
				}
			} else if got != v {
				st.Violation(rt, "version_information: available version %d is %#08x on the wire, configured %#08x", j, got, v)
			}
		}
		if slots > 0 {
			st.Class("version-information-with-grease-slot")
			st.NonTrivial(fmt.Sprintf("vi:%x", val))
		} else {
			st.Class("version-information-without-grease-slot")
		}
		if len(bad) > 0 {
			st.Class("known:quic-version")
			st.KnownOrViolation(rt, vf04KeyQUICVersion, "version_information GREASE slots %#08x are not of the form 0x?a?a?a?a (available=%#x)", bad, av)
		}
		if fmt.Sprint(vi.AvailableVersions) != fmt.Sprint(av) {
			st.Violation(rt, "Value() modified AvailableVersions: %#x -> %#x", av, vi.AvailableVersions)
		}
		st.Sample(map[string]any{"available": fmt.Sprintf("%#x", av), "wire_value": vfHex(val), "grease_tp_id": fmt.Sprintf("%#x", gid)})
	})
}
