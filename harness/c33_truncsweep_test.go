//go:build verif

package tls

// C33 (extension): exhaustive truncation sweep. The random mutators of c33_hostile_server_test.go pick a truncation
// point per mille of a message, so one specific offset of one specific message (the byte after a length field, the last
// byte before a signature, ...) is hit about once in 10^4 cases. Here every server handshake message of a well-formed
// flight is cut at EVERY body length k (header length made consistent, so the client parses exactly k bytes), for
// TLS 1.2 (upstream's server behind a man in the middle: ServerHello, Certificate, ServerKeyExchange for ECDHE-RSA and
// ECDHE-ECDSA, CertificateRequest, ServerHelloDone, NewSessionTicket) and TLS 1.3 (scripted server: ServerHello,
// EncryptedExtensions, CertificateRequest, Certificate, CertificateVerify, Finished). Oracle: the client returns (an
// error or success) without panic or hang. Long certificates are swept with a stride in the quick tier.

import (
	"fmt"
	"os"
	"testing"
)

type vf33SweepCfg struct {
	Name    string
	ID      ClientHelloID
	KeyType string
	Ver     uint16
}

// positions to cut a body of n bytes at: all of them, or (quick tier, long bodies) the first and last 48 plus a stride
func vf33SweepPositions(n int) []int {
	var out []int
	for k := 0; k < n; k++ {
		if vfThorough() || n <= 400 || k < 48 || k >= n-48 || k%11 == 0 {
			out = append(out, k)
		}
	}
	return out
}

func vf33SweepRun12(c vf33SweepCfg, sni string, cutMsg, keep int) (out vf33Outcome, lens []int, types []uint8) {
	cp, sp := vfPipe()
	ccfg := vfClientConfig(sni)
	ccfg.OmitEmptyPsk = true
	ccfg.ClientSessionCache = NewLRUClientSessionCache(2)
	uc := UClient(cp, ccfg, c.ID)
	scfg := vfServerConfig(c.KeyType, sni)
	scfg.MinVersion, scfg.MaxVersion = c.Ver, c.Ver
	scfg.ClientAuth = RequestClientCert
	idx := 0
	encrypted := false
	sp.filter = func(rec []byte) []byte {
		if encrypted || len(rec) < 5 {
			return rec
		}
		if rec[0] == 20 {
			encrypted = true
			return rec
		}
		if rec[0] != 22 {
			return rec
		}
		body := rec[5:]
		var outBody []byte
		for len(body) >= 4 {
			n := int(body[1])<<16 | int(body[2])<<8 | int(body[3])
			if len(body) < 4+n {
				break
			}
			msg := append([]byte(nil), body[:4+n]...)
			body = body[4+n:]
			lens = append(lens, n)
			types = append(types, msg[0])
			if idx == cutMsg && keep >= 0 && keep < n {
				msg = msg[:4+keep]
				vf33SetHdrLen(msg, keep)
			}
			idx++
			outBody = append(outBody, msg...)
		}
		outBody = append(outBody, body...)
		var o []byte
		for len(outBody) > 0 {
			k := len(outBody)
			if k > 16384 {
				k = 16384
			}
			o = append(o, rec[0], rec[1], rec[2], byte(k>>8), byte(k))
			o = append(o, outBody[:k]...)
			outBody = outBody[k:]
		}
		if o == nil {
			o = []byte{}
		}
		return o
	}
	srv := Server(sp, scfg)
	out = vf33Drive(uc, cp, sp, func() {
		if err := srv.Handshake(); err == nil {
			srv.Write([]byte("hello"))
		}
	})
	return out, lens, types
}

func TestVerifC33TruncationSweep12(t *testing.T) {
	if sh := os.Getenv("VERIF_SHARD"); sh != "" && sh != "0" {
		t.Skip("deterministic sweep: runs in shard 0 only")
	}
	st := vfNewStats(t, "C33")
	cfgs := []vf33SweepCfg{
		{"Chrome_120/ECDHE-RSA/TLS1.2", HelloChrome_120, "rsa", VersionTLS12},
		{"Golang/ECDHE-ECDSA/TLS1.2", HelloGolang, "ecdsa", VersionTLS12},
		{"Firefox_105/ECDHE-ECDSA/TLS1.2", HelloFirefox_105, "ecdsa", VersionTLS12},
	}
	if vfThorough() {
		cfgs = append(cfgs, vf33SweepCfg{"iOS_14/ECDHE-RSA/TLS1.2", HelloIOS_14, "rsa", VersionTLS12},
			vf33SweepCfg{"Chrome_58/ECDHE-ECDSA/TLS1.2", HelloChrome_58, "ecdsa", VersionTLS12},
			vf33SweepCfg{"Golang/ECDHE-RSA/TLS1.0", HelloGolang, "rsa", VersionTLS10})
	}
	for _, c := range cfgs {
		sni := "sweep.c33.test"
		base, lens, types := vf33SweepRun12(c, sni, -1, -1)
		if base.CliErr != nil || base.Panic != nil {
			st.Class("sweep12-baseline-failed: " + c.Name)
			continue
		}
		for mi, n := range lens {
			for _, k := range vf33SweepPositions(n) {
				st.Eval()
				out, _, _ := vf33SweepRun12(c, sni, mi, k)
				desc := fmt.Sprintf("%s: server message #%d (type %d, body %d bytes) cut to %d body bytes with a consistent length field", c.Name, mi, types[mi], n, k)
				if out.Panic != nil {
					st.Violation(t, "%s: client panicked: %v\n%s", desc, out.Panic.Val, out.Panic.Stack)
				}
				if out.Hang {
					st.Violation(t, "%s: client Handshake/Read did not return within the connection deadline + 10 s", desc)
				}
				st.Class(fmt.Sprintf("sweep12:type=%d", types[mi]))
				st.NonTrivial(fmt.Sprintf("sweep12|%s|%d|%d", c.Name, mi, k))
			}
		}
	}
}

func vf33SweepRun13(c vf33SweepCfg, sni string, certReq bool, cutMsg, keep int) (out vf33Outcome, lens []int, types []uint8) {
	cp, sp := vfPipe()
	ccfg := vfClientConfig(sni)
	ccfg.OmitEmptyPsk = true
	uc := UClient(cp, ccfg, c.ID)
	scfg := vfServerConfig(c.KeyType, sni)
	s := &vsrvScript{CertRequest: certReq, SendTicket: true}
	a := "h2"
	if c.ID.Client != helloGolang {
		s.ALPN = &a
	}
	s.Mutate = func(idx int, typ uint8, raw []byte) []byte {
		n := len(raw) - 4
		lens = append(lens, n)
		types = append(types, typ)
		if idx == cutMsg && keep >= 0 && keep < n {
			raw = append([]byte(nil), raw[:4+keep]...)
			vf33SetHdrLen(raw, keep)
		}
		return raw
	}
	srv := Server(sp, scfg)
	vsrvInstall(srv, s)
	out = vf33Drive(uc, cp, sp, func() {
		if err := srv.Handshake(); err == nil {
			srv.Write([]byte("hello"))
		}
	})
	return out, lens, types
}

func TestVerifC33TruncationSweep13(t *testing.T) {
	if sh := os.Getenv("VERIF_SHARD"); sh != "" && sh != "0" {
		t.Skip("deterministic sweep: runs in shard 0 only")
	}
	st := vfNewStats(t, "C33")
	cfgs := []vf33SweepCfg{
		{"Chrome_133/ecdsa/TLS1.3", HelloChrome_133, "ecdsa", VersionTLS13},
		{"Golang/rsa/TLS1.3", HelloGolang, "rsa", VersionTLS13},
	}
	if vfThorough() {
		cfgs = append(cfgs, vf33SweepCfg{"Firefox_120/rsa/TLS1.3", HelloFirefox_120, "rsa", VersionTLS13},
			vf33SweepCfg{"Safari_16_0/ecdsa/TLS1.3", HelloSafari_16_0, "ecdsa", VersionTLS13})
	}
	for ci, c := range cfgs {
		sni := "sweep13.c33.test"
		certReq := ci%2 == 0
		base, lens, types := vf33SweepRun13(c, sni, certReq, -1, -1)
		if base.CliErr != nil || base.Panic != nil {
			st.Class("sweep13-baseline-failed: " + c.Name)
			continue
		}
		for mi, n := range lens {
			for _, k := range vf33SweepPositions(n) {
				st.Eval()
				out, _, _ := vf33SweepRun13(c, sni, certReq, mi, k)
				desc := fmt.Sprintf("%s: server message #%d (type %d, body %d bytes) cut to %d body bytes with a consistent length field", c.Name, mi, types[mi], n, k)
				if out.Panic != nil {
					st.Violation(t, "%s: client panicked: %v\n%s", desc, out.Panic.Val, out.Panic.Stack)
				}
				if out.Hang {
					st.Violation(t, "%s: client Handshake/Read did not return within the connection deadline + 10 s", desc)
				}
				st.Class(fmt.Sprintf("sweep13:type=%d", types[mi]))
				st.NonTrivial(fmt.Sprintf("sweep13|%s|%d|%d", c.Name, mi, k))
			}
		}
	}
}

// ---- record-level sweep: every record the server writes (plaintext or protected) cut to every short body length ----

type vf33RecCfg struct {
	Name    string
	ID      ClientHelloID
	KeyType string
	Ver     uint16
	Suites  []uint16 // TLS <= 1.2: the server's only suites (pins AES-GCM with its explicit nonce, CBC, ChaCha20, ...)
}

func vf33RecordRun(c vf33RecCfg, sni string, cutRec, keep int) (out vf33Outcome, lens []int, types []uint8) {
	cp, sp := vfPipe()
	ccfg := vfClientConfig(sni)
	ccfg.OmitEmptyPsk = true
	uc := UClient(cp, ccfg, c.ID)
	scfg := vfServerConfig(c.KeyType, sni)
	scfg.MinVersion, scfg.MaxVersion = c.Ver, c.Ver
	if c.Suites != nil {
		scfg.CipherSuites = c.Suites
	}
	idx := 0
	sp.filter = func(rec []byte) []byte {
		if len(rec) < 5 {
			return rec
		}
		n := len(rec) - 5
		lens = append(lens, n)
		types = append(types, rec[0])
		if idx == cutRec && keep >= 0 && keep < n {
			o := append([]byte(nil), rec[:5+keep]...)
			o[3], o[4] = byte(keep>>8), byte(keep)
			rec = o
		}
		idx++
		return rec
	}
	srv := Server(sp, scfg)
	out = vf33Drive(uc, cp, sp, func() {
		if err := srv.Handshake(); err == nil {
			srv.Write([]byte("hello from the server"))
			srv.Write([]byte("x"))
		}
	})
	return out, lens, types
}

func TestVerifC33RecordTruncationSweep(t *testing.T) {
	if sh := os.Getenv("VERIF_SHARD"); sh != "" && sh != "0" {
		t.Skip("deterministic sweep: runs in shard 0 only")
	}
	st := vfNewStats(t, "C33")
	cfgs := []vf33RecCfg{
		{"Chrome_120/TLS1.2/ECDHE-RSA-AES128-GCM", HelloChrome_120, "rsa", VersionTLS12, []uint16{TLS_ECDHE_RSA_WITH_AES_128_GCM_SHA256}},
		{"Firefox_105/TLS1.2/ECDHE-ECDSA-CHACHA20", HelloFirefox_105, "ecdsa", VersionTLS12, []uint16{TLS_ECDHE_ECDSA_WITH_CHACHA20_POLY1305_SHA256}},
		{"Golang/TLS1.2/ECDHE-RSA-AES128-CBC-SHA", HelloGolang, "rsa", VersionTLS12, []uint16{TLS_ECDHE_RSA_WITH_AES_128_CBC_SHA}},
		{"Chrome_133/TLS1.3", HelloChrome_133, "ecdsa", VersionTLS13, nil},
		{"Golang/TLS1.3", HelloGolang, "rsa", VersionTLS13, nil},
	}
	if vfThorough() {
		cfgs = append(cfgs,
			vf33RecCfg{"iOS_14/TLS1.2/ECDHE-ECDSA-AES256-GCM", HelloIOS_14, "ecdsa", VersionTLS12, []uint16{TLS_ECDHE_ECDSA_WITH_AES_256_GCM_SHA384}},
			vf33RecCfg{"Golang/TLS1.2/RSA-AES128-GCM", HelloGolang, "rsa", VersionTLS12, []uint16{TLS_RSA_WITH_AES_128_GCM_SHA256}},
			vf33RecCfg{"Golang/TLS1.0/ECDHE-RSA-AES128-CBC-SHA", HelloGolang, "rsa", VersionTLS10, []uint16{TLS_ECDHE_RSA_WITH_AES_128_CBC_SHA}},
			vf33RecCfg{"Golang/TLS1.2/ECDHE-RSA-3DES", HelloGolang, "rsa", VersionTLS12, []uint16{TLS_ECDHE_RSA_WITH_3DES_EDE_CBC_SHA}},
			vf33RecCfg{"Safari_16_0/TLS1.3", HelloSafari_16_0, "ecdsa", VersionTLS13, nil})
	}
	for _, c := range cfgs {
		sni := "records.c33.test"
		base, lens, types := vf33RecordRun(c, sni, -1, -1)
		if base.CliErr != nil || base.Panic != nil {
			st.Class("record-sweep-baseline-failed: " + c.Name)
			continue
		}
		for ri, n := range lens {
			for k := 0; k < n; k++ {
				if k > 72 && k != n-1 && !(vfThorough() && k%97 == 0) {
					continue // short bodies (below nonce + tag + MAC sizes) and the one-short case
				}
				st.Eval()
				out, _, _ := vf33RecordRun(c, sni, ri, k)
				desc := fmt.Sprintf("%s: server record #%d (type %d, body %d bytes) replaced by its first %d body bytes", c.Name, ri, types[ri], n, k)
				if out.Panic != nil {
					st.Violation(t, "%s: client panicked: %v\n%s", desc, out.Panic.Val, out.Panic.Stack)
				}
				if out.Hang {
					st.Violation(t, "%s: client Handshake/Read did not return within the connection deadline + 10 s", desc)
				}
				st.Class(fmt.Sprintf("record-sweep:type=%d", types[ri]))
				st.NonTrivial(fmt.Sprintf("recsweep|%s|%d|%d", c.Name, ri, k))
			}
		}
	}
}
