//go:build verif

package tls

// C07 - oracles shared by the rapid tests, the directed cases, the corpus replay and the native fuzz targets.
// Oracle: every importer call returns (error or spec); a recovered panic is the violation. When the harness'
// reference parser accepts a raw input as a syntactically valid ClientHello, ApplyPreset + BuildHandshakeState
// on the imported spec must not panic either.

import (
	"bytes"
	"encoding/binary"
	"encoding/json"
	"fmt"
	"io"
	"log"
	"net"
	"os"
	"regexp"
	"sort"
	"strings"
	"sync"
	"testing"
)

const (
	vf07KeyKeyShare = "C07:importmap-keyshare-len-not-multiple-of-4"
	vf07KeyJSONNil  = "C07:unmarshaljson-missing-toplevel-member"
)

func vf07NewStats(tb testing.TB, prop string) *vfStats {
	s := &vfStats{
		test: fmt.Sprintf("%s-p%d", tb.Name(), os.Getpid()), prop: prop,
		nontrivial: map[string]struct{}{}, classes: map[string]int{}, known: map[string]*vfKnownHit{},
		extra: map[string]any{}, openKnown: map[string]bool{},
	}
	for _, k := range strings.Split(os.Getenv("VERIF_KNOWN"), ",") {
		if k != "" {
			s.openKnown[k] = true
		}
	}
	tb.Cleanup(s.Flush)
	return s
}

// vf07NT records a non-trivial case key, bounded so that long native-fuzz runs keep their stats files small.
func vf07NT(st *vfStats, key string) {
	st.mu.Lock()
	full := len(st.nontrivial) >= 30000
	st.mu.Unlock()
	if !full {
		st.NonTrivial(key)
	}
}

var vf07QuietOnce sync.Once

// ImportTLSClientHello logs warnings through the std logger for every data-less extension; silence it.
func vf07Quiet() { vf07QuietOnce.Do(func() { log.SetOutput(io.Discard) }) }

var vf07NumRe = regexp.MustCompile(`\b(0x)?[0-9][0-9a-fA-F]*\b|\b[0-9a-f]{4}\b`)

// vf07ErrClass strips numbers/quoted payloads so that error strings fall into a small number of classes.
func vf07ErrClass(err error) string {
	if err == nil {
		return "ok"
	}
	s := err.Error()
	if i := strings.Index(s, ": "); i > 0 && strings.HasPrefix(s, "json") == false && len(s) > 60 {
		s = s[:60]
	}
	s = vf07NumRe.ReplaceAllString(s, "N")
	if len(s) > 70 {
		s = s[:70]
	}
	return s
}

// vf07RawStage says how far FromRaw got, judged by the error text: 0 = record/handshake header,
// 1 = session id / suites / compression / extensions block framing, 2 = inside an extension, 3 = spec returned.
func vf07RawStage(err error) int {
	if err == nil {
		return 3
	}
	s := err.Error()
	switch {
	case strings.Contains(s, "record type"), strings.Contains(s, "not a handshake"), strings.Contains(s, "handshake message"):
		return 0
	case strings.Contains(s, "session id"), strings.Contains(s, "ciphersuite"), strings.Contains(s, "compression methods"),
		strings.Contains(s, "unable to read extensions data"):
		return 1
	}
	return 2
}

// vf07RawValid: is rec one TLS record carrying exactly one syntactically valid ClientHello (reference parser)?
func vf07RawValid(rec []byte) (*vfHello, bool) {
	if len(rec) < 9 || rec[0] != 22 || rec[1] != 3 || int(binary.BigEndian.Uint16(rec[3:])) != len(rec)-5 {
		return nil, false
	}
	h := vfParseClientHello(rec[5:])
	return h, len(h.Violations) == 0
}

type vf07ApplyResult struct {
	ApplyErr, BuildErr error
	Panic              *vfPanic
	Where              string
	RawLen             int
}

// vf07Apply applies spec to a fresh custom UConn and marshals the hello.
func vf07Apply(spec *ClientHelloSpec, omitEmptyPsk, cache bool) vf07ApplyResult {
	cfg := &Config{ServerName: "example.test", InsecureSkipVerify: true, OmitEmptyPsk: omitEmptyPsk,
		Rand: vfNewDetRand(7, "c07-apply")}
	if cache {
		cfg.ClientSessionCache = NewLRUClientSessionCache(4)
	}
	var r vf07ApplyResult
	uc := UClient(&net.TCPConn{}, cfg, HelloCustom)
	if p := vfCatch(func() { r.ApplyErr = uc.ApplyPreset(spec) }); p != nil {
		r.Panic, r.Where = p, "ApplyPreset"
		return r
	}
	if r.ApplyErr != nil {
		return r
	}
	if p := vfCatch(func() { r.BuildErr = uc.BuildHandshakeState() }); p != nil {
		r.Panic, r.Where = p, "BuildHandshakeState"
		return r
	}
	if r.BuildErr == nil {
		r.RawLen = len(uc.HandshakeState.Hello.Raw)
	}
	return r
}

func vf07PanicLine(p *vfPanic) string {
	// first frame below the runtime in package tls, for the report
	for _, l := range strings.Split(p.Stack, "\n") {
		if strings.Contains(l, "/u_") || strings.Contains(l, "utls/") && strings.Contains(l, ".go:") {
			if !strings.Contains(l, "zz_verif") {
				return strings.TrimSpace(l)
			}
		}
	}
	return ""
}

// flags: bit0 blunt mimicry, bit1 real PSK, bit2 AlwaysAddPadding, bit3 OmitEmptyPsk on apply, bit4 session cache on apply
func vf07CheckRaw(st *vfStats, t vfFataler, rec []byte, flags uint8, origin string) {
	t.Helper()
	st.Eval()
	f := &Fingerprinter{AllowBluntMimicry: flags&1 != 0, RealPSKResumption: flags&2 != 0, AlwaysAddPadding: flags&4 != 0}
	var spec *ClientHelloSpec
	var err error
	if p := vfCatch(func() { spec, err = f.FingerprintClientHello(rec) }); p != nil {
		st.Violation(t, "Fingerprinter%+v.FingerprintClientHello panicked: %v at %s; input(%s)=%x", *f, p.Val, vf07PanicLine(p), origin, rec)
	}
	// the method form with the same flags must agree on error/no error and never panic
	var spec2 ClientHelloSpec
	var err2 error
	if p := vfCatch(func() { err2 = spec2.FromRaw(rec, f.AllowBluntMimicry, f.RealPSKResumption) }); p != nil {
		st.Violation(t, "ClientHelloSpec.FromRaw panicked: %v at %s; input(%s)=%x", p.Val, vf07PanicLine(p), origin, rec)
	}
	if (err == nil) != (err2 == nil) {
		st.Violation(t, "FingerprintClientHello err=%v but FromRaw err=%v; input(%s)=%x", err, err2, origin, rec)
	}
	if (err == nil) == (spec == nil) {
		st.Violation(t, "FingerprintClientHello returned spec=%v together with err=%v; input(%s)=%x", spec != nil, err, origin, rec)
	}
	stage := vf07RawStage(err)
	st.Class(fmt.Sprintf("raw-stage-%d", stage))
	h, valid := vf07RawValid(rec)
	if valid {
		st.Class("raw-refparse-valid")
	}
	if stage >= 2 {
		types := ""
		if h != nil {
			types = fmt.Sprint(h.ExtTypes())
		}
		vf07NT(st, "raw|"+vf07ErrClass(err)+"|"+types+"|"+fmt.Sprint(flags&7))
	}
	if err != nil {
		st.Class("raw-err: " + vf07ErrClass(err))
		return
	}
	// the same import into a spec variable that already holds an earlier import (an application that keeps one
	// ClientHelloSpec and fills it capture after capture): the result is the new hello's spec, nothing of the old one
	if seeds, serr := vf07Seeds(); serr == nil && len(seeds) > 0 {
		base := seeds[int(flags)%len(seeds)]
		var reused ClientHelloSpec
		if reused.FromRaw(base.Rec, true, false) == nil {
			var err3 error
			if p := vfCatch(func() { err3 = reused.FromRaw(rec, f.AllowBluntMimicry, f.RealPSKResumption) }); p != nil {
				st.Violation(t, "ClientHelloSpec.FromRaw into a spec holding an earlier import panicked: %v at %s; input(%s)=%x", p.Val, vf07PanicLine(p), origin, rec)
			}
			if err3 != nil {
				st.Violation(t, "FromRaw into a spec holding an earlier import (%s) fails: %v, into a fresh spec it succeeds; input(%s)=%x", base.Name, err3, origin, rec)
			}
			a, b := fmt.Sprintf("%04x", reused.CipherSuites), fmt.Sprintf("%04x", spec2.CipherSuites)
			for _, e := range reused.Extensions {
				a += fmt.Sprintf(" %T", e)
			}
			for _, e := range spec2.Extensions {
				b += fmt.Sprintf(" %T", e)
			}
			if a != b || reused.TLSVersMin != spec2.TLSVersMin || reused.TLSVersMax != spec2.TLSVersMax {
				st.Violation(t, "FromRaw into a spec holding an earlier import (%s) gives another spec than into a fresh one:\n reused: %s (versions %04x..%04x)\n fresh:  %s (versions %04x..%04x)\n input(%s)=%x",
					base.Name, a, reused.TLSVersMin, reused.TLSVersMax, b, spec2.TLSVersMin, spec2.TLSVersMax, origin, rec)
			}
			st.Class("raw-import-into-reused-spec")
		}
	}
	r := vf07Apply(spec, flags&8 != 0, flags&16 != 0)
	switch {
	case r.Panic != nil && valid:
		st.Violation(t, "%s panicked on the spec imported from a VALID ClientHello (flags %05b): %v at %s; input(%s)=%x",
			r.Where, flags, r.Panic.Val, vf07PanicLine(r.Panic), origin, rec)
	case r.Panic != nil:
		// outside the statement (input is not a valid hello): recorded, not judged
		st.Class("info: apply/build panic on spec from INVALID hello: " + vf07ErrClass(fmt.Errorf("%v", r.Panic.Val)))
	case r.ApplyErr != nil:
		st.Class("apply-err: " + vf07ErrClass(r.ApplyErr))
	case r.BuildErr != nil:
		st.Class("build-err: " + vf07ErrClass(r.BuildErr))
	default:
		st.Class("applied+marshaled")
		if valid {
			st.Class("valid+applied+marshaled")
		}
	}
}

// ---- ClientHelloSpec.UnmarshalJSON ----

type vf07Mirror struct {
	CS  *json.RawMessage `json:"cipher_suites"`
	CM  *json.RawMessage `json:"compression_methods"`
	Ext *json.RawMessage `json:"extensions"`
}

// vf07MissingMember uses encoding/json's own matching rules (case folding, last duplicate wins, null => nil) on a
// mirror struct to tell whether one of the three top-level members ends up absent.
func vf07MissingMember(doc []byte) (bool, string) {
	var m vf07Mirror
	if err := json.Unmarshal(doc, &m); err != nil {
		return false, ""
	}
	var miss []string
	if m.CS == nil {
		miss = append(miss, "cipher_suites")
	}
	if m.CM == nil {
		miss = append(miss, "compression_methods")
	}
	if m.Ext == nil {
		miss = append(miss, "extensions")
	}
	return len(miss) > 0, strings.Join(miss, ",")
}

func vf07IsNilDeref(p *vfPanic) bool {
	return strings.Contains(fmt.Sprint(p.Val), "nil pointer dereference")
}

// pristine: the document is an unmodified repository fixture (describes a valid hello) => apply must not panic.
func vf07CheckSpecJSON(st *vfStats, t vfFataler, doc []byte, pristine bool, origin string) {
	t.Helper()
	st.Eval()
	var spec ClientHelloSpec
	var err error
	p := vfCatch(func() { err = spec.UnmarshalJSON(doc) })
	missing, which := vf07MissingMember(doc)
	if missing {
		st.Class("json-toplevel-member-missing")
	}
	if p != nil {
		if missing && vf07IsNilDeref(p) {
			st.Class("json-known-nil-deref")
			st.KnownOrViolation(t, vf07KeyJSONNil, "ClientHelloSpec.UnmarshalJSON panics (nil pointer dereference at %s) when %s is absent/null; doc(%s)=%q",
				vf07PanicLine(p), which, origin, vf07Trunc(doc))
			return
		}
		st.Violation(t, "ClientHelloSpec.UnmarshalJSON panicked: %v at %s; doc(%s)=%q", p.Val, vf07PanicLine(p), origin, doc)
	}
	// Fingerprinter wrapper
	var err2 error
	var s2 *ClientHelloSpec
	if p2 := vfCatch(func() { s2, err2 = (&Fingerprinter{AlwaysAddPadding: true}).UnmarshalJSONClientHello(doc) }); p2 != nil {
		st.Violation(t, "Fingerprinter.UnmarshalJSONClientHello panicked where UnmarshalJSON did not: %v; doc=%q", p2.Val, doc)
	}
	if (err == nil) != (err2 == nil) || (err2 == nil) == (s2 == nil) {
		st.Violation(t, "UnmarshalJSON err=%v vs UnmarshalJSONClientHello err=%v spec=%v; doc=%q", err, err2, s2 != nil, doc)
	}
	if err != nil {
		c := vf07ErrClass(err)
		st.Class("json-err: " + c)
		if !strings.HasPrefix(err.Error(), "invalid character") && !strings.HasPrefix(err.Error(), "unexpected end") {
			vf07NT(st, "json|"+c)
		}
		return
	}
	names := make([]string, 0, len(spec.Extensions))
	for _, e := range spec.Extensions {
		names = append(names, fmt.Sprintf("%T", e))
	}
	vf07NT(st, "json|ok|"+strings.Join(names, ","))
	st.Class("json-ok")
	r := vf07Apply(&spec, true, false)
	switch {
	case r.Panic != nil && pristine:
		st.Violation(t, "%s panicked on the spec imported from an unmodified JSON fixture: %v at %s; doc(%s)", r.Where, r.Panic.Val, vf07PanicLine(r.Panic), origin)
	case r.Panic != nil:
		st.Class("info: apply/build panic on spec from generated JSON: " + vf07ErrClass(fmt.Errorf("%v", r.Panic.Val)))
	case r.ApplyErr != nil || r.BuildErr != nil:
		st.Class("json-ok-apply/build-err")
	default:
		st.Class("json-ok-applied+marshaled")
	}
}

func vf07Trunc(b []byte) []byte {
	if len(b) > 300 {
		return append(append([]byte(nil), b[:300]...), "..."...)
	}
	return b
}

// ---- ImportTLSClientHello(map) / ImportTLSClientHelloFromJSON ----

func vf07MapString(m map[string][]byte) string {
	keys := make([]string, 0, len(m))
	for k := range m {
		keys = append(keys, k)
	}
	sort.Strings(keys)
	var sb strings.Builder
	for _, k := range keys {
		if m[k] == nil {
			fmt.Fprintf(&sb, "%s=nil ", k)
		} else {
			fmt.Fprintf(&sb, "%s=%x ", k, m[k])
		}
	}
	return sb.String()
}

// vf07KeyShareClass: does the case fall into the known class (key_share listed, its data length not a multiple of 4)?
func vf07KeyShareClass(m map[string][]byte) bool {
	ex := m["extensions"]
	if len(ex)%2 != 0 || m["key_share"] == nil || len(m["key_share"])%4 == 0 {
		return false
	}
	for i := 0; i+1 < len(ex); i += 2 {
		if ex[i] == 0 && ex[i+1] == 51 {
			return true
		}
	}
	return false
}

func vf07CloneMap(m map[string][]byte) map[string][]byte {
	c := make(map[string][]byte, len(m))
	for k, v := range m {
		if v == nil {
			c[k] = nil
		} else {
			c[k] = append([]byte{}, v...)
		}
	}
	return c
}

// validMap: the map was rendered by the harness from a valid hello and not mutated => apply must not panic.
func vf07CheckImportMap(st *vfStats, t vfFataler, m map[string][]byte, validMap bool, origin string) {
	t.Helper()
	vf07Quiet()
	st.Eval()
	var spec ClientHelloSpec
	var err error
	p := vfCatch(func() { err = spec.ImportTLSClientHello(vf07CloneMap(m)) })
	inClass := vf07KeyShareClass(m)
	if inClass {
		st.Class("map-keyshare-len%4!=0")
	}
	if p != nil {
		if inClass && strings.Contains(fmt.Sprint(p.Val), "out of range") {
			st.Class("map-known-keyshare-panic")
			st.KnownOrViolation(t, vf07KeyKeyShare, "ImportTLSClientHello panics (%v at %s) when len(key_share)=%d is not a multiple of 4; map(%s): %s",
				p.Val, vf07PanicLine(p), len(m["key_share"]), origin, vf07MapString(m))
			return
		}
		st.Violation(t, "ImportTLSClientHello panicked: %v at %s; map(%s): %s", p.Val, vf07PanicLine(p), origin, vf07MapString(m))
	}
	// the JSON front end must behave the same
	if jb, jerr := json.Marshal(m); jerr == nil {
		var s2 ClientHelloSpec
		var err2 error
		if p2 := vfCatch(func() { err2 = s2.ImportTLSClientHelloFromJSON(jb) }); p2 != nil {
			st.Violation(t, "ImportTLSClientHelloFromJSON panicked where the map import did not: %v; json=%s", p2.Val, jb)
		}
		// json turns empty non-nil slices into "" => []byte{} and nil into null => nil: same presence semantics
		if (err == nil) != (err2 == nil) {
			st.Violation(t, "ImportTLSClientHello err=%v but ImportTLSClientHelloFromJSON err=%v; json=%s", err, err2, jb)
		}
	}
	if err != nil {
		c := vf07ErrClass(err)
		st.Class("map-err: " + c)
		if c != "cipher_suites is required" && c != "compression_methods is required" && c != "extensions is required" {
			vf07NT(st, "map|"+c+"|"+fmt.Sprintf("%x", m["extensions"]))
		}
		return
	}
	st.Class("map-ok")
	vf07NT(st, "map|ok|"+fmt.Sprintf("%x", m["extensions"]))
	r := vf07Apply(&spec, true, false)
	switch {
	case r.Panic != nil && validMap:
		st.Violation(t, "%s panicked on the spec imported from a map rendered from a VALID hello: %v at %s; map(%s): %s",
			r.Where, r.Panic.Val, vf07PanicLine(r.Panic), origin, vf07MapString(m))
	case r.Panic != nil:
		st.Class("info: apply/build panic on spec from mutated map: " + vf07ErrClass(fmt.Errorf("%v", r.Panic.Val)))
	case r.ApplyErr != nil || r.BuildErr != nil:
		st.Class("map-ok-apply/build-err")
	default:
		st.Class("map-ok-applied+marshaled")
	}
}

func vf07CheckImportJSON(st *vfStats, t vfFataler, doc []byte, origin string) {
	t.Helper()
	vf07Quiet()
	st.Eval()
	var m map[string][]byte
	jerr := json.Unmarshal(doc, &m)
	var spec ClientHelloSpec
	var err error
	p := vfCatch(func() { err = spec.ImportTLSClientHelloFromJSON(doc) })
	if p != nil {
		if jerr == nil && vf07KeyShareClass(m) && strings.Contains(fmt.Sprint(p.Val), "out of range") {
			st.Class("importjson-known-keyshare-panic")
			st.KnownOrViolation(t, vf07KeyKeyShare, "ImportTLSClientHelloFromJSON panics (%v) when len(key_share)=%d; doc(%s)=%q", p.Val, len(m["key_share"]), origin, vf07Trunc(doc))
			return
		}
		st.Violation(t, "ImportTLSClientHelloFromJSON panicked: %v at %s; doc(%s)=%q", p.Val, vf07PanicLine(p), origin, doc)
	}
	if jerr != nil && err == nil {
		st.Violation(t, "ImportTLSClientHelloFromJSON accepted a document encoding/json rejects (%v): %q", jerr, doc)
	}
	st.Class("importjson: " + vf07ErrClass(err))
	if jerr == nil {
		vf07NT(st, "ijson|"+vf07ErrClass(err)+"|"+fmt.Sprintf("%x", m["extensions"]))
	}
}

// ---- extension Write ----

// vf07Writers returns fresh instances of every TLSExtensionWriter reachable for id (both PSK flavours for 41).
func vf07Writers(id uint16) []TLSExtensionWriter {
	var out []TLSExtensionWriter
	if w, ok := ExtensionFromID(id).(TLSExtensionWriter); ok {
		out = append(out, w)
	}
	if id == extensionPreSharedKey {
		out = append(out, &UtlsPreSharedKeyExtension{})
	}
	return out
}

func vf07CheckExtWrite(st *vfStats, t vfFataler, id uint16, body []byte, origin string) {
	t.Helper()
	st.Eval()
	ws := vf07Writers(id)
	if len(ws) == 0 {
		st.Class("ext-no-writer")
		return
	}
	gram := vfCheckExtBody(id, body)
	for _, w := range ws {
		name := fmt.Sprintf("%T", w)
		in := make([]byte, len(body)) // exact capacity: slicing past the end must fault, not read slack
		copy(in, body)
		var n int
		var err error
		if p := vfCatch(func() { n, err = w.Write(in) }); p != nil {
			st.Violation(t, "%s.Write panicked: %v at %s; body(%s)=%x", name, p.Val, vf07PanicLine(p), origin, body)
		}
		if !bytes.Equal(in, body) {
			st.Violation(t, "%s.Write modified its input: %x -> %x", name, body, in)
		}
		if n < 0 || n > len(body) {
			st.Violation(t, "%s.Write returned n=%d for %d input bytes", name, n, len(body))
		}
		vf07NT(st, fmt.Sprintf("ext|%d|%s|%s", id, vf07ErrClass(err), vfHashHex(body)))
		if err != nil {
			st.Class("extwrite-err")
			continue
		}
		st.Class("extwrite-ok")
		// an accepted body: the extension must be marshalable without panicking (Len + Read as ApplyPreset/marshal do)
		var l, rn int
		var rerr error
		pm := vfCatch(func() {
			if ps, ok := w.(PreSharedKeyExtension); ok {
				ps.SetOmitEmptyPsk(true)
			}
			l = w.Len()
			buf := make([]byte, l)
			rn, rerr = w.Read(buf)
		})
		if pm != nil {
			if gram == "" {
				st.Violation(t, "%s: Len/Read panicked after Write accepted a grammar-valid body: %v at %s; body(%s)=%x", name, pm.Val, vf07PanicLine(pm), origin, body)
			}
			st.Class("info: Len/Read panic after Write accepted an INVALID body: " + name)
			continue
		}
		if rerr != nil && rerr != io.EOF {
			st.Class("extwrite-ok-read-err")
		} else if rn != l {
			st.Class("extwrite-ok-read-short")
		}
		if gram == "" {
			st.Class("extwrite-ok-grammar-valid")
		}
	}
}
