//go:build verif

package tls

// C12 (extension): "offered" means offered by the ClientHello ON THE WIRE. With the documented sequence
// BuildHandshakeState - edit - Handshake the first build advertises more than the hello finally sent; a server that
// selects a value only the earlier build listed (a TLS 1.3 suite, an ALPN protocol, a certificate-compression
// algorithm, a key-share group) must be refused like any other unoffered value. The removed value is the adversarial
// choice; everything else the scripted server does is compliant.

import (
	"fmt"
	"testing"

	"pgregory.net/rapid"
)

func TestVerifC12EditedOffer(t *testing.T) {
	st := vfNewStats(t, "C12")
	rapid.Check(t, func(rt *rapid.T) {
		p0 := vfGenParrot(rt, "parrot")
		src := vfClientSrc{Kind: "parrot", Name: p0.Name, ID: p0.ID}
		sni := vfGenDNSName(rt, "sni")
		st.Eval()
		p, err := vfPrepareClient(src, sni, rapid.Uint64().Draw(rt, "randseed"), nil)
		if err != nil {
			st.Violation(rt, "%s: %v", src, err)
		}
		defer p.CP.Close()
		if !p.Offer.HasVersion(VersionTLS13) || p.Offer.PSK {
			st.Class("edited:no-tls13")
			return
		}
		uc := p.UC
		s := &vsrvScript{}
		var cc *UtlsCompressCertExtension
		var alpn *ALPNExtension
		var curves *SupportedCurvesExtension
		var shares *KeyShareExtension
		for _, e := range uc.Extensions {
			switch x := e.(type) {
			case *UtlsCompressCertExtension:
				cc = x
			case *ALPNExtension:
				alpn = x
			case *SupportedCurvesExtension:
				curves = x
			case *KeyShareExtension:
				shares = x
			}
		}
		var kinds []string
		if cc != nil && len(cc.Algorithms) > 0 {
			kinds = append(kinds, "certcomp")
		}
		if alpn != nil && len(alpn.AlpnProtocols) > 0 {
			kinds = append(kinds, "alpn")
		}
		var s13 []uint16
		for _, x := range uc.HandshakeState.Hello.CipherSuites {
			if vfContains16(vfTLS13Suites, x) {
				s13 = append(s13, x)
			}
		}
		if len(s13) > 0 {
			kinds = append(kinds, "suite")
		}
		var classicalShares []CurveID
		if shares != nil && curves != nil {
			for _, ks := range shares.KeyShares {
				if vfContains16(vfClassicalGroups, uint16(ks.Group)) {
					classicalShares = append(classicalShares, ks.Group)
				}
			}
		}
		if len(classicalShares) > 0 && len(shares.KeyShares) > 1 {
			kinds = append(kinds, "group")
		}
		if len(kinds) == 0 {
			st.Class("edited:nothing-to-remove")
			return
		}
		kind := kinds[rapid.IntRange(0, len(kinds)-1).Draw(rt, "kind")]
		desc := ""
		badALPN := ""
		var badSuite uint16
		switch kind {
		case "certcomp":
			v := cc.Algorithms[rapid.IntRange(0, len(cc.Algorithms)-1).Draw(rt, "alg")]
			if uint16(v) < 1 || uint16(v) > 3 {
				st.Class("edited:nothing-to-remove")
				return
			}
			var rest []CertCompressionAlgo
			for _, a := range cc.Algorithms {
				if a != v {
					rest = append(rest, a)
				}
			}
			if len(rest) == 0 {
				rest = []CertCompressionAlgo{CertCompressionAlgo(1 + uint16(v)%3)}
			}
			old := cc.Algorithms
			cc.Algorithms = rest
			s.CompressAlg = uint16(v)
			s.CompressFn = func(m []byte) ([]byte, uint32) { return vfCompressCert(uint16(v), m), uint32(len(m)) }
			desc = fmt.Sprintf("compress_certificate edited from %v to %v after the first build; server sends CompressedCertificate with algorithm %d", old, rest, v)
		case "alpn":
			v := alpn.AlpnProtocols[rapid.IntRange(0, len(alpn.AlpnProtocols)-1).Draw(rt, "proto")]
			var rest []string
			for _, a := range alpn.AlpnProtocols {
				if a != v {
					rest = append(rest, a)
				}
			}
			if len(rest) == 0 {
				rest = []string{"vf-other"}
			}
			old := alpn.AlpnProtocols
			alpn.AlpnProtocols = rest
			s.ALPN = &v
			badALPN = v
			desc = fmt.Sprintf("ALPN list edited from %v to %v after the first build; server selects %q", old, rest, v)
		case "suite":
			v := s13[rapid.IntRange(0, len(s13)-1).Draw(rt, "suite")]
			var rest []uint16
			for _, x := range uc.HandshakeState.Hello.CipherSuites {
				if x != v {
					rest = append(rest, x)
				}
			}
			uc.HandshakeState.Hello.CipherSuites = rest
			s.Suite = v
			badSuite = v
			desc = fmt.Sprintf("Hello.CipherSuites edited to drop %#04x after the first build; server selects it", v)
		case "group":
			g := classicalShares[rapid.IntRange(0, len(classicalShares)-1).Draw(rt, "group")]
			var restC []CurveID
			for _, c := range curves.Curves {
				if c != g {
					restC = append(restC, c)
				}
			}
			var restS []KeyShare
			for _, ks := range shares.KeyShares {
				if ks.Group != g {
					restS = append(restS, ks)
				}
			}
			curves.Curves = restC
			shares.KeyShares = restS
			s.Group = uint16(g)
			desc = fmt.Sprintf("supported_groups/key_share edited to drop group %#04x after the first build; server answers with a key share for it", uint16(g))
		}
		// the hello that goes out is rebuilt by Handshake; confirm on the wire that the value is really gone
		keys := vfCertKeysFor(p.Offer, VersionTLS13, "")
		if len(keys) == 0 {
			return
		}
		scfg := vfServerConfig(keys[0], vfCertNames(sni)...)
		srv := Server(p.SP, scfg)
		vsrvInstall(srv, s)
		pair := &vfPair{CP: p.CP, SP: p.SP, Cli: uc, Srv: srv}
		cerr, serr := pair.Handshake()
		hellos := vfClientHellosOnWire(p.CP.Written())
		if len(hellos) == 0 {
			st.Class("edited:no-hello-on-wire")
			return
		}
		o2 := vfOfferOf(vfParseClientHello(hellos[0]), 0)
		stillOffered := false
		switch kind {
		case "certcomp":
			stillOffered = vfContains16(o2.Hello.CertCompAlgs(), s.CompressAlg)
		case "alpn":
			for _, a := range o2.ALPN {
				if a == badALPN {
					stillOffered = true
				}
			}
		case "suite":
			stillOffered = vfContains16(o2.Suites, badSuite)
		case "group":
			stillOffered = vfContains16(o2.Shares, s.Group) || vfContains16(o2.Groups, s.Group)
		}
		what := fmt.Sprintf("%s | %s", src, desc)
		if stillOffered {
			// the edit did not reach the wire: that is C01's business, and nothing unoffered was selected here
			st.Class("edited:value-still-on-the-wire")
			return
		}
		st.Class("edited:" + kind)
		cs := uc.ConnectionState()
		if cerr == errVfHang || serr == errVfHang {
			st.Violation(rt, "%s: handshake hung", what)
		}
		if cerr == nil || cs.HandshakeComplete || s.Completed {
			st.Violation(rt, "%s: the client accepted a value its on-wire ClientHello did not offer (client err=%v, complete=%v; scripted server complete=%v err=%v)", what, cerr, cs.HandshakeComplete, s.Completed, serr)
		}
		if badALPN != "" && cs.NegotiatedProtocol == badALPN {
			st.Violation(rt, "%s: ConnectionState reports the unoffered protocol", what)
		}
		if _, werr := uc.Write([]byte("x")); werr == nil {
			st.Violation(rt, "%s: client Write succeeded after the rejected handshake", what)
		}
		st.NonTrivial(fmt.Sprintf("edited|%s|%s|%s", p0.Name, kind, desc))
		st.Sample(map[string]any{"client": src.String(), "kind": "edited-" + kind, "what": desc, "client_error": fmt.Sprint(cerr)})
	})
}
