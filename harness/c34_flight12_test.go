//go:build verif

package tls

// C34 (extension): the client's second flight of a TLS 1.0-1.2 handshake is PLAINTEXT up to ChangeCipherSpec, so a fixed
// byte stream can hand the server any handshake message in the state "ServerHelloDone sent": ClientKeyExchange,
// Certificate, CertificateVerify - or message types only a server should send (CertificateRequest, ServerKeyExchange,
// CertificateStatus, NewSessionTicket ...), which the server's record layer parses before the state machine rejects them.
// Each message is built from the field layout of its type (length-prefixed vectors) with honest or slightly lying
// lengths: half, double, one or two off.

import (
	"bytes"
	"fmt"
	"testing"

	"pgregory.net/rapid"
)

type vf34Field struct {
	w int // prefix width in bytes (0 = raw bytes)
	n int // content length
}

// vf34GenMsg12 draws one handshake message of a TLS <= 1.2 type.
func vf34GenMsg12(rt *rapid.T, l string) ([]byte, string) {
	layouts := map[int][]vf34Field{
		13: {{1, 2}, {2, 4}, {2, 0}},                 // CertificateRequest: types, signature algorithms, CAs
		16: {{2, 48}},                                // ClientKeyExchange (RSA: vec16; ECDHE: vec8 - see the width lie below)
		15: {{0, 2}, {2, 32}},                        // CertificateVerify: algorithm, signature
		11: {{3, 9}},                                 // Certificate: list of vec24 (content is a nested vec24 below)
		22: {{0, 1}, {3, 6}},                         // CertificateStatus
		12: {{0, 1}, {0, 2}, {1, 8}, {0, 2}, {2, 8}}, // ServerKeyExchange (ECDHE): curve type, curve, point, algorithm, signature
		4:  {{0, 4}, {2, 10}},                        // NewSessionTicket (TLS 1.2)
		20: {{0, 12}},                                // Finished (must not be in plaintext)
		14: {},                                       // ServerHelloDone
		67: {{1, 8}},                                 // NextProtocol
		23: {{2, 4}},                                 // SupplementalData
	}
	types := []int{13, 13, 16, 16, 15, 11, 22, 12, 4, 20, 14, 67, 23}
	typ := types[rapid.IntRange(0, len(types)-1).Draw(rt, l+"_type")]
	var body []byte
	lies := 0
	for k, f := range layouts[typ] {
		fl := fmt.Sprintf("%s_f%d", l, k)
		n := f.n
		if rapid.Bool().Draw(rt, fl+"_resize") {
			n = rapid.IntRange(0, 12).Draw(rt, fl+"_n")
		}
		content := bytes.Repeat([]byte{byte(3 + k)}, n)
		if typ == 11 && n >= 3 {
			content[0], content[1], content[2] = 0, 0, byte(n-3) // nested certificate entry
		}
		decl := n
		switch rapid.IntRange(0, 7).Draw(rt, fl+"_lie") {
		case 0:
			decl, lies = n+1, lies+1
		case 1:
			decl, lies = n+2, lies+1
		case 2:
			decl, lies = 2*n, lies+1
		case 3:
			decl, lies = 2*n-1, lies+1
		case 4:
			if n > 0 {
				decl, lies = n-1, lies+1
			}
		}
		if decl < 0 {
			decl = 0
		}
		w := f.w
		if w > 0 && rapid.IntRange(0, 9).Draw(rt, fl+"_width") == 0 {
			w = 1 + w%3 // another prefix width
		}
		switch w {
		case 1:
			body = append(body, byte(vf34Clamp(decl, 255)))
		case 2:
			body = vf34PutU16(body, vf34Clamp(decl, 0xffff))
		case 3:
			body = vf34PutU24(body, decl)
		}
		body = append(body, content...)
	}
	if rapid.IntRange(0, 5).Draw(rt, l+"_tail") == 0 {
		body = append(body, vf34GenBytes(rt, l+"_tailbytes", 6)...)
	}
	raw := vf34PutU24([]byte{byte(typ)}, len(body))
	return append(raw, body...), fmt.Sprintf("msg%d(%d fields, %d lying lengths, %d bytes)", typ, len(layouts[typ]), lies, len(body))
}

func TestVerifC34PlaintextSecondFlight(t *testing.T) {
	env := vf34GetEnv()
	st := vfNewStats(t, "C34")
	rapid.Check(t, func(rt *rapid.T) {
		b := env.bases[rapid.IntRange(0, len(env.bases)-1).Draw(rt, "base")]
		if b.Kind == "ech" {
			return
		}
		sk := rapid.SampledFrom([]int{vf34SrvTLS12RSA, vf34SrvTLS12RSA, vf34SrvDefault, vf34SrvClientAuthAny, vf34SrvClientAuthVerify}).Draw(rt, "server")
		cfg := vf34ServerConfig(env, sk)
		cfg.MaxVersion = rapid.SampledFrom([]uint16{VersionTLS12, VersionTLS12, VersionTLS11, VersionTLS10}).Draw(rt, "maxver")
		var stream []byte
		stream = append(stream, vf34Record(22, 0x0301, b.Msg)...)
		var descs []string
		for k, n := 0, rapid.IntRange(1, 3).Draw(rt, "nmsgs"); k < n; k++ {
			m, d := vf34GenMsg12(rt, fmt.Sprintf("m%d", k))
			descs = append(descs, d)
			ver := uint16(0x0303)
			if cfg.MaxVersion < VersionTLS12 {
				ver = cfg.MaxVersion
			}
			stream = append(stream, vf34Record(22, ver, m)...)
		}
		if rapid.Bool().Draw(rt, "ccs") {
			stream = append(stream, vf34Record(20, 0x0303, []byte{1})...)
		}
		st.Eval()
		o := vf34FeedServer(cfg, stream)
		st.Class("flight12:server=" + vf34SrvNames[sk])
		st.Class("flight12:hs-err=" + vf34ErrClass(o.HSErr))
		for _, d := range descs {
			st.Class("flight12:" + vf34MutClass(d))
		}
		st.NonTrivial(vfHashHex(stream))
		st.Sample(map[string]any{"base": b.Name + "/" + b.Kind, "server": vf34SrvNames[sk], "messages": descs, "hs_err": fmt.Sprint(o.HSErr)})
		vf34Verdict(rt, st, o, "plaintext second flight (TLS <= 1.2)", func() string {
			return fmt.Sprintf("base=%s server=%s maxver=%04x messages=%v stream=%x", b.Name, vf34SrvNames[sk], cfg.MaxVersion, descs, stream)
		})
	})
}
