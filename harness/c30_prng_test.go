//go:build verif

package tls

// C30 - the seeded PRNG is deterministic and its helpers stay in range.
//
// Oracles (all independent of u_prng.go and of golang.org/x/crypto):
//   * an own Keccak-f[1600] sponge (FIPS 202) written below, validated against published test vectors, gives the
//     reference SHAKE256(seed) stream and SHA3-256;
//   * an own HMAC / HKDF (RFC 2104 / RFC 5869) on top of that SHA3-256 gives the reference salted seed;
//   * range laws of Intn / Int63n / Range and the two corners of FlipWeightedCoin as stated by the property; the
//     63-bit value a flip consumed is read from a second, position-synchronised instance;
//   * concurrent callers (-race): every value handed out must be explained by cutting the reference stream into
//     the callers' chunks in an order that respects each caller's program order (exact search over interleavings).

import (
	"bytes"
	"encoding/binary"
	"encoding/hex"
	"fmt"
	"math"
	"math/bits"
	"runtime"
	"strings"
	"sync"
	"sync/atomic"
	"testing"

	"pgregory.net/rapid"
)

// ---- reference Keccak ----

var vf30RC = [24]uint64{
	0x0000000000000001, 0x0000000000008082, 0x800000000000808A, 0x8000000080008000,
	0x000000000000808B, 0x0000000080000001, 0x8000000080008081, 0x8000000000008009,
	0x000000000000008A, 0x0000000000000088, 0x0000000080008009, 0x000000008000000A,
	0x000000008000808B, 0x800000000000008B, 0x8000000000008089, 0x8000000000008003,
	0x8000000000008002, 0x8000000000000080, 0x000000000000800A, 0x800000008000000A,
	0x8000000080008081, 0x8000000000008080, 0x0000000080000001, 0x8000000080008008,
}

// rotation offsets r[x][y]
var vf30Rho = [5][5]int{
	{0, 36, 3, 41, 18},
	{1, 44, 10, 45, 2},
	{62, 6, 43, 15, 61},
	{28, 55, 25, 21, 56},
	{27, 20, 39, 8, 14},
}

func vf30KeccakF(a *[25]uint64) {
	for round := 0; round < 24; round++ {
		var c [5]uint64
		for x := 0; x < 5; x++ {
			c[x] = a[x] ^ a[x+5] ^ a[x+10] ^ a[x+15] ^ a[x+20]
		}
		for x := 0; x < 5; x++ {
			d := c[(x+4)%5] ^ bits.RotateLeft64(c[(x+1)%5], 1)
			for y := 0; y < 5; y++ {
				a[x+5*y] ^= d
			}
		}
		var b [25]uint64
		for x := 0; x < 5; x++ {
			for y := 0; y < 5; y++ {
				b[y+5*((2*x+3*y)%5)] = bits.RotateLeft64(a[x+5*y], vf30Rho[x][y])
			}
		}
		for x := 0; x < 5; x++ {
			for y := 0; y < 5; y++ {
				a[x+5*y] = b[x+5*y] ^ (^b[(x+1)%5+5*y] & b[(x+2)%5+5*y])
			}
		}
		a[0] ^= vf30RC[round]
	}
}

// vf30Sponge absorbs msg with the given domain suffix and squeezes outLen bytes.
func vf30Sponge(rate int, suffix byte, msg []byte, outLen int) []byte {
	var a [25]uint64
	p := append([]byte(nil), msg...)
	p = append(p, suffix)
	for len(p)%rate != 0 {
		p = append(p, 0)
	}
	p[len(p)-1] |= 0x80
	for off := 0; off < len(p); off += rate {
		for i := 0; i < rate/8; i++ {
			a[i] ^= binary.LittleEndian.Uint64(p[off+8*i:])
		}
		vf30KeccakF(&a)
	}
	out := make([]byte, 0, outLen+rate)
	for {
		for i := 0; i < rate/8; i++ {
			out = binary.LittleEndian.AppendUint64(out, a[i])
		}
		if len(out) >= outLen {
			return out[:outLen]
		}
		vf30KeccakF(&a)
	}
}

func vf30Shake256(msg []byte, n int) []byte { return vf30Sponge(136, 0x1f, msg, n) }
func vf30Sha3_256(msg []byte) []byte        { return vf30Sponge(136, 0x06, msg, 32) }

func vf30HmacSha3_256(key, msg []byte) []byte {
	const block = 136
	if len(key) > block {
		key = vf30Sha3_256(key)
	}
	k := make([]byte, block)
	copy(k, key)
	in := make([]byte, 0, block+len(msg))
	outer := make([]byte, 0, block+32)
	for _, b := range k {
		in = append(in, b^0x36)
		outer = append(outer, b^0x5c)
	}
	in = append(in, msg...)
	outer = append(outer, vf30Sha3_256(in)...)
	return vf30Sha3_256(outer)
}

// vf30SaltedSeed = first 32 bytes of HKDF-SHA3-256(secret=seed, salt=salt, info="").
func vf30SaltedSeed(seed []byte, salt string) []byte {
	prk := vf30HmacSha3_256([]byte(salt), seed)
	return vf30HmacSha3_256(prk, []byte{1})
}

func TestVerifC30ReferenceKAT(t *testing.T) {
	st := vfNewStats(t, "C30")
	chk := func(name string, got []byte, want string) {
		st.Eval()
		if hex.EncodeToString(got) != want {
			t.Fatalf("harness self-test: %s = %x, want %s", name, got, want)
		}
	}
	chk("SHA3-256('')", vf30Sha3_256(nil), "a7ffc6f8bf1ed76651c14756a061d662f580ff4de43b49fa82d80a4b80f8434a")
	chk("SHA3-256('abc')", vf30Sha3_256([]byte("abc")), "3a985da74fe225b2045c172d6bd390bd855f086e3e9d525b46bfe24511431532")
	chk("SHAKE256('',32)", vf30Shake256(nil, 32), "46b9dd2b0ba88d13233b3feb743eeb243fcd52ea62b81b82b50c27646ed5762f")
	// a 200-byte message of 0xa3 (NIST example), first 32 bytes of SHAKE256
	chk("SHAKE256(a3*200,32)", vf30Shake256(bytes.Repeat([]byte{0xa3}, 200), 32), "cd8a920ed141aa0407a22d59288652e9d9f1a7ee0c1e7c1ca699424da84a904d")
	// multi-block squeeze is a prefix-consistent stream
	long := vf30Shake256([]byte("x"), 1000)
	for _, n := range []int{1, 135, 136, 137, 272, 999} {
		st.Eval()
		if !bytes.Equal(vf30Shake256([]byte("x"), n), long[:n]) {
			t.Fatalf("harness self-test: SHAKE256 output of %d bytes is not a prefix of the longer one", n)
		}
	}
}

// ---- generators ----

func vf30GenSeed(rt *rapid.T, label string) *PRNGSeed {
	var s PRNGSeed
	switch rapid.IntRange(0, 5).Draw(rt, label+"_kind") {
	case 0: // all zero
	case 1:
		for i := range s {
			s[i] = 0xff
		}
	case 2:
		s[rapid.IntRange(0, 31).Draw(rt, label+"_pos")] = 1 << uint(rapid.IntRange(0, 7).Draw(rt, label+"_bit"))
	default:
		copy(s[:], rapid.SliceOfN(rapid.Byte(), 32, 32).Draw(rt, label))
	}
	return &s
}

var vf30ReadSizes = []int{0, 1, 2, 7, 8, 9, 31, 32, 33, 135, 136, 137, 271, 272, 273, 408, 1000}

func vf30GenReadSize(rt *rapid.T, label string) int {
	if rapid.Bool().Draw(rt, label+"_b") {
		return rapid.SampledFrom(vf30ReadSizes).Draw(rt, label)
	}
	return rapid.IntRange(0, 600).Draw(rt, label)
}

// TestVerifC30Stream: Read / Uint64 / Int63 hand out SHAKE256(seed) in order, whatever the chunking; Seed is ignored;
// a second instance with the same seed gives the same values.
func TestVerifC30Stream(t *testing.T) {
	st := vfNewStats(t, "C30")
	rapid.Check(t, func(rt *rapid.T) {
		seed := vf30GenSeed(rt, "seed")
		seedCopy := *seed
		nops := rapid.IntRange(1, 14).Draw(rt, "nops")
		p, err := newPRNGWithSeed(seed)
		if err != nil || p == nil {
			st.Violation(rt, "newPRNGWithSeed: %v", err)
		}
		var got []byte
		var desc []string
		boundary := false
		for i := 0; i < nops; i++ {
			switch rapid.IntRange(0, 5).Draw(rt, fmt.Sprintf("op%d", i)) {
			case 0:
				v := p.Uint64()
				got = binary.BigEndian.AppendUint64(got, v)
				desc = append(desc, "Uint64")
			case 1:
				v := p.Int63()
				if v < 0 {
					st.Violation(rt, "Int63 returned a negative value %d", v)
				}
				// the top bit of the 8 consumed bytes is dropped: restore it from the reference below
				got = binary.BigEndian.AppendUint64(got, uint64(v))
				desc = append(desc, "Int63")
			case 2:
				p.Seed(rapid.Int64().Draw(rt, fmt.Sprintf("reseed%d", i)))
				desc = append(desc, "Seed")
			default:
				n := vf30GenReadSize(rt, fmt.Sprintf("n%d", i))
				buf := bytes.Repeat([]byte{0x5a}, n)
				rn, rerr := p.Read(buf)
				if rn != n || rerr != nil {
					st.Violation(rt, "Read(%d bytes) returned (%d,%v)", n, rn, rerr)
				}
				got = append(got, buf...)
				desc = append(desc, fmt.Sprintf("Read(%d)", n))
				if n == 0 || n%136 <= 1 || n%136 == 135 {
					boundary = true
				}
			}
		}
		st.Eval()
		if *seed != seedCopy {
			st.Violation(rt, "the seed passed to newPRNGWithSeed was modified")
		}
		ref := vf30Shake256(seedCopy[:], len(got))
		// compare op by op
		off := 0
		for _, d := range desc {
			switch {
			case d == "Seed":
			case d == "Uint64":
				if !bytes.Equal(got[off:off+8], ref[off:off+8]) {
					st.Violation(rt, "seed %x ops %v: Uint64 at stream offset %d = %x, SHAKE256(seed) has %x", seedCopy, desc, off, got[off:off+8], ref[off:off+8])
				}
				off += 8
			case d == "Int63":
				want := binary.BigEndian.Uint64(ref[off:]) & (1<<63 - 1)
				if binary.BigEndian.Uint64(got[off:]) != want {
					st.Violation(rt, "seed %x ops %v: Int63 at stream offset %d = %#x, reference %#x", seedCopy, desc, off, binary.BigEndian.Uint64(got[off:]), want)
				}
				off += 8
			default:
				var n int
				fmt.Sscanf(d, "Read(%d)", &n)
				if !bytes.Equal(got[off:off+n], ref[off:off+n]) {
					st.Violation(rt, "seed %x ops %v: %s at stream offset %d differs from SHAKE256(seed)", seedCopy, desc, d, off)
				}
				off += n
			}
		}
		if len(got) > 136 {
			st.Class("stream:crosses-sponge-block")
		}
		if boundary {
			st.Class("stream:read-size-at-block-boundary-or-0")
		}
		if len(got) > 136 || boundary {
			st.NonTrivial(fmt.Sprintf("st:%x:%v", seedCopy[:4], desc))
		}
		st.Sample(map[string]any{"seed": vfHex(seedCopy[:]), "ops": strings.Join(desc, ","), "bytes": len(got)})
	})
}

func vf30GenSalt(rt *rapid.T, label string) string {
	switch rapid.IntRange(0, 6).Draw(rt, label+"_kind") {
	case 0:
		return ""
	case 1:
		return rapid.SampledFrom([]string{"ALPS", "alps", "ALPS ", " ALPS", "ALP", "A", "B"}).Draw(rt, label)
	case 2: // around the HMAC block size of SHA3-256 (136)
		n := rapid.IntRange(130, 142).Draw(rt, label+"_n")
		return strings.Repeat(string(rune('a'+rapid.IntRange(0, 3).Draw(rt, label+"_c"))), n)
	case 3:
		return string(rapid.SliceOfN(rapid.Byte(), 0, 300).Draw(rt, label))
	default:
		return rapid.StringN(0, 40, -1).Draw(rt, label)
	}
}

// vf30SaltsEquivalent: two salts that HMAC (and so HKDF-Extract, RFC 5869 2.2) cannot tell apart by construction:
// keys are zero-padded to the block size, longer keys are replaced by their hash.
func vf30HmacKeyNorm(s string) string {
	b := []byte(s)
	if len(b) > 136 {
		b = vf30Sha3_256(b)
	}
	return string(bytes.TrimRight(b, "\x00"))
}

func TestVerifC30Salted(t *testing.T) {
	st := vfNewStats(t, "C30")
	rapid.Check(t, func(rt *rapid.T) {
		seed := vf30GenSeed(rt, "seed")
		seedCopy := *seed
		nsalts := rapid.IntRange(2, 4).Draw(rt, "nsalts")
		var salts []string
		for i := 0; i < nsalts; i++ {
			salts = append(salts, vf30GenSalt(rt, fmt.Sprintf("salt%d", i)))
		}
		if rapid.Bool().Draw(rt, "near") { // a near-duplicate of the first salt
			s := salts[0]
			switch rapid.IntRange(0, 2).Draw(rt, "near_kind") {
			case 0:
				s = s + "x"
			case 1:
				if len(s) > 0 {
					b := []byte(s)
					b[len(b)-1] ^= 1
					s = string(b)
				}
			case 2:
				s = "\x00" + s
			}
			salts = append(salts, s)
		}
		st.Eval()
		derived := make([][]byte, len(salts))
		for i, salt := range salts {
			s1, err1 := newSaltedPRNGSeed(seed, salt)
			s2, err2 := newSaltedPRNGSeed(seed, salt)
			if err1 != nil || err2 != nil || s1 == nil || s2 == nil {
				st.Violation(rt, "newSaltedPRNGSeed(%x,%q) failed: %v %v", seedCopy, salt, err1, err2)
			}
			if *s1 != *s2 {
				st.Violation(rt, "newSaltedPRNGSeed(%x,%q) is not deterministic: %x vs %x", seedCopy, salt, *s1, *s2)
			}
			if *seed != seedCopy {
				st.Violation(rt, "newSaltedPRNGSeed modified its input seed")
			}
			want := vf30SaltedSeed(seedCopy[:], salt)
			if !bytes.Equal(s1[:], want) {
				st.Violation(rt, "newSaltedPRNGSeed(%x,%q) = %x, HKDF-SHA3-256(seed,salt) = %x", seedCopy, salt, *s1, want)
			}
			derived[i] = want
			// the PRNG built from (seed,salt) reads SHAKE256(salted seed)
			p, err := newPRNGWithSaltedSeed(seed, salt)
			if err != nil {
				st.Violation(rt, "newPRNGWithSaltedSeed: %v", err)
			}
			n := rapid.IntRange(1, 300).Draw(rt, fmt.Sprintf("len%d", i))
			buf := make([]byte, n)
			p.Read(buf)
			if !bytes.Equal(buf, vf30Shake256(want, n)) {
				st.Violation(rt, "newPRNGWithSaltedSeed(%x,%q): first %d bytes differ from SHAKE256(HKDF(seed,salt))", seedCopy, salt, n)
			}
			if bytes.Equal(s1[:], seedCopy[:]) {
				st.Violation(rt, "salted seed equals the unsalted seed (salt %q)", salt)
			}
		}
		// the same PRNGSeed OBJECT holding another value (a caller rotating its seed in place, a loop variable):
		// the derivation depends on the value, not on the object
		if rapid.Bool().Draw(rt, "reuse_seed_object") {
			next := vf30GenSeed(rt, "seed2")
			*seed = *next
			seedCopy2 := *seed
			for _, salt := range salts[:2] {
				got, err := newSaltedPRNGSeed(seed, salt)
				want := vf30SaltedSeed(seedCopy2[:], salt)
				if err != nil || got == nil || !bytes.Equal(got[:], want) {
					st.Violation(rt, "seed object reused with a new value %x: newSaltedPRNGSeed(%q) = %x (err %v), HKDF-SHA3-256(seed,salt) = %x", seedCopy2, salt, got, err, want)
				}
				p, err := newPRNGWithSaltedSeed(seed, salt)
				if err != nil {
					st.Violation(rt, "newPRNGWithSaltedSeed: %v", err)
				}
				buf := make([]byte, 64)
				p.Read(buf)
				if !bytes.Equal(buf, vf30Shake256(want, 64)) {
					st.Violation(rt, "seed object reused with a new value %x: newPRNGWithSaltedSeed(%q) stream differs from SHAKE256(HKDF(seed,salt))", seedCopy2, salt)
				}
			}
			st.Class("salt:seed-object-reused-with-new-value")
		}
		distinctPairs := 0
		for i := range salts {
			for j := i + 1; j < len(salts); j++ {
				if salts[i] == salts[j] {
					st.Class("salt:pair-equal")
					if !bytes.Equal(derived[i], derived[j]) {
						st.Violation(rt, "equal salts gave different seeds")
					}
					continue
				}
				if vf30HmacKeyNorm(salts[i]) == vf30HmacKeyNorm(salts[j]) {
					// indistinguishable for any HMAC-based KDF; outside what the property can ask for (see notes)
					st.Class("salt:pair-equal-modulo-hmac-key-padding(not judged)")
					continue
				}
				distinctPairs++
				if bytes.Equal(derived[i], derived[j]) {
					st.Violation(rt, "seed %x: salts %q and %q give the same salted seed %x", seedCopy, salts[i], salts[j], derived[i])
				}
			}
		}
		if distinctPairs > 0 {
			st.Class("salt:distinct-pair-compared")
			st.NonTrivial(fmt.Sprintf("sa:%x:%q", seedCopy[:4], salts))
		}
		st.Sample(map[string]any{"seed": vfHex(seedCopy[:]), "salts": fmt.Sprintf("%q", salts)})
	})
}

// ---- helpers: range laws ----

var vf30IntBoundaries = []int{math.MinInt, math.MinInt + 1, -1 << 32, -1 << 31, -3, -2, -1, 0, 1, 2, 3, 4, 5, 7, 8, 255, 256,
	1<<31 - 2, 1<<31 - 1, 1 << 31, 1<<31 + 1, 1<<32 - 1, 1 << 32, 1<<62 - 1, 1 << 62, 1<<62 + 1, math.MaxInt - 1, math.MaxInt}

func vf30GenInt(rt *rapid.T, label string) (int, bool) {
	switch rapid.IntRange(0, 3).Draw(rt, label+"_kind") {
	case 0:
		return rapid.SampledFrom(vf30IntBoundaries).Draw(rt, label), true
	case 1:
		return rapid.IntRange(-5, 40).Draw(rt, label), false
	case 2:
		return rapid.IntRange(0, 70000).Draw(rt, label), false
	default:
		return rapid.Int().Draw(rt, label), false
	}
}

var vf30Weights = []float64{math.Inf(-1), -math.MaxFloat64, -1, -1e-300, -math.SmallestNonzeroFloat64, math.Copysign(0, -1), 0,
	math.SmallestNonzeroFloat64, 1e-300, 1e-19, 0.25, 0.5, 0.75, 1 - 1e-16, math.Nextafter(1, 0), 1, math.Nextafter(1, 2), 1.5, 2,
	math.MaxFloat64, math.Inf(1), math.NaN()}

func vf30GenWeight(rt *rapid.T, label string) float64 {
	if rapid.IntRange(0, 2).Draw(rt, label+"_kind") > 0 {
		return rapid.SampledFrom(vf30Weights).Draw(rt, label)
	}
	return rapid.Float64Range(-2, 3).Draw(rt, label)
}

type vf30Op struct {
	kind     string
	a, b     int
	w        float64
	boundary bool
}

func (o vf30Op) String() string {
	switch o.kind {
	case "Intn", "Int63n", "Perm":
		return fmt.Sprintf("%s(%d)", o.kind, o.a)
	case "Range":
		return fmt.Sprintf("Range(%d,%d)", o.a, o.b)
	case "Flip":
		return fmt.Sprintf("Flip(%v)", o.w)
	}
	return o.kind
}

func vf30GenOp(rt *rapid.T, label string) vf30Op {
	switch rapid.IntRange(0, 9).Draw(rt, label+"_op") {
	case 0, 1:
		n, b := vf30GenInt(rt, label+"_n")
		return vf30Op{kind: "Intn", a: n, boundary: b}
	case 2, 3:
		n, b := vf30GenInt(rt, label+"_n")
		return vf30Op{kind: "Int63n", a: n, boundary: b}
	case 4, 5, 6:
		var lo, hi int
		var b1, b2 bool
		switch rapid.IntRange(0, 3).Draw(rt, label+"_shape") {
		case 0: // small window near zero, both signs
			lo = rapid.IntRange(-4, 20).Draw(rt, label+"_min")
			hi = lo + rapid.IntRange(-2, 30).Draw(rt, label+"_d")
		case 1: // max near min, anywhere (may wrap: still an int)
			lo, b1 = vf30GenInt(rt, label+"_min")
			hi = lo + rapid.IntRange(-3, 6).Draw(rt, label+"_d")
		case 2: // wide non-negative window
			lo = rapid.IntRange(0, math.MaxInt).Draw(rt, label+"_min")
			hi = rapid.IntRange(lo, math.MaxInt).Draw(rt, label+"_max")
		default:
			lo, b1 = vf30GenInt(rt, label+"_min")
			hi, b2 = vf30GenInt(rt, label+"_max")
		}
		return vf30Op{kind: "Range", a: lo, b: hi, boundary: b1 || b2 || lo < 0 || hi < lo}
	case 7, 8:
		w := vf30GenWeight(rt, label+"_w")
		return vf30Op{kind: "Flip", w: w, boundary: !(w > 0 && w < 1)}
	default:
		return vf30Op{kind: "Perm", a: rapid.IntRange(0, 12).Draw(rt, label+"_n")}
	}
}

// vf30Apply runs op on p. For Flip on the "peek" instance it consumes the same 63-bit value with Int63 instead.
func vf30Apply(p *prng, o vf30Op, peek bool) (res int64, perm []int, pan *vfPanic) {
	pan = vfCatch(func() {
		switch o.kind {
		case "Intn":
			res = int64(p.Intn(o.a))
		case "Int63n":
			res = p.Int63n(int64(o.a))
		case "Range":
			res = int64(p.Range(o.a, o.b))
		case "Flip":
			if peek {
				res = p.Int63()
			} else if p.FlipWeightedCoin(o.w) {
				res = 1
			}
		case "Perm":
			perm = p.Perm(o.a)
		}
	})
	return
}

// vf30Judge checks the stated law of one helper call. peeked is the 63-bit value a Flip consumed.
func vf30Judge(o vf30Op, res int64, perm []int, peeked int64) (class string, bad string) {
	switch o.kind {
	case "Intn", "Int63n":
		n := int64(o.a)
		if n <= 0 {
			if res != 0 {
				return o.kind + ":n<=0", fmt.Sprintf("%v = %d, must be 0", o, res)
			}
			return o.kind + ":n<=0", ""
		}
		if res < 0 || res >= n {
			return o.kind + ":n>0", fmt.Sprintf("%v = %d, outside [0,%d)", o, res, n)
		}
		switch {
		case n == 1:
			return o.kind + ":n=1", ""
		case n > 1<<31-1:
			return o.kind + ":n>=2^31", ""
		}
		return o.kind + ":n>0", ""
	case "Range":
		lo := int64(o.a)
		if lo < 0 {
			lo = 0
		}
		hi := int64(o.b)
		if hi < lo {
			if res != lo {
				return "Range:max<clamped-min", fmt.Sprintf("%v = %d, must be the clamped minimum %d", o, res, lo)
			}
			return "Range:max<clamped-min", ""
		}
		if res < lo || res > hi {
			return "Range:in-range", fmt.Sprintf("%v = %d, outside [%d,%d]", o, res, lo, hi)
		}
		switch {
		case hi-lo+1 <= 0:
			return "Range:width-overflows-int", ""
		case o.a < 0:
			return "Range:min<0", ""
		case hi == lo:
			return "Range:min=max", ""
		}
		return "Range:in-range", ""
	case "Flip":
		switch {
		case o.w <= 0:
			if res != 0 {
				return "Flip:w<=0", fmt.Sprintf("%v = true", o)
			}
			return "Flip:w<=0", ""
		case o.w >= 1:
			// true except when the 63-bit value consumed is 0 (probability 2^-63)
			if (res == 1) != (peeked != 0) {
				return "Flip:w>=1", fmt.Sprintf("%v = %v with consumed 63-bit value %d", o, res == 1, peeked)
			}
			return "Flip:w>=1", ""
		case math.IsNaN(o.w):
			return "Flip:NaN(not judged)", ""
		}
		return "Flip:0<w<1(not judged)", ""
	case "Perm":
		seen := make([]bool, o.a)
		if len(perm) != o.a {
			return "Perm", fmt.Sprintf("%v has %d elements", o, len(perm))
		}
		for _, x := range perm {
			if x < 0 || x >= o.a || seen[x] {
				return "Perm", fmt.Sprintf("%v = %v is not a permutation", o, perm)
			}
			seen[x] = true
		}
		return "Perm(not in the statement; permutation law only)", ""
	}
	return "?", ""
}

func TestVerifC30Helpers(t *testing.T) {
	st := vfNewStats(t, "C30")
	rapid.Check(t, func(rt *rapid.T) {
		seed := vf30GenSeed(rt, "seed")
		nops := rapid.IntRange(1, 24).Draw(rt, "nops")
		main, _ := newPRNGWithSeed(seed)
		twin, _ := newPRNGWithSeed(seed) // same seed, same calls: must give the same answers
		peek, _ := newPRNGWithSeed(seed) // same calls except that a flip is replaced by Int63
		var desc []string
		boundary := false
		st.Eval()
		for i := 0; i < nops; i++ {
			o := vf30GenOp(rt, fmt.Sprintf("o%d", i))
			desc = append(desc, o.String())
			res, perm, pan := vf30Apply(main, o, false)
			if pan != nil {
				st.Violation(rt, "seed %x ops %v: %v panicked: %v", *seed, desc, o, pan.Val)
			}
			res2, perm2, pan2 := vf30Apply(twin, o, false)
			if pan2 != nil || res2 != res || fmt.Sprint(perm) != fmt.Sprint(perm2) {
				st.Violation(rt, "seed %x ops %v: two instances with the same seed disagree on %v: %d/%v vs %d/%v", *seed, desc, o, res, perm, res2, perm2)
			}
			peeked, _, _ := vf30Apply(peek, o, true)
			class, bad := vf30Judge(o, res, perm, peeked)
			st.Class("helper:" + class)
			if bad != "" {
				st.Violation(rt, "seed %x ops %v: %s", *seed, desc, bad)
			}
			if o.boundary {
				boundary = true
			}
		}
		// the three instances must still be at the same stream position
		a, b, c := main.Uint64(), twin.Uint64(), peek.Uint64()
		if a != b || a != c {
			st.Violation(rt, "seed %x ops %v: instances drifted apart (%#x %#x %#x)", *seed, desc, a, b, c)
		}
		if boundary {
			st.NonTrivial(fmt.Sprintf("h:%x:%v", seed[:4], desc))
		}
		st.Sample(map[string]any{"seed": vfHex(seed[:]), "ops": strings.Join(desc, ", ")})
	})
}

// Deterministic sweep of the corners named in the statement, on a few seeds and many stream positions.
func TestVerifC30Corners(t *testing.T) {
	st := vfNewStats(t, "C30")
	for s := 0; s < 4; s++ {
		var seed PRNGSeed
		seed[0] = byte(s)
		p, _ := newPRNGWithSeed(&seed)
		q, _ := newPRNGWithSeed(&seed)
		for i := 0; i < 400; i++ {
			for _, o := range []vf30Op{
				{kind: "Intn", a: 0}, {kind: "Intn", a: -1}, {kind: "Intn", a: math.MinInt}, {kind: "Intn", a: 1}, {kind: "Intn", a: math.MaxInt},
				{kind: "Intn", a: 1 << 31}, {kind: "Intn", a: 1<<31 - 1}, {kind: "Intn", a: 3},
				{kind: "Int63n", a: 0}, {kind: "Int63n", a: -7}, {kind: "Int63n", a: 1}, {kind: "Int63n", a: math.MaxInt},
				{kind: "Range", a: 0, b: 0}, {kind: "Range", a: 5, b: 5}, {kind: "Range", a: 5, b: 4}, {kind: "Range", a: -9, b: -1},
				{kind: "Range", a: -9, b: 2}, {kind: "Range", a: math.MinInt, b: math.MaxInt}, {kind: "Range", a: 0, b: math.MaxInt},
				{kind: "Range", a: 1, b: math.MaxInt}, {kind: "Range", a: math.MaxInt, b: math.MaxInt}, {kind: "Range", a: math.MaxInt, b: math.MinInt},
				{kind: "Range", a: 10, b: 12}, {kind: "Range", a: math.MaxInt - 1, b: math.MaxInt},
				{kind: "Flip", w: 0}, {kind: "Flip", w: math.Copysign(0, -1)}, {kind: "Flip", w: -0.5}, {kind: "Flip", w: math.Inf(-1)},
				{kind: "Flip", w: 1}, {kind: "Flip", w: 1.0000000001}, {kind: "Flip", w: math.Inf(1)}, {kind: "Flip", w: 7},
			} {
				st.Eval()
				res, perm, pan := vf30Apply(p, o, false)
				if pan != nil {
					st.Violation(t, "%v panicked: %v", o, pan.Val)
				}
				peeked, _, _ := vf30Apply(q, o, true)
				class, bad := vf30Judge(o, res, perm, peeked)
				st.Class("corner:" + class)
				if bad != "" {
					st.Violation(t, "seed %x call %d: %s", seed, i, bad)
				}
			}
		}
	}
}

// ---- concurrent callers ----

type vf30Chunk struct {
	n     int
	desc  string
	match func(ref []byte) bool // ref has exactly n bytes
}

// vf30Explain searches for an interleaving of the callers' chunk sequences that tiles ref exactly.
func vf30Explain(ref []byte, seqs [][]vf30Chunk) bool {
	idx := make([]int, len(seqs))
	dead := map[string]bool{}
	var rec func(pos int) bool
	rec = func(pos int) bool {
		done := true
		for c := range seqs {
			if idx[c] < len(seqs[c]) {
				done = false
			}
		}
		if done {
			return pos == len(ref)
		}
		key := fmt.Sprint(idx)
		if dead[key] {
			return false
		}
		for c := range seqs {
			if idx[c] >= len(seqs[c]) {
				continue
			}
			ch := seqs[c][idx[c]]
			if pos+ch.n > len(ref) || !ch.match(ref[pos:pos+ch.n]) {
				continue
			}
			idx[c]++
			if rec(pos + ch.n) {
				return true
			}
			idx[c]--
		}
		dead[key] = true
		return false
	}
	return rec(0)
}

func TestVerifC30Concurrent(t *testing.T) {
	st := vfNewStats(t, "C30")
	rapid.Check(t, func(rt *rapid.T) {
		seed := vf30GenSeed(rt, "seed")
		callers := rapid.IntRange(2, 4).Draw(rt, "callers")
		type call struct {
			kind string
			n    int // Read size or log2 of the bound
		}
		progs := make([][]call, callers)
		for c := range progs {
			k := rapid.IntRange(1, 8).Draw(rt, fmt.Sprintf("k%d", c))
			for i := 0; i < k; i++ {
				l := fmt.Sprintf("c%d_%d", c, i)
				switch rapid.IntRange(0, 6).Draw(rt, l) {
				case 0:
					progs[c] = append(progs[c], call{"Uint64", 0})
				case 1:
					progs[c] = append(progs[c], call{"Int63", 0})
				case 2:
					progs[c] = append(progs[c], call{"IntnPow2", rapid.IntRange(0, 62).Draw(rt, l+"_k")})
				case 3:
					progs[c] = append(progs[c], call{"Int63nPow2", rapid.IntRange(0, 62).Draw(rt, l+"_k")})
				case 4:
					progs[c] = append(progs[c], call{"Read", rapid.IntRange(1, 6).Draw(rt, l+"_n")})
				default:
					progs[c] = append(progs[c], call{"Read", rapid.SampledFrom([]int{8, 17, 64, 135, 136, 137, 200, 300}).Draw(rt, l+"_n")})
				}
			}
		}
		p, _ := newPRNGWithSeed(seed)
		seqs := make([][]vf30Chunk, callers)
		var ready int32
		var wg sync.WaitGroup
		for c := range progs {
			wg.Add(1)
			go func(c int) {
				defer wg.Done()
				atomic.AddInt32(&ready, 1)
				for spins := 0; atomic.LoadInt32(&ready) < int32(callers); spins++ {
					if spins > 1000 {
						runtime.Gosched()
					}
				}
				for _, cl := range progs[c] {
					switch cl.kind {
					case "Uint64":
						v := p.Uint64()
						seqs[c] = append(seqs[c], vf30Chunk{8, fmt.Sprintf("Uint64=%#x", v), func(r []byte) bool { return binary.BigEndian.Uint64(r) == v }})
					case "Int63":
						v := p.Int63()
						seqs[c] = append(seqs[c], vf30Chunk{8, fmt.Sprintf("Int63=%#x", v), func(r []byte) bool { return int64(binary.BigEndian.Uint64(r)&(1<<63-1)) == v }})
					case "IntnPow2", "Int63nPow2":
						// math/rand: a power-of-two bound consumes exactly one Int63 and masks it (Int31n path: top 31 bits)
						n := int64(1) << uint(cl.n)
						var v int64
						if cl.kind == "IntnPow2" {
							v = int64(p.Intn(int(n)))
						} else {
							v = p.Int63n(n)
						}
						via31 := cl.kind == "IntnPow2" && n <= 1<<31-1
						seqs[c] = append(seqs[c], vf30Chunk{8, fmt.Sprintf("%s(2^%d)=%#x", cl.kind, cl.n, v), func(r []byte) bool {
							x := int64(binary.BigEndian.Uint64(r) & (1<<63 - 1))
							if via31 {
								x >>= 32
							}
							return x&(n-1) == v
						}})
					case "Read":
						buf := make([]byte, cl.n)
						p.Read(buf)
						seqs[c] = append(seqs[c], vf30Chunk{cl.n, fmt.Sprintf("Read(%d)=%x", cl.n, buf[:min(cl.n, 6)]), func(r []byte) bool { return bytes.Equal(r, buf) }})
					}
				}
			}(c)
		}
		wg.Wait()
		total := 0
		var desc []string
		for c := range seqs {
			var d []string
			for _, ch := range seqs[c] {
				total += ch.n
				d = append(d, ch.desc)
			}
			desc = append(desc, fmt.Sprintf("caller%d: %s", c, strings.Join(d, " ")))
		}
		st.Eval()
		st.Class(fmt.Sprintf("conc:callers=%d", callers))
		ref := vf30Shake256(seed[:], total)
		// was the observed order different from "caller 0 first, then caller 1, ..."? (measures real interleaving)
		serial := true
		pos := 0
		for c := range seqs {
			for _, ch := range seqs[c] {
				if !ch.match(ref[pos : pos+ch.n]) {
					serial = false
				}
				pos += ch.n
			}
		}
		if serial {
			st.Class("conc:callers-ran-one-after-the-other")
		} else {
			st.Class("conc:interleaved")
			st.NonTrivial(fmt.Sprintf("co:%x:%v", seed[:4], desc))
		}
		st.Sample(map[string]any{"seed": vfHex(seed[:]), "callers": desc})
		if !vf30Explain(ref, seqs) {
			st.Violation(rt, "seed %x: the values handed to %d concurrent callers are not a partition of SHAKE256(seed)[:%d] in any order respecting program order: %v", *seed, callers, total, desc)
		}
	})
}

// All helpers called concurrently: race detector + range laws only (consumption is data dependent).
func TestVerifC30ConcurrentHelpers(t *testing.T) {
	st := vfNewStats(t, "C30")
	rapid.Check(t, func(rt *rapid.T) {
		seed := vf30GenSeed(rt, "seed")
		callers := rapid.IntRange(2, 4).Draw(rt, "callers")
		progs := make([][]vf30Op, callers)
		for c := range progs {
			k := rapid.IntRange(1, 8).Draw(rt, fmt.Sprintf("k%d", c))
			for i := 0; i < k; i++ {
				progs[c] = append(progs[c], vf30GenOp(rt, fmt.Sprintf("c%d_%d", c, i)))
			}
		}
		p, _ := newPRNGWithSeed(seed)
		bad := make([]string, callers)
		var ready int32
		var wg sync.WaitGroup
		for c := range progs {
			wg.Add(1)
			go func(c int) {
				defer wg.Done()
				atomic.AddInt32(&ready, 1)
				for spins := 0; atomic.LoadInt32(&ready) < int32(callers); spins++ {
					if spins > 1000 {
						runtime.Gosched()
					}
				}
				for _, o := range progs[c] {
					res, perm, pan := vf30Apply(p, o, false)
					if pan != nil {
						bad[c] = fmt.Sprintf("%v panicked: %v", o, pan.Val)
						return
					}
					if o.kind == "Flip" && o.w >= 1 {
						if res != 1 {
							// cannot know the consumed value here; 2^-63 per call is treated as impossible
							bad[c] = fmt.Sprintf("%v = false", o)
							return
						}
						continue
					}
					if _, b := vf30Judge(o, res, perm, 1); b != "" {
						bad[c] = b
						return
					}
				}
			}(c)
		}
		wg.Wait()
		st.Eval()
		st.Class("conc-helpers")
		for c, b := range bad {
			if b != "" {
				st.Violation(rt, "seed %x caller %d of %d: %s", *seed, c, callers, b)
			}
		}
	})
}
