//go:build verif

package tls

// C06 - fingerprint -> re-apply round trip and idempotence.
// H1 (parrot / randomized / generated custom spec, server name s1) --FingerprintClientHello(flags)--> spec
// --HelloCustom+ApplyPreset+BuildHandshakeState (server name s2, |s2| = |s1|)--> H2; normal forms (reference
// parser + vfNormHello, which masks exactly the per-connection material) must be equal, total lengths equal
// when the per-connection parts have equal sizes; H2 -> H3 the same way must be a fixed point.
// Depends on c02_genspec_test.go for custom specs.

import (
	"fmt"
	"strings"
	"testing"

	"pgregory.net/rapid"
)

const vf06KeyCompression = "C06:spec-compression-methods-ignored"

func vf06Record(msg []byte) []byte {
	n := len(msg)
	if n > 0xffff {
		n = 0xffff
	}
	return append([]byte{22, 3, 1, byte(n >> 8), byte(n)}, msg...)
}

type vf06Norm struct {
	Lines     []string
	TicketLen int
	HasPad    bool
	PadLen    int
	HasPSK    bool
	Comp      string
}

// vf06Normalise renders the hello in normal form. On top of vfNormHello the session ticket is masked completely
// (the property lists it as per-connection material) and compression methods are split off (see the known finding).
func vf06Normalise(h *vfHello, dropPadding, dropPSK bool) vf06Norm {
	n := vf06Norm{TicketLen: -1}
	for _, l := range vfNormHello(h, vfNormOpts{}) {
		switch {
		case strings.HasPrefix(l, "ext 35:ticket["):
			l = "ext 35:ticket"
		case strings.HasPrefix(l, "comp="):
			n.Comp = l
			continue
		case l == "ext 21:pad":
			if dropPadding {
				continue
			}
		case strings.HasPrefix(l, "ext 41:"):
			if dropPSK {
				continue
			}
		}
		n.Lines = append(n.Lines, l)
	}
	if e := h.Ext(35); e != nil {
		n.TicketLen = len(e.Body)
	}
	if e := h.Ext(21); e != nil {
		n.HasPad, n.PadLen = true, len(e.Body)
	}
	n.HasPSK = h.Ext(41) != nil
	return n
}

func vf06SNILen(h *vfHello) int {
	if name, ok := h.SNI(); ok {
		return len(name)
	}
	return -1
}

// vf06Reapply fingerprints raw and re-applies the spec under a server name of the same length.
// stage: "" ok | "fingerprint" | "apply" | "build" | "panic"
func vf06Reapply(f *Fingerprinter, raw []byte, sniLen int, fill byte, seed uint64) (out []byte, stage string, err error) {
	var spec *ClientHelloSpec
	if pan := vfCatch(func() { spec, err = f.FingerprintClientHello(vf06Record(raw)) }); pan != nil {
		return nil, "panic", fmt.Errorf("FingerprintClientHello panicked: %v", pan.Val)
	}
	if err != nil {
		return nil, "fingerprint", err
	}
	name := "reapply.example.test"
	if sniLen > 0 {
		name = vfDNSNameOfLen(sniLen, fill)
	}
	cm := vfCfgMeta{ServerName: name, OmitEmptyPsk: true, RandSeed: seed}
	cp, _ := vfPipe()
	var uc *UConn
	if pan := vfCatch(func() {
		uc, err = vfNewCustomUConn(cp, cm.Config(), cm, spec)
		if err != nil {
			stage = "apply"
			return
		}
		if err = uc.BuildHandshakeState(); err != nil {
			stage = "build"
		}
	}); pan != nil {
		return nil, "panic", fmt.Errorf("re-apply panicked: %v", pan.Val)
	}
	if err != nil {
		return nil, stage, err
	}
	return uc.HandshakeState.Hello.Raw, "", nil
}

func vf06ErrClass(err error) string {
	s := err.Error()
	for _, k := range []string{"unsupported extension", "unsupported Curve", "empty psk", "bad ", "unable to read", "invalid binder"} {
		if strings.Contains(s, k) {
			return k
		}
	}
	if len(s) > 40 {
		s = s[:40]
	}
	return s
}

type vf06Src struct {
	Kind, Name string
	ID         ClientHelloID
	Meta       *vfSpecMeta
	Spec       *ClientHelloSpec
}

func vf06GenSource(t *rapid.T) vf06Src {
	switch k := rapid.IntRange(0, 9).Draw(t, "source"); {
	case k < 3:
		p := vfGenParrot(t, "parrot")
		return vf06Src{Kind: "parrot", Name: p.Name, ID: p.ID}
	case k < 5:
		r := vfGenRandomizedID(t, "rnd")
		return vf06Src{Kind: "randomized", Name: r.Name + ":" + r.SeedHx, ID: r.ID}
	}
	spec, meta := vfGenCustomSpec(t)
	return vf06Src{Kind: "custom", Name: meta.Mode, ID: HelloCustom, Meta: meta, Spec: spec}
}

// vf06RoundTrip runs H1 -> H2 -> H3 and applies the oracle.
func vf06RoundTrip(st *vfStats, t vfFataler, src vf06Src, raw1 []byte, f *Fingerprinter, fill byte, seed uint64) {
	what := fmt.Sprintf("%s %s flags=%+v", src.Kind, src.Name, *f)
	h1 := vfParseClientHello(raw1)
	if len(h1.Violations) != 0 {
		st.Class("h1-invalid")
		return // C02's business
	}
	// outside "a hello utls can represent": a non-empty renegotiated_connection (not an initial ClientHello) and an
	// empty padding body (the property speaks of non-empty padding)
	if e := h1.Ext(0xff01); e != nil && len(e.Body) != 1 {
		st.Class("excluded:renegotiated-connection")
		return
	}
	if e := h1.Ext(21); e != nil && len(e.Body) == 0 {
		st.Class("excluded:empty-padding")
		return
	}
	// hellos whose extensions block is close to 2^16 belong to C02 (a re-applied hello that grows by a byte runs
	// into C02:extensions-block-overflow)
	blk := 0
	for _, e := range h1.Exts {
		blk += 4 + len(e.Body)
	}
	if blk > 60000 {
		st.Class("excluded:near-2^16")
		return
	}
	st.Eval()
	st.Class("source:" + src.Kind)
	raw2, stage, err := vf06Reapply(f, raw1, vf06SNILen(h1), fill, seed)
	if stage == "panic" {
		st.Violation(t, "%s: %v", what, err)
	}
	if err != nil {
		st.Class("h2-" + stage + "-error:" + vf06ErrClass(err))
		unknownExt := stage == "fingerprint" && strings.Contains(err.Error(), "unsupported extension") && !f.AllowBluntMimicry
		if src.Kind != "custom" {
			// every parrot and randomized output is representable
			st.Violation(t, "%s: %s failed: %v", what, stage, err)
		}
		if src.Kind == "custom" && !unknownExt && !strings.Contains(err.Error(), "unsupported Curve") {
			// custom specs: unknown extension types need AllowBluntMimicry, and key shares of groups utls cannot
			// generate need the caller's data (documented); anything else is unexpected
			st.Violation(t, "%s: %s failed: %v", what, stage, err)
		}
		return
	}
	h2 := vfParseClientHello(raw2)
	if len(h2.Violations) != 0 {
		st.Violation(t, "%s: regenerated hello is not valid: %v (H1 %d bytes %s; H2 %d bytes %s)", what, h2.Violations, len(raw1), vf06ExtSizes(raw1), len(raw2), vf06ExtSizes(raw2))
	}
	dropPad := f.AlwaysAddPadding && h1.Ext(21) == nil // the flag may add a padding extension H1 did not have
	dropPSK := f.RealPSKResumption                     // a real PSK extension without a session is omitted
	n1 := vf06Normalise(h1, dropPad, dropPSK)
	n2 := vf06Normalise(h2, dropPad, dropPSK)
	if a, b := strings.Join(n1.Lines, "\n"), strings.Join(n2.Lines, "\n"); a != b {
		st.Violation(t, "%s: regenerated hello differs from the fingerprinted one:\n%s", what, vfDiffLines(n1.Lines, n2.Lines))
	}
	compOK := n1.Comp == n2.Comp
	if !compOK {
		st.Class("known:compression-methods-ignored")
		st.KnownOrViolation(t, vf06KeyCompression, "%s: compression methods of the fingerprinted hello (%s) are not reproduced (%s)", what, n1.Comp, n2.Comp)
	}
	// equal total length when the per-connection parts have equal size
	if compOK && n1.TicketLen == n2.TicketLen && n1.HasPSK == n2.HasPSK && n1.HasPad == n2.HasPad && len(raw1) != len(raw2) {
		st.Violation(t, "%s: same shape and same per-connection sizes but %d bytes became %d (padding %d -> %d)", what, len(raw1), len(raw2), n1.PadLen, n2.PadLen)
	}
	if n1.HasPad {
		st.Class("h1-with-padding")
	}
	// idempotence
	raw3, stage, err := vf06Reapply(f, raw2, vf06SNILen(h2), fill+1, seed+1)
	if err != nil {
		st.Violation(t, "%s: second round trip failed at %s: %v", what, stage, err)
	}
	h3 := vfParseClientHello(raw3)
	n2f := vf06Normalise(h2, false, dropPSK)
	n3f := vf06Normalise(h3, false, dropPSK)
	if a, b := strings.Join(n2f.Lines, "\n")+n2f.Comp, strings.Join(n3f.Lines, "\n")+n3f.Comp; a != b {
		st.Violation(t, "%s: fingerprinting is not idempotent:\n%s", what, vfDiffLines(n2f.Lines, n3f.Lines))
	}
	if len(raw3) != len(raw2) {
		st.Violation(t, "%s: second round trip changed the length %d -> %d", what, len(raw2), len(raw3))
	}
	st.Class("round-trip-ok")
	if src.Kind != "parrot" || f.AllowBluntMimicry || f.AlwaysAddPadding || f.RealPSKResumption || n1.HasPad {
		st.NonTrivial(fmt.Sprintf("%s|%s|%v%v%v|%s|pad%v", src.Kind, src.Name, f.AllowBluntMimicry, f.AlwaysAddPadding, f.RealPSKResumption, strings.Join(n1.Lines[4:min(len(n1.Lines), 30)], ";"), n1.HasPad))
	}
	st.Sample(map[string]any{"source": src.Kind + " " + src.Name, "flags": fmt.Sprintf("%+v", *f), "len": []int{len(raw1), len(raw2), len(raw3)}, "padding": n1.HasPad})
}

func TestVerifC06RoundTrip(t *testing.T) {
	st := vfNewStats(t, "C06")
	rapid.Check(t, func(rt *rapid.T) {
		src := vf06GenSource(rt)
		kind, s1 := vfGenServerNameShape(rt, "s1")
		cm := vfCfgMeta{SNIKind: kind, ServerName: s1, OmitEmptyPsk: true, RandSeed: rapid.Uint64().Draw(rt, "rand")}
		f := &Fingerprinter{AllowBluntMimicry: rapid.Bool().Draw(rt, "blunt"), AlwaysAddPadding: rapid.Bool().Draw(rt, "addpad"),
			RealPSKResumption: rapid.Bool().Draw(rt, "realpsk")}
		fill := byte('a' + rapid.IntRange(0, 20).Draw(rt, "fill"))
		cp, _ := vfPipe()
		var uc *UConn
		var err error
		if pan := vfCatch(func() {
			if src.Spec != nil {
				uc, err = vfNewCustomUConn(cp, cm.Config(), cm, src.Spec)
				if err != nil {
					return
				}
			} else {
				uc = vfNewUConn(cp, cm.Config(), cm, src.ID)
			}
			err = uc.BuildHandshakeState()
		}); pan != nil || err != nil {
			st.Class("h1-build-failed")
			return
		}
		st.Class("sni:" + kind)
		raw1 := uc.HandshakeState.Hello.Raw
		// a captured hello need not come from utls: other clients offer more compression methods than {null}
		if rapid.IntRange(0, 9).Draw(rt, "foreign_compression") == 0 {
			comp := [][]uint8{{1, 0}, {0, 1}, {0, 1, 64}}[rapid.IntRange(0, 2).Draw(rt, "comp")]
			if h := vfParseClientHello(raw1); len(h.Violations) == 0 && h.HasExts {
				raw1 = vf06WithCompression(h, comp)
				st.Class("h1-foreign-compression")
			}
		}
		// ... nor need it be as recent as utls' own hellos: a TLS 1.0 / 1.1-only client (no supported_versions) states
		// its maximum in legacy_version
		if h := vfParseClientHello(raw1); len(h.Violations) == 0 && h.Ext(43) == nil && len(raw1) > 6 && rapid.IntRange(0, 2).Draw(rt, "foreign_legacy_version") == 0 {
			v := rapid.SampledFrom([]uint16{VersionTLS10, VersionTLS11}).Draw(rt, "legacy_version")
			raw1 = append([]byte(nil), raw1...)
			raw1[4], raw1[5] = byte(v>>8), byte(v)
			st.Class(fmt.Sprintf("h1-foreign-legacy-version-%04x", v))
		}
		vf06RoundTrip(st, rt, src, raw1, f, fill, cm.RandSeed)
	})
}

// Exhaustive: every parrot x the 8 flag combinations, plus the directed case of the known finding.
func TestVerifC06AllParrotsAllFlags(t *testing.T) {
	st := vfNewStats(t, "C06")
	for _, p := range vfParrots {
		for flags := 0; flags < 8; flags++ {
			f := &Fingerprinter{AllowBluntMimicry: flags&1 != 0, AlwaysAddPadding: flags&2 != 0, RealPSKResumption: flags&4 != 0}
			cm := vfCfgMeta{ServerName: "parrot.example.test", OmitEmptyPsk: true, RandSeed: uint64(flags)}
			cp, _ := vfPipe()
			uc := vfNewUConn(cp, cm.Config(), cm, p.ID)
			if err := uc.BuildHandshakeState(); err != nil {
				st.Violation(t, "%s: BuildHandshakeState: %v", p.Name, err)
			}
			vf06RoundTrip(st, t, vf06Src{Kind: "parrot", Name: p.Name, ID: p.ID}, uc.HandshakeState.Hello.Raw, f, 'p', uint64(flags))
		}
	}
	// directed: a hello with compression methods {1,0}
	spec := &ClientHelloSpec{CipherSuites: []uint16{TLS_AES_128_GCM_SHA256, TLS_ECDHE_ECDSA_WITH_AES_128_GCM_SHA256}, CompressionMethods: []uint8{0},
		Extensions: []TLSExtension{&SNIExtension{}, &SupportedCurvesExtension{Curves: []CurveID{X25519}}, &SupportedPointsExtension{SupportedPoints: []uint8{0}},
			&SignatureAlgorithmsExtension{SupportedSignatureAlgorithms: []SignatureScheme{ECDSAWithP256AndSHA256}},
			&SupportedVersionsExtension{Versions: []uint16{VersionTLS13, VersionTLS12}}, &KeyShareExtension{KeyShares: []KeyShare{{Group: X25519}}},
			&PSKKeyExchangeModesExtension{Modes: []uint8{1}}}}
	cm := vfCfgMeta{ServerName: "directed.example.test", OmitEmptyPsk: true, RandSeed: 3}
	cp, _ := vfPipe()
	uc, err := vfNewCustomUConn(cp, cm.Config(), cm, spec)
	if err == nil {
		err = uc.BuildHandshakeState()
	}
	if err != nil {
		st.Violation(t, "directed spec does not build: %v", err)
	}
	// a browser-side hello offering DEFLATE and null: rewrite the bytes with the reference serializer of the parser's view
	h := vfParseClientHello(uc.HandshakeState.Hello.Raw)
	raw := vf06WithCompression(h, []uint8{1, 0})
	vf06RoundTrip(st, t, vf06Src{Kind: "custom", Name: "directed-compression"}, raw, &Fingerprinter{}, 'd', 5)
}

// vf06WithCompression re-encodes a parsed hello with other compression methods (lengths recomputed).
func vf06WithCompression(h *vfHello, comp []uint8) []byte {
	var body []byte
	body = append(body, byte(h.Version>>8), byte(h.Version))
	body = append(body, h.Random...)
	body = append(body, byte(len(h.SessionID)))
	body = append(body, h.SessionID...)
	body = append(body, byte(len(h.Suites)*2>>8), byte(len(h.Suites)*2))
	for _, s := range h.Suites {
		body = append(body, byte(s>>8), byte(s))
	}
	body = append(body, byte(len(comp)))
	body = append(body, comp...)
	var eb []byte
	for _, e := range h.Exts {
		eb = append(eb, byte(e.Type>>8), byte(e.Type), byte(len(e.Body)>>8), byte(len(e.Body)))
		eb = append(eb, e.Body...)
	}
	body = append(body, byte(len(eb)>>8), byte(len(eb)))
	body = append(body, eb...)
	return append([]byte{1, byte(len(body) >> 16), byte(len(body) >> 8), byte(len(body))}, body...)
}

// vf06ExtSizes lists type:size of the extensions found after compression_methods, ignoring the block length field
// (diagnostics for hellos whose block length is wrong).
func vf06ExtSizes(raw []byte) string {
	if len(raw) < 4 {
		return ""
	}
	r := &vfRd{b: raw[4:]}
	r.u16()
	r.take(32)
	r.vec8()
	r.vec16()
	r.vec8()
	r.u16()
	var out []string
	for !r.empty() && !r.err {
		t := r.u16()
		b := r.vec16()
		out = append(out, fmt.Sprintf("%d:%d", t, len(b)))
	}
	return strings.Join(out, " ")
}
