//go:build verif

package tls

// Reference extension encoder (DESIGN.md 3.2): given a TLSExtension *value* it produces, from the exported
// struct fields only (never calling Len/Read), the (type, body) the RFCs prescribe. Per-connection material is
// rendered with placeholders of the right size so that vfNormExt (common_refparse_test.go) maps the reference
// and the wire form to the same normal form:
//   GREASE code points -> 0x0a0a, key_exchange of generated shares -> zeros of the group's size,
//   SNI value -> the name the caller says is configured, ticket/PSK -> sizes.
// Extensions whose wire form is not a function of the fields (padding, GREASE ECH, session material) come back
// with Special set and are compared structurally by the caller.

import (
	"encoding/binary"
	"fmt"
	"net"
	"strings"
)

type vfRefExt struct {
	Type    uint16
	Body    []byte
	Omitted bool   // the extension is documented not to be sent in this situation
	Special string // "", "padding", "ech-grease", "psk", "ticket"
	Kind    string
}

type vfRefCtx struct {
	ServerName string // Config.ServerName
	GreaseSeen int    // number of UtlsGREASEExtension encoded so far (the 2nd gets body {0})
}

func vfRefU16(b []byte, v uint16) []byte { return binary.BigEndian.AppendUint16(b, v) }

func vfRefVec16(b []byte, body []byte) []byte {
	b = vfRefU16(b, uint16(len(body)))
	return append(b, body...)
}

func vfRefVec8(b []byte, body []byte) []byte {
	b = append(b, byte(len(body)))
	return append(b, body...)
}

func vfRefGrease16(v uint16) uint16 {
	if vfIsGREASE(v) {
		return 0x0a0a
	}
	return v
}

func vfRefU16List[T ~uint16](vals []T) []byte {
	var l []byte
	for _, v := range vals {
		l = vfRefU16(l, vfRefGrease16(uint16(v)))
	}
	return l
}

func vfRefProtoList(ps []string) []byte {
	var l []byte
	for _, p := range ps {
		l = vfRefVec8(l, []byte(p))
	}
	return l
}

// vfRefHostName: RFC 6066 section 3 - no IP literals, no trailing dot, not empty.
func vfRefHostName(name string) string {
	host := name
	if len(host) > 1 && host[0] == '[' && host[len(host)-1] == ']' {
		host = host[1 : len(host)-1]
	}
	if i := strings.LastIndexByte(host, '%'); i > 0 {
		host = host[:i]
	}
	if net.ParseIP(host) != nil {
		return ""
	}
	return strings.TrimRight(name, ".")
}

func vfRefShareSize(g uint16) int {
	switch g {
	case 0x001d:
		return 32
	case 0x0017:
		return 65
	case 0x0018:
		return 97
	case 0x0019:
		return 133
	case 0x11ec, 0x6399:
		return 1184 + 32
	}
	return -1
}

// vfRefEncodeExt renders one extension. err != nil: the reference encoder does not know the type.
func vfRefEncodeExt(e TLSExtension, ctx *vfRefCtx) (vfRefExt, error) {
	switch x := e.(type) {
	case *SNIExtension:
		name := x.ServerName
		if name == "" {
			name = ctx.ServerName
		}
		h := vfRefHostName(name)
		if h == "" {
			return vfRefExt{Type: 0, Omitted: true, Kind: "sni"}, nil
		}
		entry := append([]byte{0}, vfRefVec16(nil, []byte(h))...)
		return vfRefExt{Type: 0, Body: vfRefVec16(nil, entry), Kind: "sni"}, nil
	case *StatusRequestExtension:
		return vfRefExt{Type: 5, Body: []byte{1, 0, 0, 0, 0}, Kind: "status_request"}, nil
	case *StatusRequestV2Extension:
		// one CertificateStatusRequestItemV2: ocsp_multi(2), request = empty responder list + empty extensions
		item := append([]byte{2}, vfRefVec16(nil, []byte{0, 0, 0, 0})...)
		return vfRefExt{Type: 17, Body: vfRefVec16(nil, item), Kind: "status_request_v2"}, nil
	case *SupportedCurvesExtension:
		return vfRefExt{Type: 10, Body: vfRefVec16(nil, vfRefU16List(x.Curves)), Kind: "supported_groups"}, nil
	case *SupportedPointsExtension:
		return vfRefExt{Type: 11, Body: vfRefVec8(nil, x.SupportedPoints), Kind: "ec_point_formats"}, nil
	case *SignatureAlgorithmsExtension:
		return vfRefExt{Type: 13, Body: vfRefVec16(nil, vfRefU16List(x.SupportedSignatureAlgorithms)), Kind: "signature_algorithms"}, nil
	case *SignatureAlgorithmsCertExtension:
		return vfRefExt{Type: 50, Body: vfRefVec16(nil, vfRefU16List(x.SupportedSignatureAlgorithms)), Kind: "signature_algorithms_cert"}, nil
	case *FakeDelegatedCredentialsExtension:
		return vfRefExt{Type: 34, Body: vfRefVec16(nil, vfRefU16List(x.SupportedSignatureAlgorithms)), Kind: "delegated_credentials"}, nil
	case *ALPNExtension:
		return vfRefExt{Type: 16, Body: vfRefVec16(nil, vfRefProtoList(x.AlpnProtocols)), Kind: "alpn"}, nil
	case *ApplicationSettingsExtension:
		return vfRefExt{Type: 17513, Body: vfRefVec16(nil, vfRefProtoList(x.SupportedProtocols)), Kind: "alps"}, nil
	case *ApplicationSettingsExtensionNew:
		return vfRefExt{Type: 17613, Body: vfRefVec16(nil, vfRefProtoList(x.SupportedProtocols)), Kind: "alps_new"}, nil
	case *SCTExtension:
		return vfRefExt{Type: 18, Body: []byte{}, Kind: "sct"}, nil
	case *ExtendedMasterSecretExtension:
		return vfRefExt{Type: 23, Body: []byte{}, Kind: "extended_master_secret"}, nil
	case *NPNExtension:
		return vfRefExt{Type: 13172, Body: []byte{}, Kind: "npn"}, nil
	case *FakeChannelIDExtension:
		t := uint16(30032)
		if x.OldExtensionID {
			t = 30031
		}
		return vfRefExt{Type: t, Body: []byte{}, Kind: "channel_id"}, nil
	case *GenericExtension:
		return vfRefExt{Type: x.Id, Body: append([]byte{}, x.Data...), Kind: fmt.Sprintf("generic:%d", x.Id)}, nil
	case *UtlsGREASEExtension:
		body := append([]byte{}, x.Body...)
		if ctx.GreaseSeen == 1 {
			body = []byte{0} // documented in ApplyPreset/u_tls_extensions.go: the second GREASE extension carries one zero byte
		}
		ctx.GreaseSeen++
		return vfRefExt{Type: 0x0a0a, Body: body, Kind: "grease"}, nil
	case *UtlsPaddingExtension:
		return vfRefExt{Type: 21, Special: "padding", Kind: "padding"}, nil
	case *UtlsCompressCertExtension:
		return vfRefExt{Type: 27, Body: vfRefVec8(nil, vfRefU16List(x.Algorithms)), Kind: "compress_certificate"}, nil
	case *FakeRecordSizeLimitExtension:
		return vfRefExt{Type: 28, Body: vfRefU16(nil, x.Limit), Kind: "record_size_limit"}, nil
	case *FakeTokenBindingExtension:
		b := []byte{x.MajorVersion, x.MinorVersion}
		return vfRefExt{Type: 24, Body: vfRefVec8(b, x.KeyParameters), Kind: "token_binding"}, nil
	case *KeyShareExtension:
		var l []byte
		for _, ks := range x.KeyShares {
			g := vfRefGrease16(uint16(ks.Group))
			l = vfRefU16(l, g)
			data := ks.Data
			if len(data) <= 1 && g != 0x0a0a {
				n := vfRefShareSize(g)
				if n < 0 {
					return vfRefExt{}, fmt.Errorf("key share for group %#x without data: no reference size", g)
				}
				data = make([]byte, n)
			}
			l = vfRefVec16(l, data)
		}
		return vfRefExt{Type: 51, Body: vfRefVec16(nil, l), Kind: "key_share"}, nil
	case *PSKKeyExchangeModesExtension:
		return vfRefExt{Type: 45, Body: vfRefVec8(nil, x.Modes), Kind: "psk_key_exchange_modes"}, nil
	case *SupportedVersionsExtension:
		return vfRefExt{Type: 43, Body: vfRefVec8(nil, vfRefU16List(x.Versions)), Kind: "supported_versions"}, nil
	case *CookieExtension:
		return vfRefExt{Type: 44, Body: vfRefVec16(nil, x.Cookie), Kind: "cookie"}, nil
	case *RenegotiationInfoExtension:
		return vfRefExt{Type: 0xff01, Body: vfRefVec8(nil, x.RenegotiatedConnection), Kind: "renegotiation_info"}, nil
	case *SessionTicketExtension:
		return vfRefExt{Type: 35, Body: append([]byte{}, x.Ticket...), Special: "ticket", Kind: "session_ticket"}, nil
	case *GREASEEncryptedClientHelloExtension:
		return vfRefExt{Type: 0xfe0d, Special: "ech-grease", Kind: "ech_grease"}, nil
	case *UtlsPreSharedKeyExtension:
		return vfRefExt{Type: 41, Special: "psk", Kind: "psk_real"}, nil
	case *FakePreSharedKeyExtension:
		if len(x.Identities) == 0 || len(x.Binders) == 0 {
			return vfRefExt{Type: 41, Omitted: true, Kind: "psk_fake"}, nil
		}
		var ids, bs []byte
		for _, id := range x.Identities {
			ids = vfRefVec16(ids, id.Label)
			ids = binary.BigEndian.AppendUint32(ids, id.ObfuscatedTicketAge)
		}
		for _, b := range x.Binders {
			bs = vfRefVec8(bs, b)
		}
		return vfRefExt{Type: 41, Body: vfRefVec16(vfRefVec16(nil, ids), bs), Kind: "psk_fake"}, nil
	}
	return vfRefExt{}, fmt.Errorf("reference encoder does not know %T", e)
}

// vfRefCheckECHGrease checks the wire form of a GREASE ECH extension against the spec's candidate lists.
func vfRefCheckECHGrease(spec *GREASEEncryptedClientHelloExtension, body []byte) string {
	h := &vfHello{Exts: []vfExt{{Type: 0xfe0d, Body: body}}}
	if msg := vfCheckExtBody(0xfe0d, body); msg != "" {
		return msg
	}
	ec := h.ECH()
	if ec.Type != 0 {
		return "not an outer ECH extension"
	}
	suites := spec.CandidateCipherSuites
	if len(suites) == 0 {
		suites = []HPKESymmetricCipherSuite{{KdfId: 1, AeadId: 1}} // documented default: HKDF-SHA256 / AES-128-GCM
	}
	ok := false
	for _, s := range suites {
		if s.KdfId == ec.KDF && s.AeadId == ec.AEAD {
			ok = true
		}
	}
	if !ok {
		return fmt.Sprintf("cipher suite (%d,%d) is not a candidate", ec.KDF, ec.AEAD)
	}
	if len(spec.CandidateConfigIds) > 0 {
		ok = false
		for _, c := range spec.CandidateConfigIds {
			if c == ec.ConfigID {
				ok = true
			}
		}
		if !ok {
			return fmt.Sprintf("config id %d is not a candidate", ec.ConfigID)
		}
	}
	if len(ec.Enc) != 32 {
		return fmt.Sprintf("encapsulated key has %d bytes, an X25519 key has 32", len(ec.Enc))
	}
	lens := spec.CandidatePayloadLens
	if len(lens) == 0 {
		lens = []uint16{128}
	}
	ok = false
	for _, l := range lens {
		if int(l)+16 == len(ec.Payload) {
			ok = true
		}
	}
	if !ok {
		return fmt.Sprintf("payload of %d bytes is not candidate+16 (%v)", len(ec.Payload), lens)
	}
	return ""
}
