//go:build verif

package tls

// C03 - predefined parrots send exactly the ClientHello their spec describes.
// Oracle: UTLSIdToSpec(id) (fresh copy) rendered by the reference encoder (c03_refenc_test.go) from the spec's
// exported fields, against the wire hello parsed by the reference parser, both in vfNormExt normal form.

import (
	"fmt"
	"os"
	"path/filepath"
	"regexp"
	"sort"
	"strings"
	"testing"

	"pgregory.net/rapid"
)

// reference model of the documented BoringSSL padding rule (presence only; the length is C05's business)
func vf03BoringPads(unpadded int) bool { return unpadded > 0xff && unpadded < 0x200 }

type vf03Expect struct {
	Norm    string // normal form ("" for specials)
	Ref     vfRefExt
	SpecExt TLSExtension
}

func vf03ExtOrderKey(spec *ClientHelloSpec) string {
	s := make([]string, len(spec.Extensions))
	for i, e := range spec.Extensions {
		s[i] = fmt.Sprintf("%T", e)
		if g, ok := e.(*GenericExtension); ok {
			s[i] += fmt.Sprint(g.Id)
		}
		if c, ok := e.(*FakeChannelIDExtension); ok {
			s[i] += fmt.Sprint(c.OldExtensionID)
		}
	}
	return strings.Join(s, ",")
}

// vf03Shuffles decides empirically whether the parrot shuffles its extensions: two independent UTLSIdToSpec
// calls differ in order in at least one of 8 draws.
func vf03Shuffles(id ClientHelloID) (bool, error) {
	first, err := UTLSIdToSpec(id)
	if err != nil {
		return false, err
	}
	k0 := vf03ExtOrderKey(&first)
	for i := 0; i < 8; i++ {
		s, err := UTLSIdToSpec(id)
		if err != nil {
			return false, err
		}
		if vf03ExtOrderKey(&s) != k0 {
			return true, nil
		}
	}
	return false, nil
}

func vf03PositionInvariant(kind string) bool {
	return kind == "grease" || kind == "padding" || kind == "psk_real" || kind == "psk_fake"
}

// vf03Compare checks one wire hello of parrot p against a fresh spec. pskExpected: the connection had a usable
// TLS 1.3 session, so pre_shared_key must be present; otherwise (cold cache + OmitEmptyPsk) it must be absent.
func vf03Compare(st *vfStats, t vfFataler, p vfParrot, serverName string, raw []byte, shuffles bool, pskExpected bool) {
	spec, err := UTLSIdToSpec(p.ID)
	if err != nil {
		st.Violation(t, "%s: UTLSIdToSpec: %v", p.Name, err)
	}
	h := vfParseClientHello(raw)
	if len(h.Violations) != 0 {
		st.Violation(t, "%s: wire hello is not valid: %v", p.Name, h.Violations)
	}
	// legacy_version = min(spec maximum, TLS 1.2)
	wantVers := vfSpecMaxVersion(&spec)
	if wantVers > VersionTLS12 {
		wantVers = VersionTLS12
	}
	if h.Version != wantVers {
		st.Violation(t, "%s: legacy_version %04x, spec says %04x", p.Name, h.Version, wantVers)
	}
	if len(h.Random) != 32 || len(h.SessionID) != 32 {
		st.Violation(t, "%s: random %d bytes, session id %d bytes", p.Name, len(h.Random), len(h.SessionID))
	}
	// cipher suites (GREASE masked) and compression methods
	if len(h.Suites) != len(spec.CipherSuites) {
		st.Violation(t, "%s: %d cipher suites on the wire, spec has %d", p.Name, len(h.Suites), len(spec.CipherSuites))
	}
	for i, s := range spec.CipherSuites {
		w := h.Suites[i]
		if vfIsGREASE(s) != vfIsGREASE(w) || (!vfIsGREASE(s) && s != w) {
			st.Violation(t, "%s: cipher suite #%d is %04x, spec says %04x", p.Name, i, w, s)
		}
	}
	wantComp := spec.CompressionMethods
	if len(wantComp) == 0 {
		wantComp = []uint8{0}
	}
	if string(h.Compression) != string(wantComp) {
		st.Violation(t, "%s: compression methods %x, spec says %x", p.Name, h.Compression, wantComp)
	}
	// expected extension list
	ctx := &vfRefCtx{ServerName: serverName}
	paddingOnWire := h.Ext(21) != nil
	unpadded := vfUnpaddedLen(h) // BoringSSL counts the handshake header
	var exp []vf03Expect
	for _, e := range spec.Extensions {
		r, err := vfRefEncodeExt(e, ctx)
		if err != nil {
			st.Violation(t, "%s: harness: %v", p.Name, err)
		}
		x := vf03Expect{Ref: r, SpecExt: e}
		switch r.Special {
		case "padding":
			pe := e.(*UtlsPaddingExtension)
			if pe.GetPaddingLen == nil {
				r.Omitted = !pe.WillPad
			} else {
				// all predefined parrots use the BoringSSL rule
				r.Omitted = !vf03BoringPads(unpadded)
			}
			if r.Omitted == paddingOnWire {
				st.Violation(t, "%s: padding on the wire=%v but the rule says %v for an unpadded length of %d", p.Name, paddingOnWire, !r.Omitted, unpadded)
			}
		case "psk":
			r.Omitted = !pskExpected
		}
		x.Ref = r
		if r.Omitted {
			continue
		}
		if r.Special == "" || r.Special == "ticket" {
			x.Norm = vfNormExt(vfExt{Type: r.Type, Body: r.Body}, vfNormOpts{})
		}
		exp = append(exp, x)
	}
	if len(exp) != len(h.Exts) {
		st.Violation(t, "%s: %d extensions on the wire %v, spec describes %d", p.Name, len(h.Exts), h.ExtTypes(), len(exp))
	}
	match := func(x vf03Expect, w vfExt) string {
		switch x.Ref.Special {
		case "padding":
			if w.Type != 21 {
				return fmt.Sprintf("type %d where padding is expected", w.Type)
			}
			return ""
		case "ech-grease":
			if w.Type != 0xfe0d {
				return fmt.Sprintf("type %d where ECH is expected", w.Type)
			}
			return vfRefCheckECHGrease(x.SpecExt.(*GREASEEncryptedClientHelloExtension), w.Body)
		case "psk":
			if w.Type != 41 {
				return fmt.Sprintf("type %d where pre_shared_key is expected", w.Type)
			}
			return ""
		}
		if got := vfNormExt(w, vfNormOpts{}); got != x.Norm {
			return fmt.Sprintf("wire %q != spec %q", got, x.Norm)
		}
		return ""
	}
	if !shuffles {
		for i := range exp {
			if msg := match(exp[i], h.Exts[i]); msg != "" {
				st.Violation(t, "%s: extension #%d (%s): %s", p.Name, i, exp[i].Ref.Kind, msg)
			}
		}
		return
	}
	// shuffling parrot: GREASE, padding, pre_shared_key at their spec positions, the rest equal as a multiset
	var restExp, restWire []string
	for i := range exp {
		w := h.Exts[i]
		wirePinned := vfIsGREASE(w.Type) || w.Type == 21 || w.Type == 41
		if vf03PositionInvariant(exp[i].Ref.Kind) || wirePinned {
			if msg := match(exp[i], w); msg != "" || !vf03PositionInvariant(exp[i].Ref.Kind) {
				st.Violation(t, "%s (shuffling): position %d holds wire type %d but the spec has %s there: %s", p.Name, i, w.Type, exp[i].Ref.Kind, msg)
			}
			continue
		}
		restWire = append(restWire, vfNormExt(w, vfNormOpts{}))
	}
	specials := map[uint16]vf03Expect{}
	for i := range exp {
		if vf03PositionInvariant(exp[i].Ref.Kind) {
			continue
		}
		if exp[i].Ref.Special == "ech-grease" {
			specials[0xfe0d] = exp[i]
			restExp = append(restExp, "ECH")
			continue
		}
		restExp = append(restExp, exp[i].Norm)
	}
	for i, w := range restWire {
		if strings.HasPrefix(w, "65037:") {
			x, ok := specials[0xfe0d]
			if !ok {
				st.Violation(t, "%s (shuffling): ECH on the wire but not in the spec", p.Name)
			}
			if msg := vfRefCheckECHGrease(x.SpecExt.(*GREASEEncryptedClientHelloExtension), h.Ext(0xfe0d).Body); msg != "" {
				st.Violation(t, "%s (shuffling): ECH: %s", p.Name, msg)
			}
			restWire[i] = "ECH"
		}
	}
	a, b := vfSortedCopy(restExp), vfSortedCopy(restWire)
	if strings.Join(a, "\n") != strings.Join(b, "\n") {
		st.Violation(t, "%s (shuffling): extension multiset differs:\n%s", p.Name, vfDiffLines(a, b))
	}
}

// vf03CfgVers are version bounds a caller may have put into its tls.Config; the parrot's spec overrides them.
var vf03CfgVers = [][2]uint16{{0, 0}, {0, VersionTLS10}, {0, VersionTLS11}, {0, VersionTLS12}, {0, VersionTLS13}, {VersionTLS10, VersionTLS11},
	{VersionTLS12, VersionTLS12}, {VersionTLS13, VersionTLS13}, {VersionTLS10, 0}, {VersionTLS13, 0}}

func vf03Build(p vfParrot, serverName string, seed uint64, cache ClientSessionCache) (*UConn, error) {
	return vf03BuildV(p, serverName, seed, cache, [2]uint16{})
}

func vf03BuildV(p vfParrot, serverName string, seed uint64, cache ClientSessionCache, vers [2]uint16, mods ...func(*Config)) (*UConn, error) {
	cfg := vfClientConfig(serverName)
	cfg.MinVersion, cfg.MaxVersion = vers[0], vers[1]
	for _, m := range mods {
		m(cfg)
	}
	if serverName == "" {
		cfg.InsecureSkipVerify = true
	}
	cfg.OmitEmptyPsk = true
	cfg.ClientSessionCache = cache
	cfg.Rand = vfNewDetRand(seed, "c03")
	cp, _ := vfPipe()
	uc := UClient(cp, cfg, p.ID)
	return uc, uc.BuildHandshakeState()
}

func vf03GenServerName(t *rapid.T) (string, string) {
	switch rapid.IntRange(0, 7).Draw(t, "sni_kind") {
	case 0:
		return "ipv4", "192.0.2.33"
	case 1:
		return "trailing-dot", vfGenDNSName(t, "sni") + "."
	case 2:
		return "ipv6", "2001:db8::5"
	case 3:
		return "long", vfDNSNameOfLen(rapid.IntRange(100, 253).Draw(t, "sni_long"), 'w')
	case 4:
		return "boundary", vfDNSNameOfLen(rapid.SampledFrom([]int{1, 2, 63, 64, 250, 251, 252, 253}).Draw(t, "sni_boundary"), 'b')
	default:
		return "dns", vfGenDNSName(t, "sni")
	}
}

// every parrot, several connections, drawn server names
func TestVerifC03ParrotMatchesSpec(t *testing.T) {
	st := vfNewStats(t, "C03")
	shuf := map[string]bool{}
	var shufNames []string
	for _, p := range vfParrots {
		s, err := vf03Shuffles(p.ID)
		if err != nil {
			st.Violation(t, "%s: %v", p.Name, err)
		}
		shuf[p.Name] = s
		if s {
			shufNames = append(shufNames, p.Name)
		}
	}
	st.Extra("shuffling_parrots", shufNames)
	// exhaustive deterministic pass
	k := 2
	if vfThorough() {
		k = 20
	}
	for _, p := range vfParrots {
		for i := 0; i < k; i++ {
			name := fmt.Sprintf("host%d.example.test", i)
			if i == 0 {
				name = vfDNSNameOfLen(253, 'm') // the longest legal host name: every length field of server_name at its maximum
			}
			cv := vf03CfgVers[(i*7)%len(vf03CfgVers)]
			if i == 1 {
				cv = vf03CfgVers[1+(len(p.Name)+i)%2] // Config.MaxVersion below TLS 1.2 in the quick tier too
			}
			uc, err := vf03BuildV(p, name, uint64(i), nil, cv)
			st.Eval()
			st.Class(fmt.Sprintf("config-versions=%04x..%04x", cv[0], cv[1]))
			if err != nil {
				st.Violation(t, "%s (Config versions %04x..%04x): BuildHandshakeState: %v", p.Name, cv[0], cv[1], err)
			}
			vf03Compare(st, t, p, name, uc.HandshakeState.Hello.Raw, shuf[p.Name], false)
			st.NonTrivial(p.Name + "|" + vf03WireOrder(uc.HandshakeState.Hello.Raw))
			st.Class("exhaustive")
		}
	}
	rapid.Check(t, func(rt *rapid.T) {
		p := vfGenParrot(rt, "parrot")
		kind, name := vf03GenServerName(rt)
		withCache := rapid.Bool().Draw(rt, "cold_cache")
		var cache ClientSessionCache
		if withCache {
			cache = NewLRUClientSessionCache(4)
		}
		cv := rapid.SampledFrom(vf03CfgVers).Draw(rt, "config_versions")
		// the caller's Config as the connection finds it: an application-level NextProtos wish list, or the same *Config
		// used before by a connection with another fingerprint (UClient does not clone it, and building a hello writes
		// the spec's ALPN list and version bounds into it): the parrot's hello is the spec's all the same
		var mod func(*Config)
		switch rapid.IntRange(0, 3).Draw(rt, "config_history") {
		case 0:
			np := rapid.SampledFrom([][]string{{"http/1.1"}, {"h2"}, {"vf-proto", "h2"}, {"h3"}, {}}).Draw(rt, "cfg_nextprotos")
			mod = func(c *Config) { c.NextProtos = np }
			st.Class("config:NextProtos-set-by-application")
		case 1:
			prev := vfGenParrot(rt, "previous_parrot")
			mod = func(c *Config) {
				cp0, _ := vfPipe()
				defer cp0.Close()
				c.OmitEmptyPsk = true
				UClient(cp0, c, prev.ID).BuildHandshakeState()
			}
			st.Class("config:used-before-by-another-parrot")
		default:
			mod = func(*Config) {}
		}
		uc, err := vf03BuildV(p, name, rapid.Uint64().Draw(rt, "rand"), cache, cv, mod)
		st.Eval()
		st.Class("sni:" + kind)
		st.Class(fmt.Sprintf("config-versions=%04x..%04x", cv[0], cv[1]))
		if shuf[p.Name] {
			st.Class("shuffling")
		} else {
			st.Class("fixed-order")
		}
		if err != nil {
			st.Violation(rt, "%s sni=%q: BuildHandshakeState: %v", p.Name, name, err)
		}
		raw := uc.HandshakeState.Hello.Raw
		vf03Compare(st, rt, p, name, raw, shuf[p.Name], false)
		st.NonTrivial(p.Name + "|" + vf03WireOrder(raw))
		if rapid.IntRange(0, 2).Draw(rt, "rebuild_with_other_sni") == 0 && name != "" {
			// the same connection builds its hello again (as Handshake does) after SetSNI with a name of another length:
			// padded parrots keep their total length while every offset behind server_name moves
			_, name2 := vf03GenServerName(rt)
			if name2 != "" {
				uc.SetSNI(name2)
				if err := uc.BuildHandshakeState(); err != nil {
					st.Violation(rt, "%s sni=%q then SetSNI(%q): BuildHandshakeState: %v", p.Name, name, name2, err)
				}
				vf03Compare(st, rt, p, name2, uc.HandshakeState.Hello.Raw, shuf[p.Name], false)
				st.Class("rebuilt-after-SetSNI")
			}
		}
		st.Sample(map[string]any{"parrot": p.Name, "sni": name, "len": len(raw), "order": vf03WireOrder(raw)})
	})
}

func vf03WireOrder(raw []byte) string {
	h := vfParseClientHello(raw)
	s := make([]string, len(h.Exts))
	for i, e := range h.Exts {
		if vfIsGREASE(e.Type) {
			s[i] = "G"
		} else {
			s[i] = fmt.Sprint(e.Type)
		}
	}
	return strings.Join(s, "-")
}

// PSK parrots with a warm cache: the second connection carries pre_shared_key, last, everything else as the spec says.
func TestVerifC03PSKParrotsResumed(t *testing.T) {
	st := vfNewStats(t, "C03")
	for _, p := range vfParrots {
		if !vfIsPSKParrot(p) {
			continue
		}
		shuffles, _ := vf03Shuffles(p.ID)
		name := "psk.example.test"
		cfg := vfClientConfig(name)
		cfg.OmitEmptyPsk = true
		cfg.ClientSessionCache = NewLRUClientSessionCache(4)
		scfg := vfServerConfig("ecdsa", name)
		for i := 0; i < 2; i++ {
			pr := vfNewPair(cfg, p.ID, scfg)
			cerr, serr := pr.Handshake()
			st.Eval()
			if cerr != nil || serr != nil {
				// C10/C19 own handshake success; without a session there is nothing to compare here
				st.Class("psk-handshake-failed")
				pr.Close()
				break
			}
			hellos := vfClientHellosOnWire(pr.CP.Written())
			if len(hellos) != 1 {
				st.Class("psk-hrr")
				pr.Close()
				break
			}
			h := vfParseClientHello(hellos[0])
			if i == 1 {
				if h.Ext(41) == nil {
					st.Class("psk-not-offered")
				} else {
					st.Class("psk-offered")
					vf03Compare(st, t, p, name, hellos[0], shuffles, true)
					if h.Exts[len(h.Exts)-1].Type != 41 {
						st.Violation(t, "%s: pre_shared_key is not last", p.Name)
					}
					st.NonTrivial(p.Name + "|resumed")
				}
			} else {
				vf03Compare(st, t, p, name, hellos[0], shuffles, false)
			}
			if err := pr.Echo([]byte("a"), []byte("b")); err != nil {
				pr.Close()
				break
			}
			pr.Close()
		}
	}
}

// The harness' parrot list must cover every predefined ClientHelloID of u_common.go.
func TestVerifC03ParrotListComplete(t *testing.T) {
	st := vfNewStats(t, "C03")
	repo := os.Getenv("VERIF_REPO")
	if repo == "" {
		repo = "/repo"
	}
	src, err := os.ReadFile(filepath.Join(repo, "u_common.go"))
	if err != nil {
		t.Fatalf("harness parrot list cannot be checked: %v", err)
	}
	consts := map[string]string{}
	for _, m := range regexp.MustCompile(`(?m)^\s*(hello\w+)\s*=\s*"([^"]*)"`).FindAllStringSubmatch(string(src), -1) {
		consts[m[1]] = m[2]
	}
	defs := regexp.MustCompile(`(?m)^\s*(Hello\w+)\s*=\s*ClientHelloID\{\s*(\w+)\s*,\s*("([^"]*)"|\w+)`).FindAllStringSubmatch(string(src), -1)
	have := map[string]vfParrot{}
	for _, p := range vfParrots {
		have[p.Name] = p
	}
	skip := map[string]bool{"HelloGolang": true, "HelloCustom": true, "HelloRandomized": true, "HelloRandomizedALPN": true, "HelloRandomizedNoALPN": true}
	var missing []string
	seen := map[string]bool{}
	n := 0
	for _, d := range defs {
		name := d[1]
		if skip[name] {
			continue
		}
		n++
		st.Eval()
		seen[name] = true
		p, ok := have[name]
		if !ok {
			missing = append(missing, name)
			continue
		}
		client := consts[d[2]]
		version := d[4]
		if d[4] == "" {
			version = consts[d[3]]
		}
		if p.ID.Client != client || p.ID.Version != version {
			st.Violation(t, "harness parrot list out of date: %s is {%q,%q} in u_common.go but {%q,%q} in vfParrots", name, client, version, p.ID.Client, p.ID.Version)
		}
	}
	sort.Strings(missing)
	if len(missing) > 0 {
		st.Violation(t, "harness parrot list out of date: u_common.go defines %v which vfParrots does not list", missing)
	}
	for name := range have {
		if !seen[name] {
			st.Violation(t, "harness parrot list out of date: vfParrots lists %s which u_common.go does not define as a predefined ID", name)
		}
	}
	if n < 30 {
		st.Violation(t, "harness parrot list cannot be checked: only %d definitions recognised in u_common.go", n)
	}
	st.NonTrivial(fmt.Sprintf("list:%d", n))
	st.Extra("predefined_ids_in_source", n)
}
