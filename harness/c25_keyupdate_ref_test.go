//go:build verif

package tls

// C25 (extension): TLS 1.3 key updates judged against an independent derivation. In the main C25 sessions both peers
// are this library, so a wrong "traffic upd" derivation is symmetric and invisible; here the sending side advances its
// secret with a reference HKDF-Expand-Label (RFC 8446 7.1/7.2) written in the harness, and the client's own secrets
// after the update are compared with the reference too.

import (
	"bytes"
	"crypto/sha256"
	"crypto/sha512"
	"fmt"
	"hash"
	"io"
	"testing"

	"golang.org/x/crypto/hkdf"
	"pgregory.net/rapid"
)

func vf25RefExpandLabel(h func() hash.Hash, secret []byte, label string, context []byte, length int) []byte {
	full := "tls13 " + label
	info := []byte{byte(length >> 8), byte(length), byte(len(full))}
	info = append(info, full...)
	info = append(info, byte(len(context)))
	info = append(info, context...)
	out := make([]byte, length)
	if _, err := io.ReadFull(hkdf.Expand(h, secret, info), out); err != nil {
		panic(err)
	}
	return out
}

func vf25RefNextSecret(suite uint16, secret []byte) []byte {
	if suite == TLS_AES_256_GCM_SHA384 {
		return vf25RefExpandLabel(sha512.New384, secret, "traffic upd", nil, 48)
	}
	return vf25RefExpandLabel(sha256.New, secret, "traffic upd", nil, 32)
}

func TestVerifC25KeyUpdateReference(t *testing.T) {
	st := vfNewStats(t, "C25")
	rapid.Check(t, func(rt *rapid.T) {
		suite := vfTLS13Suites[rapid.IntRange(0, 2).Draw(rt, "suite")]
		useParrot := rapid.Bool().Draw(rt, "parrot")
		var src vfClientSrc
		if useParrot {
			base := []ClientHelloID{HelloChrome_120, HelloFirefox_120, HelloSafari_16_0, HelloChrome_102}[rapid.IntRange(0, 3).Draw(rt, "base")]
			mk := func() *ClientHelloSpec {
				spec, _ := UTLSIdToSpec(base)
				// offer exactly one TLS 1.3 suite so that the server must select it
				var cs []uint16
				for _, s := range spec.CipherSuites {
					if s == suite || !vfContains16(vfTLS13Suites, s) {
						cs = append(cs, s)
					}
				}
				spec.CipherSuites = cs
				return &spec
			}
			src = vfClientSrc{Kind: "custom", Name: "onesuite(" + base.Str() + ")", ID: HelloCustom, SpecFn: mk}
		} else {
			src = vfClientSrc{Kind: "golang", Name: "HelloGolang", ID: HelloGolang}
		}
		st.Eval()
		cp, sp := vfPipe()
		ccfg := vfClientConfig("ku.example")
		ccfg.OmitEmptyPsk = true
		if !useParrot {
			ccfg.MinVersion = VersionTLS13
		}
		uc := UClient(cp, ccfg, src.ID)
		if src.SpecFn != nil {
			if err := uc.ApplyPreset(src.SpecFn()); err != nil {
				rt.Fatalf("ApplyPreset: %v", err)
			}
		}
		scfg := vfServerConfig("ecdsa", "ku.example")
		scfg.MinVersion = VersionTLS13
		srvScript := &vsrvScript{Suite: suite}
		srv := Server(sp, scfg)
		if useParrot {
			vsrvInstall(srv, srvScript)
		}
		pair := &vfPair{CP: cp, SP: sp, Cli: uc, Srv: srv}
		defer pair.Close()
		if cerr, serr := pair.Handshake(); cerr != nil || serr != nil {
			st.Class("handshake-failed")
			return
		}
		got := pair.Cli.ConnectionState().CipherSuite
		if useParrot && got != suite {
			st.Violation(rt, "%s: negotiated %04x, wanted %04x", src, got, suite)
		}
		suite = got
		cs13 := cipherSuiteTLS13ByID(suite)
		if err := pair.Echo([]byte("before"), []byte("BEFORE")); err != nil {
			st.Violation(rt, "%s suite %04x: echo before the key update: %v", src, suite, err)
		}
		rounds := rapid.IntRange(1, 3).Draw(rt, "rounds")
		for r := 0; r < rounds; r++ {
			request := rapid.Bool().Draw(rt, fmt.Sprintf("request%d", r))
			cliIn := append([]byte(nil), pair.Cli.in.trafficSecret...)
			cliOut := append([]byte(nil), pair.Cli.out.trafficSecret...)
			// server: send KeyUpdate, then advance its WRITE secret with the reference derivation
			srv.out.Lock()
			msg, _ := (&keyUpdateMsg{updateRequested: request}).marshal()
			_, werr := srv.writeRecordLocked(recordTypeHandshake, msg)
			refNext := vf25RefNextSecret(suite, srv.out.trafficSecret)
			srv.out.setTrafficSecret(cs13, QUICEncryptionLevelInitial, refNext)
			srv.out.Unlock()
			if werr != nil {
				st.Violation(rt, "server KeyUpdate write: %v", werr)
			}
			data := rapid.SliceOfN(rapid.Byte(), 1, 2000).Draw(rt, fmt.Sprintf("data%d", r))
			if _, err := srv.Write(data); err != nil {
				st.Violation(rt, "server write after KeyUpdate: %v", err)
			}
			buf := make([]byte, len(data))
			pair.CP.SetDeadline(vfDeadline())
			pair.SP.SetDeadline(vfDeadline())
			if _, err := io.ReadFull(pair.Cli, buf); err != nil || !bytes.Equal(buf, data) {
				st.Violation(rt, "%s suite %04x round %d: after the server's KeyUpdate (server write secret advanced by the reference HKDF-Expand-Label) the client cannot read: err=%v", src, suite, r, err)
			}
			if want := vf25RefNextSecret(suite, cliIn); !bytes.Equal(pair.Cli.in.trafficSecret, want) {
				st.Violation(rt, "%s suite %04x round %d: client read secret after KeyUpdate differs from the reference derivation (%d vs %d bytes)", src, suite, r, len(pair.Cli.in.trafficSecret), len(want))
			}
			if request {
				// the client answered with its own KeyUpdate when it processed ours: its write secret must have advanced
				if want := vf25RefNextSecret(suite, cliOut); !bytes.Equal(pair.Cli.out.trafficSecret, want) {
					st.Violation(rt, "%s suite %04x round %d: client write secret after update_requested differs from the reference derivation", src, suite, r)
				}
				st.Class("update-requested")
			} else if !bytes.Equal(pair.Cli.out.trafficSecret, cliOut) {
				st.Violation(rt, "%s suite %04x round %d: client write secret changed without update_requested", src, suite, r)
			}
			// and the client's data still reaches the server
			c2s := rapid.SliceOfN(rapid.Byte(), 1, 500).Draw(rt, fmt.Sprintf("c2s%d", r))
			if _, err := pair.Cli.Write(c2s); err != nil {
				st.Violation(rt, "client write after KeyUpdate: %v", err)
			}
			sbuf := make([]byte, len(c2s))
			if _, err := io.ReadFull(srv, sbuf); err != nil || !bytes.Equal(sbuf, c2s) {
				st.Violation(rt, "%s suite %04x round %d: server cannot read the client's data after the key update: %v", src, suite, r, err)
			}
		}
		st.Class(fmt.Sprintf("ku-suite=%04x", suite))
		st.NonTrivial(fmt.Sprintf("kuref|%s|%04x|%d", src.Name, suite, rounds))
		st.Sample(map[string]any{"client": src.String(), "suite": fmt.Sprintf("%04x", suite), "rounds": rounds})
	})
}
