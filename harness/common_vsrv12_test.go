//go:build verif

package tls

// Scripted "legacy" server for TLS 1.0-1.2 (DESIGN.md 3.4): drives upstream's serverHandshakeState step by step
// and overrides individual ServerHello fields between the steps. It negotiates the version from a script value
// (ignoring supported_versions, as pre-1.3 servers do), can force or suppress the RFC 8446 downgrade sentinel and
// can announce a suite / compression method / ALPN protocol the client did not offer while keeping its own state
// coherent with the announcement.

import (
	"context"
	"errors"
	"fmt"
)

type vsrv12Script struct {
	Version     uint16 // negotiated version 0x0301..0x0303
	Canary      string // "auto" (RFC 8446 4.1.3 rule for a server whose maximum is MaxVersion), "none", "tls12", "tls11"
	Suite       uint16 // 0 = upstream's choice among mutually supported suites
	Compression uint8
	ALPN        *string
	// Resume: when the hello carries a ticket the server can open, really resume that session (abbreviated handshake,
	// upstream's own steps) while announcing Compression / ALPN as scripted: a cooperative adversary for the checks
	// that only run on a full handshake
	Resume bool
	// results
	Resumed   bool
	Completed bool
	CH        *clientHelloMsg
	SentSuite uint16
	Random    []byte
}

func vsrv12Install(srv *Conn, s *vsrv12Script) {
	srv.handshakeFn = func(ctx context.Context) error { return vsrvRun12(ctx, srv, s) }
}

func vsrv12SuiteByID(id uint16) *cipherSuite {
	for _, cs := range utlsSupportedCipherSuites {
		if cs.id == id {
			return cs
		}
	}
	return cipherSuiteByID(id)
}

func vsrvRun12(ctx context.Context, c *Conn, s *vsrv12Script) error {
	msg, err := c.readHandshake(nil)
	if err != nil {
		return err
	}
	ch, ok := msg.(*clientHelloMsg)
	if !ok {
		c.sendAlert(alertUnexpectedMessage)
		return fmt.Errorf("vsrv12: expected ClientHello, got %T", msg)
	}
	s.CH = ch
	c.ticketKeys = c.config.ticketKeys(nil)
	c.vers = s.Version
	c.haveVers = true
	c.in.version = c.vers
	c.out.version = c.vers

	hs := serverHandshakeState{c: c, ctx: ctx, clientHello: ch}
	if err := hs.processClientHello(); err != nil {
		return err
	}
	// downgrade sentinel
	switch s.Canary {
	case "none":
		copy(hs.hello.random[24:], []byte{1, 2, 3, 4, 5, 6, 7, 8})
	case "tls12":
		copy(hs.hello.random[24:], downgradeCanaryTLS12)
	case "tls11":
		copy(hs.hello.random[24:], downgradeCanaryTLS11)
	}
	s.Random = append([]byte(nil), hs.hello.random...)
	if s.ALPN != nil {
		hs.hello.alpnProtocol = *s.ALPN
		c.clientProtocol = *s.ALPN
	}
	c.buffering = true
	if s.Resume {
		if err := hs.checkForResumption(); err != nil {
			return err
		}
		if hs.sessionState != nil {
			s.Resumed = true
			c.didResume = true
			hs.hello.compressionMethod = s.Compression
			if err := hs.doResumeHandshake(); err != nil {
				return err
			}
			s.SentSuite = hs.suite.id
			if err := hs.establishKeys(); err != nil {
				return err
			}
			if err := hs.sendSessionTicket(); err != nil {
				return err
			}
			if err := hs.sendFinished(c.serverFinished[:]); err != nil {
				return err
			}
			if _, err := c.flush(); err != nil {
				return err
			}
			c.clientFinishedIsFirst = false
			if err := hs.readFinished(nil); err != nil {
				return err
			}
			c.ekm = ekmFromMasterSecret(c.vers, hs.suite, hs.masterSecret, hs.clientHello.random, hs.hello.random)
			c.isHandshakeComplete.Store(true)
			s.Completed = true
			return nil
		}
	}
	if s.Suite != 0 {
		hs.suite = vsrv12SuiteByID(s.Suite)
		if hs.suite == nil {
			return errors.New("vsrv12: forced suite is not implemented")
		}
		c.cipherSuite = hs.suite.id
	} else {
		if err := hs.pickCipherSuite(); err != nil {
			return err
		}
	}
	s.SentSuite = hs.suite.id
	hs.hello.compressionMethod = s.Compression
	if err := hs.doFullHandshake(); err != nil {
		return err
	}
	if err := hs.establishKeys(); err != nil {
		return err
	}
	if err := hs.readFinished(c.clientFinished[:]); err != nil {
		return err
	}
	c.clientFinishedIsFirst = true
	c.buffering = true
	if err := hs.sendSessionTicket(); err != nil {
		return err
	}
	if err := hs.sendFinished(nil); err != nil {
		return err
	}
	if _, err := c.flush(); err != nil {
		return err
	}
	c.ekm = ekmFromMasterSecret(c.vers, hs.suite, hs.masterSecret, hs.clientHello.random, hs.hello.random)
	c.isHandshakeComplete.Store(true)
	s.Completed = true
	return nil
}
