//go:build verif

package tls

// C17 - a HelloRetryRequest changes only what RFC 8446 allows.

import (
	"bytes"
	"fmt"
	"testing"

	"pgregory.net/rapid"
)

// reference BoringSSL padding rule (RFC 7685 usage in BoringSSL): input = unpadded handshake message length
func vf17RefPadding(unpadded int) (bodyLen int, present bool) {
	if unpadded > 0xff && unpadded < 0x200 {
		p := 0x200 - unpadded
		if p >= 5 {
			return p - 4, true
		}
		return 1, true
	}
	return 0, false
}

func vf17ExtSeq(h *vfHello, skip map[uint16]bool, mask map[uint16]bool) []string {
	var out []string
	for _, e := range h.Exts {
		if skip[e.Type] {
			continue
		}
		if mask[e.Type] {
			out = append(out, fmt.Sprintf("%d:<masked>", e.Type))
			continue
		}
		out = append(out, fmt.Sprintf("%d:%x", e.Type, e.Body))
	}
	return out
}

func TestVerifC17HRR(t *testing.T) {
	st := vfNewStats(t, "C17")
	rapid.Check(t, func(rt *rapid.T) {
		src := vfGenTLS13Src(rt)
		var mod func(*Config)
		if rapid.IntRange(0, 7).Draw(rt, "golang") == 0 {
			// HelloGolang through a UConn: the hello is built by crypto/tls' own code and marshalled lazily, the retry is
			// handled by the same state machine; optionally with the application's own curve preferences
			src = vfClientSrc{Kind: "golang", Name: "HelloGolang", ID: HelloGolang}
			if rapid.Bool().Draw(rt, "golang_curves") {
				cp := rapid.SampledFrom([][]CurveID{{X25519, CurveP256, CurveP384}, {CurveP256, X25519}, {X25519MLKEM768, X25519, CurveP521}}).Draw(rt, "golang_curveprefs")
				mod = func(c *Config) { c.CurvePreferences = cp }
				src.Name += fmt.Sprintf("(CurvePreferences=%v)", cp)
			}
			st.Class("source:HelloGolang")
		}
		sni := vfGenDNSName(rt, "sni")
		st.Eval()
		if src.Kind != "golang" && rapid.IntRange(0, 3).Draw(rt, "cached_tls12_session") == 0 {
			// the session cache already holds a TLS 1.2 session for this name (the server was TLS 1.2-only last time):
			// its ticket travels in session_ticket, no pre_shared_key is offered, the retry is an ordinary one
			cache := NewLRUClientSessionCache(4)
			inner := mod
			mod = func(c *Config) {
				if inner != nil {
					inner(c)
				}
				c.ClientSessionCache = cache
				c.PreferSkipResumptionOnNilExtension = true
			}
			if p0, err0 := vfPrepareClient(src, sni, rapid.Uint64().Draw(rt, "primeseed"), mod); err0 == nil {
				keys0 := vfCertKeysFor(p0.Offer, VersionTLS12, "")
				if len(keys0) > 0 {
					s0 := vfServerConfig(keys0[0], vfCertNames(sni)...)
					s0.MaxVersion = VersionTLS12
					pair0 := &vfPair{CP: p0.CP, SP: p0.SP, Cli: p0.UC, Srv: Server(p0.SP, s0)}
					if cerr0, serr0 := pair0.Handshake(); cerr0 == nil && serr0 == nil && pair0.Echo([]byte("prime"), []byte("PRIME")) == nil {
						st.Class("cache-holds-tls12-session")
					}
					pair0.Close()
				} else {
					p0.CP.Close()
				}
			}
		}
		p, err := vfPrepareClient(src, sni, rapid.Uint64().Draw(rt, "randseed"), mod)
		if err != nil {
			st.Violation(rt, "%s: %v", src, err)
		}
		defer p.CP.Close()
		o := p.Offer
		if !o.HasVersion(VersionTLS13) || o.PSK || (o.Hello.ECH() != nil && len(p.CCfg.EncryptedClientHelloConfigList) > 0) {
			st.Class("out-of-domain")
			return
		}
		hasPaddingExt := false
		for _, e := range p.UC.Extensions {
			if _, ok := e.(*UtlsPaddingExtension); ok {
				hasPaddingExt = true
			}
		}
		var noShare, fake []uint16
		for _, g := range o.Groups {
			if vfContains16(o.Shares, g) {
				continue
			}
			if vfContains16(vfClassicalGroups, g) {
				noShare = append(noShare, g)
			} else if g != vfGroupX25519MLKEM768 && g != 0x6399 {
				fake = append(fake, g) // e.g. Firefox' ffdhe groups: listed, documented as unsupported
			}
		}
		mode := []string{"valid-group", "valid-group", "valid-group", "cookie-only", "invalid-group-already-shared", "invalid-no-change", "unsupported-listed-group", "invalid-group-unoffered"}[rapid.IntRange(0, 7).Draw(rt, "mode")]
		s := &vsrvScript{HRR: true}
		// any offered TLS 1.3 suite: the transcript hash (SHA-256 or SHA-384) enters the message_hash construct of the retry
		var offered13 []uint16
		for _, x := range vfTLS13Suites {
			if vfContains16(o.Suites, x) {
				offered13 = append(offered13, x)
			}
		}
		if len(offered13) > 0 {
			s.Suite = offered13[rapid.IntRange(0, len(offered13)-1).Draw(rt, "suite")]
		}
		var cookie []byte
		withCookie := rapid.Bool().Draw(rt, "withcookie")
		if withCookie || mode == "cookie-only" {
			// up to the largest cookie a HelloRetryRequest can carry next to its other extensions (opaque cookie<1..2^16-1>):
			// the second hello then exceeds common buffer sizes (4 KiB, 16 KiB record)
			n := []int{1, 2, 32, 255, 256, 300, 4000, 5000, 16000, 33000, 65000}[rapid.IntRange(0, 10).Draw(rt, "cookielenclass")]
			if rapid.Bool().Draw(rt, "cookielenrandom") {
				n = rapid.IntRange(1, 300).Draw(rt, "cookielen")
			}
			// the cookie must be echoed inside the second hello's extensions block (at most 65535 bytes), together with
			// everything the first hello already carries and a possibly larger key share: keep the sum below that, or
			// "cannot be encoded" would be the correct answer of the client
			if room := 65535 - len(o.Hello.Raw) - 1500; n > room {
				n = room
			}
			cookie = rapid.SliceOfN(rapid.Byte(), n, n).Draw(rt, "cookie")
		}
		switch mode {
		case "valid-group":
			if len(noShare) == 0 {
				st.Class("no-classical-group-without-share")
				return
			}
			s.HRRGroup = noShare[rapid.IntRange(0, len(noShare)-1).Draw(rt, "group")]
			s.HRRCookie = cookie
		case "cookie-only":
			s.HRRCookie = cookie
		case "invalid-group-already-shared":
			var shared []uint16
			for _, g := range o.Shares {
				if vfContains16(vfClassicalGroups, g) || g == vfGroupX25519MLKEM768 {
					shared = append(shared, g)
				}
			}
			if len(shared) == 0 {
				return
			}
			s.HRRGroup = shared[rapid.IntRange(0, len(shared)-1).Draw(rt, "group")]
			s.HRRCookie = cookie
		case "invalid-no-change":
			// neither key_share nor cookie
		case "invalid-group-unoffered":
			// a group supported_groups does not list: the curves the library can generate shares for first, then others
			var cands []uint16
			for _, g := range []uint16{0x001d, 0x0017, 0x0018, 0x0019, vfGroupX25519MLKEM768, 0x6399, 0x0100, 0x001e, 0x0a0a} {
				if !vfContains16(o.Groups, g) {
					cands = append(cands, g)
				}
			}
			if len(cands) == 0 {
				return
			}
			var gen []uint16 // unoffered, but a curve the library could generate a share for
			for _, g := range cands {
				if vfContains16(vfClassicalGroups, g) {
					gen = append(gen, g)
				}
			}
			if len(gen) > 0 && rapid.IntRange(0, 2).Draw(rt, "unoffered_generatable") != 0 {
				cands = gen
			}
			s.HRRGroup = cands[rapid.IntRange(0, len(cands)-1).Draw(rt, "group")]
			s.HRRCookie = cookie
		case "unsupported-listed-group":
			if len(fake) == 0 {
				st.Class("no-listed-unsupported-group")
				return
			}
			s.HRRGroup = fake[rapid.IntRange(0, len(fake)-1).Draw(rt, "group")]
			s.HRRCookie = cookie
		}
		keys := vfCertKeysFor(o, VersionTLS13, "")
		if len(keys) == 0 {
			return
		}
		scfg := vfServerConfig(keys[0], vfCertNames(sni)...)
		srv := Server(p.SP, scfg)
		vsrvInstall(srv, s)
		pair := &vfPair{CP: p.CP, SP: p.SP, Cli: p.UC, Srv: srv}
		cerr, serr := pair.Handshake()
		desc := fmt.Sprintf("%s | HRR mode=%s group=%04x cookie=%d bytes", src, mode, s.HRRGroup, len(s.HRRCookie))
		st.Class("mode=" + mode)
		st.Class(fmt.Sprintf("suite=%04x", s.Suite))
		if cerr == errVfHang || serr == errVfHang {
			st.Violation(rt, "%s: hang", desc)
		}
		hellos := vfClientHellosOnWire(pair.CP.Written())
		switch mode {
		case "invalid-group-already-shared", "invalid-no-change", "invalid-group-unoffered":
			if cerr == nil || s.Completed {
				st.Violation(rt, "%s: the client must abort on this HelloRetryRequest but did not (client err=%v, server completed=%v)", desc, cerr, s.Completed)
			}
			if len(hellos) != 1 {
				st.Violation(rt, "%s: the client answered an invalid HelloRetryRequest with a second ClientHello", desc)
			}
			st.NonTrivial(fmt.Sprintf("%s|%s|%04x", src.Kind+":"+src.Name, mode, s.HRRGroup))
			return
		case "unsupported-listed-group":
			// documented as unsupported (Fake*): only a clean abort is required
			if cerr == nil {
				st.Violation(rt, "%s: completed with a group utls does not implement?!", desc)
			}
			st.NonTrivial(fmt.Sprintf("%s|%s|%04x", src.Kind+":"+src.Name, mode, s.HRRGroup))
			return
		}
		// valid HRR: second hello, comparison, completion
		if len(hellos) != 2 {
			st.Violation(rt, "%s: expected two ClientHellos on the wire, saw %d (client err=%v server err=%v log=%v)", desc, len(hellos), cerr, serr, s.Log)
		}
		h1, h2 := vfParseClientHello(hellos[0]), vfParseClientHello(hellos[1])
		if len(h2.Violations) > 0 {
			st.Violation(rt, "%s: second ClientHello is malformed: %v", desc, h2.Violations)
		}
		if h1.Version != h2.Version || !bytes.Equal(h1.Random, h2.Random) || !bytes.Equal(h1.SessionID, h2.SessionID) ||
			fmt.Sprint(h1.Suites) != fmt.Sprint(h2.Suites) || !bytes.Equal(h1.Compression, h2.Compression) {
			st.Violation(rt, "%s: legacy fields / suites changed between the hellos:\n%s", desc, vfDiffLines(vfNormHello(h1, vfNormOpts{KeepSNI: true})[:4], vfNormHello(h2, vfNormOpts{KeepSNI: true})[:4]))
		}
		skip := map[uint16]bool{44: true, 21: true}
		mask := map[uint16]bool{51: true}
		a, b := vf17ExtSeq(h1, skip, mask), vf17ExtSeq(h2, skip, mask)
		if fmt.Sprint(a) != fmt.Sprint(b) {
			st.Violation(rt, "%s: extensions other than key_share/cookie/padding differ:\n%s", desc, vfDiffLines(a, b))
		}
		// key_share
		ks2 := h2.KeyShares()
		if mode == "valid-group" {
			if len(ks2) != 1 || ks2[0].Group != s.HRRGroup {
				st.Violation(rt, "%s: second hello key_share = %v, want exactly one share for %04x", desc, ks2, s.HRRGroup)
			}
			if want := vfShareSize(s.HRRGroup); len(ks2[0].Data) != want {
				st.Violation(rt, "%s: new share has %d bytes, want %d", desc, len(ks2[0].Data), want)
			}
			for _, k1 := range h1.KeyShares() {
				if bytes.Equal(k1.Data, ks2[0].Data) {
					st.Violation(rt, "%s: new share repeats a share of the first hello", desc)
				}
			}
		} else { // cookie-only: shares unchanged
			e1, e2 := h1.Ext(51), h2.Ext(51)
			if e1 == nil || e2 == nil || !bytes.Equal(e1.Body, e2.Body) {
				st.Violation(rt, "%s: cookie-only HRR changed the key_share extension", desc)
			}
		}
		// cookie
		if h1.Ext(44) != nil {
			st.Violation(rt, "%s: first hello carries a cookie extension", desc)
		}
		c2 := h2.Ext(44)
		if s.HRRCookie == nil {
			if c2 != nil {
				st.Violation(rt, "%s: cookie extension sent although the HRR had none", desc)
			}
		} else {
			if c2 == nil {
				st.Violation(rt, "%s: cookie not echoed", desc)
			}
			want := append([]byte{byte(len(s.HRRCookie) >> 8), byte(len(s.HRRCookie))}, s.HRRCookie...)
			if !bytes.Equal(c2.Body, want) {
				st.Violation(rt, "%s: cookie extension body %x, want %x", desc, c2.Body, want)
			}
		}
		// padding recomputed by policy
		if hasPaddingExt {
			u := vfUnpaddedLen(h2)
			wantLen, wantPresent := vf17RefPadding(u)
			pe := h2.Ext(21)
			if wantPresent != (pe != nil) || (pe != nil && len(pe.Body) != wantLen) {
				got := -1
				if pe != nil {
					got = len(pe.Body)
				}
				st.Violation(rt, "%s: second hello unpadded length %d: padding body %d (-1 = absent), policy says present=%v len=%d", desc, u, got, wantPresent, wantLen)
			}
			if pe != nil {
				st.Class("padded-ch2")
			}
		} else if h2.Ext(21) != nil {
			st.Violation(rt, "%s: padding extension appeared in the second hello", desc)
		}
		// the handshake completes
		if cerr != nil || serr != nil || !s.Completed {
			st.Violation(rt, "%s: valid HelloRetryRequest but the handshake failed: client err=%v server err=%v log=%v", desc, cerr, serr, s.Log)
		}
		if err := pair.Echo([]byte("ping"), []byte("pong")); err != nil {
			st.Violation(rt, "%s: echo failed: %v", desc, err)
		}
		if s.HRRCookie != nil || hasPaddingExt {
			st.NonTrivial(fmt.Sprintf("%s|%s|%04x|%d|%v", src.Kind+":"+src.Name, mode, s.HRRGroup, len(s.HRRCookie), hasPaddingExt))
		}
		st.Sample(map[string]any{"client": src.String(), "mode": mode, "group": fmt.Sprintf("%04x", s.HRRGroup), "cookie_len": len(s.HRRCookie), "ch1_len": len(hellos[0]), "ch2_len": len(hellos[1])})
	})
}
