//go:build verif

package tls

// C29 (extension): randomized fingerprints. The identity of a randomized ClientHelloID includes the seed the connection
// drew; "the most recently working ClientHelloID" must therefore reproduce the fingerprint that worked. A server that,
// after the first success, accepts only that fingerprint must be reached by the FIRST attempt of every later Dial.

import (
	"errors"
	"fmt"
	"net"
	"sync"
	"testing"
	"time"

	"pgregory.net/rapid"
)

func TestVerifC29RandomizedWorkingID(t *testing.T) {
	st := vfNewStats(t, "C29")
	vf29TrustSetup()
	rapid.Check(t, func(rt *rapid.T) {
		variant := []ClientHelloID{HelloRandomized, HelloRandomizedALPN, HelloRandomizedNoALPN}[rapid.IntRange(0, 2).Draw(rt, "variant")]
		withParrot := rapid.Bool().Draw(rt, "withparrot") // a configured parrot the server never accepts
		nDials := rapid.IntRange(2, 4).Draw(rt, "dials")
		st.Eval()
		var mu sync.Mutex
		type att struct {
			name, sig string
			acc       bool
		}
		var atts []att
		workingSig := ""
		parrotSig := map[string]bool{}
		for sig := range vf29GetPool().bySig {
			parrotSig[sig] = true
		}
		leaf := vfLeaf(vfLeafSpec{KeyType: "ecdsa", Names: []string{"*" + vf29Domain},
			NotBefore: vfPKIEpoch.Add(-9 * 365 * 24 * time.Hour), NotAfter: vfPKIEpoch.Add(9 * 365 * 24 * time.Hour)})
		base := &Config{Certificates: []Certificate{*leaf}, MinVersion: VersionTLS10, MaxVersion: VersionTLS13, CipherSuites: vfAllServerSuites()}
		base.GetConfigForClient = func(chi *ClientHelloInfo) (*Config, error) {
			sig := vf29ChiSig(chi)
			mu.Lock()
			defer mu.Unlock()
			acc := !parrotSig[sig] && (workingSig == "" || sig == workingSig)
			atts = append(atts, att{chi.ServerName, sig, acc})
			if !acc {
				return nil, errors.New("vf29: fingerprint not accepted")
			}
			if workingSig == "" {
				workingSig = sig
			}
			return nil, nil
		}
		ln, err := net.Listen("tcp", "127.0.0.1:0")
		if err != nil {
			vf29Inconclusive("cannot listen: " + err.Error())
		}
		defer ln.Close()
		var conns []net.Conn
		go func() {
			for {
				c, err := ln.Accept()
				if err != nil {
					return
				}
				mu.Lock()
				conns = append(conns, c)
				mu.Unlock()
				go func() {
					c.SetDeadline(time.Now().Add(vf29Wait))
					srv := Server(c, base)
					if srv.Handshake() != nil {
						c.Close()
						return
					}
					buf := make([]byte, 8)
					for {
						if _, err := srv.Read(buf); err != nil {
							c.Close()
							return
						}
					}
				}()
			}
		}()
		defer func() {
			mu.Lock()
			for _, c := range conns {
				c.Close()
			}
			mu.Unlock()
		}()
		ids := []ClientHelloID{variant}
		if withParrot {
			pool := vf29GetPool()
			ids = append(ids, pool.ids[rapid.IntRange(0, len(pool.ids)-1).Draw(rt, "parrot")].ID)
		}
		r := vf29NewRoller(ids)
		hist := fmt.Sprintf("HelloIDs=%v", ids)
		for d := 0; d < nDials; d++ {
			name := fmt.Sprintf("r%d%s", d, vf29Domain)
			res := vf29Dial(r, ln.Addr().String(), name)
			mu.Lock()
			var mine []att
			for _, a := range atts {
				if a.name == name {
					mine = append(mine, a)
				}
			}
			ws := workingSig
			mu.Unlock()
			hist += fmt.Sprintf(" | Dial%d: %d attempts err=%v", d, len(mine), res.err)
			if res.conn != nil {
				res.conn.Close()
			}
			if res.err != nil {
				if vf29IsTimeout(res.err) {
					vf29Inconclusive("handshake timeout in the randomized roller test")
				}
				st.Violation(rt, "%s: Dial %d failed although the server accepts the fingerprint that worked before (or any randomized one on the first Dial): %v", hist, d, res.err)
			}
			if d > 0 {
				if len(mine) == 0 || mine[0].sig != ws {
					st.Violation(rt, "%s: Dial %d did not start with the most recently working fingerprint (first attempt accepted=%v)", hist, d, len(mine) > 0 && mine[0].acc)
				}
				if len(mine) != 1 {
					st.Violation(rt, "%s: Dial %d needed %d attempts although its working fingerprint is still accepted", hist, d, len(mine))
				}
				w := vf29Working(r)
				if w == nil || w.Client != variant.Client || w.Seed == nil {
					st.Violation(rt, "%s: after Dial %d WorkingHelloID=%v does not identify the seeded randomized fingerprint", hist, d, w)
				}
			}
		}
		st.NonTrivial(fmt.Sprintf("rndroller|%s|%v|%d", variant.Client, withParrot, nDials))
		st.Class("randomized-working-id")
		st.Sample(map[string]any{"history": hist})
	})
}
