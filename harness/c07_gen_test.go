//go:build verif

package tls

// C07 - generators: valid seed records (every parrot), a structural model of a ClientHello record that can be
// re-serialised with deliberately wrong lengths, and per-extension body builders with boundary shapes.

import (
	"encoding/binary"
	"fmt"
	"net"
	"strings"
	"sync"

	"pgregory.net/rapid"
)

type vf07Seed struct {
	Name string
	Rec  []byte // 5-byte record header + ClientHello handshake message
}

var (
	vf07SeedOnce sync.Once
	vf07SeedList []vf07Seed
	vf07SeedErr  error
)

func vf07Record(raw []byte) []byte {
	rec := []byte{22, 3, 1, byte(len(raw) >> 8), byte(len(raw))}
	return append(rec, raw...)
}

// vf07Seeds builds one ClientHello per predefined parrot (+ HelloGolang + three seeded randomized IDs).
func vf07Seeds() ([]vf07Seed, error) {
	vf07SeedOnce.Do(func() {
		type idn struct {
			name string
			id   ClientHelloID
		}
		var ids []idn
		for _, p := range vfParrots {
			ids = append(ids, idn{p.Name, p.ID})
		}
		ids = append(ids, idn{"HelloGolang", HelloGolang})
		for i, c := range []string{helloRandomized, helloRandomizedALPN, helloRandomizedNoALPN} {
			seed := &PRNGSeed{}
			for j := range seed {
				seed[j] = byte(17*i + j + 1)
			}
			ids = append(ids, idn{fmt.Sprintf("%s-seed%d", c, i), ClientHelloID{Client: c, Version: helloAutoVers, Seed: seed}})
		}
		for i, x := range ids {
			cfg := &Config{ServerName: "example.test", InsecureSkipVerify: true, OmitEmptyPsk: true,
				Rand: vfNewDetRand(uint64(i), "c07-seed")}
			uc := UClient(&net.TCPConn{}, cfg, x.id)
			var err error
			if p := vfCatch(func() { err = uc.BuildHandshakeState() }); p != nil {
				vf07SeedErr = fmt.Errorf("seed %s: BuildHandshakeState panicked: %v", x.name, p.Val)
				return
			}
			if err != nil {
				vf07SeedErr = fmt.Errorf("seed %s: %v", x.name, err)
				return
			}
			raw := uc.HandshakeState.Hello.Raw
			if len(raw) == 0 { // HelloGolang: crypto/tls marshals lazily
				if raw, err = uc.HandshakeState.Hello.getPrivatePtr().marshal(); err != nil {
					vf07SeedErr = fmt.Errorf("seed %s: marshal: %v", x.name, err)
					return
				}
			}
			vf07SeedList = append(vf07SeedList, vf07Seed{x.name, vf07Record(raw)})
		}
	})
	return vf07SeedList, vf07SeedErr
}

// ---- structural model ----

type vf07Ext struct {
	Typ   uint16
	Body  []byte
	LenOv int // <0: real length
}

type vf07Msg struct {
	RecType byte
	RecVer  uint16
	HsType  byte
	Ver     uint16
	Random  []byte
	SID     []byte
	Suites  []byte
	Comp    []byte
	HasExts bool
	Exts    []vf07Ext
	// length overrides, <0 = consistent
	SIDLenOv, SuitesLenOv, CompLenOv, ExtsLenOv, HsLenOv, RecLenOv int
	Trailing                                                       []byte
	CutAt                                                          int      // >=0: truncate the serialised record
	Flips                                                          [][2]int // (position permille, value)
}

func vf07ParseRec(rec []byte) *vf07Msg {
	h := vfParseClientHello(rec[5:])
	m := &vf07Msg{RecType: rec[0], RecVer: binary.BigEndian.Uint16(rec[1:]), HsType: rec[5], Ver: h.Version,
		Random: append([]byte(nil), h.Random...), SID: append([]byte(nil), h.SessionID...), Comp: append([]byte(nil), h.Compression...),
		HasExts: h.HasExts, SIDLenOv: -1, SuitesLenOv: -1, CompLenOv: -1, ExtsLenOv: -1, HsLenOv: -1, RecLenOv: -1, CutAt: -1}
	for _, s := range h.Suites {
		m.Suites = append(m.Suites, byte(s>>8), byte(s))
	}
	for _, e := range h.Exts {
		m.Exts = append(m.Exts, vf07Ext{e.Type, append([]byte(nil), e.Body...), -1})
	}
	return m
}

func vf07Len(real, ov int) int {
	if ov >= 0 {
		return ov
	}
	return real
}

func (m *vf07Msg) Bytes() []byte {
	var body []byte
	body = append(body, byte(m.Ver>>8), byte(m.Ver))
	body = append(body, m.Random...)
	body = append(body, byte(vf07Len(len(m.SID), m.SIDLenOv)))
	body = append(body, m.SID...)
	n := vf07Len(len(m.Suites), m.SuitesLenOv)
	body = append(body, byte(n>>8), byte(n))
	body = append(body, m.Suites...)
	body = append(body, byte(vf07Len(len(m.Comp), m.CompLenOv)))
	body = append(body, m.Comp...)
	if m.HasExts {
		var eb []byte
		for _, e := range m.Exts {
			l := vf07Len(len(e.Body), e.LenOv)
			eb = append(eb, byte(e.Typ>>8), byte(e.Typ), byte(l>>8), byte(l))
			eb = append(eb, e.Body...)
		}
		l := vf07Len(len(eb), m.ExtsLenOv)
		body = append(body, byte(l>>8), byte(l))
		body = append(body, eb...)
	}
	body = append(body, m.Trailing...)
	hl := vf07Len(len(body), m.HsLenOv)
	msg := append([]byte{m.HsType, byte(hl >> 16), byte(hl >> 8), byte(hl)}, body...)
	rl := vf07Len(len(msg), m.RecLenOv)
	rec := append([]byte{m.RecType, byte(m.RecVer >> 8), byte(m.RecVer), byte(rl >> 8), byte(rl)}, msg...)
	for _, f := range m.Flips {
		if len(rec) > 0 {
			rec[(f[0]*len(rec))/1000%len(rec)] = byte(f[1])
		}
	}
	if m.CutAt >= 0 && m.CutAt < len(rec) {
		rec = rec[:m.CutAt]
	}
	return rec
}

// ---- per-extension body builders: valid and boundary shapes ----

var vf07HostileLens = []int{0, 1, 3, 0xff, 0xffff}

// label prefix that switches the body builders to "all lengths consistent" (valid-but-unusual bodies)
const vf07StrictMark = "S!"

// every extension id ExtensionFromID knows, plus a few it does not
var vf07ExtTypes = []uint16{0, 5, 10, 11, 13, 16, 17, 18, 21, 23, 24, 27, 28, 34, 35, 41, 43, 45, 50, 51, 57, 13172, 17513, 17613,
	30031, 30032, 0xfe0d, 0xff01, 0x0a0a, 0x3a3a, 42, 44, 22, 49, 1, 0xffff}

func vf07U16(v int) []byte { return []byte{byte(v >> 8), byte(v)} }

func vf07Bytes(rt *rapid.T, label string, max int) []byte {
	return rapid.SliceOfN(rapid.Byte(), 0, max).Draw(rt, label)
}

// vf07LenGame returns the length value to write for a vector that really has n bytes.
func vf07LenGame(rt *rapid.T, label string, n int) int {
	if strings.HasPrefix(label, vf07StrictMark) { // strict mode: every declared length is the real one
		return n
	}
	switch rapid.IntRange(0, 9).Draw(rt, label+"_lg") {
	case 0:
		return vf07HostileLens[rapid.IntRange(0, len(vf07HostileLens)-1).Draw(rt, label+"_h")]
	case 1:
		return n + 1
	case 2:
		if n > 0 {
			return n - 1
		}
	}
	return n
}

func vf07Vec16(rt *rapid.T, label string, content []byte) []byte {
	return append(vf07U16(vf07LenGame(rt, label, len(content))&0xffff), content...)
}

func vf07Vec8(rt *rapid.T, label string, content []byte) []byte {
	return append([]byte{byte(vf07LenGame(rt, label, len(content)))}, content...)
}

var vf07Groups = []uint16{0x001d, 0x0017, 0x0018, 0x0019, 0x6399, 0x11ec, 0x11eb, 0x0a0a, 0x1a1a, 0x0100, 0x001e, 0xffff, 0}

func vf07GenU16s(rt *rapid.T, label string, pool []uint16) []byte {
	n := rapid.IntRange(0, 6).Draw(rt, label+"_n")
	var b []byte
	for i := 0; i < n; i++ {
		var v uint16
		if rapid.IntRange(0, 3).Draw(rt, fmt.Sprintf("%s_k%d", label, i)) == 0 {
			v = rapid.Uint16().Draw(rt, fmt.Sprintf("%s_r%d", label, i))
		} else {
			v = pool[rapid.IntRange(0, len(pool)-1).Draw(rt, fmt.Sprintf("%s_p%d", label, i))]
		}
		b = append(b, byte(v>>8), byte(v))
	}
	if !strings.HasPrefix(label, vf07StrictMark) && rapid.IntRange(0, 7).Draw(rt, label+"_odd") == 0 {
		b = append(b, 7)
	}
	return b
}

func vf07GenProtoList(rt *rapid.T, label string) []byte {
	n := rapid.IntRange(0, 4).Draw(rt, label+"_n")
	var b []byte
	for i := 0; i < n; i++ {
		p := []byte([]string{"h2", "http/1.1", "", "h3", "x"}[rapid.IntRange(0, 4).Draw(rt, fmt.Sprintf("%s_p%d", label, i))])
		b = append(b, vf07Vec8(rt, fmt.Sprintf("%s_l%d", label, i), p)...)
	}
	return b
}

// vf07GenBody draws a body for extension type typ: mostly grammar-shaped with boundary choices, sometimes raw bytes.
func vf07GenBody(rt *rapid.T, label string, typ uint16) []byte {
	strict := strings.HasPrefix(label, vf07StrictMark) // forced by the caller
	if !strict && rapid.IntRange(0, 9).Draw(rt, label+"_mode") < 4 {
		strict = true
		label = vf07StrictMark + label
	}
	if !strict && rapid.IntRange(0, 9).Draw(rt, label+"_raw") == 0 {
		n := []int{0, 1, 2, 3, 4, 5, 7, 8, 16, 40}[rapid.IntRange(0, 9).Draw(rt, label+"_rawn")]
		return rapid.SliceOfN(rapid.Byte(), n, n).Draw(rt, label+"_rawb")
	}
	switch typ {
	case 0:
		var lst []byte
		n := rapid.IntRange(0, 2).Draw(rt, label+"_n")
		for i := 0; i < n; i++ {
			name := []byte([]string{"example.test", "", "a.", "1.2.3.4", "b.example"}[rapid.IntRange(0, 4).Draw(rt, fmt.Sprintf("%s_nm%d", label, i))])
			lst = append(lst, byte(rapid.IntRange(0, 1).Draw(rt, fmt.Sprintf("%s_nt%d", label, i))))
			lst = append(lst, vf07Vec16(rt, fmt.Sprintf("%s_nl%d", label, i), name)...)
		}
		return vf07Vec16(rt, label+"_l", lst)
	case 5:
		b := []byte{byte(rapid.IntRange(0, 2).Draw(rt, label+"_st"))}
		b = append(b, vf07Vec16(rt, label+"_r", vf07Bytes(rt, label+"_rb", 3))...)
		b = append(b, vf07Vec16(rt, label+"_e", vf07Bytes(rt, label+"_eb", 3))...)
		return b
	case 17:
		item := []byte{byte(rapid.IntRange(1, 3).Draw(rt, label+"_st"))}
		item = append(item, vf07Vec16(rt, label+"_rq", []byte{0, 0, 0, 0})...)
		if rapid.Bool().Draw(rt, label+"_empty") {
			item = nil
		}
		return vf07Vec16(rt, label+"_l", item)
	case 10:
		return vf07Vec16(rt, label+"_l", vf07GenU16s(rt, label+"_g", vf07Groups))
	case 13, 50, 34:
		return vf07Vec16(rt, label+"_l", vf07GenU16s(rt, label+"_s", []uint16{0x0403, 0x0804, 0x0401, 0x0201, 0x0a0a, 0x0807}))
	case 11:
		return vf07Vec8(rt, label+"_l", vf07Bytes(rt, label+"_p", 3))
	case 16, 17513, 17613:
		return vf07Vec16(rt, label+"_l", vf07GenProtoList(rt, label+"_pl"))
	case 18, 23, 35, 13172, 30031, 30032, 21, 22, 42:
		n := []int{0, 0, 0, 1, 3, 20}[rapid.IntRange(0, 5).Draw(rt, label+"_n")]
		return make([]byte, n)
	case 24:
		b := []byte{byte(rapid.IntRange(0, 2).Draw(rt, label+"_maj")), byte(rapid.IntRange(0, 13).Draw(rt, label+"_min"))}
		return append(b, vf07Vec8(rt, label+"_l", vf07Bytes(rt, label+"_kp", 3))...)
	case 27:
		return vf07Vec8(rt, label+"_l", vf07GenU16s(rt, label+"_a", []uint16{1, 2, 3, 0x0a0a}))
	case 28:
		return vf07Bytes(rt, label+"_rsl", 3)
	case 43:
		return vf07Vec8(rt, label+"_l", vf07GenU16s(rt, label+"_v", []uint16{0x0304, 0x0303, 0x0302, 0x0301, 0x0a0a, 0x7f1c}))
	case 45:
		return vf07Vec8(rt, label+"_l", vf07Bytes(rt, label+"_m", 3))
	case 44:
		return vf07Vec16(rt, label+"_l", vf07Bytes(rt, label+"_c", 8))
	case 51:
		n := rapid.IntRange(0, 4).Draw(rt, label+"_n")
		var lst []byte
		for i := 0; i < n; i++ {
			l := fmt.Sprintf("%s_ks%d", label, i)
			g := vf07Groups[rapid.IntRange(0, len(vf07Groups)-1).Draw(rt, l+"_g")]
			var sz int
			switch rapid.IntRange(0, 3).Draw(rt, l+"_sz") {
			case 0:
				sz = []int{0, 1, 2, 3, 31, 33}[rapid.IntRange(0, 5).Draw(rt, l+"_b")]
			default:
				sz = vfShareSize(g)
				if sz == 0 {
					sz = 1
				}
			}
			lst = append(lst, byte(g>>8), byte(g))
			lst = append(lst, vf07Vec16(rt, l+"_l", make([]byte, sz))...)
		}
		return vf07Vec16(rt, label+"_l", lst)
	case 41:
		var ids, bnd []byte
		ni := rapid.IntRange(0, 3).Draw(rt, label+"_ni")
		nb := rapid.IntRange(0, 3).Draw(rt, label+"_nb")
		if strict {
			ni = rapid.IntRange(1, 3).Draw(rt, label+"_nis")
			nb = ni
		}
		for i := 0; i < ni; i++ {
			l := fmt.Sprintf("%s_id%d", label, i)
			idl := []int{0, 1, 16, 100}[rapid.IntRange(0, 3).Draw(rt, l+"_n")]
			if strict && idl == 0 {
				idl = 7
			}
			ids = append(ids, vf07Vec16(rt, l+"_l", make([]byte, idl))...)
			age := vf07Bytes(rt, l+"_age", 4)
			if strict {
				age = []byte{0, 1, 2, byte(i)}
			}
			ids = append(ids, age...)
		}
		for i := 0; i < nb; i++ {
			l := fmt.Sprintf("%s_b%d", label, i)
			bl := []int{0, 31, 32, 33, 48, 64, 255}[rapid.IntRange(0, 6).Draw(rt, l+"_n")]
			if strict && bl < 32 {
				bl = 32
			}
			bnd = append(bnd, vf07Vec8(rt, l+"_l", make([]byte, bl))...)
		}
		if !strict && rapid.IntRange(0, 4).Draw(rt, label+"_over") == 0 {
			// the hand-written length arithmetic of FakePreSharedKeyExtension.Write: declared lengths beyond the data
			decl := []int{0xff, 0x100, 0xffff, len(bnd) + 40}[rapid.IntRange(0, 3).Draw(rt, label+"_decl")]
			b := append(vf07U16(len(ids)), ids...)
			b = append(b, vf07U16(decl&0xffff)...)
			b = append(b, byte([]int{0xff, 40, 33, 200}[rapid.IntRange(0, 3).Draw(rt, label+"_bdecl")]))
			return append(b, make([]byte, rapid.IntRange(0, 34).Draw(rt, label+"_have"))...)
		}
		return append(vf07Vec16(rt, label+"_il", ids), vf07Vec16(rt, label+"_bl", bnd)...)
	case 57:
		var b []byte
		n := rapid.IntRange(0, 3).Draw(rt, label+"_n")
		for i := 0; i < n; i++ {
			l := fmt.Sprintf("%s_tp%d", label, i)
			v := vf07Bytes(rt, l+"_v", 5)
			b = append(b, byte(rapid.IntRange(0, 63).Draw(rt, l+"_id")), byte(vf07LenGame(rt, l, len(v))&0x3f))
			b = append(b, v...)
		}
		return b
	case 0xfe0d:
		b := []byte{byte([]int{0, 0, 0, 1, 2}[rapid.IntRange(0, 4).Draw(rt, label+"_t")])}
		if strict {
			b[0] = 0
		}
		kdf := []uint16{1, 1, 2, 3, 0, 0xffff}[rapid.IntRange(0, 5).Draw(rt, label+"_kdf")]
		aead := []uint16{1, 1, 2, 3, 0, 0xffff}[rapid.IntRange(0, 5).Draw(rt, label+"_aead")]
		b = append(b, byte(kdf>>8), byte(kdf), byte(aead>>8), byte(aead), byte(rapid.IntRange(0, 255).Draw(rt, label+"_cid")))
		enc := make([]byte, []int{0, 1, 32, 65}[rapid.IntRange(0, 3).Draw(rt, label+"_enc")])
		pl := make([]byte, []int{0, 1, 15, 16, 17, 144, 239, 300}[rapid.IntRange(0, 7).Draw(rt, label+"_pl")])
		b = append(b, vf07Vec16(rt, label+"_el", enc)...)
		b = append(b, vf07Vec16(rt, label+"_pll", pl)...)
		if !strict && rapid.IntRange(0, 5).Draw(rt, label+"_cut") == 0 {
			b = b[:rapid.IntRange(0, len(b)).Draw(rt, label+"_cutat")]
		}
		return b
	case 0xff01:
		return vf07Vec8(rt, label+"_l", vf07Bytes(rt, label+"_rc", 3))
	}
	if vfIsGREASE(typ) {
		return vf07Bytes(rt, label+"_gr", 2)
	}
	return vf07Bytes(rt, label+"_unk", 6)
}
