//go:build verif

package tls

// C33 (extension): the server asks for a renegotiation. After a completed TLS <= 1.2 handshake the server sends a
// HelloRequest; a client that allows renegotiation (Config.Renegotiation for HelloGolang, the renegotiation_info
// extension of the parrots' specs sets it for them) answers with a new ClientHello inside the encrypted channel, and
// the server then sends whatever it likes: nothing, a ServerHello that selects TLS 1.3, TLS 1.2 or garbage, an alert,
// another HelloRequest. Oracle as everywhere in C33: the client's Read returns (data or an error), it never panics,
// never hangs, and allocates within bounds.

import (
	"fmt"
	"testing"

	"pgregory.net/rapid"
)

func TestVerifC33ServerRequestsRenegotiation(t *testing.T) {
	st := vfNewStats(t, "C33")
	run := func(rt *rapid.T, src vfClientSrc, mode RenegotiationSupport, reply string, seed uint64) {
		st.Eval()
		prep, err := vfPrepareClient(src, "reneg.c33.test", seed, func(c *Config) {
			c.Renegotiation = mode
			c.MaxVersion = VersionTLS12 // HelloGolang follows the Config; specs bring their own bounds
		})
		if err != nil {
			st.Class("reneg:client-not-buildable")
			return
		}
		keys := vfCertKeysFor(prep.Offer, VersionTLS12, "")
		if len(keys) == 0 {
			prep.CP.Close()
			return
		}
		scfg := vfServerConfig(keys[0], "reneg.c33.test")
		scfg.MaxVersion = VersionTLS12
		srv := Server(prep.SP, scfg)
		asked, answered := false, false
		out := vf33Drive(prep.UC, prep.CP, prep.SP, func() {
			if err := srv.Handshake(); err != nil {
				return
			}
			srv.out.Lock()
			_, werr := srv.writeRecordLocked(recordTypeHandshake, []byte{typeHelloRequest, 0, 0, 0})
			srv.out.Unlock()
			if werr != nil {
				return
			}
			asked = true
			// the client's answer: a ClientHello inside the channel (or an alert, or nothing)
			msg, err := srv.readHandshake(nil)
			if err != nil {
				return
			}
			ch, ok := msg.(*clientHelloMsg)
			if !ok {
				return
			}
			answered = true
			var raw []byte
			b := &vsrvB{}
			switch reply {
			case "serverhello-tls13":
				b.u16(0x0303)
				b.raw(make([]byte, 32))
				b.vec8(ch.sessionId)
				b.u16(TLS_AES_128_GCM_SHA256)
				b.u8(0)
				b.vec16([]byte{0, 43, 0, 2, 3, 4, 0, 51, 0, 36, 0, 29, 0, 32, 1, 2, 3, 4, 5, 6, 7, 8, 9, 10, 11, 12, 13, 14, 15, 16, 17, 18, 19, 20, 21, 22, 23, 24, 25, 26, 27, 28, 29, 30, 31, 32})
				raw = vsrvMsg(2, b.b)
			case "serverhello-tls12":
				b.u16(0x0303)
				b.raw(make([]byte, 32))
				b.vec8(ch.sessionId)
				suite := uint16(TLS_ECDHE_ECDSA_WITH_AES_128_GCM_SHA256)
				if len(ch.cipherSuites) > 0 {
					suite = ch.cipherSuites[len(ch.cipherSuites)/2]
				}
				b.u16(suite)
				b.u8(0)
				raw = vsrvMsg(2, b.b)
			case "serverhello-garbage":
				raw = vsrvMsg(2, []byte{3, 3, 1, 2, 3})
			case "hello-request-again":
				raw = []byte{typeHelloRequest, 0, 0, 0}
			case "finished":
				raw = vsrvMsg(20, make([]byte, 12))
			case "silence":
				return
			}
			srv.out.Lock()
			srv.writeRecordLocked(recordTypeHandshake, raw)
			srv.out.Unlock()
		})
		desc := fmt.Sprintf("%s Config.Renegotiation=%d | TLS 1.2 handshake, then HelloRequest (sent=%v, client answered with a ClientHello=%v), then %s", src, mode, asked, answered, reply)
		vf33Judge(rt, st, desc, out)
		st.Class(fmt.Sprintf("reneg:asked=%v answered=%v reply=%s", asked, answered, reply))
		if answered {
			st.NonTrivial(fmt.Sprintf("reneg|%s|%d|%s", src.Kind+":"+src.Name, mode, reply))
		}
	}
	rapid.Check(t, func(rt *rapid.T) {
		var src vfClientSrc
		if rapid.IntRange(0, 3).Draw(rt, "golang") == 0 {
			src = vfClientSrc{Kind: "golang", Name: "HelloGolang", ID: HelloGolang}
		} else {
			src = vfGenClientSrc(rt, "src")
		}
		mode := rapid.SampledFrom([]RenegotiationSupport{RenegotiateNever, RenegotiateOnceAsClient, RenegotiateOnceAsClient, RenegotiateFreelyAsClient}).Draw(rt, "renegotiation")
		reply := rapid.SampledFrom([]string{"serverhello-tls13", "serverhello-tls13", "serverhello-tls12", "serverhello-garbage", "hello-request-again", "finished", "silence"}).Draw(rt, "reply")
		run(rt, src, mode, reply, rapid.Uint64().Draw(rt, "seed"))
	})
}
