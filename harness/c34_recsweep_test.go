//go:build verif

package tls

// C34 (extension): records after the keys are installed. A fixed byte stream cannot get the server past the key
// exchange, so the server's handling of short PROTECTED records (shorter than the explicit nonce, the tag, the MAC)
// was out of reach. Here a real client (parrots and HelloGolang) talks to the server through a man in the middle that
// replaces the r-th record the client writes by its first k body bytes, for every record of the client's flights and
// the first application data, and every short k. Oracle as everywhere in C34: Handshake and Read return, no panic.

import (
	"fmt"
	"os"
	"testing"
	"time"
)

type vf34RecCfg struct {
	Name    string
	ID      ClientHelloID
	KeyType string
	Ver     uint16
	Suites  []uint16 // TLS <= 1.2: the server's only suites
}

func vf34RecordRun(c vf34RecCfg, sni string, cutRec, keep int) (o *vf34Outcome, lens []int, types []uint8) {
	o = &vf34Outcome{}
	cp, sp := vfPipe()
	dl := time.Now().Add(vf34Deadline)
	cp.SetDeadline(dl)
	sp.SetDeadline(dl)
	vfPipeQuiescent(cp, sp, func() { cp.Close() })
	ccfg := vfClientConfig(sni)
	ccfg.OmitEmptyPsk = true
	uc := UClient(cp, ccfg, c.ID)
	scfg := vfServerConfig(c.KeyType, sni)
	scfg.MinVersion, scfg.MaxVersion = c.Ver, c.Ver
	if c.Suites != nil {
		scfg.CipherSuites = c.Suites
	}
	idx := 0
	cp.filter = func(rec []byte) []byte {
		if len(rec) < 5 {
			return rec
		}
		n := len(rec) - 5
		lens = append(lens, n)
		types = append(types, rec[0])
		if idx == cutRec && keep >= 0 && keep < n {
			x := append([]byte(nil), rec[:5+keep]...)
			x[3], x[4] = byte(keep>>8), byte(keep)
			rec = x
		}
		idx++
		return rec
	}
	srv := Server(sp, scfg)
	done := make(chan struct{})
	go func() { // vf34 server goroutine
		defer close(done)
		vf34ServerLoop(srv, o)
	}()
	cdone := make(chan struct{})
	go func() {
		defer close(cdone)
		if err := uc.Handshake(); err == nil {
			uc.Write([]byte("hello from the client"))
			uc.Write([]byte("x"))
		}
		cp.CloseWrite()
	}()
	o.Hang = vf34Await(done, time.Until(dl)+vf34HangGrace, "vf34ServerLoop")
	cp.Close()
	sp.Close()
	<-cdone
	return o, lens, types
}

func TestVerifC34RecordTruncationSweep(t *testing.T) {
	if sh := os.Getenv("VERIF_SHARD"); sh != "" && sh != "0" {
		t.Skip("deterministic sweep: runs in shard 0 only")
	}
	st := vfNewStats(t, "C34")
	cfgs := []vf34RecCfg{
		{"Chrome_120/TLS1.2/ECDHE-ECDSA-AES128-GCM", HelloChrome_120, "ecdsa", VersionTLS12, []uint16{TLS_ECDHE_ECDSA_WITH_AES_128_GCM_SHA256}},
		{"Firefox_105/TLS1.2/ECDHE-RSA-CHACHA20", HelloFirefox_105, "rsa", VersionTLS12, []uint16{TLS_ECDHE_RSA_WITH_CHACHA20_POLY1305_SHA256}},
		{"Golang/TLS1.2/ECDHE-RSA-AES128-CBC-SHA", HelloGolang, "rsa", VersionTLS12, []uint16{TLS_ECDHE_RSA_WITH_AES_128_CBC_SHA}},
		{"Chrome_133/TLS1.3", HelloChrome_133, "ecdsa", VersionTLS13, nil},
		{"Golang/TLS1.3", HelloGolang, "rsa", VersionTLS13, nil},
	}
	if vfThorough() {
		cfgs = append(cfgs,
			vf34RecCfg{"iOS_14/TLS1.2/ECDHE-RSA-AES256-GCM", HelloIOS_14, "rsa", VersionTLS12, []uint16{TLS_ECDHE_RSA_WITH_AES_256_GCM_SHA384}},
			vf34RecCfg{"Golang/TLS1.2/RSA-AES128-GCM", HelloGolang, "rsa", VersionTLS12, []uint16{TLS_RSA_WITH_AES_128_GCM_SHA256}},
			vf34RecCfg{"Golang/TLS1.0/ECDHE-RSA-AES128-CBC-SHA", HelloGolang, "rsa", VersionTLS10, []uint16{TLS_ECDHE_RSA_WITH_AES_128_CBC_SHA}},
			vf34RecCfg{"Firefox_120/TLS1.3", HelloFirefox_120, "ecdsa", VersionTLS13, nil})
	}
	for _, c := range cfgs {
		sni := "records.c34.test"
		base, lens, types := vf34RecordRun(c, sni, -1, -1)
		if base.HSErr != nil || base.Panic != nil || base.Hang != "" {
			st.Class("record-sweep-baseline-failed: " + c.Name)
			continue
		}
		for ri, n := range lens {
			for k := 0; k < n; k++ {
				if k > 72 && k != n-1 && !(vfThorough() && k%97 == 0) {
					continue
				}
				st.Eval()
				o, _, _ := vf34RecordRun(c, sni, ri, k)
				st.Class(fmt.Sprintf("record-sweep:type=%d", types[ri]))
				st.Class("record-sweep:hs-err=" + vf34ErrClass(o.HSErr))
				st.NonTrivial(fmt.Sprintf("recsweep|%s|%d|%d", c.Name, ri, k))
				vf34Verdict(t, st, o, "client record cut short", func() string {
					return fmt.Sprintf("%s: client record #%d (type %d, body %d bytes) replaced by its first %d body bytes", c.Name, ri, types[ri], n, k)
				})
			}
		}
	}
}
