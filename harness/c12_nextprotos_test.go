//go:build verif

package tls

// C12 (ALPN): Config.NextProtos is not an offer. A hello without an ALPN extension (HelloRandomizedNoALPN, a spec without
// ALPNExtension) offers no protocol, whatever Config.NextProtos says; a server selecting one must be refused.

import (
	"fmt"
	"testing"

	"pgregory.net/rapid"
)

func TestVerifC12ALPNWithoutExtension(t *testing.T) {
	st := vfNewStats(t, "C12")
	rapid.Check(t, func(rt *rapid.T) {
		var src vfClientSrc
		if rapid.Bool().Draw(rt, "randomized") {
			src = vfGenRandomizedID(rt, "rnd")
			src.ID.Client = helloRandomizedNoALPN
			src.ID.Weights.TLSVersMax_Set_VersionTLS13 = 1
			src.Name = helloRandomizedNoALPN
		} else {
			p := vfGenParrot(rt, "parrot")
			base := p.ID
			mk := func() *ClientHelloSpec {
				spec, _ := UTLSIdToSpec(base)
				var exts []TLSExtension
				for _, e := range spec.Extensions {
					switch e.(type) {
					case *ALPNExtension, *ApplicationSettingsExtension, *ApplicationSettingsExtensionNew, PreSharedKeyExtension:
					default:
						exts = append(exts, e)
					}
				}
				spec.Extensions = exts
				return &spec
			}
			src = vfClientSrc{Kind: "custom", Name: "noalpn(" + p.Name + ")", ID: HelloCustom, SpecFn: mk}
		}
		protos := [][]string{{"h2"}, {"h2", "http/1.1"}, {"vf-proto"}}[rapid.IntRange(0, 2).Draw(rt, "nextprotos")]
		sni := vfGenDNSName(rt, "sni")
		st.Eval()
		p, err := vfPrepareClient(src, sni, rapid.Uint64().Draw(rt, "randseed"), func(c *Config) { c.NextProtos = protos })
		if err != nil {
			st.Violation(rt, "%s: %v", src, err)
		}
		defer p.CP.Close()
		if len(p.Offer.ALPN) != 0 || p.Offer.Hello.Ext(16) != nil {
			st.Class("alpn-on-wire-or-no-tls13")
			return
		}
		sel := protos[rapid.IntRange(0, len(protos)-1).Draw(rt, "sel")]
		if p.Offer.HasVersion(VersionTLS12) && (!p.Offer.HasVersion(VersionTLS13) || rapid.Bool().Draw(rt, "legacy_server")) {
			// the same through a TLS 1.2 ServerHello (scripted legacy server, everything else compliant)
			var good *vfSuiteInfo
			for i := range vfLegacySuites {
				si := &vfLegacySuites[i]
				if vfContains16(p.Offer.Suites, si.ID) && len(vfCertKeysFor(p.Offer, VersionTLS12, si.Auth)) > 0 && good == nil {
					good = si
				}
			}
			if good == nil {
				st.Class("no-good-legacy-suite")
				return
			}
			scfg := vfServerConfig(vfCertKeysFor(p.Offer, VersionTLS12, good.Auth)[0], vfCertNames(sni)...)
			scfg.MaxVersion = VersionTLS12
			srv := Server(p.SP, scfg)
			s12 := &vsrv12Script{Version: VersionTLS12, Canary: "none", Suite: good.ID, ALPN: &sel}
			vsrv12Install(srv, s12)
			pair := &vfPair{CP: p.CP, SP: p.SP, Cli: p.UC, Srv: srv}
			cerr, _ := pair.Handshake()
			cs := pair.Cli.ConnectionState()
			desc := fmt.Sprintf("%s with Config.NextProtos=%q: the hello carries no ALPN extension, the TLS 1.2 ServerHello selects %q", src, protos, sel)
			if cerr == nil || cs.HandshakeComplete || cs.NegotiatedProtocol == sel {
				st.Violation(rt, "%s: accepted (client err=%v, NegotiatedProtocol=%q)", desc, cerr, cs.NegotiatedProtocol)
			}
			st.NonTrivial(fmt.Sprintf("noalpn12|%s|%v|%s", src.Name, protos, sel))
			st.Class("alpn-without-extension-refused(tls12)")
			return
		}
		if !p.Offer.HasVersion(VersionTLS13) {
			st.Class("alpn-on-wire-or-no-tls13")
			return
		}
		s := &vsrvScript{ALPN: &sel}
		keys := vfCertKeysFor(p.Offer, VersionTLS13, "")
		if len(keys) == 0 {
			return
		}
		srv := Server(p.SP, vfServerConfig(keys[0], vfCertNames(sni)...))
		vsrvInstall(srv, s)
		pair := &vfPair{CP: p.CP, SP: p.SP, Cli: p.UC, Srv: srv}
		cerr, _ := pair.Handshake()
		cs := pair.Cli.ConnectionState()
		desc := fmt.Sprintf("%s with Config.NextProtos=%q: the hello carries no ALPN extension, the server selects %q", src, protos, sel)
		if cerr == nil || cs.HandshakeComplete || s.Completed || cs.NegotiatedProtocol == sel {
			st.KnownOrViolation(rt, "C12:alpn-from-config-not-on-wire", "%s: accepted (client err=%v, NegotiatedProtocol=%q)", desc, cerr, cs.NegotiatedProtocol)
			return
		}
		st.NonTrivial(fmt.Sprintf("noalpn|%s|%v|%s", src.Name, protos, sel))
		st.Class("alpn-without-extension-refused")
		st.Sample(map[string]any{"client": src.String(), "next_protos": protos, "selected": sel, "client_error": fmt.Sprint(cerr)})
	})
}
