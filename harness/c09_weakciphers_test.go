//go:build verif

package tls

import (
	"reflect"
	"testing"

	"pgregory.net/rapid"
)

// C09: the (seed, weights) of a ClientHelloID determine the randomized spec. Process-wide switches that are documented
// not to change the shape of hellos ("EnableWeakCiphers ... does not change the shape of parrots") are part of the
// history a build may follow: the same ID must give the same spec before and after the call, and the randomizer must not
// start offering the suites the switch adds. The package tables are restored after every case.
func TestVerifC09AfterEnableWeakCiphers(t *testing.T) {
	st := vfNewStats(t, "C09")
	weak := []uint16{DISABLED_TLS_RSA_WITH_AES_256_CBC_SHA256, DISABLED_TLS_ECDHE_ECDSA_WITH_AES_256_CBC_SHA384, DISABLED_TLS_ECDHE_RSA_WITH_AES_256_CBC_SHA384}
	rapid.Check(t, func(rt *rapid.T) {
		c := vf09GenCase(rt)
		st.Eval()
		before, err := UTLSIdToSpec(c.id())
		if err != nil {
			st.Violation(rt, "UTLSIdToSpec failed: %v", err)
		}
		savedAll, savedUtls := cipherSuites, utlsSupportedCipherSuites
		EnableWeakCiphers()
		after, err := UTLSIdToSpec(c.id())
		v2, _, berr := vf09Build(c.id(), c.name, c.protos, 1, "weak")
		cipherSuites, utlsSupportedCipherSuites = savedAll, savedUtls
		if err != nil || berr != nil {
			st.Violation(rt, "after EnableWeakCiphers: UTLSIdToSpec / BuildHandshakeState failed for seed=%x: %v / %v", c.seed, err, berr)
		}
		r1, r2 := vf09RenderSpec(&before), vf09RenderSpec(&after)
		if !reflect.DeepEqual(r1, r2) {
			st.Violation(rt, "seed=%x variant=%d weights=%+v: the spec built after EnableWeakCiphers() differs from the one built before it:\n%s", c.seed, c.variant, c.w, vfDiffLines(r1, r2))
		}
		for _, s := range v2.h.Suites {
			if vfContains16(weak, s) {
				st.Violation(rt, "seed=%x: randomized hello offers %04x after EnableWeakCiphers()", c.seed, s)
			}
		}
		if !reflect.DeepEqual(v2.h.Suites, before.CipherSuites) {
			st.Violation(rt, "seed=%x: wire suites after EnableWeakCiphers() %04x differ from the spec built before it %04x", c.seed, v2.h.Suites, before.CipherSuites)
		}
		st.Class("after-EnableWeakCiphers")
		st.NonTrivial("weak|" + c.key())
	})
}
