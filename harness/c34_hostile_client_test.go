//go:build verif

package tls

// C34 - arbitrary client input never crashes or hangs the server.
//
// Generators (all structure-aware, drawn by rapid; native fuzz targets for the thorough tier at the end):
//   A  mutated first flights: a ClientHello captured on the wire from every parrot (+ HelloGolang; with a real PSK
//      from a warm session cache, with a TLS 1.2 session ticket, with a real ECH outer extension) is parsed with the
//      reference parser, mutated (extension bodies, inner length fields, duplicates, reordering, type changes, header
//      fields, lying length prefixes, truncation, byte flips), optionally re-sealed as ECH towards the server's ECH key
//      with a mutated *inner* hello (outer_extensions games), framed into records (fragmentation, versions, prefixes,
//      suffixes) and fed to tls.Server;
//   B  a real UConn handshake into which uTLS-specific handshake messages (types 8 and 25, and a few others) are
//      injected at every point the harness can reach without repo hooks: before / after the ClientHello (plaintext
//      records), at the start of the client's second flight (Config.VerifyConnection callback; encrypted with the
//      handshake keys in TLS 1.3, plaintext in TLS 1.2), between client Certificate and CertificateVerify (crypto.Signer
//      callback), after ClientKeyExchange in TLS 1.2 (KeyLogWriter callback) and after the handshake (application keys);
//   C  raw record streams.
//
// Oracle: server Handshake and the following Read return (any error or success is fine), nothing panics, the calls
// return within the pipe deadline + 10 s (hang oracle: still inside the call in two goroutine dumps 3 s apart), and one
// case allocates less than 8 MiB (inputs are < 300 KiB; ordinary cases allocate < 0.3 MiB). Nothing else is demanded.

import (
	"bytes"
	"compress/zlib"
	"crypto"
	"crypto/ecdh"
	"crypto/rand"
	"encoding/binary"
	"errors"
	"fmt"
	"io"
	"os"
	"regexp"
	"runtime"
	"strings"
	"sync"
	"sync/atomic"
	"testing"
	"time"

	"github.com/refraction-networking/utls/internal/hpke"
	"pgregory.net/rapid"
)

const (
	vf34Deadline   = 3 * time.Second
	vf34HangGrace  = 10 * time.Second
	vf34AllocBound = 8 << 20
)

// ---------------------------------------------------------------------------------------------------------------
// environment, built once
// ---------------------------------------------------------------------------------------------------------------

type vf34Base struct {
	Name string
	Kind string // "plain" | "psk" | "ticket12" | "ech"
	Msg  []byte // ClientHello handshake message as seen on the wire (4-byte header included)
}

type vf34Env struct {
	bases       []vf34Base
	echKey      *ecdh.PrivateKey
	echConfig   []byte
	echConfList []byte
	ticketKey   [32]byte
	clientLeaf  *Certificate
	notes       []string
}

const vf34ECHConfigID = 123

var (
	vf34EnvOnce sync.Once
	vf34E       *vf34Env
)

func vf34PutU16(b []byte, v int) []byte { return append(b, byte(v>>8), byte(v)) }
func vf34PutU24(b []byte, v int) []byte { return append(b, byte(v>>16), byte(v>>8), byte(v)) }

func vf34Vec8(b []byte) []byte  { return append([]byte{byte(len(b))}, b...) }
func vf34Vec16(b []byte) []byte { return append(vf34PutU16(nil, len(b)), b...) }

func vf34MarshalECHConfig(id uint8, pub []byte, publicName string, maxNameLen uint8) []byte {
	var c []byte
	c = append(c, id)
	c = vf34PutU16(c, int(hpke.DHKEM_X25519_HKDF_SHA256))
	c = append(c, vf34Vec16(pub)...)
	var suites []byte
	for _, aead := range []uint16{hpke.AEAD_AES_128_GCM, 0x0002, 0x0003} {
		suites = vf34PutU16(suites, int(hpke.KDF_HKDF_SHA256))
		suites = vf34PutU16(suites, int(aead))
	}
	c = append(c, vf34Vec16(suites)...)
	c = append(c, maxNameLen)
	c = append(c, vf34Vec8([]byte(publicName))...)
	c = vf34PutU16(c, 0)
	out := vf34PutU16(nil, int(extensionEncryptedClientHello))
	return append(out, vf34Vec16(c)...)
}

const (
	vf34SrvDefault = iota
	vf34SrvECH
	vf34SrvClientAuthAny
	vf34SrvClientAuthVerify
	vf34SrvTLS12RSA
	vf34SrvALPNRequestCert
	vf34NumSrv
)

var vf34SrvNames = []string{"default", "ech-keys", "clientauth-any", "clientauth-verify", "tls12-rsa", "tls13-alpn-requestcert-ech"}

func vf34ServerConfig(env *vf34Env, kind int) *Config {
	cfg := vfServerConfig("ecdsa", "example.test", "public.example")
	cfg.SetSessionTicketKeys([][32]byte{env.ticketKey})
	echKeys := []EncryptedClientHelloKey{{Config: env.echConfig, PrivateKey: env.echKey.Bytes(), SendAsRetry: true}}
	switch kind {
	case vf34SrvECH:
		cfg.MinVersion = VersionTLS13
		cfg.EncryptedClientHelloKeys = echKeys
	case vf34SrvClientAuthAny:
		cfg.ClientAuth = RequireAnyClientCert
	case vf34SrvClientAuthVerify:
		cfg.ClientAuth = RequireAndVerifyClientCert
		cfg.ClientCAs = vfGetCA("main").Pool
	case vf34SrvTLS12RSA:
		cfg = vfServerConfig("rsa", "example.test")
		cfg.SetSessionTicketKeys([][32]byte{env.ticketKey})
		cfg.MaxVersion = VersionTLS12
	case vf34SrvALPNRequestCert:
		cfg.MinVersion = VersionTLS13
		cfg.NextProtos = []string{"h2", "http/1.1"}
		cfg.ClientAuth = RequestClientCert
		cfg.EncryptedClientHelloKeys = echKeys
	}
	return cfg
}

// vf34CaptureHello lets a UConn write its first flight into a pipe nobody answers and returns the ClientHello.
func vf34CaptureHello(ccfg *Config, id ClientHelloID) ([]byte, error) {
	cp, sp := vfPipe()
	defer cp.Close()
	defer sp.Close()
	cp.SetDeadline(time.Now().Add(10 * time.Second))
	wrote := make(chan struct{}, 1)
	cp.probe = func(b []byte) any {
		select {
		case wrote <- struct{}{}:
		default:
		}
		return nil
	}
	uc := UClient(cp, ccfg, id)
	done := make(chan error, 1)
	go func() { done <- uc.Handshake() }()
	select {
	case <-wrote:
		cp.SetReadDeadline(time.Now()) // the client is (or will be) waiting for the ServerHello: make that fail
	case err := <-done:
		if msgs := vfClientHellosOnWire(cp.Written()); len(msgs) > 0 {
			return msgs[0], nil
		}
		return nil, fmt.Errorf("no hello written: %v", err)
	case <-time.After(20 * time.Second):
		return nil, errors.New("capture timed out")
	}
	select {
	case <-done:
	case <-time.After(20 * time.Second):
		return nil, errors.New("capture: handshake did not return")
	}
	msgs := vfClientHellosOnWire(cp.Written())
	if len(msgs) == 0 {
		return nil, errors.New("capture: no ClientHello on the wire")
	}
	return msgs[0], nil
}

func vf34GetEnv() *vf34Env {
	vf34EnvOnce.Do(func() {
		env := &vf34Env{}
		copy(env.ticketKey[:], "vf34 fixed session ticket key...")
		k, err := ecdh.X25519().GenerateKey(rand.Reader)
		if err != nil {
			panic(err)
		}
		env.echKey = k
		env.echConfig = vf34MarshalECHConfig(vf34ECHConfigID, k.PublicKey().Bytes(), "public.example", 32)
		env.echConfList = vf34Vec16(env.echConfig)
		env.clientLeaf = vfLeaf(vfLeafSpec{KeyType: "ecdsa", Names: []string{"client.test"}})
		note := func(f string, a ...any) { env.notes = append(env.notes, fmt.Sprintf(f, a...)) }

		all := append([]vfParrot{{"HelloGolang", HelloGolang}}, vfParrots...)
		for _, p := range all {
			ccfg := vfClientConfig("example.test")
			ccfg.OmitEmptyPsk = true
			msg, err := vf34CaptureHello(ccfg, p.ID)
			if err != nil {
				note("plain capture %s: %v", p.Name, err)
				continue
			}
			env.bases = append(env.bases, vf34Base{p.Name, "plain", msg})
		}
		// warm caches: TLS 1.3 PSK and TLS 1.2 ticket
		warm := func(p vfParrot, srvKind int, kind string, want func(h *vfHello) bool) {
			ccfg := vfClientConfig("example.test")
			ccfg.OmitEmptyPsk = true
			ccfg.ClientSessionCache = NewLRUClientSessionCache(8)
			pair := vfNewPair(ccfg, p.ID, vf34ServerConfig(env, srvKind))
			cerr, serr := pair.Handshake()
			if cerr != nil || serr != nil {
				pair.Close()
				note("%s warm-up %s: client %v server %v", kind, p.Name, cerr, serr)
				return
			}
			if err := pair.Echo([]byte("ping"), []byte("pong")); err != nil {
				note("%s warm-up echo %s: %v", kind, p.Name, err)
			}
			pair.Close()
			msg, err := vf34CaptureHello(ccfg, p.ID)
			if err != nil {
				note("%s capture %s: %v", kind, p.Name, err)
				return
			}
			if !want(vfParseClientHello(msg)) {
				note("%s capture %s: hello does not carry the session", kind, p.Name)
				return
			}
			env.bases = append(env.bases, vf34Base{p.Name, kind, msg})
		}
		for _, p := range all {
			if vfIsPSKParrot(p) || p.Name == "HelloGolang" {
				warm(p, vf34SrvDefault, "psk", func(h *vfHello) bool { o := h.PSK(); return o != nil && len(o.Identities) > 0 })
			}
		}
		for _, name := range []string{"HelloGolang", "HelloChrome_83", "HelloFirefox_65", "HelloIOS_13", "HelloChrome_120"} {
			for _, p := range all {
				if p.Name == name {
					warm(p, vf34SrvTLS12RSA, "ticket12", func(h *vfHello) bool { e := h.Ext(35); return e != nil && len(e.Body) > 0 })
				}
			}
		}
		// real ECH outer
		for _, name := range []string{"HelloGolang", "HelloChrome_120", "HelloChrome_131", "HelloChrome_133", "HelloFirefox_120"} {
			for _, p := range all {
				if p.Name != name {
					continue
				}
				ccfg := vfClientConfig("example.test")
				ccfg.OmitEmptyPsk = true
				ccfg.MinVersion = VersionTLS13
				ccfg.EncryptedClientHelloConfigList = env.echConfList
				msg, err := vf34CaptureHello(ccfg, p.ID)
				if err != nil {
					note("ech capture %s: %v", p.Name, err)
					continue
				}
				if o := vfParseClientHello(msg).ECH(); o == nil || o.ConfigID != vf34ECHConfigID {
					note("ech capture %s: outer extension not for our config", p.Name)
					continue
				}
				env.bases = append(env.bases, vf34Base{p.Name, "ech", msg})
			}
		}
		vf34E = env
	})
	return vf34E
}

// ---------------------------------------------------------------------------------------------------------------
// running the server on a byte stream
// ---------------------------------------------------------------------------------------------------------------

type vf34Outcome struct {
	HSErr, RdErr error
	Panic        *vfPanic
	Hang         string
	Alloc        uint64
	ECHAccepted  bool
	Vers         uint16
}

var vf34GoHdr = regexp.MustCompile(`(?m)^goroutine (\d+) \[([^\],]+)(?:, [^\]]*)?\]:$`)

func vf34Dump() string {
	buf := make([]byte, 4<<20)
	return string(buf[:runtime.Stack(buf, true)])
}

// vf34InCall returns id->state+top frame of goroutines whose stack contains marker.
func vf34InCall(dump, marker string) map[string]string {
	out := map[string]string{}
	for _, g := range strings.Split(dump, "\n\n") {
		if !strings.Contains(g, marker) {
			continue
		}
		m := vf34GoHdr.FindStringSubmatch(g)
		if m == nil {
			continue
		}
		lines := strings.Split(g, "\n")
		top := ""
		if len(lines) > 1 {
			top = lines[1]
		}
		out[m[1]] = m[2] + " @ " + top
	}
	return out
}

// vf34Await waits for done; on expiry of the bound it verifies twice (3 s apart) that a goroutine is still inside the
// call marked by marker and returns the description of the hang.
func vf34Await(done <-chan struct{}, bound time.Duration, marker string) string {
	tm := time.NewTimer(bound)
	defer tm.Stop()
	select {
	case <-done:
		return ""
	case <-tm.C:
	}
	d1 := vf34Dump()
	s1 := vf34InCall(d1, marker)
	select {
	case <-done:
		return "" // late but returned: not a hang (slow machine)
	case <-time.After(3 * time.Second):
	}
	d2 := vf34Dump()
	s2 := vf34InCall(d2, marker)
	var still []string
	var stacks []string
	for id, st := range s2 {
		if _, ok := s1[id]; ok {
			still = append(still, "g"+id+" "+st)
		}
	}
	for _, g := range strings.Split(d2, "\n\n") {
		if strings.Contains(g, marker) {
			if len(g) > 3000 {
				g = g[:3000]
			}
			stacks = append(stacks, g)
		}
	}
	if len(still) == 0 {
		return ""
	}
	return fmt.Sprintf("call did not return %v after the connection deadline; still inside in two dumps: %s\n%s",
		vf34HangGrace, strings.Join(still, "; "), strings.Join(stacks, "\n\n"))
}

type vf34HardFail struct{}

func (vf34HardFail) Helper() {}
func (vf34HardFail) Fatalf(format string, args ...any) {
	fmt.Fprintf(os.Stderr, "--- FAIL: "+format+"\n", args...)
	os.Exit(1)
}

func vf34ServerLoop(srv *Conn, o *vf34Outcome) {
	o.Panic = vfCatch(func() {
		o.HSErr = srv.Handshake()
		buf := make([]byte, 512)
		_, o.RdErr = srv.Read(buf)
	})
}

// vf34FeedServer runs tls.Server(cfg) on a pipe whose client end first receives stream, then EOF.
func vf34FeedServer(cfg *Config, stream []byte) *vf34Outcome {
	o := &vf34Outcome{}
	var m0, m1 runtime.MemStats
	runtime.ReadMemStats(&m0)
	cp, sp := vfPipe()
	dl := time.Now().Add(vf34Deadline)
	cp.SetDeadline(dl)
	sp.SetDeadline(dl)
	srv := Server(sp, cfg)
	done := make(chan struct{})
	go func() { // vf34 server goroutine
		defer close(done)
		vf34ServerLoop(srv, o)
	}()
	cp.Inject(stream)
	cp.CloseWrite()
	o.Hang = vf34Await(done, time.Until(dl)+vf34HangGrace, "vf34ServerLoop")
	cp.Close()
	sp.Close()
	if o.Hang == "" {
		runtime.ReadMemStats(&m1)
		o.Alloc = m1.TotalAlloc - m0.TotalAlloc
		o.ECHAccepted = srv.echAccepted
		o.Vers = srv.vers
	}
	return o
}

func vf34ErrClass(err error) string {
	if err == nil {
		return "nil"
	}
	s := err.Error()
	for _, k := range []string{"unexpected message", "EOF", "decode", "illegal parameter", "too many ignored records", "oversized record",
		"first record does not look like a TLS handshake", "unsupported", "no cipher suite", "protocol version", "bad record MAC",
		"exceeds maximum", "unknown certificate", "bad certificate", "encrypted_client_hello", "Encrypted Client Hello", "binder", "timeout",
		"closed", "handshake failure", "internal error", "missing extension", "key share", "curve", "unsupported versions",
		"client offered only unsupported versions", "unexpected handshake message", "received record with version", "no renegotiation", "certificate"} {
		if strings.Contains(s, k) {
			return k
		}
	}
	if len(s) > 40 {
		s = s[:40]
	}
	return s
}

// vf34Verdict applies the oracle to one outcome.
func vf34Verdict(t vfFataler, st *vfStats, o *vf34Outcome, what string, detail func() string) {
	if o.Hang != "" {
		st.Violation(vf34HardFail{}, "HANG (%s): %s\ncase: %s", what, o.Hang, detail())
	}
	if o.Panic != nil {
		st.Violation(t, "server panicked (%s): %v\n%s\ncase: %s", what, o.Panic.Val, o.Panic.Stack, detail())
	}
	if o.Alloc > vf34AllocBound {
		st.Violation(t, "one case allocated %d bytes (> %d) (%s)\ncase: %s", o.Alloc, vf34AllocBound, what, detail())
	}
	st.mu.Lock()
	if cur, _ := st.extra["max_alloc_bytes_per_case"].(uint64); o.Alloc > cur {
		st.extra["max_alloc_bytes_per_case"] = o.Alloc
	}
	st.mu.Unlock()
}

// ---------------------------------------------------------------------------------------------------------------
// A. structure-aware ClientHello mutation
// ---------------------------------------------------------------------------------------------------------------

type vf34CH struct {
	Ver     uint16
	Random  []byte
	SID     []byte
	Suites  []byte
	Comp    []byte
	HasExts bool
	Exts    []vfExt
	Tail    []byte
	// lying length prefixes (deltas added to the honest value)
	LieHS, LieSID, LieSuites, LieComp, LieExts int
	LieExtIdx, LieExt                          int
}

func vf34FromMsg(msg []byte) *vf34CH {
	h := vfParseClientHello(msg)
	c := &vf34CH{Ver: h.Version, Random: append([]byte(nil), h.Random...), SID: append([]byte(nil), h.SessionID...),
		Comp: append([]byte(nil), h.Compression...), HasExts: h.HasExts, LieExtIdx: -1}
	for _, s := range h.Suites {
		c.Suites = vf34PutU16(c.Suites, int(s))
	}
	for _, e := range h.Exts {
		c.Exts = append(c.Exts, vfExt{Type: e.Type, Body: append([]byte(nil), e.Body...)})
	}
	for len(c.Random) < 32 {
		c.Random = append(c.Random, 0)
	}
	return c
}

func (c *vf34CH) clone() *vf34CH {
	d := *c
	d.Random = append([]byte(nil), c.Random...)
	d.SID = append([]byte(nil), c.SID...)
	d.Suites = append([]byte(nil), c.Suites...)
	d.Comp = append([]byte(nil), c.Comp...)
	d.Tail = append([]byte(nil), c.Tail...)
	d.Exts = nil
	for _, e := range c.Exts {
		d.Exts = append(d.Exts, vfExt{e.Type, append([]byte(nil), e.Body...)})
	}
	return &d
}

func vf34Clamp(v, max int) int {
	if v < 0 {
		return 0
	}
	if v > max {
		return max
	}
	return v
}

func (c *vf34CH) extBlock() []byte {
	var b []byte
	for i, e := range c.Exts {
		b = vf34PutU16(b, int(e.Type))
		l := len(e.Body)
		if i == c.LieExtIdx {
			l = vf34Clamp(l+c.LieExt, 0xffff)
		}
		b = vf34PutU16(b, l)
		b = append(b, e.Body...)
	}
	return b
}

// body returns the ClientHello body (no handshake header).
func (c *vf34CH) body() []byte {
	var b []byte
	b = vf34PutU16(b, int(c.Ver))
	b = append(b, c.Random...)
	b = append(b, byte(vf34Clamp(len(c.SID)+c.LieSID, 255)))
	b = append(b, c.SID...)
	b = vf34PutU16(b, vf34Clamp(len(c.Suites)+c.LieSuites, 0xffff))
	b = append(b, c.Suites...)
	b = append(b, byte(vf34Clamp(len(c.Comp)+c.LieComp, 255)))
	b = append(b, c.Comp...)
	if c.HasExts {
		eb := c.extBlock()
		b = vf34PutU16(b, vf34Clamp(len(eb)+c.LieExts, 0xffff))
		b = append(b, eb...)
	}
	return append(b, c.Tail...)
}

func (c *vf34CH) msg() []byte {
	b := c.body()
	out := []byte{1}
	out = vf34PutU24(out, vf34Clamp(len(b)+c.LieHS, 0xffffff))
	return append(out, b...)
}

var vf34ExtTypes = []uint16{0, 1, 5, 10, 11, 13, 16, 17, 18, 21, 23, 27, 28, 34, 35, 41, 42, 43, 44, 45, 47, 49, 50, 51, 57,
	13172, 17513, 17613, 30032, 0xfd00, 0xfe0d, 0xff01, 0x0a0a, 1234}

// vf34GenBytes draws a byte string of at most max bytes, with the boundary lengths 0..3 over-represented.
func vf34GenBytes(rt *rapid.T, label string, max int) []byte {
	n := rapid.OneOf(rapid.IntRange(0, 3), rapid.IntRange(0, max)).Draw(rt, label+"_len")
	if n > max {
		n = max
	}
	return rapid.SliceOfN(rapid.Byte(), n, n).Draw(rt, label)
}

var vf34Deltas = []int{-2, -1, 1, 2, 255, -255, 0x7fff, 0xffff}

// vf34PickExt prefers the extensions with the richest server-side parsers.
func vf34PickExt(rt *rapid.T, c *vf34CH, label string) int {
	if len(c.Exts) == 0 {
		return -1
	}
	if rapid.IntRange(0, 2).Draw(rt, label+"_pref") != 0 {
		var hot []int
		for i, e := range c.Exts {
			switch e.Type {
			case 0xfe0d, 41, 51, 43, 45, 10, 13, 16, 0, 35, 50, 42, 0xff01:
				hot = append(hot, i)
			}
		}
		if len(hot) > 0 {
			return hot[rapid.IntRange(0, len(hot)-1).Draw(rt, label+"_hot")]
		}
	}
	return rapid.IntRange(0, len(c.Exts)-1).Draw(rt, label+"_any")
}

const vf34NumPSKVariants = 7

// vf34PSKStructure rewrites the pre_shared_key extension (variant 0..6); false if the hello has none.
func vf34PSKStructure(c *vf34CH, variant int, bl byte) bool {
	for k := range c.Exts {
		if c.Exts[k].Type != 41 {
			continue
		}
		r := &vfRd{b: c.Exts[k].Body}
		ids := append([]byte(nil), r.vec16()...)
		binders := append([]byte(nil), r.vec16()...)
		switch variant {
		case 0:
			binders = nil
		case 1:
			binders = append(binders, vf34Vec8(bytes.Repeat([]byte{1}, 32))...)
		case 2:
			if len(binders) > 1 {
				binders[0] = bl
			}
		case 3:
			ids = append(ids, ids...)
		case 4:
			if len(ids) > 8 {
				ids[len(ids)/2] ^= 0x40 // corrupt the ticket
			}
		case 5:
			ids = nil
		default:
			// an undecryptable copy of the first identity in front of the real one, binder list unchanged
			ir := &vfRd{b: ids}
			id0 := append([]byte(nil), ir.vec16()...)
			age := append([]byte(nil), ir.take(4)...)
			if !ir.err && len(id0) > 8 {
				id0[len(id0)/2] ^= 0x55
				ids = append(append(vf34Vec16(id0), age...), ids...)
			}
		}
		c.Exts[k].Body = append(vf34Vec16(ids), vf34Vec16(binders)...)
		return true
	}
	return false
}

// vf34MutateCH applies one drawn structural mutation and returns its name.
func vf34MutateCH(rt *rapid.T, c *vf34CH, l string) string {
	op := rapid.IntRange(0, 18).Draw(rt, l+"_op")
	for _, e := range c.Exts {
		if e.Type == 41 && rapid.IntRange(0, 3).Draw(rt, l+"_psk_bias") == 0 {
			op = 13
		}
		if e.Type == 0xfe0d && rapid.IntRange(0, 7).Draw(rt, l+"_ech_bias") == 0 {
			op = 14
		}
	}
	i := vf34PickExt(rt, c, l+"_ext")
	if i < 0 && op <= 9 {
		op = 11
	}
	switch op {
	case 0:
		c.Exts[i].Body = vf34GenBytes(rt, l+"_body", 48)
		return "ext-body-random"
	case 1:
		b := c.Exts[i].Body
		if len(b) == 0 {
			c.Exts[i].Body = []byte{byte(rapid.IntRange(0, 255).Draw(rt, l+"_b"))}
			return "ext-body-one-byte"
		}
		pos := rapid.OneOf(rapid.IntRange(0, 7), rapid.IntRange(0, len(b)-1)).Draw(rt, l+"_pos") % len(b)
		b[pos] = byte(rapid.OneOf(rapid.SampledFrom([]int{0, 1, 0x7f, 0x80, 0xff}), rapid.IntRange(0, 255)).Draw(rt, l+"_val"))
		return "ext-body-set-byte"
	case 2:
		b := c.Exts[i].Body
		c.Exts[i].Body = b[:rapid.IntRange(0, len(b)).Draw(rt, l+"_cut")]
		return "ext-body-truncate"
	case 3:
		c.Exts[i].Body = append(c.Exts[i].Body, vf34GenBytes(rt, l+"_more", 16)...)
		return "ext-body-extend"
	case 4:
		// overwrite a 16-bit inner length field candidate (offsets 0..5) with a boundary value
		b := c.Exts[i].Body
		if len(b) < 2 {
			c.Exts[i].Body = append(b, 0, 0)
			return "ext-body-extend"
		}
		pos := rapid.IntRange(0, 5).Draw(rt, l+"_lpos") % (len(b) - 1)
		rest := len(b) - pos - 2
		v := rapid.SampledFrom([]int{0, 1, rest - 1, rest, rest + 1, rest + 2, 0xffff, 0x8000, rest / 2}).Draw(rt, l+"_lval")
		binary.BigEndian.PutUint16(b[pos:], uint16(vf34Clamp(v, 0xffff)))
		return "ext-inner-len16"
	case 5:
		b := c.Exts[i].Body
		if len(b) < 1 {
			c.Exts[i].Body = []byte{0}
			return "ext-body-one-byte"
		}
		pos := rapid.IntRange(0, 5).Draw(rt, l+"_lpos") % len(b)
		rest := len(b) - pos - 1
		v := rapid.SampledFrom([]int{0, 1, rest - 1, rest, rest + 1, 0xff, rest / 2}).Draw(rt, l+"_lval")
		b[pos] = byte(vf34Clamp(v, 255))
		return "ext-inner-len8"
	case 6:
		j := rapid.IntRange(0, len(c.Exts)).Draw(rt, l+"_at")
		e := vfExt{c.Exts[i].Type, append([]byte(nil), c.Exts[i].Body...)}
		c.Exts = append(c.Exts[:j], append([]vfExt{e}, c.Exts[j:]...)...)
		return "ext-duplicate"
	case 7:
		c.Exts = append(c.Exts[:i], c.Exts[i+1:]...)
		return "ext-delete"
	case 8:
		j := rapid.IntRange(0, len(c.Exts)-1).Draw(rt, l+"_with")
		c.Exts[i], c.Exts[j] = c.Exts[j], c.Exts[i]
		return "ext-swap"
	case 9:
		c.Exts[i].Type = vf34ExtTypes[rapid.IntRange(0, len(vf34ExtTypes)-1).Draw(rt, l+"_type")]
		return "ext-retype"
	case 10:
		e := vfExt{Type: vf34ExtTypes[rapid.IntRange(0, len(vf34ExtTypes)-1).Draw(rt, l+"_type")], Body: vf34GenBytes(rt, l+"_body", 40)}
		j := rapid.IntRange(0, len(c.Exts)).Draw(rt, l+"_at")
		c.Exts = append(c.Exts[:j], append([]vfExt{e}, c.Exts[j:]...)...)
		c.HasExts = true
		return "ext-insert"
	case 11:
		switch rapid.IntRange(0, 5).Draw(rt, l+"_hdr") {
		case 0:
			c.Ver = rapid.SampledFrom([]uint16{0x0300, 0x0301, 0x0302, 0x0303, 0x0304, 0x0200, 0xffff, 0x7f1c}).Draw(rt, l+"_ver")
		case 1:
			c.SID = bytes.Repeat([]byte{7}, rapid.SampledFrom([]int{0, 1, 31, 32, 33, 255}).Draw(rt, l+"_sid"))
		case 2:
			switch rapid.IntRange(0, 3).Draw(rt, l+"_su") {
			case 0:
				c.Suites = nil
			case 1:
				c.Suites = append(c.Suites, 0x13)
			case 2:
				c.Suites = []byte{0x13, 0x01}
			default:
				c.Suites = append([]byte{0x56, 0x00, 0x00, 0xff}, c.Suites...)
			}
		case 3:
			c.Comp = [][]byte{nil, {1, 0}, {1}, bytes.Repeat([]byte{0}, 255)}[rapid.IntRange(0, 3).Draw(rt, l+"_comp")]
		case 4:
			c.HasExts = false
		default:
			c.Tail = vf34GenBytes(rt, l+"_tail", 12)
		}
		return "header-field"
	case 12:
		d := vf34Deltas[rapid.IntRange(0, len(vf34Deltas)-1).Draw(rt, l+"_d")]
		switch rapid.IntRange(0, 5).Draw(rt, l+"_which") {
		case 0:
			c.LieHS = d
		case 1:
			c.LieSID = d
		case 2:
			c.LieSuites = d
		case 3:
			c.LieComp = d
		case 4:
			c.LieExts = d
		default:
			if i >= 0 {
				c.LieExtIdx, c.LieExt = i, d
			}
		}
		return "length-lie"
	case 13:
		// PSK-specific: binder / identity list games
		v := rapid.IntRange(0, vf34NumPSKVariants-1).Draw(rt, l+"_psk")
		bl := byte(rapid.SampledFrom([]int{0, 1, 31, 33, 255}).Draw(rt, l+"_bl"))
		if vf34PSKStructure(c, v, bl) {
			return "psk-structure"
		}
		return "psk-structure(no-psk)"
	case 14:
		// ECH outer fields
		for k := range c.Exts {
			if c.Exts[k].Type != 0xfe0d || len(c.Exts[k].Body) < 8 {
				continue
			}
			b := c.Exts[k].Body
			switch rapid.IntRange(0, 5).Draw(rt, l+"_ech") {
			case 0:
				b[0] = byte(rapid.IntRange(0, 3).Draw(rt, l+"_echtype"))
			case 1:
				b[5] = vf34ECHConfigID
			case 2:
				binary.BigEndian.PutUint16(b[3:], uint16(rapid.SampledFrom([]int{0, 1, 2, 3, 4, 0xffff}).Draw(rt, l+"_aead")))
			case 3:
				binary.BigEndian.PutUint16(b[1:], uint16(rapid.SampledFrom([]int{0, 1, 2, 3, 0xffff}).Draw(rt, l+"_kdf")))
			case 4:
				binary.BigEndian.PutUint16(b[6:], uint16(rapid.SampledFrom([]int{0, 1, 31, 32, 33, 65, 0xffff}).Draw(rt, l+"_enclen")))
			default:
				c.Exts[k].Body = b[:rapid.IntRange(0, len(b)).Draw(rt, l+"_cut")]
			}
			return "ech-outer-field"
		}
		return "ech-outer-field(no-ech)"
	case 15:
		// supported_versions / key_share consistency games
		for k := range c.Exts {
			if c.Exts[k].Type == 43 {
				vs := rapid.SliceOfN(rapid.SampledFrom([]int{0x0304, 0x0303, 0x0302, 0x0301, 0x0300, 0x0a0a, 0x7f1c}), 0, 4).Draw(rt, l+"_vers")
				var b []byte
				for _, v := range vs {
					b = vf34PutU16(b, v)
				}
				c.Exts[k].Body = vf34Vec8(b)
				return "supported-versions-set"
			}
		}
		return "supported-versions-set(none)"
	case 17, 18:
		// key_share in place: the groups the hello really shares (so that the server selects one of them), with the
		// key_exchange of one or more entries cut or grown to lengths around the sizes the server slices at
		for k := range c.Exts {
			if c.Exts[k].Type != 51 || len(c.Exts[k].Body) < 2 {
				continue
			}
			type ks struct {
				g    int
				data []byte
			}
			var shares []ks
			for p := c.Exts[k].Body[2:]; len(p) >= 4; {
				g, n := int(p[0])<<8|int(p[1]), int(p[2])<<8|int(p[3])
				if len(p) < 4+n {
					break
				}
				shares = append(shares, ks{g, append([]byte(nil), p[4:4+n]...)})
				p = p[4+n:]
			}
			if len(shares) == 0 {
				return "key-share-resize(no-shares)"
			}
			changed := false
			for j := range shares {
				if vfIsGREASE(uint16(shares[j].g)) || (changed && rapid.Bool().Draw(rt, fmt.Sprintf("%s_ks%d_keep", l, j))) {
					continue
				}
				n0 := len(shares[j].data)
				sz := rapid.SampledFrom([]int{0, 1, 2, 31, 32, 33, 64, 65, 66, 97, n0 - 33, n0 - 32, n0 - 1, n0 + 1, 1183, 1184, 1185, 1215, 1217, 2000}).Draw(rt, fmt.Sprintf("%s_ks%d_sz", l, j))
				if sz < 0 {
					sz = 0
				}
				d := shares[j].data
				for len(d) < sz {
					d = append(d, byte(len(d)*7+1))
				}
				shares[j].data = d[:sz]
				changed = true
			}
			var b []byte
			for _, x := range shares {
				b = vf34PutU16(b, x.g)
				b = append(b, vf34Vec16(x.data)...)
			}
			c.Exts[k].Body = vf34Vec16(b)
			return "key-share-resize"
		}
		return "key-share-resize(none)"
	default:
		for k := range c.Exts {
			if c.Exts[k].Type == 51 {
				var b []byte
				n := rapid.IntRange(0, 3).Draw(rt, l+"_nks")
				for j := 0; j < n; j++ {
					g := rapid.SampledFrom([]int{29, 23, 24, 25, 0x11ec, 0x6399, 0x0a0a, 30}).Draw(rt, l+"_g")
					sz := rapid.SampledFrom([]int{0, 1, 31, 32, 33, 65, 97, 1216, 1217}).Draw(rt, l+"_sz")
					b = vf34PutU16(b, g)
					b = append(b, vf34Vec16(bytes.Repeat([]byte{byte(4 + j)}, sz))...)
				}
				c.Exts[k].Body = vf34Vec16(b)
				return "key-share-set"
			}
		}
		return "key-share-set(none)"
	}
}

func vf34MutClass(m string) string {
	pre := ""
	if strings.HasPrefix(m, "inner:") {
		pre, m = "inner:", m[len("inner:"):]
	}
	if i := strings.IndexAny(m, ":("); i > 0 {
		m = m[:i]
	}
	return pre + m
}

// ---- ECH sealing towards the server's key, with a (possibly mutated) encoded inner hello ----

type vf34InnerOpts struct {
	Compress func(idx int, t uint16) bool // which outer extensions go into ech_outer_extensions
	OM       int                          // mutation of the outer_extensions list (0 = none)
	At       int                          // position of ech_outer_extensions among the inner extensions (clamped)
	Marker   int                          // 0 none, 1 "outer", 2 too long, else correct inner marker
	SID      bool                         // non-empty session id (illegal in the encoded inner hello)
}

// vf34BuildInner builds the inner hello (not yet serialised) from the outer hello's own fields: TLS 1.3 only, inner
// marker, a subset of extensions compressed into ech_outer_extensions.
func vf34BuildInner(outer *vf34CH, o vf34InnerOpts) (in *vf34CH, muts []string) {
	in = outer.clone()
	in.SID = nil
	in.LieHS, in.LieSID, in.LieSuites, in.LieComp, in.LieExts, in.LieExtIdx = 0, 0, 0, 0, 0, -1
	in.Tail = nil
	var exts []vfExt
	var compress []uint16
	for idx, e := range in.Exts {
		switch e.Type {
		case 0xfe0d, 41, 21:
			continue
		case 43:
			exts = append(exts, vfExt{43, []byte{2, 3, 4}})
			continue
		case 0:
			exts = append(exts, vfExt{0, append(vf34PutU16(nil, 3+len("example.test")), append([]byte{0, 0, byte(len("example.test"))}, "example.test"...)...)})
			continue
		}
		if !vfIsGREASE(e.Type) && o.Compress != nil && o.Compress(idx, e.Type) {
			compress = append(compress, e.Type)
			continue
		}
		exts = append(exts, e)
	}
	has43 := false
	for _, e := range exts {
		has43 = has43 || e.Type == 43
	}
	if !has43 {
		exts = append(exts, vfExt{43, []byte{2, 3, 4}}) // TLS 1.2-only parrot: the inner still has to offer 1.3 (leads to HRR)
	}
	om := o.OM
	switch om {
	case 1:
		compress = append(compress, 0xfe0d)
		muts = append(muts, "outer-exts-references-ech")
	case 2:
		compress = append(compress, 0x4242)
		muts = append(muts, "outer-exts-references-missing")
	case 3:
		for i, j := 0, len(compress)-1; i < j; i, j = i+1, j-1 {
			compress[i], compress[j] = compress[j], compress[i]
		}
		if len(compress) > 1 {
			muts = append(muts, "outer-exts-reversed")
		}
	case 4:
		if len(compress) > 0 {
			compress = append(compress, compress[0])
			muts = append(muts, "outer-exts-duplicate")
		}
	case 5:
		if len(compress) > 0 {
			compress = append(compress, compress[len(compress)-1])
			muts = append(muts, "outer-exts-duplicate-last")
		}
	}
	if len(compress) > 0 || om == 6 {
		var l []byte
		for _, t := range compress {
			l = vf34PutU16(l, int(t))
		}
		body := vf34Vec8(l)
		switch om {
		case 6:
			if len(compress) == 0 {
				muts = append(muts, "outer-exts-empty-list")
			}
		case 7:
			body = append(body, 0)
			muts = append(muts, "outer-exts-trailing")
		case 8:
			body[0]++
			muts = append(muts, "outer-exts-len-lie")
		case 9:
			body = append(body[:1], body[2:]...)
			body[0]--
			muts = append(muts, "outer-exts-odd")
		}
		at := vf34Clamp(o.At, len(exts))
		exts = append(exts[:at], append([]vfExt{{0xfd00, body}}, exts[at:]...)...)
		muts = append(muts, "outer-exts-used")
	}
	marker := vfExt{0xfe0d, []byte{1}}
	switch o.Marker {
	case 0:
		muts = append(muts, "inner-no-marker")
	case 1:
		marker.Body = []byte{0}
		exts = append(exts, marker)
		muts = append(muts, "inner-marker-says-outer")
	case 2:
		marker.Body = []byte{1, 0}
		exts = append(exts, marker)
		muts = append(muts, "inner-marker-long")
	default:
		exts = append(exts, marker)
	}
	in.Exts = exts
	in.HasExts = true
	if o.SID {
		in.SID = []byte{1, 2, 3}
		muts = append(muts, "inner-session-id")
	}
	return in, muts
}

// vf34EncodedInner draws the options, builds the inner hello, applies drawn generic mutations and padding.
func vf34EncodedInner(rt *rapid.T, outer *vf34CH) (enc []byte, muts []string) {
	sel := map[int]bool{}
	for idx := range outer.Exts {
		sel[idx] = rapid.IntRange(0, 2).Draw(rt, fmt.Sprintf("compress_%d", idx)) == 0
	}
	o := vf34InnerOpts{
		Compress: func(idx int, t uint16) bool { return sel[idx] },
		OM:       rapid.SampledFrom([]int{0, 0, 0, 0, 0, 0, 6, 1, 2, 3, 4, 5, 7, 8, 9}).Draw(rt, "outer_exts_mut"),
		At:       rapid.IntRange(0, 30).Draw(rt, "outer_exts_at"),
		Marker:   rapid.IntRange(0, 11).Draw(rt, "inner_marker"),
		SID:      rapid.IntRange(0, 7).Draw(rt, "inner_sid") == 0,
	}
	in, muts := vf34BuildInner(outer, o)
	nm := rapid.IntRange(0, 2).Draw(rt, "inner_generic_muts")
	if rapid.IntRange(0, 1).Draw(rt, "inner_clean") == 0 {
		nm = 0
	}
	for k := 0; k < nm; k++ {
		muts = append(muts, "inner:"+vf34MutateCH(rt, in, fmt.Sprintf("im%d", k)))
	}
	enc = in.body()
	pad := rapid.IntRange(0, 40).Draw(rt, "inner_pad")
	padding := make([]byte, pad)
	if pad > 0 && rapid.IntRange(0, 7).Draw(rt, "inner_pad_dirty") == 0 {
		padding[pad-1] = 1
		muts = append(muts, "inner-padding-nonzero")
	}
	return append(enc, padding...), muts
}

// vf34SealECH replaces (or adds) the outer's ECH extension with one that really decrypts at the server.
func vf34SealECH(env *vf34Env, outer *vf34CH, encodedInner []byte, aead uint16) ([]byte, error) {
	// processECHClientHello uses info = "tls ech\0" || echKey.Config, where Config is the full marshalled ECHConfig
	info := append([]byte("tls ech\x00"), env.echConfig...)
	encap, sender, err := hpke.SetupSender(hpke.DHKEM_X25519_HKDF_SHA256, hpke.KDF_HKDF_SHA256, aead, env.echKey.PublicKey(), info)
	if err != nil {
		return nil, err
	}
	mk := func(payload []byte) []byte {
		b := []byte{0}
		b = vf34PutU16(b, int(hpke.KDF_HKDF_SHA256))
		b = vf34PutU16(b, int(aead))
		b = append(b, vf34ECHConfigID)
		b = append(b, vf34Vec16(encap)...)
		return append(b, vf34Vec16(payload)...)
	}
	idx := -1
	for i, e := range outer.Exts {
		if e.Type == 0xfe0d {
			idx = i
		}
	}
	if idx < 0 {
		// before a trailing pre_shared_key, else last
		idx = len(outer.Exts)
		if idx > 0 && outer.Exts[idx-1].Type == 41 {
			idx--
		}
		outer.Exts = append(outer.Exts[:idx], append([]vfExt{{0xfe0d, nil}}, outer.Exts[idx:]...)...)
		outer.HasExts = true
	}
	outer.Exts[idx].Body = mk(make([]byte, len(encodedInner)+16))
	aad := outer.msg()[4:]
	ct, err := sender.Seal(aad, encodedInner)
	if err != nil {
		return nil, err
	}
	outer.Exts[idx].Body = mk(ct)
	return outer.msg(), nil
}

// ---- record framing ----

func vf34Record(typ byte, ver uint16, body []byte) []byte {
	b := []byte{typ, byte(ver >> 8), byte(ver)}
	b = vf34PutU16(b, len(body))
	return append(b, body...)
}

func vf34Frame(rt *rapid.T, l string, typ byte, payload []byte) []byte {
	ver := rapid.SampledFrom([]uint16{0x0301, 0x0301, 0x0303, 0x0303, 0x0304, 0x0300, 0x0200, 0xffff}).Draw(rt, l+"_recver")
	mode := rapid.IntRange(0, 5).Draw(rt, l+"_frag")
	var out []byte
	switch {
	case mode <= 2 || len(payload) == 0:
		for len(payload) > 16384 {
			out = append(out, vf34Record(typ, ver, payload[:16384])...)
			payload = payload[16384:]
		}
		out = append(out, vf34Record(typ, ver, payload)...)
	case mode == 3:
		// tiny first fragments (splits the handshake header), then the rest
		n := rapid.IntRange(1, 6).Draw(rt, l+"_tiny")
		for k := 0; k < n && len(payload) > 1; k++ {
			out = append(out, vf34Record(typ, ver, payload[:1])...)
			payload = payload[1:]
		}
		out = append(out, vf34Record(typ, ver, payload)...)
	default:
		cuts := rapid.SliceOfN(rapid.IntRange(0, 600), 1, 5).Draw(rt, l+"_cuts")
		for _, c := range cuts {
			if c > len(payload) {
				c = len(payload)
			}
			out = append(out, vf34Record(typ, ver, payload[:c])...) // may be an empty record
			payload = payload[c:]
		}
		for len(payload) > 0 {
			c := len(payload)
			if c > 16384 {
				c = 16384
			}
			out = append(out, vf34Record(typ, ver, payload[:c])...)
			payload = payload[c:]
		}
	}
	return out
}

// ---- uTLS-specific handshake messages ----

func vf34GenUtlsMsg(rt *rapid.T, l string) (raw []byte, desc string) {
	typ := rapid.SampledFrom([]int{8, 8, 8, 8, 25, 25, 25, 25, 4, 24, 5, 11, 13, 13, 13, 15, 16, 12, 14, 22, 20, 2, 0, 1, 254, 67}).Draw(rt, l+"_type")
	var body []byte
	kind := ""
	switch typ {
	case 8:
		n := rapid.IntRange(0, 3).Draw(rt, l+"_next")
		var exts []byte
		for k := 0; k < n; k++ {
			et := rapid.SampledFrom([]int{17513, 17613, 17513, 17613, 1234, 0, 16, 0xffff}).Draw(rt, fmt.Sprintf("%s_et%d", l, k))
			eb := vf34GenBytes(rt, fmt.Sprintf("%s_eb%d", l, k), 24)
			exts = vf34PutU16(exts, et)
			exts = append(exts, vf34Vec16(eb)...)
		}
		body = vf34Vec16(exts)
		kind = fmt.Sprintf("EE(%d exts)", n)
		switch rapid.IntRange(0, 7).Draw(rt, l+"_eemut") {
		case 0:
			body = append(body, 0)
			kind += "+trailing"
		case 1:
			if len(body) >= 2 {
				body[1]++
				kind += "+len-lie"
			}
		case 2:
			if len(body) > 2 {
				body = body[:len(body)-1]
				kind += "+truncated"
			}
		case 3:
			body = nil
			kind = "EE(empty body)"
		}
	case 25:
		alg := rapid.SampledFrom([]int{1, 2, 3, 0, 0xffff}).Draw(rt, l+"_alg")
		ulen := rapid.SampledFrom([]int{0, 1, 100, 65535, 65536, 1<<24 - 1}).Draw(rt, l+"_ulen")
		var comp []byte
		switch rapid.IntRange(0, 2).Draw(rt, l+"_comp") {
		case 0:
			comp = vf34GenBytes(rt, l+"_cbytes", 64)
		case 1:
			var zb bytes.Buffer
			zw := zlib.NewWriter(&zb)
			zw.Write(bytes.Repeat([]byte{0}, rapid.IntRange(0, 5000).Draw(rt, l+"_zlen")))
			zw.Close()
			comp = zb.Bytes()
		}
		body = vf34PutU16(nil, alg)
		body = vf34PutU24(body, ulen)
		body = vf34PutU24(body, len(comp))
		body = append(body, comp...)
		kind = fmt.Sprintf("CompressedCertificate(alg=%d,ulen=%d,%d bytes)", alg, ulen, len(comp))
		switch rapid.IntRange(0, 7).Draw(rt, l+"_ccmut") {
		case 0:
			body[7]++
			kind += "+len-lie"
		case 1:
			body = body[:rapid.IntRange(0, len(body)).Draw(rt, l+"_cccut")]
			kind += "+truncated"
		case 2:
			body = append(body, 9)
			kind += "+trailing"
		}
	default:
		if rapid.Bool().Draw(rt, l+"_structured") {
			// a body made of length-prefixed fields (the shape of every handshake message) whose declared lengths are honest
			// or lie a little: half, double, one or two off - the inputs on which a parser's bounds checks are decided
			nf := rapid.IntRange(1, 4).Draw(rt, l+"_nfields")
			for k := 0; k < nf; k++ {
				fl := fmt.Sprintf("%s_f%d", l, k)
				n := rapid.IntRange(0, 12).Draw(rt, fl+"_n")
				content := bytes.Repeat([]byte{byte(4 + k)}, n)
				decl := n
				switch rapid.IntRange(0, 7).Draw(rt, fl+"_lie") {
				case 0:
					decl = n + 1
				case 1:
					decl = n + 2
				case 2:
					decl = 2 * n
				case 3:
					decl = 2*n - 1
				case 4:
					if n > 0 {
						decl = n - 1
					}
				}
				switch rapid.IntRange(0, 3).Draw(rt, fl+"_w") {
				case 0:
					body = append(body, byte(vf34Clamp(decl, 255)))
				case 1, 2:
					body = vf34PutU16(body, vf34Clamp(decl, 0xffff))
				default:
					body = vf34PutU24(body, decl)
				}
				body = append(body, content...)
			}
			kind = fmt.Sprintf("type%d(%d length-prefixed fields, %d bytes)", typ, nf, len(body))
		} else {
			body = vf34GenBytes(rt, l+"_obody", 48)
			kind = fmt.Sprintf("type%d(%d bytes)", typ, len(body))
		}
	}
	hl := len(body)
	switch rapid.IntRange(0, 11).Draw(rt, l+"_hdrlen") {
	case 0:
		hl++
		kind += "+hdr+1"
	case 1:
		if hl > 0 {
			hl--
			kind += "+hdr-1"
		}
	case 2:
		hl = 65536
		kind += "+hdr=65536"
	case 3:
		hl = 65537
		kind += "+hdr=65537"
	case 4:
		hl = 0xffffff
		kind += "+hdr=max"
	}
	raw = vf34PutU24([]byte{byte(typ)}, hl)
	return append(raw, body...), fmt.Sprintf("msg%d:%s", typ, kind)
}

func vf34CanonicalMsgs() map[string][]byte {
	ee := vf34Vec16(append(vf34PutU16(nil, 17513), vf34Vec16([]byte("alps-settings"))...))
	cc := vf34PutU16(nil, 2)
	cc = vf34PutU24(cc, 1000)
	cc = append(cc, 0, 0, 4, 1, 2, 3, 4)
	hdr := func(t byte, b []byte) []byte { return append(vf34PutU24([]byte{t}, len(b)), b...) }
	return map[string][]byte{"valid-client-EE(8)": hdr(8, ee), "empty-EE(8)": hdr(8, []byte{0, 0}), "CompressedCertificate(25)": hdr(25, cc)}
}

// ---------------------------------------------------------------------------------------------------------------
// tests
// ---------------------------------------------------------------------------------------------------------------

func vf34Report(st *vfStats, env *vf34Env) {
	kinds := map[string]int{}
	for _, b := range env.bases {
		kinds[b.Kind]++
	}
	st.Extra("bases", kinds)
	st.Extra("env_notes", env.notes)
}

func TestVerifC34MutatedHello(t *testing.T) {
	env := vf34GetEnv()
	st := vfNewStats(t, "C34")
	vf34Report(st, env)
	if len(env.bases) < 40 {
		t.Fatalf("harness: only %d base hellos could be captured: %v", len(env.bases), env.notes)
	}
	canon := vf34CanonicalMsgs()
	rapid.Check(t, func(rt *rapid.T) {
		b := env.bases[rapid.IntRange(0, len(env.bases)-1).Draw(rt, "base")]
		if rapid.IntRange(0, 3).Draw(rt, "prefer_special") == 0 {
			// psk / ticket / ech bases are few: give them a quarter of the cases
			var sp []vf34Base
			for _, x := range env.bases {
				if x.Kind != "plain" {
					sp = append(sp, x)
				}
			}
			if len(sp) > 0 {
				b = sp[rapid.IntRange(0, len(sp)-1).Draw(rt, "special_base")]
			}
		}
		sk := rapid.IntRange(0, vf34NumSrv-1).Draw(rt, "server")
		c := vf34FromMsg(b.Msg)
		var muts []string
		seal := (sk == vf34SrvECH || sk == vf34SrvALPNRequestCert) && rapid.IntRange(0, 2).Draw(rt, "seal_ech") != 0
		nm := rapid.IntRange(0, 3).Draw(rt, "n_muts")
		if seal && nm > 0 {
			nm = rapid.IntRange(0, 1).Draw(rt, "n_muts_sealed") // keep most outer hellos parseable so that the inner is reached
		}
		for k := 0; k < nm; k++ {
			muts = append(muts, vf34MutateCH(rt, c, fmt.Sprintf("m%d", k)))
		}
		msg := c.msg()
		sealed := false
		if seal {
			inner, imuts := vf34EncodedInner(rt, c)
			aead := rapid.SampledFrom([]uint16{1, 1, 1, 2, 3}).Draw(rt, "ech_aead")
			if m, err := vf34SealECH(env, c, inner, aead); err == nil {
				msg, sealed = m, true
				muts = append(muts, "ech-sealed")
				muts = append(muts, imuts...)
			}
		}
		// byte level
		switch rapid.IntRange(0, 9).Draw(rt, "bytelevel") {
		case 0:
			if len(msg) > 4 {
				pos := rapid.IntRange(4, len(msg)-1).Draw(rt, "flip_pos")
				msg[pos] ^= byte(1 << rapid.IntRange(0, 7).Draw(rt, "flip_bit"))
				muts = append(muts, "byte-flip")
			}
		case 1:
			msg = msg[:rapid.IntRange(0, len(msg)).Draw(rt, "trunc_at")]
			muts = append(muts, "truncate-message")
		}
		// framing
		var stream []byte
		switch rapid.IntRange(0, 7).Draw(rt, "prefix") {
		case 0:
			stream = append(stream, vf34Record(22, 0x0301, nil)...)
			muts = append(muts, "prefix-empty-handshake-record")
		case 1:
			stream = append(stream, vf34Record(20, 0x0303, []byte{1})...)
			muts = append(muts, "prefix-ccs")
		case 2:
			stream = append(stream, vf34Record(21, 0x0303, []byte{1, 0})...)
			muts = append(muts, "prefix-warning-alert")
		}
		stream = append(stream, vf34Frame(rt, "ch", 22, msg)...)
		switch rapid.IntRange(0, 9).Draw(rt, "suffix") {
		case 0:
			stream = append(stream, vf34Frame(rt, "ch2", 22, msg)...)
			muts = append(muts, "suffix-second-hello")
		case 1:
			raw, d := vf34GenUtlsMsg(rt, "sfx")
			stream = append(stream, vf34Frame(rt, "sfxf", 22, raw)...)
			muts = append(muts, "suffix-"+d)
		case 2:
			n := rapid.IntRange(1, 40).Draw(rt, "flood_n")
			typ := rapid.SampledFrom([]byte{20, 21, 22, 23}).Draw(rt, "flood_type")
			body := [][]byte{nil, {1}, {1, 0}}[rapid.IntRange(0, 2).Draw(rt, "flood_body")]
			for k := 0; k < n; k++ {
				stream = append(stream, vf34Record(typ, 0x0303, body)...)
			}
			muts = append(muts, fmt.Sprintf("suffix-flood(type %d)", typ))
		case 3:
			stream = append(stream, vf34Record(20, 0x0303, []byte{1})...)
			stream = append(stream, vf34Record(23, 0x0303, vf34GenBytes(rt, "sfx_app", 80))...)
			muts = append(muts, "suffix-ccs+appdata")
		case 4:
			stream = append(stream, vf34Frame(rt, "sfxc", 22, canon["valid-client-EE(8)"])...)
			muts = append(muts, "suffix-valid-EE")
		case 5:
			stream = append(stream, vf34Frame(rt, "sfxd", 22, canon["CompressedCertificate(25)"])...)
			muts = append(muts, "suffix-valid-CompressedCertificate")
		}
		st.Eval()
		o := vf34FeedServer(vf34ServerConfig(env, sk), stream)
		for _, m := range muts {
			st.Class("mut=" + vf34MutClass(m))
		}
		st.Class("base=" + b.Kind)
		st.Class("server=" + vf34SrvNames[sk])
		st.Class("hs-err=" + vf34ErrClass(o.HSErr))
		if o.ECHAccepted {
			st.Class("ech-accepted-by-server")
		}
		if sealed && !o.ECHAccepted {
			st.Class("ech-sealed-but-rejected")
		}
		if o.Vers != 0 {
			st.Class(fmt.Sprintf("server-got-past-hello(vers=%#04x)", o.Vers))
		}
		if len(muts) > 0 {
			st.NonTrivial(vfHashHex(stream))
		}
		st.Sample(map[string]any{"base": b.Name + "/" + b.Kind, "server": vf34SrvNames[sk], "mutations": muts, "stream_len": len(stream), "hs_err": fmt.Sprint(o.HSErr)})
		vf34Verdict(rt, st, o, "mutated first flight", func() string {
			return fmt.Sprintf("base=%s/%s server=%s muts=%v stream=%x", b.Name, b.Kind, vf34SrvNames[sk], muts, stream)
		})
	})
}

func TestVerifC34RawStreams(t *testing.T) {
	env := vf34GetEnv()
	st := vfNewStats(t, "C34")
	rapid.Check(t, func(rt *rapid.T) {
		sk := rapid.IntRange(0, vf34NumSrv-1).Draw(rt, "server")
		n := rapid.IntRange(0, 8).Draw(rt, "n_records")
		var stream []byte
		var desc []string
		for k := 0; k < n; k++ {
			l := fmt.Sprintf("r%d", k)
			typ := rapid.SampledFrom([]byte{22, 22, 22, 22, 20, 21, 23, 24, 0, 255, 0x80}).Draw(rt, l+"_type")
			ver := rapid.SampledFrom([]uint16{0x0301, 0x0303, 0x0304, 0x0300, 0x0002, 0xffff}).Draw(rt, l+"_ver")
			var body []byte
			switch rapid.IntRange(0, 4).Draw(rt, l+"_kind") {
			case 0:
				body = vf34GenBytes(rt, l+"_body", 64)
			case 1:
				body = bytes.Repeat([]byte{byte(k)}, rapid.SampledFrom([]int{0, 1, 4, 5, 16384, 16385, 18432, 18433, 65535}).Draw(rt, l+"_size"))
			default:
				m := rapid.IntRange(1, 3).Draw(rt, l+"_nmsgs")
				for j := 0; j < m; j++ {
					raw, d := vf34GenUtlsMsg(rt, fmt.Sprintf("%s_m%d", l, j))
					body = append(body, raw...)
					desc = append(desc, d)
				}
				if rapid.IntRange(0, 4).Draw(rt, l+"_hello_first") == 0 {
					b := env.bases[rapid.IntRange(0, len(env.bases)-1).Draw(rt, l+"_base")]
					body = append(append([]byte(nil), b.Msg...), body...)
					desc = append(desc, "hello:"+b.Name)
				}
				if len(body) > 16384 {
					body = body[:16384]
				}
			}
			rec := vf34Record(typ, ver, body)
			switch rapid.IntRange(0, 9).Draw(rt, l+"_reclie") {
			case 0:
				binary.BigEndian.PutUint16(rec[3:], uint16(vf34Clamp(len(body)+rapid.SampledFrom([]int{1, 100, 20000}).Draw(rt, l+"_d"), 0xffff)))
			case 1:
				if len(body) > 0 {
					binary.BigEndian.PutUint16(rec[3:], uint16(len(body)-1))
				}
			}
			stream = append(stream, rec...)
			desc = append(desc, fmt.Sprintf("rec(type=%d,ver=%#04x,len=%d)", typ, ver, len(body)))
		}
		if rapid.IntRange(0, 5).Draw(rt, "trailing_garbage") == 0 {
			stream = append(stream, vf34GenBytes(rt, "garbage", 20)...)
		}
		st.Eval()
		o := vf34FeedServer(vf34ServerConfig(env, sk), stream)
		st.Class("raw:server=" + vf34SrvNames[sk])
		st.Class("raw:hs-err=" + vf34ErrClass(o.HSErr))
		if o.Vers != 0 {
			st.Class("raw:server-got-past-hello")
		}
		if n > 0 {
			st.NonTrivial(vfHashHex(stream))
		}
		st.Sample(map[string]any{"server": vf34SrvNames[sk], "records": desc, "stream_len": len(stream), "hs_err": fmt.Sprint(o.HSErr), "read_err": fmt.Sprint(o.RdErr)})
		vf34Verdict(rt, st, o, "raw record stream", func() string {
			return fmt.Sprintf("server=%s %v stream=%x", vf34SrvNames[sk], desc, stream)
		})
	})
}

// Directed (non-random) sweep over the structural classes that need several things to line up: every PSK rewrite on
// every PSK-carrying base, every ech_outer_extensions rewrite / marker variant sealed towards the server's ECH key.
func TestVerifC34DirectedStructures(t *testing.T) {
	env := vf34GetEnv()
	st := vfNewStats(t, "C34")
	one := func(name string, sk int, msg []byte) *vf34Outcome {
		st.Eval()
		stream := vf34Record(22, 0x0301, msg)
		if len(msg) > 16384 {
			stream = append(vf34Record(22, 0x0301, msg[:16384]), vf34Record(22, 0x0301, msg[16384:])...)
		}
		o := vf34FeedServer(vf34ServerConfig(env, sk), stream)
		st.NonTrivial("directed|" + name + "|" + vf34SrvNames[sk])
		st.Sample(map[string]any{"directed": name, "server": vf34SrvNames[sk], "stream_len": len(stream), "hs_err": fmt.Sprint(o.HSErr), "ech_accepted": o.ECHAccepted})
		vf34Verdict(t, st, o, "directed "+name, func() string { return fmt.Sprintf("server=%s stream=%x", vf34SrvNames[sk], stream) })
		return o
	}
	for _, b := range env.bases {
		if b.Kind == "psk" {
			for v := 0; v < vf34NumPSKVariants; v++ {
				for _, sk := range []int{vf34SrvDefault, vf34SrvClientAuthAny, vf34SrvECH} {
					c := vf34FromMsg(b.Msg)
					vf34PSKStructure(c, v, 31)
					one(fmt.Sprintf("psk-variant-%d/%s", v, b.Name), sk, c.msg())
				}
			}
			o := one("psk-unmodified/"+b.Name, vf34SrvDefault, b.Msg)
			if o.HSErr != nil && !strings.Contains(o.HSErr.Error(), "EOF") {
				st.Class("directed:psk-base-not-accepted:" + vf34ErrClass(o.HSErr))
			} else {
				st.Class("directed:psk-base-accepted-until-EOF")
			}
		}
	}
	accepted := 0
	for bi, b := range env.bases {
		if b.Kind == "ticket12" || (b.Kind == "plain" && bi%6 != 0) {
			continue
		}
		for om := 0; om <= 9; om++ {
			for marker := 0; marker <= 3; marker++ {
				if om != 0 && marker != 3 && (om+marker)%3 != 0 {
					continue
				}
				outer := vf34FromMsg(b.Msg)
				in, _ := vf34BuildInner(outer, vf34InnerOpts{
					Compress: func(idx int, t uint16) bool { return t == 10 || t == 13 || t == 51 || t == 16 || t == 45 },
					OM:       om, At: om % 4, Marker: marker})
				msg, err := vf34SealECH(env, outer, in.body(), uint16(1+om%3))
				if err != nil {
					t.Fatalf("harness: cannot seal: %v", err)
				}
				o := one(fmt.Sprintf("ech-inner-om%d-marker%d/%s/%s", om, marker, b.Name, b.Kind), []int{vf34SrvECH, vf34SrvALPNRequestCert}[(om+marker)%2], msg)
				if o.ECHAccepted {
					accepted++
				}
				if om == 0 && marker == 3 && !o.ECHAccepted {
					st.Class("directed:clean-ech-not-accepted")
					st.Extra("clean_ech_not_accepted_example", fmt.Sprintf("%s/%s: %v", b.Name, b.Kind, o.HSErr))
				}
			}
		}
	}
	st.Extra("directed_ech_accepted", accepted)
	if accepted == 0 {
		t.Fatalf("harness: no directed ECH hello was accepted by the server: the sealing generator is broken")
	}
}

// ---------------------------------------------------------------------------------------------------------------
// B. injection into a real client flight
// ---------------------------------------------------------------------------------------------------------------

const (
	vf34PtNone        = "none"
	vf34PtBeforeHello = "before-hello"
	vf34PtAfterHello  = "after-hello"
	vf34PtFlight2     = "flight2-start(VerifyConnection)"
	vf34PtCertVerify  = "between-Certificate-and-CertificateVerify(Signer)"
	vf34PtKeyLog12    = "tls12-after-ClientKeyExchange(KeyLog)"
	vf34PtPost        = "post-handshake"
)

var vf34Points = []string{vf34PtNone, vf34PtBeforeHello, vf34PtAfterHello, vf34PtFlight2, vf34PtFlight2, vf34PtCertVerify, vf34PtCertVerify, vf34PtKeyLog12, vf34PtPost, vf34PtPost}

type vf34Signer struct {
	inner crypto.Signer
	hook  func()
}

func (s *vf34Signer) Public() crypto.PublicKey { return s.inner.Public() }
func (s *vf34Signer) Sign(r io.Reader, digest []byte, opts crypto.SignerOpts) ([]byte, error) {
	s.hook()
	return s.inner.Sign(r, digest, opts)
}

type vf34KeyLog struct{ hook func(line []byte) }

func (k *vf34KeyLog) Write(p []byte) (int, error) { k.hook(p); return len(p), nil }

type vf34InjOutcome struct {
	Srv       vf34Outcome
	CliErr    error
	CliPanic  *vfPanic
	Injected  bool
	InjErr    error
	SrvHSDone bool
}

func vf34ClientLoop(uc *UConn, o *vf34InjOutcome, post func()) {
	o.CliPanic = vfCatch(func() {
		o.CliErr = uc.Handshake()
		if o.CliErr == nil {
			if post != nil {
				post()
			}
			uc.Write([]byte("ping"))
			buf := make([]byte, 64)
			uc.Read(buf)
		}
	})
}

// vf34RunInject runs a real UConn against tls.Server and injects raw handshake bytes at point.
func vf34RunInject(env *vf34Env, p vfParrot, sk int, point string, raws [][]byte, framed []byte) *vf34InjOutcome {
	o := &vf34InjOutcome{}
	var m0, m1 runtime.MemStats
	runtime.ReadMemStats(&m0)
	cp, sp := vfPipe()
	dl := time.Now().Add(vf34Deadline)
	cp.SetDeadline(dl)
	sp.SetDeadline(dl)
	ccfg := vfClientConfig("example.test")
	ccfg.OmitEmptyPsk = true
	var uc *UConn
	var fired atomic.Bool
	inject := func() {
		if !fired.CompareAndSwap(false, true) {
			return
		}
		uc.out.Lock()
		for _, raw := range raws {
			if _, err := uc.writeRecordLocked(recordTypeHandshake, raw); err != nil {
				o.InjErr = err
				break
			}
		}
		uc.out.Unlock()
		o.Injected = true
	}
	signer := &vf34Signer{inner: env.clientLeaf.PrivateKey.(crypto.Signer), hook: func() {
		if point == vf34PtCertVerify {
			inject()
		}
	}}
	ccfg.Certificates = []Certificate{{Certificate: env.clientLeaf.Certificate, PrivateKey: signer, Leaf: env.clientLeaf.Leaf}}
	ccfg.VerifyConnection = func(ConnectionState) error {
		if point == vf34PtFlight2 {
			inject()
		}
		return nil
	}
	ccfg.KeyLogWriter = &vf34KeyLog{hook: func(line []byte) {
		if point == vf34PtKeyLog12 && bytes.HasPrefix(line, []byte("CLIENT_RANDOM ")) {
			inject()
		}
	}}
	uc = UClient(cp, ccfg, p.ID)
	switch point {
	case vf34PtBeforeHello:
		cp.Inject(framed)
		o.Injected = true
	case vf34PtAfterHello:
		first := true
		cp.filter = func(rec []byte) []byte {
			if !first {
				return rec
			}
			first = false
			o.Injected = true
			return append(append([]byte(nil), rec...), framed...)
		}
	}
	srv := Server(sp, vf34ServerConfig(env, sk))
	sdone := make(chan struct{})
	cdone := make(chan struct{})
	go func() {
		defer close(sdone)
		vf34ServerLoop(srv, &o.Srv)
		sp.Close()
	}()
	go func() {
		defer close(cdone)
		var post func()
		if point == vf34PtPost {
			post = inject
		}
		vf34ClientLoop(uc, o, post)
		cp.Close()
	}()
	// Both peers waiting for each other (e.g. an injected header announcing more bytes than follow) would only end at
	// the deadline: when nothing has been written for 300 ms, expire the deadlines now. This only shortens such cases;
	// no verdict depends on it.
	stopQ := make(chan struct{})
	go func() {
		tk := time.NewTicker(25 * time.Millisecond)
		defer tk.Stop()
		last, idle := -1, 0
		for {
			select {
			case <-stopQ:
				return
			case <-tk.C:
			}
			n := len(cp.Writes()) + len(sp.Writes())
			if n == last {
				idle++
			} else {
				last, idle = n, 0
			}
			if idle >= 12 {
				cp.SetDeadline(time.Now())
				sp.SetDeadline(time.Now())
				return
			}
		}
	}()
	defer close(stopQ)
	bound := time.Until(dl) + vf34HangGrace
	o.Srv.Hang = vf34Await(sdone, bound, "vf34ServerLoop")
	if o.Srv.Hang == "" {
		if h := vf34Await(cdone, time.Until(dl)+vf34HangGrace, "vf34ClientLoop"); h != "" {
			o.Srv.Hang = "client side: " + h
		}
	}
	cp.Close()
	sp.Close()
	if o.Srv.Hang == "" {
		runtime.ReadMemStats(&m1)
		o.Srv.Alloc = m1.TotalAlloc - m0.TotalAlloc
		o.Srv.Vers = srv.vers
		o.SrvHSDone = srv.isHandshakeComplete.Load()
	}
	return o
}

func vf34JudgeInject(t vfFataler, st *vfStats, o *vf34InjOutcome, p vfParrot, sk int, point string, descs []string, raws [][]byte) {
	st.Class("inj:point=" + point)
	if o.Injected {
		st.Class("inj:fired@" + point)
	} else if point != vf34PtNone {
		st.Class("inj:point-not-reached@" + point)
	}
	st.Class("inj:server=" + vf34SrvNames[sk])
	st.Class("inj:srv-hs-err=" + vf34ErrClass(o.Srv.HSErr))
	if o.SrvHSDone {
		st.Class("inj:server-handshake-completed")
		if o.Injected && point != vf34PtPost {
			st.Class("inj:server-completed-despite-injection@" + point)
		}
	}
	detail := func() string {
		return fmt.Sprintf("parrot=%s server=%s point=%s injected=%v msgs=%v raw=%x clientErr=%v", p.Name, vf34SrvNames[sk], point, o.Injected, descs, raws, o.CliErr)
	}
	if o.CliPanic != nil {
		// the client is driven through in-package primitives by the harness; a panic there is reported, too
		st.Violation(t, "client side panicked while injecting: %v\n%s\ncase: %s", o.CliPanic.Val, o.CliPanic.Stack, detail())
	}
	vf34Verdict(t, st, &o.Srv, "injection into a real client flight", detail)
}

func TestVerifC34Inject(t *testing.T) {
	env := vf34GetEnv()
	st := vfNewStats(t, "C34")
	all := append([]vfParrot{{"HelloGolang", HelloGolang}}, vfParrots...)
	var ctlOK, ctlFail atomic.Int64
	rapid.Check(t, func(rt *rapid.T) {
		p := all[rapid.IntRange(0, len(all)-1).Draw(rt, "parrot")]
		sk := rapid.IntRange(0, vf34NumSrv-1).Draw(rt, "server")
		point := vf34Points[rapid.IntRange(0, len(vf34Points)-1).Draw(rt, "point")]
		if (point == vf34PtCertVerify) && sk != vf34SrvClientAuthAny && sk != vf34SrvClientAuthVerify && sk != vf34SrvALPNRequestCert {
			sk = []int{vf34SrvClientAuthAny, vf34SrvClientAuthVerify, vf34SrvALPNRequestCert}[rapid.IntRange(0, 2).Draw(rt, "auth_server")]
		}
		if point == vf34PtKeyLog12 {
			sk = vf34SrvTLS12RSA
		}
		var raws [][]byte
		var descs []string
		if point != vf34PtNone {
			n := rapid.IntRange(1, 2).Draw(rt, "n_msgs")
			for k := 0; k < n; k++ {
				raw, d := vf34GenUtlsMsg(rt, fmt.Sprintf("msg%d", k))
				raws = append(raws, raw)
				descs = append(descs, d)
			}
		}
		var framed []byte
		for k, raw := range raws {
			framed = append(framed, vf34Frame(rt, fmt.Sprintf("inj%d", k), 22, raw)...)
		}
		st.Eval()
		o := vf34RunInject(env, p, sk, point, raws, framed)
		if point == vf34PtNone {
			if o.CliErr == nil && o.Srv.HSErr == nil {
				ctlOK.Add(1)
				st.Class("inj:control-handshake-ok")
			} else {
				ctlFail.Add(1)
				st.Class("inj:control-handshake-FAILED")
				st.Extra("control_failure_example", fmt.Sprintf("%s vs %s: client %v server %v", p.Name, vf34SrvNames[sk], o.CliErr, o.Srv.HSErr))
			}
		} else if o.Injected {
			st.NonTrivial(fmt.Sprintf("%s|%d|%s|%s", p.Name, sk, point, vfHashHex(bytes.Join(raws, nil))))
		}
		st.Sample(map[string]any{"parrot": p.Name, "server": vf34SrvNames[sk], "point": point, "msgs": descs, "injected": o.Injected,
			"server_err": fmt.Sprint(o.Srv.HSErr), "client_err": fmt.Sprint(o.CliErr)})
		vf34JudgeInject(rt, st, o, p, sk, point, descs, raws)
	})
	if ctlFail.Load() > ctlOK.Load() {
		t.Logf("harness warning: %d control handshakes failed, %d succeeded", ctlFail.Load(), ctlOK.Load())
	}
}

// Directed sweep: the three canonical uTLS messages at every reachable point, for the parrots (all in thorough).
func TestVerifC34InjectSweep(t *testing.T) {
	env := vf34GetEnv()
	st := vfNewStats(t, "C34")
	all := append([]vfParrot{{"HelloGolang", HelloGolang}}, vfParrots...)
	canon := vf34CanonicalMsgs()
	names := []string{"valid-client-EE(8)", "empty-EE(8)", "CompressedCertificate(25)"}
	type combo struct {
		point string
		sk    int
	}
	combos := []combo{{vf34PtBeforeHello, vf34SrvDefault}, {vf34PtAfterHello, vf34SrvECH}, {vf34PtFlight2, vf34SrvDefault},
		{vf34PtFlight2, vf34SrvClientAuthAny}, {vf34PtFlight2, vf34SrvTLS12RSA}, {vf34PtCertVerify, vf34SrvClientAuthVerify},
		{vf34PtCertVerify, vf34SrvALPNRequestCert}, {vf34PtKeyLog12, vf34SrvTLS12RSA}, {vf34PtPost, vf34SrvDefault}, {vf34PtPost, vf34SrvTLS12RSA},
		{vf34PtNone, vf34SrvDefault}, {vf34PtNone, vf34SrvTLS12RSA}, {vf34PtNone, vf34SrvClientAuthVerify}}
	ctlFail := 0
	for pi, p := range all {
		if !vfThorough() && pi%5 != 0 {
			continue
		}
		for ci, cb := range combos {
			name := names[(pi+ci)%len(names)]
			raws := [][]byte{canon[name]}
			if cb.point == vf34PtNone {
				raws = nil
			}
			st.Eval()
			var framed []byte
			for _, raw := range raws {
				framed = append(framed, vf34Record(22, 0x0303, raw)...)
			}
			o := vf34RunInject(env, p, cb.sk, cb.point, raws, framed)
			if cb.point == vf34PtNone && (o.CliErr != nil || o.Srv.HSErr != nil) {
				ctlFail++
				st.Class("sweep:control-handshake-FAILED")
				st.Extra("sweep_control_failure", fmt.Sprintf("%s vs %s: client %v server %v", p.Name, vf34SrvNames[cb.sk], o.CliErr, o.Srv.HSErr))
			}
			if o.Injected {
				st.NonTrivial(fmt.Sprintf("sweep|%s|%d|%s|%s", p.Name, cb.sk, cb.point, name))
			}
			st.Sample(map[string]any{"parrot": p.Name, "server": vf34SrvNames[cb.sk], "point": cb.point, "msg": name, "injected": o.Injected,
				"server_err": fmt.Sprint(o.Srv.HSErr), "client_err": fmt.Sprint(o.CliErr)})
			vf34JudgeInject(t, st, o, p, cb.sk, cb.point, []string{name}, raws)
		}
	}
	st.Extra("sweep_control_failures", ctlFail)
}

// ---------------------------------------------------------------------------------------------------------------
// native fuzz targets (thorough tier only; listed in props.d/C34.json)
// ---------------------------------------------------------------------------------------------------------------

func vf34FuzzCheck(t *testing.T, o *vf34Outcome, what string) {
	if o.Hang != "" {
		t.Fatalf("VERIF-VIOLATION C34: HANG (%s): %s", what, o.Hang)
	}
	if o.Panic != nil {
		t.Fatalf("VERIF-VIOLATION C34: server panicked (%s): %v\n%s", what, o.Panic.Val, o.Panic.Stack)
	}
	if o.Alloc > 4*vf34AllocBound { // fuzz workers run in parallel inside one process? no: one process each, but be generous
		t.Fatalf("VERIF-VIOLATION C34: one input allocated %d bytes (%s)", o.Alloc, what)
	}
}

// raw byte stream -> server
func FuzzVerifC34Stream(f *testing.F) {
	env := vf34GetEnv()
	for i, b := range env.bases {
		f.Add(vf34Record(22, 0x0301, b.Msg), uint8(i))
	}
	for _, m := range vf34CanonicalMsgs() {
		f.Add(vf34Record(22, 0x0303, m), uint8(0))
		f.Add(append(vf34Record(22, 0x0301, env.bases[0].Msg), vf34Record(22, 0x0303, m)...), uint8(1))
	}
	f.Fuzz(func(t *testing.T, data []byte, sel uint8) {
		if len(data) > 200000 {
			return
		}
		o := vf34FeedServer(vf34ServerConfig(env, int(sel)%vf34NumSrv), data)
		vf34FuzzCheck(t, o, "stream")
	})
}

// ClientHello body -> framed honestly -> server (the fuzzer works on the parser input directly)
func FuzzVerifC34HelloBody(f *testing.F) {
	env := vf34GetEnv()
	for i, b := range env.bases {
		f.Add(b.Msg[4:], uint8(i))
	}
	f.Fuzz(func(t *testing.T, body []byte, sel uint8) {
		if len(body) > 100000 {
			return
		}
		msg := append(vf34PutU24([]byte{1}, len(body)), body...)
		var stream []byte
		for len(msg) > 16384 {
			stream = append(stream, vf34Record(22, 0x0301, msg[:16384])...)
			msg = msg[16384:]
		}
		stream = append(stream, vf34Record(22, 0x0301, msg)...)
		o := vf34FeedServer(vf34ServerConfig(env, int(sel)%vf34NumSrv), stream)
		vf34FuzzCheck(t, o, "hello body")
	})
}

// encoded inner hello -> sealed towards the server's ECH key inside a fixed outer hello
func FuzzVerifC34ECHInner(f *testing.F) {
	env := vf34GetEnv()
	var outerMsg []byte
	for _, b := range env.bases {
		if b.Kind == "ech" && b.Name == "HelloGolang" {
			outerMsg = b.Msg
		}
	}
	if outerMsg == nil {
		outerMsg = env.bases[0].Msg
	}
	outer := vf34FromMsg(outerMsg)
	seedInner := outer.clone()
	seedInner.SID = nil
	var exts []vfExt
	for _, e := range seedInner.Exts {
		if e.Type == 0xfe0d {
			continue
		}
		if e.Type == 43 {
			e.Body = []byte{2, 3, 4}
		}
		exts = append(exts, e)
	}
	seedInner.Exts = append(exts, vfExt{0xfe0d, []byte{1}})
	f.Add(seedInner.body())
	// one seed using outer_extensions for key_share and supported_groups
	comp := seedInner.clone()
	var kept []vfExt
	for _, e := range comp.Exts {
		if e.Type == 51 || e.Type == 10 {
			continue
		}
		kept = append(kept, e)
	}
	comp.Exts = append([]vfExt{{0xfd00, []byte{4, 0, 10, 0, 51}}}, kept...)
	f.Add(comp.body())
	f.Fuzz(func(t *testing.T, inner []byte) {
		if len(inner) > 60000 {
			return
		}
		msg, err := vf34SealECH(env, outer.clone(), inner, 1)
		if err != nil {
			return
		}
		var stream []byte
		for len(msg) > 16384 {
			stream = append(stream, vf34Record(22, 0x0301, msg[:16384])...)
			msg = msg[16384:]
		}
		stream = append(stream, vf34Record(22, 0x0301, msg)...)
		o := vf34FeedServer(vf34ServerConfig(env, vf34SrvECH), stream)
		vf34FuzzCheck(t, o, "ECH inner")
	})
}
