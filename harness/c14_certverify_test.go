//go:build verif

package tls

// C14 - server certificates are verified exactly as the Config requests.
//
// Every case: one identity (all predefined parrots + HelloGolang through UClient), a server at TLS 1.2 or 1.3,
// a leaf certificate *constructed* by the harness PKI (names, issuing root, validity window relative to the
// harness clock), a client Config (ServerName, InsecureServerNameToVerify, InsecureSkipTimeVerify,
// InsecureSkipVerify, RootCAs = main root, Time = harness clock) and optionally a second connection over the same
// ClientSessionCache with some knobs / the clock changed, and optionally ECH (accepted or rejected).
//
// The expected outcome is computed from the construction only:
//   verified  = issued by the trusted root
//            && (verification name is "" or is one of the names put into the certificate)
//            && (clock inside [NotBefore, NotAfter] || InsecureSkipTimeVerify)
//   no ECH / ECH accepted: success <=> InsecureSkipVerify || verified; failure is a *CertificateVerificationError
//   ECH rejected:          verification name defaults to the ECH public name, InsecureSkipVerify is ignored;
//                          verified => *ECHRejectionError, otherwise *CertificateVerificationError
// where the verification name is InsecureServerNameToVerify if set ("*" = none), else ServerName (public name
// when ECH was rejected). x509 is never consulted by the oracle.

import (
	"bytes"
	"crypto/ecdh"
	"crypto/x509"
	"errors"
	"fmt"
	"strings"
	"testing"
	"time"

	"pgregory.net/rapid"
)

const (
	vf14KeyRejectedSecretName = "C14:ech-rejected-verified-against-secret-name"
	// a session is resumed although the cached certificate is not yet valid at the configured time (loadSession
	// re-checks only NotAfter): reachable when the first connection ran with InsecureSkipTimeVerify, or the clock
	// went backwards
	vf14KeyResumedBeforeNotBefore = "C14:resumed-before-notbefore"
)

type vf14Ident struct {
	Name    string
	ID      ClientHelloID
	Golang  bool
	PSK     bool
	ECH     bool // can offer ECH (spec carries an ECH extension, or HelloGolang)
	TLS13OK bool
}

func vf14Identities(t testing.TB) []vf14Ident {
	var out []vf14Ident
	for _, p := range vfParrots {
		spec, err := UTLSIdToSpec(p.ID)
		if err != nil {
			t.Fatalf("UTLSIdToSpec(%s): %v", p.Name, err)
		}
		id := vf14Ident{Name: p.Name, ID: p.ID, PSK: vfIsPSKParrot(p), TLS13OK: vfSpecMaxVersion(&spec) >= VersionTLS13}
		for _, e := range spec.Extensions {
			if _, ok := e.(EncryptedClientHelloExtension); ok {
				id.ECH = true
			}
		}
		out = append(out, id)
	}
	out = append(out, vf14Ident{Name: "HelloGolang", ID: HelloGolang, Golang: true, ECH: true, TLS13OK: true})
	return out
}

// ---- the knobs of one connection ----

type vf14Knobs struct {
	ServerName string
	ISNTV      string // InsecureServerNameToVerify
	SkipTime   bool
	SkipVerify bool
	ClockShift time.Duration // client clock = vfNow() + ClockShift
}

func (k vf14Knobs) String() string {
	return fmt.Sprintf("{ServerName=%q ISNTV=%q skipTime=%v skipVerify=%v clock=%+v}", k.ServerName, k.ISNTV, k.SkipTime, k.SkipVerify, k.ClockShift)
}

// ---- the certificate, as constructed ----

type vf14Cert struct {
	Names     []string
	Trusted   bool
	NotBefore time.Time
	NotAfter  time.Time
	TimeKind  string
}

func (c vf14Cert) leaf() *Certificate {
	ca := "main"
	if !c.Trusted {
		ca = "other"
	}
	return vfLeaf(vfLeafSpec{Names: c.Names, CA: ca, NotBefore: c.NotBefore, NotAfter: c.NotAfter})
}

func (c vf14Cert) String() string {
	return fmt.Sprintf("{names=%v trusted=%v validity=%s}", c.Names, c.Trusted, c.TimeKind)
}

func (c vf14Cert) hasName(n string) bool {
	for _, x := range c.Names {
		if strings.EqualFold(x, n) {
			return true
		}
	}
	return false
}

// vf14Verified is the reference model: does a certificate constructed as c verify for verification name v at clock now?
func vf14Verified(c vf14Cert, v string, now time.Time, skipTime bool) (ok bool, why string) {
	if !c.Trusted {
		return false, "issued by a root that is not in RootCAs"
	}
	if v != "" && !c.hasName(v) {
		return false, fmt.Sprintf("verification name %q is not among the certificate's names %v", v, c.Names)
	}
	if !skipTime && (now.Before(c.NotBefore) || now.After(c.NotAfter)) {
		return false, fmt.Sprintf("clock %s outside [%s, %s]", now.Format(time.RFC3339), c.NotBefore.Format(time.RFC3339), c.NotAfter.Format(time.RFC3339))
	}
	return true, ""
}

// verification name for knobs k; def is the default name (ServerName, or the ECH public name after a rejection)
func vf14VerifyName(k vf14Knobs, def string) string {
	switch k.ISNTV {
	case "":
		return def
	case "*":
		return ""
	default:
		return k.ISNTV
	}
}

var vf14TimeKinds = []string{"valid", "valid", "expired", "not-yet-valid", "notafter==clock", "notafter==clock-1s", "notbefore==clock", "notbefore==clock+1s"}

func vf14Validity(kind string) (nb, na time.Time) {
	e := vfNow()
	switch kind {
	case "valid":
		return e.Add(-24 * time.Hour), e.Add(365 * 24 * time.Hour)
	case "expired":
		return e.Add(-30 * 24 * time.Hour), e.Add(-time.Hour)
	case "not-yet-valid":
		return e.Add(time.Hour), e.Add(30 * 24 * time.Hour)
	case "notafter==clock":
		return e.Add(-24 * time.Hour), e
	case "notafter==clock-1s":
		return e.Add(-24 * time.Hour), e.Add(-time.Second)
	case "notbefore==clock":
		return e, e.Add(24 * time.Hour)
	case "notbefore==clock+1s":
		return e.Add(time.Second), e.Add(24 * time.Hour)
	}
	panic(kind)
}

// ---- ECH material (compact; the full ECH check is C15) ----

type vf14ECH struct {
	Public     string
	ClientList []byte
	AcceptKeys []EncryptedClientHelloKey
	RejectKeys []EncryptedClientHelloKey
}

func vf14MakeECHConfig(seed uint64, label, public string) (raw []byte, priv *ecdh.PrivateKey) {
	kb := make([]byte, 32)
	vfNewDetRand(seed, "c14-ech|"+label).Read(kb)
	priv, err := ecdh.X25519().NewPrivateKey(kb)
	if err != nil {
		panic(err)
	}
	var body []byte
	body = append(body, 14, 0x00, 0x20, 0, 32)
	body = append(body, priv.PublicKey().Bytes()...)
	body = append(body, 0, 8, 0, 1, 0, 1, 0, 1, 0, 3)
	body = append(body, 64, byte(len(public)))
	body = append(body, public...)
	body = append(body, 0, 0)
	raw = append([]byte{0xfe, 0x0d, byte(len(body) >> 8), byte(len(body))}, body...)
	return raw, priv
}

func vf14NewECH(seed uint64, public string) *vf14ECH {
	raw, priv := vf14MakeECHConfig(seed, "current", public)
	raw2, priv2 := vf14MakeECHConfig(seed, "rotated", public)
	return &vf14ECH{
		Public:     public,
		ClientList: append([]byte{byte(len(raw) >> 8), byte(len(raw))}, raw...),
		AcceptKeys: []EncryptedClientHelloKey{{Config: raw, PrivateKey: priv.Bytes(), SendAsRetry: true}},
		RejectKeys: []EncryptedClientHelloKey{{Config: raw2, PrivateKey: priv2.Bytes(), SendAsRetry: true}},
	}
}

// ---- case ----

type vf14Case struct {
	Ident    vf14Ident
	Version  uint16 // server MaxVersion
	ECH      string // "none", "accepted", "rejected"
	Public   string // ECH public name
	Cert     vf14Cert
	K1       vf14Knobs
	Second   bool
	K2       vf14Knobs
	Seed     uint64
	NameKind string
	// SrvP256: the server prefers P-256 only; for hellos that list it without a share (HelloGolang, Chrome) the
	// handshake then runs through a HelloRetryRequest. NoECHKeys (ECH "rejected" only): the server has no ECH keys at
	// all (a legacy front end): ECH is ignored rather than answered with retry configs.
	SrvP256   bool
	NoECHKeys bool
}

func (c vf14Case) String() string {
	s := fmt.Sprintf("%s tls=%#04x ech=%s(server-p256-only=%v,no-ech-keys=%v) cert=%v conn1=%v", c.Ident.Name, c.Version, c.ECH, c.SrvP256, c.NoECHKeys, c.Cert, c.K1)
	if c.Second {
		s += fmt.Sprintf(" conn2=%v", c.K2)
	}
	return s
}

func vf14GenKnobs(rt *rapid.T, label string, serverName, alt, other string, ech string) vf14Knobs {
	k := vf14Knobs{ServerName: serverName}
	switch rapid.IntRange(0, 7).Draw(rt, label+"_isntv") {
	case 0, 1, 2:
		k.ISNTV = ""
	case 3:
		k.ISNTV = "*"
	case 4:
		k.ISNTV = serverName
		if serverName == "" {
			k.ISNTV = alt
		}
	case 5, 6:
		k.ISNTV = alt
	case 7:
		k.ISNTV = other
	}
	k.SkipTime = rapid.IntRange(0, 2).Draw(rt, label+"_skipTime") == 0
	k.SkipVerify = rapid.IntRange(0, 5).Draw(rt, label+"_skipVerify") == 0
	return k
}

func vf14GenCase(rt *rapid.T, idents []vf14Ident) vf14Case {
	c := vf14Case{}
	c.Ident = idents[rapid.IntRange(0, len(idents)-1).Draw(rt, "ident")]
	c.Seed = rapid.Uint64().Draw(rt, "seed")
	c.Version = []uint16{VersionTLS12, VersionTLS13}[rapid.IntRange(0, 1).Draw(rt, "version")]
	if rapid.IntRange(0, 4).Draw(rt, "echBias") == 0 {
		// only 6 of the 39 identities can offer ECH: give that part of the product a fixed share
		var capable []vf14Ident
		for _, id := range idents {
			if id.ECH {
				capable = append(capable, id)
			}
		}
		c.Ident = capable[rapid.IntRange(0, len(capable)-1).Draw(rt, "echIdent")]
		c.Version = VersionTLS13
	}
	n := rapid.IntRange(0, 3).Draw(rt, "nameIdx")
	server := fmt.Sprintf("svc%d.c14.test", n)
	alt := fmt.Sprintf("alt%d.c14.test", n)
	other := fmt.Sprintf("other%d.c14.test", n)
	c.Public = fmt.Sprintf("public%d.ech-c14.test", n)
	c.ECH = "none"
	if c.Ident.ECH && c.Version == VersionTLS13 {
		c.ECH = []string{"none", "accepted", "rejected", "rejected"}[rapid.IntRange(0, 3).Draw(rt, "ech")]
	}
	c.NameKind = "dns"
	if c.ECH == "none" {
		switch rapid.IntRange(0, 9).Draw(rt, "serverNameKind") {
		case 0:
			c.NameKind = "empty"
			server = ""
		case 1:
			c.NameKind = "ip"
			server = fmt.Sprintf("192.0.2.%d", 10+n)
		}
	}
	// the default verification name: ServerName, or the public name when ECH will be rejected
	def := server
	if c.ECH == "rejected" {
		def = c.Public
	}
	// certificate names
	var names []string
	nk := rapid.IntRange(0, 7).Draw(rt, "certNames")
	switch {
	case nk <= 2:
		names = []string{def}
	case nk == 3:
		names = []string{alt}
	case nk == 4:
		names = []string{def, alt}
	case nk == 5:
		names = []string{other + ".x"} // a name nobody asks for
	case nk == 6 && c.ECH == "rejected":
		names = []string{server} // valid for the secret name only
	case nk == 7 && c.ECH == "rejected":
		names = []string{def, server}
	default:
		names = []string{def}
	}
	var clean []string
	for _, x := range names {
		if x != "" {
			clean = append(clean, x)
		}
	}
	if len(clean) == 0 {
		clean = []string{alt}
	}
	c.Cert.Names = clean
	c.Cert.Trusted = rapid.IntRange(0, 4).Draw(rt, "trusted") != 0
	c.Cert.TimeKind = vf14TimeKinds[rapid.IntRange(0, len(vf14TimeKinds)-1).Draw(rt, "timeKind")]
	c.Cert.NotBefore, c.Cert.NotAfter = vf14Validity(c.Cert.TimeKind)

	if c.ECH != "none" {
		c.SrvP256 = rapid.IntRange(0, 2).Draw(rt, "server_p256_only") == 0
		c.NoECHKeys = c.ECH == "rejected" && rapid.IntRange(0, 2).Draw(rt, "server_without_ech_keys") == 0
	}
	c.K1 = vf14GenKnobs(rt, "k1", server, alt, other, c.ECH)
	if server == "" && c.K1.ISNTV == "" {
		c.K1.SkipVerify = true // otherwise the Config is refused before anything is sent
	}
	c.Second = c.ECH != "rejected" && rapid.Bool().Draw(rt, "second")
	if c.Second {
		c.K2 = c.K1
		// change one or two things
		for i, nmut := 0, rapid.IntRange(1, 2).Draw(rt, "nmut"); i < nmut; i++ {
			switch rapid.IntRange(0, 4).Draw(rt, fmt.Sprintf("mut%d", i)) {
			case 0:
				c.K2.ISNTV = []string{"", "*", server, alt, other}[rapid.IntRange(0, 4).Draw(rt, fmt.Sprintf("mutISNTV%d", i))]
			case 1:
				c.K2.SkipTime = !c.K2.SkipTime
			case 2:
				c.K2.SkipVerify = !c.K2.SkipVerify
			case 3:
				c.K2.ClockShift = []time.Duration{2 * time.Hour, 400 * 24 * time.Hour, -48 * time.Hour, time.Second, -time.Second, 25 * time.Hour}[rapid.IntRange(0, 5).Draw(rt, fmt.Sprintf("mutClock%d", i))]
			case 4:
				// nothing: plain second connection
			}
		}
		if server == "" && c.K2.ISNTV == "" {
			c.K2.SkipVerify = true
		}
	}
	return c
}

type vf14Outcome struct {
	cerr, serr error
	resumed    bool
	version    uint16
	echOK      bool
}

func vf14ClientConfig(c vf14Case, k vf14Knobs, cache ClientSessionCache, ech *vf14ECH, conn int) *Config {
	cfg := &Config{
		ServerName:                 k.ServerName,
		RootCAs:                    vfGetCA("main").Pool,
		InsecureSkipVerify:         k.SkipVerify,
		InsecureSkipTimeVerify:     k.SkipTime,
		InsecureServerNameToVerify: k.ISNTV,
		ClientSessionCache:         cache,
		OmitEmptyPsk:               true,
		Rand:                       vfNewDetRand(c.Seed, fmt.Sprintf("client%d", conn)),
	}
	shift := k.ClockShift
	cfg.Time = func() time.Time { return vfNow().Add(shift) }
	if ech != nil {
		cfg.EncryptedClientHelloConfigList = ech.ClientList
	}
	return cfg
}

func vf14Run(st *vfStats, t vfFataler, c vf14Case) {
	st.Eval()
	fail := func(format string, a ...any) {
		t.Helper()
		st.Violation(t, "%s: %s", c.String(), fmt.Sprintf(format, a...))
	}
	leaf := c.Cert.leaf()
	var ech *vf14ECH
	scfg := &Config{
		MinVersion: VersionTLS10, MaxVersion: c.Version, Time: vfNow, CipherSuites: vfAllServerSuites(),
		Certificates: []Certificate{*leaf},
	}
	if c.ECH != "none" {
		ech = vf14NewECH(c.Seed, c.Public)
		if c.ECH == "accepted" {
			scfg.EncryptedClientHelloKeys = ech.AcceptKeys
		} else if !c.NoECHKeys {
			scfg.EncryptedClientHelloKeys = ech.RejectKeys
		}
		if c.SrvP256 {
			scfg.CurvePreferences = []CurveID{CurveP256}
		}
		// accepted: the case's certificate answers the inner name, a good certificate answers the public name.
		// rejected: the case's certificate answers the public name (that is the one under test).
		goodPublic := vfLeaf(vfLeafSpec{Names: []string{c.Public}})
		goodInner := vfLeaf(vfLeafSpec{Names: []string{c.K1.ServerName}})
		scfg.Certificates = nil
		scfg.GetCertificate = func(chi *ClientHelloInfo) (*Certificate, error) {
			isPublic := chi.ServerName == c.Public
			switch {
			case c.ECH == "accepted" && isPublic:
				return goodPublic, nil
			case c.ECH == "accepted":
				return leaf, nil
			case isPublic:
				return leaf, nil
			default:
				return goodInner, nil
			}
		}
	}
	cache := NewLRUClientSessionCache(8)

	run := func(conn int, k vf14Knobs) vf14Outcome {
		ccfg := vf14ClientConfig(c, k, cache, ech, conn)
		pair := vfNewPair(ccfg, c.Ident.ID, scfg)
		defer pair.Close()
		var o vf14Outcome
		o.cerr, o.serr = pair.Handshake()
		if errors.Is(o.cerr, errVfHang) || errors.Is(o.serr, errVfHang) {
			fail("conn %d: handshake did not return", conn)
		}
		if o.cerr == nil {
			cs := pair.Cli.ConnectionState()
			o.resumed, o.version, o.echOK = cs.DidResume, cs.Version, cs.ECHAccepted
			if o.serr != nil {
				fail("conn %d: client completed but the server failed: %v", conn, o.serr)
			}
			// data must flow, and the client has to read once so that TLS 1.3 tickets reach the cache
			if err := pair.Echo([]byte("c14 ping"), []byte("c14 pong")); err != nil {
				fail("conn %d: data exchange after a successful handshake: %v", conn, err)
			}
			if len(cs.PeerCertificates) == 0 || !bytes.Equal(cs.PeerCertificates[0].Raw, leaf.Certificate[0]) {
				fail("conn %d: PeerCertificates[0] is not the certificate the server was given", conn)
			}
			if !k.SkipVerify {
				if len(cs.VerifiedChains) == 0 || len(cs.VerifiedChains[0]) != 2 ||
					!cs.VerifiedChains[0][1].Equal(vfGetCA("main").Cert) || !bytes.Equal(cs.VerifiedChains[0][0].Raw, leaf.Certificate[0]) {
					fail("conn %d: verification was requested but VerifiedChains is not [leaf, main root]: %d chains", conn, len(cs.VerifiedChains))
				}
			}
		}
		return o
	}

	check := func(conn int, k vf14Knobs, o vf14Outcome) (success bool, known bool) {
		now := vfNow().Add(k.ClockShift)
		def := k.ServerName
		if c.ECH == "rejected" {
			def = c.Public
		}
		v := vf14VerifyName(k, def)
		verified, why := vf14Verified(c.Cert, v, now, k.SkipTime)
		var cve *CertificateVerificationError
		var rej *ECHRejectionError
		isCVE := errors.As(o.cerr, &cve)
		isRej := errors.As(o.cerr, &rej)
		got := "success"
		switch {
		case isCVE:
			got = "CertificateVerificationError"
		case isRej:
			got = "ECHRejectionError"
		case o.cerr != nil:
			got = fmt.Sprintf("other error %T", o.cerr)
		}
		var want string
		if c.ECH == "rejected" {
			if verified {
				want = "ECHRejectionError"
			} else {
				want = "CertificateVerificationError"
			}
		} else if k.SkipVerify || verified {
			want = "success"
		} else {
			want = "CertificateVerificationError"
		}
		st.Class(fmt.Sprintf("conn%d-want:%s", conn, want))
		if got == want {
			var wantRetry []byte // (a server without ECH keys has no retry configs to send)
			if want == "ECHRejectionError" && !c.NoECHKeys {
				wantRetry = append([]byte{byte(len(ech.RejectKeys[0].Config) >> 8), byte(len(ech.RejectKeys[0].Config))}, ech.RejectKeys[0].Config...)
			}
			if want == "ECHRejectionError" && !bytes.Equal(rej.RetryConfigList, wantRetry) {
				fail("conn %d: ECHRejectionError carries an unexpected retry list %x", conn, rej.RetryConfigList)
			}
			if want == "CertificateVerificationError" {
				if len(cve.UnverifiedCertificates) == 0 || !bytes.Equal(cve.UnverifiedCertificates[0].Raw, leaf.Certificate[0]) {
					fail("conn %d: CertificateVerificationError does not carry the served certificate", conn)
				}
			}
			return want == "success", false
		}
		// mismatch: is it the known class "ECH rejected, verified against the secret name"?
		if c.ECH == "rejected" && k.ISNTV == "" {
			buggyVerified, _ := vf14Verified(c.Cert, k.ServerName, now, k.SkipTime)
			buggyWant := "CertificateVerificationError"
			if buggyVerified {
				buggyWant = "ECHRejectionError"
			}
			nameMatters := true
			if isCVE {
				var hn x509.HostnameError
				nameMatters = errors.As(cve.Err, &hn) && hn.Host == k.ServerName
			}
			if got == buggyWant && nameMatters {
				st.Class("known:" + vf14KeyRejectedSecretName)
				st.KnownOrViolation(t, vf14KeyRejectedSecretName,
					"%s: ECH rejected: certificate %v was verified against Config.ServerName %q instead of the public name %q: got %s (%v), want %s",
					c.String(), c.Cert, k.ServerName, c.Public, got, o.cerr, want)
				return false, true
			}
		}
		if conn == 2 && got == "success" && o.resumed && !k.SkipVerify && !k.SkipTime && now.Before(c.Cert.NotBefore) {
			// would it verify if only the lower end of the validity window were ignored?
			relaxed := c.Cert
			relaxed.NotBefore = now
			if okRelaxed, _ := vf14Verified(relaxed, v, now, false); okRelaxed {
				st.Class("known:" + vf14KeyResumedBeforeNotBefore)
				st.KnownOrViolation(t, vf14KeyResumedBeforeNotBefore,
					"%s: second connection resumed the session although the clock %s is before the certificate's NotBefore %s and InsecureSkipTimeVerify is off",
					c.String(), now.Format(time.RFC3339), c.Cert.NotBefore.Format(time.RFC3339))
				return true, true
			}
		}
		detail := why
		if verified {
			detail = "certificate verifies by construction"
		}
		fail("conn %d knobs %v: got %s (client err: %v; server err: %v; resumed=%v), want %s [verification name %q; %s]",
			conn, k, got, o.cerr, o.serr, o.resumed, want, v, detail)
		return false, false
	}

	o1 := run(1, c.K1)
	ok1, known := check(1, c.K1, o1)
	if c.ECH == "accepted" && ok1 && !o1.echOK {
		fail("conn 1: ECH configured and server accepting, but the connection completed without ECH")
	}
	resumedClass := "single"
	if c.Second && !known {
		o2 := run(2, c.K2)
		ok2, _ := check(2, c.K2, o2)
		switch {
		case !ok1:
			resumedClass = "second-after-failed-first"
		case ok2 && o2.resumed:
			resumedClass = "second-resumed"
		case ok2:
			resumedClass = "second-full-handshake"
		default:
			resumedClass = "second-refused"
		}
		if !ok1 && o2.resumed {
			fail("conn 2 resumed a session although conn 1 failed")
		}
	}

	// ---- statistics ----
	st.Class("id:" + c.Ident.Name)
	st.Class(fmt.Sprintf("server-max:%#04x", c.Version))
	if ok1 {
		st.Class(fmt.Sprintf("negotiated:%#04x", o1.version))
	}
	st.Class("ech:" + c.ECH)
	st.Class("servername:" + c.NameKind)
	st.Class("validity:" + c.Cert.TimeKind)
	st.Class(fmt.Sprintf("trusted:%v", c.Cert.Trusted))
	st.Class("resumption:" + resumedClass)
	isntvClass := func(k vf14Knobs) string {
		switch {
		case k.ISNTV == "":
			return "unset"
		case k.ISNTV == "*":
			return "*"
		case c.Cert.hasName(k.ISNTV):
			return "name-in-cert"
		default:
			return "name-not-in-cert"
		}
	}
	st.Class("isntv:" + isntvClass(c.K1))
	nameInCert := c.Cert.hasName(c.K1.ServerName)
	st.Class(fmt.Sprintf("servername-in-cert:%v", nameInCert))
	if c.K1.SkipTime {
		st.Class("skip-time")
	}
	if c.K1.SkipVerify {
		st.Class("skip-verify")
	}
	nonDefault := c.K1.ISNTV != "" || c.K1.SkipTime || c.K1.SkipVerify || c.ECH != "none" || !c.Cert.Trusted ||
		c.Cert.TimeKind != "valid" || !nameInCert || c.Second
	if nonDefault {
		key := fmt.Sprintf("%s|%x|%s|%s|%v|%s|%v|%s|%v|%v|%s", c.Ident.Name, c.Version, c.ECH, c.NameKind, c.Cert.Trusted, c.Cert.TimeKind, nameInCert,
			isntvClass(c.K1), c.K1.SkipTime, c.K1.SkipVerify, resumedClass)
		if c.Second {
			key += fmt.Sprintf("|%s|%v|%v|%v", isntvClass(c.K2), c.K2.SkipTime, c.K2.SkipVerify, c.K2.ClockShift)
		}
		st.NonTrivial(key)
	}
	st.Sample(map[string]any{"case": c.String(), "conn1": fmt.Sprint(o1.cerr), "resumption": resumedClass})
}

// ---- directed sweeps ----

// Full truth table on two representative identities per version (cheap), so that every knob combination is
// always exercised regardless of the seed.
func TestVerifC14TruthTable(t *testing.T) {
	st := vfNewStats(t, "C14")
	idents := vf14Identities(t)
	pick := map[string]bool{"HelloChrome_133": true, "HelloFirefox_105": true, "HelloGolang": true, "HelloIOS_14": true}
	certs := []struct {
		names   string
		trusted bool
		time    string
	}{
		{"server", true, "valid"}, {"alt", true, "valid"}, {"server", false, "valid"}, {"server", true, "expired"},
		{"server", true, "not-yet-valid"}, {"alt", true, "expired"}, {"server", false, "expired"},
		{"server", true, "notafter==clock"}, {"server", true, "notafter==clock-1s"}, {"server", true, "notbefore==clock"}, {"server", true, "notbefore==clock+1s"},
	}
	const server, alt, other = "svc.table.c14.test", "alt.table.c14.test", "other.table.c14.test"
	n := 0
	for _, id := range idents {
		if !pick[id.Name] {
			continue
		}
		for _, ver := range []uint16{VersionTLS12, VersionTLS13} {
			for _, cd := range certs {
				for _, isntv := range []string{"", "*", server, alt, other} {
					for _, skipTime := range []bool{false, true} {
						for _, skipVerify := range []bool{false, true} {
							if skipVerify && (isntv != "" && isntv != "*") {
								continue // InsecureSkipVerify makes the other knobs irrelevant; keep two representatives
							}
							n++
							c := vf14Case{Ident: id, Version: ver, ECH: "none", Seed: uint64(n), NameKind: "dns"}
							c.Cert = vf14Cert{Trusted: cd.trusted, TimeKind: cd.time}
							c.Cert.Names = []string{map[string]string{"server": server, "alt": alt}[cd.names]}
							c.Cert.NotBefore, c.Cert.NotAfter = vf14Validity(cd.time)
							c.K1 = vf14Knobs{ServerName: server, ISNTV: isntv, SkipTime: skipTime, SkipVerify: skipVerify}
							vf14Run(st, t, c)
						}
					}
				}
			}
		}
	}
}

// ECH: every ECH-capable identity x {accepted, rejected} x certificate shapes; deterministically reaches the
// known class (rejected + certificate valid for the public name only / for the secret name only).
func TestVerifC14ECHDirected(t *testing.T) {
	st := vfNewStats(t, "C14")
	n := 0
	for _, id := range vf14Identities(t) {
		if !id.ECH {
			continue
		}
		const server, alt, public = "hidden.directed.c14.test", "alt.directed.c14.test", "public.directed.ech-c14.test"
		for _, mode := range []string{"accepted", "rejected"} {
			def := server
			if mode == "rejected" {
				def = public
			}
			shapes := []vf14Cert{
				{Names: []string{def}, Trusted: true, TimeKind: "valid"},
				{Names: []string{alt}, Trusted: true, TimeKind: "valid"},
				{Names: []string{def}, Trusted: false, TimeKind: "valid"},
				{Names: []string{def}, Trusted: true, TimeKind: "expired"},
			}
			if mode == "rejected" {
				shapes = append(shapes, vf14Cert{Names: []string{server}, Trusted: true, TimeKind: "valid"},
					vf14Cert{Names: []string{public, server}, Trusted: true, TimeKind: "valid"})
			}
			for _, cert := range shapes {
				for _, k := range []vf14Knobs{
					{ServerName: server},
					{ServerName: server, SkipVerify: true},
					{ServerName: server, SkipTime: true},
					{ServerName: server, ISNTV: alt},
					{ServerName: server, ISNTV: "*"},
				} {
					n++
					cert.NotBefore, cert.NotAfter = vf14Validity(cert.TimeKind)
					vf14Run(st, t, vf14Case{Ident: id, Version: VersionTLS13, ECH: mode, Public: public, Cert: cert, K1: k, Seed: uint64(n), NameKind: "dns"})
				}
			}
		}
	}
}

// Resumption: shared cache, second connection with changed name/time knobs, on identities that do resume.
func TestVerifC14ResumptionDirected(t *testing.T) {
	st := vfNewStats(t, "C14")
	const server, alt, other = "svc.resume.c14.test", "alt.resume.c14.test", "other.resume.c14.test"
	n := 0
	for _, id := range vf14Identities(t) {
		if !(id.Golang || id.PSK || id.Name == "HelloChrome_102" || id.Name == "HelloFirefox_105" || id.Name == "HelloIOS_14") {
			continue
		}
		for _, ver := range []uint16{VersionTLS12, VersionTLS13} {
			type step struct {
				cert   vf14Cert
				k1, k2 vf14Knobs
			}
			valid := vf14Cert{Names: []string{server}, Trusted: true, TimeKind: "valid"}
			both := vf14Cert{Names: []string{server, alt}, Trusted: true, TimeKind: "valid"}
			expired := vf14Cert{Names: []string{server}, Trusted: true, TimeKind: "expired"}
			notyet := vf14Cert{Names: []string{server}, Trusted: true, TimeKind: "not-yet-valid"}
			short := vf14Cert{Names: []string{server}, Trusted: true, TimeKind: "notbefore==clock"} // valid for 24h
			for _, s := range []step{
				{valid, vf14Knobs{ServerName: server}, vf14Knobs{ServerName: server}},
				{valid, vf14Knobs{ServerName: server}, vf14Knobs{ServerName: server, ISNTV: other}},
				{valid, vf14Knobs{ServerName: server}, vf14Knobs{ServerName: server, ISNTV: "*"}},
				{both, vf14Knobs{ServerName: server, ISNTV: alt}, vf14Knobs{ServerName: server, ISNTV: other}},
				{both, vf14Knobs{ServerName: server, ISNTV: alt}, vf14Knobs{ServerName: server}},
				{valid, vf14Knobs{ServerName: server, ISNTV: "*"}, vf14Knobs{ServerName: server, ISNTV: alt}},
				{valid, vf14Knobs{ServerName: server, SkipVerify: true}, vf14Knobs{ServerName: server}},
				{valid, vf14Knobs{ServerName: server, SkipVerify: true}, vf14Knobs{ServerName: server, ISNTV: other}},
				{expired, vf14Knobs{ServerName: server, SkipTime: true}, vf14Knobs{ServerName: server}},
				{expired, vf14Knobs{ServerName: server, SkipTime: true}, vf14Knobs{ServerName: server, SkipTime: true}},
				{notyet, vf14Knobs{ServerName: server, SkipTime: true}, vf14Knobs{ServerName: server, SkipTime: true}},
				{notyet, vf14Knobs{ServerName: server, SkipTime: true}, vf14Knobs{ServerName: server}},
				{valid, vf14Knobs{ServerName: server}, vf14Knobs{ServerName: server, ClockShift: -48 * time.Hour}},
				{short, vf14Knobs{ServerName: server}, vf14Knobs{ServerName: server, ClockShift: 25 * time.Hour}},
				{short, vf14Knobs{ServerName: server}, vf14Knobs{ServerName: server, ClockShift: 25 * time.Hour, SkipTime: true}},
				{short, vf14Knobs{ServerName: server}, vf14Knobs{ServerName: server, ClockShift: 2 * time.Hour}},
			} {
				n++
				s.cert.NotBefore, s.cert.NotAfter = vf14Validity(s.cert.TimeKind)
				vf14Run(st, t, vf14Case{Ident: id, Version: ver, ECH: "none", Cert: s.cert, K1: s.k1, Second: true, K2: s.k2, Seed: uint64(n), NameKind: "dns"})
			}
			// the same with a ServerName that is not sent as SNI (IP literal): the verification name is still ServerName
			for _, ip := range []string{"192.0.2.77", "2001:db8::77"} {
				ipOnly := vf14Cert{Names: []string{ip}, Trusted: true, TimeKind: "valid"}
				altOnly := vf14Cert{Names: []string{alt}, Trusted: true, TimeKind: "valid"}
				ipAlt := vf14Cert{Names: []string{ip, alt}, Trusted: true, TimeKind: "valid"}
				for _, s := range []step{
					{ipOnly, vf14Knobs{ServerName: ip}, vf14Knobs{ServerName: ip}},
					{altOnly, vf14Knobs{ServerName: ip, ISNTV: alt}, vf14Knobs{ServerName: ip}},
					{altOnly, vf14Knobs{ServerName: ip, ISNTV: "*"}, vf14Knobs{ServerName: ip}},
					{altOnly, vf14Knobs{ServerName: ip, SkipVerify: true}, vf14Knobs{ServerName: ip}},
					{ipAlt, vf14Knobs{ServerName: ip, ISNTV: alt}, vf14Knobs{ServerName: ip}},
					{ipAlt, vf14Knobs{ServerName: ip}, vf14Knobs{ServerName: ip, ISNTV: other}},
					{ipOnly, vf14Knobs{ServerName: ip}, vf14Knobs{ServerName: ip, ISNTV: "*"}},
				} {
					n++
					s.cert.NotBefore, s.cert.NotAfter = vf14Validity(s.cert.TimeKind)
					vf14Run(st, t, vf14Case{Ident: id, Version: ver, ECH: "none", Cert: s.cert, K1: s.k1, Second: true, K2: s.k2, Seed: uint64(n), NameKind: "ip"})
				}
			}
		}
	}
}

func TestVerifC14Random(t *testing.T) {
	st := vfNewStats(t, "C14")
	idents := vf14Identities(t)
	rapid.Check(t, func(rt *rapid.T) {
		vf14Run(st, rt, vf14GenCase(rt, idents))
	})
}
