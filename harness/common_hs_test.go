//go:build verif

package tls

// Handshake-grid engine shared by C10, C11, C18 (and others): prepares a uTLS client from a generated source,
// derives the *on-wire* offer with the reference parser, lets the caller choose compliant-server parameters
// from that offer, and runs the handshake against upstream's tls.Server over vfPipe.

import (
	"encoding/hex"
	"errors"
	"fmt"
	"net"
	"strings"

	"pgregory.net/rapid"
)

type vfOffer struct {
	Hello       *vfHello
	Versions    []uint16 // versions the hello advertises (supported_versions, else specMin..legacy_version), descending
	Suites      []uint16
	Groups      []uint16
	Shares      []uint16 // groups with a key share (non-GREASE)
	ALPN        []string
	SigAlgs     []uint16
	HasSigAlgs  bool
	SNI         string
	HasSNI      bool
	EMS         bool
	Ticket      bool
	PSK         bool
	Reneg       bool
	HasSuppVers bool
}

func vfOfferOf(h *vfHello, specMin uint16) *vfOffer {
	o := &vfOffer{Hello: h}
	if sv, ok := h.SupportedVersions(); ok {
		o.HasSuppVers = true
		for _, v := range sv {
			if !vfIsGREASE(v) {
				o.Versions = append(o.Versions, v)
			}
		}
	} else {
		if specMin == 0 || specMin > h.Version {
			specMin = h.Version
		}
		for v := h.Version; v >= specMin && v >= VersionTLS10; v-- {
			o.Versions = append(o.Versions, v)
		}
	}
	for _, s := range h.Suites {
		if !vfIsGREASE(s) {
			o.Suites = append(o.Suites, s)
		}
	}
	for _, g := range h.Groups() {
		if !vfIsGREASE(g) {
			o.Groups = append(o.Groups, g)
		}
	}
	for _, ks := range h.KeyShares() {
		if !vfIsGREASE(ks.Group) {
			o.Shares = append(o.Shares, ks.Group)
		}
	}
	o.ALPN = h.ALPN()
	if h.Ext(13) != nil {
		o.HasSigAlgs = true
		o.SigAlgs = h.SigAlgs()
	}
	o.SNI, o.HasSNI = h.SNI()
	o.EMS = h.Ext(23) != nil
	o.Ticket = h.Ext(35) != nil
	o.PSK = h.Ext(41) != nil
	o.Reneg = h.Ext(0xff01) != nil || vfContains16(h.Suites, 0x00ff)
	return o
}

func (o *vfOffer) HasVersion(v uint16) bool { return vfContains16(o.Versions, v) }

// ---- what upstream's server (the "compliant server") and utls both implement ----

var vfTLS13Suites = []uint16{TLS_AES_128_GCM_SHA256, TLS_AES_256_GCM_SHA384, TLS_CHACHA20_POLY1305_SHA256}

type vfSuiteInfo struct {
	ID     uint16
	TLS12  bool   // only valid for TLS 1.2
	Kx     string // "ecdhe" or "rsa"
	Auth   string // "rsa" or "ecdsa"
	IsAEAD bool
	Name   string
	IsCBC  bool
	IsRC4  bool
	Is3DES bool
	IsSHA2 bool
}

// independent table of the TLS <= 1.2 suites that crypto/tls (and hence utls and its server) implements
var vfLegacySuites = []vfSuiteInfo{
	{ID: 0x0005, Kx: "rsa", Auth: "rsa", Name: "RSA_RC4_128_SHA", IsRC4: true},
	{ID: 0x000a, Kx: "rsa", Auth: "rsa", Name: "RSA_3DES_EDE_CBC_SHA", Is3DES: true, IsCBC: true},
	{ID: 0x002f, Kx: "rsa", Auth: "rsa", Name: "RSA_AES_128_CBC_SHA", IsCBC: true},
	{ID: 0x0035, Kx: "rsa", Auth: "rsa", Name: "RSA_AES_256_CBC_SHA", IsCBC: true},
	{ID: 0x003c, Kx: "rsa", Auth: "rsa", Name: "RSA_AES_128_CBC_SHA256", TLS12: true, IsCBC: true, IsSHA2: true},
	{ID: 0x009c, Kx: "rsa", Auth: "rsa", Name: "RSA_AES_128_GCM_SHA256", TLS12: true, IsAEAD: true},
	{ID: 0x009d, Kx: "rsa", Auth: "rsa", Name: "RSA_AES_256_GCM_SHA384", TLS12: true, IsAEAD: true},
	{ID: 0xc007, Kx: "ecdhe", Auth: "ecdsa", Name: "ECDHE_ECDSA_RC4_128_SHA", IsRC4: true},
	{ID: 0xc009, Kx: "ecdhe", Auth: "ecdsa", Name: "ECDHE_ECDSA_AES_128_CBC_SHA", IsCBC: true},
	{ID: 0xc00a, Kx: "ecdhe", Auth: "ecdsa", Name: "ECDHE_ECDSA_AES_256_CBC_SHA", IsCBC: true},
	{ID: 0xc011, Kx: "ecdhe", Auth: "rsa", Name: "ECDHE_RSA_RC4_128_SHA", IsRC4: true},
	{ID: 0xc012, Kx: "ecdhe", Auth: "rsa", Name: "ECDHE_RSA_3DES_EDE_CBC_SHA", Is3DES: true, IsCBC: true},
	{ID: 0xc013, Kx: "ecdhe", Auth: "rsa", Name: "ECDHE_RSA_AES_128_CBC_SHA", IsCBC: true},
	{ID: 0xc014, Kx: "ecdhe", Auth: "rsa", Name: "ECDHE_RSA_AES_256_CBC_SHA", IsCBC: true},
	{ID: 0xc023, Kx: "ecdhe", Auth: "ecdsa", Name: "ECDHE_ECDSA_AES_128_CBC_SHA256", TLS12: true, IsCBC: true, IsSHA2: true},
	{ID: 0xc027, Kx: "ecdhe", Auth: "rsa", Name: "ECDHE_RSA_AES_128_CBC_SHA256", TLS12: true, IsCBC: true, IsSHA2: true},
	{ID: 0xc02f, Kx: "ecdhe", Auth: "rsa", Name: "ECDHE_RSA_AES_128_GCM_SHA256", TLS12: true, IsAEAD: true},
	{ID: 0xc02b, Kx: "ecdhe", Auth: "ecdsa", Name: "ECDHE_ECDSA_AES_128_GCM_SHA256", TLS12: true, IsAEAD: true},
	{ID: 0xc030, Kx: "ecdhe", Auth: "rsa", Name: "ECDHE_RSA_AES_256_GCM_SHA384", TLS12: true, IsAEAD: true},
	{ID: 0xc02c, Kx: "ecdhe", Auth: "ecdsa", Name: "ECDHE_ECDSA_AES_256_GCM_SHA384", TLS12: true, IsAEAD: true},
	{ID: 0xcca8, Kx: "ecdhe", Auth: "rsa", Name: "ECDHE_RSA_CHACHA20_POLY1305", TLS12: true, IsAEAD: true},
	{ID: 0xcca9, Kx: "ecdhe", Auth: "ecdsa", Name: "ECDHE_ECDSA_CHACHA20_POLY1305", TLS12: true, IsAEAD: true},
}

func vfLegacySuite(id uint16) *vfSuiteInfo {
	for i := range vfLegacySuites {
		if vfLegacySuites[i].ID == id {
			return &vfLegacySuites[i]
		}
	}
	return nil
}

// classical groups both sides implement
var vfClassicalGroups = []uint16{0x001d, 0x0017, 0x0018, 0x0019}

const vfGroupX25519MLKEM768 = 0x11ec

// vfCertKeysFor returns the certificate key types a compliant server may use given the client's
// signature_algorithms offer, the version and (for <= 1.2) the suite's authentication type.
func vfCertKeysFor(o *vfOffer, ver uint16, auth string) []string {
	has := func(vals ...uint16) bool {
		for _, v := range vals {
			if vfContains16(o.SigAlgs, v) {
				return true
			}
		}
		return false
	}
	var out []string
	if ver == VersionTLS13 {
		if has(0x0403) {
			out = append(out, "ecdsa")
		}
		if has(0x0804, 0x0805, 0x0806) {
			out = append(out, "rsa")
		}
		if has(0x0807) {
			out = append(out, "ed25519")
		}
		return out
	}
	if ver == VersionTLS12 {
		if !o.HasSigAlgs {
			// RFC 5246 7.4.1.4.1 defaults: rsa+sha1 / ecdsa+sha1
			if auth == "rsa" {
				return []string{"rsa"}
			}
			return []string{"ecdsa"}
		}
		if auth == "rsa" || auth == "" {
			if has(0x0804, 0x0805, 0x0806, 0x0401, 0x0501, 0x0601, 0x0201) {
				out = append(out, "rsa")
			}
		}
		if auth == "ecdsa" || auth == "" {
			if has(0x0403, 0x0503, 0x0603, 0x0203) {
				out = append(out, "ecdsa")
			}
			if has(0x0807) {
				out = append(out, "ed25519")
			}
		}
		return out
	}
	// TLS 1.0 / 1.1: fixed signature algorithms
	if auth == "rsa" {
		return []string{"rsa"}
	}
	return []string{"ecdsa"}
}

// ---- client sources ----

type vfClientSrc struct {
	Kind string // "parrot", "randomized", "custom", "fingerprinted"
	Name string
	ID   ClientHelloID
	Spec *ClientHelloSpec // applied via ApplyPreset when non-nil (ID is then HelloCustom); single use
	// SpecFn returns a FRESH spec per connection: ApplyPreset writes key shares and GREASE values into the spec's
	// extension objects, and the library documents that a spec must not be shared between connections
	SpecFn func() *ClientHelloSpec
	SeedHx string
	// FirstBuild "without-session": the hello is first built with BuildHandshakeStateWithoutSession (the other
	// documented way to build it for inspection) instead of BuildHandshakeState
	FirstBuild string
}

func (s vfClientSrc) String() string {
	fb := ""
	if s.FirstBuild != "" {
		fb = "(first build " + s.FirstBuild + ")"
	}
	if s.SeedHx != "" {
		return s.Kind + ":" + s.Name + ":" + s.SeedHx + fb
	}
	return s.Kind + ":" + s.Name + fb
}

func vfGenWeights(t *rapid.T, label string) *Weights {
	w := DefaultWeights
	g := func(name string) float64 {
		switch rapid.IntRange(0, 3).Draw(t, label+"_"+name+"_k") {
		case 0:
			return 0
		case 1:
			return 1
		case 2:
			return rapid.Float64Range(0, 1).Draw(t, label+"_"+name)
		}
		return -1 // keep default
	}
	set := func(p *float64, name string) {
		if v := g(name); v >= 0 {
			*p = v
		}
	}
	set(&w.Extensions_Append_ALPN, "alpn")
	set(&w.TLSVersMax_Set_VersionTLS13, "tls13")
	set(&w.CipherSuites_Remove_RandomCiphers, "rmciphers")
	set(&w.SigAndHashAlgos_Append_ECDSAWithSHA1, "ecdsasha1")
	set(&w.SigAndHashAlgos_Append_ECDSAWithP521AndSHA512, "p521sha512")
	set(&w.SigAndHashAlgos_Append_PSSWithSHA256, "pss256")
	set(&w.SigAndHashAlgos_Append_PSSWithSHA384_PSSWithSHA512, "pss384")
	set(&w.CurveIDs_Append_X25519, "x25519")
	set(&w.CurveIDs_Append_CurveP521, "p521")
	set(&w.Extensions_Append_Padding, "padding")
	set(&w.Extensions_Append_Status, "status")
	set(&w.Extensions_Append_SCT, "sct")
	set(&w.Extensions_Append_Reneg, "reneg")
	set(&w.Extensions_Append_EMS, "ems")
	set(&w.FirstKeyShare_Set_CurveP256, "firstp256")
	set(&w.KeyShare_Append_RandomGroups, "ksrandom")
	set(&w.Extensions_Append_ALPS, "alps")
	return &w
}

func vfGenRandomizedID(t *rapid.T, label string) vfClientSrc {
	base := []ClientHelloID{HelloRandomized, HelloRandomizedALPN, HelloRandomizedNoALPN}[rapid.IntRange(0, 2).Draw(t, label+"_variant")]
	seedBytes := rapid.SliceOfN(rapid.Byte(), 32, 32).Draw(t, label+"_seed")
	var seed PRNGSeed
	copy(seed[:], seedBytes)
	id := base
	id.Seed = &seed
	if rapid.Bool().Draw(t, label+"_customweights") {
		id.Weights = vfGenWeights(t, label+"_w")
	} else {
		w := DefaultWeights
		id.Weights = &w
	}
	return vfClientSrc{Kind: "randomized", Name: base.Client, ID: id, SeedHx: hex.EncodeToString(seedBytes[:8])}
}

// vfGenClientSrc draws a parrot (most of the time), a randomized spec, a handshake-capable generated custom spec or
// a fingerprinted copy of a parrot's hello.
func vfGenClientSrc(t *rapid.T, label string) vfClientSrc {
	src := vfGenClientSrc0(t, label)
	if rapid.IntRange(0, 4).Draw(t, label+"_first_build_without_session") == 0 {
		src.FirstBuild = "without-session"
	}
	return src
}

func vfGenClientSrc0(t *rapid.T, label string) vfClientSrc {
	k := rapid.IntRange(0, 19).Draw(t, label+"_kind")
	switch {
	case k < 11:
		p := vfGenParrot(t, label+"_parrot")
		return vfClientSrc{Kind: "parrot", Name: p.Name, ID: p.ID}
	case k < 15:
		return vfGenRandomizedID(t, label)
	case k < 18:
		spec, meta := vfGenCustomSpec(t)
		if meta.HandshakeCapable && !meta.HasPSK {
			_ = spec
			return vfClientSrc{Kind: "custom", Name: meta.Mode, ID: HelloCustom, SpecFn: meta.Build, SeedHx: vfHashHex([]byte(meta.TypeKey()))[:8]}
		}
		p := vfGenParrot(t, label+"_parrot")
		return vfClientSrc{Kind: "parrot", Name: p.Name, ID: p.ID}
	default:
		p := vfGenParrot(t, label+"_parrot")
		if rapid.Bool().Draw(t, label+"_capture_reordered") {
			// a capture of a client that orders its extensions differently (padding in the middle, ...)
			if src, ok := vfFingerprintedReorderedSrc(p, rapid.Uint64().Draw(t, label+"_capture_order")); ok {
				return src
			}
		}
		if src, ok := vfFingerprintedSrc(p); ok {
			return src
		}
		return vfClientSrc{Kind: "parrot", Name: p.Name, ID: p.ID}
	}
}

// vfFingerprintedReorderedSrc is vfFingerprintedSrc on a capture whose extensions were permuted (pre_shared_key stays
// last): the same offer as the parrot's, in an order no built-in parrot uses.
func vfFingerprintedReorderedSrc(p vfParrot, order uint64) (vfClientSrc, bool) {
	cp, _ := vfPipe()
	defer cp.Close()
	cfg := vfClientConfig("fingerprint.example")
	cfg.OmitEmptyPsk = true
	uc := UClient(cp, cfg, p.ID)
	if err := uc.BuildHandshakeState(); err != nil {
		return vfClientSrc{}, false
	}
	h := vfParseClientHello(uc.HandshakeState.Hello.Raw)
	if len(h.Violations) > 0 || len(h.Exts) < 3 {
		return vfClientSrc{}, false
	}
	n := len(h.Exts)
	if h.Exts[n-1].Type == 41 {
		n--
	}
	x := order | 1
	for i := n - 1; i > 0; i-- { // Fisher-Yates driven by the drawn value
		x = x*6364136223846793005 + 1442695040888963407
		j := int((x >> 33) % uint64(i+1))
		h.Exts[i], h.Exts[j] = h.Exts[j], h.Exts[i]
	}
	raw := vfSerializeHello(h)
	rec := append([]byte{22, 3, 1, byte(len(raw) >> 8), byte(len(raw))}, raw...)
	mk := func() *ClientHelloSpec {
		spec, err := (&Fingerprinter{AllowBluntMimicry: true}).FingerprintClientHello(rec)
		if err != nil {
			return nil
		}
		return spec
	}
	if mk() == nil {
		return vfClientSrc{}, false
	}
	return vfClientSrc{Kind: "fingerprinted", Name: p.Name + "/reordered", ID: HelloCustom, SpecFn: mk, SeedHx: fmt.Sprintf("%x", order)}, true
}

// vfFingerprintedSrc builds the parrot's hello once, fingerprints the record and returns the resulting spec as a source.
func vfFingerprintedSrc(p vfParrot) (vfClientSrc, bool) {
	cp, _ := vfPipe()
	defer cp.Close()
	cfg := vfClientConfig("fingerprint.example")
	cfg.OmitEmptyPsk = true
	uc := UClient(cp, cfg, p.ID)
	if err := uc.BuildHandshakeState(); err != nil {
		return vfClientSrc{}, false
	}
	raw := uc.HandshakeState.Hello.Raw
	rec := append([]byte{22, 3, 1, byte(len(raw) >> 8), byte(len(raw))}, raw...)
	mk := func() *ClientHelloSpec {
		spec, err := (&Fingerprinter{AllowBluntMimicry: true}).FingerprintClientHello(rec)
		if err != nil {
			return nil
		}
		return spec
	}
	if mk() == nil {
		return vfClientSrc{}, false
	}
	return vfClientSrc{Kind: "fingerprinted", Name: p.Name, ID: HelloCustom, SpecFn: mk}, true
}

// ---- prepared client ----

type vfPrepared struct {
	Src   vfClientSrc
	CP    *vfConn
	SP    *vfConn
	UC    *UConn
	CCfg  *Config
	Offer *vfOffer
}

// vfPrepareClient builds the UConn (over a fresh pipe) and its ClientHello, and parses the offer.
// mod (optional) may edit the client Config before UClient is created.
func vfPrepareClient(src vfClientSrc, sni string, randSeed uint64, mod func(*Config)) (*vfPrepared, error) {
	cp, sp := vfPipe()
	ccfg := vfClientConfig(sni)
	ccfg.OmitEmptyPsk = true
	ccfg.Rand = vfNewDetRand(randSeed, "client")
	if mod != nil {
		mod(ccfg)
	}
	uc := UClient(cp, ccfg, src.ID)
	spec := src.Spec
	if src.SpecFn != nil {
		spec = src.SpecFn()
	}
	if spec != nil {
		if err := uc.ApplyPreset(spec); err != nil {
			return nil, fmt.Errorf("ApplyPreset: %w", err)
		}
	}
	if src.FirstBuild == "without-session" {
		if err := uc.BuildHandshakeStateWithoutSession(); err != nil {
			return nil, fmt.Errorf("BuildHandshakeStateWithoutSession: %w", err)
		}
	} else if err := uc.BuildHandshakeState(); err != nil {
		return nil, fmt.Errorf("BuildHandshakeState: %w", err)
	}
	raw := uc.HandshakeState.Hello.Raw
	if len(raw) == 0 && src.ID.Client == helloGolang {
		// HelloGolang marshals lazily: the offer is read from the marshalled form of the built message
		if b, err := uc.HandshakeState.Hello.Marshal(); err == nil {
			raw = b
		}
	}
	h := vfParseClientHello(raw)
	p := &vfPrepared{Src: src, CP: cp, SP: sp, UC: uc, CCfg: ccfg}
	p.Offer = vfOfferOf(h, uc.config.MinVersion)
	return p, nil
}

// ---- compliant-server choice ----

type vfSrvChoice struct {
	Ver     uint16
	Suite   uint16 // 0 = server default (TLS 1.3: upstream's server cannot be pinned to one suite)
	Group   uint16 // 0 = server default preference
	ALPN    string // "" = none configured
	CertKey string
	HRR     bool // derived: TLS 1.3 and Group has no share
}

func (c vfSrvChoice) String() string {
	return fmt.Sprintf("ver=%04x suite=%04x group=%04x alpn=%q cert=%s hrr=%v", c.Ver, c.Suite, c.Group, c.ALPN, c.CertKey, c.HRR)
}

// vfGenSrvChoice draws compliant-server parameters from the on-wire offer ∩ what both sides implement.
// ok=false when the offer leaves no implemented choice (e.g. only fake suites).
func vfGenSrvChoice(t *rapid.T, o *vfOffer, label string) (c vfSrvChoice, ok bool) {
	var vers []uint16
	for _, v := range o.Versions {
		if v >= VersionTLS10 && v <= VersionTLS13 {
			vers = append(vers, v)
		}
	}
	if len(vers) == 0 {
		return c, false
	}
	// bias towards the two highest versions
	vi := 0
	if len(vers) > 1 {
		k := rapid.IntRange(0, 9).Draw(t, label+"_veri")
		switch {
		case k < 5:
			vi = 0
		case k < 8:
			vi = 1
		default:
			vi = rapid.IntRange(0, len(vers)-1).Draw(t, label+"_veri2")
		}
	}
	c.Ver = vers[vi]
	if c.Ver == VersionTLS13 {
		any13 := false
		for _, s := range vfTLS13Suites {
			if vfContains16(o.Suites, s) {
				any13 = true
			}
		}
		if !any13 {
			return c, false
		}
		var groups []uint16
		for _, g := range o.Groups {
			if vfContains16(vfClassicalGroups, g) {
				groups = append(groups, g)
			} else if g == vfGroupX25519MLKEM768 && vfContains16(o.Shares, g) {
				// hybrid only when a share was sent: selecting a hybrid group through HRR is not implemented
				// by utls/crypto/tls (documented in processHelloRetryRequest) and outside "what utls implements"
				groups = append(groups, g)
			}
		}
		if len(groups) == 0 {
			return c, false
		}
		hybridWithoutShare := false
		for _, g := range o.Groups {
			if (g == vfGroupX25519MLKEM768) && !vfContains16(o.Shares, g) {
				// a spec listing a hybrid group without a share: a default server would ask for it by HRR, which utls
				// does not implement (documented); such a spec is the spec author's inconsistency, so pin a group
				hybridWithoutShare = true
			}
		}
		if rapid.IntRange(0, 4).Draw(t, label+"_grpdefault") == 0 && !hybridWithoutShare {
			c.Group = 0
		} else {
			c.Group = groups[rapid.IntRange(0, len(groups)-1).Draw(t, label+"_grp")]
			c.HRR = !vfContains16(o.Shares, c.Group)
		}
		keys := vfCertKeysFor(o, c.Ver, "")
		if len(keys) == 0 {
			return c, false
		}
		c.CertKey = keys[rapid.IntRange(0, len(keys)-1).Draw(t, label+"_cert")]
	} else {
		var cands []*vfSuiteInfo
		for _, s := range o.Suites {
			si := vfLegacySuite(s)
			if si == nil {
				continue
			}
			if si.TLS12 && c.Ver < VersionTLS12 {
				continue
			}
			if si.Kx == "ecdhe" {
				// needs a mutually supported classical group (or no supported_groups extension at all)
				okg := o.Hello.Ext(10) == nil
				for _, g := range o.Groups {
					if vfContains16(vfClassicalGroups, g) {
						okg = true
					}
				}
				if !okg {
					continue
				}
			}
			if len(vfCertKeysFor(o, c.Ver, si.Auth)) == 0 {
				continue
			}
			cands = append(cands, si)
		}
		if len(cands) == 0 {
			return c, false
		}
		si := cands[rapid.IntRange(0, len(cands)-1).Draw(t, label+"_suite")]
		c.Suite = si.ID
		keys := vfCertKeysFor(o, c.Ver, si.Auth)
		c.CertKey = keys[rapid.IntRange(0, len(keys)-1).Draw(t, label+"_cert")]
		if si.Kx == "ecdhe" && o.Hello.Ext(10) != nil && rapid.Bool().Draw(t, label+"_forcegrp") {
			var groups []uint16
			for _, g := range o.Groups {
				if vfContains16(vfClassicalGroups, g) {
					groups = append(groups, g)
				}
			}
			c.Group = groups[rapid.IntRange(0, len(groups)-1).Draw(t, label+"_grp")]
		}
	}
	if len(o.ALPN) > 0 && rapid.IntRange(0, 3).Draw(t, label+"_alpnuse") != 0 {
		c.ALPN = o.ALPN[rapid.IntRange(0, len(o.ALPN)-1).Draw(t, label+"_alpn")]
	}
	return c, true
}

// vfServerConfigFor turns a choice into a tls.Server config.
func vfServerConfigFor(c vfSrvChoice, names ...string) *Config {
	scfg := vfServerConfig(c.CertKey, names...)
	scfg.MinVersion = c.Ver
	scfg.MaxVersion = c.Ver
	if c.Suite != 0 {
		scfg.CipherSuites = []uint16{c.Suite}
	}
	if c.Group != 0 {
		scfg.CurvePreferences = []CurveID{CurveID(c.Group)}
	}
	if c.ALPN != "" {
		scfg.NextProtos = []string{c.ALPN}
	}
	return scfg
}

// vfIsRemoteAlert reports whether err is an alert received from the peer ("remote error: tls: ...").
func vfIsRemoteAlert(err error) bool {
	var op *net.OpError
	if errors.As(err, &op) && op.Op == "remote error" {
		return true
	}
	return err != nil && strings.Contains(err.Error(), "remote error: tls:")
}

func vfCertNames(sni string) []string {
	if sni == "" {
		return []string{"example.test"}
	}
	return []string{strings.TrimSuffix(sni, ".")}
}

// ---- grid runner ----

// server-side errors that mean "the server rejects the offer" (negotiation failure, allowed by the property);
// anything else on the server side (bad record MAC, decrypt error, bad Finished...) is a cryptographic or
// protocol disagreement and is not excused.
var vfGridServerRejections = []string{
	"no cipher suite supported by both client and server",
	"client offered only unsupported versions",
	"client requested unsupported application protocols",
	"no ECDHE curve supported by both client and server",
	"client doesn't support any of the certificate's signature algorithms",
	"client doesn't support certificate curve",
	"no supported signature algorithm",
	"peer doesn't support any of the certificate's signature algorithms",
}

func vfGridIsServerRejection(serr error) bool {
	if serr == nil {
		return false
	}
	for _, m := range vfGridServerRejections {
		if strings.Contains(serr.Error(), m) {
			return true
		}
	}
	return false
}

type vfGridResult struct {
	Prepared *vfPrepared
	Choice   vfSrvChoice
	Pair     *vfPair
	SCfg     *Config
	SNI      string
	OK       bool
}

type vfGridOpts struct {
	Src      *vfClientSrc            // nil = draw
	SNI      *string                 // nil = draw
	CCfgMod  func(*Config)           // edits the client config before UClient
	Prep     func(*vfPrepared) error // runs on the prepared client before the server choice (after the first build)
	Choice   *vfSrvChoice            // nil = draw from the offer
	SCfg     *Config                 // nil = build from the choice
	KeepOpen bool                    // do not close the pair on return
	// OnlySuccess: the property of the caller speaks about successful handshakes only; a failed handshake is
	// counted (class) and the case dropped instead of being judged (judging it is C10's business)
	OnlySuccess bool
	Label       string
	Note        string        // appended to the description of the case in messages
	SCfgMod     func(*Config) // edits the server config built from the choice (compliant server behaviours)
}

// vfGridRun executes one grid case. It returns the finished pair when both handshakes succeeded and the
// application-data echo worked (nil when the case was excluded); violations are reported through st under prop.
func vfGridRun(rt *rapid.T, st *vfStats, prop string, o vfGridOpts) *vfGridResult {
	var src vfClientSrc
	if o.Src != nil {
		src = *o.Src
	} else {
		src = vfGenClientSrc(rt, o.Label+"src")
	}
	var sni string
	if o.SNI != nil {
		sni = *o.SNI
	} else {
		sni = vfGenDNSName(rt, o.Label+"sni")
	}
	rseed := rapid.Uint64().Draw(rt, o.Label+"randseed")
	st.Eval()
	p, err := vfPrepareClient(src, sni, rseed, o.CCfgMod)
	if err != nil {
		st.Violation(rt, "%s: client could not build its ClientHello: %v", src, err)
	}
	if o.Prep != nil {
		if err := o.Prep(p); err != nil {
			st.Violation(rt, "%s: preparing the client failed: %v", src, err)
		}
	}
	if len(p.Offer.Hello.Violations) > 0 {
		st.Class("malformed-hello(C02's business)")
	}
	var choice vfSrvChoice
	if o.Choice != nil {
		choice = *o.Choice
	} else {
		var ok bool
		choice, ok = vfGenSrvChoice(rt, p.Offer, o.Label+"srv")
		if !ok {
			st.Class("no-implemented-choice")
			return nil
		}
	}
	scfg := o.SCfg
	if scfg == nil {
		// the certificate must be valid for the name the client verifies: an SNIExtension of a custom spec may carry
		// its own name, which utls copies into Config.ServerName
		names := vfCertNames(sni)
		if n := p.CCfg.ServerName; n != "" && n != sni {
			names = append(names, vfCertNames(n)...)
		}
		scfg = vfServerConfigFor(choice, names...)
		if o.SCfgMod != nil {
			o.SCfgMod(scfg)
		}
	}
	pair := &vfPair{CP: p.CP, SP: p.SP, Cli: p.UC, Srv: Server(p.SP, scfg)}
	if !o.KeepOpen {
		defer pair.Close()
	}
	cerr, serr := pair.Handshake()
	desc := fmt.Sprintf("%s sni=%s | %s", src, sni, choice)
	if o.Note != "" {
		desc += " | " + o.Note
	}
	if src.Kind == "custom" || src.Kind == "fingerprinted" {
		desc += fmt.Sprintf(" [sigalgs %04x groups %04x shares %04x]", p.Offer.SigAlgs, p.Offer.Groups, p.Offer.Shares)
	}
	res := &vfGridResult{Prepared: p, Choice: choice, Pair: pair, SCfg: scfg, SNI: sni}

	// which group did the server actually select?
	var selGroup uint16
	shs := vfServerHellosOnWire(pair.SP.Written())
	if len(shs) > 0 {
		selGroup = shs[len(shs)-1].KeyShareGroup()
	}
	st.Class(fmt.Sprintf("ver=%04x", choice.Ver))
	st.Class("kind=" + src.Kind)
	if choice.HRR {
		st.Class("hrr")
	}

	if (cerr != nil || serr != nil) && o.OnlySuccess && cerr != errVfHang && serr != errVfHang {
		st.Class("handshake-failed(judged under C10)")
		return nil
	}
	if cerr != nil || serr != nil {
		if cerr == errVfHang || serr == errVfHang {
			st.Violation(rt, "%s: handshake hung (cerr=%v serr=%v)", desc, cerr, serr)
		}
		if vfGridIsServerRejection(serr) && (cerr == nil || vfIsRemoteAlert(cerr) || strings.Contains(cerr.Error(), "EOF") || strings.Contains(cerr.Error(), "closed")) {
			st.Class("server-rejected-offer: " + serr.Error())
			return nil
		}
		// known class: the server selected a classical share that is not the first classical share of the hello
		if cerr != nil && strings.Contains(cerr.Error(), "invalid server key share") && selGroup != 0 && vfContains16(p.Offer.Shares, selGroup) {
			first := uint16(0)
			for _, g := range p.Offer.Shares {
				if vfContains16(vfClassicalGroups, g) {
					first = g
					break
				}
			}
			if first != 0 && selGroup != first && vfContains16(vfClassicalGroups, selGroup) {
				st.KnownOrViolation(rt, prop+":server-selects-non-first-classical-share",
					"%s: server selected group %#x for which the client sent a share, client aborts: %v", desc, selGroup, cerr)
				return nil
			}
		}
		// known class (documented TODO in processHelloRetryRequest): a utls-built hello carrying a real PSK cannot be
		// re-marshalled after a HelloRetryRequest
		if cerr != nil && strings.Contains(cerr.Error(), "uTLS does not support reprocessing of PSK key triggered by HelloRetryRequest") {
			st.KnownOrViolation(rt, prop+":psk-resumption-hrr", "%s: resumption with a PSK answered by a HelloRetryRequest: %v", desc, cerr)
			return nil
		}
		// known class: the hello lists a hybrid group in supported_groups without sending a share for it (C09's
		// defect in randomized specs); a server preferring that group answers with a HelloRetryRequest for it, which
		// neither crypto/tls nor utls can follow
		if cerr != nil && strings.Contains(cerr.Error(), "CurvePreferences includes unsupported curve") && len(shs) > 0 && shs[0].IsHRR &&
			shs[0].KeyShareGroup() == vfGroupX25519MLKEM768 && !vfContains16(p.Offer.Shares, vfGroupX25519MLKEM768) {
			st.KnownOrViolation(rt, prop+":hybrid-group-listed-without-share",
				"%s: supported_groups lists X25519MLKEM768 without a key share; server HRR for it makes the client abort: %v", desc, cerr)
			return nil
		}
		st.Violation(rt, "%s: handshake failed although every server choice was offered on the wire and is implemented: client err=%v, server err=%v", desc, cerr, serr)
	}
	// both completed: parameters must be the chosen ones and data must flow both ways
	cs, ss := pair.Cli.ConnectionState(), pair.Srv.ConnectionState()
	if cs.Version != choice.Ver || ss.Version != choice.Ver {
		st.Violation(rt, "%s: negotiated version client=%04x server=%04x", desc, cs.Version, ss.Version)
	}
	if choice.Suite != 0 && (cs.CipherSuite != choice.Suite || ss.CipherSuite != choice.Suite) {
		st.Violation(rt, "%s: negotiated suite client=%04x server=%04x", desc, cs.CipherSuite, ss.CipherSuite)
	}
	if !vfContains16(p.Offer.Suites, cs.CipherSuite) {
		st.Violation(rt, "%s: negotiated suite %04x was not offered", desc, cs.CipherSuite)
	}
	if cs.NegotiatedProtocol != choice.ALPN || ss.NegotiatedProtocol != choice.ALPN {
		st.Violation(rt, "%s: ALPN client=%q server=%q", desc, cs.NegotiatedProtocol, ss.NegotiatedProtocol)
	}
	if choice.Ver == VersionTLS13 && choice.Group != 0 && selGroup != choice.Group {
		st.Violation(rt, "%s: server selected group %#x", desc, selGroup)
	}
	c2s := rapid.SliceOfN(rapid.Byte(), 1, 300).Draw(rt, o.Label+"c2s")
	s2c := rapid.SliceOfN(rapid.Byte(), 1, 300).Draw(rt, o.Label+"s2c")
	if err := pair.Echo(c2s, s2c); err != nil {
		st.Violation(rt, "%s: application data round trip failed: %v", desc, err)
	}
	if err := pair.Echo(s2c, c2s); err != nil {
		st.Violation(rt, "%s: second application data round trip failed: %v", desc, err)
	}
	res.OK = true
	// non-trivial: the server's choice differs from what a default tls.Server would pick
	nt := choice.HRR || choice.Ver != p.Offer.Versions[0] || choice.Suite != 0 || choice.CertKey != "rsa" ||
		(choice.Group != 0 && len(p.Offer.Shares) > 0 && choice.Group != p.Offer.Shares[0])
	if nt {
		st.NonTrivial(fmt.Sprintf("%s|%04x|%04x|%04x|%v|%s|%v", src.Kind+":"+src.Name, choice.Ver, cs.CipherSuite, selGroup, choice.HRR, choice.CertKey, choice.ALPN != ""))
	}
	st.Sample(map[string]any{"client": src.String(), "sni": sni, "server": choice.String(), "suite": fmt.Sprintf("%04x", cs.CipherSuite), "group": fmt.Sprintf("%04x", selGroup)})
	return res
}

// vfGenTLS13Src draws a source whose hello carries key shares: a TLS 1.3 parrot or a randomized spec forced to 1.3.
func vfGenTLS13Src(rt *rapid.T) vfClientSrc {
	src := vfGenTLS13Src0(rt)
	if rapid.IntRange(0, 4).Draw(rt, "first_build_without_session") == 0 {
		src.FirstBuild = "without-session"
	}
	return src
}

func vfGenTLS13Src0(rt *rapid.T) vfClientSrc {
	// parrots whose hello carries key shares, a randomized spec forced to TLS 1.3, or a parrot's spec whose key_share
	// and supported_groups are replaced by a drawn list of up to five groups (several classical shares, hybrid anywhere)
	kind := rapid.IntRange(0, 11).Draw(rt, "kind")
	if kind >= 10 {
		base := []ClientHelloID{HelloChrome_120, HelloFirefox_120, HelloChrome_102, HelloChrome_133, HelloIOS_14}[rapid.IntRange(0, 4).Draw(rt, "msbase")]
		pool := []CurveID{X25519, CurveP256, CurveP384, CurveP521, X25519MLKEM768}
		perm := rapid.Permutation(pool).Draw(rt, "msperm")
		nShares := rapid.IntRange(1, 5).Draw(rt, "msshares")
		nExtraGroups := rapid.IntRange(0, 5-nShares).Draw(rt, "msextra")
		shares := append([]CurveID(nil), perm[:nShares]...)
		groups := append([]CurveID(nil), perm[:nShares+nExtraGroups]...)
		mk := func() *ClientHelloSpec {
			spec, _ := UTLSIdToSpec(base)
			var exts []TLSExtension
			for _, e := range spec.Extensions {
				switch e.(type) {
				case *KeyShareExtension:
					ks := &KeyShareExtension{}
					for _, g := range shares {
						ks.KeyShares = append(ks.KeyShares, KeyShare{Group: g})
					}
					exts = append(exts, ks)
				case *SupportedCurvesExtension:
					exts = append(exts, &SupportedCurvesExtension{Curves: append([]CurveID(nil), groups...)})
				case PreSharedKeyExtension:
				default:
					exts = append(exts, e)
				}
			}
			spec.Extensions = exts
			return &spec
		}
		return vfClientSrc{Kind: "custom", Name: fmt.Sprintf("multishare(%s)%v", base.Str(), shares), ID: HelloCustom, SpecFn: mk}
	}
	if kind < 7 {
		var cands []vfParrot
		for _, p := range vfParrots {
			spec, err := UTLSIdToSpec(p.ID)
			if err != nil {
				continue
			}
			for _, e := range spec.Extensions {
				if _, ok := e.(*KeyShareExtension); ok {
					cands = append(cands, p)
					break
				}
			}
		}
		p := cands[rapid.IntRange(0, len(cands)-1).Draw(rt, "parrot")]
		return vfClientSrc{Kind: "parrot", Name: p.Name, ID: p.ID}
	}
	src := vfGenRandomizedID(rt, "rnd")
	src.ID.Weights.TLSVersMax_Set_VersionTLS13 = 1
	return src
}

// vfGenCfgKnobs draws settings of the caller's tls.Config that must not keep a fingerprint from completing a handshake
// with a compliant server: knobs that the applied spec overrides (versions, suites, curves, ALPN list) and knobs that are
// independent of the hello (tickets disabled, a cold session cache, record sizing, renegotiation mode).
func vfGenCfgKnobs(rt *rapid.T, label string) (func(*Config), string) {
	var mods []func(*Config)
	desc := ""
	add := func(name string, f func(*Config)) {
		if rapid.IntRange(0, 4).Draw(rt, label+"_knob_"+name) == 0 {
			mods = append(mods, f)
			desc += " " + name
		}
	}
	add("SessionTicketsDisabled", func(c *Config) { c.SessionTicketsDisabled = true })
	add("ColdSessionCache", func(c *Config) {
		c.ClientSessionCache = NewLRUClientSessionCache(4)
		c.PreferSkipResumptionOnNilExtension = true // documented switch for specs without session extensions
	})
	add("MaxVersionTLS12", func(c *Config) { c.MaxVersion = VersionTLS12 })
	add("MinVersionTLS13", func(c *Config) { c.MinVersion = VersionTLS13 })
	add("NextProtos", func(c *Config) { c.NextProtos = []string{"h2", "http/1.1"} })
	add("CipherSuites", func(c *Config) { c.CipherSuites = []uint16{TLS_ECDHE_RSA_WITH_AES_128_GCM_SHA256} })
	add("CurvePreferences", func(c *Config) { c.CurvePreferences = []CurveID{CurveP521} })
	add("DynamicRecordSizingDisabled", func(c *Config) { c.DynamicRecordSizingDisabled = true })
	add("RenegotiateOnceAsClient", func(c *Config) { c.Renegotiation = RenegotiateOnceAsClient })
	if len(mods) == 0 {
		return nil, ""
	}
	return func(c *Config) {
		for _, f := range mods {
			f(c)
		}
	}, "config knobs:" + desc
}

// vfGenSrvKnobs draws behaviours a compliant server is free to show and that must not change the outcome of the
// negotiation: asking for a client certificate (the client answers with an empty Certificate), not issuing tickets.
func vfGenSrvKnobs(rt *rapid.T, label string) (func(*Config), string) {
	reqCert := rapid.IntRange(0, 2).Draw(rt, label+"_request_client_cert") == 0
	noTickets := rapid.IntRange(0, 3).Draw(rt, label+"_no_tickets") == 0
	// the server owns ECH keys: clients without a real ECH configuration (GREASE ECH, or no ECH extension at all) are
	// served as before, the undecryptable GREASE payload is ignored
	echKeys := rapid.IntRange(0, 3).Draw(rt, label+"_has_ech_keys") == 0
	if !reqCert && !noTickets && !echKeys {
		return nil, ""
	}
	desc := "server knobs:"
	if echKeys {
		desc += " EncryptedClientHelloKeys"
	}
	if reqCert {
		desc += " RequestClientCert"
	}
	if noTickets {
		desc += " SessionTicketsDisabled"
	}
	return func(c *Config) {
		if reqCert {
			c.ClientAuth = RequestClientCert
		}
		if noTickets {
			c.SessionTicketsDisabled = true
		}
		if echKeys {
			_, key := vfMakeECHConfig(77, "public.knobs.test")
			c.EncryptedClientHelloKeys = []EncryptedClientHelloKey{key}
		}
	}, desc
}
