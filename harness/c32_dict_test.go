//go:build verif

package tls

// C32, first half - every value listed in a dicttls value-indexed table resolves back to the same value through
// the corresponding name-indexed table. Exhaustive over all tables. The table list is discovered at run time from
// $VERIF_REPO/dicttls/*.go (go/parser), so a table added later is picked up without touching the harness; the
// tables known at the time of writing are additionally read from the compiled package (reflection).

import (
	"fmt"
	"go/ast"
	"go/parser"
	"go/token"
	"os"
	"path/filepath"
	"reflect"
	"sort"
	"strconv"
	"strings"
	"testing"

	"github.com/refraction-networking/utls/dicttls"
)

type vf32Table struct {
	Base     string // e.g. "DictHandshakeType"
	Value    map[uint64]string
	Name     map[string]uint64
	HasValue bool
	HasName  bool
	Source   string // "compiled" or "source"
	EvalErr  string
}

// compiled tables (value-indexed, name-indexed or nil)
var vf32Compiled = map[string][2]any{
	"DictAlert":                           {dicttls.DictAlertValueIndexed, dicttls.DictAlertNameIndexed},
	"DictAuthorizationDataFormat":         {dicttls.DictAuthorizationDataFormatValueIndexed, dicttls.DictAuthorizationDataFormatNameIndexed},
	"DictCachedInformationType":           {dicttls.DictCachedInformationTypeValueIndexed, dicttls.DictCachedInformationTypeNameIndexed},
	"DictCertificateCompressionAlgorithm": {dicttls.DictCertificateCompressionAlgorithmValueIndexed, dicttls.DictCertificateCompressionAlgorithmNameIndexed},
	"DictCertificateStatusType":           {dicttls.DictCertificateStatusTypeValueIndexed, dicttls.DictCertificateStatusTypeNameIndexed},
	"DictCertificateType":                 {dicttls.DictCertificateTypeValueIndexed, dicttls.DictCertificateTypeNameIndexed},
	"DictCipherSuite":                     {dicttls.DictCipherSuiteValueIndexed, dicttls.DictCipherSuiteNameIndexed},
	"DictClientCertificateTypeIdentifier": {dicttls.DictClientCertificateTypeIdentifierValueIndexed, dicttls.DictClientCertificateTypeIdentifierNameIndexed},
	"DictCompMeth":                        {dicttls.DictCompMethValueIndexed, dicttls.DictCompMethNameIndexed},
	"DictContentType":                     {dicttls.DictContentTypeValueIndexed, dicttls.DictContentTypeNameIndexed},
	"DictECCurveType":                     {dicttls.DictECCurveTypeValueIndexed, dicttls.DictECCurveTypeNameIndexed},
	"DictECPointFormat":                   {dicttls.DictECPointFormatValueIndexed, dicttls.DictECPointFormatNameIndexed},
	"DictExtType":                         {dicttls.DictExtTypeValueIndexed, dicttls.DictExtTypeNameIndexed},
	"DictHandshakeType":                   {dicttls.DictHandshakeTypeValueIndexed, dicttls.DictHandshakeTypeNameIndexed},
	"DictHashAlgorithm":                   {dicttls.DictHashAlgorithmValueIndexed, dicttls.DictHashAlgorithmNameIndexed},
	"DictHeartbeatMessageType":            {dicttls.DictHeartbeatMessageTypeValueIndexed, dicttls.DictHeartbeatMessageTypeNameIndexed},
	"DictHeartbeatMode":                   {dicttls.DictHeartbeatModeValueIndexed, dicttls.DictHeartbeatModeNameIndexed},
	"DictAEADIdentifier":                  {dicttls.DictAEADIdentifierValueIndexed, nil},
	"DictKDFIdentifier":                   {dicttls.DictKDFIdentifierValueIndexed, dicttls.DictKDFIdentifierNameIndexed},
	"DictKEMIdentifier":                   {dicttls.DictKEMIdentifierValueIndexed, dicttls.DictKEMIdentifierNameIndexed},
	"DictPSKKeyExchangeMode":              {dicttls.DictPSKKeyExchangeModeValueIndexed, dicttls.DictPSKKeyExchangeModeNameIndexed},
	"DictQUICFrameType":                   {dicttls.DictQUICFrameTypeValueIndexed, dicttls.DictQUICFrameTypeNameIndexed},
	"DictQUICTransportErrorCode":          {dicttls.DictQUICTransportErrorCodeValueIndexed, dicttls.DictQUICTransportErrorCodeNameIndexed},
	"DictQUICTransportParameter":          {dicttls.DictQUICTransportParameterValueIndexed, dicttls.DictQUICTransportParameterNameIndexed},
	"DictSignatureAlgorithm":              {dicttls.DictSignatureAlgorithmValueIndexed, dicttls.DictSignatureAlgorithmNameIndexed},
	"DictSignatureScheme":                 {dicttls.DictSignatureSchemeValueIndexed, dicttls.DictSignatureSchemeNameIndexed},
	"DictSupplementalDataFormat":          {dicttls.DictSupplementalDataFormatValueIndexed, dicttls.DictSupplementalDataFormatNameIndexed},
	"DictSupportedGroups":                 {dicttls.DictSupportedGroupsValueIndexed, dicttls.DictSupportedGroupsNameIndexed},
	"DictUserMappingType":                 {dicttls.DictUserMappingTypeValueIndexed, dicttls.DictUserMappingTypeNameIndexed},
}

func vf32ReflectValueTable(m any) map[uint64]string {
	out := map[uint64]string{}
	it := reflect.ValueOf(m).MapRange()
	for it.Next() {
		out[it.Key().Uint()] = it.Value().String()
	}
	return out
}

func vf32ReflectNameTable(m any) map[string]uint64 {
	out := map[string]uint64{}
	it := reflect.ValueOf(m).MapRange()
	for it.Next() {
		out[it.Key().String()] = it.Value().Uint()
	}
	return out
}

// ---- source evaluation ----

type vf32Src struct {
	consts map[string]uint64
	tables map[string]*ast.CompositeLit // var name -> literal
	files  map[string]string            // var name -> file
}

func vf32EvalInt(e ast.Expr, consts map[string]uint64) (uint64, error) {
	switch x := e.(type) {
	case *ast.BasicLit:
		if x.Kind == token.INT {
			return strconv.ParseUint(strings.ReplaceAll(x.Value, "_", ""), 0, 64)
		}
		if x.Kind == token.CHAR {
			r, _, _, err := strconv.UnquoteChar(x.Value[1:len(x.Value)-1], '\'')
			return uint64(r), err
		}
	case *ast.Ident:
		if v, ok := consts[x.Name]; ok {
			return v, nil
		}
		return 0, fmt.Errorf("unknown identifier %s", x.Name)
	case *ast.ParenExpr:
		return vf32EvalInt(x.X, consts)
	case *ast.CallExpr: // conversion like uint16(5)
		if len(x.Args) == 1 {
			return vf32EvalInt(x.Args[0], consts)
		}
	case *ast.BinaryExpr:
		a, err := vf32EvalInt(x.X, consts)
		if err != nil {
			return 0, err
		}
		b, err := vf32EvalInt(x.Y, consts)
		if err != nil {
			return 0, err
		}
		switch x.Op {
		case token.ADD:
			return a + b, nil
		case token.SUB:
			return a - b, nil
		case token.MUL:
			return a * b, nil
		case token.SHL:
			return a << b, nil
		case token.OR:
			return a | b, nil
		}
	}
	return 0, fmt.Errorf("cannot evaluate %T", e)
}

func vf32EvalString(e ast.Expr) (string, error) {
	if x, ok := e.(*ast.BasicLit); ok && x.Kind == token.STRING {
		return strconv.Unquote(x.Value)
	}
	return "", fmt.Errorf("cannot evaluate %T as string", e)
}

func vf32ParseSource(dir string) (*vf32Src, error) {
	fset := token.NewFileSet()
	files, err := filepath.Glob(filepath.Join(dir, "*.go"))
	if err != nil || len(files) == 0 {
		return nil, fmt.Errorf("no go files in %s", dir)
	}
	sort.Strings(files)
	src := &vf32Src{consts: map[string]uint64{}, tables: map[string]*ast.CompositeLit{}, files: map[string]string{}}
	var parsed []*ast.File
	for _, f := range files {
		if strings.HasSuffix(f, "_test.go") {
			continue
		}
		af, err := parser.ParseFile(fset, f, nil, 0)
		if err != nil {
			return nil, err
		}
		parsed = append(parsed, af)
	}
	// constants first (two passes so that constants may refer to each other; iota groups are not used in dicttls)
	for pass := 0; pass < 2; pass++ {
		for _, af := range parsed {
			for _, d := range af.Decls {
				gd, ok := d.(*ast.GenDecl)
				if !ok || gd.Tok != token.CONST {
					continue
				}
				for _, sp := range gd.Specs {
					vs := sp.(*ast.ValueSpec)
					for i, n := range vs.Names {
						if i < len(vs.Values) {
							if v, err := vf32EvalInt(vs.Values[i], src.consts); err == nil {
								src.consts[n.Name] = v
							}
						}
					}
				}
			}
		}
	}
	for i, af := range parsed {
		for _, d := range af.Decls {
			gd, ok := d.(*ast.GenDecl)
			if !ok || gd.Tok != token.VAR {
				continue
			}
			for _, sp := range gd.Specs {
				vs := sp.(*ast.ValueSpec)
				for j, n := range vs.Names {
					if !strings.HasPrefix(n.Name, "Dict") || j >= len(vs.Values) {
						continue
					}
					if cl, ok := vs.Values[j].(*ast.CompositeLit); ok {
						if _, ok := cl.Type.(*ast.MapType); ok {
							src.tables[n.Name] = cl
							src.files[n.Name] = filepath.Base(files[i])
						}
					}
				}
			}
		}
	}
	return src, nil
}

func (s *vf32Src) valueTable(name string) (map[uint64]string, error) {
	cl := s.tables[name]
	out := map[uint64]string{}
	for _, el := range cl.Elts {
		kv, ok := el.(*ast.KeyValueExpr)
		if !ok {
			return nil, fmt.Errorf("%s: element is not key:value", name)
		}
		k, err := vf32EvalInt(kv.Key, s.consts)
		if err != nil {
			return nil, fmt.Errorf("%s: key: %v", name, err)
		}
		v, err := vf32EvalString(kv.Value)
		if err != nil {
			return nil, fmt.Errorf("%s: value: %v", name, err)
		}
		out[k] = v
	}
	return out, nil
}

func (s *vf32Src) nameTable(name string) (map[string]uint64, error) {
	cl := s.tables[name]
	out := map[string]uint64{}
	for _, el := range cl.Elts {
		kv, ok := el.(*ast.KeyValueExpr)
		if !ok {
			return nil, fmt.Errorf("%s: element is not key:value", name)
		}
		k, err := vf32EvalString(kv.Key)
		if err != nil {
			return nil, fmt.Errorf("%s: key: %v", name, err)
		}
		v, err := vf32EvalInt(kv.Value, s.consts)
		if err != nil {
			return nil, fmt.Errorf("%s: value: %v", name, err)
		}
		out[k] = v
	}
	return out, nil
}

// vf32Tables returns every table pair: compiled ones as compiled, others evaluated from source.
func vf32Tables(t testing.TB, st *vfStats) []*vf32Table {
	repo := os.Getenv("VERIF_REPO")
	if repo == "" {
		repo = "/repo"
	}
	src, err := vf32ParseSource(filepath.Join(repo, "dicttls"))
	if err != nil {
		t.Fatalf("C32: cannot read the dicttls sources under %s: %v", repo, err)
	}
	bases := map[string]bool{}
	for n := range src.tables {
		switch {
		case strings.HasSuffix(n, "ValueIndexed"):
			bases[strings.TrimSuffix(n, "ValueIndexed")] = true
		case strings.HasSuffix(n, "NameIndexed"):
			bases[strings.TrimSuffix(n, "NameIndexed")] = true
		}
	}
	for b := range vf32Compiled {
		if !bases[b] {
			t.Fatalf("C32 harness: compiled table %s not found in the sources under %s/dicttls", b, repo)
		}
	}
	var names []string
	for b := range bases {
		names = append(names, b)
	}
	sort.Strings(names)
	var out []*vf32Table
	var srcOnly, mismatch []string
	for _, b := range names {
		tb := &vf32Table{Base: b}
		_, tb.HasValue = src.tables[b+"ValueIndexed"]
		_, tb.HasName = src.tables[b+"NameIndexed"]
		var sv map[uint64]string
		var sn map[string]uint64
		var e1, e2 error
		if tb.HasValue {
			sv, e1 = src.valueTable(b + "ValueIndexed")
		}
		if tb.HasName {
			sn, e2 = src.nameTable(b + "NameIndexed")
		}
		c, compiled := vf32Compiled[b]
		useSrcName := false
		if compiled {
			tb.Source = "compiled"
			tb.Value = vf32ReflectValueTable(c[0])
			if c[1] != nil {
				tb.Name = vf32ReflectNameTable(c[1])
			} else if tb.HasName { // name table added after the harness was written (e.g. by a fix)
				useSrcName = true
			}
			// informational cross-check of the source evaluator
			if e1 == nil && sv != nil && !reflect.DeepEqual(sv, tb.Value) {
				mismatch = append(mismatch, b+"ValueIndexed")
			}
			if e2 == nil && sn != nil && tb.Name != nil && !reflect.DeepEqual(sn, tb.Name) {
				mismatch = append(mismatch, b+"NameIndexed")
			}
		}
		if !compiled || useSrcName {
			if !compiled {
				tb.Source = "source"
				srcOnly = append(srcOnly, b)
				tb.Value = sv
			}
			tb.Name = sn
			if e1 != nil {
				tb.EvalErr = e1.Error()
			}
			if e2 != nil {
				tb.EvalErr += " " + e2.Error()
			}
		}
		out = append(out, tb)
	}
	st.Extra("tables", len(out))
	st.Extra("tables_only_in_source", srcOnly)
	st.Extra("source_vs_compiled_mismatch", mismatch)
	return out
}

func TestVerifC32Tables(t *testing.T) {
	st := vfNewStats(t, "C32")
	tables := vf32Tables(t, st)
	if len(tables) < len(vf32Compiled) {
		t.Fatalf("C32 harness: only %d tables found", len(tables))
	}
	type failure struct{ key, msg string }
	var fails []failure
	for _, tb := range tables {
		if tb.EvalErr != "" {
			st.Class("table-not-evaluable(" + tb.Base + ")")
			t.Logf("C32: table %s is not in the compiled list and cannot be evaluated from source: %s", tb.Base, tb.EvalErr)
			continue
		}
		if !tb.HasValue {
			st.Class("name-indexed-only-table")
			continue
		}
		vals := make([]uint64, 0, len(tb.Value))
		for v := range tb.Value {
			vals = append(vals, v)
		}
		sort.Slice(vals, func(i, j int) bool { return vals[i] < vals[j] })
		if !tb.HasName {
			// no corresponding name-indexed table at all: none of the listed values can resolve back
			for range vals {
				st.Eval()
			}
			st.Class("value-table-without-name-table")
			fails = append(fails, failure{fmt.Sprintf("C32:%s:no-name-indexed-table", tb.Base),
				fmt.Sprintf("%sValueIndexed (%d values) has no corresponding %sNameIndexed table", tb.Base, len(vals), tb.Base)})
			continue
		}
		for _, v := range vals {
			name := tb.Value[v]
			st.Eval()
			st.NonTrivial(fmt.Sprintf("%s[%d]", tb.Base, v))
			back, ok := tb.Name[name]
			switch {
			case !ok:
				st.Class("value->name: no name entry")
				fails = append(fails, failure{fmt.Sprintf("C32:%s[%d]:no-name-entry", tb.Base, v),
					fmt.Sprintf("%sValueIndexed[%d]=%q but %sNameIndexed has no entry %q", tb.Base, v, name, tb.Base, name)})
			case back != v:
				st.Class("value->name: resolves to another value")
				fails = append(fails, failure{fmt.Sprintf("C32:%s[%d]:resolves-to-%d", tb.Base, v, back),
					fmt.Sprintf("%sValueIndexed[%d]=%q but %sNameIndexed[%q]=%d", tb.Base, v, name, tb.Base, name, back)})
			default:
				st.Class("value->name->value ok")
			}
		}
		// reverse direction: not demanded by the statement (aliases are legitimate); recorded only
		for name, v := range tb.Name {
			if n2, ok := tb.Value[v]; !ok {
				st.Class("info: name without value entry (" + tb.Base + ")")
			} else if n2 != name {
				st.Class("info: alias name (" + tb.Base + ")")
			}
		}
	}
	st.Sample(map[string]any{"tables": len(tables)})
	// report every failing pair; known ones are excluded one by one, anything else is a violation
	var unknown []string
	for _, f := range fails {
		if !st.Known(f.key, f.msg) {
			unknown = append(unknown, "["+f.key+"] "+f.msg)
		}
	}
	if len(unknown) > 0 {
		st.Violation(t, "%d (table,value) pairs do not resolve back: %s", len(unknown), strings.Join(unknown, "; "))
	}
}
