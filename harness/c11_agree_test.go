//go:build verif

package tls

// C11 - client and server agree on every negotiated parameter and exported key.

import (
	"bytes"
	"fmt"
	"testing"

	"pgregory.net/rapid"
)

// vf11Compare checks the two ConnectionStates and a number of drawn exporter triples.
func vf11Compare(rt *rapid.T, st *vfStats, res *vfGridResult, desc string, wantResume *bool) {
	pair := res.Pair
	cs, ss := pair.Cli.ConnectionState(), pair.Srv.ConnectionState()
	if cs.Version != ss.Version {
		st.Violation(rt, "%s: Version client=%04x server=%04x", desc, cs.Version, ss.Version)
	}
	if cs.CipherSuite != ss.CipherSuite {
		st.Violation(rt, "%s: CipherSuite client=%04x server=%04x", desc, cs.CipherSuite, ss.CipherSuite)
	}
	if cs.NegotiatedProtocol != ss.NegotiatedProtocol {
		st.Violation(rt, "%s: NegotiatedProtocol client=%q server=%q", desc, cs.NegotiatedProtocol, ss.NegotiatedProtocol)
	}
	if cs.DidResume != ss.DidResume {
		st.Violation(rt, "%s: DidResume client=%v server=%v", desc, cs.DidResume, ss.DidResume)
	}
	if wantResume != nil && cs.DidResume != *wantResume {
		st.Class(fmt.Sprintf("resume-expected=%v-got=%v", *wantResume, cs.DidResume))
	}
	if cs.ECHAccepted != ss.ECHAccepted {
		st.Violation(rt, "%s: ECHAccepted client=%v server=%v", desc, cs.ECHAccepted, ss.ECHAccepted)
	}
	// curve: upstream leaves it unset on a TLS 1.2 resumption and for RSA key exchange
	if cs.testingOnlyCurveID != ss.testingOnlyCurveID {
		st.Violation(rt, "%s: curve client=%v server=%v", desc, cs.testingOnlyCurveID, ss.testingOnlyCurveID)
	}
	// server name: the SNI actually sent (from the wire, reference parser), empty if none
	chs := vfClientHellosOnWire(pair.CP.Written())
	wireSNI := ""
	if len(chs) > 0 {
		wireSNI, _ = vfParseClientHello(chs[len(chs)-1]).SNI()
	}
	if ss.ServerName != wireSNI {
		st.Violation(rt, "%s: server reports ServerName %q but the wire SNI is %q", desc, ss.ServerName, wireSNI)
	}
	if cs.ServerName != wireSNI {
		key := "C11:client-reports-name-not-sent"
		st.KnownOrViolation(rt, key, "%s: client reports ServerName %q but the SNI on the wire is %q (server reports %q)", desc, cs.ServerName, wireSNI, ss.ServerName)
	}

	// exporters
	n := rapid.IntRange(1, 4).Draw(rt, "ekm_n")
	for i := 0; i < n; i++ {
		label := rapid.StringMatching(`[A-Za-z0-9 _.-]{1,40}`).Draw(rt, fmt.Sprintf("ekm_label%d", i))
		var ctx []byte
		switch rapid.IntRange(0, 2).Draw(rt, fmt.Sprintf("ekm_ctxkind%d", i)) {
		case 0:
			ctx = nil
		case 1:
			ctx = []byte{}
		default:
			ctx = rapid.SliceOfN(rapid.Byte(), 1, 64).Draw(rt, fmt.Sprintf("ekm_ctx%d", i))
		}
		length := rapid.IntRange(1, 512).Draw(rt, fmt.Sprintf("ekm_len%d", i))
		ck, cerr := cs.ExportKeyingMaterial(label, ctx, length)
		sk, serr := ss.ExportKeyingMaterial(label, ctx, length)
		via := "public"
		if cerr != nil || serr != nil {
			// documented refusals (renegotiation enabled by the parrot's renegotiation_info, TLS <= 1.2 without
			// extended master secret, reserved labels): compare the connections' internal exporters instead, so the
			// uTLS state hand-off is still checked
			via = "internal"
			st.Class("ekm-public-refused")
			if pair.Cli.Conn.ekm == nil || pair.Srv.ekm == nil {
				st.Violation(rt, "%s: no exporter installed after a completed handshake (client nil=%v server nil=%v)", desc, pair.Cli.Conn.ekm == nil, pair.Srv.ekm == nil)
			}
			ck, cerr = pair.Cli.Conn.ekm(label, ctx, length)
			sk, serr = pair.Srv.ekm(label, ctx, length)
			if (cerr == nil) != (serr == nil) {
				st.Violation(rt, "%s: exporter(%q) errors differ: client=%v server=%v", desc, label, cerr, serr)
			}
			if cerr != nil {
				st.Class("ekm-label-refused")
				continue
			}
		}
		if len(ck) != length || !bytes.Equal(ck, sk) {
			st.Violation(rt, "%s: ExportKeyingMaterial(%q, ctx=%x, %d) differs (%s): client=%x server=%x", desc, label, ctx, length, via, ck, sk)
		}
		st.Class("ekm-compared-" + via)
	}
}

func TestVerifC11Fresh(t *testing.T) {
	st := vfNewStats(t, "C11")
	rapid.Check(t, func(rt *rapid.T) {
		opts := vfGridOpts{KeepOpen: true, OnlySuccess: true}
		// compliant server behaviours that lengthen the client's flight (client certificate requested) or change the
		// post-handshake messages (no tickets), and a client that does or does not own a certificate
		smod, sdesc := vfGenSrvKnobs(rt, "srvcfg")
		opts.SCfgMod, opts.Note = smod, sdesc
		if sdesc != "" {
			st.Class("with-" + sdesc)
		}
		if rapid.IntRange(0, 3).Draw(rt, "client_has_certificate") == 0 {
			opts.CCfgMod = func(c *Config) {
				c.Certificates = []Certificate{*vfLeaf(vfLeafSpec{KeyType: "ecdsa", Names: []string{"client.c11.test"}})}
			}
			st.Class("client-has-certificate")
		}
		variant := rapid.IntRange(0, 9).Draw(rt, "variant")
		vname := "plain"
		switch {
		case variant == 0:
			vname = "remove-sni"
			opts.Prep = nil
			opts.CCfgMod = nil
		case variant == 1:
			vname = "ip-literal"
			ip := []string{"192.0.2.7", "2001:db8::7", "[2001:db8::9]"}[rapid.IntRange(0, 2).Draw(rt, "ip")]
			opts.SNI = &ip
		case variant == 2:
			vname = "trailing-dot"
			n := vfGenDNSName(rt, "dotname") + "."
			opts.SNI = &n
		case variant == 3:
			// host names are case-insensitive for matching, but what both sides REPORT is the name as sent
			vname = "mixed-case"
			b := []byte(vfGenDNSName(rt, "casename"))
			mask := rapid.Uint64().Draw(rt, "casemask") | 1
			for i := range b {
				if mask>>(uint(i)%64)&1 == 1 && b[i] >= 'a' && b[i] <= 'z' {
					b[i] -= 'a' - 'A'
				}
			}
			n := string(b)
			opts.SNI = &n
		case variant == 4:
			// the documented build - edit - handshake history: the name is changed with SetSNI after the hello has been
			// built for inspection; what both sides report is the name that finally went out
			vname = "setsni-after-build"
			later := vfGenDNSName(rt, "latername")
			opts.Prep = func(p *vfPrepared) error {
				if p.Src.Kind != "golang" {
					p.UC.SetSNI(later)
				}
				return nil
			}
		}
		var res *vfGridResult
		if vname == "remove-sni" {
			// RemoveSNIExtension must be called before the first build: do it through the client-config hook's
			// sibling, a Prep on a freshly created UConn is too late, so build the case by hand
			res = vf11RunRemoveSNI(rt, st)
		} else {
			res = vfGridRun(rt, st, "C11", opts)
		}
		if res == nil || !res.OK {
			return
		}
		defer res.Pair.Close()
		desc := fmt.Sprintf("[%s] %s sni=%q | %s", vname, res.Prepared.Src, res.SNI, res.Choice)
		st.Class("variant=" + vname)
		vf11Compare(rt, st, res, desc, nil)
		if res.Prepared.Src.Kind != "golang" {
			st.NonTrivial(fmt.Sprintf("%s|%s|%04x|%04x|%s", vname, res.Prepared.Src.Kind+":"+res.Prepared.Src.Name, res.Choice.Ver, res.Choice.Suite, res.Choice.CertKey))
		}
		st.Sample(map[string]any{"variant": vname, "client": res.Prepared.Src.String(), "sni": res.SNI, "server": res.Choice.String()})
	})
}

// vf11RunRemoveSNI: like the grid, but RemoveSNIExtension() is called before the ClientHello is first built.
func vf11RunRemoveSNI(rt *rapid.T, st *vfStats) *vfGridResult {
	src := vfGenClientSrc(rt, "src")
	sni := vfGenDNSName(rt, "sni")
	st.Eval()
	cp, sp := vfPipe()
	ccfg := vfClientConfig(sni)
	ccfg.OmitEmptyPsk = true
	ccfg.Rand = vfNewDetRand(rapid.Uint64().Draw(rt, "randseed"), "client")
	uc := UClient(cp, ccfg, src.ID)
	if src.SpecFn != nil {
		if err := uc.ApplyPreset(src.SpecFn()); err != nil {
			st.Violation(rt, "%s: ApplyPreset: %v", src, err)
		}
	}
	if err := uc.RemoveSNIExtension(); err != nil {
		st.Violation(rt, "RemoveSNIExtension: %v", err)
	}
	if err := uc.BuildHandshakeState(); err != nil {
		st.Violation(rt, "%s: BuildHandshakeState after RemoveSNIExtension: %v", src, err)
	}
	h := vfParseClientHello(uc.HandshakeState.Hello.Raw)
	p := &vfPrepared{Src: src, CP: cp, SP: sp, UC: uc, CCfg: ccfg, Offer: vfOfferOf(h, uc.config.MinVersion)}
	if p.Offer.HasSNI {
		st.Violation(rt, "%s: RemoveSNIExtension left a server_name extension on the wire", src)
	}
	choice, ok := vfGenSrvChoice(rt, p.Offer, "srv")
	if !ok {
		return nil
	}
	scfg := vfServerConfigFor(choice, vfCertNames(sni)...)
	pair := &vfPair{CP: cp, SP: sp, Cli: uc, Srv: Server(sp, scfg)}
	cerr, serr := pair.Handshake()
	if cerr != nil || serr != nil {
		pair.Close()
		// completing is C10's business; here only successful handshakes are compared
		st.Class("remove-sni-handshake-failed")
		return nil
	}
	if err := pair.Echo([]byte("x"), []byte("y")); err != nil {
		pair.Close()
		return nil
	}
	return &vfGridResult{Prepared: p, Choice: choice, Pair: pair, SCfg: scfg, SNI: sni, OK: true}
}

// Resumed sessions: two connections sharing a client session cache and the server's ticket keys.
func TestVerifC11Resumed(t *testing.T) {
	st := vfNewStats(t, "C11")
	rapid.Check(t, func(rt *rapid.T) {
		src := vfGenClientSrc(rt, "src")
		sni := vfGenDNSName(rt, "sni")
		cache := NewLRUClientSessionCache(8)
		// HelloCustom specs without a session extension on a warm cache hit a documented assertion unless the caller
		// opts into skipping resumption
		mod := func(c *Config) { c.ClientSessionCache = cache; c.PreferSkipResumptionOnNilExtension = true }
		first := vfGridRun(rt, st, "C11", vfGridOpts{Src: &src, SNI: &sni, CCfgMod: mod, KeepOpen: true, OnlySuccess: true, Label: "a_"})
		if first == nil || !first.OK {
			return
		}
		first.Pair.Close()
		// same server config object => same ticket keys; same choice - or the same server after an ALPN reconfiguration
		// (protocol list dropped, or switched on): ALPN is negotiated per handshake, also on a resumed one
		choice2, scfg2 := first.Choice, first.SCfg
		switch rapid.IntRange(0, 3).Draw(rt, "alpn_reconfigured") {
		case 0:
			if first.Choice.ALPN != "" {
				choice2.ALPN = ""
				scfg2 = first.SCfg.Clone()
				scfg2.NextProtos = nil
				st.Class("second-server-dropped-alpn")
			}
		case 1:
			if first.Choice.ALPN == "" && len(first.Prepared.Offer.ALPN) > 0 {
				choice2.ALPN = first.Prepared.Offer.ALPN[0]
				scfg2 = first.SCfg.Clone()
				scfg2.NextProtos = []string{choice2.ALPN}
				st.Class("second-server-added-alpn")
			}
		}
		second := vfGridRun(rt, st, "C11", vfGridOpts{Src: &src, SNI: &sni, CCfgMod: mod, KeepOpen: true, OnlySuccess: true, Label: "b_", Choice: &choice2, SCfg: scfg2})
		if second == nil || !second.OK {
			return
		}
		defer second.Pair.Close()
		desc := fmt.Sprintf("[second connection over a shared cache] %s sni=%q | %s", src, sni, second.Choice)
		vf11Compare(rt, st, second, desc, nil)
		cs := second.Pair.Cli.ConnectionState()
		st.Class(fmt.Sprintf("second-didresume=%v", cs.DidResume))
		if cs.DidResume {
			st.NonTrivial(fmt.Sprintf("resumed|%s|%04x|%04x", src.Kind+":"+src.Name, second.Choice.Ver, cs.CipherSuite))
		}
		st.Sample(map[string]any{"variant": "resumed", "client": src.String(), "didResume": cs.DidResume, "server": second.Choice.String()})
	})
}
