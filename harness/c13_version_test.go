//go:build verif

package tls

// C13 - the client never settles on a protocol version it did not advertise.

import (
	"fmt"
	"testing"

	"pgregory.net/rapid"
)

func vf13VersionName(v uint16) string { return fmt.Sprintf("%04x", v) }

func TestVerifC13LegacyServer(t *testing.T) {
	st := vfNewStats(t, "C13")
	rapid.Check(t, func(rt *rapid.T) {
		src := vfGenClientSrc(rt, "src")
		sni := vfGenDNSName(rt, "sni")
		st.Eval()
		var mod func(*Config)
		if rapid.IntRange(0, 5).Draw(rt, "golang") == 0 {
			// HelloGolang: the hello follows the Config's version bounds as given (0 = default, values above TLS 1.3 =
			// no upper bound)
			minV := rapid.SampledFrom([]uint16{0, VersionTLS10, VersionTLS12}).Draw(rt, "golang_min")
			maxV := rapid.SampledFrom([]uint16{0, VersionTLS12, VersionTLS13, 0x0305, 0xffff}).Draw(rt, "golang_max")
			src = vfClientSrc{Kind: "golang", Name: fmt.Sprintf("HelloGolang(min=%04x,max=%04x)", minV, maxV), ID: HelloGolang}
			mod = func(c *Config) { c.MinVersion, c.MaxVersion = minV, maxV }
			st.Class("source:HelloGolang")
		}
		if mod == nil {
			// the caller's Config as the connection finds it: version bounds left by the application, or by an earlier
			// connection that used the same *Config with another fingerprint (UClient does not clone the Config); the
			// applied spec decides what is advertised AND what is accepted
			switch rapid.IntRange(0, 3).Draw(rt, "config_history") {
			case 0:
				minV := rapid.SampledFrom([]uint16{VersionTLS10, VersionTLS11, VersionTLS12, VersionTLS13}).Draw(rt, "cfg_min")
				maxV := rapid.SampledFrom([]uint16{0, VersionTLS12, VersionTLS13}).Draw(rt, "cfg_max")
				if maxV != 0 && maxV < minV {
					maxV = minV
				}
				mod = func(c *Config) { c.MinVersion, c.MaxVersion = minV, maxV }
				st.Class("config:explicit-version-bounds")
			case 1:
				prev := vfGenParrot(rt, "previous_parrot")
				mod = func(c *Config) {
					cp0, _ := vfPipe()
					defer cp0.Close()
					c.OmitEmptyPsk = true
					UClient(cp0, c, prev.ID).BuildHandshakeState()
				}
				st.Class("config:used-before-by-another-parrot")
			}
		}
		p, err := vfPrepareClient(src, sni, rapid.Uint64().Draw(rt, "randseed"), mod)
		if err != nil {
			st.Violation(rt, "%s: %v", src, err)
		}
		defer p.CP.Close()
		o := p.Offer
		h := o.Hello
		// a legacy server negotiates min(its max, legacy_version); draw its version from 1.0..min(1.2, legacy_version)
		top := h.Version
		if top > VersionTLS12 {
			top = VersionTLS12
		}
		if top < VersionTLS10 {
			st.Class("legacy-version-below-tls10")
			return
		}
		ver := uint16(rapid.IntRange(int(VersionTLS10), int(top)).Draw(rt, "version"))
		canary := []string{"none", "tls12", "tls11", "auto"}[rapid.IntRange(0, 3).Draw(rt, "canary")]
		s := &vsrv12Script{Version: ver, Canary: canary}
		// pick an offered legacy suite valid for that version so that a client accepting the version can finish
		var cands []*vfSuiteInfo
		for _, id := range o.Suites {
			si := vfLegacySuite(id)
			if si == nil || (si.TLS12 && ver < VersionTLS12) {
				continue
			}
			if len(vfCertKeysFor(o, ver, si.Auth)) == 0 {
				continue
			}
			cands = append(cands, si)
		}
		if len(cands) == 0 {
			st.Class("no-legacy-suite-for-version")
			return
		}
		si := cands[rapid.IntRange(0, len(cands)-1).Draw(rt, "suite")]
		s.Suite = si.ID
		keys := vfCertKeysFor(o, ver, si.Auth)
		scfg := vfServerConfig(keys[0], vfCertNames(sni)...)
		scfg.MaxVersion = VersionTLS12 // "auto" canary: a 1.2-max server adds the sentinel only below 1.2
		srv := Server(p.SP, scfg)
		vsrv12Install(srv, s)
		pair := &vfPair{CP: p.CP, SP: p.SP, Cli: p.UC, Srv: srv}
		cerr, serr := pair.Handshake()

		advertised := o.HasVersion(ver)
		offered13 := o.HasVersion(VersionTLS13)
		// which sentinel went out?
		tail := ""
		if len(s.Random) == 32 {
			tail = string(s.Random[24:])
		}
		hasCanary := tail == downgradeCanaryTLS12 || tail == downgradeCanaryTLS11
		desc := fmt.Sprintf("%s | legacy server picks %s (hello advertises %04x via %s), sentinel=%s(sent=%v), suite %04x",
			src, vf13VersionName(ver), o.Versions, map[bool]string{true: "supported_versions", false: "legacy_version/spec minimum"}[o.HasSuppVers], canary, hasCanary, s.Suite)
		st.Class(fmt.Sprintf("server=%04x advertised=%v canary=%v offered13=%v", ver, advertised, hasCanary, offered13))
		if cerr == errVfHang || serr == errVfHang {
			st.Violation(rt, "%s: hang", desc)
		}
		completed := cerr == nil && pair.Cli.ConnectionState().HandshakeComplete
		if completed {
			got := pair.Cli.ConnectionState().Version
			if got != ver {
				st.Violation(rt, "%s: client reports version %04x", desc, got)
			}
			if !advertised {
				key := ""
				if src.Kind == "parrot" {
					key = "C13:" + src.Name + "-accepts-version-below-supported_versions"
				} else {
					key = "C13:" + src.Kind + "-accepts-unadvertised-version"
				}
				st.KnownOrViolation(rt, key, "%s: handshake COMPLETED at a version the hello did not advertise", desc)
				return
			}
			if offered13 && hasCanary {
				st.Violation(rt, "%s: client offered TLS 1.3 and accepted a downgraded ServerHello carrying the RFC 8446 sentinel", desc)
			}
		} else if advertised && !(offered13 && hasCanary) {
			// an advertised version with an offered suite and no sentinel: refusing is not forbidden by C13 (it is C10's
			// business), but it would make this check vacuous if it happened all the time - count it
			st.Class("advertised-but-failed: " + fmt.Sprint(cerr))
		}
		if ver != o.Versions[0] {
			st.NonTrivial(fmt.Sprintf("%s|%04x|%s|%v", src.Kind+":"+src.Name, ver, canary, advertised))
		}
		st.Sample(map[string]any{"client": src.String(), "server_version": vf13VersionName(ver), "advertised": fmt.Sprintf("%04x", o.Versions), "sentinel": canary, "completed": completed, "client_error": fmt.Sprint(cerr)})
	})
}

// Modern server side: upstream's server restricted to a version range; the client must end at an advertised version
// and reject a TLS <= 1.2 answer carrying the sentinel when it offered 1.3 (upstream adds it by itself).
func TestVerifC13UpstreamServerRanges(t *testing.T) {
	st := vfNewStats(t, "C13")
	rapid.Check(t, func(rt *rapid.T) {
		src := vfGenClientSrc(rt, "src")
		sni := vfGenDNSName(rt, "sni")
		st.Eval()
		p, err := vfPrepareClient(src, sni, rapid.Uint64().Draw(rt, "randseed"), nil)
		if err != nil {
			st.Violation(rt, "%s: %v", src, err)
		}
		defer p.CP.Close()
		lo := uint16(rapid.IntRange(int(VersionTLS10), int(VersionTLS13)).Draw(rt, "min"))
		hi := uint16(rapid.IntRange(int(lo), int(VersionTLS13)).Draw(rt, "max"))
		keys := vfCertKeysFor(p.Offer, VersionTLS12, "")
		k := "rsa"
		if len(keys) > 0 {
			k = keys[rapid.IntRange(0, len(keys)-1).Draw(rt, "cert")]
		}
		scfg := vfServerConfig(k, vfCertNames(sni)...)
		scfg.MinVersion, scfg.MaxVersion = lo, hi
		pair := &vfPair{CP: p.CP, SP: p.SP, Cli: p.UC, Srv: Server(p.SP, scfg)}
		cerr, _ := pair.Handshake()
		st.Class(fmt.Sprintf("range=%04x-%04x", lo, hi))
		if cerr == nil {
			got := pair.Cli.ConnectionState().Version
			if !p.Offer.HasVersion(got) {
				st.Violation(rt, "%s vs server range %04x-%04x: completed at %04x, advertised %04x", src, lo, hi, got, p.Offer.Versions)
			}
			if got != p.Offer.Versions[0] {
				st.NonTrivial(fmt.Sprintf("range|%s|%04x", src.Kind+":"+src.Name, got))
			}
		}
	})
}
