//go:build verif

package tls

// C35 (extension): ticket-key histories over several Config objects related by Clone. "A ticket sealed with a key that
// is no longer configured yields no state" and "SetSessionTicketKeys installs the keys" are per Config: setting keys on
// a clone (or on the original after cloning) must not change which tickets the other one opens or which key it seals with.
// Reference: the harness' own seal/open (vf35Seal / vf35Open) and a model of each Config's key list.

import (
	"fmt"
	"testing"

	"pgregory.net/rapid"
)

func TestVerifC35CloneHistories(t *testing.T) {
	st := vfNewStats(t, "C35")
	rapid.Check(t, func(rt *rapid.T) {
		type node struct {
			cfg  *Config
			keys [][32]byte // model
			name string
		}
		pool := make([][32]byte, 6)
		for i := range pool {
			pool[i] = vf35GenKey(rt, fmt.Sprintf("key%d", i))
		}
		root := &node{cfg: vf35NewConfig(1, "root"), name: "c0"}
		nodes := []*node{root}
		// every config gets explicit keys first (auto-rotation is C35's other test)
		setKeys := func(n *node, label string) string {
			k := rapid.IntRange(1, 4).Draw(rt, label+"_n")
			var ks [][32]byte
			desc := ""
			for i := 0; i < k; i++ {
				j := rapid.IntRange(0, len(pool)-1).Draw(rt, fmt.Sprintf("%s_k%d", label, i))
				ks = append(ks, pool[j])
				desc += fmt.Sprintf("k%d", j)
			}
			n.cfg.SetSessionTicketKeys(ks)
			n.keys = ks
			return desc
		}
		hist := "c0.set(" + setKeys(root, "init") + ")"
		plain := vf35RefEncode(vf35GenState(rt))
		steps := rapid.IntRange(2, 8).Draw(rt, "steps")
		clones, setsAfterClone := 0, 0
		check := func() {
			for _, n := range nodes {
				// (1) n opens a reference-sealed ticket for each pool key iff the key is in its model list
				for j, k := range pool {
					var iv [16]byte
					iv[0] = byte(j)
					tk := vf35Seal(k, iv, plain)
					s, err, pan := vf35Decrypt(n.cfg, tk)
					if pan != nil {
						st.Violation(rt, "%s: DecryptTicket panicked: %v", hist, pan.Val)
					}
					has := false
					for _, mk := range n.keys {
						if mk == k {
							has = true
						}
					}
					if has && (err != nil || s == nil) {
						st.Violation(rt, "%s: %s does not open a ticket sealed with its configured key k%d (err=%v)", hist, n.name, j, err)
					}
					if !has && s != nil {
						st.Violation(rt, "%s: %s opens a ticket sealed with k%d, which is not among its configured keys", hist, n.name, j)
					}
				}
				// (2) n seals with its own first key
				ss, err := ParseSessionState(plain)
				if err != nil {
					rt.Fatalf("harness: reference encoding does not parse: %v", err)
				}
				tk, err := n.cfg.EncryptTicket(ConnectionState{}, ss)
				if err != nil {
					st.Violation(rt, "%s: %s.EncryptTicket: %v", hist, n.name, err)
				}
				if _, ok := vf35Open(n.keys[0], tk); !ok {
					st.Violation(rt, "%s: %s sealed a ticket that does not open under its first configured key", hist, n.name)
				}
			}
		}
		for s := 0; s < steps; s++ {
			i := rapid.IntRange(0, len(nodes)-1).Draw(rt, fmt.Sprintf("who%d", s))
			n := nodes[i]
			if rapid.IntRange(0, 2).Draw(rt, fmt.Sprintf("op%d", s)) == 0 && len(nodes) < 5 {
				c := &node{cfg: n.cfg.Clone(), keys: append([][32]byte(nil), n.keys...), name: fmt.Sprintf("c%d", len(nodes))}
				nodes = append(nodes, c)
				hist += fmt.Sprintf(" %s=%s.Clone()", c.name, n.name)
				clones++
			} else {
				hist += fmt.Sprintf(" %s.set(%s)", n.name, setKeys(n, fmt.Sprintf("set%d", s)))
				if clones > 0 {
					setsAfterClone++
				}
			}
			check()
		}
		st.Eval()
		if setsAfterClone > 0 {
			st.NonTrivial("clonehist|" + hist)
			st.Class("keys-set-after-clone")
		} else {
			st.Class("no-set-after-clone")
		}
		st.Sample(map[string]any{"history": hist})
	})
}
