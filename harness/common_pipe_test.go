//go:build verif

package tls

// In-memory full-duplex buffered connection pair with deadlines, a write recorder, an optional
// record-level man-in-the-middle and an optional read-granularity limiter (DESIGN.md 3.3).
// net.Pipe is unusable here: being unbuffered it deadlocks handshakes in which both peers write at once.

import (
	"encoding/binary"
	"errors"
	"io"
	"net"
	"os"
	"sync"
	"time"
)

type vfHalf struct {
	mu        sync.Mutex
	data      []byte
	wclosed   bool // writer side closed: reader gets EOF after draining
	rclosed   bool // reader side closed: writer gets ErrClosedPipe
	wake      chan struct{}
	total     int // bytes ever delivered to the reader
	delivered int // bytes ever appended by the writer
	capLimit  int // 0 = unbounded
}

func newVfHalf() *vfHalf { return &vfHalf{wake: make(chan struct{})} }

func (h *vfHalf) broadcastLocked() {
	close(h.wake)
	h.wake = make(chan struct{})
}

type vfWriteRec struct {
	Data []byte
	// Probe is whatever the owner's probe function returned when evaluated inside this Write call.
	Probe any
}

type vfConn struct {
	name string
	rd   *vfHalf // we read from here
	wr   *vfHalf // we write to here

	dmu       sync.Mutex
	rdeadline time.Time
	wdeadline time.Time
	dwake     chan struct{}

	// recorder
	recMu  sync.Mutex
	writes []vfWriteRec
	probe  func(b []byte) any // evaluated inside Write, on the writer's goroutine, before delivery

	// optional record-level filter applied to what this end writes (man in the middle):
	// called with one complete TLS record (header included); returns the bytes to deliver instead.
	filter  func(rec []byte) []byte
	pending []byte

	// optional limit of bytes returned per Read call (schedule perturbation); 0 = no limit
	maxRead func() int

	closeOnce sync.Once
	closed    chan struct{}
	onClose   func()

	// quiescence detection: set on BOTH ends by vfPipeQuiescent. When both ends are blocked in Read with empty
	// buffers nothing can ever happen again (short of a deadline); onQuiescent is then called once.
	peer        *vfConn
	waiting     bool // guarded by qmu of the pair
	qmu         *sync.Mutex
	onQuiescent func()
	qfired      *bool
}

type vfAddr string

func (a vfAddr) Network() string { return "vfpipe" }
func (a vfAddr) String() string  { return string(a) }

// vfPipe returns the client end and the server end.
func vfPipe() (*vfConn, *vfConn) {
	a, b := newVfHalf(), newVfHalf()
	c := &vfConn{name: "client", rd: a, wr: b, closed: make(chan struct{}), dwake: make(chan struct{})}
	s := &vfConn{name: "server", rd: b, wr: a, closed: make(chan struct{}), dwake: make(chan struct{})}
	return c, s
}

type vfTimeoutErr struct{}

func (vfTimeoutErr) Error() string   { return "vfpipe: i/o timeout" }
func (vfTimeoutErr) Timeout() bool   { return true }
func (vfTimeoutErr) Temporary() bool { return true }
func (vfTimeoutErr) Is(err error) bool {
	return err == os.ErrDeadlineExceeded
}

func (c *vfConn) Read(p []byte) (int, error) {
	for {
		select {
		case <-c.closed:
			return 0, net.ErrClosed
		default:
		}
		c.dmu.Lock()
		dl := c.rdeadline
		dw := c.dwake
		c.dmu.Unlock()
		if !dl.IsZero() && !time.Now().Before(dl) {
			return 0, vfTimeoutErr{}
		}
		h := c.rd
		h.mu.Lock()
		if len(h.data) > 0 {
			n := len(p)
			if c.maxRead != nil {
				if m := c.maxRead(); m > 0 && m < n {
					n = m
				}
			}
			n = copy(p[:n], h.data)
			h.data = h.data[n:]
			if len(h.data) == 0 {
				h.data = nil
			}
			h.total += n
			h.broadcastLocked()
			h.mu.Unlock()
			return n, nil
		}
		if h.wclosed {
			h.mu.Unlock()
			return 0, io.EOF
		}
		wake := h.wake
		h.mu.Unlock()
		if len(p) == 0 {
			return 0, nil
		}
		if c.qmu != nil {
			c.qmu.Lock()
			c.waiting = true
			c.qmu.Unlock()
			go c.checkQuiescent()
		}
		var timer <-chan time.Time
		var tm *time.Timer
		if !dl.IsZero() {
			tm = time.NewTimer(time.Until(dl))
			timer = tm.C
		}
		select {
		case <-wake:
		case <-dw:
		case <-timer:
		case <-c.closed:
		}
		if tm != nil {
			tm.Stop()
		}
		if c.qmu != nil {
			c.qmu.Lock()
			c.waiting = false
			c.qmu.Unlock()
		}
	}
}

// vfPipeQuiescent arms quiescence detection on a pipe pair: fn runs (once, on its own goroutine) when both ends
// are blocked reading and no byte is in flight.
func vfPipeQuiescent(a, b *vfConn, fn func()) {
	mu := &sync.Mutex{}
	fired := false
	a.peer, b.peer = b, a
	a.qmu, b.qmu = mu, mu
	a.qfired, b.qfired = &fired, &fired
	a.onQuiescent, b.onQuiescent = fn, fn
}

func (c *vfConn) checkQuiescent() {
	p := c.peer
	if p == nil {
		return
	}
	// fixed lock order: the two halves by address-independent role (c.rd then c.wr is the same pair of halves for
	// both ends, so order them by name), then the flag mutex
	h1, h2 := c.rd, c.wr
	if c.name != "client" {
		h1, h2 = c.wr, c.rd
	}
	h1.mu.Lock()
	h2.mu.Lock()
	c.qmu.Lock()
	fire := c.waiting && p.waiting && len(h1.data) == 0 && len(h2.data) == 0 && !h1.wclosed && !h2.wclosed && !*c.qfired
	if fire {
		*c.qfired = true
	}
	fn := c.onQuiescent
	c.qmu.Unlock()
	h2.mu.Unlock()
	h1.mu.Unlock()
	if fire && fn != nil {
		fn()
	}
}

func (c *vfConn) deliver(b []byte) error {
	h := c.wr
	h.mu.Lock()
	defer h.mu.Unlock()
	if h.rclosed || h.wclosed {
		return io.ErrClosedPipe
	}
	h.data = append(h.data, b...)
	h.delivered += len(b)
	h.broadcastLocked()
	return nil
}

// Delivered returns the number of bytes this end has put on the wire towards its peer (after the filter, including
// injected bytes).
func (c *vfConn) Delivered() int {
	c.wr.mu.Lock()
	defer c.wr.mu.Unlock()
	return c.wr.delivered
}

func (c *vfConn) Write(p []byte) (int, error) {
	select {
	case <-c.closed:
		return 0, net.ErrClosed
	default:
	}
	c.dmu.Lock()
	dl := c.wdeadline
	c.dmu.Unlock()
	if !dl.IsZero() && !time.Now().Before(dl) {
		return 0, vfTimeoutErr{}
	}
	cp := append([]byte(nil), p...)
	var pv any
	if c.probe != nil {
		pv = c.probe(cp)
	}
	c.recMu.Lock()
	c.writes = append(c.writes, vfWriteRec{Data: cp, Probe: pv})
	c.recMu.Unlock()
	if c.filter == nil {
		if err := c.deliver(cp); err != nil {
			return 0, err
		}
		return len(p), nil
	}
	c.pending = append(c.pending, cp...)
	for len(c.pending) >= 5 {
		n := 5 + int(binary.BigEndian.Uint16(c.pending[3:5]))
		if len(c.pending) < n {
			break
		}
		rec := append([]byte(nil), c.pending[:n]...)
		c.pending = c.pending[n:]
		out := c.filter(rec)
		if len(out) > 0 {
			if err := c.deliver(out); err != nil {
				return 0, err
			}
		}
	}
	return len(p), nil
}

// Inject delivers raw bytes to the peer as if this end had written them (not recorded, not filtered).
func (c *vfConn) Inject(b []byte) error { return c.deliver(b) }

func (c *vfConn) Close() error {
	c.closeOnce.Do(func() {
		close(c.closed)
		c.wr.mu.Lock()
		c.wr.wclosed = true
		c.wr.broadcastLocked()
		c.wr.mu.Unlock()
		c.rd.mu.Lock()
		c.rd.rclosed = true
		c.rd.broadcastLocked()
		c.rd.mu.Unlock()
		if c.onClose != nil {
			c.onClose()
		}
	})
	return nil
}

// CloseWrite half-closes: the peer reads EOF after draining.
func (c *vfConn) CloseWrite() error {
	c.wr.mu.Lock()
	c.wr.wclosed = true
	c.wr.broadcastLocked()
	c.wr.mu.Unlock()
	return nil
}

func (c *vfConn) IsClosed() bool {
	select {
	case <-c.closed:
		return true
	default:
		return false
	}
}

func (c *vfConn) LocalAddr() net.Addr  { return vfAddr(c.name) }
func (c *vfConn) RemoteAddr() net.Addr { return vfAddr("peer-of-" + c.name) }

func (c *vfConn) kick() {
	close(c.dwake)
	c.dwake = make(chan struct{})
}

func (c *vfConn) SetDeadline(t time.Time) error {
	c.dmu.Lock()
	c.rdeadline, c.wdeadline = t, t
	c.kick()
	c.dmu.Unlock()
	return nil
}
func (c *vfConn) SetReadDeadline(t time.Time) error {
	c.dmu.Lock()
	c.rdeadline = t
	c.kick()
	c.dmu.Unlock()
	return nil
}
func (c *vfConn) SetWriteDeadline(t time.Time) error {
	c.dmu.Lock()
	c.wdeadline = t
	c.dmu.Unlock()
	return nil
}

// Writes returns a copy of everything this end has written so far, one entry per Write call.
func (c *vfConn) Writes() []vfWriteRec {
	c.recMu.Lock()
	defer c.recMu.Unlock()
	return append([]vfWriteRec(nil), c.writes...)
}

// Written returns the concatenation of all bytes written by this end.
func (c *vfConn) Written() []byte {
	c.recMu.Lock()
	defer c.recMu.Unlock()
	var out []byte
	for _, w := range c.writes {
		out = append(out, w.Data...)
	}
	return out
}

// ---- TLS record helpers (independent of the code under test) ----

type vfRecord struct {
	Type    uint8
	Version uint16
	Body    []byte
}

// vfSplitRecords splits a byte stream into TLS records; rest holds an incomplete tail.
func vfSplitRecords(b []byte) (recs []vfRecord, rest []byte) {
	for len(b) >= 5 {
		n := int(binary.BigEndian.Uint16(b[3:5]))
		if len(b) < 5+n {
			break
		}
		recs = append(recs, vfRecord{Type: b[0], Version: binary.BigEndian.Uint16(b[1:3]), Body: append([]byte(nil), b[5:5+n]...)})
		b = b[5+n:]
	}
	return recs, b
}

type vfHSMsg struct {
	Type uint8
	Body []byte
	Raw  []byte // header + body
}

// vfPlainHandshakeMsgs reassembles the plaintext handshake messages at the start of a record stream:
// it stops at the first ChangeCipherSpec/application-data record that follows (TLS 1.3: encrypted from there)
// or, for TLS 1.2, at CCS. Returns the messages seen so far.
func vfPlainHandshakeMsgs(stream []byte) ([]vfHSMsg, error) {
	recs, _ := vfSplitRecords(stream)
	var hs []byte
	for _, r := range recs {
		if r.Type == 22 {
			hs = append(hs, r.Body...)
			continue
		}
		if r.Type == 20 || r.Type == 23 || r.Type == 21 {
			break
		}
	}
	var msgs []vfHSMsg
	for len(hs) >= 4 {
		n := int(hs[1])<<16 | int(hs[2])<<8 | int(hs[3])
		if len(hs) < 4+n {
			return msgs, errors.New("truncated handshake message")
		}
		msgs = append(msgs, vfHSMsg{Type: hs[0], Body: append([]byte(nil), hs[4:4+n]...), Raw: append([]byte(nil), hs[:4+n]...)})
		hs = hs[4+n:]
	}
	return msgs, nil
}

// vfClientHellosOnWire returns the raw ClientHello handshake messages (header included) found in the
// plaintext handshake records of a client's byte stream, in order. In TLS 1.3 with HRR the second
// ClientHello follows a dummy CCS, so records of type 20 are skipped rather than ending the scan, and the
// scan ends at the first application-data (encrypted) record.
func vfClientHellosOnWire(stream []byte) [][]byte {
	recs, _ := vfSplitRecords(stream)
	var out [][]byte
	var hs []byte
	flush := func() {
		for len(hs) >= 4 {
			n := int(hs[1])<<16 | int(hs[2])<<8 | int(hs[3])
			if len(hs) < 4+n {
				return
			}
			if hs[0] == 1 {
				out = append(out, append([]byte(nil), hs[:4+n]...))
			} else {
				hs = nil
				return
			}
			hs = hs[4+n:]
		}
	}
	for _, r := range recs {
		switch r.Type {
		case 22:
			hs = append(hs, r.Body...)
			flush()
			if hs == nil && len(out) > 0 {
				// a non-ClientHello plaintext handshake message (TLS <= 1.2 ClientKeyExchange...) ends the hello phase
				return out
			}
		case 20:
			continue
		default:
			return out
		}
	}
	return out
}
