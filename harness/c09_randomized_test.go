//go:build verif

package tls

// C09 - randomized fingerprints are seed-reproducible and internally consistent.
//
// Generator: (variant in {Randomized, RandomizedALPN, RandomizedNoALPN}, 32-byte PRNG seed, Weights with every field
// drawn from {0, 1, U(0,1), default}). The hello is built through the public path (UClient + BuildHandshakeState) and
// judged on the *wire bytes* with the reference parser (common_refparse_test.go); the only spec-level observations
// are "the spec carries a padding extension" (on the wire padding is length dependent) and TLSVersMin/Max.
//
// Oracles: (1) reproducibility: same (id, seed, weights) built twice with different Config.Rand streams gives
// vfNormHello-equal hellos, and UTLSIdToSpec twice gives equal specs; (2) weight 0/1 semantics; (3) the invariants
// of the property statement, with an own table of suite classes. The two suspected inconsistencies (DESIGN.md 6 #5)
// are routed through the known-finding keys C09:share-not-in-groups and C09:hybrid-without-share.

import (
	"crypto/sha256"
	"encoding/binary"
	"fmt"
	"os"
	"reflect"
	"strings"
	"testing"

	"pgregory.net/rapid"
)

// ---- own tables (from the RFCs / IANA registry, not from cipher_suites.go) ----

// class 0: TLS 1.3 suites (RFC 8446 B.4); class 1: suites defined for TLS 1.2 only (AEAD and SHA-256/384 CBC
// suites: RFC 5246, 5288, 5289, 7905); class 2: suites usable with TLS 1.0/1.1 as well.
var vf09SuiteClass = map[uint16]int{
	0x1301: 0, 0x1302: 0, 0x1303: 0,
	0xcca8: 1, 0xcca9: 1, 0xc02f: 1, 0xc02b: 1, 0xc030: 1, 0xc02c: 1, 0xc027: 1, 0xc023: 1, 0x009c: 1, 0x009d: 1, 0x003c: 1,
	0xc013: 2, 0xc009: 2, 0xc014: 2, 0xc00a: 2, 0x002f: 2, 0x0035: 2, 0xc012: 2, 0x000a: 2, 0x0005: 2, 0xc011: 2, 0xc007: 2,
}

var vf09RC4 = map[uint16]bool{0x0005: true, 0xc011: true, 0xc007: true, 0x0004: true, 0xc002: true, 0xc00c: true, 0x0017: true, 0x0018: true}

// hybrid post-quantum groups: X25519MLKEM768, SecP256r1MLKEM768, SecP384r1MLKEM1024, X25519Kyber768Draft00
var vf09Hybrid = map[uint16]bool{0x11ec: true, 0x11eb: true, 0x11ed: true, 0x6399: true}

const (
	vf09KeyShareNotInGroups   = "C09:share-not-in-groups"
	vf09KeyHybridWithoutShare = "C09:hybrid-without-share"
)

// ---- generator ----

var vf09WeightNames = []string{
	"Extensions_Append_ALPN", "TLSVersMax_Set_VersionTLS13", "CipherSuites_Remove_RandomCiphers",
	"SigAndHashAlgos_Append_ECDSAWithSHA1", "SigAndHashAlgos_Append_ECDSAWithP521AndSHA512",
	"SigAndHashAlgos_Append_PSSWithSHA256", "SigAndHashAlgos_Append_PSSWithSHA384_PSSWithSHA512",
	"CurveIDs_Append_X25519", "CurveIDs_Append_CurveP521", "Extensions_Append_Padding", "Extensions_Append_Status",
	"Extensions_Append_SCT", "Extensions_Append_Reneg", "Extensions_Append_EMS", "FirstKeyShare_Set_CurveP256",
	"KeyShare_Append_RandomGroups", "Extensions_Append_ALPS",
}

func vf09WeightPtrs(w *Weights) []*float64 {
	return []*float64{
		&w.Extensions_Append_ALPN, &w.TLSVersMax_Set_VersionTLS13, &w.CipherSuites_Remove_RandomCiphers,
		&w.SigAndHashAlgos_Append_ECDSAWithSHA1, &w.SigAndHashAlgos_Append_ECDSAWithP521AndSHA512,
		&w.SigAndHashAlgos_Append_PSSWithSHA256, &w.SigAndHashAlgos_Append_PSSWithSHA384_PSSWithSHA512,
		&w.CurveIDs_Append_X25519, &w.CurveIDs_Append_CurveP521, &w.Extensions_Append_Padding, &w.Extensions_Append_Status,
		&w.Extensions_Append_SCT, &w.Extensions_Append_Reneg, &w.Extensions_Append_EMS, &w.FirstKeyShare_Set_CurveP256,
		&w.KeyShare_Append_RandomGroups, &w.Extensions_Append_ALPS,
	}
}

// vf09Corners counts the weights at 0 or 1 (FirstKeyShare_Set_CurveP256 = 0 is the default and does not count).
func vf09Corners(w *Weights) int {
	n := 0
	for i, p := range vf09WeightPtrs(w) {
		if (*p == 0 && vf09WeightNames[i] != "FirstKeyShare_Set_CurveP256") || *p == 1 {
			n++
		}
	}
	return n
}

var vf09Variants = []ClientHelloID{HelloRandomized, HelloRandomizedALPN, HelloRandomizedNoALPN}

type vf09Case struct {
	variant int
	seed    PRNGSeed
	w       Weights
	corners int
	name    string
	protos  []string
}

func (c *vf09Case) id() ClientHelloID {
	id := vf09Variants[c.variant]
	s := c.seed
	w := c.w
	id.Seed = &s
	id.Weights = &w
	return id
}

func (c *vf09Case) key() string {
	b := append([]byte{byte(c.variant)}, c.seed[:]...)
	for _, p := range vf09WeightPtrs(&c.w) {
		b = binary.BigEndian.AppendUint64(b, uint64(*p*1e9))
	}
	return vfHashHex(b)
}

func vf09GenCase(rt *rapid.T) *vf09Case {
	c := &vf09Case{}
	c.variant = rapid.IntRange(0, 2).Draw(rt, "variant")
	sb := rapid.SliceOfN(rapid.Byte(), 32, 32).Draw(rt, "seed")
	copy(c.seed[:], sb)
	// a TLS 1.3 bias: the interesting rules are all about TLS 1.3 specs
	mode := rapid.IntRange(0, 9).Draw(rt, "wmode")
	c.w = DefaultWeights
	ptrs := vf09WeightPtrs(&c.w)
	switch {
	case mode == 0: // default weights
	case mode == 1: // all corners
		for i, p := range ptrs {
			*p = float64(rapid.IntRange(0, 1).Draw(rt, "c_"+vf09WeightNames[i]))
		}
	default:
		for i, p := range ptrs {
			switch rapid.IntRange(0, 5).Draw(rt, "k_"+vf09WeightNames[i]) {
			case 0:
				*p = 0
			case 1:
				*p = 1
			case 2: // keep default
			default:
				*p = rapid.Float64Range(0, 1).Draw(rt, "w_"+vf09WeightNames[i])
			}
		}
		if mode >= 5 {
			c.w.TLSVersMax_Set_VersionTLS13 = 1
		}
	}
	c.corners = vf09Corners(&c.w)
	c.name = vfGenDNSName(rt, "sni")
	switch rapid.IntRange(0, 3).Draw(rt, "protos") {
	case 1:
		c.protos = []string{"h2"}
	case 2:
		c.protos = []string{"http/1.1", "spdy/3.1", "h2"}
	}
	return c
}

// ---- observation ----

type vf09View struct {
	h              *vfHello
	specMin        uint16
	specMax        uint16
	specHasPadding bool
	tls13          bool
	versions       []uint16
	groups         []uint16
	shares         []uint16
	sigalgs        []uint16
	alpn           []string
}

func (v *vf09View) has(t uint16) bool { return v.h.Ext(t) != nil }

func vf09Build(id ClientHelloID, name string, protos []string, randSeed uint64, label string) (*vf09View, *UConn, error) {
	cp, sp := vfPipe()
	defer cp.Close()
	defer sp.Close()
	cfg := &Config{ServerName: name, Rand: vfNewDetRand(randSeed, label), NextProtos: append([]string(nil), protos...)}
	c := UClient(cp, cfg, id)
	if err := c.BuildHandshakeState(); err != nil {
		return nil, c, err
	}
	h := vfParseClientHello(c.HandshakeState.Hello.Raw)
	v := &vf09View{h: h}
	if c.clientHelloSpec != nil {
		v.specMin, v.specMax = c.clientHelloSpec.TLSVersMin, c.clientHelloSpec.TLSVersMax
	}
	for _, e := range c.Extensions {
		if _, ok := e.(*UtlsPaddingExtension); ok {
			v.specHasPadding = true
		}
	}
	vs, ok := h.SupportedVersions()
	v.versions = vs
	v.tls13 = ok && vfContains16(vs, 0x0304)
	v.groups = h.Groups()
	for _, ks := range h.KeyShares() {
		v.shares = append(v.shares, ks.Group)
	}
	v.sigalgs = h.SigAlgs()
	v.alpn = h.ALPN()
	return v, c, nil
}

// ---- oracles ----

// vf09Invariants checks the invariants of the statement that hold for every (seed, weights). It returns the list of
// failures that are not one of the two known classes, and reports the known classes separately.
func vf09Invariants(v *vf09View) (fails []string, shareNotInGroups, hybridWithoutShare []uint16) {
	bad := func(f string, a ...any) { fails = append(fails, fmt.Sprintf(f, a...)) }
	h := v.h
	if len(h.Violations) > 0 {
		bad("wire hello is not well-formed: %v", h.Violations)
	}
	if h.Version != 0x0303 {
		bad("legacy_version %04x", h.Version)
	}
	// version range
	if v.specMax != 0x0303 && v.specMax != 0x0304 {
		bad("spec TLSVersMax=%04x", v.specMax)
	}
	if v.specMin != 0x0301 && v.specMin != 0x0303 {
		bad("spec TLSVersMin=%04x", v.specMin)
	}
	if (v.specMax == 0x0304) != v.tls13 {
		bad("spec TLSVersMax=%04x but supported_versions on the wire = %04x", v.specMax, v.versions)
	}
	// suite order, duplicates, unknown values
	seen := map[uint16]bool{}
	prev := 0
	n13 := 0
	for i, s := range h.Suites {
		cl, ok := vf09SuiteClass[s]
		if !ok {
			bad("suite %04x at %d is not a suite the library implements", s, i)
			continue
		}
		if seen[s] {
			bad("suite %04x offered twice", s)
		}
		seen[s] = true
		if cl < prev {
			bad("suite order: %04x (class %d) follows a suite of class %d; suites=%04x", s, cl, prev, h.Suites)
		}
		prev = cl
		if cl == 0 {
			n13++
		}
	}
	if len(h.Suites) == 0 {
		bad("no cipher suites")
	}
	if v.tls13 {
		if n13 == 0 {
			bad("TLS 1.3 spec without any TLS 1.3 suite: %04x", h.Suites)
		}
		for _, s := range h.Suites {
			if vf09RC4[s] {
				bad("TLS 1.3 spec offers RC4 suite %04x", s)
			}
		}
		if !vfContains16(v.sigalgs, 0x0804) && !vfContains16(v.sigalgs, 0x0805) && !vfContains16(v.sigalgs, 0x0806) {
			bad("TLS 1.3 spec without RSA-PSS in signature_algorithms %04x", v.sigalgs)
		}
		if !v.specHasPadding {
			bad("TLS 1.3 spec without a padding extension")
		}
		// supported_versions == [max .. min]
		var want []uint16
		for x := v.specMax; x >= v.specMin && x >= 0x0301; x-- {
			want = append(want, x)
		}
		if !reflect.DeepEqual(v.versions, want) {
			bad("supported_versions %04x, want [max..min] = %04x", v.versions, want)
		}
		if !v.has(51) {
			bad("TLS 1.3 spec without key_share")
		}
		if len(v.shares) == 0 {
			bad("TLS 1.3 spec with empty key_share list")
		}
	} else {
		if v.has(43) {
			bad("TLS 1.2 spec carries supported_versions %04x", v.versions)
		}
		if v.has(51) {
			bad("TLS 1.2 spec carries key_share")
		}
	}
	// ALPS only with ALPN
	if (v.has(17513) || v.has(17613)) && !v.has(16) {
		bad("ALPS without ALPN")
	}
	// key shares vs supported_groups
	for _, g := range v.shares {
		if !vfContains16(v.groups, g) {
			shareNotInGroups = append(shareNotInGroups, g)
		}
	}
	for _, g := range v.groups {
		if vf09Hybrid[g] && !vfContains16(v.shares, g) {
			hybridWithoutShare = append(hybridWithoutShare, g)
		}
	}
	return
}

// vf09Route sends the consistency failures either to the known-finding keys (exact known class only) or to a violation.
func vf09Route(st *vfStats, t vfFataler, c *vf09Case, v *vf09View) (known bool) {
	fails, sng, hws := vf09Invariants(v)
	if len(fails) > 0 {
		st.Violation(t, "seed=%x variant=%d weights=%+v: %s", c.seed, c.variant, c.w, strings.Join(fails, "; "))
	}
	if len(sng) > 0 {
		if len(sng) == 1 && sng[0] == 0x11ec && v.tls13 {
			st.Class("known:share-not-in-groups")
			st.KnownOrViolation(t, vf09KeyShareNotInGroups, "key share for X25519MLKEM768 but supported_groups=%04x (seed=%x variant=%d weights=%+v)", v.groups, c.seed, c.variant, c.w)
			known = true
		} else {
			st.Violation(t, "key shares %04x not in supported_groups %04x (seed=%x weights=%+v)", sng, v.groups, c.seed, c.w)
		}
	}
	if len(hws) > 0 {
		if len(hws) == 1 && hws[0] == 0x11ec && v.tls13 {
			st.Class("known:hybrid-without-share")
			st.KnownOrViolation(t, vf09KeyHybridWithoutShare, "supported_groups=%04x lists X25519MLKEM768 but key shares are %04x (seed=%x variant=%d weights=%+v)", v.groups, v.shares, c.seed, c.variant, c.w)
			known = true
		} else {
			st.Violation(t, "hybrid groups %04x listed without key share; shares=%04x (seed=%x weights=%+v)", hws, v.shares, c.seed, c.w)
		}
	}
	return
}

// vf09Weights checks the 0/1 semantics. "Forced by a TLS 1.3 rule" exceptions are spelled out per feature.
func vf09Weights(c *vf09Case, v *vf09View) (fails []string) {
	w := &c.w
	bad := func(f string, a ...any) { fails = append(fails, fmt.Sprintf(f, a...)) }
	feature := func(name string, weight float64, present bool, forcedPresent, forcedAbsent bool) {
		if weight == 0 && present && !forcedPresent {
			bad("%s=0 but the feature is present", name)
		}
		if weight >= 1 && !present && !forcedAbsent {
			bad("%s=1 but the feature is absent", name)
		}
	}
	hasALPN := v.has(16)
	switch c.variant {
	case 0:
		feature("Extensions_Append_ALPN", w.Extensions_Append_ALPN, hasALPN, false, false)
	case 1:
		if !hasALPN {
			bad("HelloRandomizedALPN without ALPN")
		}
	case 2:
		if hasALPN {
			bad("HelloRandomizedNoALPN with ALPN")
		}
	}
	if hasALPN {
		want := c.protos
		if len(want) == 0 {
			want = []string{"h2", "http/1.1"}
		}
		if !reflect.DeepEqual(v.alpn, want) {
			bad("ALPN list %q, want %q", v.alpn, want)
		}
	}
	feature("TLSVersMax_Set_VersionTLS13", w.TLSVersMax_Set_VersionTLS13, v.tls13, false, false)
	if w.CipherSuites_Remove_RandomCiphers == 0 {
		want := 22 // 22 TLS <= 1.2 suites; a 1.3 spec adds 3 and drops the 3 RC4 ones
		if len(v.h.Suites) != want {
			bad("CipherSuites_Remove_RandomCiphers=0 but %d suites offered (want %d): %04x", len(v.h.Suites), want, v.h.Suites)
		}
	}
	sa := func(x uint16) bool { return vfContains16(v.sigalgs, x) }
	feature("SigAndHashAlgos_Append_ECDSAWithSHA1", w.SigAndHashAlgos_Append_ECDSAWithSHA1, sa(0x0203), false, false)
	feature("SigAndHashAlgos_Append_ECDSAWithP521AndSHA512", w.SigAndHashAlgos_Append_ECDSAWithP521AndSHA512, sa(0x0603), false, false)
	feature("SigAndHashAlgos_Append_PSSWithSHA256", w.SigAndHashAlgos_Append_PSSWithSHA256, sa(0x0804), v.tls13, false)
	if sa(0x0805) != sa(0x0806) {
		bad("PSS-SHA384 and PSS-SHA512 do not go together: %04x", v.sigalgs)
	}
	// the 384/512 pair is an option of the PSS block: only meaningful when PSS-SHA256 is offered
	feature("SigAndHashAlgos_Append_PSSWithSHA384_PSSWithSHA512", w.SigAndHashAlgos_Append_PSSWithSHA384_PSSWithSHA512, sa(0x0805), false, !sa(0x0804))
	g := func(x uint16) bool { return vfContains16(v.groups, x) }
	feature("CurveIDs_Append_X25519 (x25519)", w.CurveIDs_Append_X25519, g(0x001d), v.tls13, false)
	// the hybrid group is governed by the same weight but exists in TLS 1.3 specs only; a key share for it forces it in
	feature("CurveIDs_Append_X25519 (X25519MLKEM768)", w.CurveIDs_Append_X25519, g(0x11ec), vfContains16(v.shares, 0x11ec), !v.tls13)
	feature("CurveIDs_Append_CurveP521", w.CurveIDs_Append_CurveP521, g(0x0019), false, false)
	feature("Extensions_Append_Padding", w.Extensions_Append_Padding, v.specHasPadding, v.tls13, false)
	feature("Extensions_Append_Status", w.Extensions_Append_Status, v.has(5), false, false)
	feature("Extensions_Append_SCT", w.Extensions_Append_SCT, v.has(18), false, false)
	feature("Extensions_Append_Reneg", w.Extensions_Append_Reneg, v.has(0xff01), false, false)
	feature("Extensions_Append_EMS", w.Extensions_Append_EMS, v.has(23), false, false)
	if v.tls13 {
		s := func(x uint16) bool { return vfContains16(v.shares, x) }
		if w.FirstKeyShare_Set_CurveP256 >= 1 && (!s(0x0017) || s(0x001d)) {
			bad("FirstKeyShare_Set_CurveP256=1 but key shares are %04x", v.shares)
		}
		if w.FirstKeyShare_Set_CurveP256 == 0 {
			if !s(0x001d) {
				bad("FirstKeyShare_Set_CurveP256=0 but no x25519 share: %04x", v.shares)
			}
			feature("KeyShare_Append_RandomGroups (P-256 share)", w.KeyShare_Append_RandomGroups, s(0x0017), false, false)
			// hybrid share: forced present when the group is listed, forced absent when it is not (consistency rule)
			feature("KeyShare_Append_RandomGroups (X25519MLKEM768 share)", w.KeyShare_Append_RandomGroups, s(0x11ec), g(0x11ec), !g(0x11ec))
		}
	}
	alps := v.has(17513) || v.has(17613)
	feature("Extensions_Append_ALPS", w.Extensions_Append_ALPS, alps, false, !(v.tls13 && hasALPN))
	return
}

// vf09RenderSpec: printable form of a spec for the spec-level reproducibility comparison.
func vf09RenderSpec(s *ClientHelloSpec) []string {
	out := []string{fmt.Sprintf("min=%04x max=%04x suites=%04x comp=%x sid=%v", s.TLSVersMin, s.TLSVersMax, s.CipherSuites, s.CompressionMethods, s.GetSessionID != nil)}
	for _, e := range s.Extensions {
		switch x := e.(type) {
		case *UtlsPaddingExtension:
			out = append(out, fmt.Sprintf("padding len=%d will=%v fn=%v boring=%v", x.PaddingLen, x.WillPad, x.GetPaddingLen != nil,
				x.GetPaddingLen != nil && reflect.ValueOf(x.GetPaddingLen).Pointer() == reflect.ValueOf(BoringPaddingStyle).Pointer()))
		default:
			out = append(out, fmt.Sprintf("%T %+v", e, reflect.Indirect(reflect.ValueOf(e)).Interface()))
		}
	}
	return out
}

func vf09IsSubsequence(sub, full []uint16) bool {
	j := 0
	for _, x := range full {
		if j < len(sub) && sub[j] == x {
			j++
		}
	}
	return j == len(sub)
}

// vf09CheckCase runs every oracle on one case.
func vf09CheckCase(st *vfStats, t vfFataler, c *vf09Case, r1, r2 uint64) *vf09View {
	v1, _, err := vf09Build(c.id(), c.name, c.protos, r1, "a")
	if err != nil {
		st.Violation(t, "BuildHandshakeState failed for seed=%x variant=%d weights=%+v: %v", c.seed, c.variant, c.w, err)
	}
	// (1) reproducibility on the wire
	v2, _, err := vf09Build(c.id(), c.name, c.protos, r2, "b")
	if err != nil {
		st.Violation(t, "second BuildHandshakeState failed for seed=%x: %v", c.seed, err)
	}
	o := vfNormOpts{KeepSNI: true, KeepPadding: true}
	n1, n2 := vfNormHello(v1.h, o), vfNormHello(v2.h, o)
	if !reflect.DeepEqual(n1, n2) {
		st.Violation(t, "same (seed=%x, variant=%d, weights=%+v) gave two different fingerprints:\n%s", c.seed, c.variant, c.w, vfDiffLines(n1, n2))
	}
	if v1.specHasPadding != v2.specHasPadding || v1.specMin != v2.specMin || v1.specMax != v2.specMax {
		st.Violation(t, "same seed=%x: spec-level padding/version range differs between two builds", c.seed)
	}
	// spec-level reproducibility (UTLSIdToSpec: empty server name, default ALPN)
	s1, e1 := UTLSIdToSpec(c.id())
	s2, e2 := UTLSIdToSpec(c.id())
	if e1 != nil || e2 != nil {
		st.Violation(t, "UTLSIdToSpec failed: %v %v", e1, e2)
	}
	rs1, rs2 := vf09RenderSpec(&s1), vf09RenderSpec(&s2)
	if !reflect.DeepEqual(rs1, rs2) {
		st.Violation(t, "UTLSIdToSpec twice with seed=%x gave different specs:\n%s", c.seed, vfDiffLines(rs1, rs2))
	}
	// the spec and the wire hello agree on the cipher list
	if !reflect.DeepEqual(s1.CipherSuites, v1.h.Suites) {
		st.Violation(t, "seed=%x: spec suites %04x != wire suites %04x", c.seed, s1.CipherSuites, v1.h.Suites)
	}
	// (2) weights
	if f := vf09Weights(c, v1); len(f) > 0 {
		st.Violation(t, "weight semantics, seed=%x variant=%d weights=%+v: %s", c.seed, c.variant, c.w, strings.Join(f, "; "))
	}
	// (3) invariants (+ known classes)
	vf09Route(st, t, c, v1)
	// (4) first suite never removed; removal only removes: compare with the same seed at removal weight 0
	c0 := *c
	c0.w.CipherSuites_Remove_RandomCiphers = 0
	s0, e0 := UTLSIdToSpec(c0.id())
	if e0 != nil {
		st.Violation(t, "UTLSIdToSpec failed: %v", e0)
	}
	if len(s0.CipherSuites) == 0 || len(v1.h.Suites) == 0 || s0.CipherSuites[0] != v1.h.Suites[0] {
		st.Violation(t, "seed=%x: first suite removed or changed: without removal %04x, with weight %v %04x", c.seed, s0.CipherSuites, c.w.CipherSuites_Remove_RandomCiphers, v1.h.Suites)
	}
	if !vf09IsSubsequence(v1.h.Suites, s0.CipherSuites) {
		st.Violation(t, "seed=%x: suites with removal weight %v are not a subsequence of the list without removal:\n %04x\n %04x", c.seed, c.w.CipherSuites_Remove_RandomCiphers, v1.h.Suites, s0.CipherSuites)
	}
	if len(v1.h.Suites) < len(s0.CipherSuites) {
		st.Class("suites-removed")
	}
	return v1
}

func TestVerifC09Randomized(t *testing.T) {
	st := vfNewStats(t, "C09")
	rapid.Check(t, func(rt *rapid.T) {
		c := vf09GenCase(rt)
		r1 := rapid.Uint64().Draw(rt, "rand1")
		r2 := rapid.Uint64().Draw(rt, "rand2")
		st.Eval()
		v := vf09CheckCase(st, rt, c, r1, r2)
		st.Class([]string{"variant:Randomized", "variant:RandomizedALPN", "variant:RandomizedNoALPN"}[c.variant])
		if v.tls13 {
			st.Class("tls13")
			if vfContains16(v.groups, 0x11ec) {
				st.Class("tls13:hybrid-group")
			}
			if vfContains16(v.shares, 0x11ec) {
				st.Class("tls13:hybrid-share")
			}
			if v.has(17513) {
				st.Class("tls13:alps")
			}
			if v.h.Ext(21) != nil {
				st.Class("tls13:padding-on-wire")
			}
		} else {
			st.Class("tls12")
		}
		if c.corners > 0 {
			st.Class("has-corner-weight")
		}
		if v.tls13 || c.corners > 0 {
			st.NonTrivial(c.key())
		}
		st.Sample(map[string]any{"variant": vf09Variants[c.variant].Client, "seed": vfHex(c.seed[:]), "weights": fmt.Sprintf("%+v", c.w),
			"suites": fmt.Sprintf("%04x", v.h.Suites), "ext_types": fmt.Sprint(v.h.ExtTypes()), "groups": fmt.Sprintf("%04x", v.groups), "shares": fmt.Sprintf("%04x", v.shares)})
	})
}

func vf09SeedN(label string, i int) PRNGSeed {
	return PRNGSeed(sha256.Sum256([]byte(fmt.Sprintf("vf09|%s|%d", label, i))))
}

// Directed cases: each known class is hit deterministically (corner weights make the two coin flips disagree for
// every seed); all-zero and all-one weight vectors; a nil seed is filled in and reproduces.
func TestVerifC09Directed(t *testing.T) {
	st := vfNewStats(t, "C09")
	// known class 1: hybrid share forced, hybrid group excluded
	for i := 0; i < 4; i++ {
		c := &vf09Case{variant: i % 3, seed: vf09SeedN("dir-share", i), w: DefaultWeights, name: "example.test"}
		c.w.TLSVersMax_Set_VersionTLS13 = 1
		c.w.FirstKeyShare_Set_CurveP256 = 0
		c.w.CurveIDs_Append_X25519 = 0
		c.w.KeyShare_Append_RandomGroups = 1
		st.Eval()
		st.NonTrivial(c.key())
		st.Class("directed:share-vs-groups-corner")
		vf09CheckCase(st, t, c, uint64(i), uint64(i)+100)
	}
	// known class 2: hybrid group forced, hybrid share excluded
	for i := 0; i < 4; i++ {
		c := &vf09Case{variant: i % 3, seed: vf09SeedN("dir-hybrid", i), w: DefaultWeights, name: "example.test"}
		c.w.TLSVersMax_Set_VersionTLS13 = 1
		c.w.FirstKeyShare_Set_CurveP256 = float64(i % 2) // also through the legacy first-share branch
		c.w.CurveIDs_Append_X25519 = 1
		c.w.KeyShare_Append_RandomGroups = 0
		st.Eval()
		st.NonTrivial(c.key())
		st.Class("directed:groups-vs-share-corner")
		vf09CheckCase(st, t, c, uint64(i), uint64(i)+100)
	}
	// all-zero / all-one weights
	for i := 0; i < 60; i++ {
		c := &vf09Case{variant: i % 3, seed: vf09SeedN("dir-corner", i), name: vfDNSNameOfLen(5+i, 'k')}
		if i%2 == 1 {
			for _, p := range vf09WeightPtrs(&c.w) {
				*p = 1
			}
			if i%4 == 3 {
				c.w.FirstKeyShare_Set_CurveP256 = 0
			}
		}
		c.corners = 17
		st.Eval()
		st.NonTrivial(c.key())
		st.Class("directed:all-corner-weights")
		vf09CheckCase(st, t, c, uint64(i), uint64(i)+1000)
	}
	// nil seed and nil weights: the library picks a seed, stores it in the connection's ClientHelloID, and that ID
	// reproduces the fingerprint
	for i := 0; i < 12; i++ {
		id := vf09Variants[i%3]
		v1, c1, err := vf09Build(id, "example.test", nil, uint64(i), "nil-seed")
		if err != nil {
			st.Violation(t, "nil-seed build: %v", err)
		}
		st.Eval()
		st.Class("directed:nil-seed")
		got := c1.ClientHelloID
		if got.Seed == nil {
			st.Violation(t, "after BuildHandshakeState the connection's ClientHelloID has no seed: fingerprint cannot be reproduced")
		}
		v2, _, err := vf09Build(got, "example.test", nil, uint64(i)+77, "nil-seed-2")
		if err != nil {
			st.Violation(t, "nil-seed rebuild: %v", err)
		}
		o := vfNormOpts{KeepSNI: true, KeepPadding: true}
		if n1, n2 := vfNormHello(v1.h, o), vfNormHello(v2.h, o); !reflect.DeepEqual(n1, n2) {
			st.Violation(t, "ClientHelloID read back from the connection (seed %x) does not reproduce the fingerprint:\n%s", got.Seed[:], vfDiffLines(n1, n2))
		}
		cc := &vf09Case{variant: i % 3, seed: *got.Seed, w: DefaultWeights}
		if got.Weights != nil {
			cc.w = *got.Weights
		}
		vf09Route(st, t, cc, v1)
	}
}

// Census under DefaultWeights: every invariant on N deterministic seeds, and the measured fraction of TLS 1.3 specs
// in each known class (written to the evidence).
func TestVerifC09DefaultWeightsCensus(t *testing.T) {
	st := vfNewStats(t, "C09")
	n := 1500
	if vfThorough() {
		n = 30000
	}
	seedBase := os.Getenv("VERIF_SEED_EFFECTIVE") + "|" + os.Getenv("VERIF_SHARD")
	var tls13, sng, hws, both int
	for i := 0; i < n; i++ {
		c := &vf09Case{variant: i % 3, seed: vf09SeedN("census|"+seedBase, i), w: DefaultWeights, name: "census.example.test"}
		v, _, err := vf09Build(c.id(), c.name, nil, uint64(i), "census")
		if err != nil {
			st.Violation(t, "census build seed=%x: %v", c.seed, err)
		}
		st.Eval()
		st.Class("census")
		if !v.tls13 {
			vf09Route(st, t, c, v)
			continue
		}
		tls13++
		st.NonTrivial(c.key())
		_, a, b := vf09Invariants(v)
		if len(a) > 0 {
			sng++
		}
		if len(b) > 0 {
			hws++
		}
		if len(a) > 0 && len(b) > 0 {
			both++
		}
		vf09Route(st, t, c, v)
		if f := vf09Weights(c, v); len(f) > 0 {
			st.Violation(t, "census seed=%x: %s", c.seed, strings.Join(f, "; "))
		}
	}
	st.Extra("census_default_weights", map[string]any{"seeds": n, "tls13_specs": tls13, "share_not_in_groups": sng, "hybrid_without_share": hws, "both": both})
	t.Logf("census: %d seeds, %d TLS 1.3 specs, share-not-in-groups %d, hybrid-without-share %d", n, tls13, sng, hws)
}

// Utility for validating a fix differentially (not a check): with VF09_DUMP=<file> the normalised fingerprints of
// 3000 deterministic seeds under DefaultWeights (and 600 under drawn-once corner weights) are written to the file, one
// line per seed, so that two trees can be compared with diff. See notes/C09.md.
func TestVerifC09Dump(t *testing.T) {
	path := os.Getenv("VF09_DUMP")
	if path == "" {
		t.Skip("VF09_DUMP not set")
	}
	var sb strings.Builder
	for i := 0; i < 3600; i++ {
		c := &vf09Case{variant: i % 3, seed: vf09SeedN("dump", i), w: DefaultWeights, name: "dump.example.test"}
		if i >= 3000 {
			for j, p := range vf09WeightPtrs(&c.w) {
				*p = float64((i >> (uint(j) % 9)) & 1)
			}
		}
		v, _, err := vf09Build(c.id(), c.name, nil, uint64(i), "dump")
		if err != nil {
			t.Fatal(err)
		}
		_, a, b := vf09Invariants(v)
		lines := vfNormHello(v.h, vfNormOpts{KeepSNI: true})
		var rest []string
		ks := ""
		for _, l := range lines {
			if strings.HasPrefix(l, "ext 51:") {
				ks = l
				l = "ext 51:*"
			}
			if strings.HasPrefix(l, "ext 21:") {
				continue // on the wire padding depends on the size of the key shares
			}
			rest = append(rest, l)
		}
		fmt.Fprintf(&sb, "%d consistent=%v rest=%s ks=%s\n", i, len(a) == 0 && len(b) == 0, vfHashHex([]byte(strings.Join(rest, "|"))), ks)
	}
	if err := os.WriteFile(path, []byte(sb.String()), 0o644); err != nil {
		t.Fatal(err)
	}
}
