//go:build verif

package tls

// C07 - native Go fuzz targets (thorough tier only; listed under "fuzz" in props.d/C07.json).
// They share the oracles of c07_oracle_test.go. Known panic classes are recognised inside the target and counted
// (st.KnownOrViolation) so that the fuzzer keeps searching behind them instead of stopping on the first crasher.

import (
	"encoding/json"
	"testing"
)

const vf07FuzzFlushEvery = 50000

func vf07FuzzTick(st *vfStats, n *int) {
	*n++
	if *n%vf07FuzzFlushEvery == 0 {
		st.Flush()
	}
}

var vf07HostileRaw = [][]byte{
	{}, {22}, {22, 3, 1, 0, 0}, {22, 3, 1, 0, 4, 1, 0, 0, 0}, {22, 3, 1, 0xff, 0xff, 1, 0xff, 0xff, 0xff},
	// minimal hello, no extensions
	append([]byte{22, 3, 1, 0, 45, 1, 0, 0, 41, 3, 3}, append(make([]byte, 32), 0, 0, 2, 0x13, 0x01, 1, 0)...),
	// minimal hello with an empty extensions block, and with block lengths 1 / 3 / 0xffff
	append([]byte{22, 3, 1, 0, 47, 1, 0, 0, 43, 3, 3}, append(make([]byte, 32), 0, 0, 2, 0x13, 0x01, 1, 0, 0, 0)...),
	append([]byte{22, 3, 1, 0, 47, 1, 0, 0, 43, 3, 3}, append(make([]byte, 32), 0, 0, 2, 0x13, 0x01, 1, 0, 0, 1)...),
	append([]byte{22, 3, 1, 0, 47, 1, 0, 0, 43, 3, 3}, append(make([]byte, 32), 0, 0, 2, 0x13, 0x01, 1, 0, 0, 3)...),
	append([]byte{22, 3, 1, 0, 47, 1, 0, 0, 43, 3, 3}, append(make([]byte, 32), 0, 0, 2, 0x13, 0x01, 1, 0, 0xff, 0xff)...),
	// key_share with a 3-byte list, PSK with identities length 1, ECH with a 1-byte payload
	append([]byte{22, 3, 1, 0, 56, 1, 0, 0, 52, 3, 3}, append(make([]byte, 32), 0, 0, 2, 0x13, 0x01, 1, 0, 0, 9, 0, 51, 0, 5, 0, 3, 0, 29, 0)...),
	append([]byte{22, 3, 1, 0, 55, 1, 0, 0, 51, 3, 3}, append(make([]byte, 32), 0, 0, 2, 0x13, 0x01, 1, 0, 0, 8, 0, 41, 0, 4, 0, 1, 0, 0)...),
	append([]byte{22, 3, 1, 0, 62, 1, 0, 0, 58, 3, 3}, append(make([]byte, 32), 0, 0, 2, 0x13, 0x01, 1, 0, 0, 15, 0xfe, 0x0d, 0, 11, 0, 0, 1, 0, 1, 7, 0, 0, 0, 1, 9)...),
}

func FuzzVerifC07FromRaw(f *testing.F) {
	st := vf07NewStats(f, "C07")
	for i, s := range vf07MustSeeds(f) {
		f.Add(s.Rec, uint8(i%32))
		f.Add(s.Rec, uint8(1))
	}
	for _, h := range vf07HostileRaw {
		f.Add(h, uint8(3))
	}
	n := 0
	f.Fuzz(func(t *testing.T, rec []byte, flags uint8) {
		vf07FuzzTick(st, &n)
		vf07CheckRaw(st, t, rec, flags&31, "fuzz")
	})
}

func FuzzVerifC07SpecJSON(f *testing.F) {
	st := vf07NewStats(f, "C07")
	for _, b := range vf07Fixtures(f) {
		f.Add(b)
	}
	for _, h := range vf07HostileJSON {
		f.Add([]byte(h))
	}
	n := 0
	f.Fuzz(func(t *testing.T, doc []byte) {
		vf07FuzzTick(st, &n)
		vf07CheckSpecJSON(st, t, doc, false, "fuzz")
	})
}

// data provider for import maps: (key index, length (0xff = nil), bytes)*
func vf07MapFromBytes(b []byte) map[string][]byte {
	m := map[string][]byte{}
	for len(b) >= 2 {
		k := vf07MapKeys[int(b[0])%len(vf07MapKeys)]
		n := int(b[1])
		b = b[2:]
		if n == 0xff {
			m[k] = nil
			continue
		}
		if n > len(b) {
			n = len(b)
		}
		m[k] = append([]byte{}, b[:n]...)
		b = b[n:]
	}
	return m
}

func vf07MapToBytes(m map[string][]byte) []byte {
	var out []byte
	for i, k := range vf07MapKeys {
		v, ok := m[k]
		if !ok {
			continue
		}
		if v == nil {
			out = append(out, byte(i), 0xff)
			continue
		}
		if len(v) > 254 {
			v = v[:254]
		}
		out = append(out, byte(i), byte(len(v)))
		out = append(out, v...)
	}
	return out
}

func FuzzVerifC07ImportMap(f *testing.F) {
	st := vf07NewStats(f, "C07")
	for _, s := range vf07MustSeeds(f) {
		h, _ := vf07RawValid(s.Rec)
		f.Add(vf07MapToBytes(vf07MapFromHello(h)))
	}
	f.Add(vf07MapToBytes(map[string][]byte{"cipher_suites": {0x13, 1}, "compression_methods": {0}, "extensions": {0, 51}, "key_share": {0, 29, 0}}))
	f.Add(vf07MapToBytes(map[string][]byte{"cipher_suites": {0x13, 1}, "compression_methods": {0}, "extensions": {0, 51, 0, 43, 0, 45, 0, 27, 0, 28},
		"key_share": {0, 29, 0, 255}, "supported_versions": {}, "psk_key_exchange_modes": nil}))
	n := 0
	f.Fuzz(func(t *testing.T, data []byte) {
		vf07FuzzTick(st, &n)
		vf07CheckImportMap(st, t, vf07MapFromBytes(data), false, "fuzz")
	})
}

func FuzzVerifC07ImportJSON(f *testing.F) {
	st := vf07NewStats(f, "C07")
	for _, s := range vf07MustSeeds(f) {
		h, _ := vf07RawValid(s.Rec)
		if b, err := json.Marshal(vf07MapFromHello(h)); err == nil {
			f.Add(b)
		}
	}
	for _, h := range vf07HostileJSON {
		f.Add([]byte(h))
	}
	f.Add([]byte(`{"cipher_suites":"EwE=","compression_methods":"AA==","extensions":"ADM=","key_share":"AB0A"}`))
	n := 0
	f.Fuzz(func(t *testing.T, doc []byte) {
		vf07FuzzTick(st, &n)
		vf07CheckImportJSON(st, t, doc, "fuzz")
	})
}

func FuzzVerifC07ExtWrite(f *testing.F) {
	st := vf07NewStats(f, "C07")
	for _, s := range vf07MustSeeds(f) {
		h, _ := vf07RawValid(s.Rec)
		for _, e := range h.Exts {
			f.Add(e.Type, e.Body)
		}
	}
	for _, id := range vf07ExtTypes {
		for _, b := range [][]byte{{}, {0}, {0, 0, 0}, {0xff, 0xff}, {0, 1}, {0, 3, 0, 29, 0}} {
			f.Add(id, b)
		}
	}
	n := 0
	f.Fuzz(func(t *testing.T, id uint16, body []byte) {
		vf07FuzzTick(st, &n)
		// fold arbitrary ids onto the ones that have a writer most of the time
		if id&0x8000 != 0 && id != 0xfe0d && id != 0xff01 {
			id = vf07ExtTypes[int(id)%len(vf07ExtTypes)]
		}
		vf07CheckExtWrite(st, t, id, body, "fuzz")
	})
}
