//go:build verif

// C14 (extension): the package's plain client (tls.Client, the code path without a UConn) offering ECH to a server
// that does not accept it. The chain the server presents authenticates the REJECTION: it must verify for the ECH
// public name (Config.ServerName must not be used, InsecureSkipVerify is ignored). Public names are drawn from DNS
// names and from dotted-decimal names (which a config may legally carry and which x509 matches against IP SANs).
//   leaf valid for the public name      => *ECHRejectionError (with the server's retry configs, if it sent any)
//   leaf not valid for the public name  => *CertificateVerificationError, never success, never ECHRejectionError

package tls

import (
	"bytes"
	"errors"
	"fmt"
	"testing"
	"time"

	"pgregory.net/rapid"
)

func TestVerifC14PlainClientECHRejected(t *testing.T) {
	st := vfNewStats(t, "C14")
	run := func(rt vfFataler, public, certFor string, noKeys bool, insecure bool, seed uint64) {
		st.Eval()
		secret := "hidden.c14.test"
		other := "unrelated.c14.test"
		var names []string
		switch certFor {
		case "public":
			names = []string{public}
		case "secret":
			names = []string{secret}
		case "secret+other":
			names = []string{secret, other}
		default:
			names = []string{other}
		}
		desc := fmt.Sprintf("tls.Client offering ECH (public name %q, InsecureSkipVerify=%v) | server rejects (no ECH keys at all=%v), leaf valid for %v", public, insecure, noKeys, names)
		list, _ := vfMakeECHConfig(seed, public)
		retryList, otherKey := vfMakeECHConfig(seed+7777, public)
		ccfg := vfClientConfig(secret)
		ccfg.MinVersion = VersionTLS13
		ccfg.EncryptedClientHelloConfigList = list
		ccfg.InsecureSkipVerify = insecure
		scfg := vfServerConfig("ecdsa", names...)
		scfg.MinVersion = VersionTLS13
		if !noKeys {
			scfg.EncryptedClientHelloKeys = []EncryptedClientHelloKey{otherKey}
		}
		cp, sp := vfPipe()
		defer cp.Close()
		defer sp.Close()
		cli, srv := Client(cp, ccfg), Server(sp, scfg)
		dl := time.Now().Add(vfIOTimeout)
		cp.SetDeadline(dl)
		sp.SetDeadline(dl)
		vfPipeQuiescent(cp, sp, func() { sp.Close() })
		sdone := make(chan error, 1)
		go func() { sdone <- srv.Handshake() }()
		cerr := cli.Handshake()
		cp.Close()
		select {
		case <-sdone:
		case <-time.After(vfIOTimeout + 10*time.Second):
			st.Violation(rt, "%s: server side did not return", desc)
		}
		// a public name the client does not accept in a config (no hello, or a hello without ECH): not a case of C14
		hs := vfClientHellosOnWire(cp.Written())
		if len(hs) == 0 {
			st.Class("plain-ech:config-not-usable(no verdict)")
			return
		}
		if h := vfParseClientHello(hs[0]); h == nil || h.Ext(0xfe0d) == nil {
			st.Class("plain-ech:config-not-usable(no verdict)")
			return
		}
		if cerr == nil {
			st.Violation(rt, "%s: the handshake SUCCEEDED although the server rejected ECH", desc)
		}
		var rej *ECHRejectionError
		var cve *CertificateVerificationError
		if certFor == "public" {
			if !errors.As(cerr, &rej) {
				st.Violation(rt, "%s: want *ECHRejectionError, got %T %v", desc, cerr, cerr)
			}
			if !noKeys && !bytes.Equal(rej.RetryConfigList, retryList) {
				st.Violation(rt, "%s: retry configs %x, the server sent %x", desc, rej.RetryConfigList, retryList)
			}
			st.Class("plain-ech:rejection-authenticated")
		} else {
			if errors.As(cerr, &rej) {
				st.Violation(rt, "%s: the rejection was accepted as AUTHENTIC (ECHRejectionError) although the leaf is not valid for the public name", desc)
			}
			if !errors.As(cerr, &cve) {
				st.Violation(rt, "%s: want *CertificateVerificationError, got %T %v", desc, cerr, cerr)
			}
			st.Class("plain-ech:rejection-not-authenticated")
			st.NonTrivial("plain-ech|" + desc)
		}
	}
	for i, pub := range []string{"front.c14.test", "10.0.0.1", "192.168.7.20"} {
		for j, cf := range []string{"public", "secret", "other"} {
			run(t, pub, cf, j == 1, false, uint64(100+i*3+j))
		}
	}
	rapid.Check(t, func(rt *rapid.T) {
		var public string
		if rapid.Bool().Draw(rt, "dotted_decimal_public_name") {
			public = fmt.Sprintf("%d.%d.%d.%d", rapid.IntRange(1, 223).Draw(rt, "a"), rapid.IntRange(0, 255).Draw(rt, "b"), rapid.IntRange(0, 255).Draw(rt, "c"), rapid.IntRange(1, 254).Draw(rt, "d"))
		} else {
			public = vfGenDNSName(rt, "public")
		}
		run(rt, public, rapid.SampledFrom([]string{"public", "secret", "secret+other", "other"}).Draw(rt, "leaf_for"),
			rapid.Bool().Draw(rt, "server_without_ech_keys"), rapid.Bool().Draw(rt, "insecure_skip_verify"), rapid.Uint64Range(0, 1<<40).Draw(rt, "seed"))
	})
}
