//go:build verif

package tls

// C22 (extension): ALPS on a RESUMED TLS 1.3 handshake. Application settings are negotiated per connection, also when
// the handshake is a PSK resumption: the server lists application_settings in its EncryptedExtensions, and the client's
// own EncryptedExtensions (with its configured settings for the selected protocol) comes before its Finished and is
// covered by the transcript. Two connections share a client session cache: the first, against the library's own server,
// obtains a ticket; the second goes to a scripted server that really resumes with that ticket and negotiates ALPS.

import (
	"bytes"
	"fmt"
	"testing"

	"pgregory.net/rapid"
)

func TestVerifC22ResumedALPS(t *testing.T) {
	st := vfNewStats(t, "C22")
	var ids []vfParrot
	for _, p := range vfParrots {
		if !vfIsPSKParrot(p) {
			continue
		}
		spec, err := UTLSIdToSpec(p.ID)
		if err != nil {
			continue
		}
		for _, e := range spec.Extensions {
			switch e.(type) {
			case *ApplicationSettingsExtension, *ApplicationSettingsExtensionNew:
				ids = append(ids, p)
			}
		}
	}
	if len(ids) == 0 {
		t.Fatalf("VERIF-INCONCLUSIVE no parrot carries both pre_shared_key and application_settings")
	}
	st.Extra("alps_psk_parrots", len(ids))
	rapid.Check(t, func(rt *rapid.T) {
		p := ids[rapid.IntRange(0, len(ids)-1).Draw(rt, "parrot")]
		sni := vfGenDNSName(rt, "sni")
		settings := map[string][]byte{}
		for _, proto := range []string{"h2", "http/1.1"} {
			switch rapid.IntRange(0, 2).Draw(rt, "cfg_"+proto) {
			case 0:
			case 1:
				settings[proto] = []byte{}
			default:
				settings[proto] = bytes.Repeat([]byte{byte('A' + len(proto))}, rapid.SampledFrom([]int{1, 7, 300}).Draw(rt, "cfglen_"+proto))
			}
		}
		cache := NewLRUClientSessionCache(4)
		scfg := vfServerConfig("ecdsa", vfCertNames(sni)...)
		scfg.MinVersion = VersionTLS13
		scfg.NextProtos = []string{"h2", "http/1.1"}
		mk := func() *Config {
			c := vfClientConfig(sni)
			c.OmitEmptyPsk = true
			c.ClientSessionCache = cache
			c.ApplicationSettings = settings
			return c
		}
		st.Eval()
		p1 := vfNewPair(mk(), p.ID, scfg)
		if cerr, serr := p1.Handshake(); cerr != nil || serr != nil {
			p1.Close()
			st.Violation(rt, "%s: first (full) handshake failed: %v / %v", p.Name, cerr, serr)
		}
		if err := p1.Echo([]byte("a"), []byte("b")); err != nil {
			p1.Close()
			st.Violation(rt, "%s: first connection: %v", p.Name, err)
		}
		p1.Close()
		cp, sp := vfPipe()
		uc := UClient(cp, mk(), p.ID)
		if err := uc.BuildHandshakeState(); err != nil {
			st.Violation(rt, "%s: second hello: %v", p.Name, err)
		}
		h := vfParseClientHello(uc.HandshakeState.Hello.Raw)
		var cpnt uint16
		for _, c := range []uint16{17513, 17613} {
			if h.Ext(c) != nil {
				cpnt = c
			}
		}
		if cpnt == 0 || h.PSK() == nil {
			st.Class("resumed:no-alps-or-no-psk-on-the-wire")
			cp.Close()
			sp.Close()
			return
		}
		alpn := rapid.SampledFrom([]string{"h2", "h2", "http/1.1"}).Draw(rt, "alpn")
		alpsListed := false
		for _, pr := range vfProtoList(h.Ext(cpnt).Body) {
			alpsListed = alpsListed || pr == alpn
		}
		if !alpsListed {
			alpn = "h2"
		}
		s := &vsrvScript{ResumePSK: true, ALPN: &alpn, ALPSCodepoint: cpnt, ALPSData: rapid.SliceOfN(rapid.Byte(), 0, 40).Draw(rt, "srvsettings")}
		srv := Server(sp, scfg)
		vsrvInstall(srv, s)
		pair := &vfPair{CP: cp, SP: sp, Cli: uc, Srv: srv}
		cerr, serr := pair.Handshake()
		defer pair.Close()
		desc := fmt.Sprintf("%s resumed (server used the PSK: %v) | ALPN=%q ALPS codepoint=%d server settings %d bytes, client configured %v", p.Name, s.UsedPSK, alpn, cpnt, len(s.ALPSData), vf22Describe(settings))
		if !s.UsedPSK {
			st.Class("resumed:ticket-not-usable")
			return
		}
		if cerr == errVfHang || serr == errVfHang {
			st.Violation(rt, "%s: hang", desc)
		}
		if cerr != nil || serr != nil || !s.Completed {
			st.Violation(rt, "%s: handshake failed: client err=%v server err=%v log=%v", desc, cerr, serr, s.Log)
		}
		cs := pair.Cli.ConnectionState()
		if !cs.DidResume {
			st.Violation(rt, "%s: client does not report a resumed session", desc)
		}
		if !bytes.Equal(cs.PeerApplicationSettings, s.ALPSData) {
			st.Violation(rt, "%s: PeerApplicationSettings = %d bytes, server sent %d", desc, len(cs.PeerApplicationSettings), len(s.ALPSData))
		}
		if s.ClientEE == nil {
			st.Violation(rt, "%s: no client EncryptedExtensions received", desc)
		}
		if s.ClientEE.applicationSettingsCodepoint != cpnt {
			st.Violation(rt, "%s: client EncryptedExtensions uses code point %d", desc, s.ClientEE.applicationSettingsCodepoint)
		}
		if want := settings[alpn]; !bytes.Equal(s.ClientEE.applicationSettings, want) {
			st.Violation(rt, "%s: client sent settings %d bytes for %q, configured %d bytes", desc, len(s.ClientEE.applicationSettings), alpn, len(want))
		}
		if err := pair.Echo([]byte("a"), []byte("b")); err != nil {
			st.Violation(rt, "%s: echo: %v", desc, err)
		}
		st.Class("resumed:alps-negotiated")
		st.NonTrivial(fmt.Sprintf("resumed|%s|%s|%d|%d", p.Name, alpn, cpnt, len(s.ALPSData)))
	})
}
