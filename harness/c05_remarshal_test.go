//go:build verif

package tls

// C05 (extension): the padding decision must be taken afresh every time the ClientHello is marshalled: sequences
// BuildHandshakeState -> edit that changes the unpadded length (SetSNI, ALPN edit, extra extension) -> re-build, where
// the unpadded length crosses the 256 / 512 boundaries in either direction; and resumption hellos of the padding+PSK
// parrot, where the pre_shared_key extension follows the padding extension.

import (
	"bytes"
	"fmt"
	"testing"

	"pgregory.net/rapid"
)

func TestVerifC05Remarshal(t *testing.T) {
	st := vfNewStats(t, "C05")
	padded := vf05PaddedParrots(t)
	rapid.Check(t, func(rt *rapid.T) {
		p := padded[rapid.IntRange(0, len(padded)-1).Draw(rt, "parrot")]
		n1 := rapid.IntRange(1, 253).Draw(rt, "sni1")
		steps := rapid.IntRange(1, 3).Draw(rt, "steps")
		cp, _ := vfPipe()
		defer cp.Close()
		cfg := vfClientConfig(vf05Name(n1, 'a'))
		cfg.OmitEmptyPsk = true
		uc := UClient(cp, cfg, p.ID)
		st.Eval()
		if err := uc.BuildHandshakeState(); err != nil {
			st.Violation(rt, "%s: %v", p.Name, err)
		}
		u0, pad0, fail := vf05Judge(uc.HandshakeState.Hello.Raw)
		if fail != "" {
			st.Violation(rt, "%s sni %d: first build: %s", p.Name, n1, fail)
		}
		hist := fmt.Sprintf("build(sni=%d: U=%d padded=%v)", n1, u0, pad0)
		crossed := false
		prevPad := pad0
		for s := 0; s < steps; s++ {
			switch rapid.IntRange(0, 2).Draw(rt, fmt.Sprintf("op%d", s)) {
			case 0:
				n := rapid.IntRange(1, 253).Draw(rt, fmt.Sprintf("sni%d", s+2))
				uc.SetSNI(vf05Name(n, 'b'))
				hist += fmt.Sprintf(" SetSNI(%d)", n)
			case 1:
				n := rapid.IntRange(0, 400).Draw(rt, fmt.Sprintf("extra%d", s))
				// append (or resize) a generic extension before a trailing padding/PSK so that the length changes
				found := false
				for _, e := range uc.Extensions {
					if g, ok := e.(*GenericExtension); ok && g.Id == 0x4a4a+1 {
						g.Data = bytes.Repeat([]byte{1}, n)
						found = true
					}
				}
				if !found {
					ext := &GenericExtension{Id: 0x4a4a + 1, Data: bytes.Repeat([]byte{1}, n)}
					uc.Extensions = append([]TLSExtension{ext}, uc.Extensions...)
				}
				hist += fmt.Sprintf(" generic(%d)", n)
			case 2:
				for _, e := range uc.Extensions {
					if a, ok := e.(*ALPNExtension); ok {
						k := rapid.IntRange(0, 60).Draw(rt, fmt.Sprintf("alpn%d", s))
						a.AlpnProtocols = []string{"h2", string(bytes.Repeat([]byte{'x'}, k+1))}
						hist += fmt.Sprintf(" alpn(+%d)", k)
					}
				}
			}
			var err error
			if rapid.Bool().Draw(rt, fmt.Sprintf("how%d", s)) {
				err = uc.BuildHandshakeState()
				hist += " BuildHandshakeState"
			} else {
				err = uc.MarshalClientHello()
				hist += " MarshalClientHello"
			}
			if err != nil {
				st.Violation(rt, "%s: %s: %v", p.Name, hist, err)
			}
			u, pad, fail := vf05Judge(uc.HandshakeState.Hello.Raw)
			hist += fmt.Sprintf("(U=%d padded=%v)", u, pad)
			if fail != "" {
				st.Violation(rt, "%s: %s: %s", p.Name, hist, fail)
			}
			if pad != prevPad {
				crossed = true
			}
			prevPad = pad
		}
		if crossed {
			st.NonTrivial("remarshal|" + p.Name + "|" + hist)
			st.Class("remarshal-crossed-boundary")
		} else {
			st.Class("remarshal-same-side")
		}
		st.Sample(map[string]any{"parrot": p.Name, "history": hist})
	})
}

// The padding+PSK parrot on a warm cache: the PSK extension (after the padding extension in the spec) counts towards the
// unpadded length.
func TestVerifC05ResumedPSKPadding(t *testing.T) {
	st := vfNewStats(t, "C05")
	var cands []vfParrot
	for _, p := range vfParrots {
		if !vfIsPSKParrot(p) {
			continue
		}
		spec, _ := UTLSIdToSpec(p.ID)
		if vf05HasPadding(&spec) {
			cands = append(cands, p)
		}
	}
	if len(cands) == 0 {
		t.Skip("no parrot with padding and pre_shared_key")
	}
	for _, p := range cands {
		for _, n := range []int{4, 16, 40, 80, 120, 160, 200, 253} {
			name := vf05Name(n, 'p')
			cfg := vfClientConfig(name)
			cfg.OmitEmptyPsk = true
			cfg.ClientSessionCache = NewLRUClientSessionCache(4)
			scfg := vfServerConfig("ecdsa", name)
			for i := 0; i < 2; i++ {
				pr := vfNewPair(cfg, p.ID, scfg)
				cerr, serr := pr.Handshake()
				st.Eval()
				if cerr != nil || serr != nil {
					st.Class("resumed-psk-handshake-failed")
					pr.Close()
					break
				}
				hellos := vfClientHellosOnWire(pr.CP.Written())
				h := vfParseClientHello(hellos[0])
				u, pad, fail := vf05Judge(hellos[0])
				if fail != "" {
					st.Violation(t, "%s sni %d connection %d (pre_shared_key on the wire: %v): %s", p.Name, n, i, h.Ext(41) != nil, fail)
				}
				if i == 1 && h.Ext(41) != nil {
					st.NonTrivial(fmt.Sprintf("resumedpsk|%s|%d|%d|%v", p.Name, n, u, pad))
					st.Class("resumed-psk-judged")
				}
				if i == 1 && h.Ext(41) != nil {
					vf05FingerprintPSKCapture(st, t, p.Name, hellos[0], uint64(n))
				}
				pr.Echo([]byte("a"), []byte("b"))
				pr.Close()
			}
		}
	}
}

// A resumption capture (padding extension followed by pre_shared_key, or pre_shared_key alone when the hello was too
// long to be padded) is fingerprinted with and without AlwaysAddPadding: the spec must list at most one padding
// extension, re-apply, and the new hello obeys the policy (and reproduces the captured length when the capture was padded).
func vf05FingerprintPSKCapture(st *vfStats, t vfFataler, parrot string, capture []byte, stream uint64) {
	hc := vfParseClientHello(capture)
	capPad := hc.Ext(21)
	sni, _ := hc.SNI()
	for _, alwaysAdd := range []bool{false, true} {
		st.Eval()
		spec, err := (&Fingerprinter{AlwaysAddPadding: alwaysAdd}).FingerprintClientHello(vf05Record(capture))
		if err != nil {
			st.Class("fp-psk-skipped:fingerprint-error")
			continue
		}
		what := fmt.Sprintf("%s resumption capture (U=%d, padding %v, pre_shared_key last) fingerprinted with AlwaysAddPadding=%v", parrot, vfUnpaddedLen(hc), capPad != nil, alwaysAdd)
		cnt := 0
		for _, e := range spec.Extensions {
			if _, ok := e.(*UtlsPaddingExtension); ok {
				cnt++
			}
		}
		if cnt > 1 {
			st.Violation(t, "%s: spec lists %d padding extensions", what, cnt)
		}
		raw, err := vf05BuildCustom(spec, vfDNSNameOfLen(len(sni), 'z'), stream+99)
		if err != nil {
			st.Violation(t, "%s: re-applying the fingerprint failed: %v", what, err)
		}
		h := vfParseClientHello(raw)
		if len(h.Violations) > 0 {
			st.Violation(t, "%s: hello from the fingerprint does not parse: %v", what, h.Violations)
		}
		if vfUnpaddedLen(h) != vfUnpaddedLen(hc) {
			st.Class("fp-psk-skipped:unpadded-length-differs")
			continue
		}
		if capPad != nil && len(raw) != len(capture) {
			st.Violation(t, "%s: capture of %d bytes reproduced with %d bytes", what, len(capture), len(raw))
		}
		if capPad != nil || alwaysAdd {
			// Boring-style padding is in force (captured from the parrot, or added by the flag)
			if _, _, fail := vf05Judge(raw); fail != "" {
				st.Violation(t, "%s: %s", what, fail)
			}
		} else if h.Ext(21) != nil {
			st.Violation(t, "%s: padding extension appeared although neither captured nor requested", what)
		}
		st.Class(fmt.Sprintf("fp-psk:pad=%v:alwaysAdd=%v", capPad != nil, alwaysAdd))
		st.NonTrivial(fmt.Sprintf("fppsk|%s|%d|%v", parrot, len(capture), alwaysAdd))
	}
}
