//go:build verif

package tls

// C13 (extension): a history with a FAILED ApplyPreset. A HelloCustom connection gets one spec applied successfully and
// then a second one whose application fails half-way (three GREASE extensions, a key share utls cannot generate); the
// application logs the error and goes on with the connection it has. Whatever hello that connection then sends, a
// handshake with a legacy server (negotiates from legacy_version, no sentinel) may only complete at a version that
// hello advertised: the accepted range and the advertised list must not come from two different specs.

import (
	"fmt"
	"testing"

	"pgregory.net/rapid"
)

func TestVerifC13FailedPresetHistory(t *testing.T) {
	st := vfNewStats(t, "C13")
	rapid.Check(t, func(rt *rapid.T) {
		a := vfGenParrot(rt, "first_spec")
		b := vfGenParrot(rt, "second_spec")
		if vfIsPSKParrot(a) || vfIsPSKParrot(b) {
			return // (pre_shared_key must stay last: appending to such a spec trips a documented assertion)
		}
		specA, errA := UTLSIdToSpec(a.ID)
		specB, errB := UTLSIdToSpec(b.ID)
		if errA != nil || errB != nil {
			return
		}
		how := rapid.SampledFrom([]string{"three-grease-extensions", "ungeneratable-key-share"}).Draw(rt, "failure")
		switch how {
		case "three-grease-extensions":
			specB.Extensions = append(specB.Extensions, &UtlsGREASEExtension{}, &UtlsGREASEExtension{}, &UtlsGREASEExtension{})
		default:
			specB.Extensions = append(specB.Extensions, &KeyShareExtension{KeyShares: []KeyShare{{Group: CurveID(0x001e)}}})
		}
		sni := "history.c13.test"
		cp, sp := vfPipe()
		ccfg := vfClientConfig(sni)
		ccfg.OmitEmptyPsk = true
		ccfg.Rand = vfNewDetRand(rapid.Uint64().Draw(rt, "rand"), "c13-history")
		uc := UClient(cp, ccfg, HelloCustom)
		st.Eval()
		if err := uc.ApplyPreset(&specA); err != nil {
			st.Class("history:first-preset-refused")
			cp.Close()
			return
		}
		if err := uc.ApplyPreset(&specB); err == nil {
			st.Class("history:second-preset-accepted")
			cp.Close()
			return
		}
		if err := uc.BuildHandshakeState(); err != nil {
			st.Class("history:unbuildable-after-failed-preset")
			cp.Close()
			return
		}
		h := vfParseClientHello(uc.HandshakeState.Hello.Raw)
		o := vfOfferOf(h, uc.config.MinVersion)
		top := h.Version
		if top > VersionTLS12 {
			top = VersionTLS12
		}
		if top < VersionTLS10 {
			cp.Close()
			return
		}
		ver := uint16(rapid.IntRange(int(VersionTLS10), int(top)).Draw(rt, "version"))
		var si *vfSuiteInfo
		var keys []string
		for _, id := range o.Suites {
			c := vfLegacySuite(id)
			if c == nil || (c.TLS12 && ver < VersionTLS12) {
				continue
			}
			if k := vfCertKeysFor(o, ver, c.Auth); len(k) > 0 {
				si, keys = c, k
				break
			}
		}
		if si == nil {
			st.Class("history:no-legacy-suite-for-version")
			cp.Close()
			return
		}
		s := &vsrv12Script{Version: ver, Canary: "none", Suite: si.ID}
		scfg := vfServerConfig(keys[0], vfCertNames(sni)...)
		scfg.MaxVersion = VersionTLS12
		srv := Server(sp, scfg)
		vsrv12Install(srv, s)
		pair := &vfPair{CP: cp, SP: sp, Cli: uc, Srv: srv}
		defer pair.Close()
		cerr, serr := pair.Handshake()
		// judged on what really went out
		adv := o
		if hs := vfClientHellosOnWire(cp.Written()); len(hs) > 0 {
			adv = vfOfferOf(vfParseClientHello(hs[0]), uc.config.MinVersion)
		}
		desc := fmt.Sprintf("HelloCustom: ApplyPreset(%s) ok, ApplyPreset(%s + %s) failed, handshake anyway | legacy server picks %04x, hello advertises %04x", a.Name, b.Name, how, ver, adv.Versions)
		if cerr == errVfHang || serr == errVfHang {
			st.Violation(rt, "%s: hang", desc)
		}
		completed := cerr == nil && pair.Cli.ConnectionState().HandshakeComplete
		st.Class(fmt.Sprintf("history: server=%04x advertised=%v completed=%v", ver, adv.HasVersion(ver), completed))
		if completed && !adv.HasVersion(ver) {
			st.Violation(rt, "%s: handshake COMPLETED at a version the hello did not advertise", desc)
		}
		if !adv.HasVersion(ver) {
			st.NonTrivial(fmt.Sprintf("history|%s|%s|%04x", a.Name, b.Name, ver))
		}
	})
}
