//go:build verif

package tls

// Shared TLS scaffolding for the /verif checks: parrot list, in-test PKI, handshake runner over vfPipe,
// deterministic randomness source, generators for server names.

import (
	"crypto"
	"crypto/ecdh"
	"crypto/ecdsa"
	"crypto/ed25519"
	"crypto/elliptic"
	"crypto/rand"
	"crypto/rsa"
	"crypto/x509"
	"crypto/x509/pkix"
	"errors"
	"fmt"
	"io"
	"math/big"
	"net"
	"strings"
	"sync"
	"time"

	"golang.org/x/crypto/sha3"
	"pgregory.net/rapid"
)

// ---- parrots ----

type vfParrot struct {
	Name string
	ID   ClientHelloID
}

// All predefined (non-randomized, non-Golang, non-custom) identities. Cross-checked against u_common.go by
// TestVerifC03ParrotListComplete.
var vfParrots = []vfParrot{
	{"HelloFirefox_55", HelloFirefox_55}, {"HelloFirefox_56", HelloFirefox_56}, {"HelloFirefox_63", HelloFirefox_63},
	{"HelloFirefox_65", HelloFirefox_65}, {"HelloFirefox_99", HelloFirefox_99}, {"HelloFirefox_102", HelloFirefox_102},
	{"HelloFirefox_105", HelloFirefox_105}, {"HelloFirefox_120", HelloFirefox_120},
	{"HelloChrome_58", HelloChrome_58}, {"HelloChrome_62", HelloChrome_62}, {"HelloChrome_70", HelloChrome_70},
	{"HelloChrome_72", HelloChrome_72}, {"HelloChrome_83", HelloChrome_83}, {"HelloChrome_87", HelloChrome_87},
	{"HelloChrome_96", HelloChrome_96}, {"HelloChrome_100", HelloChrome_100}, {"HelloChrome_102", HelloChrome_102},
	{"HelloChrome_106_Shuffle", HelloChrome_106_Shuffle}, {"HelloChrome_100_PSK", HelloChrome_100_PSK},
	{"HelloChrome_112_PSK_Shuf", HelloChrome_112_PSK_Shuf}, {"HelloChrome_114_Padding_PSK_Shuf", HelloChrome_114_Padding_PSK_Shuf},
	{"HelloChrome_115_PQ", HelloChrome_115_PQ}, {"HelloChrome_115_PQ_PSK", HelloChrome_115_PQ_PSK},
	{"HelloChrome_120", HelloChrome_120}, {"HelloChrome_120_PQ", HelloChrome_120_PQ}, {"HelloChrome_131", HelloChrome_131},
	{"HelloChrome_133", HelloChrome_133},
	{"HelloIOS_11_1", HelloIOS_11_1}, {"HelloIOS_12_1", HelloIOS_12_1}, {"HelloIOS_13", HelloIOS_13}, {"HelloIOS_14", HelloIOS_14},
	{"HelloAndroid_11_OkHttp", HelloAndroid_11_OkHttp},
	{"HelloEdge_85", HelloEdge_85}, {"HelloEdge_106", HelloEdge_106},
	{"HelloSafari_16_0", HelloSafari_16_0},
	{"Hello360_7_5", Hello360_7_5}, {"Hello360_11_0", Hello360_11_0},
	{"HelloQQ_11_1", HelloQQ_11_1},
}

func vfIsPSKParrot(p vfParrot) bool { return strings.Contains(p.Name, "PSK") }

func vfGenParrot(t *rapid.T, label string) vfParrot {
	return vfParrots[rapid.IntRange(0, len(vfParrots)-1).Draw(t, label)]
}

// vfSpecHasTLS13 reports whether the spec of id offers TLS 1.3.
func vfSpecMaxVersion(spec *ClientHelloSpec) uint16 {
	if spec.TLSVersMax != 0 {
		return spec.TLSVersMax
	}
	for _, e := range spec.Extensions {
		if sv, ok := e.(*SupportedVersionsExtension); ok {
			var m uint16
			for _, v := range sv.Versions {
				if !vfIsGREASE(v) && v > m {
					m = v
				}
			}
			return m
		}
	}
	return VersionTLS12
}

// ---- deterministic randomness for Config.Rand ----

type vfDetRand struct {
	mu sync.Mutex
	h  sha3.ShakeHash
}

func vfNewDetRand(seed uint64, label string) *vfDetRand {
	h := sha3.NewShake128()
	h.Write([]byte(fmt.Sprintf("vf-rand|%d|%s", seed, label)))
	return &vfDetRand{h: h}
}

func (r *vfDetRand) Read(p []byte) (int, error) {
	r.mu.Lock()
	defer r.mu.Unlock()
	return r.h.Read(p)
}

// ---- PKI ----

type vfCA struct {
	Cert *x509.Certificate
	Key  *ecdsa.PrivateKey
	Pool *x509.CertPool
}

var (
	vfPKIMu    sync.Mutex
	vfCAs      = map[string]*vfCA{}
	vfLeafs    = map[string]*Certificate{}
	vfRSAKey   *rsa.PrivateKey
	vfPKIEpoch = time.Date(2025, 1, 1, 0, 0, 0, 0, time.UTC) // the harness' "now"
)

func vfNow() time.Time { return vfPKIEpoch }

func vfGetCA(name string) *vfCA {
	vfPKIMu.Lock()
	defer vfPKIMu.Unlock()
	if ca, ok := vfCAs[name]; ok {
		return ca
	}
	key, err := ecdsa.GenerateKey(elliptic.P256(), rand.Reader)
	if err != nil {
		panic(err)
	}
	tmpl := &x509.Certificate{
		SerialNumber: big.NewInt(int64(len(vfCAs) + 1)), Subject: pkix.Name{CommonName: "vf root " + name},
		NotBefore: vfPKIEpoch.Add(-10 * 365 * 24 * time.Hour), NotAfter: vfPKIEpoch.Add(10 * 365 * 24 * time.Hour),
		KeyUsage: x509.KeyUsageCertSign | x509.KeyUsageDigitalSignature, BasicConstraintsValid: true, IsCA: true,
	}
	der, err := x509.CreateCertificate(rand.Reader, tmpl, tmpl, &key.PublicKey, key)
	if err != nil {
		panic(err)
	}
	cert, _ := x509.ParseCertificate(der)
	pool := x509.NewCertPool()
	pool.AddCert(cert)
	ca := &vfCA{Cert: cert, Key: key, Pool: pool}
	vfCAs[name] = ca
	return ca
}

type vfLeafSpec struct {
	KeyType   string // "ecdsa", "rsa", "ed25519"
	Names     []string
	CA        string // which root signs it
	NotBefore time.Time
	NotAfter  time.Time
}

// vfLeaf returns (cached) a leaf certificate chain for the spec.
func vfLeaf(s vfLeafSpec) *Certificate {
	if s.KeyType == "" {
		s.KeyType = "ecdsa"
	}
	if s.CA == "" {
		s.CA = "main"
	}
	if s.NotBefore.IsZero() {
		s.NotBefore = vfPKIEpoch.Add(-24 * time.Hour)
	}
	if s.NotAfter.IsZero() {
		s.NotAfter = vfPKIEpoch.Add(365 * 24 * time.Hour)
	}
	key := fmt.Sprintf("%s|%s|%s|%d|%d", s.KeyType, strings.Join(s.Names, ","), s.CA, s.NotBefore.Unix(), s.NotAfter.Unix())
	ca := vfGetCA(s.CA)
	vfPKIMu.Lock()
	defer vfPKIMu.Unlock()
	if c, ok := vfLeafs[key]; ok {
		return c
	}
	var priv crypto.Signer
	switch s.KeyType {
	case "ecdsa":
		k, err := ecdsa.GenerateKey(elliptic.P256(), rand.Reader)
		if err != nil {
			panic(err)
		}
		priv = k
	case "rsa":
		if vfRSAKey == nil {
			k, err := rsa.GenerateKey(rand.Reader, 2048)
			if err != nil {
				panic(err)
			}
			vfRSAKey = k
		}
		priv = vfRSAKey
	case "ed25519":
		_, k, err := ed25519.GenerateKey(rand.Reader)
		if err != nil {
			panic(err)
		}
		priv = k
	default:
		panic("bad key type " + s.KeyType)
	}
	tmpl := &x509.Certificate{
		SerialNumber: big.NewInt(int64(1000 + len(vfLeafs))), Subject: pkix.Name{CommonName: "vf leaf"},
		NotBefore: s.NotBefore, NotAfter: s.NotAfter,
		KeyUsage:    x509.KeyUsageDigitalSignature | x509.KeyUsageKeyEncipherment,
		ExtKeyUsage: []x509.ExtKeyUsage{x509.ExtKeyUsageServerAuth, x509.ExtKeyUsageClientAuth},
	}
	for _, n := range s.Names {
		if ip := net.ParseIP(strings.TrimSuffix(strings.TrimPrefix(n, "["), "]")); ip != nil {
			tmpl.IPAddresses = append(tmpl.IPAddresses, ip)
		} else {
			tmpl.DNSNames = append(tmpl.DNSNames, n)
		}
	}
	der, err := x509.CreateCertificate(rand.Reader, tmpl, ca.Cert, priv.Public(), ca.Key)
	if err != nil {
		panic(err)
	}
	leaf, _ := x509.ParseCertificate(der)
	c := &Certificate{Certificate: [][]byte{der}, PrivateKey: priv, Leaf: leaf}
	vfLeafs[key] = c
	return c
}

// vfServerConfig returns a fresh server Config with a leaf for the given names (wildcard-free), all suites and
// curves the library implements, and harness time.
func vfServerConfig(keyType string, names ...string) *Config {
	if len(names) == 0 {
		names = []string{"example.test"}
	}
	cfg := &Config{
		Certificates: []Certificate{*vfLeaf(vfLeafSpec{KeyType: keyType, Names: names})},
		MinVersion:   VersionTLS10,
		MaxVersion:   VersionTLS13,
		Time:         vfNow,
		CipherSuites: vfAllServerSuites(),
	}
	return cfg
}

func vfAllServerSuites() []uint16 {
	var ids []uint16
	for _, s := range CipherSuites() {
		ids = append(ids, s.ID)
	}
	for _, s := range InsecureCipherSuites() {
		ids = append(ids, s.ID)
	}
	return ids
}

// vfClientConfig returns a client config trusting the main CA, with harness time.
func vfClientConfig(serverName string) *Config {
	return &Config{ServerName: serverName, RootCAs: vfGetCA("main").Pool, Time: vfNow}
}

// ---- handshake runner ----

type vfPair struct {
	CP, SP *vfConn
	Cli    *UConn
	Srv    *Conn
	CliErr error
	SrvErr error
}

// vfIOTimeout bounds every blocking call of a case. No passing path waits for it; it only ends cases on a tree that
// stalls. It is generous because the checks must stay quiet on a machine that is busy with other work (a 20 s bound was
// once exceeded by a healthy handshake while ~80 runnable processes competed for 16 cores, DESIGN.md 8.3).
const vfIOTimeout = 45 * time.Second

// vfNewPair wires a UClient and a Server over a fresh vfPipe. prep (optional) runs on the UConn before the handshake.
func vfNewPair(ccfg *Config, id ClientHelloID, scfg *Config) *vfPair {
	cp, sp := vfPipe()
	p := &vfPair{CP: cp, SP: sp}
	p.Cli = UClient(cp, ccfg, id)
	if scfg != nil {
		p.Srv = Server(sp, scfg)
	}
	return p
}

var errVfHang = errors.New("vf: handshake did not return within the bound")

// Handshake runs both handshakes concurrently and waits for both to return (bounded).
func (p *vfPair) Handshake() (cerr, serr error) {
	dl := time.Now().Add(vfIOTimeout)
	p.CP.SetDeadline(dl)
	p.SP.SetDeadline(dl)
	cdone := make(chan error, 1)
	sdone := make(chan error, 1)
	go func() {
		err := p.Cli.Handshake()
		if err != nil {
			p.CP.Close() // unblock the peer
		}
		cdone <- err
	}()
	go func() {
		if p.Srv == nil {
			sdone <- nil
			return
		}
		err := p.Srv.Handshake()
		if err != nil {
			p.SP.Close()
		}
		sdone <- err
	}()
	timer := time.NewTimer(vfIOTimeout + 10*time.Second)
	defer timer.Stop()
	for i := 0; i < 2; i++ {
		select {
		case p.CliErr = <-cdone:
			cdone = nil
		case p.SrvErr = <-sdone:
			sdone = nil
		case <-timer.C:
			if cdone != nil {
				p.CliErr = errVfHang
			}
			if sdone != nil {
				p.SrvErr = errVfHang
			}
			return p.CliErr, p.SrvErr
		}
	}
	return p.CliErr, p.SrvErr
}

// Echo sends data client->server and server->client and checks it arrives. The client side read also consumes
// post-handshake messages (session tickets).
func (p *vfPair) Echo(c2s, s2c []byte) error {
	dl := time.Now().Add(vfIOTimeout)
	p.CP.SetDeadline(dl)
	p.SP.SetDeadline(dl)
	errc := make(chan error, 2)
	go func() {
		if _, err := p.Cli.Write(c2s); err != nil {
			errc <- fmt.Errorf("client write: %w", err)
			return
		}
		buf := make([]byte, len(s2c))
		if _, err := io.ReadFull(p.Cli, buf); err != nil {
			errc <- fmt.Errorf("client read: %w", err)
			return
		}
		if string(buf) != string(s2c) {
			errc <- fmt.Errorf("client read %x want %x", buf, s2c)
			return
		}
		errc <- nil
	}()
	go func() {
		buf := make([]byte, len(c2s))
		if _, err := io.ReadFull(p.Srv, buf); err != nil {
			errc <- fmt.Errorf("server read: %w", err)
			return
		}
		if string(buf) != string(c2s) {
			errc <- fmt.Errorf("server read %x want %x", buf, c2s)
			return
		}
		if _, err := p.Srv.Write(s2c); err != nil {
			errc <- fmt.Errorf("server write: %w", err)
			return
		}
		errc <- nil
	}()
	var first error
	for i := 0; i < 2; i++ {
		select {
		case err := <-errc:
			if err != nil && first == nil {
				first = err
				p.CP.Close()
				p.SP.Close()
			}
		case <-time.After(vfIOTimeout + 10*time.Second):
			return errVfHang
		}
	}
	return first
}

func (p *vfPair) Close() {
	p.CP.Close()
	p.SP.Close()
}

// ---- name generators ----

// vfGenDNSName draws a syntactically valid DNS host name of exactly n bytes (n >= 1), labels <= 63, ending in
// a letter, lower-case.
func vfDNSNameOfLen(n int, fill byte) string {
	if n <= 0 {
		return ""
	}
	var sb strings.Builder
	label := 0
	for sb.Len() < n {
		remaining := n - sb.Len()
		if label >= 20 && remaining > 1 {
			sb.WriteByte('.')
			label = 0
			continue
		}
		sb.WriteByte(fill)
		label++
	}
	return sb.String()
}

func vfGenDNSName(t *rapid.T, label string) string {
	n := rapid.IntRange(4, 60).Draw(t, label+"_len")
	f := byte('a' + rapid.IntRange(0, 25).Draw(t, label+"_fill"))
	return vfDNSNameOfLen(n, f)
}

func vfDeadline() time.Time { return time.Now().Add(vfIOTimeout) }

// vfMakeECHConfig returns a one-entry ECHConfigList (X25519, HKDF-SHA256 with AES-128-GCM and ChaCha20-Poly1305) for
// the public name and the matching server key.
func vfMakeECHConfig(seed uint64, public string) (list []byte, key EncryptedClientHelloKey) {
	kb := make([]byte, 32)
	vfNewDetRand(seed, "ech-config|"+public).Read(kb)
	priv, err := ecdh.X25519().NewPrivateKey(kb)
	if err != nil {
		panic(err)
	}
	var body []byte
	body = append(body, byte(seed), 0x00, 0x20, 0, 32)
	body = append(body, priv.PublicKey().Bytes()...)
	body = append(body, 0, 8, 0, 1, 0, 1, 0, 1, 0, 3)
	body = append(body, 64, byte(len(public)))
	body = append(body, public...)
	body = append(body, 0, 0)
	raw := append([]byte{0xfe, 0x0d, byte(len(body) >> 8), byte(len(body))}, body...)
	list = append([]byte{byte(len(raw) >> 8), byte(len(raw))}, raw...)
	return list, EncryptedClientHelloKey{Config: raw, PrivateKey: priv.Bytes(), SendAsRetry: true}
}
