//go:build verif

package tls

import (
	"testing"
)

// FuzzVerifC33Stream: coverage-guided fuzzing of the byte stream a server sends in answer to the ClientHello.
func FuzzVerifC33Stream(f *testing.F) {
	// seeds: a real TLS 1.3 and a real TLS 1.2 server flight for one parrot, plus hostile constants
	for _, maxv := range []uint16{VersionTLS13, VersionTLS12} {
		prep, err := vfPrepareClient(vfClientSrc{Kind: "parrot", Name: "seed", ID: HelloChrome_120}, "fuzz.example", 1, nil)
		if err != nil {
			f.Fatal(err)
		}
		scfg := vfServerConfig("ecdsa", "fuzz.example")
		scfg.MaxVersion = maxv
		pair := &vfPair{CP: prep.CP, SP: prep.SP, Cli: prep.UC, Srv: Server(prep.SP, scfg)}
		pair.Handshake()
		f.Add(uint8(23), pair.SP.Written())
		pair.Close()
	}
	f.Add(uint8(0), []byte{22, 3, 3, 0, 4, 2, 0xff, 0xff, 0xff})
	f.Add(uint8(5), []byte{22, 3, 3, 0xff, 0xff})
	f.Add(uint8(9), []byte{21, 3, 3, 0, 2, 2, 40})
	f.Fuzz(func(t *testing.T, which uint8, stream []byte) {
		p := vfParrots[int(which)%len(vfParrots)]
		prep, err := vfPrepareClient(vfClientSrc{Kind: "parrot", Name: p.Name, ID: p.ID}, "fuzz.example", 1, nil)
		if err != nil {
			t.Fatalf("VERIF-VIOLATION C33: %v", err)
		}
		out := vf33Drive(prep.UC, prep.CP, prep.SP, func() {
			buf := make([]byte, 70000)
			prep.SP.Read(buf)
			prep.SP.Write(stream)
		})
		if out.Panic != nil {
			t.Fatalf("VERIF-VIOLATION C33: %s: client panicked on a %d-byte server stream: %v\n%s", p.Name, len(stream), out.Panic.Val, out.Panic.Stack)
		}
		if out.Hang {
			t.Fatalf("VERIF-VIOLATION C33: %s: client hung on a %d-byte server stream", p.Name, len(stream))
		}
		if out.Alloc > out.bound()+uint64(16*len(stream)) {
			t.Fatalf("VERIF-VIOLATION C33: %s: %d bytes allocated for a %d-byte server stream", p.Name, out.Alloc, len(stream))
		}
	})
}
