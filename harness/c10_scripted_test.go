//go:build verif

package tls

// C10 (scripted-server part): values upstream's tls.Server cannot be pinned to - each offered TLS 1.3 suite, each
// shared group including X25519Kyber768Draft00, HRR with a cookie - must complete as well. This test is also the
// positive control of the scripted server used by C12/C13/C17/C21/C22/C33: were the server unable to complete a
// handshake, their "client must reject" verdicts would be vacuous.

import (
	"fmt"
	"testing"

	"pgregory.net/rapid"
)

func TestVerifC10ScriptedServer(t *testing.T) {
	st := vfNewStats(t, "C10")
	rapid.Check(t, func(rt *rapid.T) {
		src := vfGenTLS13Src(rt)
		sni := vfGenDNSName(rt, "sni")
		st.Eval()
		p, err := vfPrepareClient(src, sni, rapid.Uint64().Draw(rt, "randseed"), nil)
		if err != nil {
			st.Violation(rt, "%s: %v", src, err)
		}
		defer p.CP.Close()
		o := p.Offer
		s := &vsrvScript{}
		var suites []uint16
		for _, x := range vfTLS13Suites {
			if vfContains16(o.Suites, x) {
				suites = append(suites, x)
			}
		}
		if len(suites) == 0 || !o.HasVersion(VersionTLS13) {
			st.Class("no-tls13")
			return
		}
		s.Suite = suites[rapid.IntRange(0, len(suites)-1).Draw(rt, "suite")]
		var shares []uint16
		for _, g := range o.Shares {
			switch g {
			case 0x001d, 0x0017, 0x0018, 0x0019, vfGroupX25519MLKEM768, 0x6399:
				if vfContains16(o.Groups, g) {
					shares = append(shares, g)
				}
			}
		}
		if len(shares) == 0 {
			st.Class("no-usable-share")
			return
		}
		mode := rapid.IntRange(0, 3).Draw(rt, "mode")
		if mode == 0 {
			// HRR to a listed classical group without a share, optionally with a cookie
			var cands []uint16
			for _, g := range o.Groups {
				if vfContains16(vfClassicalGroups, g) && !vfContains16(o.Shares, g) {
					cands = append(cands, g)
				}
			}
			if len(cands) > 0 && !o.PSK {
				s.HRR = true
				s.HRRGroup = cands[rapid.IntRange(0, len(cands)-1).Draw(rt, "hrrgroup")]
				if rapid.Bool().Draw(rt, "cookie") {
					s.HRRCookie = rapid.SliceOfN(rapid.Byte(), 1, 64).Draw(rt, "cookiebytes")
				}
			}
		}
		if !s.HRR {
			s.Group = shares[rapid.IntRange(0, len(shares)-1).Draw(rt, "group")]
		}
		if len(o.ALPN) > 0 && rapid.Bool().Draw(rt, "usealpn") {
			a := o.ALPN[rapid.IntRange(0, len(o.ALPN)-1).Draw(rt, "alpn")]
			s.ALPN = &a
		}
		s.SendTicket = rapid.Bool().Draw(rt, "ticket")
		// extensions a compliant server may put into EncryptedExtensions besides ALPN: its supported_groups
		// (RFC 8446 4.2.7; OpenSSL sends it when the selected group is not its first preference) and the empty
		// server_name acknowledgement (RFC 6066 section 3) when the client sent a name
		eeKind := rapid.IntRange(0, 3).Draw(rt, "ee_extras")
		if eeKind&1 != 0 {
			gl := &vsrvB{}
			inner := &vsrvB{}
			for _, g := range rapid.SliceOfN(rapid.SampledFrom([]uint16{0x11ec, 0x001d, 0x0017, 0x0018, 0x0019, 0x001e, 0x0100, 0x0101}), 1, 6).Draw(rt, "ee_groups") {
				inner.u16(g)
			}
			gl.vec16(inner.b)
			s.ExtraEEExts = append(s.ExtraEEExts, vfExt{Type: extensionSupportedCurves, Body: gl.b})
		}
		if eeKind&2 != 0 && o.HasSNI {
			s.ExtraEEExts = append(s.ExtraEEExts, vfExt{Type: extensionServerName})
		}
		keys := vfCertKeysFor(o, VersionTLS13, "")
		if len(keys) == 0 {
			return
		}
		scfg := vfServerConfig(keys[rapid.IntRange(0, len(keys)-1).Draw(rt, "cert")], vfCertNames(sni)...)
		srv := Server(p.SP, scfg)
		vsrvInstall(srv, s)
		pair := &vfPair{CP: p.CP, SP: p.SP, Cli: p.UC, Srv: srv}
		cerr, serr := pair.Handshake()
		desc := fmt.Sprintf("%s | scripted server suite=%04x group=%04x hrr=%v(%04x,cookie %d) alpn=%v", src, s.Suite, s.SentGroup, s.HRR, s.HRRGroup, len(s.HRRCookie), s.ALPN != nil)
		st.Class(fmt.Sprintf("suite=%04x", s.Suite))
		st.Class(fmt.Sprintf("group=%04x", s.SentGroup))
		for _, e := range s.ExtraEEExts {
			st.Class(fmt.Sprintf("ee-extra-ext=%d", e.Type))
		}
		if s.HRR {
			st.Class("hrr")
			if s.HRRCookie != nil {
				st.Class("hrr-cookie")
			}
		}
		if cerr != nil || serr != nil {
			st.Violation(rt, "%s: every value was offered, yet the handshake failed: client err=%v server err=%v log=%v", desc, cerr, serr, s.Log)
		}
		cs := pair.Cli.ConnectionState()
		if cs.CipherSuite != s.Suite || cs.Version != VersionTLS13 {
			st.Violation(rt, "%s: client reports suite %04x version %04x", desc, cs.CipherSuite, cs.Version)
		}
		if s.ALPN != nil && cs.NegotiatedProtocol != *s.ALPN {
			st.Violation(rt, "%s: client reports ALPN %q", desc, cs.NegotiatedProtocol)
		}
		if err := pair.Echo([]byte("hello"), []byte("world!")); err != nil {
			st.Violation(rt, "%s: echo failed: %v", desc, err)
		}
		st.NonTrivial(fmt.Sprintf("vsrv|%s|%04x|%04x|%v|%v", src.Kind+":"+src.Name, s.Suite, s.SentGroup, s.HRR, s.HRRCookie != nil))
		st.Sample(map[string]any{"client": src.String(), "scripted": desc})
	})
}
