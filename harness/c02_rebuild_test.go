//go:build verif

package tls

// C02 (extension): validity of EVERY emitted hello includes the ones a connection marshals again: BuildHandshakeState,
// an edit that moves the layout (SetSNI with a name of another length, session id, ALPN list), another
// BuildHandshakeState / MarshalClientHello, ... - in particular for padded parrots, whose total length stays 512 while
// every extension after server_name moves. Each re-marshalled hello goes through the same strict grammar as a first one.

import (
	"bytes"
	"fmt"
	"testing"

	"pgregory.net/rapid"
)

func TestVerifC02Rebuild(t *testing.T) {
	st := vfNewStats(t, "C02")
	rapid.Check(t, func(rt *rapid.T) {
		p := vfGenParrot(rt, "parrot")
		n0 := rapid.IntRange(1, 200).Draw(rt, "sni0_len")
		cm := vfCfgMeta{SNIKind: "dns", ServerName: vfDNSNameOfLen(n0, 'r'), OmitEmptyPsk: true, RandSeed: rapid.Uint64().Draw(rt, "rand")}
		cfg := cm.Config()
		cp, _ := vfPipe()
		defer cp.Close()
		st.Eval()
		uc, err, pan := vf02Build(vf02Case{Source: "parrot", Name: p.Name, ID: p.ID}, cfg, cm, cp)
		if pan != nil || err != nil {
			st.Violation(rt, "parrot %s: first build: err=%v panic=%v", p.Name, err, pan)
		}
		hist := fmt.Sprintf("%s build(sni %d, %d bytes)", p.Name, n0, len(uc.HandshakeState.Hello.Raw))
		if vf02CheckHello(st, rt, uc.HandshakeState.Hello.Raw, vf02Ctx{What: hist, ECHPayload: -1}) == nil {
			return
		}
		prevLen := len(uc.HandshakeState.Hello.Raw)
		sameLen := false
		for i, n := 0, rapid.IntRange(1, 4).Draw(rt, "rebuilds"); i < n; i++ {
			l := fmt.Sprintf("e%d", i)
			want := ""
			checkSNI := false
			switch rapid.IntRange(0, 5).Draw(rt, l+"_edit") {
			case 0, 1, 2:
				k := rapid.IntRange(1, 253).Draw(rt, l+"_sni_len")
				name := vfDNSNameOfLen(k, byte('a'+i))
				uc.SetSNI(name)
				want, checkSNI = name, true
				hist += fmt.Sprintf(" SetSNI(%d)", k)
			case 3:
				name := rapid.SampledFrom([]string{"192.0.2.1", "", "example.test.", "2001:db8::1"}).Draw(rt, l+"_sni_special")
				uc.SetSNI(name)
				want, checkSNI = vfRefSNIOnWire(name), true
				hist += fmt.Sprintf(" SetSNI(%q)", name)
			case 4:
				k := rapid.SampledFrom([]int{0, 1, 16, 32}).Draw(rt, l+"_sid_len")
				uc.HandshakeState.Hello.SessionId = bytes.Repeat([]byte{byte(0x50 + i)}, k)
				hist += fmt.Sprintf(" SessionId(%d)", k)
			default:
				for _, e := range uc.Extensions {
					if a, ok := e.(*ALPNExtension); ok {
						k := rapid.IntRange(1, 40).Draw(rt, l+"_alpn_len")
						a.AlpnProtocols = []string{"h2", string(bytes.Repeat([]byte{'p'}, k))}
						hist += fmt.Sprintf(" alpn(%d)", k)
					}
				}
			}
			var err error
			var pan *vfPanic
			if rapid.Bool().Draw(rt, l+"_how") {
				pan = vfCatch(func() { err = uc.BuildHandshakeState() })
				hist += " BuildHandshakeState"
			} else {
				pan = vfCatch(func() { err = uc.MarshalClientHello() })
				hist += " MarshalClientHello"
			}
			if pan != nil {
				st.Violation(rt, "%s: panic %v", hist, pan.Val)
			}
			if err != nil {
				st.Violation(rt, "%s: re-marshalling failed: %v", hist, err)
			}
			raw := uc.HandshakeState.Hello.Raw
			hist += fmt.Sprintf("(%d bytes)", len(raw))
			h := vf02CheckHello(st, rt, raw, vf02Ctx{What: hist, ECHPayload: -1})
			if h == nil {
				return
			}
			if checkSNI {
				name, present := h.SNI()
				if (want == "") == present || name != want {
					st.Violation(rt, "%s: server_name present=%v %q, want %q", hist, present, name, want)
				}
			}
			if len(raw) == prevLen {
				sameLen = true
			}
			prevLen = len(raw)
		}
		st.Class("rebuild")
		if sameLen {
			st.Class("rebuild:same-total-length-other-layout")
		}
		st.NonTrivial("rebuild|" + hist)
		st.Sample(map[string]any{"source": "rebuild", "history": hist})
	})
}
