//go:build verif

package tls

// C25 (extension): a compliant TLS 1.3 peer may pad its records (RFC 8446 5.4: TLSInnerPlaintext = content ||
// ContentType || zeros). Neither this library nor crypto/tls ever pads, so two-library sessions never show the
// receiver's handling of padding. Here the server side emits records sealed by the harness itself (AEAD of the
// connection, own inner-plaintext layout) with drawn padding, mixed with ordinary writes, a padded KeyUpdate and a
// padded close_notify; the client's Read stream must be exactly the concatenation of the contents, then io.EOF.

import (
	"bytes"
	"fmt"
	"io"
	"testing"

	"pgregory.net/rapid"
)

// vf25WritePadded makes c emit one TLS 1.3 record carrying content of the given inner type followed by pad zero bytes.
func vf25WritePadded(c *Conn, typ recordType, content []byte, pad int) error {
	c.out.Lock()
	defer c.out.Unlock()
	inner := make([]byte, 0, len(content)+1+pad)
	inner = append(inner, content...)
	inner = append(inner, byte(typ))
	inner = append(inner, make([]byte, pad)...)
	a := c.out.cipher.(aead)
	n := len(inner) + a.Overhead()
	hdr := []byte{byte(recordTypeApplicationData), 0x03, 0x03, byte(n >> 8), byte(n)}
	nonce := append([]byte(nil), c.out.seq[:]...)
	rec := a.Seal(append([]byte(nil), hdr...), nonce, inner, hdr)
	c.out.incSeq()
	_, err := c.conn.Write(rec)
	return err
}

func TestVerifC25PaddedRecords(t *testing.T) {
	st := vfNewStats(t, "C25")
	ids := []ClientHelloID{HelloChrome_120, HelloChrome_133, HelloFirefox_120, HelloSafari_16_0, HelloIOS_14, HelloEdge_106, HelloGolang, HelloRandomizedALPN}
	rapid.Check(t, func(rt *rapid.T) {
		id := ids[rapid.IntRange(0, len(ids)-1).Draw(rt, "id")]
		st.Eval()
		cp, sp := vfPipe()
		ccfg := vfClientConfig("pad.example")
		ccfg.OmitEmptyPsk = true
		uc := UClient(cp, ccfg, id)
		scfg := vfServerConfig("ecdsa", "pad.example")
		scfg.MinVersion = VersionTLS13
		srv := Server(sp, scfg)
		if id.Client != helloRandomizedALPN {
			// these all offer the three TLS 1.3 suites: let the scripted server pick a drawn one
			vsrvInstall(srv, &vsrvScript{Suite: vfTLS13Suites[rapid.IntRange(0, 2).Draw(rt, "suite")]})
		}
		pair := &vfPair{CP: cp, SP: sp, Cli: uc, Srv: srv}
		defer pair.Close()
		if cerr, serr := pair.Handshake(); cerr != nil || serr != nil {
			st.Class("handshake-failed")
			return
		}
		if pair.Cli.ConnectionState().Version != VersionTLS13 {
			st.Class("not-tls13")
			return
		}
		suite := pair.Cli.ConnectionState().CipherSuite
		cs13 := cipherSuiteTLS13ByID(suite)
		var want []byte
		nrec := rapid.IntRange(1, 8).Draw(rt, "records")
		hist := ""
		padded := 0
		for i := 0; i < nrec; i++ {
			l := fmt.Sprintf("r%d", i)
			kind := rapid.IntRange(0, 9).Draw(rt, l+"_kind")
			switch {
			case kind <= 6: // padded application data
				pad := rapid.SampledFrom([]int{0, 1, 1, 2, 15, 16, 37, 255, 256, 300, 4000, 16000}).Draw(rt, l+"_pad")
				maxc := 16384 - pad
				if maxc > 3000 {
					maxc = 3000
				}
				n := rapid.IntRange(1, maxc).Draw(rt, l+"_len")
				data := make([]byte, n)
				fill := rapid.Byte().Draw(rt, l+"_fill")
				for j := range data {
					data[j] = fill + byte(j*13)
				}
				if rapid.Bool().Draw(rt, l+"_trailing_zero_content") {
					data[n-1] = 0 // content that itself ends in zero bytes: only the bytes after the type are padding
					if n > 1 {
						data[n-2] = 0
					}
				}
				if err := vf25WritePadded(srv, recordTypeApplicationData, data, pad); err != nil {
					st.Violation(rt, "harness write: %v", err)
				}
				want = append(want, data...)
				hist += fmt.Sprintf(" appdata(%d,pad=%d)", n, pad)
				if pad > 0 {
					padded++
				}
			case kind == 7: // ordinary write
				n := rapid.IntRange(1, 2000).Draw(rt, l+"_len")
				data := bytes.Repeat([]byte{byte(i + 1)}, n)
				if _, err := srv.Write(data); err != nil {
					st.Violation(rt, "server write: %v", err)
				}
				want = append(want, data...)
				hist += fmt.Sprintf(" write(%d)", n)
			default: // padded KeyUpdate (handshake record), the server then moves to its next write secret
				pad := rapid.SampledFrom([]int{1, 7, 64, 500}).Draw(rt, l+"_pad")
				msg, _ := (&keyUpdateMsg{updateRequested: false}).marshal()
				if err := vf25WritePadded(srv, recordTypeHandshake, msg, pad); err != nil {
					st.Violation(rt, "harness write: %v", err)
				}
				srv.out.Lock()
				srv.out.setTrafficSecret(cs13, QUICEncryptionLevelInitial, vf25RefNextSecret(suite, srv.out.trafficSecret))
				srv.out.Unlock()
				hist += fmt.Sprintf(" keyupdate(pad=%d)", pad)
				padded++
			}
		}
		closePad := rapid.SampledFrom([]int{0, 1, 33}).Draw(rt, "close_pad")
		if err := vf25WritePadded(srv, recordTypeAlert, []byte{alertLevelWarning, byte(alertCloseNotify)}, closePad); err != nil {
			st.Violation(rt, "harness write: %v", err)
		}
		hist += fmt.Sprintf(" close_notify(pad=%d)", closePad)
		if closePad > 0 {
			padded++
		}
		pair.CP.SetDeadline(vfDeadline())
		got, err := io.ReadAll(pair.Cli)
		what := fmt.Sprintf("%s suite %04x, server sent:%s", id.Str(), suite, hist)
		if err != nil {
			st.Violation(rt, "%s: client Read failed: %v (after %d of %d bytes)", what, err, len(got), len(want))
		}
		if !bytes.Equal(got, want) {
			d := 0
			for d < len(got) && d < len(want) && got[d] == want[d] {
				d++
			}
			st.Violation(rt, "%s: client read %d bytes, the peer wrote %d; first difference at offset %d", what, len(got), len(want), d)
		}
		st.Class(fmt.Sprintf("padded-suite=%04x", suite))
		if padded > 0 {
			st.Class("padded-records")
			st.NonTrivial(fmt.Sprintf("padded|%s|%04x|%s", id.Str(), suite, hist))
		}
		st.Sample(map[string]any{"client": id.Str(), "suite": fmt.Sprintf("%04x", suite), "records": hist})
	})
}

// vf25WriteEmptyAppData makes c emit one protected application_data record with a zero-length fragment (legal in every
// version; OpenSSL-style stacks send one before each data record as the TLS 1.0 CBC countermeasure).
func vf25WriteEmptyAppData(c *Conn) error {
	c.out.Lock()
	defer c.out.Unlock()
	vers := c.vers
	if vers == VersionTLS13 {
		vers = VersionTLS12
	}
	hdr := []byte{byte(recordTypeApplicationData), byte(vers >> 8), byte(vers), 0, 0}
	rec, err := c.out.encrypt(hdr, nil, c.config.rand())
	if err != nil {
		return err
	}
	_, err = c.conn.Write(rec)
	return err
}

// Ignorable records interleaved with data over the life of a connection: the limit on useless records applies to
// CONSECUTIVE ones; any number of empty records is fine as long as data keeps arriving.
func TestVerifC25InterleavedEmptyRecords(t *testing.T) {
	st := vfNewStats(t, "C25")
	type cfg struct {
		id    ClientHelloID
		ver   uint16
		suite uint16
	}
	cfgs := []cfg{{HelloGolang, VersionTLS10, TLS_ECDHE_ECDSA_WITH_AES_128_CBC_SHA}, {HelloChrome_102, VersionTLS12, TLS_ECDHE_ECDSA_WITH_AES_128_GCM_SHA256},
		{HelloFirefox_105, VersionTLS12, TLS_ECDHE_ECDSA_WITH_CHACHA20_POLY1305_SHA256}, {HelloChrome_120, VersionTLS13, 0}, {HelloGolang, VersionTLS13, 0}}
	rapid.Check(t, func(rt *rapid.T) {
		c := cfgs[rapid.IntRange(0, len(cfgs)-1).Draw(rt, "config")]
		rounds := rapid.SampledFrom([]int{5, 31, 33, 40, 100}).Draw(rt, "rounds")
		perRound := rapid.IntRange(1, 3).Draw(rt, "empty_per_round")
		st.Eval()
		cp, sp := vfPipe()
		ccfg := vfClientConfig("empty.c25.test")
		ccfg.OmitEmptyPsk = true
		ccfg.MinVersion = VersionTLS10
		uc := UClient(cp, ccfg, c.id)
		scfg := vfServerConfig("ecdsa", "empty.c25.test")
		scfg.MinVersion, scfg.MaxVersion = c.ver, c.ver
		if c.suite != 0 {
			scfg.CipherSuites = []uint16{c.suite}
		}
		srv := Server(sp, scfg)
		pair := &vfPair{CP: cp, SP: sp, Cli: uc, Srv: srv}
		defer pair.Close()
		if cerr, serr := pair.Handshake(); cerr != nil || serr != nil {
			st.Class("empty-records:handshake-failed")
			return
		}
		var want []byte
		for i := 0; i < rounds; i++ {
			for k := 0; k < perRound; k++ {
				if err := vf25WriteEmptyAppData(srv); err != nil {
					st.Violation(rt, "harness: empty record: %v", err)
				}
			}
			msg := bytes.Repeat([]byte{byte(i + 1)}, 1+i%5)
			if _, err := srv.Write(msg); err != nil {
				st.Violation(rt, "server write: %v", err)
			}
			want = append(want, msg...)
		}
		srv.CloseWrite()
		pair.CP.SetDeadline(vfDeadline())
		got, err := io.ReadAll(pair.Cli)
		what := fmt.Sprintf("%s version %04x suite %04x: %d rounds of %d empty application_data record(s) followed by data", c.id.Str(), c.ver, c.suite, rounds, perRound)
		if err != nil || !bytes.Equal(got, want) {
			st.Violation(rt, "%s: client read %d of %d bytes, err=%v", what, len(got), len(want), err)
		}
		st.Class(fmt.Sprintf("empty-records:ver=%04x", c.ver))
		if rounds*perRound > 32 {
			st.Class("empty-records:more-than-32-in-total")
			st.NonTrivial(fmt.Sprintf("empty|%s|%04x|%d|%d", c.id.Str(), c.ver, rounds, perRound))
		}
	})
}
