//go:build verif

package tls

// C26 (extension): Close against a writer that is stalled inside the transport. The buffered pipe of the other C26
// schedules never blocks a Write, so "Close breaks an in-flight Write" was not exercised: here the transport's Write
// blocks (peer stopped reading, no write deadline - a caller that never set one) until the transport is closed. A
// concurrent UConn.Close must return at once and make the Write return with an error; an optional concurrent reader must
// return as well. A Close that waits for the writer instead (both parked on the connection's own mutexes) is a hang.

import (
	"fmt"
	"net"
	"os"
	"sync"
	"sync/atomic"
	"testing"
	"time"

	"pgregory.net/rapid"
)

// vf26StallConn blocks Write while armed, until it is closed.
type vf26StallConn struct {
	net.Conn
	armed   atomic.Bool
	entered chan struct{} // closed when a Write is parked
	once    sync.Once
	closed  chan struct{}
	cOnce   sync.Once
}

func (c *vf26StallConn) Write(p []byte) (int, error) {
	if c.armed.Load() {
		c.once.Do(func() { close(c.entered) })
		<-c.closed
		return 0, net.ErrClosed
	}
	return c.Conn.Write(p)
}

func (c *vf26StallConn) Close() error {
	c.cOnce.Do(func() { close(c.closed) })
	return c.Conn.Close()
}

type vf26StallCaseT struct {
	Parrot     string
	MaxVers    uint16
	Reader     bool
	CloseDelay time.Duration
	WriteSize  int
	Closer     string // "Close" | "Close+Close"
}

func (c vf26StallCaseT) String() string {
	return fmt.Sprintf("parrot=%s maxvers=%04x reader=%v close-delay=%v write=%d closer=%s", c.Parrot, c.MaxVers, c.Reader, c.CloseDelay, c.WriteSize, c.Closer)
}

func vf26StallCase(c vf26StallCaseT) (hang, slow string, results []string) {
	cp, sp := vfPipe()
	wrap := &vf26StallConn{Conn: cp, entered: make(chan struct{}), closed: make(chan struct{})}
	ccfg := vfClientConfig("stall.c26.test")
	ccfg.OmitEmptyPsk = true
	uc := UClient(wrap, ccfg, vf26ParrotByName(c.Parrot).ID)
	scfg := vfServerConfig("ecdsa", "stall.c26.test")
	scfg.MaxVersion = c.MaxVers
	srv := Server(sp, scfg)
	pair := &vfPair{CP: cp, SP: sp, Cli: uc, Srv: srv}
	if cerr, serr := pair.Handshake(); cerr != nil || serr != nil {
		pair.Close()
		return "", "", []string{fmt.Sprintf("handshake: %v / %v", cerr, serr)}
	}
	if err := pair.Echo([]byte("before"), []byte("BEFORE")); err != nil {
		pair.Close()
		return "", "", []string{"echo: " + err.Error()}
	}
	// no deadlines from here on: the application never set any
	cp.SetDeadline(time.Time{})
	sp.SetDeadline(time.Time{})
	wrap.armed.Store(true)
	results = make([]string, 3)
	var wg sync.WaitGroup
	wg.Add(1)
	go func() {
		defer wg.Done()
		n, err := uc.Write(make([]byte, c.WriteSize))
		results[0] = fmt.Sprintf("Write: %d, %v", n, err)
	}()
	if c.Reader {
		wg.Add(1)
		go func() {
			defer wg.Done()
			n, err := uc.Read(make([]byte, 64))
			results[1] = fmt.Sprintf("Read: %d, %v", n, err)
		}()
	}
	select {
	case <-wrap.entered:
	case <-time.After(10 * time.Second):
		wrap.Close()
		sp.Close()
		return "", "the writer did not reach the transport within 10 s", results
	}
	wg.Add(1)
	go func() {
		defer wg.Done()
		time.Sleep(c.CloseDelay)
		err := uc.Close()
		if c.Closer == "Close+Close" {
			uc.Close()
		}
		results[2] = fmt.Sprintf("Close: %v", err)
	}()
	done := make(chan struct{})
	go func() { wg.Wait(); close(done) }()
	prev := vf26ActorMarker
	vf26ActorMarker = "vf26StallCase.func"
	hang, slow = vf26Watch(done, 4*time.Second)
	vf26ActorMarker = prev
	wrap.Close() // releases a parked transport Write in any case
	sp.Close()
	return hang, slow, results
}

func TestVerifC26CloseBreaksStalledWrite(t *testing.T) {
	st := vfNewStats(t, "C26")
	run := func(c vf26StallCaseT) {
		st.Eval()
		fmt.Fprintf(os.Stderr, "vf26-stall-case %s\n", c)
		hang, slow, results := vf26StallCase(c)
		if hang != "" {
			st.Violation(vf26HardFail{}, "HANG: Close against a Write stalled in the transport (no deadline set): %s\ncase: %s\nresults so far: %v", hang, c, results)
		}
		if slow != "" {
			vf26Inconclusive(st, slow+"\ncase: "+c.String())
		}
		if len(results) == 3 && results[0] != "" && results[2] != "" {
			st.Class("stalled-write:closed")
			st.NonTrivial("stall|" + c.String())
		} else {
			st.Class("stalled-write:setup-failed")
		}
		st.Sample(map[string]any{"case": c.String(), "results": results})
	}
	for _, mv := range []uint16{VersionTLS13, VersionTLS12} {
		for _, reader := range []bool{false, true} {
			run(vf26StallCaseT{Parrot: "HelloChrome_120", MaxVers: mv, Reader: reader, WriteSize: 100, Closer: "Close"})
			run(vf26StallCaseT{Parrot: "HelloGolang", MaxVers: mv, Reader: reader, WriteSize: 40000, Closer: "Close+Close", CloseDelay: 5 * time.Millisecond})
		}
	}
	n := 0
	rapid.Check(t, func(rt *rapid.T) {
		n++
		if n > 60 && !vfThorough() {
			return // each case costs a handshake plus goroutine set-up; the quick tier keeps 60 drawn cases
		}
		run(vf26StallCaseT{
			Parrot:     vf26Parrots[rapid.IntRange(0, len(vf26Parrots)-1).Draw(rt, "parrot")].Name,
			MaxVers:    rapid.SampledFrom([]uint16{VersionTLS13, VersionTLS12}).Draw(rt, "maxvers"),
			Reader:     rapid.Bool().Draw(rt, "reader"),
			CloseDelay: time.Duration(rapid.IntRange(0, 3000).Draw(rt, "close_delay_us")) * time.Microsecond,
			WriteSize:  rapid.SampledFrom([]int{1, 100, 16384, 40000}).Draw(rt, "write_size"),
			Closer:     rapid.SampledFrom([]string{"Close", "Close+Close"}).Draw(rt, "closer"),
		})
	})
}

// ---- Close whose close_notify cannot be sent ----
//
// No Write is in flight; the transport's send direction is broken (every Write returns an error - a reset connection).
// Close then fails to send its close_notify, and must still close the transport: a reader parked in UConn.Read (no
// deadline set) returns, and so does every later call. A Close that gives up before closing the transport leaves the
// reader parked for ever.

type vf26BrokenSendConn struct {
	net.Conn
	broken atomic.Bool
	closes atomic.Int32
}

func (c *vf26BrokenSendConn) Write(p []byte) (int, error) {
	if c.broken.Load() {
		return 0, &net.OpError{Op: "write", Net: "vfpipe", Err: fmt.Errorf("injected: connection reset by peer")}
	}
	return c.Conn.Write(p)
}

func (c *vf26BrokenSendConn) Close() error {
	c.closes.Add(1)
	return c.Conn.Close()
}

func vf26BrokenNotifyCase(parrot string, maxVers uint16, readers int, closer string) (hang, slow string, results []string) {
	cp, sp := vfPipe()
	wrap := &vf26BrokenSendConn{Conn: cp}
	ccfg := vfClientConfig("stall.c26.test")
	ccfg.OmitEmptyPsk = true
	uc := UClient(wrap, ccfg, vf26ParrotByName(parrot).ID)
	scfg := vfServerConfig("ecdsa", "stall.c26.test")
	scfg.MaxVersion = maxVers
	pair := &vfPair{CP: cp, SP: sp, Cli: uc, Srv: Server(sp, scfg)}
	if cerr, serr := pair.Handshake(); cerr != nil || serr != nil {
		pair.Close()
		return "", "", []string{fmt.Sprintf("handshake: %v / %v", cerr, serr)}
	}
	if err := pair.Echo([]byte("before"), []byte("BEFORE")); err != nil {
		pair.Close()
		return "", "", []string{"echo: " + err.Error()}
	}
	cp.SetDeadline(time.Time{})
	sp.SetDeadline(time.Time{})
	wrap.broken.Store(true)
	results = make([]string, readers+1)
	var wg sync.WaitGroup
	started := make(chan struct{}, readers)
	for i := 0; i < readers; i++ {
		wg.Add(1)
		go func(i int) {
			defer wg.Done()
			started <- struct{}{}
			n, err := uc.Read(make([]byte, 64))
			results[i] = fmt.Sprintf("Read: %d, %v", n, err)
		}(i)
	}
	for i := 0; i < readers; i++ {
		<-started
	}
	time.Sleep(2 * time.Millisecond) // let the readers park in the transport
	wg.Add(1)
	go func() {
		defer wg.Done()
		var err error
		switch closer {
		case "Close":
			err = uc.Close()
		default:
			err = uc.Close()
			uc.Close()
		}
		results[readers] = fmt.Sprintf("%s: %v (transport closed %d times)", closer, err, wrap.closes.Load())
	}()
	done := make(chan struct{})
	go func() { wg.Wait(); close(done) }()
	prev := vf26ActorMarker
	vf26ActorMarker = "vf26BrokenNotifyCase.func"
	hang, slow = vf26Watch(done, 8*time.Second)
	vf26ActorMarker = prev
	cp.Close()
	sp.Close()
	return hang, slow, results
}

func TestVerifC26CloseWithBrokenSendDirection(t *testing.T) {
	st := vfNewStats(t, "C26")
	run := func(parrot string, mv uint16, readers int, closer string) {
		st.Eval()
		what := fmt.Sprintf("parrot=%s maxvers=%04x readers=%d closer=%s", parrot, mv, readers, closer)
		hang, slow, results := vf26BrokenNotifyCase(parrot, mv, readers, closer)
		if hang != "" {
			st.Violation(vf26HardFail{}, "HANG: Close could not send its close_notify (transport writes fail) and a parked reader never returned: %s\ncase: %s\nresults so far: %v", hang, what, results)
		}
		if slow != "" {
			vf26Inconclusive(st, slow+"\ncase: "+what)
		}
		if len(results) == readers+1 && results[readers] != "" {
			st.Class("broken-send:closed")
			st.NonTrivial("broken-send|" + what)
		} else {
			st.Class("broken-send:setup-failed")
		}
		st.Sample(map[string]any{"case": what, "results": results})
	}
	for _, mv := range []uint16{VersionTLS13, VersionTLS12} {
		run("HelloChrome_120", mv, 1, "Close")
		run("HelloGolang", mv, 1, "Close+Close")
		run("HelloFirefox_120", mv, 0, "Close")
	}
	n := 0
	rapid.Check(t, func(rt *rapid.T) {
		n++
		if n > 40 && !vfThorough() {
			return
		}
		run(vf26Parrots[rapid.IntRange(0, len(vf26Parrots)-1).Draw(rt, "parrot")].Name,
			rapid.SampledFrom([]uint16{VersionTLS13, VersionTLS12}).Draw(rt, "maxvers"),
			rapid.IntRange(0, 1).Draw(rt, "readers"),
			rapid.SampledFrom([]string{"Close", "Close+Close"}).Draw(rt, "closer"))
	})
}

// ---- CloseWrite against a Write that is parked in the transport under the application's write deadline ----
//
// The application set a write deadline; a Write is parked in the transport (peer not reading) and will fail at that
// deadline. A concurrent CloseWrite wants to send close_notify under a deadline of its own: it may only install that
// deadline once it owns the outgoing half, i.e. after the parked Write has returned. The transport wrapper records
// every SetWriteDeadline that arrives WHILE a Write is parked: one that moves the deadline beyond the application's
// would keep the application's Write blocked past the deadline it asked for. (Logical oracle: no wall-clock threshold.)

type vf26DeadlineConn struct {
	net.Conn
	mu       sync.Mutex
	armed    bool
	parked   bool
	wdl      time.Time
	appDL    time.Time
	moved    []time.Duration // deadlines installed while a Write was parked, relative to the application's
	entered  chan struct{}
	once     sync.Once
	closed   chan struct{}
	closedMu sync.Once
}

func (c *vf26DeadlineConn) SetWriteDeadline(t time.Time) error {
	c.mu.Lock()
	if c.parked && !c.appDL.IsZero() && (t.IsZero() || t.After(c.appDL.Add(50*time.Millisecond))) {
		c.moved = append(c.moved, t.Sub(c.appDL))
	}
	c.wdl = t
	c.mu.Unlock()
	return c.Conn.SetWriteDeadline(t)
}

func (c *vf26DeadlineConn) SetDeadline(t time.Time) error {
	c.SetWriteDeadline(t)
	return c.Conn.SetReadDeadline(t)
}

func (c *vf26DeadlineConn) Write(p []byte) (int, error) {
	c.mu.Lock()
	if !c.armed {
		c.mu.Unlock()
		return c.Conn.Write(p)
	}
	c.parked = true
	dl := c.wdl
	c.mu.Unlock()
	c.once.Do(func() { close(c.entered) })
	var tm <-chan time.Time
	if !dl.IsZero() {
		tm = time.After(time.Until(dl))
	}
	var err error
	select {
	case <-c.closed:
		err = net.ErrClosed
	case <-tm:
		err = vfTimeoutErr{}
	}
	c.mu.Lock()
	c.parked = false
	c.mu.Unlock()
	return 0, err
}

func (c *vf26DeadlineConn) Close() error {
	c.closedMu.Do(func() { close(c.closed) })
	return c.Conn.Close()
}

func TestVerifC26CloseWriteKeepsWriteDeadline(t *testing.T) {
	st := vfNewStats(t, "C26")
	run := func(parrot string, mv uint16, closer string, delay time.Duration, size int) {
		st.Eval()
		what := fmt.Sprintf("parrot=%s maxvers=%04x closer=%s after %v, write of %d bytes parked under a 150 ms write deadline", parrot, mv, closer, delay, size)
		cp, sp := vfPipe()
		wrap := &vf26DeadlineConn{Conn: cp, entered: make(chan struct{}), closed: make(chan struct{})}
		ccfg := vfClientConfig("stall.c26.test")
		ccfg.OmitEmptyPsk = true
		uc := UClient(wrap, ccfg, vf26ParrotByName(parrot).ID)
		scfg := vfServerConfig("ecdsa", "stall.c26.test")
		scfg.MaxVersion = mv
		pair := &vfPair{CP: cp, SP: sp, Cli: uc, Srv: Server(sp, scfg)}
		if cerr, serr := pair.Handshake(); cerr != nil || serr != nil || pair.Echo([]byte("before"), []byte("BEFORE")) != nil {
			pair.Close()
			st.Class("write-deadline:setup-failed")
			return
		}
		cp.SetDeadline(time.Time{})
		sp.SetDeadline(time.Time{})
		app := time.Now().Add(150 * time.Millisecond)
		uc.SetWriteDeadline(app)
		wrap.mu.Lock()
		wrap.armed, wrap.appDL = true, app
		wrap.mu.Unlock()
		var wg sync.WaitGroup
		results := make([]string, 2)
		wg.Add(1)
		go func() {
			defer wg.Done()
			n, err := uc.Write(make([]byte, size))
			results[0] = fmt.Sprintf("Write: %d, %v", n, err)
		}()
		select {
		case <-wrap.entered:
		case <-time.After(10 * time.Second):
			wrap.Close()
			sp.Close()
			st.Class("write-deadline:writer-did-not-park")
			return
		}
		wg.Add(1)
		go func() {
			defer wg.Done()
			time.Sleep(delay)
			var err error
			if closer == "CloseWrite" {
				err = uc.CloseWrite()
			} else {
				err = uc.Close()
			}
			results[1] = fmt.Sprintf("%s: %v", closer, err)
		}()
		done := make(chan struct{})
		go func() { wg.Wait(); close(done) }()
		prev := vf26ActorMarker
		vf26ActorMarker = "TestVerifC26CloseWriteKeepsWriteDeadline.func"
		hang, slow := vf26Watch(done, 12*time.Second)
		vf26ActorMarker = prev
		wrap.Close()
		sp.Close()
		if hang != "" {
			st.Violation(vf26HardFail{}, "HANG: %s\ncase: %s\nresults so far: %v", hang, what, results)
		}
		if slow != "" {
			vf26Inconclusive(st, slow+"\ncase: "+what)
		}
		wrap.mu.Lock()
		moved := append([]time.Duration(nil), wrap.moved...)
		wrap.mu.Unlock()
		if len(moved) > 0 {
			st.Violation(t, "%s: while the application's Write was parked in the transport, the write deadline was moved %v beyond the deadline the application set (results %v)", what, moved, results)
		}
		st.Class("write-deadline:kept(" + closer + ")")
		st.NonTrivial("write-deadline|" + what)
	}
	for _, mv := range []uint16{VersionTLS13, VersionTLS12} {
		for _, closer := range []string{"CloseWrite", "Close"} {
			run("HelloChrome_120", mv, closer, 5*time.Millisecond, 100)
			run("HelloGolang", mv, closer, 40*time.Millisecond, 40000)
		}
	}
	n := 0
	rapid.Check(t, func(rt *rapid.T) {
		if n++; n > 25 && !vfThorough() {
			return // each case waits for a 150 ms deadline
		}
		if n > 60 {
			return
		}
		run(vf26Parrots[rapid.IntRange(0, len(vf26Parrots)-1).Draw(rt, "parrot")].Name,
			rapid.SampledFrom([]uint16{VersionTLS13, VersionTLS12}).Draw(rt, "maxvers"),
			rapid.SampledFrom([]string{"CloseWrite", "CloseWrite", "Close"}).Draw(rt, "closer"),
			time.Duration(rapid.IntRange(0, 100).Draw(rt, "delay_ms"))*time.Millisecond,
			rapid.SampledFrom([]int{1, 100, 16384, 40000}).Draw(rt, "size"))
	})
}
