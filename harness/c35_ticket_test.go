//go:build verif

package tls

// C35 - session tickets are authenticated and round-trip.
//
// Oracles independent of ticket.go / common.go:
//   * vf35RefEncode: a serializer of the SessionState grammar (the struct comment in ticket.go) written with
//     encoding/binary; the plaintext inside a ticket must be exactly this encoding;
//   * vf35Open / vf35Seal: ticket = iv(16) | AES-128-CTR(state) | HMAC-SHA256(iv|ct), keys = SHA-512(b)[16:32] and
//     [32:48], written with the standard library only; used in both directions (open what utls sealed, let utls open
//     what the harness sealed);
//   * field-by-field comparison of the decrypted state with the generated description;
//   * every mutation / truncation / extension and every key set that no longer contains the sealing key => no state;
//   * key rotation histories (SetSessionTicketKeys windows; automatic daily rotation with a harness clock);
//   * forged client sessions (MakeClientSessionState) resumed in real handshakes against a server that opens a
//     ticket carrying the same version / suite / secret; for EMS sessions the exporter is recomputed from the
//     supplied master secret with an own TLS PRF.

import (
	"bytes"
	"crypto/aes"
	"crypto/cipher"
	"crypto/hmac"
	"crypto/md5"
	"crypto/sha1"
	"crypto/sha256"
	"crypto/sha512"
	"crypto/x509"
	"encoding/binary"
	"fmt"
	"hash"
	"strings"
	"sync"
	"testing"
	"time"

	"pgregory.net/rapid"
)

// ---- description of a session state, reference encoder ----

type vf35State struct {
	Version     uint16
	IsClient    bool
	CipherSuite uint16
	CreatedAt   uint64
	Secret      []byte
	Extra       [][]byte
	EMS         bool
	EarlyData   bool
	Certs       []*x509.Certificate
	OCSP        []byte
	SCTs        [][]byte
	Chains      [][]*x509.Certificate // each starts with Certs[0]
	ALPN        string                // only with EarlyData
	UseBy       uint64                // client, TLS 1.3
	AgeAdd      uint32
}

func (d *vf35State) toSessionState() *SessionState {
	return &SessionState{
		Extra: d.Extra, EarlyData: d.EarlyData, version: d.Version, isClient: d.IsClient, cipherSuite: d.CipherSuite,
		createdAt: d.CreatedAt, secret: d.Secret, extMasterSecret: d.EMS, peerCertificates: d.Certs, ocspResponse: d.OCSP,
		scts: d.SCTs, verifiedChains: d.Chains, alpnProtocol: d.ALPN, useBy: d.UseBy, ageAdd: d.AgeAdd,
	}
}

func vf35U24(b []byte, n int) []byte { return append(b, byte(n>>16), byte(n>>8), byte(n)) }

func vf35Vec24(b []byte, body []byte) []byte { return append(vf35U24(b, len(body)), body...) }

func vf35Vec16(b []byte, body []byte) []byte {
	return append(binary.BigEndian.AppendUint16(b, uint16(len(body))), body...)
}

func vf35RefEncode(d *vf35State) []byte {
	var b []byte
	b = binary.BigEndian.AppendUint16(b, d.Version)
	if d.IsClient {
		b = append(b, 2)
	} else {
		b = append(b, 1)
	}
	b = binary.BigEndian.AppendUint16(b, d.CipherSuite)
	b = binary.BigEndian.AppendUint64(b, d.CreatedAt)
	b = append(b, byte(len(d.Secret)))
	b = append(b, d.Secret...)
	var extra []byte
	for _, e := range d.Extra {
		extra = vf35Vec24(extra, e)
	}
	b = vf35Vec24(b, extra)
	b = append(b, vf35Bool(d.EMS), vf35Bool(d.EarlyData))
	// CertificateEntry certificate_list<0..2^24-1> (RFC 8446 4.4.2), extensions only on the leaf
	var list []byte
	for i, c := range d.Certs {
		list = vf35Vec24(list, c.Raw)
		var exts []byte
		if i == 0 {
			if d.OCSP != nil {
				body := vf35Vec24([]byte{1}, d.OCSP) // status_type ocsp(1)
				exts = vf35Vec16(binary.BigEndian.AppendUint16(exts, 5), body)
			}
			if d.SCTs != nil {
				var scts []byte
				for _, s := range d.SCTs {
					scts = vf35Vec16(scts, s)
				}
				exts = vf35Vec16(binary.BigEndian.AppendUint16(exts, 18), vf35Vec16(nil, scts))
			}
		}
		list = vf35Vec16(list, exts)
	}
	b = vf35Vec24(b, list)
	var chains []byte
	for _, ch := range d.Chains {
		var one []byte
		for _, c := range ch[1:] {
			one = vf35Vec24(one, c.Raw)
		}
		chains = vf35Vec24(chains, one)
	}
	b = vf35Vec24(b, chains)
	if d.EarlyData {
		b = append(b, byte(len(d.ALPN)))
		b = append(b, d.ALPN...)
	}
	if d.IsClient && d.Version >= VersionTLS13 {
		b = binary.BigEndian.AppendUint64(b, d.UseBy)
		b = binary.BigEndian.AppendUint32(b, d.AgeAdd)
	}
	return b
}

func vf35Bool(v bool) byte {
	if v {
		return 1
	}
	return 0
}

// vf35Diff compares a state returned by utls with the description; "" when equal.
func vf35Diff(s *SessionState, d *vf35State) string {
	var out []string
	add := func(f string, a, b any) { out = append(out, fmt.Sprintf("%s: got %v want %v", f, a, b)) }
	if s.version != d.Version {
		add("version", s.version, d.Version)
	}
	if s.isClient != d.IsClient {
		add("isClient", s.isClient, d.IsClient)
	}
	if s.cipherSuite != d.CipherSuite {
		add("cipherSuite", s.cipherSuite, d.CipherSuite)
	}
	if s.createdAt != d.CreatedAt {
		add("createdAt", s.createdAt, d.CreatedAt)
	}
	if !bytes.Equal(s.secret, d.Secret) {
		add("secret", vfHex(s.secret), vfHex(d.Secret))
	}
	if len(s.Extra) != len(d.Extra) {
		add("len(Extra)", len(s.Extra), len(d.Extra))
	} else {
		for i := range s.Extra {
			if !bytes.Equal(s.Extra[i], d.Extra[i]) {
				add(fmt.Sprintf("Extra[%d]", i), vfHex(s.Extra[i]), vfHex(d.Extra[i]))
			}
		}
	}
	if s.extMasterSecret != d.EMS {
		add("extMasterSecret", s.extMasterSecret, d.EMS)
	}
	if s.EarlyData != d.EarlyData {
		add("EarlyData", s.EarlyData, d.EarlyData)
	}
	certsEq := func(a, b []*x509.Certificate) bool {
		if len(a) != len(b) {
			return false
		}
		for i := range a {
			if !bytes.Equal(a[i].Raw, b[i].Raw) {
				return false
			}
		}
		return true
	}
	if !certsEq(s.peerCertificates, d.Certs) {
		add("peerCertificates", len(s.peerCertificates), len(d.Certs))
	}
	if !bytes.Equal(s.ocspResponse, d.OCSP) {
		add("ocspResponse", vfHex(s.ocspResponse), vfHex(d.OCSP))
	}
	if len(s.scts) != len(d.SCTs) {
		add("len(scts)", len(s.scts), len(d.SCTs))
	} else {
		for i := range s.scts {
			if !bytes.Equal(s.scts[i], d.SCTs[i]) {
				add(fmt.Sprintf("scts[%d]", i), vfHex(s.scts[i]), vfHex(d.SCTs[i]))
			}
		}
	}
	if len(s.verifiedChains) != len(d.Chains) {
		add("len(verifiedChains)", len(s.verifiedChains), len(d.Chains))
	} else {
		for i := range s.verifiedChains {
			if !certsEq(s.verifiedChains[i], d.Chains[i]) {
				add(fmt.Sprintf("verifiedChains[%d]", i), len(s.verifiedChains[i]), len(d.Chains[i]))
			}
		}
	}
	if s.alpnProtocol != d.ALPN {
		add("alpnProtocol", s.alpnProtocol, d.ALPN)
	}
	if s.useBy != d.UseBy {
		add("useBy", s.useBy, d.UseBy)
	}
	if s.ageAdd != d.AgeAdd {
		add("ageAdd", s.ageAdd, d.AgeAdd)
	}
	return strings.Join(out, "; ")
}

// ---- reference ticket sealing ----

func vf35DeriveKeys(b [32]byte) (aesKey, hmacKey [16]byte) {
	h := sha512.Sum512(b[:])
	copy(aesKey[:], h[16:32])
	copy(hmacKey[:], h[32:48])
	return
}

func vf35Seal(key [32]byte, iv [16]byte, plain []byte) []byte {
	ak, hk := vf35DeriveKeys(key)
	blk, _ := aes.NewCipher(ak[:])
	out := append([]byte(nil), iv[:]...)
	ct := make([]byte, len(plain))
	cipher.NewCTR(blk, iv[:]).XORKeyStream(ct, plain)
	out = append(out, ct...)
	m := hmac.New(sha256.New, hk[:])
	m.Write(out)
	return m.Sum(out)
}

// vf35Open returns the plaintext if ticket authenticates under key.
func vf35Open(key [32]byte, ticket []byte) ([]byte, bool) {
	if len(ticket) < 48 {
		return nil, false
	}
	ak, hk := vf35DeriveKeys(key)
	body, mac := ticket[:len(ticket)-32], ticket[len(ticket)-32:]
	m := hmac.New(sha256.New, hk[:])
	m.Write(body)
	if !hmac.Equal(m.Sum(nil), mac) {
		return nil, false
	}
	blk, _ := aes.NewCipher(ak[:])
	pt := make([]byte, len(body)-16)
	cipher.NewCTR(blk, body[:16]).XORKeyStream(pt, body[16:])
	return pt, true
}

// ---- generators ----

var (
	vf35PoolOnce sync.Once
	vf35Pool     []*x509.Certificate
)

func vf35CertPool() []*x509.Certificate {
	vf35PoolOnce.Do(func() {
		l1 := vfLeaf(vfLeafSpec{KeyType: "ecdsa", Names: []string{"example.test"}})
		l2 := vfLeaf(vfLeafSpec{KeyType: "ed25519", Names: []string{"other.test", "10.1.2.3"}, CA: "alt"})
		vf35Pool = []*x509.Certificate{l1.Leaf, vfGetCA("main").Cert, l2.Leaf, vfGetCA("alt").Cert}
	})
	return vf35Pool
}

func vf35GenBytes(rt *rapid.T, label string, min, max int) []byte {
	return rapid.SliceOfN(rapid.Byte(), min, max).Draw(rt, label)
}

func vf35GenState(rt *rapid.T) *vf35State {
	pool := vf35CertPool()
	d := &vf35State{}
	d.Version = rapid.SampledFrom([]uint16{VersionTLS10, VersionTLS11, VersionTLS12, VersionTLS13, VersionSSL30, 0, 0x0305, 0x7f1c, 0xffff}).Draw(rt, "version")
	if rapid.IntRange(0, 4).Draw(rt, "version_any") == 0 {
		d.Version = rapid.Uint16().Draw(rt, "version_raw")
	}
	d.IsClient = rapid.Bool().Draw(rt, "isClient")
	d.CipherSuite = rapid.Uint16().Draw(rt, "suite")
	switch rapid.IntRange(0, 3).Draw(rt, "created_kind") {
	case 0:
		d.CreatedAt = 0
	case 1:
		d.CreatedAt = 1<<64 - 1
	case 2:
		d.CreatedAt = uint64(vfNow().Unix())
	default:
		d.CreatedAt = rapid.Uint64().Draw(rt, "created")
	}
	switch rapid.IntRange(0, 4).Draw(rt, "secret_kind") {
	case 0:
		d.Secret = vf35GenBytes(rt, "secret", 1, 1)
	case 1:
		d.Secret = vf35GenBytes(rt, "secret", 255, 255)
	case 2:
		d.Secret = vf35GenBytes(rt, "secret", 48, 48)
	default:
		d.Secret = vf35GenBytes(rt, "secret", 1, 255)
	}
	nextra := rapid.IntRange(0, 3).Draw(rt, "nextra")
	for i := 0; i < nextra; i++ {
		if rapid.IntRange(0, 9).Draw(rt, fmt.Sprintf("extra%d_big", i)) == 0 {
			// beyond 16 bits: the 24-bit length fields are really used
			d.Extra = append(d.Extra, bytes.Repeat([]byte{byte(i + 1)}, rapid.IntRange(65530, 66000).Draw(rt, fmt.Sprintf("extra%d_len", i))))
		} else if rapid.IntRange(0, 4).Draw(rt, fmt.Sprintf("extra%d_nil", i)) == 0 {
			// a layer that reserved its slot without data: a nil entry is an entry (it comes back empty, at its index)
			d.Extra = append(d.Extra, nil)
		} else {
			d.Extra = append(d.Extra, vf35GenBytes(rt, fmt.Sprintf("extra%d", i), 0, 40))
		}
	}
	d.EMS = rapid.Bool().Draw(rt, "ems")
	d.EarlyData = rapid.Bool().Draw(rt, "earlyData")
	ncerts := rapid.IntRange(0, 3).Draw(rt, "ncerts")
	if d.IsClient && ncerts == 0 {
		ncerts = 1 // a client session always has the server's leaf
	}
	for i := 0; i < ncerts; i++ {
		d.Certs = append(d.Certs, pool[rapid.IntRange(0, len(pool)-1).Draw(rt, fmt.Sprintf("cert%d", i))])
	}
	if ncerts > 0 {
		if rapid.Bool().Draw(rt, "hasOCSP") {
			d.OCSP = vf35GenBytes(rt, "ocsp", 1, 60)
		}
		nsct := rapid.IntRange(0, 3).Draw(rt, "nsct")
		for i := 0; i < nsct; i++ {
			d.SCTs = append(d.SCTs, vf35GenBytes(rt, fmt.Sprintf("sct%d", i), 1, 50))
		}
		nch := rapid.IntRange(0, 2).Draw(rt, "nchains")
		for i := 0; i < nch; i++ {
			ch := []*x509.Certificate{d.Certs[0]}
			extra := rapid.IntRange(0, 2).Draw(rt, fmt.Sprintf("chain%d_len", i))
			for j := 0; j < extra; j++ {
				ch = append(ch, pool[rapid.IntRange(0, len(pool)-1).Draw(rt, fmt.Sprintf("chain%d_%d", i, j))])
			}
			d.Chains = append(d.Chains, ch)
		}
	}
	if d.EarlyData {
		switch rapid.IntRange(0, 3).Draw(rt, "alpn_kind") {
		case 0:
			d.ALPN = ""
		case 1:
			d.ALPN = strings.Repeat("p", 255)
		default:
			d.ALPN = rapid.SampledFrom([]string{"h2", "http/1.1", "h3", "\x00", "é"}).Draw(rt, "alpn")
		}
	}
	if d.IsClient && d.Version >= VersionTLS13 {
		d.UseBy = rapid.Uint64().Draw(rt, "useBy")
		d.AgeAdd = rapid.Uint32().Draw(rt, "ageAdd")
	}
	return d
}

func vf35GenKey(rt *rapid.T, label string) [32]byte {
	var k [32]byte
	switch rapid.IntRange(0, 5).Draw(rt, label+"_kind") {
	case 0: // all zero is a legal explicit key for SetSessionTicketKeys
	case 1:
		for i := range k {
			k[i] = 0xff
		}
	default:
		copy(k[:], vf35GenBytes(rt, label, 32, 32))
	}
	return k
}

func vf35StateClass(d *vf35State) string {
	role := "server"
	if d.IsClient {
		role = "client"
	}
	v := "other"
	switch d.Version {
	case VersionTLS10, VersionTLS11, VersionTLS12:
		v = "tls1.0-1.2"
	case VersionTLS13:
		v = "tls1.3"
	}
	return fmt.Sprintf("state:%s/%s/certs=%d", role, v, len(d.Certs))
}

func vf35NewConfig(seed uint64, label string) *Config {
	return &Config{Rand: vfNewDetRand(seed, label), Time: vfNow}
}

func vf35Decrypt(cfg *Config, ticket []byte) (s *SessionState, err error, pan *vfPanic) {
	pan = vfCatch(func() { s, err = cfg.DecryptTicket(ticket, ConnectionState{}) })
	return
}

type vf35Mutation struct {
	desc string
	out  []byte
}

func vf35GenMutation(rt *rapid.T, label string, ticket []byte) vf35Mutation {
	n := len(ticket)
	t := append([]byte(nil), ticket...)
	switch rapid.IntRange(0, 9).Draw(rt, label+"_kind") {
	case 0, 1, 2, 3: // single bit flip, by region
		var pos int
		region := rapid.SampledFrom([]string{"iv", "ct-first", "ct-any", "ct-last", "mac-first", "mac-any", "mac-last", "first-byte"}).Draw(rt, label+"_region")
		ctLen := n - 48
		switch region {
		case "iv":
			pos = rapid.IntRange(0, 15).Draw(rt, label+"_pos")
		case "first-byte":
			pos = 0
		case "ct-first":
			pos = 16
		case "ct-any":
			pos = 16 + rapid.IntRange(0, ctLen-1).Draw(rt, label+"_pos")
		case "ct-last":
			pos = 16 + ctLen - 1
		case "mac-first":
			pos = n - 32
		case "mac-any":
			pos = n - 32 + rapid.IntRange(0, 31).Draw(rt, label+"_pos")
		case "mac-last":
			pos = n - 1
		}
		bit := rapid.IntRange(0, 7).Draw(rt, label+"_bit")
		t[pos] ^= 1 << uint(bit)
		return vf35Mutation{fmt.Sprintf("flip:%s", region), t}
	case 4: // truncate at the end
		cut := rapid.SampledFrom([]int{1, 2, 16, 31, 32, 33}).Draw(rt, label+"_cut")
		if cut > n {
			cut = n
		}
		return vf35Mutation{"truncate-tail", t[:n-cut]}
	case 5: // truncate to a short prefix (around the 48-byte minimum, and empty)
		keep := rapid.SampledFrom([]int{0, 1, 15, 16, 17, 47, 48, 49}).Draw(rt, label+"_keep")
		if keep >= n {
			keep = n - 1
		}
		return vf35Mutation{fmt.Sprintf("truncate-to-%d", keep), t[:keep]}
	case 6: // drop the head
		cut := rapid.SampledFrom([]int{1, 15, 16, 17}).Draw(rt, label+"_cut")
		return vf35Mutation{"truncate-head", t[cut:]}
	case 7: // extend
		extra := vf35GenBytes(rt, label+"_extra", 1, 40)
		if rapid.Bool().Draw(rt, label+"_front") {
			return vf35Mutation{"extend-front", append(append([]byte(nil), extra...), t...)}
		}
		return vf35Mutation{"extend-tail", append(t, extra...)}
	case 8: // byte replaced
		pos := rapid.IntRange(0, n-1).Draw(rt, label+"_pos")
		t[pos] ^= byte(rapid.IntRange(1, 255).Draw(rt, label+"_x"))
		return vf35Mutation{"byte-replaced", t}
	default: // remove one byte in the middle / duplicate one
		pos := rapid.IntRange(0, n-1).Draw(rt, label+"_pos")
		if rapid.Bool().Draw(rt, label+"_dup") {
			return vf35Mutation{"byte-duplicated", append(append(append([]byte(nil), t[:pos+1]...), t[pos]), t[pos+1:]...)}
		}
		return vf35Mutation{"byte-removed", append(append([]byte(nil), t[:pos]...), t[pos+1:]...)}
	}
}

// ---- round trip, authentication, key conversions ----

func TestVerifC35RoundTripAndMutation(t *testing.T) {
	st := vfNewStats(t, "C35")
	rapid.Check(t, func(rt *rapid.T) {
		d := vf35GenState(rt)
		nkeys := rapid.IntRange(1, 4).Draw(rt, "nkeys")
		var keys [][32]byte
		for i := 0; i < nkeys; i++ {
			keys = append(keys, vf35GenKey(rt, fmt.Sprintf("key%d", i)))
		}
		rseed := rapid.Uint64().Draw(rt, "rand")
		cfg := vf35NewConfig(rseed, "enc")
		legacy := nkeys == 1 && keys[0] != [32]byte{} && !bytes.HasPrefix(keys[0][:], []byte("DEPRECATED")) && rapid.Bool().Draw(rt, "legacyField")
		if legacy {
			cfg.SessionTicketKey = keys[0] // the documented older way of configuring one key
			st.Class("keys:SessionTicketKey-field")
		} else {
			cfg.SetSessionTicketKeys(keys)
			st.Class(fmt.Sprintf("keys:SetSessionTicketKeys(%d)", nkeys))
		}
		st.Eval()
		st.Class(vf35StateClass(d))
		want := vf35RefEncode(d)
		key := fmt.Sprintf("rt:%s", vfHashHex(append(append([]byte(nil), want...), keys[0][:]...)))
		st.NonTrivial(key)

		ticket, err := cfg.EncryptTicket(ConnectionState{}, d.toSessionState())
		if err != nil {
			st.Violation(rt, "EncryptTicket failed on a state inside the grammar: %v (state %+v)", err, *d)
		}
		if len(ticket) != 16+len(want)+32 {
			st.Violation(rt, "ticket has %d bytes, state encoding has %d (+48 expected)", len(ticket), len(want))
		}
		// what is inside, seen independently
		plain, ok := vf35Open(keys[0], ticket)
		if !ok {
			st.Violation(rt, "ticket does not authenticate under the first configured key (reference HMAC-SHA256 over iv|ciphertext)")
		}
		if !bytes.Equal(plain, want) {
			st.Violation(rt, "ticket plaintext differs from the reference encoding of the state:\n got  %s\n want %s", vfHex(plain), vfHex(want))
		}
		// round trip under the same keys
		got, derr, pan := vf35Decrypt(cfg, ticket)
		if pan != nil {
			st.Violation(rt, "DecryptTicket panicked: %v", pan)
		}
		if derr != nil || got == nil {
			st.Violation(rt, "DecryptTicket(EncryptTicket(state)) = (%v, %v) under the same keys; state %+v", got, derr, *d)
		}
		if diff := vf35Diff(got, d); diff != "" {
			st.Violation(rt, "round trip changed the state: %s", diff)
		}
		// a second server configured with the same keys in another order still opens it
		if nkeys > 1 {
			rot := append(append([][32]byte(nil), keys[1:]...), keys[0])
			cfg2 := vf35NewConfig(rseed, "second")
			cfg2.SetSessionTicketKeys(rot)
			got2, _, _ := vf35Decrypt(cfg2, ticket)
			if got2 == nil || vf35Diff(got2, d) != "" {
				st.Violation(rt, "ticket sealed with key A is not opened by a config holding [.., A] (A not first)")
			}
		}
		// reverse direction: utls opens what the reference sealed, with any configured key
		if !legacy {
			j := rapid.IntRange(0, nkeys-1).Draw(rt, "sealKey")
			var iv [16]byte
			copy(iv[:], vf35GenBytes(rt, "iv", 16, 16))
			mine := vf35Seal(keys[j], iv, want)
			got3, _, pan3 := vf35Decrypt(cfg, mine)
			if pan3 != nil {
				st.Violation(rt, "DecryptTicket panicked on a reference-sealed ticket: %v", pan3)
			}
			if got3 == nil {
				st.Violation(rt, "a ticket sealed by the reference with configured key #%d is not opened", j)
			}
			if diff := vf35Diff(got3, d); diff != "" {
				st.Violation(rt, "reference-sealed ticket decoded differently: %s", diff)
			}
		}
		// mutations
		nmut := rapid.IntRange(3, 8).Draw(rt, "nmut")
		for i := 0; i < nmut; i++ {
			m := vf35GenMutation(rt, fmt.Sprintf("m%d", i), ticket)
			if bytes.Equal(m.out, ticket) {
				continue
			}
			st.Class("mutation:" + strings.SplitN(m.desc, "-to-", 2)[0])
			gm, _, pm := vf35Decrypt(cfg, m.out)
			if pm != nil {
				st.Violation(rt, "DecryptTicket panicked on a mutated ticket (%s): %v", m.desc, pm)
			}
			if gm != nil {
				st.Violation(rt, "mutated ticket (%s, %d -> %d bytes) still yields a state", m.desc, len(ticket), len(m.out))
			}
		}
		// sealed with a key that is no longer configured
		{
			var others [][32]byte
			switch rapid.IntRange(0, 2).Draw(rt, "gone_kind") {
			case 0:
				if nkeys > 1 {
					others = append(others, keys[1:]...)
				}
			case 1: // differs from the sealing key in one bit
				k := keys[0]
				k[rapid.IntRange(0, 31).Draw(rt, "gone_pos")] ^= 1 << uint(rapid.IntRange(0, 7).Draw(rt, "gone_bit"))
				others = append(others, k)
			}
			for len(others) == 0 || rapid.IntRange(0, 2).Draw(rt, fmt.Sprintf("gone_more%d", len(others))) == 0 {
				others = append(others, vf35GenKey(rt, fmt.Sprintf("gone%d", len(others))))
				if len(others) > 3 {
					break
				}
			}
			still := false
			for _, k := range others {
				if k == keys[0] {
					still = true
				}
			}
			if !still {
				st.Class("rotation:sealing-key-removed")
				// (a) on the same Config, after SetSessionTicketKeys (b) on a fresh Config
				cfg.SetSessionTicketKeys(others)
				fresh := vf35NewConfig(rseed, "fresh")
				fresh.SetSessionTicketKeys(others)
				for name, c := range map[string]*Config{"same config after SetSessionTicketKeys": cfg, "fresh config": fresh} {
					g, _, p := vf35Decrypt(c, ticket)
					if p != nil {
						st.Violation(rt, "DecryptTicket panicked: %v", p)
					}
					if g != nil {
						st.Violation(rt, "ticket sealed with a key that is no longer configured still yields a state (%s)", name)
					}
				}
				// and SessionTicketsDisabled means no keys at all
				off := vf35NewConfig(rseed, "off")
				off.SetSessionTicketKeys(keys)
				off.SessionTicketsDisabled = true
				if g, _, _ := vf35Decrypt(off, ticket); g != nil {
					st.Violation(rt, "SessionTicketsDisabled config still opens a ticket")
				}
			}
		}
		st.Sample(map[string]any{"state": fmt.Sprintf("v=%#04x client=%v suite=%#04x secret=%dB extra=%d ems=%v early=%v certs=%d chains=%d alpn=%q",
			d.Version, d.IsClient, d.CipherSuite, len(d.Secret), len(d.Extra), d.EMS, d.EarlyData, len(d.Certs), len(d.Chains), d.ALPN), "keys": nkeys, "ticket_len": len(ticket)})
	})
}

// TicketKeyFromBytes derives the same keys that SetSessionTicketKeys installs.
func TestVerifC35TicketKeyFromBytes(t *testing.T) {
	st := vfNewStats(t, "C35")
	rapid.Check(t, func(rt *rapid.T) {
		nkeys := rapid.IntRange(1, 3).Draw(rt, "nkeys")
		var keys [][32]byte
		for i := 0; i < nkeys; i++ {
			keys = append(keys, vf35GenKey(rt, fmt.Sprintf("key%d", i)))
		}
		rseed := rapid.Uint64().Draw(rt, "rand")
		d := vf35GenState(rt)
		st.Eval()
		st.NonTrivial(fmt.Sprintf("tk:%x", keys[0][:8]))
		st.Class("ticketkey")
		installed := vf35NewConfig(rseed, "installed")
		installed.SetSessionTicketKeys(keys)
		var pub TicketKeys
		for i, k := range keys {
			tk := TicketKeyFromBytes(k)
			pub = append(pub, tk)
			ak, hk := vf35DeriveKeys(k)
			if tk.AesKey != ak || tk.HmacKey != hk {
				st.Violation(rt, "TicketKeyFromBytes(%x): aes=%x hmac=%x, SHA-512 derivation gives aes=%x hmac=%x", k, tk.AesKey, tk.HmacKey, ak, hk)
			}
			in := installed.sessionTicketKeys[i]
			if in.aesKey != tk.AesKey || in.hmacKey != tk.HmacKey {
				st.Violation(rt, "key %d: SetSessionTicketKeys installed aes=%x hmac=%x, TicketKeyFromBytes gives aes=%x hmac=%x", i, in.aesKey, in.hmacKey, tk.AesKey, tk.HmacKey)
			}
			// conversions are lossless
			if back := tk.ToPrivate().ToPublic(); back != tk {
				st.Violation(rt, "TicketKey.ToPrivate().ToPublic() changed the key")
			}
		}
		priv := pub.ToPrivate()
		if len(priv) != len(keys) || len(ticketKeys(priv).ToPublic()) != len(keys) {
			st.Violation(rt, "TicketKeys conversion changed the number of keys")
		}
		converted := vf35NewConfig(rseed, "converted")
		converted.sessionTicketKeys = priv
		// cross-decryption both ways
		t1, err1 := installed.EncryptTicket(ConnectionState{}, d.toSessionState())
		t2, err2 := converted.EncryptTicket(ConnectionState{}, d.toSessionState())
		if err1 != nil || err2 != nil {
			st.Violation(rt, "EncryptTicket: %v %v", err1, err2)
		}
		g1, _, _ := vf35Decrypt(converted, t1)
		g2, _, _ := vf35Decrypt(installed, t2)
		if g1 == nil || vf35Diff(g1, d) != "" {
			st.Violation(rt, "ticket from SetSessionTicketKeys config not opened with TicketKeyFromBytes keys")
		}
		if g2 == nil || vf35Diff(g2, d) != "" {
			st.Violation(rt, "ticket sealed with TicketKeyFromBytes keys not opened by SetSessionTicketKeys config")
		}
	})
}

// Rotation histories with explicit keys: at step r the server holds the w most recent keys.
func TestVerifC35RotationHistory(t *testing.T) {
	st := vfNewStats(t, "C35")
	rapid.Check(t, func(rt *rapid.T) {
		w := rapid.IntRange(1, 4).Draw(rt, "window")
		steps := rapid.IntRange(2, 7).Draw(rt, "steps")
		rseed := rapid.Uint64().Draw(rt, "rand")
		d := vf35GenState(rt)
		cfg := vf35NewConfig(rseed, "rot")
		var stream [][32]byte
		var tickets [][]byte
		st.Eval()
		st.Class("rotation:explicit-history")
		st.NonTrivial(fmt.Sprintf("rh:%d:%d:%d", w, steps, rseed))
		for r := 0; r < steps; r++ {
			var k [32]byte
			copy(k[:], vf35GenBytes(rt, fmt.Sprintf("k%d", r), 32, 32))
			k[0] = byte(r) // all distinct
			stream = append(stream, k)
			var cur [][32]byte
			for j := r; j >= 0 && j > r-w; j-- {
				cur = append(cur, stream[j])
			}
			cfg.SetSessionTicketKeys(cur)
			tk, err := cfg.EncryptTicket(ConnectionState{}, d.toSessionState())
			if err != nil {
				st.Violation(rt, "EncryptTicket: %v", err)
			}
			if _, ok := vf35Open(stream[r], tk); !ok {
				st.Violation(rt, "step %d: new ticket is not sealed with the first (newest) key", r)
			}
			tickets = append(tickets, tk)
			for j, old := range tickets {
				g, _, p := vf35Decrypt(cfg, old)
				if p != nil {
					st.Violation(rt, "DecryptTicket panicked: %v", p)
				}
				inWindow := j > r-w
				if inWindow && (g == nil || vf35Diff(g, d) != "") {
					st.Violation(rt, "window %d step %d: ticket of step %d (key still configured) not opened", w, r, j)
				}
				if !inWindow && g != nil {
					st.Violation(rt, "window %d step %d: ticket of step %d (key dropped) still opened", w, r, j)
				}
			}
		}
	})
}

// Automatic rotation (no explicit keys): documented as "rotated every day and dropped after seven days".
func TestVerifC35AutoRotation(t *testing.T) {
	st := vfNewStats(t, "C35")
	rapid.Check(t, func(rt *rapid.T) {
		rseed := rapid.Uint64().Draw(rt, "rand")
		d := vf35GenState(rt)
		now := vfNow()
		cfg := &Config{Rand: vfNewDetRand(rseed, "auto"), Time: func() time.Time { return now }}
		type sealed struct {
			at time.Time
			tk []byte
		}
		var all []sealed
		events := rapid.IntRange(2, 12).Draw(rt, "events")
		st.Eval()
		st.Class("rotation:automatic")
		var trace []string
		for e := 0; e < events; e++ {
			adv := rapid.SampledFrom([]time.Duration{0, time.Second, time.Hour, 24*time.Hour - time.Second, 24 * time.Hour, 25 * time.Hour,
				3 * 24 * time.Hour, 6*24*time.Hour - time.Second, 6 * 24 * time.Hour, 7 * 24 * time.Hour, 8*24*time.Hour - time.Second, 8 * 24 * time.Hour, 9 * 24 * time.Hour}).Draw(rt, fmt.Sprintf("adv%d", e))
			now = now.Add(adv)
			trace = append(trace, adv.String())
			for _, s := range all {
				age := now.Sub(s.at)
				g, _, p := vf35Decrypt(cfg, s.tk)
				if p != nil {
					st.Violation(rt, "DecryptTicket panicked: %v", p)
				}
				switch {
				case age < 6*24*time.Hour:
					st.Class("auto:age<6d-must-open")
					if g == nil || vf35Diff(g, d) != "" {
						st.Violation(rt, "auto-rotation, clock advances %v: ticket aged %v is not opened (keys are kept seven days)", trace, age)
					}
				case age >= 8*24*time.Hour:
					st.Class("auto:age>=8d-must-not-open")
					if g != nil {
						st.Violation(rt, "auto-rotation, clock advances %v: ticket aged %v is still opened (keys are dropped after seven days)", trace, age)
					}
				default:
					st.Class("auto:age-6d..8d(not judged)")
				}
			}
			tk, err := cfg.EncryptTicket(ConnectionState{}, d.toSessionState())
			if err != nil {
				st.Violation(rt, "EncryptTicket: %v", err)
			}
			all = append(all, sealed{now, tk})
		}
		st.NonTrivial(fmt.Sprintf("ar:%d:%v", rseed, trace))
	})
}

// ---- forged client sessions in real handshakes ----

func vf35PHash(h func() hash.Hash, secret, seed []byte, n int) []byte {
	var out []byte
	mac := hmac.New(h, secret)
	mac.Write(seed)
	a := mac.Sum(nil)
	for len(out) < n {
		mac.Reset()
		mac.Write(a)
		mac.Write(seed)
		out = mac.Sum(out)
		mac.Reset()
		mac.Write(a)
		a = mac.Sum(nil)
	}
	return out[:n]
}

// vf35PRF is the TLS PRF of RFC 2246 (1.0/1.1) and RFC 5246 (1.2, SHA-256 or SHA-384 by suite).
func vf35PRF(version uint16, sha384Suite bool, secret []byte, label string, seed []byte, n int) []byte {
	ls := append([]byte(label), seed...)
	if version >= VersionTLS12 {
		if sha384Suite {
			return vf35PHash(sha512.New384, secret, ls, n)
		}
		return vf35PHash(sha256.New, secret, ls, n)
	}
	half := (len(secret) + 1) / 2
	a := vf35PHash(md5.New, secret[:half], ls, n)
	b := vf35PHash(sha1.New, secret[len(secret)-half:], ls, n)
	for i := range a {
		a[i] ^= b[i]
	}
	return a
}

type vf35Suite struct {
	id      uint16
	name    string
	keyType string
	sha384  bool
	legacy  bool // usable below TLS 1.2
}

var vf35Suites12 = []vf35Suite{
	{TLS_ECDHE_ECDSA_WITH_AES_128_GCM_SHA256, "ECDHE_ECDSA_AES128_GCM", "ecdsa", false, false},
	{TLS_ECDHE_RSA_WITH_AES_128_GCM_SHA256, "ECDHE_RSA_AES128_GCM", "rsa", false, false},
	{TLS_ECDHE_ECDSA_WITH_AES_256_GCM_SHA384, "ECDHE_ECDSA_AES256_GCM", "ecdsa", true, false},
	{TLS_ECDHE_RSA_WITH_AES_256_GCM_SHA384, "ECDHE_RSA_AES256_GCM", "rsa", true, false},
	{TLS_ECDHE_ECDSA_WITH_CHACHA20_POLY1305_SHA256, "ECDHE_ECDSA_CHACHA", "ecdsa", false, false},
	{TLS_ECDHE_RSA_WITH_CHACHA20_POLY1305_SHA256, "ECDHE_RSA_CHACHA", "rsa", false, false},
	{TLS_ECDHE_ECDSA_WITH_AES_128_CBC_SHA, "ECDHE_ECDSA_AES128_CBC_SHA", "ecdsa", false, true},
	{TLS_ECDHE_RSA_WITH_AES_128_CBC_SHA, "ECDHE_RSA_AES128_CBC_SHA", "rsa", false, true},
	{TLS_ECDHE_ECDSA_WITH_AES_256_CBC_SHA, "ECDHE_ECDSA_AES256_CBC_SHA", "ecdsa", false, true},
	{TLS_ECDHE_RSA_WITH_AES_256_CBC_SHA, "ECDHE_RSA_AES256_CBC_SHA", "rsa", false, true},
}

type vf35Client struct {
	name string
	id   ClientHelloID
	// via: "cache" = forged state placed in Config.ClientSessionCache; "SetSessionState" = UConn.SetSessionState
	via string
}

var vf35Clients12 = []vf35Client{
	{"HelloGolang", HelloGolang, "cache"},
	{"HelloGolang", HelloGolang, "SetSessionState"},
	{"HelloChrome_102", HelloChrome_102, "SetSessionState"},
	{"HelloChrome_102", HelloChrome_102, "cache"},
	{"HelloFirefox_105", HelloFirefox_105, "SetSessionState"},
	{"HelloFirefox_105", HelloFirefox_105, "cache"},
	{"HelloChrome_120", HelloChrome_120, "SetSessionState"},
	{"HelloEdge_106", HelloEdge_106, "cache"},
}

const vf35Host = "example.test"

type vf35Forge struct {
	version uint16
	suite   uint16
	secret  []byte
	ems     bool
	keyType string
	sha384  bool
	client  vf35Client
	refSeal bool // ticket sealed by the reference instead of Config.EncryptTicket
	// ticketSuite != 0 (TLS <= 1.2): the state sealed INSIDE the ticket names this suite while the client's state names
	// suite: the server resumes with the ticket's suite, which the client must not accept as a resumption of its session
	ticketSuite uint16
	key         [32]byte
	rseed       uint64
	// sibling: the application forges a SECOND state from the same secret buffer (another ticket of the same session)
	// and afterwards re-keys that second state with SetMasterSecret; the first must still carry the supplied secret
	sibling bool
}

type vf35Outcome struct {
	cerr, serr       error
	ccs, scs         ConnectionState
	offeredSuite     bool
	offeredEMS       bool
	offeredTicket    bool
	clientRandom     []byte
	serverRandom     []byte
	echoErr          error
	setErr           error
	wireTicketEquals bool
	siblingClobbered string
}

func vf35RunForged(f vf35Forge) (o vf35Outcome, pan *vfPanic) {
	scfg := vfServerConfig(f.keyType, vf35Host)
	scfg.Rand = vfNewDetRand(f.rseed, "srv")
	scfg.SetSessionTicketKeys([][32]byte{f.key})
	// parrots advertise TLS 1.3 whatever Config.MaxVersion says; a session can only be resumed at its own version,
	// so the server is one that negotiates exactly that version
	scfg.MaxVersion = f.version
	leaf := scfg.Certificates[0].Leaf
	ca := vfGetCA("main").Cert

	// what the server will find in the ticket
	sd := &vf35State{Version: f.version, CipherSuite: f.suite, CreatedAt: uint64(vfNow().Unix()), Secret: f.secret, EMS: f.ems}
	if f.ticketSuite != 0 {
		sd.CipherSuite = f.ticketSuite
	}
	var ticket []byte
	if f.refSeal {
		var iv [16]byte
		vfNewDetRand(f.rseed, "iv").Read(iv[:])
		ticket = vf35Seal(f.key, iv, vf35RefEncode(sd))
	} else {
		var err error
		ticket, err = scfg.EncryptTicket(ConnectionState{}, sd.toSessionState())
		if err != nil {
			panic(err)
		}
	}
	// what the client is given
	css := MakeClientSessionState(ticket, f.version, f.suite, f.secret, []*x509.Certificate{leaf}, [][]*x509.Certificate{{leaf, ca}})
	css.SetEMS(f.ems)
	css.SetCreatedAt(uint64(vfNow().Unix()))
	if f.version == VersionTLS13 {
		css.SetUseBy(uint64(vfNow().Add(time.Hour).Unix()))
		css.SetAgeAdd(uint32(f.rseed))
	}
	if f.sibling {
		want := append([]byte(nil), f.secret...)
		other := MakeClientSessionState(append([]byte("sibling-"), ticket...), f.version, f.suite, f.secret, []*x509.Certificate{leaf}, [][]*x509.Certificate{{leaf, ca}})
		rekey := make([]byte, len(f.secret))
		vfNewDetRand(f.rseed, "sibling-rekey").Read(rekey)
		other.SetMasterSecret(rekey)
		if got := css.MasterSecret(); !bytes.Equal(got, want) {
			o.siblingClobbered = fmt.Sprintf("after SetMasterSecret on a second state forged from the same buffer, the first state's MasterSecret() is %x, it was forged with %x", got, want)
			return
		}
		if !bytes.Equal(other.MasterSecret(), rekey) {
			o.siblingClobbered = fmt.Sprintf("SetMasterSecret(%x) left MasterSecret() = %x", rekey, other.MasterSecret())
			return
		}
	}
	ccfg := vfClientConfig(vf35Host)
	ccfg.Rand = vfNewDetRand(f.rseed, "cli")
	ccfg.MinVersion = VersionTLS10
	ccfg.MaxVersion = f.version
	ccfg.ClientSessionCache = NewLRUClientSessionCache(4)
	if f.client.via == "cache" {
		ccfg.ClientSessionCache.Put(vf35Host, css)
	}
	p := vfNewPair(ccfg, f.client.id, scfg)
	defer p.Close()
	pan = vfCatch(func() {
		if f.client.via == "SetSessionState" {
			if err := p.Cli.SetSessionState(css); err != nil {
				o.setErr = err
				return
			}
		}
		o.cerr, o.serr = p.Handshake()
		if o.cerr == nil && o.serr == nil {
			o.echoErr = p.Echo([]byte("ping from the client"), []byte("pong from the server"))
			o.ccs = p.Cli.ConnectionState()
			o.scs = p.Srv.ConnectionState()
		}
	})
	if hellos := vfClientHellosOnWire(p.CP.Written()); len(hellos) > 0 {
		if h := vfParseClientHello(hellos[0]); h != nil {
			for _, s := range h.Suites {
				if s == f.suite {
					o.offeredSuite = true
				}
			}
			for _, e := range h.Exts {
				switch e.Type {
				case 23:
					o.offeredEMS = true
				case 35:
					o.offeredTicket = true
					o.wireTicketEquals = bytes.Equal(e.Body, ticket)
				case 41:
					o.offeredTicket = true
					o.wireTicketEquals = bytes.Contains(e.Body, ticket)
				}
			}
			o.clientRandom = h.Random
		}
	}
	if p.Cli.HandshakeState.ServerHello != nil {
		o.serverRandom = p.Cli.HandshakeState.ServerHello.Random
	}
	return
}

func vf35VersionName(v uint16) string {
	switch v {
	case VersionTLS10:
		return "tls1.0"
	case VersionTLS11:
		return "tls1.1"
	case VersionTLS12:
		return "tls1.2"
	case VersionTLS13:
		return "tls1.3"
	}
	return fmt.Sprintf("%#04x", v)
}

// vf35JudgeForged applies the property to one forged-session handshake.
func vf35JudgeForged(st *vfStats, t vfFataler, f vf35Forge) {
	o, pan := vf35RunForged(f)
	st.Eval()
	id := fmt.Sprintf("%s via %s, %s suite %#04x ems=%v refSeal=%v", f.client.name, f.client.via, vf35VersionName(f.version), f.suite, f.ems, f.refSeal)
	if pan != nil {
		st.Violation(t, "forged session (%s): panic: %v", id, pan)
	}
	if o.setErr != nil {
		st.Violation(t, "forged session (%s): could not install the session: %v", id, o.setErr)
	}
	if o.siblingClobbered != "" {
		st.Violation(t, "forged session (%s): %s", id, o.siblingClobbered)
	}
	if f.sibling {
		st.Class("forged:second-state-from-the-same-buffer-rekeyed")
	}
	resumedC, resumedS := o.cerr == nil && o.ccs.DidResume, o.serr == nil && o.scs.DidResume
	consistent := o.offeredSuite && o.offeredTicket && o.wireTicketEquals && (f.version == VersionTLS13 || o.offeredEMS == f.ems)
	cls := fmt.Sprintf("forged:%s/%s/%s", vf35VersionName(f.version), f.client.name, f.client.via)
	switch {
	case resumedC && resumedS:
		st.Class(cls + ":resumed")
	case o.cerr != nil || o.serr != nil:
		st.Class(cls + ":handshake-error")
	default:
		st.Class(cls + ":full-handshake")
	}
	if !o.offeredTicket {
		st.Class("forged:ticket-not-on-the-wire")
	}
	if f.client.id == HelloGolang && f.client.via == "cache" && o.offeredSuite && !(o.offeredTicket && o.wireTicketEquals) && pan == nil {
		// the baseline path: a valid forged session in the cache of a default client must be offered
		st.Violation(t, "forged session (%s): the client did not put the forged ticket on the wire", id)
	}
	if resumedC != resumedS {
		st.Violation(t, "forged session (%s): client DidResume=%v, server DidResume=%v", id, resumedC, resumedS)
	}
	if f.ticketSuite != 0 && f.ticketSuite != f.suite {
		st.Class("forged:ticket-names-another-suite")
		if resumedC {
			st.Violation(t, "forged session (%s): the ticket names suite %#04x, the client's state %#04x; the client accepted the resumption (suite reported %#04x)", id, f.ticketSuite, f.suite, o.ccs.CipherSuite)
		}
		st.NonTrivial(fmt.Sprintf("fg-suite-mismatch:%s:%04x", id, f.ticketSuite))
		return
	}
	if !resumedC {
		if consistent {
			// everything the server needs was on the wire and the state is self-consistent: this must resume
			st.Violation(t, "forged session (%s): consistent forged session was not resumed (client err %v, server err %v)", id, o.cerr, o.serr)
		}
		if f.version != VersionTLS13 && o.offeredEMS != f.ems {
			st.Class("forged:ems-mismatch-not-resumed(expected)")
		}
		return
	}
	st.NonTrivial(fmt.Sprintf("fg:%s:%x", id, f.secret[:6]))
	if o.echoErr != nil {
		st.Violation(t, "forged session (%s): resumed but application data does not flow: %v", id, o.echoErr)
	}
	if o.ccs.Version != f.version || o.scs.Version != f.version {
		st.Violation(t, "forged session (%s): resumed at version %#04x/%#04x", id, o.ccs.Version, o.scs.Version)
	}
	if o.ccs.CipherSuite != o.scs.CipherSuite {
		st.Violation(t, "forged session (%s): client suite %#04x, server suite %#04x", id, o.ccs.CipherSuite, o.scs.CipherSuite)
	}
	if f.version != VersionTLS13 {
		if o.ccs.CipherSuite != f.suite {
			st.Violation(t, "forged session (%s): resumed with suite %#04x", id, o.ccs.CipherSuite)
		}
	} else {
		// TLS 1.3: the PSK is bound to the hash, the server keeps its own suite preference
		a, b := cipherSuiteTLS13ByID(o.ccs.CipherSuite), cipherSuiteTLS13ByID(f.suite)
		if a == nil || b == nil || a.hash != b.hash {
			st.Violation(t, "forged session (%s): resumed with suite %#04x whose hash differs from the PSK's suite", id, o.ccs.CipherSuite)
		}
		if o.ccs.CipherSuite != f.suite {
			st.Class("forged:tls1.3-negotiated-suite-differs(same hash, allowed)")
		}
	}
	// exporter: equal on both sides; for TLS <= 1.2 recomputed from the supplied master secret
	ctx := []byte("vf35 context")
	ce, cerr := o.ccs.ExportKeyingMaterial("EXPERIMENTAL vf35", ctx, 32)
	se, serr := o.scs.ExportKeyingMaterial("EXPERIMENTAL vf35", ctx, 32)
	if cerr == nil && serr == nil && !bytes.Equal(ce, se) {
		st.Violation(t, "forged session (%s): exporters differ", id)
	}
	if cerr != nil && serr != nil {
		st.Class("forged:no-exporter(no EMS)")
	} else if cerr != nil {
		st.Class("forged:no-client-exporter(parrot enables renegotiation)")
	}
	if f.version != VersionTLS13 && (cerr == nil || serr == nil) {
		if len(o.clientRandom) != 32 || len(o.serverRandom) != 32 {
			st.Violation(t, "forged session (%s): harness could not read the hello randoms", id)
		}
		seed := append(append([]byte(nil), o.clientRandom...), o.serverRandom...)
		seed = binary.BigEndian.AppendUint16(seed, uint16(len(ctx)))
		seed = append(seed, ctx...)
		want := vf35PRF(f.version, f.sha384, f.secret, "EXPERIMENTAL vf35", seed, 32)
		st.Class("forged:exporter-recomputed-from-supplied-master-secret")
		if cerr == nil && !bytes.Equal(ce, want) {
			st.Violation(t, "forged session (%s): client exporter %x is not PRF(supplied master secret) = %x", id, ce, want)
		}
		if serr == nil && !bytes.Equal(se, want) {
			st.Violation(t, "forged session (%s): server exporter %x is not PRF(supplied master secret) = %x", id, se, want)
		}
	}
	st.Sample(map[string]any{"forged": id, "resumed": true, "negotiated_suite": fmt.Sprintf("%#04x", o.ccs.CipherSuite)})
}

func vf35GenForge(rt *rapid.T) vf35Forge {
	f := vf35Forge{rseed: rapid.Uint64().Draw(rt, "rand"), refSeal: rapid.Bool().Draw(rt, "refSeal")}
	f.key = vf35GenKey(rt, "ticketKey")
	switch rapid.IntRange(0, 5).Draw(rt, "vers") {
	case 0:
		f.version = VersionTLS13
	case 1:
		f.version = rapid.SampledFrom([]uint16{VersionTLS10, VersionTLS11}).Draw(rt, "legacy")
	default:
		f.version = VersionTLS12
	}
	if f.version == VersionTLS13 {
		s := rapid.SampledFrom([]uint16{TLS_AES_128_GCM_SHA256, TLS_CHACHA20_POLY1305_SHA256}).Draw(rt, "suite13")
		f.suite = s
		f.secret = vf35GenBytes(rt, "psk", 32, 32)
		f.keyType = rapid.SampledFrom([]string{"ecdsa", "rsa", "ed25519"}).Draw(rt, "keyType")
		f.client = vf35Client{"HelloGolang", HelloGolang, "cache"}
		f.sibling = rapid.IntRange(0, 2).Draw(rt, "sibling_state_rekeyed") == 0
		return f
	}
	var cands []vf35Suite
	for _, s := range vf35Suites12 {
		if f.version == VersionTLS12 || s.legacy {
			cands = append(cands, s)
		}
	}
	s := rapid.SampledFrom(cands).Draw(rt, "suite")
	f.suite, f.keyType, f.sha384 = s.id, s.keyType, s.sha384
	f.secret = vf35GenBytes(rt, "master", 48, 48)
	if f.version == VersionTLS12 {
		f.client = rapid.SampledFrom(vf35Clients12).Draw(rt, "client")
	} else {
		f.client = vf35Clients12[rapid.IntRange(0, 1).Draw(rt, "client")]
	}
	// all these clients offer extended_master_secret; a forged non-EMS session must then not be resumed
	f.ems = rapid.IntRange(0, 4).Draw(rt, "ems") != 0
	if rapid.IntRange(0, 4).Draw(rt, "ticket_other_suite") == 0 {
		// another suite of the same key type (so that the server can use it) for the state inside the ticket
		var others []uint16
		for _, x := range cands {
			if x.keyType == s.keyType && x.id != s.id {
				others = append(others, x.id)
			}
		}
		if len(others) > 0 {
			f.ticketSuite = rapid.SampledFrom(others).Draw(rt, "ticket_suite")
		}
	}
	f.sibling = rapid.IntRange(0, 2).Draw(rt, "sibling_state_rekeyed") == 0
	return f
}

func TestVerifC35ForgedResume(t *testing.T) {
	st := vfNewStats(t, "C35")
	// directed: one of each kind, always executed
	var key [32]byte
	copy(key[:], "vf35 directed ticket key 0123456")
	ms := bytes.Repeat([]byte{0x42}, 48)
	for _, f := range []vf35Forge{
		{version: VersionTLS12, suite: TLS_ECDHE_ECDSA_WITH_AES_128_GCM_SHA256, keyType: "ecdsa", secret: ms, ems: true, client: vf35Clients12[0], key: key, rseed: 1},
		{version: VersionTLS12, suite: TLS_ECDHE_ECDSA_WITH_AES_128_GCM_SHA256, keyType: "ecdsa", secret: append([]byte(nil), ms...), ems: true, client: vf35Clients12[0], key: key, rseed: 11, sibling: true},
		{version: VersionTLS13, suite: TLS_AES_128_GCM_SHA256, keyType: "ecdsa", secret: append([]byte(nil), ms[:32]...), client: vf35Clients12[0], key: key, rseed: 12, sibling: true},
		{version: VersionTLS12, suite: TLS_ECDHE_RSA_WITH_AES_256_GCM_SHA384, keyType: "rsa", sha384: true, secret: ms, ems: true, client: vf35Clients12[1], key: key, rseed: 2, refSeal: true},
		{version: VersionTLS12, suite: TLS_ECDHE_ECDSA_WITH_AES_128_GCM_SHA256, keyType: "ecdsa", secret: ms, ems: true, client: vf35Clients12[2], key: key, rseed: 3},
		{version: VersionTLS12, suite: TLS_ECDHE_ECDSA_WITH_AES_128_GCM_SHA256, keyType: "ecdsa", secret: ms, ems: false, client: vf35Clients12[0], key: key, rseed: 4},
		{version: VersionTLS10, suite: TLS_ECDHE_ECDSA_WITH_AES_128_CBC_SHA, keyType: "ecdsa", secret: ms, ems: true, client: vf35Clients12[0], key: key, rseed: 5},
		{version: VersionTLS11, suite: TLS_ECDHE_RSA_WITH_AES_256_CBC_SHA, keyType: "rsa", secret: ms, ems: true, client: vf35Clients12[0], key: key, rseed: 6, refSeal: true},
		{version: VersionTLS12, suite: TLS_ECDHE_RSA_WITH_AES_128_GCM_SHA256, ticketSuite: TLS_ECDHE_RSA_WITH_AES_256_GCM_SHA384, keyType: "rsa", secret: ms, ems: true, client: vf35Clients12[0], key: key, rseed: 9},
		{version: VersionTLS12, suite: TLS_ECDHE_ECDSA_WITH_AES_128_GCM_SHA256, ticketSuite: TLS_ECDHE_ECDSA_WITH_CHACHA20_POLY1305_SHA256, keyType: "ecdsa", secret: ms, ems: true, client: vf35Clients12[2], key: key, rseed: 10},
		{version: VersionTLS13, suite: TLS_AES_128_GCM_SHA256, keyType: "ecdsa", secret: ms[:32], client: vf35Clients12[0], key: key, rseed: 7},
		{version: VersionTLS13, suite: TLS_CHACHA20_POLY1305_SHA256, keyType: "ecdsa", secret: ms[:32], client: vf35Clients12[0], key: key, rseed: 8, refSeal: true},
	} {
		vf35JudgeForged(st, t, f)
	}
	rapid.Check(t, func(rt *rapid.T) {
		vf35JudgeForged(st, rt, vf35GenForge(rt))
	})
}
