//go:build verif

package tls

// C28 - UConn.GetOutKeystream returns the keystream of the next record and has no side effect.
//
// Oracles:
//   * wire: the recorder of the client's pipe end gives the bytes of the next application-data record;
//     ks[i] ^ plaintext[i] == ciphertext[i] for i < min(n, payload length of that record), where the ciphertext
//     starts after the explicit nonce (8 bytes for AES-GCM in TLS 1.2 - table below written from RFC 5288/7905/8446,
//     not taken from the library);
//   * peer: the server reads exactly the plaintext that was written after the call;
//   * twin (metamorphic): a second session built from the same deterministic Config.Rand streams and the same
//     inputs that never calls GetOutKeystream writes byte-identical records after the call point.
//     Determinism of the twin is checked first (bytes before the call point must be identical); parrots that use
//     crypto/rand (GREASE, shuffling) have no twin and are judged by the first two oracles only.

import (
	"bytes"
	"fmt"
	"io"
	"sync/atomic"
	"testing"
	"time"

	"pgregory.net/rapid"
)

// vf28Rand is a deterministic Config.Rand. crypto/* calls randutil.MaybeReadByte on caller supplied readers,
// which consumes one byte with probability 1/2; answering 1-byte reads with a constant (non-zero: RSA PKCS#1
// padding re-draws zero bytes one at a time) without advancing the stream keeps the stream reproducible.
type vf28Rand struct{ inner *vfDetRand }

func (r *vf28Rand) Read(p []byte) (int, error) {
	if len(p) == 1 {
		p[0] = 0x5a
		return 1, nil
	}
	return r.inner.Read(p)
}

func vf28NewRand(seed uint64, label string) io.Reader {
	return &vf28Rand{inner: vfNewDetRand(seed, label)}
}

type vf28Suite struct {
	id       uint16
	vers     uint16
	explicit int    // explicit nonce bytes in front of the ciphertext
	keyType  string // certificate key type the server needs
	name     string
}

var vf28Suites = []vf28Suite{
	{TLS_ECDHE_RSA_WITH_AES_128_GCM_SHA256, VersionTLS12, 8, "rsa", "ecdhe-rsa-aes128gcm"},
	{TLS_ECDHE_RSA_WITH_AES_256_GCM_SHA384, VersionTLS12, 8, "rsa", "ecdhe-rsa-aes256gcm"},
	{TLS_ECDHE_ECDSA_WITH_AES_128_GCM_SHA256, VersionTLS12, 8, "ed25519", "ecdhe-ecdsa-aes128gcm"},
	{TLS_ECDHE_ECDSA_WITH_AES_256_GCM_SHA384, VersionTLS12, 8, "ed25519", "ecdhe-ecdsa-aes256gcm"},
	{TLS_RSA_WITH_AES_128_GCM_SHA256, VersionTLS12, 8, "rsa", "rsa-aes128gcm"},
	{TLS_RSA_WITH_AES_256_GCM_SHA384, VersionTLS12, 8, "rsa", "rsa-aes256gcm"},
	{TLS_ECDHE_RSA_WITH_CHACHA20_POLY1305_SHA256, VersionTLS12, 0, "rsa", "ecdhe-rsa-chacha"},
	{TLS_ECDHE_ECDSA_WITH_CHACHA20_POLY1305_SHA256, VersionTLS12, 0, "ed25519", "ecdhe-ecdsa-chacha"},
	{TLS_AES_128_GCM_SHA256, VersionTLS13, 0, "ed25519", "tls13-aes128gcm"},
	{TLS_AES_256_GCM_SHA384, VersionTLS13, 0, "ed25519", "tls13-aes256gcm"},
	{TLS_CHACHA20_POLY1305_SHA256, VersionTLS13, 0, "ed25519", "tls13-chacha"},
}

func vf28ExplicitNonce(id, vers uint16) int {
	if vers == VersionTLS13 {
		return 0
	}
	switch id {
	case 0xc02f, 0xc030, 0xc02b, 0xc02c, 0x009c, 0x009d:
		return 8
	}
	return 0
}

func vf28Spec(s vf28Suite) *ClientHelloSpec {
	exts := []TLSExtension{
		&SNIExtension{},
		&SupportedCurvesExtension{Curves: []CurveID{X25519, CurveP256}},
		&SupportedPointsExtension{SupportedPoints: []uint8{0}},
		// deterministic signature schemes only (Ed25519, RSA PKCS#1 v1.5) so that the twin is reproducible
		&SignatureAlgorithmsExtension{SupportedSignatureAlgorithms: []SignatureScheme{Ed25519, PKCS1WithSHA256, PSSWithSHA256}},
		&RenegotiationInfoExtension{Renegotiation: RenegotiateOnceAsClient},
		&ExtendedMasterSecretExtension{},
	}
	if s.vers == VersionTLS13 {
		exts = append(exts,
			&KeyShareExtension{KeyShares: []KeyShare{{Group: X25519}}},
			&PSKKeyExchangeModesExtension{Modes: []uint8{PskModeDHE}},
			&SupportedVersionsExtension{Versions: []uint16{VersionTLS13}},
		)
	}
	min := s.vers
	if s.vers == VersionTLS13 {
		min = VersionTLS12
	}
	return &ClientHelloSpec{TLSVersMin: min, TLSVersMax: s.vers, CipherSuites: []uint16{s.id}, CompressionMethods: []uint8{0}, Extensions: exts}
}

type vf28PreOp struct {
	KeyUpdate bool // TLS 1.3 only: client-initiated key update
	Request   bool // update_requested
	Size      int  // else: a client->server message of this size
	UntilSeq  int  // else (> 0): 1-byte messages until the client's write sequence number is this value
}

type vf28Case struct {
	Suite      vf28Suite
	ClientKind string // custom, golang, parrot name
	Parrot     ClientHelloID
	Seed       uint64
	NoDynamic  bool // DynamicRecordSizingDisabled
	Pre        []vf28PreOp
	Ns         []int // lengths passed to GetOutKeystream, first one is judged against the wire
	Post       []int // sizes of the messages written after the call; first one is the judged plaintext
	// EmptyWrite: a Write of zero bytes between the GetOutKeystream calls and the first write that carries data
	EmptyWrite bool
}

type vf28Run struct {
	hang      bool
	pre, post []byte // client wire bytes before / after the call point
	ks        [][]byte
	ksErr     []error
	postPlain [][]byte
	vers      uint16
	suite     uint16
	err       error
}

// vf28ClientKeyUpdate sends a KeyUpdate from c and advances its sending keys (what Conn does itself only in
// response to a peer's request; the library has no public API to initiate one).
func vf28ClientKeyUpdate(c *Conn, request bool) error {
	c.out.Lock()
	defer c.out.Unlock()
	suite := cipherSuiteTLS13ByID(c.cipherSuite)
	if suite == nil {
		return fmt.Errorf("no TLS 1.3 suite %#04x", c.cipherSuite)
	}
	msg := &keyUpdateMsg{updateRequested: request}
	b, err := msg.marshal()
	if err != nil {
		return err
	}
	if _, err := c.writeRecordLocked(recordTypeHandshake, b); err != nil {
		return err
	}
	c.out.setTrafficSecret(suite, QUICEncryptionLevelInitial, suite.nextTrafficSecret(c.out.trafficSecret))
	return nil
}

func vf28ReadN(r io.Reader, n int) ([]byte, error) {
	buf := make([]byte, n)
	_, err := io.ReadFull(r, buf)
	return buf, err
}

// vf28Execute runs the case; callKS=false is the twin. A run that does not come back (a call blocked on something
// no I/O deadline can break, e.g. a mutex left locked) is reported as a failed run, attributed to the stage it reached.
func vf28Execute(c *vf28Case, callKS bool) *vf28Run {
	var stage atomic.Int32
	done := make(chan *vf28Run, 1)
	go func() { done <- vf28ExecuteInner(c, callKS, &stage) }()
	select {
	case r := <-done:
		return r
	case <-time.After(vfIOTimeout + 15*time.Second):
		r := &vf28Run{hang: true, err: fmt.Errorf("a call on the connection did not return within %v (blocked %s)", vfIOTimeout+15*time.Second,
			map[int32]string{0: "before the GetOutKeystream calls", 1: "in GetOutKeystream", 2: "in the writes after GetOutKeystream"}[stage.Load()])}
		if stage.Load() >= 1 {
			r.ks = [][]byte{} // reached the call point
		}
		return r
	}
}

func vf28ExecuteInner(c *vf28Case, callKS bool, stage *atomic.Int32) (res *vf28Run) {
	res = &vf28Run{}
	scfg := vfServerConfig(c.Suite.keyType, "example.test")
	scfg.MinVersion, scfg.MaxVersion = c.Suite.vers, c.Suite.vers
	if c.Suite.vers != VersionTLS13 {
		scfg.CipherSuites = []uint16{c.Suite.id}
	}
	scfg.SessionTicketsDisabled = true
	scfg.Rand = vf28NewRand(c.Seed, "c28-server")
	ccfg := vfClientConfig("example.test")
	ccfg.Rand = vf28NewRand(c.Seed, "c28-client")
	ccfg.DynamicRecordSizingDisabled = c.NoDynamic
	ccfg.MinVersion, ccfg.MaxVersion = VersionTLS12, c.Suite.vers
	var p *vfPair
	switch c.ClientKind {
	case "custom":
		p = vfNewPair(ccfg, HelloCustom, scfg)
		if err := p.Cli.ApplyPreset(vf28Spec(c.Suite)); err != nil {
			res.err = fmt.Errorf("ApplyPreset: %w", err)
			return
		}
	case "golang":
		if c.Suite.vers != VersionTLS13 {
			ccfg.CipherSuites = []uint16{c.Suite.id}
		}
		p = vfNewPair(ccfg, HelloGolang, scfg)
	default:
		// browsers do not offer Ed25519: give the server an ECDSA leaf instead
		if c.Suite.keyType == "ed25519" {
			scfg.Certificates = []Certificate{*vfLeaf(vfLeafSpec{KeyType: "ecdsa", Names: []string{"example.test"}})}
		}
		ccfg.OmitEmptyPsk = true
		p = vfNewPair(ccfg, c.Parrot, scfg)
	}
	defer p.Close()
	if cerr, serr := p.Handshake(); cerr != nil || serr != nil {
		res.err = fmt.Errorf("handshake: client=%v server=%v", cerr, serr)
		return
	}
	cs := p.Cli.ConnectionState()
	res.vers, res.suite = cs.Version, cs.CipherSuite
	dl := time.Now().Add(vfIOTimeout)
	p.CP.SetDeadline(dl)
	p.SP.SetDeadline(dl)
	data := vfNewDetRand(c.Seed, "c28-data")
	send := func(size int) ([]byte, error) {
		msg := make([]byte, size)
		data.Read(msg)
		if n, err := p.Cli.Write(msg); err != nil || n != size {
			return msg, fmt.Errorf("client write %d: n=%d err=%v", size, n, err)
		}
		got, err := vf28ReadN(p.Srv, size)
		if err != nil {
			return msg, fmt.Errorf("server read of %d bytes: %w", size, err)
		}
		if !bytes.Equal(got, msg) {
			return msg, fmt.Errorf("server read %s, client wrote %s", vfHex(got), vfHex(msg))
		}
		return msg, nil
	}
	for _, op := range c.Pre {
		if op.KeyUpdate {
			if res.vers == VersionTLS13 {
				if err := vf28ClientKeyUpdate(p.Cli.Conn, op.Request); err != nil {
					res.err = fmt.Errorf("key update: %w", err)
					return
				}
			}
			continue
		}
		if op.UntilSeq > 0 {
			seq := func() uint64 {
				var v uint64
				for _, b := range p.Cli.out.seq {
					v = v<<8 | uint64(b)
				}
				return v
			}
			for seq() < uint64(op.UntilSeq) {
				if _, err := send(1); err != nil {
					res.err = fmt.Errorf("pre: %w", err)
					return
				}
			}
			continue
		}
		if _, err := send(op.Size); err != nil {
			res.err = fmt.Errorf("pre: %w", err)
			return
		}
	}
	stage.Store(1)
	if callKS {
		for _, n := range c.Ns {
			ks, err := p.Cli.GetOutKeystream(n)
			res.ks = append(res.ks, ks)
			res.ksErr = append(res.ksErr, err)
		}
	}
	stage.Store(2)
	res.pre = p.CP.Written()
	if c.EmptyWrite {
		// a zero-length Write sends nothing: the record predicted by GetOutKeystream is still the next one
		if n, err := p.Cli.Write(nil); err != nil || n != 0 {
			res.err = fmt.Errorf("post: zero-length Write returned (%d, %v)", n, err)
			return
		}
	}
	for _, size := range c.Post {
		msg, err := send(size)
		res.postPlain = append(res.postPlain, msg)
		if err != nil {
			res.post = p.CP.Written()[len(res.pre):]
			res.err = fmt.Errorf("post: %w", err)
			return
		}
	}
	res.post = p.CP.Written()[len(res.pre):]
	return
}

var vf28Ns = []int{0, 1, 15, 16, 17, 63, 64, 65, 1 << 14, 1<<14 + 1}
var vf28Parrots = []vfParrot{{"HelloChrome_120", HelloChrome_120}, {"HelloFirefox_120", HelloFirefox_120}, {"HelloIOS_14", HelloIOS_14},
	{"HelloChrome_133", HelloChrome_133}, {"HelloChrome_100_PSK", HelloChrome_100_PSK}}

func vf28GenN(rt *rapid.T, label string) int {
	if rapid.IntRange(0, 2).Draw(rt, label+"_kind") == 0 {
		return rapid.IntRange(0, 20000).Draw(rt, label)
	}
	return vf28Ns[rapid.IntRange(0, len(vf28Ns)-1).Draw(rt, label+"_idx")]
}

func vf28GenCase(rt *rapid.T) *vf28Case {
	c := &vf28Case{}
	c.Suite = vf28Suites[rapid.IntRange(0, len(vf28Suites)-1).Draw(rt, "suite")]
	switch k := rapid.IntRange(0, 9).Draw(rt, "clientkind"); {
	case k <= 5:
		c.ClientKind = "custom"
	case k <= 7:
		c.ClientKind = "golang"
	default:
		pr := vf28Parrots[rapid.IntRange(0, len(vf28Parrots)-1).Draw(rt, "parrot")]
		c.ClientKind, c.Parrot = pr.Name, pr.ID
	}
	c.Seed = rapid.Uint64().Draw(rt, "seed")
	c.NoDynamic = rapid.Bool().Draw(rt, "nodynamic")
	c.EmptyWrite = rapid.IntRange(0, 3).Draw(rt, "empty_write_first") == 0
	npre := rapid.IntRange(0, 5).Draw(rt, "npre")
	for i := 0; i < npre; i++ {
		var op vf28PreOp
		if c.Suite.vers == VersionTLS13 && rapid.IntRange(0, 3).Draw(rt, "ku") == 0 {
			op.KeyUpdate = true
			op.Request = rapid.Bool().Draw(rt, "kureq")
		} else {
			op.Size = []int{1, 2, 100, 1300, 5000, 1 << 14, 1<<14 + 1, 40000}[rapid.IntRange(0, 7).Draw(rt, "presize")]
		}
		c.Pre = append(c.Pre, op)
	}
	// sequence positions around the carries of the 64-bit record sequence number (it is part of the nonce)
	switch k := rapid.IntRange(0, 11).Draw(rt, "seqpos"); {
	case k <= 3:
		c.Pre = append(c.Pre, vf28PreOp{UntilSeq: []int{254, 255, 256, 511}[k]})
	case k == 4 && rapid.IntRange(0, 7).Draw(rt, "seqpos_far") == 0:
		c.Pre = append(c.Pre, vf28PreOp{UntilSeq: 65535})
	}
	c.Ns = []int{vf28GenN(rt, "n")}
	if rapid.IntRange(0, 2).Draw(rt, "extracalls") == 0 {
		c.Ns = append(c.Ns, vf28GenN(rt, "n2"))
	}
	// the judged plaintext: around n so that both "record shorter than n" and "longer than n" occur
	n := c.Ns[0]
	var m int
	switch rapid.IntRange(0, 4).Draw(rt, "mkind") {
	case 0:
		m = n
	case 1:
		m = n + rapid.IntRange(1, 40).Draw(rt, "mplus")
	case 2:
		m = n - rapid.IntRange(0, 40).Draw(rt, "mminus")
	case 3:
		m = rapid.IntRange(1, 20000).Draw(rt, "m")
	default:
		m = []int{1, 16, 1 << 14, 1<<14 + 1, 1 << 15}[rapid.IntRange(0, 4).Draw(rt, "midx")]
	}
	if m < 1 {
		m = 1
	}
	c.Post = []int{m}
	for i, k := 0, rapid.IntRange(0, 2).Draw(rt, "npost"); i < k; i++ {
		c.Post = append(c.Post, []int{1, 100, 1300, 1 << 14, 20000}[rapid.IntRange(0, 4).Draw(rt, "postsize")])
	}
	return c
}

func vf28Describe(c *vf28Case) map[string]any {
	pre := ""
	for _, op := range c.Pre {
		if op.KeyUpdate {
			pre += fmt.Sprintf("KU(%v) ", op.Request)
		} else if op.UntilSeq > 0 {
			pre += fmt.Sprintf("until-seq=%d ", op.UntilSeq)
		} else {
			pre += fmt.Sprintf("%d ", op.Size)
		}
	}
	return map[string]any{"suite": c.Suite.name, "client": c.ClientKind, "seed": c.Seed, "no_dynamic_sizing": c.NoDynamic, "empty_write_first": c.EmptyWrite,
		"pre": pre, "n": c.Ns, "post": c.Post}
}

func vf28Check(st *vfStats, t vfFataler, c *vf28Case) {
	desc := fmt.Sprintf("%v", vf28Describe(c))
	st.Eval()
	prim := vf28Execute(c, true)
	if prim.hang {
		st.Violation(t, "%s: session with GetOutKeystream%v: %v", desc, c.Ns, prim.err)
	}
	if prim.err != nil && prim.ks == nil {
		// failed before the call point: the scaffolding (handshake / plain transfer) is not C28's subject, but a
		// failure here means the case tested nothing; it must not happen on a healthy tree.
		st.Violation(t, "%s: setup failed before the call: %v", desc, prim.err)
	}
	if c.ClientKind == "custom" || (c.ClientKind == "golang" && c.Suite.vers != VersionTLS13) {
		if prim.suite != c.Suite.id || prim.vers != c.Suite.vers {
			st.Violation(t, "%s: setup negotiated %#04x/%#04x", desc, prim.suite, prim.vers)
		}
	}
	explicit := vf28ExplicitNonce(prim.suite, prim.vers)
	posClass := "pos=fresh"
	nku := 0
	for _, op := range c.Pre {
		if op.KeyUpdate && prim.vers == VersionTLS13 {
			nku++
		}
	}
	if nku > 0 {
		posClass = "pos=after-keyupdate"
	} else if len(c.Pre) > 0 {
		posClass = "pos=after-records"
	}
	st.Class(posClass)
	for _, op := range c.Pre {
		if op.UntilSeq > 0 {
			st.Class(fmt.Sprintf("pos=write-seq-%d", op.UntilSeq))
		}
	}
	st.Class(fmt.Sprintf("suite=%#04x/%#04x", prim.suite, prim.vers))
	st.Class("client=" + map[bool]string{true: c.ClientKind, false: "parrot"}[c.ClientKind == "custom" || c.ClientKind == "golang"])
	for i, err := range prim.ksErr {
		if err != nil {
			st.Violation(t, "%s: GetOutKeystream(%d) on an AEAD connection returned error %v", desc, c.Ns[i], err)
		}
		if len(prim.ks[i]) < c.Ns[i] {
			st.Violation(t, "%s: GetOutKeystream(%d) returned only %d bytes", desc, c.Ns[i], len(prim.ks[i]))
		}
	}
	// peer accepted everything after the call
	if prim.err != nil {
		st.Violation(t, "%s: after GetOutKeystream the session failed: %v", desc, prim.err)
	}
	// wire oracle
	recs, rest := vfSplitRecords(prim.post)
	if len(rest) != 0 || len(recs) == 0 {
		st.Violation(t, "%s: client wrote %d records + %d stray bytes after the call", desc, len(recs), len(rest))
	}
	r0 := recs[0]
	if r0.Type != 23 {
		st.Violation(t, "%s: next record has type %d, want application data", desc, r0.Type)
	}
	overhead := explicit + 16
	if prim.vers == VersionTLS13 {
		overhead++
	}
	payloadLen := len(r0.Body) - overhead
	if payloadLen < 1 || payloadLen > len(prim.postPlain[0]) {
		st.Violation(t, "%s: first record body %d bytes => payload %d (plaintext written %d)", desc, len(r0.Body), payloadLen, len(prim.postPlain[0]))
	}
	// Config.DynamicRecordSizingDisabled is documented as "the largest possible TLS record size is always used": the next
	// record then carries min(len(written), 2^14) plaintext bytes, so that n up to the record size can be compared
	if c.NoDynamic {
		wantPayload := len(prim.postPlain[0])
		if wantPayload > 1<<14 {
			wantPayload = 1 << 14
		}
		if payloadLen != wantPayload {
			st.Violation(t, "%s: with DynamicRecordSizingDisabled the record after the call carries %d plaintext bytes of a %d-byte write, want %d", desc, payloadLen, len(prim.postPlain[0]), wantPayload)
		}
	}
	n := c.Ns[0]
	cmp := n
	if payloadLen < cmp {
		cmp = payloadLen
	}
	ct := r0.Body[explicit:]
	ks := prim.ks[0]
	pt := prim.postPlain[0]
	for i := 0; i < cmp; i++ {
		if ks[i]^pt[i] != ct[i] {
			st.Violation(t, "%s: keystream mismatch at byte %d of %d compared (n=%d, record payload %d, explicit nonce %d): ks=%02x pt=%02x ct=%02x",
				desc, i, cmp, n, payloadLen, explicit, ks[i], pt[i], ct[i])
		}
	}
	switch {
	case cmp == 0:
		st.Class("compared=0")
	case n > payloadLen:
		st.Class("compared=whole-record(n>payload)")
	case n == payloadLen:
		st.Class("compared=n==payload")
	default:
		st.Class("compared=n<payload")
	}
	if cmp > 0 {
		st.NonTrivial(fmt.Sprintf("%04x|%04x|%s|%d|%v|%d|%d|%d", prim.suite, prim.vers, c.ClientKind, c.Seed, c.Pre, n, len(pt), len(c.Post)))
	}
	st.Sample(vf28Describe(c))

	// twin
	if c.ClientKind != "custom" && c.ClientKind != "golang" {
		st.Class("twin=none(parrot)")
		return
	}
	twin := vf28Execute(c, false)
	if twin.err != nil {
		st.Violation(t, "%s: twin session failed: %v", desc, twin.err)
	}
	if !bytes.Equal(twin.pre, prim.pre) {
		// the harness could not reproduce the session: no verdict from the twin
		st.Class("twin=indeterminate")
		return
	}
	st.Class("twin=compared")
	if !bytes.Equal(twin.post, prim.post) {
		i := 0
		for i < len(twin.post) && i < len(prim.post) && twin.post[i] == prim.post[i] {
			i++
		}
		st.Violation(t, "%s: after GetOutKeystream the connection wrote different bytes than its twin that never called it: first difference at offset %d (lens %d vs %d)",
			desc, i, len(prim.post), len(twin.post))
	}
}

func TestVerifC28Keystream(t *testing.T) {
	st := vfNewStats(t, "C28")
	rapid.Check(t, func(rt *rapid.T) {
		vf28Check(st, rt, vf28GenCase(rt))
	})
}

// TestVerifC28Sweep: every suite x fixed lengths x three positions, deterministically.
func TestVerifC28Sweep(t *testing.T) {
	st := vfNewStats(t, "C28")
	for _, s := range vf28Suites {
		for pi, pre := range [][]vf28PreOp{nil, {{Size: 100}, {Size: 1300}, {Size: 5000}}, {{Size: 7}, {KeyUpdate: true}, {Size: 9}}} {
			if pi == 2 && s.vers != VersionTLS13 {
				continue
			}
			for ni, n := range []int{0, 1, 16, 17, 1 << 14} {
				c := &vf28Case{Suite: s, ClientKind: "custom", Seed: uint64(ni*100 + pi), NoDynamic: ni%2 == 0, Pre: pre, Ns: []int{n}, Post: []int{n + 3, 50}}
				vf28Check(st, t, c)
			}
		}
	}
}
