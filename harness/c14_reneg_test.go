//go:build verif

package tls

// C14 (extension): the server's certificate in a RENEGOTIATION. A TLS 1.2 server completes a first handshake with a
// chain that verifies, asks for a renegotiation (HelloRequest) and presents another leaf in the second handshake - same
// key (so that its ServerKeyExchange signature still checks out), but for another name, expired, or from an untrusted
// root. The second handshake runs without certificate verification of its own, on the strength of "the identity is
// unchanged": a changed leaf must make the client fail, and PeerCertificates must keep naming the verified leaf.
// Control: the same leaf again renegotiates fine.

import (
	"bytes"
	"context"
	"fmt"
	"testing"
	"time"

	"pgregory.net/rapid"
)

func TestVerifC14RenegotiationLeaf(t *testing.T) {
	st := vfNewStats(t, "C14")
	rapid.Check(t, func(rt *rapid.T) {
		// upstream's server (used here as the renegotiating peer) refuses a ClientHello that carries renegotiation_info
		// verify data, so the hello under test is a TLS 1.2 spec without that extension (plus the drawn parrots and
		// HelloGolang, which decline or are refused: they exercise the error paths)
		var src vfClientSrc
		switch rapid.IntRange(0, 5).Draw(rt, "source") {
		case 0:
			src = vfClientSrc{Kind: "golang", Name: "HelloGolang", ID: HelloGolang}
		case 1:
			p := vfGenParrot(rt, "parrot")
			src = vfClientSrc{Kind: "parrot", Name: p.Name, ID: p.ID}
		default:
			suite := rapid.SampledFrom([]uint16{TLS_ECDHE_RSA_WITH_AES_128_GCM_SHA256, TLS_ECDHE_RSA_WITH_CHACHA20_POLY1305_SHA256, TLS_ECDHE_RSA_WITH_AES_128_CBC_SHA}).Draw(rt, "suite")
			ems := rapid.Bool().Draw(rt, "ems")
			src = vfClientSrc{Kind: "custom", Name: fmt.Sprintf("tls12-no-renegotiation_info(%04x,ems=%v)", suite, ems), ID: HelloCustom, SpecFn: func() *ClientHelloSpec {
				exts := []TLSExtension{&SNIExtension{}, &SupportedCurvesExtension{Curves: []CurveID{X25519, CurveP256}}, &SupportedPointsExtension{SupportedPoints: []byte{0}},
					&SignatureAlgorithmsExtension{SupportedSignatureAlgorithms: []SignatureScheme{PSSWithSHA256, PKCS1WithSHA256, ECDSAWithP256AndSHA256}}}
				if ems {
					exts = append(exts, &ExtendedMasterSecretExtension{})
				}
				return &ClientHelloSpec{TLSVersMin: VersionTLS12, TLSVersMax: VersionTLS12, CipherSuites: []uint16{suite}, CompressionMethods: []uint8{0}, Extensions: exts}
			}}
		}
		second := rapid.SampledFrom([]string{"same-leaf", "other-name", "other-name", "expired", "untrusted-root"}).Draw(rt, "second_leaf")
		name := "reneg.c14.test"
		st.Eval()
		prep, err := vfPrepareClient(src, name, rapid.Uint64().Draw(rt, "seed"), func(c *Config) {
			c.Renegotiation = RenegotiateFreelyAsClient
			c.MaxVersion = VersionTLS12
		})
		if err != nil {
			st.Class("reneg-leaf:client-not-buildable")
			return
		}
		defer prep.CP.Close()
		o := prep.Offer
		rsaOK := false
		for _, k := range vfCertKeysFor(o, VersionTLS12, "") {
			rsaOK = rsaOK || k == "rsa"
		}
		if !o.HasVersion(VersionTLS12) || !rsaOK {
			st.Class("reneg-leaf:no-tls12-or-no-rsa")
			return
		}
		leafA := vfLeaf(vfLeafSpec{KeyType: "rsa", Names: []string{name}})
		var leafB *Certificate
		switch second {
		case "same-leaf":
			leafB = leafA
		case "other-name":
			leafB = vfLeaf(vfLeafSpec{KeyType: "rsa", Names: []string{"evil.c14.test"}})
		case "expired":
			leafB = vfLeaf(vfLeafSpec{KeyType: "rsa", Names: []string{name}, NotBefore: vfNow().Add(-48 * time.Hour), NotAfter: vfNow().Add(-24 * time.Hour)})
		default:
			leafB = vfLeaf(vfLeafSpec{KeyType: "rsa", Names: []string{name}, CA: "other"})
		}
		mk := func(l *Certificate) *Config {
			return &Config{MinVersion: VersionTLS12, MaxVersion: VersionTLS12, Time: vfNow, Certificates: []Certificate{*l},
				CipherSuites: []uint16{TLS_ECDHE_RSA_WITH_AES_128_GCM_SHA256, TLS_ECDHE_RSA_WITH_AES_256_GCM_SHA384, TLS_ECDHE_RSA_WITH_CHACHA20_POLY1305_SHA256, TLS_ECDHE_RSA_WITH_AES_128_CBC_SHA, TLS_ECDHE_RSA_WITH_AES_256_CBC_SHA}}
		}
		srv := Server(prep.SP, mk(leafA))
		pair := &vfPair{CP: prep.CP, SP: prep.SP, Cli: prep.UC, Srv: srv}
		if cerr, serr := pair.Handshake(); cerr != nil || serr != nil {
			st.Class("reneg-leaf:first-handshake-failed")
			return
		}
		if err := pair.Echo([]byte("a"), []byte("b")); err != nil {
			st.Class("reneg-leaf:first-echo-failed")
			return
		}
		dl := time.Now().Add(vfIOTimeout)
		prep.CP.SetDeadline(dl)
		prep.SP.SetDeadline(dl)
		// a client that declines (no_renegotiation is only a warning) leaves both ends waiting for the other: end the case
		// as soon as nothing can happen any more instead of waiting for the deadline
		vfPipeQuiescent(prep.CP, prep.SP, func() { prep.SP.Close() })
		sdone := make(chan error, 1)
		go func() {
			srv.out.Lock()
			_, werr := srv.writeRecordLocked(recordTypeHandshake, []byte{typeHelloRequest, 0, 0, 0})
			srv.out.Unlock()
			if werr != nil {
				sdone <- werr
				return
			}
			srv.config = mk(leafB)
			srv.isHandshakeComplete.Store(false)
			herr := srv.serverHandshake(context.Background())
			if herr == nil {
				_, herr = srv.Write([]byte("after"))
			}
			sdone <- herr
		}()
		buf := make([]byte, 16)
		var n int
		var rerr error
		if pan := vfCatch(func() { n, rerr = prep.UC.Read(buf) }); pan != nil {
			st.Violation(rt, "%s: Read panicked during the renegotiation: %v", src, pan.Val)
		}
		cs := prep.UC.ConnectionState()
		prep.CP.Close() // the client is done: a server still waiting for it sees the end of the stream
		var serr2 error
		select {
		case serr2 = <-sdone:
		case <-time.After(vfIOTimeout + 10*time.Second):
			st.Violation(rt, "%s: server side of the renegotiation did not return", src)
		}
		desc := fmt.Sprintf("%s (renegotiation allowed): second handshake presents %s with the same key", src, second)
		renegotiated := rerr == nil && serr2 == nil && string(buf[:n]) == "after"
		st.Class(fmt.Sprintf("reneg-leaf:%s:renegotiated=%v", second, renegotiated))
		if second == "same-leaf" {
			if !renegotiated {
				st.Class("reneg-leaf:control-did-not-renegotiate: " + fmt.Sprint(rerr))
			}
			return
		}
		if renegotiated {
			st.Violation(rt, "%s: the renegotiation SUCCEEDED (client read %q) although the leaf changed", desc, buf[:n])
		}
		if len(cs.PeerCertificates) == 0 || !bytes.Equal(cs.PeerCertificates[0].Raw, leafA.Certificate[0]) {
			st.Violation(rt, "%s: PeerCertificates[0] is no longer the verified leaf", desc)
		}
		st.NonTrivial(fmt.Sprintf("reneg-leaf|%s|%s", src.Name, second))
	})
}
