//go:build verif

package tls

// Generator of custom ClientHelloSpecs and of client Config variations (DESIGN.md 3.5 genCustomSpec/genConfig).
//
// Self-contained: depends only on common_* files. Used by C02 (validity), C01, C06 and meant for reuse.
//
//   spec, meta := vfGenCustomSpec(rt)            // a fresh spec + a description of it
//   spec2 := meta.Build()                        // another fresh, equal spec (extension objects are single-use:
//                                                // ApplyPreset mutates them in place)
//   cfg, cm := vfGenClientCfg(rt, "cfg")         // Config variation (SNI shapes, NextProtos, cache, OmitEmptyPsk, QUIC)
//   uc, err := vfNewCustomUConn(conn, cfg, cm, spec)   // UClient(HelloCustom)+ApplyPreset (QUIC-wrapped when cm.QUIC)
//
// Domain ("field values within their RFC limits"): every vector respects the bounds of its RFC grammar
// (cipher_suites<2..2^16-2>, compression<1..255>, named_group_list<2..>, ec_point_format_list<1..255>,
// signature schemes<2..>, ProtocolName<1..255>, protocol_name_list non-empty, compress_certificate<2..254>,
// supported_versions<2..254>, ke_modes<1..255>, cookie<1..>, key_exchange<1..>, at most one share per group,
// binders 32|48 bytes with |binders| = |identities|, PskIdentity<1..>, ECH kdf/aead from the registered ids,
// every single extension body <= 65535). The *sum* of the extensions is not bounded by the generator: the
// "large" class deliberately pushes the extensions block around 2^16, where the spec becomes unencodable.

import (
	"fmt"
	"net"
	"sort"
	"strings"

	"pgregory.net/rapid"
)

// ---- description of a generated spec ----

type vfSpecItem struct {
	Kind string // stable name of the extension kind (e.g. "alpn", "grease", "generic:1234")
	Desc string
	mk   func() TLSExtension
	// wire length of the extension (4-byte header included) given the Config's server name; nil => not predictable
	wlen func(cfgSNI string) int
	// for the padding extension: wire length given the unpadded hello length (handshake header excluded)
	pad func(unpadded int) int
	// per-extension facts
	wireType    int  // extension type on the wire (-1 GREASE)
	hasWriter   bool // ExtensionFromID knows the type and it has a Write method (fingerprinter can represent it)
	jsonCapable bool
}

type vfSpecMeta struct {
	Mode             string // sane13 | sane12 | wild | large
	Items            []vfSpecItem
	Suites           []uint16
	Compression      []uint8
	TLSVersMin       uint16 // as put into the spec (0 = derive)
	TLSVersMax       uint16
	EffMin, EffMax   uint16 // effective range
	HandshakeCapable bool   // sane TLS >= 1.2 offer with key shares for groups utls implements
	HasSuppVersions  bool
	HasPSK           bool
	PSKKind          string // "", fake, fake-empty, real-empty
	NumGREASE        int
	Fingerprintable  bool // every extension type is known to ExtensionFromID with a Write method
	Boundaries       []string
	LargeTarget      int // intended extensions-block length for the large class (0 otherwise)
}

func (m *vfSpecMeta) Kinds() []string {
	out := make([]string, len(m.Items))
	for i, it := range m.Items {
		out[i] = it.Kind
	}
	return out
}

// TypeKey is the sorted multiset of extension kinds (for distinct-case accounting).
func (m *vfSpecMeta) TypeKey() string {
	k := m.Kinds()
	sort.Strings(k)
	return strings.Join(k, ",")
}

func (m *vfSpecMeta) Describe() map[string]any {
	d := make([]string, len(m.Items))
	for i, it := range m.Items {
		d[i] = it.Kind
		if it.Desc != "" {
			d[i] += "(" + it.Desc + ")"
		}
	}
	return map[string]any{"mode": m.Mode, "exts": d, "suites": len(m.Suites), "comp": len(m.Compression),
		"min": m.TLSVersMin, "max": m.TLSVersMax, "capable": m.HandshakeCapable, "boundaries": m.Boundaries}
}

// Build returns a fresh ClientHelloSpec equal to the generated one.
func (m *vfSpecMeta) Build() *ClientHelloSpec {
	s := &ClientHelloSpec{
		CipherSuites:       append([]uint16(nil), m.Suites...),
		CompressionMethods: append([]uint8(nil), m.Compression...),
		TLSVersMin:         m.TLSVersMin,
		TLSVersMax:         m.TLSVersMax,
	}
	if m.Compression == nil {
		s.CompressionMethods = nil
	}
	for _, it := range m.Items {
		s.Extensions = append(s.Extensions, it.mk())
	}
	return s
}

// RefLen is the generator's own model of the size of the hello the spec describes: extensions block
// length and total handshake-message length (4-byte header included). ok=false when some part is not
// predictable from the spec (random choice among ECH payload lengths, session material from a cache).
func (m *vfSpecMeta) RefLen(cfgSNI string, quic bool) (extBlock, total int, ok bool) {
	sid := 32
	if quic {
		sid = 0
	}
	comp := len(m.Compression)
	if comp == 0 {
		comp = 1
	}
	header := 2 + 32 + 1 + sid + 2 + 2*len(m.Suites) + 1 + comp
	ok = true
	var padItem *vfSpecItem
	for i := range m.Items {
		it := &m.Items[i]
		if it.pad != nil {
			padItem = it
			continue
		}
		if it.wlen == nil {
			ok = false
			continue
		}
		extBlock += it.wlen(cfgSNI)
	}
	if padItem != nil {
		extBlock += padItem.pad(header + 4 + extBlock + 2)
	}
	total = 4 + header
	if len(m.Items) > 0 {
		total += 2 + extBlock
	}
	return extBlock, total, ok
}

func (m *vfSpecMeta) boundary(b string) { m.Boundaries = append(m.Boundaries, b) }

// ---- value pools ----

var vfGsSuitesTLS13 = []uint16{TLS_AES_128_GCM_SHA256, TLS_AES_256_GCM_SHA384, TLS_CHACHA20_POLY1305_SHA256}

var vfGsSuitesLegacy = []uint16{
	TLS_ECDHE_ECDSA_WITH_AES_128_GCM_SHA256, TLS_ECDHE_RSA_WITH_AES_128_GCM_SHA256,
	TLS_ECDHE_ECDSA_WITH_AES_256_GCM_SHA384, TLS_ECDHE_RSA_WITH_AES_256_GCM_SHA384,
	TLS_ECDHE_ECDSA_WITH_CHACHA20_POLY1305_SHA256, TLS_ECDHE_RSA_WITH_CHACHA20_POLY1305_SHA256,
	TLS_ECDHE_RSA_WITH_AES_128_CBC_SHA, TLS_ECDHE_RSA_WITH_AES_256_CBC_SHA, TLS_ECDHE_ECDSA_WITH_AES_128_CBC_SHA,
	TLS_ECDHE_ECDSA_WITH_AES_256_CBC_SHA, TLS_RSA_WITH_AES_128_GCM_SHA256, TLS_RSA_WITH_AES_256_GCM_SHA384,
	TLS_RSA_WITH_AES_128_CBC_SHA, TLS_RSA_WITH_AES_256_CBC_SHA, TLS_RSA_WITH_3DES_EDE_CBC_SHA,
	TLS_ECDHE_RSA_WITH_3DES_EDE_CBC_SHA, TLS_RSA_WITH_RC4_128_SHA, TLS_ECDHE_ECDSA_WITH_RC4_128_SHA,
	TLS_ECDHE_RSA_WITH_RC4_128_SHA, TLS_RSA_WITH_AES_128_CBC_SHA256, TLS_ECDHE_ECDSA_WITH_AES_128_CBC_SHA256,
	TLS_ECDHE_RSA_WITH_AES_128_CBC_SHA256,
	OLD_TLS_ECDHE_RSA_WITH_CHACHA20_POLY1305_SHA256, OLD_TLS_ECDHE_ECDSA_WITH_CHACHA20_POLY1305_SHA256,
}

var vfGsSuitesFake = []uint16{
	DISABLED_TLS_ECDHE_ECDSA_WITH_AES_256_CBC_SHA384, DISABLED_TLS_ECDHE_RSA_WITH_AES_256_CBC_SHA384,
	DISABLED_TLS_RSA_WITH_AES_256_CBC_SHA256, FAKE_OLD_TLS_DHE_RSA_WITH_CHACHA20_POLY1305_SHA256,
	FAKE_TLS_DHE_RSA_WITH_AES_128_GCM_SHA256, FAKE_TLS_DHE_RSA_WITH_AES_128_CBC_SHA, FAKE_TLS_DHE_RSA_WITH_AES_256_CBC_SHA,
	FAKE_TLS_RSA_WITH_RC4_128_MD5, FAKE_TLS_DHE_RSA_WITH_AES_256_GCM_SHA384, FAKE_TLS_DHE_DSS_WITH_AES_128_CBC_SHA,
	FAKE_TLS_DHE_RSA_WITH_AES_256_CBC_SHA256, FAKE_TLS_DHE_RSA_WITH_AES_128_CBC_SHA256,
	FAKE_TLS_EMPTY_RENEGOTIATION_INFO_SCSV, FAKE_TLS_ECDHE_ECDSA_WITH_3DES_EDE_CBC_SHA, TLS_FALLBACK_SCSV,
}

// groups utls can generate a key share for
var vfGsGroupsImpl = []CurveID{X25519, CurveP256, CurveP384, CurveP521, X25519MLKEM768, X25519Kyber768Draft00}
var vfGsGroupsClassical = []CurveID{X25519, CurveP256, CurveP384, CurveP521}
var vfGsGroupsFake = []CurveID{FakeCurveFFDHE2048, FakeCurveFFDHE3072, FakeCurveFFDHE4096, FakeCurveFFDHE6144, FakeCurveFFDHE8192,
	FakeCurveX25519Kyber512Draft00, FakeCurveX25519Kyber768Draft00Old, FakeCurveP256Kyber768Draft00, 0x001e, 0x0016}

var vfGsSigAlgs = []SignatureScheme{ECDSAWithP256AndSHA256, PSSWithSHA256, PKCS1WithSHA256, ECDSAWithP384AndSHA384, PSSWithSHA384,
	PKCS1WithSHA384, PSSWithSHA512, PKCS1WithSHA512, PKCS1WithSHA1, ECDSAWithP521AndSHA512, ECDSAWithSHA1, Ed25519,
	0x0301, 0x0303, 0x0202, 0x0402, 0x0808, 0x0809, 0x080a, 0x080b}

// extension ids not otherwise produced by a library type, for GenericExtension (bodies are opaque to the parser)
var vfGsGenericIDs = []uint16{1234, 49, 0x00fa, 0xffce, 2, 6, 20, 0x4469 - 1, 0x3a3b}

func vfGsShareLen(g CurveID) int {
	switch g {
	case X25519:
		return 32
	case CurveP256:
		return 65
	case CurveP384:
		return 97
	case CurveP521:
		return 133
	case X25519MLKEM768, X25519Kyber768Draft00:
		return 1184 + 32
	}
	return 0
}

// vfGsCount draws a list length with boundary bias: min, min+1, a few, many.
func vfGsCount(t *rapid.T, label string, min, few, many int) int {
	switch rapid.IntRange(0, 9).Draw(t, label+"_ck") {
	case 0:
		return min
	case 1:
		if min+1 <= many {
			return min + 1
		}
		return min
	case 2:
		return many
	case 3:
		return rapid.IntRange(min, many).Draw(t, label+"_cn")
	default:
		if few < min {
			few = min
		}
		return rapid.IntRange(min, few).Draw(t, label+"_cf")
	}
}

func vfGsBytes(t *rapid.T, label string, n int) []byte {
	if n == 0 {
		return []byte{}
	}
	// cheap for large n: one drawn seed byte and a pattern, so shrinking stays fast
	seed := rapid.Byte().Draw(t, label+"_fill")
	b := make([]byte, n)
	for i := range b {
		b[i] = seed + byte(i*7)
	}
	return b
}

func vfGsProto(t *rapid.T, label string) string {
	switch rapid.IntRange(0, 7).Draw(t, label+"_pk") {
	case 0:
		return "h2"
	case 1:
		return "http/1.1"
	case 2:
		return strings.Repeat("p", 255) // max-length ProtocolName
	case 3:
		return "x" // min length
	case 4:
		return strings.Repeat("q", 254)
	default:
		return string(vfGsAlnum(t, label+"_ps", rapid.IntRange(1, 12).Draw(t, label+"_pl")))
	}
}

func vfGsAlnum(t *rapid.T, label string, n int) []byte {
	const al = "abcdefghijklmnopqrstuvwxyz0123456789-"
	off := rapid.IntRange(0, len(al)-1).Draw(t, label)
	b := make([]byte, n)
	for i := range b {
		b[i] = al[(off+i*5)%len(al)]
		if b[i] == '-' && (i == 0 || i == n-1) {
			b[i] = 'z'
		}
	}
	return b
}

func vfGsProtoList(t *rapid.T, label string, many int) []string {
	n := vfGsCount(t, label, 1, 3, many)
	out := make([]string, n)
	for i := range out {
		out[i] = vfGsProto(t, fmt.Sprintf("%s_%d", label, i))
	}
	return out
}

func vfGsProtoListLen(l []string) int {
	n := 0
	for _, p := range l {
		n += 1 + len(p)
	}
	return n
}

func vfGsCloneStrs(s []string) []string { return append([]string(nil), s...) }

func vfGsSuites(t *rapid.T, meta *vfSpecMeta, need []uint16, big bool) []uint16 {
	pool := append(append(append([]uint16{}, vfGsSuitesTLS13...), vfGsSuitesLegacy...), vfGsSuitesFake...)
	var out []uint16
	many := 60
	if big {
		many = 3000
	}
	n := vfGsCount(t, "suites", 1, 18, many)
	if n == 1 {
		meta.boundary("one-suite")
	}
	if n >= 1000 {
		meta.boundary("many-suites")
	}
	greaseAt := -1
	if rapid.IntRange(0, 2).Draw(t, "suites_grease") == 0 {
		greaseAt = rapid.IntRange(0, 2).Draw(t, "suites_greasepos")
	}
	off := rapid.IntRange(0, len(pool)-1).Draw(t, "suites_off")
	step := []int{1, 3, 5, 7, 11}[rapid.IntRange(0, 4).Draw(t, "suites_step")]
	for i := 0; len(out) < n; i++ {
		if i == greaseAt {
			out = append(out, GREASE_PLACEHOLDER)
			continue
		}
		out = append(out, pool[(off+i*step)%len(pool)])
	}
	// required suites (sane modes) go to drawn positions near the front
	for _, s := range need {
		if !vfContains16(out, s) {
			pos := 0
			if len(out) > 0 {
				pos = rapid.IntRange(0, min(len(out), 4)).Draw(t, "suites_needpos")
			}
			out = append(out[:pos], append([]uint16{s}, out[pos:]...)...)
		}
	}
	return out
}

// ---- extension item generators ----

func vfGsU16Items[T ~uint16](vals []T) int { return 6 + 2*len(vals) }

func vfGsDrawList[T ~uint16](t *rapid.T, label string, pool []T, n int, grease bool) []T {
	out := make([]T, 0, n)
	off := rapid.IntRange(0, len(pool)-1).Draw(t, label+"_off")
	for i := 0; len(out) < n; i++ {
		if grease && i == 0 {
			out = append(out, T(GREASE_PLACEHOLDER))
			continue
		}
		out = append(out, pool[(off+i)%len(pool)])
	}
	return out
}

func vfGsItemSNI(t *rapid.T, own string) vfSpecItem {
	desc := "from-config"
	if own != "" {
		desc = fmt.Sprintf("own[%d]", len(own))
	}
	return vfSpecItem{Kind: "sni", Desc: desc, wireType: 0, hasWriter: true, jsonCapable: true,
		mk: func() TLSExtension { return &SNIExtension{ServerName: own} },
		wlen: func(cfgSNI string) int {
			name := own
			if name == "" {
				name = cfgSNI
			}
			w := vfRefSNIOnWire(name)
			if w == "" {
				return 0
			}
			return 9 + len(w)
		}}
}

// vfRefSNIOnWire is the reference model of RFC 6066 section 3 as the library documents it: IP literals and the
// empty name are not sent, trailing dots are removed.
func vfRefSNIOnWire(name string) string {
	host := name
	if len(host) > 1 && host[0] == '[' && host[len(host)-1] == ']' {
		host = host[1 : len(host)-1]
	}
	if i := strings.LastIndexByte(host, '%'); i > 0 {
		host = host[:i]
	}
	if net.ParseIP(host) != nil {
		return ""
	}
	return strings.TrimRight(name, ".")
}

func vfGsConst(kind string, typ int, n int, writer, json bool, mk func() TLSExtension) vfSpecItem {
	return vfSpecItem{Kind: kind, wireType: typ, hasWriter: writer, jsonCapable: json, mk: mk, wlen: func(string) int { return n }}
}

func vfGsItemGroups(t *rapid.T, meta *vfSpecMeta, need []CurveID, big bool) (vfSpecItem, []CurveID) {
	many := 40
	if big {
		many = 2500
	}
	n := vfGsCount(t, "groups", 1, 6, many)
	pool := append(append([]CurveID{}, vfGsGroupsImpl...), vfGsGroupsFake...)
	grease := rapid.IntRange(0, 2).Draw(t, "groups_grease") == 0
	l := vfGsDrawList(t, "groups", pool, n, grease)
	for _, g := range need {
		found := false
		for _, x := range l {
			if x == g {
				found = true
			}
		}
		if !found {
			l = append(l, g)
		}
	}
	if len(l) == 1 {
		meta.boundary("one-group")
	}
	cp := l
	return vfSpecItem{Kind: "supported_groups", Desc: fmt.Sprint(len(l)), wireType: 10, hasWriter: true, jsonCapable: true,
		mk:   func() TLSExtension { return &SupportedCurvesExtension{Curves: append([]CurveID(nil), cp...)} },
		wlen: func(string) int { return vfGsU16Items(cp) }}, l
}

func vfGsItemSigAlgs(t *rapid.T, meta *vfSpecMeta, kind string, need []SignatureScheme, big bool) vfSpecItem {
	many := 40
	if big {
		many = 2500
	}
	n := vfGsCount(t, kind, 1, 10, many)
	grease := rapid.IntRange(0, 5).Draw(t, kind+"_grease") == 0
	l := vfGsDrawList(t, kind, vfGsSigAlgs, n, grease)
	for _, g := range need {
		found := false
		for _, x := range l {
			if x == g {
				found = true
			}
		}
		if !found {
			l = append([]SignatureScheme{g}, l...)
		}
	}
	if len(l) == 1 {
		meta.boundary("one-" + kind)
	}
	typ := map[string]int{"signature_algorithms": 13, "signature_algorithms_cert": 50, "delegated_credentials": 34}[kind]
	return vfSpecItem{Kind: kind, Desc: fmt.Sprint(len(l)), wireType: typ, hasWriter: true, jsonCapable: true,
		mk: func() TLSExtension {
			c := append([]SignatureScheme(nil), l...)
			switch kind {
			case "signature_algorithms":
				return &SignatureAlgorithmsExtension{SupportedSignatureAlgorithms: c}
			case "signature_algorithms_cert":
				return &SignatureAlgorithmsCertExtension{SupportedSignatureAlgorithms: c}
			}
			return &FakeDelegatedCredentialsExtension{SupportedSignatureAlgorithms: c}
		},
		wlen: func(string) int { return vfGsU16Items(l) }}
}

func vfGsItemALPN(t *rapid.T, meta *vfSpecMeta, kind string, big bool) vfSpecItem {
	many := 12
	if big {
		many = 200
	}
	l := vfGsProtoList(t, kind, many)
	for _, p := range l {
		if len(p) == 255 {
			meta.boundary("max-protocol-name")
		}
	}
	typ := map[string]int{"alpn": 16, "alps": 17513, "alps_new": 17613}[kind]
	return vfSpecItem{Kind: kind, Desc: fmt.Sprintf("%d/%dB", len(l), vfGsProtoListLen(l)), wireType: typ, hasWriter: true, jsonCapable: true,
		mk: func() TLSExtension {
			switch kind {
			case "alpn":
				return &ALPNExtension{AlpnProtocols: vfGsCloneStrs(l)}
			case "alps":
				return &ApplicationSettingsExtension{SupportedProtocols: vfGsCloneStrs(l)}
			}
			return &ApplicationSettingsExtensionNew{SupportedProtocols: vfGsCloneStrs(l)}
		},
		wlen: func(string) int { return 6 + vfGsProtoListLen(l) }}
}

func vfGsItemGREASE(t *rapid.T, meta *vfSpecMeta, idx int, big bool) vfSpecItem {
	n := 0
	switch rapid.IntRange(0, 5).Draw(t, fmt.Sprintf("grease%d_k", idx)) {
	case 0, 1:
		n = 0
	case 2:
		n = 1
	case 3:
		n = rapid.IntRange(2, 300).Draw(t, fmt.Sprintf("grease%d_n", idx))
	case 4:
		if big {
			n = rapid.IntRange(1000, 20000).Draw(t, fmt.Sprintf("grease%d_big", idx))
		}
	}
	body := vfGsBytes(t, fmt.Sprintf("grease%d", idx), n)
	return vfSpecItem{Kind: "grease", Desc: fmt.Sprintf("body[%d]", n), wireType: -1, hasWriter: true, jsonCapable: true,
		mk: func() TLSExtension { return &UtlsGREASEExtension{Body: append([]byte(nil), body...)} },
		// documented behaviour of ApplyPreset: the second GREASE extension gets the body {0}
		wlen: func(string) int {
			if idx == 1 {
				return 5
			}
			return 4 + n
		}}
}

// reference model of the two documented padding policies
func vfRefBoringPad(unpadded int) int {
	if unpadded > 0xff && unpadded < 0x200 {
		p := 0x200 - unpadded
		if p >= 5 {
			p -= 4
		} else {
			p = 1
		}
		return 4 + p
	}
	return 0
}

func vfRefPadTo(target int) func(int) int {
	return func(unpadded int) int {
		if unpadded < target {
			p := target - unpadded
			if p >= 5 {
				p -= 4
			} else {
				p = 1
			}
			return 4 + p
		}
		return 0
	}
}

func vfGsItemPadding(t *rapid.T, meta *vfSpecMeta, big bool) vfSpecItem {
	it := vfSpecItem{Kind: "padding", wireType: 21, hasWriter: true, jsonCapable: true}
	k := rapid.IntRange(0, 5).Draw(t, "pad_k")
	if big && (k < 2 || k == 4) {
		k = 2 // only padding of fixed length in the large class (the fillers must not be compensated)
	}
	switch k {
	case 0, 1:
		it.Desc = "boring"
		it.mk = func() TLSExtension { return &UtlsPaddingExtension{GetPaddingLen: BoringPaddingStyle} }
		it.pad = vfRefBoringPad
	case 2, 3:
		n := 0
		switch rapid.IntRange(0, 4).Draw(t, "pad_fk") {
		case 0:
			n = 0
			meta.boundary("padding-empty-body")
		case 1:
			n = 1
		case 2:
			n = rapid.IntRange(2, 600).Draw(t, "pad_n")
		default:
			if big {
				n = rapid.IntRange(600, 30000).Draw(t, "pad_big")
			} else {
				n = rapid.IntRange(2, 64).Draw(t, "pad_n2")
			}
		}
		it.Desc = fmt.Sprintf("fixed[%d]", n)
		it.mk = func() TLSExtension { return &UtlsPaddingExtension{PaddingLen: n, WillPad: true} }
		it.pad = func(int) int { return 4 + n }
	case 4:
		target := rapid.IntRange(64, 2400).Draw(t, "pad_to")
		it.Desc = fmt.Sprintf("padto[%d]", target)
		it.mk = func() TLSExtension { return &UtlsPaddingExtension{GetPaddingLen: AlwaysPadToLen(target)} }
		it.pad = vfRefPadTo(target)
	default:
		it.Desc = "disabled"
		it.mk = func() TLSExtension { return &UtlsPaddingExtension{} }
		it.pad = func(int) int { return 0 }
	}
	return it
}

type vfGsShare struct {
	g    CurveID
	data []byte // nil => generated by utls
	wire int    // key_exchange length on the wire
}

func vfGsItemKeyShare(t *rapid.T, meta *vfSpecMeta, sane bool, groups []CurveID) (vfSpecItem, bool) {
	var shares []vfGsShare
	used := map[CurveID]bool{}
	capable := true
	add := func(s vfGsShare) {
		if !used[s.g] {
			used[s.g] = true
			shares = append(shares, s)
		}
	}
	if sane {
		// optional GREASE share, optional hybrid, exactly one classical share for a group in supported_groups
		if rapid.Bool().Draw(t, "ks_grease") {
			n := []int{1, 1, 2, 32}[rapid.IntRange(0, 3).Draw(t, "ks_greaselen")]
			add(vfGsShare{g: GREASE_PLACEHOLDER, data: vfGsBytes(t, "ks_greasedata", n), wire: n})
		}
		var classical []CurveID
		hybrid := false
		for _, g := range groups {
			for _, c := range vfGsGroupsClassical {
				if g == c {
					classical = append(classical, g)
				}
			}
			if g == X25519MLKEM768 {
				hybrid = true
			}
		}
		if hybrid && rapid.Bool().Draw(t, "ks_hybrid") {
			add(vfGsShare{g: X25519MLKEM768, wire: vfGsShareLen(X25519MLKEM768)})
		}
		g := classical[rapid.IntRange(0, len(classical)-1).Draw(t, "ks_classical")]
		add(vfGsShare{g: g, wire: vfGsShareLen(g)})
	} else {
		n := vfGsCount(t, "ks", 0, 3, 8)
		if n == 0 {
			meta.boundary("empty-key-share-list")
			capable = false
		}
		for i := 0; i < n; i++ {
			l := fmt.Sprintf("ks%d", i)
			switch rapid.IntRange(0, 5).Draw(t, l+"_k") {
			case 0:
				dn := []int{1, 1, 2, 7, 300}[rapid.IntRange(0, 4).Draw(t, l+"_gl")]
				add(vfGsShare{g: GREASE_PLACEHOLDER, data: vfGsBytes(t, l+"_gd", dn), wire: dn})
			case 1, 2:
				g := vfGsGroupsImpl[rapid.IntRange(0, len(vfGsGroupsImpl)-1).Draw(t, l+"_g")]
				add(vfGsShare{g: g, wire: vfGsShareLen(g)})
			case 3:
				// caller-supplied key material of the right size for an implemented group
				g := vfGsGroupsClassical[rapid.IntRange(0, 3).Draw(t, l+"_g")]
				add(vfGsShare{g: g, data: vfGsBytes(t, l+"_d", vfGsShareLen(g)), wire: vfGsShareLen(g)})
			default:
				// fake/unknown group with manually filled data ("To mimic it, fill the Data(key) field manually")
				g := vfGsGroupsFake[rapid.IntRange(0, len(vfGsGroupsFake)-1).Draw(t, l+"_g")]
				dn := []int{2, 3, 32, 256, 1216, 4000}[rapid.IntRange(0, 5).Draw(t, l+"_dl")]
				add(vfGsShare{g: g, data: vfGsBytes(t, l+"_d", dn), wire: dn})
			}
		}
	}
	total := 6
	d := []string{}
	for _, s := range shares {
		total += 4 + s.wire
		d = append(d, fmt.Sprintf("%04x[%d]", uint16(s.g), s.wire))
	}
	return vfSpecItem{Kind: "key_share", Desc: strings.Join(d, " "), wireType: 51, hasWriter: true, jsonCapable: true,
		mk: func() TLSExtension {
			ks := make([]KeyShare, len(shares))
			for i, s := range shares {
				ks[i] = KeyShare{Group: s.g}
				if s.data != nil {
					ks[i].Data = append([]byte(nil), s.data...)
				}
			}
			return &KeyShareExtension{KeyShares: ks}
		},
		wlen: func(string) int { return total }}, capable
}

func vfGsItemSupportedVersions(t *rapid.T, meta *vfSpecMeta, vers []uint16) vfSpecItem {
	v := append([]uint16(nil), vers...)
	return vfSpecItem{Kind: "supported_versions", Desc: fmt.Sprintf("%x", v), wireType: 43, hasWriter: true, jsonCapable: true,
		mk:   func() TLSExtension { return &SupportedVersionsExtension{Versions: append([]uint16(nil), v...)} },
		wlen: func(string) int { return 5 + 2*len(v) }}
}

func vfGsItemECH(t *rapid.T, meta *vfSpecMeta) vfSpecItem {
	kdfs := []uint16{1, 2, 3}
	aeads := []uint16{1, 2, 3}
	ncs := rapid.IntRange(0, 3).Draw(t, "ech_ncs")
	var cs []HPKESymmetricCipherSuite
	for i := 0; i < ncs; i++ {
		cs = append(cs, HPKESymmetricCipherSuite{KdfId: kdfs[rapid.IntRange(0, 2).Draw(t, fmt.Sprintf("ech_kdf%d", i))],
			AeadId: aeads[rapid.IntRange(0, 2).Draw(t, fmt.Sprintf("ech_aead%d", i))]})
	}
	ids := rapid.SliceOfN(rapid.Byte(), 0, 3).Draw(t, "ech_ids")
	encLen := []int{0, 32, 1, 65, 300}[rapid.IntRange(0, 4).Draw(t, "ech_enclen")]
	enc := vfGsBytes(t, "ech_enc", encLen)
	npl := rapid.IntRange(0, 3).Draw(t, "ech_npl")
	var pls []uint16
	for i := 0; i < npl; i++ {
		pls = append(pls, uint16([]int{0, 1, 128, 160, 240, 1000}[rapid.IntRange(0, 5).Draw(t, fmt.Sprintf("ech_pl%d", i))]))
	}
	it := vfSpecItem{Kind: "ech_grease", Desc: fmt.Sprintf("cs%d ids%d enc%d pl%v", ncs, len(ids), encLen, pls), wireType: 0xfe0d, hasWriter: true,
		mk: func() TLSExtension {
			return &GREASEEncryptedClientHelloExtension{CandidateCipherSuites: append([]HPKESymmetricCipherSuite(nil), cs...),
				CandidateConfigIds: append([]uint8(nil), ids...), EncapsulatedKey: append([]byte(nil), enc...),
				CandidatePayloadLens: append([]uint16(nil), pls...)}
		}}
	same := true
	for _, p := range pls {
		if p != pls[0] {
			same = false
		}
	}
	if same {
		pl := 128
		if len(pls) > 0 {
			pl = int(pls[0])
		}
		el := encLen
		if el == 0 {
			el = 32 // documented: generated X25519 encapsulated key
		}
		it.wlen = func(string) int { return 4 + 1 + 4 + 1 + 2 + el + 2 + pl + 16 }
	}
	return it
}

func vfGsItemGeneric(t *rapid.T, meta *vfSpecMeta, id uint16, big bool) vfSpecItem {
	n := 0
	switch rapid.IntRange(0, 5).Draw(t, fmt.Sprintf("gen%d_k", id)) {
	case 0:
		n = 0
	case 1:
		n = 1
	case 2, 3:
		n = rapid.IntRange(2, 400).Draw(t, fmt.Sprintf("gen%d_n", id))
	default:
		if big {
			n = rapid.IntRange(400, 30000).Draw(t, fmt.Sprintf("gen%d_big", id))
		} else {
			n = rapid.IntRange(2, 64).Draw(t, fmt.Sprintf("gen%d_n2", id))
		}
	}
	return vfGsGenericOfLen(t, id, n)
}

func vfGsGenericOfLen(t *rapid.T, id uint16, n int) vfSpecItem {
	body := vfGsBytes(t, fmt.Sprintf("gen%d", id), n)
	return vfSpecItem{Kind: fmt.Sprintf("generic:%d", id), Desc: fmt.Sprintf("body[%d]", n), wireType: int(id),
		mk:   func() TLSExtension { return &GenericExtension{Id: id, Data: append([]byte(nil), body...)} },
		wlen: func(string) int { return 4 + n }}
}

func vfGsItemQUIC(t *rapid.T, meta *vfSpecMeta) vfSpecItem {
	n := rapid.IntRange(0, 5).Draw(t, "tp_n")
	type tpd struct {
		kind int
		num  uint64
		val  []byte
	}
	var ds []tpd
	total := 4
	for i := 0; i < n; i++ {
		l := fmt.Sprintf("tp%d", i)
		k := rapid.IntRange(0, 3).Draw(t, l+"_k")
		d := tpd{kind: k}
		switch k {
		case 0, 1:
			d.num = rapid.Uint64Range(0, 1<<62-1).Draw(t, l+"_n")
			id := uint64(1)
			if k == 1 {
				id = 4
			}
			total += vfRefVarintLen(id) + 1 + vfRefVarintLen(d.num)
		case 2:
			d.num = rapid.Uint64Range(0x40, 1<<30).Draw(t, l+"_id")
			d.val = vfGsBytes(t, l+"_v", rapid.IntRange(0, 80).Draw(t, l+"_vl"))
			total += vfRefVarintLen(d.num) + vfRefVarintLen(uint64(len(d.val))) + len(d.val)
		case 3:
			d.num = 27 + 31*rapid.Uint64Range(0, 1000).Draw(t, l+"_gm")
			d.val = vfGsBytes(t, l+"_gv", rapid.IntRange(1, 16).Draw(t, l+"_gl"))
			total += vfRefVarintLen(d.num) + vfRefVarintLen(uint64(len(d.val))) + len(d.val)
		}
		ds = append(ds, d)
	}
	return vfSpecItem{Kind: "quic_tp", Desc: fmt.Sprint(n), wireType: 57, hasWriter: false,
		mk: func() TLSExtension {
			var tps TransportParameters
			for _, d := range ds {
				switch d.kind {
				case 0:
					tps = append(tps, MaxIdleTimeout(d.num))
				case 1:
					tps = append(tps, InitialMaxData(d.num))
				case 2:
					tps = append(tps, &FakeQUICTransportParameter{Id: d.num, Val: append([]byte(nil), d.val...)})
				case 3:
					tps = append(tps, &GREASETransportParameter{IdOverride: d.num, ValueOverride: append([]byte(nil), d.val...)})
				}
			}
			return &QUICTransportParametersExtension{TransportParameters: tps}
		},
		wlen: func(string) int { return total }}
}

func vfGsItemPSK(t *rapid.T, meta *vfSpecMeta) vfSpecItem {
	switch rapid.IntRange(0, 5).Draw(t, "psk_k") {
	case 0:
		meta.PSKKind = "real-empty"
		return vfSpecItem{Kind: "psk_real", Desc: "uninitialised", wireType: 41, hasWriter: true, jsonCapable: true,
			mk: func() TLSExtension { return &UtlsPreSharedKeyExtension{} }}
	case 1:
		meta.PSKKind = "fake-empty"
		return vfSpecItem{Kind: "psk_fake", Desc: "empty", wireType: 41, hasWriter: true, jsonCapable: true,
			mk: func() TLSExtension { return &FakePreSharedKeyExtension{} }, wlen: func(string) int { return 0 }}
	}
	meta.PSKKind = "fake"
	n := vfGsCount(t, "psk", 1, 2, 5)
	type idd struct {
		label []byte
		age   uint32
		bind  int
	}
	var ids []idd
	total := 4 + 2 + 2
	for i := 0; i < n; i++ {
		l := fmt.Sprintf("psk%d", i)
		ll := []int{1, 2, 32, 138, 1000}[rapid.IntRange(0, 4).Draw(t, l+"_ll")]
		d := idd{label: vfGsBytes(t, l+"_l", ll), age: rapid.Uint32().Draw(t, l+"_age"), bind: []int{32, 48}[rapid.IntRange(0, 1).Draw(t, l+"_b")]}
		ids = append(ids, d)
		total += 2 + ll + 4 + 1 + d.bind
	}
	return vfSpecItem{Kind: "psk_fake", Desc: fmt.Sprintf("%d ids", n), wireType: 41, hasWriter: true, jsonCapable: true,
		mk: func() TLSExtension {
			e := &FakePreSharedKeyExtension{}
			for _, d := range ids {
				e.Identities = append(e.Identities, PskIdentity{Label: append([]byte(nil), d.label...), ObfuscatedTicketAge: d.age})
				e.Binders = append(e.Binders, make([]byte, d.bind))
			}
			return e
		},
		wlen: func(string) int { return total }}
}

// ---- the generator ----

// vfGenCustomSpec draws a ClientHelloSpec assembled from the library's extension types (each type at most
// once, pre_shared_key last, at most 2 GREASE extensions) and returns it with its description.
func vfGenCustomSpec(t *rapid.T) (*ClientHelloSpec, *vfSpecMeta) {
	meta := &vfSpecMeta{}
	mode := []string{"sane13", "sane13", "sane12", "wild", "wild", "wild", "large", "large"}[rapid.IntRange(0, 7).Draw(t, "spec_mode")]
	meta.Mode = mode
	big := mode == "large"
	sane := mode == "sane13" || mode == "sane12"
	var items []vfSpecItem
	add := func(it vfSpecItem) { items = append(items, it) }
	has := func(p int) bool { return rapid.IntRange(0, 99).Draw(t, fmt.Sprintf("has%d", len(items))) < p }

	// --- version range and supported_versions ---
	var vers []uint16
	tls13 := false
	switch mode {
	case "sane13":
		tls13 = true
		vers = []uint16{VersionTLS13, VersionTLS12}
		if rapid.Bool().Draw(t, "sv_grease") {
			vers = append([]uint16{GREASE_PLACEHOLDER}, vers...)
		}
		if rapid.IntRange(0, 3).Draw(t, "sv_old") == 0 {
			vers = append(vers, VersionTLS11, VersionTLS10)
		}
	case "sane12":
		if rapid.Bool().Draw(t, "sv12") {
			vers = []uint16{VersionTLS12}
			if rapid.Bool().Draw(t, "sv12_old") {
				vers = append(vers, VersionTLS11, VersionTLS10)
			}
		}
	default:
		if rapid.IntRange(0, 3).Draw(t, "sv_present") != 0 {
			all := []uint16{VersionTLS13, VersionTLS12, VersionTLS11, VersionTLS10}
			hi := rapid.IntRange(0, 3).Draw(t, "sv_hi")
			lo := rapid.IntRange(hi, 3).Draw(t, "sv_lo")
			vers = append(vers, all[hi:lo+1]...)
			if rapid.IntRange(0, 2).Draw(t, "sv_grease") == 0 {
				vers = append([]uint16{GREASE_PLACEHOLDER}, vers...)
			}
			if rapid.IntRange(0, 9).Draw(t, "sv_many") == 0 {
				// maximum list: 127 entries (254 bytes)
				for len(vers) < 127 {
					vers = append(vers, all[lo])
				}
				meta.boundary("max-supported-versions")
			}
			tls13 = hi == 0
		}
	}
	if len(vers) > 0 {
		meta.HasSuppVersions = true
		var lo, hi uint16
		for _, v := range vers {
			if vfIsGREASE(v) {
				continue
			}
			if hi == 0 || v > hi {
				hi = v
			}
			if lo == 0 || v < lo {
				lo = v
			}
		}
		meta.EffMin, meta.EffMax = lo, hi
		if rapid.Bool().Draw(t, "vers_explicit") {
			meta.TLSVersMin, meta.TLSVersMax = lo, hi
		}
	} else {
		// no supported_versions: legacy negotiation, at most TLS 1.2
		hi := []uint16{VersionTLS12, VersionTLS12, VersionTLS11, VersionTLS10}[rapid.IntRange(0, 3).Draw(t, "legacy_hi")]
		if mode == "sane12" {
			hi = VersionTLS12
		}
		lo := VersionTLS10
		if rapid.Bool().Draw(t, "legacy_lo") {
			lo = int(hi)
		}
		meta.EffMin, meta.EffMax = uint16(lo), hi
		if hi == VersionTLS12 && lo == VersionTLS10 && rapid.Bool().Draw(t, "vers_default") {
			// leave 0/0: documented default 1.0..1.2
		} else {
			meta.TLSVersMin, meta.TLSVersMax = uint16(lo), hi
		}
	}

	// --- cipher suites, compression ---
	var need []uint16
	switch mode {
	case "sane13":
		need = []uint16{TLS_AES_128_GCM_SHA256, TLS_ECDHE_ECDSA_WITH_AES_128_GCM_SHA256, TLS_ECDHE_RSA_WITH_AES_128_GCM_SHA256}
	case "sane12":
		need = []uint16{TLS_ECDHE_ECDSA_WITH_AES_128_GCM_SHA256, TLS_ECDHE_RSA_WITH_AES_128_GCM_SHA256}
	}
	meta.Suites = vfGsSuites(t, meta, need, big)
	switch k := rapid.IntRange(0, 9).Draw(t, "comp_k"); {
	case k < 5:
		meta.Compression = []uint8{0}
	case k < 7 || sane:
		meta.Compression = nil // documented: nil => no compression (null method is sent)
		meta.boundary("nil-compression")
	case k == 7:
		meta.Compression = []uint8{1, 0}
	case k == 8:
		meta.Compression = []uint8{0, 1, 64}
	default:
		c := make([]uint8, 255)
		for i := range c {
			c[i] = uint8(i)
		}
		meta.Compression = c
		meta.boundary("max-compression-methods")
	}

	// --- core extensions ---
	var groups []CurveID
	capable := sane
	if sane || has(80) {
		own := ""
		switch rapid.IntRange(0, 9).Draw(t, "sni_own") {
		case 0:
			own = string(vfGsAlnum(t, "sni_name", rapid.IntRange(1, 40).Draw(t, "sni_len"))) + ".test"
		case 1:
			if !sane {
				own = "192.0.2.7" // IP literal inside the extension: must not be sent
				meta.boundary("sni-ext-ip-literal")
			}
		}
		if big && own == "" {
			own = "large.example.test"
		}
		add(vfGsItemSNI(t, own))
	}
	if sane || has(70) {
		var needG []CurveID
		if sane {
			needG = []CurveID{[]CurveID{X25519, CurveP256, CurveP384}[rapid.IntRange(0, 2).Draw(t, "groups_need")]}
			if tls13 && rapid.Bool().Draw(t, "groups_hybrid") {
				needG = append([]CurveID{X25519MLKEM768}, needG...)
			}
		}
		var it vfSpecItem
		it, groups = vfGsItemGroups(t, meta, needG, big)
		add(it)
	}
	if sane || has(60) {
		n := vfGsCount(t, "points", 1, 3, 255)
		pts := make([]uint8, n)
		for i := range pts {
			pts[i] = uint8(i % 3)
		}
		if n == 255 {
			meta.boundary("max-point-formats")
		}
		add(vfSpecItem{Kind: "ec_point_formats", Desc: fmt.Sprint(n), wireType: 11, hasWriter: true, jsonCapable: n <= 3,
			mk:   func() TLSExtension { return &SupportedPointsExtension{SupportedPoints: append([]uint8(nil), pts...)} },
			wlen: func(string) int { return 5 + n }})
	}
	if sane || has(70) {
		var needS []SignatureScheme
		if sane {
			needS = []SignatureScheme{ECDSAWithP256AndSHA256, PSSWithSHA256, PKCS1WithSHA256}
		}
		add(vfGsItemSigAlgs(t, meta, "signature_algorithms", needS, big))
	}
	if len(vers) > 0 {
		add(vfGsItemSupportedVersions(t, meta, vers))
	}
	if (sane && tls13) || (!sane && has(55)) {
		var it vfSpecItem
		var ok bool
		it, ok = vfGsItemKeyShare(t, meta, sane, groups)
		if !ok {
			capable = false
		}
		add(it)
	}
	if (sane && tls13) || (!sane && has(45)) {
		n := 1
		modes := []uint8{1}
		if !sane {
			n = vfGsCount(t, "pskmodes", 1, 2, 255)
			modes = make([]uint8, n)
			for i := range modes {
				modes[i] = uint8((i + 1) % 2)
			}
			if n == 255 {
				meta.boundary("max-psk-modes")
			}
		} else if rapid.Bool().Draw(t, "pskmodes_both") {
			modes = []uint8{1, 0}
			n = 2
		}
		add(vfSpecItem{Kind: "psk_key_exchange_modes", Desc: fmt.Sprint(n), wireType: 45, hasWriter: true, jsonCapable: true,
			mk:   func() TLSExtension { return &PSKKeyExchangeModesExtension{Modes: append([]uint8(nil), modes...)} },
			wlen: func(string) int { return 5 + n }})
	}

	// --- optional extensions ---
	if has(60) {
		add(vfGsItemALPN(t, meta, "alpn", big))
	}
	if has(25) {
		add(vfGsItemALPN(t, meta, "alps", false))
	}
	if has(20) {
		add(vfGsItemALPN(t, meta, "alps_new", false))
	}
	if has(55) {
		add(vfGsConst("status_request", 5, 9, true, true, func() TLSExtension { return &StatusRequestExtension{} }))
	}
	if has(15) {
		add(vfGsConst("status_request_v2", 17, 13, true, true, func() TLSExtension { return &StatusRequestV2Extension{} }))
	}
	if has(45) {
		add(vfGsConst("sct", 18, 4, true, true, func() TLSExtension { return &SCTExtension{} }))
	}
	if has(65) {
		add(vfGsConst("extended_master_secret", 23, 4, true, true, func() TLSExtension { return &ExtendedMasterSecretExtension{} }))
	}
	if has(60) {
		tn := 0
		if !sane && rapid.IntRange(0, 3).Draw(t, "ticket_k") == 0 {
			tn = []int{1, 16, 200, 3000}[rapid.IntRange(0, 3).Draw(t, "ticket_n")]
		}
		tk := vfGsBytes(t, "ticket", tn)
		add(vfSpecItem{Kind: "session_ticket", Desc: fmt.Sprintf("ticket[%d]", tn), wireType: 35, hasWriter: true, jsonCapable: true,
			mk: func() TLSExtension {
				e := &SessionTicketExtension{}
				if tn > 0 {
					e.Ticket = append([]byte(nil), tk...)
				}
				return e
			},
			wlen: func(string) int { return 4 + tn }})
	}
	if has(55) {
		rn := 0
		if !sane && rapid.IntRange(0, 3).Draw(t, "reneg_k") == 0 {
			rn = []int{1, 12, 36, 255}[rapid.IntRange(0, 3).Draw(t, "reneg_n")]
			if rn == 255 {
				meta.boundary("max-renegotiated-connection")
			}
		}
		rc := vfGsBytes(t, "reneg", rn)
		rs := []RenegotiationSupport{RenegotiateNever, RenegotiateOnceAsClient, RenegotiateFreelyAsClient}[rapid.IntRange(0, 2).Draw(t, "reneg_support")]
		add(vfSpecItem{Kind: "renegotiation_info", Desc: fmt.Sprintf("rc[%d]", rn), wireType: 0xff01, hasWriter: true, jsonCapable: true,
			mk: func() TLSExtension {
				e := &RenegotiationInfoExtension{Renegotiation: rs}
				if rn > 0 {
					e.RenegotiatedConnection = append([]byte(nil), rc...)
				}
				return e
			},
			wlen: func(string) int { return 5 + rn }})
	}
	if has(35) {
		n := vfGsCount(t, "certcomp", 1, 3, 127)
		algs := make([]CertCompressionAlgo, n)
		for i := range algs {
			algs[i] = []CertCompressionAlgo{CertCompressionBrotli, CertCompressionZlib, CertCompressionZstd, 0x0004, 0xff00}[(i+n)%5]
		}
		if sane {
			for i := range algs {
				algs[i] = []CertCompressionAlgo{CertCompressionBrotli, CertCompressionZlib, CertCompressionZstd}[(i+n)%3]
			}
		}
		if n == 127 {
			meta.boundary("max-cert-compression-algs")
		}
		add(vfSpecItem{Kind: "compress_certificate", Desc: fmt.Sprint(n), wireType: 27, hasWriter: true, jsonCapable: sane,
			mk: func() TLSExtension {
				return &UtlsCompressCertExtension{Algorithms: append([]CertCompressionAlgo(nil), algs...)}
			},
			wlen: func(string) int { return 5 + 2*n }})
	}
	if has(20) {
		lim := uint16([]int{0, 1, 64, 16385, 65535}[rapid.IntRange(0, 4).Draw(t, "rsl")])
		add(vfGsConst("record_size_limit", 28, 6, true, true, func() TLSExtension { return &FakeRecordSizeLimitExtension{Limit: lim} }))
	}
	if has(20) {
		add(vfGsItemSigAlgs(t, meta, "delegated_credentials", nil, false))
	}
	if has(15) {
		add(vfGsItemSigAlgs(t, meta, "signature_algorithms_cert", nil, false))
	}
	if has(15) {
		n := vfGsCount(t, "tokbind", 1, 3, 255)
		kp := make([]uint8, n)
		for i := range kp {
			kp[i] = uint8(i % 3)
		}
		maj, mnr := uint8(rapid.IntRange(0, 1).Draw(t, "tb_major")), uint8(rapid.IntRange(0, 15).Draw(t, "tb_minor"))
		add(vfSpecItem{Kind: "token_binding", Desc: fmt.Sprint(n), wireType: 24, hasWriter: true, jsonCapable: n <= 3,
			mk: func() TLSExtension {
				return &FakeTokenBindingExtension{MajorVersion: maj, MinorVersion: mnr, KeyParameters: append([]uint8(nil), kp...)}
			},
			wlen: func(string) int { return 7 + n }})
	}
	if has(12) {
		add(vfGsConst("npn", 13172, 4, true, true, func() TLSExtension { return &NPNExtension{} }))
	}
	if has(12) {
		old := rapid.Bool().Draw(t, "chid_old")
		typ := 30032
		kind := "channel_id"
		if old {
			typ = 30031
			kind = "channel_id_old"
		}
		add(vfGsConst(kind, typ, 4, true, true, func() TLSExtension { return &FakeChannelIDExtension{OldExtensionID: old} }))
	}
	if has(30) {
		add(vfGsItemECH(t, meta))
	}
	if !sane && has(12) {
		n := []int{1, 2, 32, 500, 4000}[rapid.IntRange(0, 4).Draw(t, "cookie_n")]
		ck := vfGsBytes(t, "cookie", n)
		capable = false
		add(vfSpecItem{Kind: "cookie", Desc: fmt.Sprint(n), wireType: 44,
			mk:   func() TLSExtension { return &CookieExtension{Cookie: append([]byte(nil), ck...)} },
			wlen: func(string) int { return 6 + n }})
	}
	if !sane && has(15) {
		capable = false
		add(vfGsItemQUIC(t, meta))
	}
	ngen := rapid.IntRange(0, 9).Draw(t, "ngeneric")
	switch {
	case ngen < 5:
		ngen = 0
	case ngen < 8:
		ngen = 1
	default:
		ngen -= 6
	}
	goff := rapid.IntRange(0, len(vfGsGenericIDs)-1).Draw(t, "generic_off")
	for i := 0; i < ngen; i++ {
		add(vfGsItemGeneric(t, meta, vfGsGenericIDs[(goff+i)%len(vfGsGenericIDs)], big))
	}
	if has(45) {
		add(vfGsItemPadding(t, meta, big))
	}

	// --- order: shuffle, then place GREASE extensions, PSK last ---
	perm := rapid.Permutation(func() []int {
		p := make([]int, len(items))
		for i := range p {
			p[i] = i
		}
		return p
	}()).Draw(t, "order")
	shuffled := make([]vfSpecItem, len(items))
	for i, j := range perm {
		shuffled[i] = items[j]
	}
	items = shuffled
	ng := []int{0, 0, 1, 2, 2}[rapid.IntRange(0, 4).Draw(t, "ngrease")]
	meta.NumGREASE = ng
	for i := 0; i < ng; i++ {
		it := vfGsItemGREASE(t, meta, i, big)
		pos := 0
		if i == 1 || rapid.IntRange(0, 3).Draw(t, fmt.Sprintf("grease%d_front", i)) == 0 {
			pos = rapid.IntRange(0, len(items)).Draw(t, fmt.Sprintf("grease%d_pos", i))
		}
		if i == 1 {
			// keep the documented order: the first GREASE extension in the list is "extension1"
			first := 0
			for k, x := range items {
				if x.Kind == "grease" {
					first = k
				}
			}
			if pos <= first {
				pos = first + 1
			}
		}
		items = append(items[:pos], append([]vfSpecItem{it}, items[pos:]...)...)
	}
	if !sane && rapid.IntRange(0, 99).Draw(t, "has_psk") < 30 {
		meta.HasPSK = true
		capable = false
		items = append(items, vfGsItemPSK(t, meta))
	}

	meta.Items = items
	// --- the large class: steer the extensions block to a drawn target around 2^16 ---
	if big {
		ext, _, ok := meta.RefLen("large.example.test", false)
		if ok {
			target := 0
			switch rapid.IntRange(0, 9).Draw(t, "large_k") {
			case 0:
				target = 65535
			case 1:
				target = 65536
			case 2:
				target = 65534
			case 3:
				target = 65535 + rapid.IntRange(1, 300).Draw(t, "large_over")
			case 4:
				target = 65535 - rapid.IntRange(1, 300).Draw(t, "large_under")
			case 5:
				target = rapid.IntRange(66000, 140000).Draw(t, "large_far")
			default:
				target = rapid.IntRange(30000, 65535).Draw(t, "large_in")
			}
			meta.LargeTarget = target
			// fillers: GenericExtensions with unused ids, each body <= 65535, inserted before a trailing PSK
			fid := []uint16{0x7a01, 0x7a02, 0x7a03}
			for k := 0; k < 3 && ext+4 <= target; k++ {
				n := target - ext - 4
				if n > 65535 {
					n = 65535
				}
				it := vfGsGenericOfLen(t, fid[k], n)
				pos := len(meta.Items)
				if meta.HasPSK {
					pos--
				}
				meta.Items = append(meta.Items[:pos], append([]vfSpecItem{it}, meta.Items[pos:]...)...)
				// a dynamic padding extension would react to the filler; the large class only uses fixed ones
				ext += 4 + n
			}
			switch {
			case ext > 65535:
				meta.boundary("ext-block-over-2^16")
			case ext == 65535:
				meta.boundary("ext-block-exactly-65535")
			case ext >= 65000:
				meta.boundary("ext-block-just-under-2^16")
			}
			if ext > 65535 {
				capable = false
			}
		}
	}

	meta.Fingerprintable = true
	for _, it := range meta.Items {
		if !it.hasWriter {
			meta.Fingerprintable = false
		}
	}
	meta.HandshakeCapable = capable && sane
	return meta.Build(), meta
}

// ---- Config variations ----

type vfCfgMeta struct {
	SNIKind      string // empty | dns | dns-len-N | trailing-dot | ipv4 | ipv6 | ipv6-bracket | max253 | label63
	ServerName   string
	NextProtos   []string
	Cache        bool
	OmitEmptyPsk bool
	QUIC         bool
	RandSeed     uint64
}

func (c vfCfgMeta) Key() string {
	return fmt.Sprintf("%s/np%d/c%v/o%v/q%v", c.SNIKind, len(c.NextProtos), c.Cache, c.OmitEmptyPsk, c.QUIC)
}

// vfGenServerNameShape draws a Config.ServerName of one of the shapes of the property's quantifier.
func vfGenServerNameShape(t *rapid.T, label string) (kind, name string) {
	switch rapid.IntRange(0, 11).Draw(t, label+"_kind") {
	case 0:
		return "empty", ""
	case 1:
		return "ipv4", fmt.Sprintf("192.0.2.%d", rapid.IntRange(1, 254).Draw(t, label+"_ip"))
	case 2:
		return "ipv6", []string{"2001:db8::1", "::1", "fe80::1%eth0", "2001:db8:0:0:0:0:2:1"}[rapid.IntRange(0, 3).Draw(t, label+"_ip6")]
	case 3:
		return "ipv6-bracket", "[2001:db8::7]"
	case 4:
		n := rapid.IntRange(2, 60).Draw(t, label+"_len")
		return "trailing-dot", vfDNSNameOfLen(n, 'd') + "."
	case 5:
		return "max253", vfDNSNameOfLen(253, 'm')
	case 6:
		return "label63", strings.Repeat("l", 63) + ".test"
	case 7, 8:
		// exact lengths around the sizes that matter to padding and to one-byte length fields
		n := []int{1, 2, 3, 4, 63, 64, 127, 128, 200, 245, 246, 247, 252}[rapid.IntRange(0, 12).Draw(t, label+"_exact")]
		return fmt.Sprintf("dns-len-%d", n), vfDNSNameOfLen(n, 'e')
	default:
		return "dns", vfGenDNSName(t, label+"_dns")
	}
}

// vfGenClientCfg draws a client Config variation. The config trusts the harness CA and uses harness time;
// ServerName "" comes with InsecureSkipVerify (utls refuses to build a hello otherwise).
func vfGenClientCfg(t *rapid.T, label string) (*Config, vfCfgMeta) {
	var m vfCfgMeta
	m.SNIKind, m.ServerName = vfGenServerNameShape(t, label+"_sni")
	switch rapid.IntRange(0, 5).Draw(t, label+"_np") {
	case 0, 1, 2:
	case 3:
		m.NextProtos = []string{"h2", "http/1.1"}
	case 4:
		m.NextProtos = []string{strings.Repeat("n", 255)}
	default:
		m.NextProtos = vfGsProtoList(t, label+"_npl", 6)
	}
	m.Cache = rapid.IntRange(0, 2).Draw(t, label+"_cache") != 0
	m.OmitEmptyPsk = rapid.IntRange(0, 3).Draw(t, label+"_omit") != 0
	m.QUIC = rapid.IntRange(0, 5).Draw(t, label+"_quic") == 0
	m.RandSeed = rapid.Uint64().Draw(t, label+"_rand")
	return m.Config(), m
}

func (m vfCfgMeta) Config() *Config {
	cfg := vfClientConfig(m.ServerName)
	if m.ServerName == "" {
		cfg.InsecureSkipVerify = true
	}
	cfg.NextProtos = append([]string(nil), m.NextProtos...)
	if m.Cache {
		cfg.ClientSessionCache = NewLRUClientSessionCache(8)
	}
	cfg.OmitEmptyPsk = m.OmitEmptyPsk
	cfg.Rand = vfNewDetRand(m.RandSeed, "client")
	if m.QUIC {
		cfg.MinVersion = VersionTLS13
	}
	return cfg
}

// vfNewUConn creates the UConn for a ClientHelloID under the Config variation (QUIC-wrapped when m.QUIC).
func vfNewUConn(conn net.Conn, cfg *Config, m vfCfgMeta, id ClientHelloID) *UConn {
	if m.QUIC {
		q := UQUICClient(&QUICConfig{TLSConfig: cfg}, id)
		return q.conn
	}
	return UClient(conn, cfg, id)
}

// vfNewCustomUConn = UClient(conn,cfg,HelloCustom) + ApplyPreset(spec).
func vfNewCustomUConn(conn net.Conn, cfg *Config, m vfCfgMeta, spec *ClientHelloSpec) (*UConn, error) {
	uc := vfNewUConn(conn, cfg, m, HelloCustom)
	if err := uc.ApplyPreset(spec); err != nil {
		return uc, err
	}
	return uc, nil
}
