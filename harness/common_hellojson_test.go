//go:build verif

package tls

// Shared: parsed hello -> utls JSON spec (moved here from the C02 harness so that other properties can use JSON-imported
// specs as sources).

import (
	"encoding/binary"
	"encoding/json"
	"fmt"
	"strings"
	"unicode/utf8"

	"github.com/refraction-networking/utls/dicttls"
)

var _ = binary.BigEndian
var _ = strings.Join
var _ = fmt.Sprint
var _ = json.Marshal

// groups for which the library generates key shares itself
var vf02ImplGroups = map[uint16]bool{0x001d: true, 0x0017: true, 0x0018: true, 0x0019: true, 0x11ec: true, 0x6399: true}

// ---- parsed hello -> utls JSON spec ----

func vf02Ints(b []byte) []int {
	out := make([]int, len(b))
	for i, x := range b {
		out[i] = int(x)
	}
	return out
}

// vf02HelloToJSON renders a parsed hello in the JSON format ClientHelloSpec.UnmarshalJSON documents (see
// testdata/ClientHello-JSON-*.json). ok=false when some value has no name in the dictionaries.
func vf02HelloToJSON(h *vfHello) ([]byte, bool) {
	type m = map[string]any
	doc := m{}
	var suites []string
	for _, s := range h.Suites {
		if vfIsGREASE(s) {
			suites = append(suites, "GREASE")
			continue
		}
		n, ok := dicttls.DictCipherSuiteValueIndexed[s]
		if !ok {
			return nil, false
		}
		suites = append(suites, n)
	}
	doc["cipher_suites"] = suites
	var comp []string
	for _, c := range h.Compression {
		n, ok := dicttls.DictCompMethValueIndexed[c]
		if !ok {
			return nil, false
		}
		comp = append(comp, n)
	}
	doc["compression_methods"] = comp
	names16 := func(vals []uint16, dict map[uint16]string, grease bool) ([]string, bool) {
		out := []string{}
		for _, v := range vals {
			if grease && vfIsGREASE(v) {
				out = append(out, "GREASE")
				continue
			}
			n, ok := dict[v]
			if !ok {
				return nil, false
			}
			out = append(out, n)
		}
		return out, true
	}
	exts := []m{}
	for _, e := range h.Exts {
		if vfIsGREASE(e.Type) {
			exts = append(exts, m{"name": "GREASE", "id": int(e.Type), "data": vf02Ints(e.Body), "keep_id": false, "keep_data": true})
			continue
		}
		name, ok := dicttls.DictExtTypeValueIndexed[e.Type]
		if !ok {
			return nil, false
		}
		x := m{"name": name}
		switch e.Type {
		case 10:
			l, ok := names16(vfU16List16(e.Body), dicttls.DictSupportedGroupsValueIndexed, true)
			if !ok {
				return nil, false
			}
			x["named_group_list"] = l
		case 11:
			l := []string{}
			if len(e.Body) > 0 {
				for _, p := range e.Body[1:] {
					n, ok := dicttls.DictECPointFormatValueIndexed[p]
					if !ok {
						return nil, false
					}
					l = append(l, n)
				}
			}
			x["ec_point_format_list"] = l
		case 13, 50, 34:
			l, ok := names16(vfU16List16(e.Body), dicttls.DictSignatureSchemeValueIndexed, true)
			if !ok {
				return nil, false
			}
			x["supported_signature_algorithms"] = l
		case 16:
			l := vfProtoList(e.Body)
			for _, p := range l {
				if !utf8.ValidString(p) {
					return nil, false
				}
			}
			x["protocol_name_list"] = l
		case 17513, 17613:
			x["supported_protocols"] = vfProtoList(e.Body)
		case 21:
			x["len"] = len(e.Body)
		case 27:
			l, ok := names16(vfU16List8(e.Body), dicttls.DictCertificateCompressionAlgorithmValueIndexed, false)
			if !ok {
				return nil, false
			}
			x["algorithms"] = l
		case 28:
			if len(e.Body) == 2 {
				x["record_size_limit"] = int(binary.BigEndian.Uint16(e.Body))
			}
		case 24:
			if len(e.Body) < 3 {
				return nil, false
			}
			x["token_binding_version"] = m{"major": int(e.Body[0]), "minor": int(e.Body[1])}
			l := []string{}
			for _, p := range e.Body[3:] {
				n := map[uint8]string{0: "rsa2048_pkcs1.5", 1: "rsa2048_pss", 2: "ecdsap256"}[p]
				if n == "" {
					return nil, false
				}
				l = append(l, n)
			}
			x["key_parameters_list"] = l
		case 41:
			p := h.PSK()
			ids := []m{}
			for i := range p.Identities {
				ids = append(ids, m{"identity": p.Identities[i], "obfuscated_ticket_age": p.Ages[i]})
			}
			x["identities"] = ids
			x["binders"] = p.Binders
		case 43:
			l := []string{}
			for _, v := range vfU16List8(e.Body) {
				switch {
				case vfIsGREASE(v):
					l = append(l, "GREASE")
				case v == 0x0304:
					l = append(l, "TLS 1.3")
				case v == 0x0303:
					l = append(l, "TLS 1.2")
				case v == 0x0302:
					l = append(l, "TLS 1.1")
				case v == 0x0301:
					l = append(l, "TLS 1.0")
				default:
					return nil, false
				}
			}
			x["versions"] = l
		case 45:
			l := []string{}
			if len(e.Body) > 0 {
				for _, p := range e.Body[1:] {
					n, ok := dicttls.DictPSKKeyExchangeModeValueIndexed[p]
					if !ok {
						return nil, false
					}
					l = append(l, n)
				}
			}
			x["ke_modes"] = l
		case 51:
			l := []m{}
			for _, ks := range h.KeyShares() {
				if vfIsGREASE(ks.Group) {
					l = append(l, m{"group": "GREASE", "key_exchange": vf02Ints(ks.Data)})
					continue
				}
				n, ok := dicttls.DictSupportedGroupsValueIndexed[ks.Group]
				if !ok {
					return nil, false
				}
				if vf02ImplGroups[ks.Group] {
					l = append(l, m{"group": n}) // generated per connection
				} else {
					l = append(l, m{"group": n, "key_exchange": vf02Ints(ks.Data)})
				}
			}
			x["client_shares"] = l
		}
		exts = append(exts, x)
	}
	doc["extensions"] = exts
	b, err := json.Marshal(doc)
	if err != nil {
		return nil, false
	}
	return b, true
}
