//go:build verif

package tls

// C26 - concurrent use of a UConn is race-free, deadlock-free and consistent.
//
// Built with -race. One case = one UConn (parrot drawn) talking to upstream's tls.Server (echo loop) over vfPipe,
// used at the same time by 1-4 Handshake/HandshakeContext callers (own contexts), an optional reader, a writer,
// an optional Close/CloseWrite caller and cancellers. The harness owns part of the schedule: per-actor start
// conditions (Gosched counts, "after k bytes crossed the pipe", "after caller 0 returned"), Gosched counts per pipe
// read and the pipe delivery granularity (vfConn.maxRead) are all drawn by rapid.
//
// Oracle (independent of handshakeContext's implementation; only the documented contract is used):
//   - no data race (race runtime kills the process; driver maps it to VIOLATION);
//   - every call returns: bound = I/O deadline (8 s on both pipe ends) + 10 s; a call that outlives the bound with its
//     goroutine parked in a lock / channel operation in two goroutine dumps taken 3 s apart is a hang (VIOLATION);
//     goroutines still runnable => machine too slow => VERIF-INCONCLUSIVE marker + exit (driver: INCONCLUSIVE);
//   - each Handshake result is the shared outcome S (what a final Handshake() reports) or the caller's own ctx.Err()
//     (only if the harness had really cancelled that ctx); nil => handshake complete at return; S == nil <=> complete;
//   - own ctx error => the underlying connection was closed when the call returned;
//   - no Close, no effective CloseWrite and no caller got a ctx error => nothing may have closed the connection:
//     S == nil, pipe open, the writer's data comes back through the echo server (this covers "cancel after
//     HandshakeContext returned has no effect" and cancellations that lost the race against completion).
//
// Schedule-dependent failures cannot be shrunk: the full drawn schedule is part of every violation message and each
// case's schedule is logged to stderr before it runs (so a race report, which halts the process, has it above it).

import (
	"bytes"
	"context"
	"encoding/json"
	"errors"
	"fmt"
	"io"
	"net"
	"os"
	"reflect"
	"regexp"
	"runtime"
	"strings"
	"sync"
	"sync/atomic"
	"testing"
	"time"

	"pgregory.net/rapid"
)

const (
	vf26IODeadline = 8 * time.Second
	vf26HangGrace  = 10 * time.Second
)

// start conditions
const (
	vf26StartNow     = "now"      // after the common barrier + N x Gosched
	vf26StartRdBytes = "rd-bytes" // when the client has read >= K bytes from the pipe (server->client)
	vf26StartWrBytes = "wr-bytes" // when the client has written >= K bytes to the pipe
	vf26StartHS0     = "hs0-done" // when handshake caller 0 returned
	vf26StartHSAll   = "hs-done"  // when all handshake callers returned
)

type vf26Start struct {
	Kind    string `json:"kind"`
	K       int    `json:"k,omitempty"`
	Gosched int    `json:"gosched"`
}

type vf26HSCaller struct {
	Call   string    `json:"call"`   // "Handshake" | "HandshakeContext(bg)" | "HandshakeContext(cancellable)"
	Cancel string    `json:"cancel"` // "" | "before" | "during" | "after"
	CStart vf26Start `json:"cancel_at"`
	Start  vf26Start `json:"start"`
}

type vf26Sched struct {
	Parrot    string         `json:"parrot"`
	ServerMax uint16         `json:"server_max"`
	Cache     bool           `json:"session_cache"`
	HS        []vf26HSCaller `json:"hs"`
	Reader    bool           `json:"reader"`
	RStart    vf26Start      `json:"reader_start"`
	RBuf      int            `json:"reader_buf"`
	WStart    vf26Start      `json:"writer_start"`
	WChunks   []int          `json:"writer_chunks"`
	Closer    string         `json:"closer"` // "" | "Close" | "CloseWrite"
	CStart    vf26Start      `json:"closer_start"`
	Gran      []int          `json:"pipe_max_read"`    // cyclic; 0 = unlimited
	Yields    []int          `json:"pipe_read_yields"` // cyclic Gosched count before each client pipe read
}

func (s *vf26Sched) String() string {
	b, _ := json.Marshal(s)
	return string(b)
}

// ---- byte-count triggers on the client end of the pipe ----

type vf26Waiter struct {
	onWrite bool
	n       int
	ch      chan struct{}
	fired   bool
}

type vf26Trig struct {
	mu      sync.Mutex
	rd, wr  int
	waiters []*vf26Waiter
}

func (t *vf26Trig) add(onWrite bool, n int) <-chan struct{} {
	w := &vf26Waiter{onWrite: onWrite, n: n, ch: make(chan struct{})}
	t.mu.Lock()
	if n <= 0 {
		w.fired = true
		close(w.ch)
	}
	t.waiters = append(t.waiters, w)
	t.mu.Unlock()
	return w.ch
}

func (t *vf26Trig) note(onWrite bool, n int) {
	t.mu.Lock()
	if onWrite {
		t.wr += n
	} else {
		t.rd += n
	}
	for _, w := range t.waiters {
		if w.fired || w.onWrite != onWrite {
			continue
		}
		tot := t.rd
		if onWrite {
			tot = t.wr
		}
		if tot >= w.n {
			w.fired = true
			close(w.ch)
		}
	}
	t.mu.Unlock()
}

// vf26Conn is the client's net.Conn: vfConn + byte counters + drawn yields before each pipe read.
type vf26Conn struct {
	*vfConn
	trig   *vf26Trig
	yields []int
	yi     atomic.Int64
}

func (c *vf26Conn) Read(p []byte) (int, error) {
	if len(c.yields) > 0 {
		y := c.yields[int(c.yi.Add(1))%len(c.yields)]
		for i := 0; i < y; i++ {
			runtime.Gosched()
		}
	}
	n, err := c.vfConn.Read(p)
	if n > 0 {
		c.trig.note(false, n)
	}
	return n, err
}

func (c *vf26Conn) Write(p []byte) (int, error) {
	n, err := c.vfConn.Write(p)
	if n > 0 {
		c.trig.note(true, n)
	}
	return n, err
}

// ---- generators ----

func vf26GenStart(rt *rapid.T, label string, allowLate bool) vf26Start {
	kinds := []string{vf26StartNow, vf26StartNow, vf26StartRdBytes, vf26StartRdBytes, vf26StartWrBytes, vf26StartHS0}
	if allowLate {
		kinds = append(kinds, vf26StartHSAll)
	}
	s := vf26Start{Kind: kinds[rapid.IntRange(0, len(kinds)-1).Draw(rt, label+"_kind")]}
	switch s.Kind {
	case vf26StartRdBytes:
		// a server flight is roughly 0.1 KB (ServerHello) .. 1.5 KB; bias towards record boundaries and small values
		s.K = rapid.OneOf(rapid.IntRange(1, 8), rapid.IntRange(1, 200), rapid.IntRange(1, 1600)).Draw(rt, label+"_k")
	case vf26StartWrBytes:
		s.K = rapid.OneOf(rapid.IntRange(1, 8), rapid.IntRange(1, 600), rapid.IntRange(500, 2500)).Draw(rt, label+"_k")
	}
	s.Gosched = rapid.OneOf(rapid.Just(0), rapid.IntRange(0, 20), rapid.IntRange(0, 400)).Draw(rt, label+"_g")
	return s
}

var vf26Parrots = append([]vfParrot{{"HelloGolang", HelloGolang}}, vfParrots...)

func vf26GenSched(rt *rapid.T) *vf26Sched {
	s := &vf26Sched{}
	s.Parrot = vf26Parrots[rapid.IntRange(0, len(vf26Parrots)-1).Draw(rt, "parrot")].Name
	s.ServerMax = []uint16{VersionTLS13, VersionTLS13, VersionTLS12}[rapid.IntRange(0, 2).Draw(rt, "server_max")]
	s.Cache = rapid.Bool().Draw(rt, "cache")
	n := rapid.IntRange(1, 4).Draw(rt, "n_hs")
	for i := 0; i < n; i++ {
		l := fmt.Sprintf("hs%d", i)
		c := vf26HSCaller{}
		c.Call = []string{"Handshake", "HandshakeContext(bg)", "HandshakeContext(cancellable)", "HandshakeContext(cancellable)"}[rapid.IntRange(0, 3).Draw(rt, l+"_call")]
		if c.Call == "HandshakeContext(cancellable)" {
			c.Cancel = []string{"", "before", "during", "during", "after", "after"}[rapid.IntRange(0, 5).Draw(rt, l+"_cancel")]
			if c.Cancel != "" {
				c.CStart = vf26GenStart(rt, l+"_cancel_at", true)
				if c.Cancel != "during" {
					c.CStart.Kind, c.CStart.K = vf26StartNow, 0
				}
			}
		}
		c.Start = vf26GenStart(rt, l+"_start", false)
		if i == 0 {
			// caller 0 never waits for an event (somebody has to start the handshake)
			c.Start.Kind, c.Start.K = vf26StartNow, 0
		}
		s.HS = append(s.HS, c)
	}
	s.Reader = rapid.IntRange(0, 3).Draw(rt, "reader") != 0
	if s.Reader {
		s.RStart = vf26GenStart(rt, "reader_start", true)
		s.RBuf = rapid.OneOf(rapid.IntRange(1, 16), rapid.IntRange(1, 4096)).Draw(rt, "reader_buf")
	}
	s.WStart = vf26GenStart(rt, "writer_start", true)
	s.WChunks = rapid.SliceOfN(rapid.OneOf(rapid.IntRange(1, 32), rapid.IntRange(1, 3000), rapid.Just(17000)), 1, 3).Draw(rt, "writer_chunks")
	s.Closer = []string{"", "", "", "Close", "Close", "CloseWrite"}[rapid.IntRange(0, 5).Draw(rt, "closer")]
	if s.Closer != "" {
		s.CStart = vf26GenStart(rt, "closer_start", true)
		if s.Closer == "CloseWrite" && rapid.IntRange(0, 3).Draw(rt, "closewrite_late") != 0 {
			// CloseWrite before completion is a no-op (errEarlyCloseWrite): bias it towards the completed connection
			s.CStart.Kind, s.CStart.K = []string{vf26StartHS0, vf26StartHSAll}[rapid.IntRange(0, 1).Draw(rt, "closewrite_when")], 0
		}
	}
	s.Gran = rapid.SliceOfN(rapid.OneOf(rapid.Just(0), rapid.IntRange(1, 5), rapid.IntRange(1, 600)), 1, 4).Draw(rt, "pipe_max_read")
	s.Yields = rapid.SliceOfN(rapid.OneOf(rapid.Just(0), rapid.IntRange(0, 30)), 1, 4).Draw(rt, "pipe_read_yields")
	return s
}

// ---- one case ----

type vf26Result struct {
	HSErr      []error // per caller
	HSClosed   []bool  // underlying conn closed when the call returned
	HSComplete []bool  // isHandshakeComplete when the call returned
	HSCancel   []bool  // harness had called cancel() of that caller's ctx before the call returned
	CtxErr     []error // ctx.Err() of the caller's ctx sampled right after the call returned

	ReaderGot []byte
	ReaderErr error
	WriterN   int
	WriterErr error
	CloserErr error
	CloserRan bool

	FinalErr      error
	FinalComplete bool
	PipeClosed    bool
	PostGot       []byte
	PostErr       error

	Hang string // non-empty: goroutine analysis of a call that did not return
	Slow string // non-empty: bound exceeded but goroutines still runnable
}

func vf26Pattern(n int, seed byte) []byte {
	b := make([]byte, n)
	for i := range b {
		b[i] = seed + byte(i*7)
	}
	return b
}

func vf26IsTimeout(err error) bool {
	if err == nil {
		return false
	}
	if errors.Is(err, os.ErrDeadlineExceeded) {
		return true
	}
	var ne net.Error
	return errors.As(err, &ne) && ne.Timeout()
}

func vf26SameErr(a, b error) bool {
	if a == nil || b == nil {
		return a == nil && b == nil
	}
	ta, tb := reflect.TypeOf(a), reflect.TypeOf(b)
	if ta != tb {
		return false
	}
	if ta.Comparable() && a == b {
		return true
	}
	return a.Error() == b.Error()
}

var vf26GoroutineHdr = regexp.MustCompile(`(?m)^goroutine (\d+) \[([^\],]+)(?:, [^\]]*)?\]:$`)

// vf26ActorMarker identifies the goroutines running calls under test in a goroutine dump.
var vf26ActorMarker = "vf26RunCase.func"

// vf26Stuck returns, for a full goroutine dump, id -> state of the goroutines running harness actor code of C26.
func vf26Stuck(dump string) map[string]string {
	out := map[string]string{}
	for _, g := range strings.Split(dump, "\n\n") {
		// actor goroutines = goroutines started by vf26RunCase that are inside a call under test
		if !strings.Contains(g, vf26ActorMarker) || strings.Contains(g, "vf26Watch") {
			continue
		}
		if !strings.Contains(g, "tls.(*UConn).") && !strings.Contains(g, "tls.(*Conn).Close") &&
			!strings.Contains(g, "tls.(*Conn).ConnectionState") {
			continue
		}
		m := vf26GoroutineHdr.FindStringSubmatch(g)
		if m == nil {
			continue
		}
		out[m[1]] = m[2]
	}
	return out
}

func vf26Dump() string {
	buf := make([]byte, 4<<20)
	return string(buf[:runtime.Stack(buf, true)])
}

// vf26Watch waits for wg (all actors) with the hang bound. It returns hang/slow descriptions (both empty = all returned).
func vf26Watch(done <-chan struct{}, bound time.Duration) (hang, slow string) {
	tm := time.NewTimer(bound)
	defer tm.Stop()
	select {
	case <-done:
		return "", ""
	case <-tm.C:
	}
	d1 := vf26Dump()
	s1 := vf26Stuck(d1)
	select {
	case <-done:
		return "", fmt.Sprintf("actors returned only after the bound of %v (states at the bound: %v)", bound, s1)
	case <-time.After(3 * time.Second):
	}
	d2 := vf26Dump()
	s2 := vf26Stuck(d2)
	parked := 0
	var desc []string
	for id, st2 := range s2 {
		st1, ok := s1[id]
		if !ok {
			continue
		}
		desc = append(desc, fmt.Sprintf("g%s:%s/%s", id, st1, st2))
		switch st2 {
		case "running", "runnable", "syscall", "sleep", "IO wait":
		default:
			if st1 == st2 {
				parked++
			}
		}
	}
	if parked > 0 && parked == len(desc) {
		return fmt.Sprintf("calls did not return %v after the I/O deadline; %d actor goroutines parked in both dumps (%s)\n%s",
			vf26HangGrace, parked, strings.Join(desc, " "), vf26TrimDump(d2)), ""
	}
	return "", fmt.Sprintf("bound exceeded but actor goroutines not all parked (%s)\n%s", strings.Join(desc, " "), vf26TrimDump(d2))
}

func vf26TrimDump(d string) string {
	var keep []string
	for _, g := range strings.Split(d, "\n\n") {
		if strings.Contains(g, "vf26") || strings.Contains(g, "handshakeContext") {
			if len(g) > 2500 {
				g = g[:2500] + "\n\t..."
			}
			keep = append(keep, g)
		}
	}
	s := strings.Join(keep, "\n\n")
	if len(s) > 30000 {
		s = s[:30000]
	}
	return s
}

// vf26Inconclusive: the machine was too slow to decide; the driver maps the VERIF-INCONCLUSIVE marker of a failed
// worker to INCONCLUSIVE (exit 2).
func vf26Inconclusive(st *vfStats, msg string) {
	fmt.Fprintf(os.Stderr, "VERIF-INCONCLUSIVE C26: %s\n", msg)
	st.Flush()
	os.Exit(3)
}

// vf26HardFail is used for hangs: goroutines are leaked, so neither shrinking nor re-running makes sense.
type vf26HardFail struct{}

func (vf26HardFail) Helper() {}
func (vf26HardFail) Fatalf(format string, args ...any) {
	fmt.Fprintf(os.Stderr, "--- FAIL: "+format+"\n", args...)
	os.Exit(1)
}

func vf26ParrotByName(name string) vfParrot {
	for _, p := range vf26Parrots {
		if p.Name == name {
			return p
		}
	}
	panic("unknown parrot " + name)
}

type vf26Env struct {
	barrier   chan struct{}
	hs0Done   chan struct{}
	hsAllDone chan struct{}
	abort     chan struct{}
	trig      *vf26Trig
}

// prepare must be called before the barrier opens (registers byte triggers).
func (e *vf26Env) prepare(s vf26Start) <-chan struct{} {
	switch s.Kind {
	case vf26StartRdBytes:
		return e.trig.add(false, s.K)
	case vf26StartWrBytes:
		return e.trig.add(true, s.K)
	}
	return nil
}

// wait blocks until the start condition holds. Byte triggers fall through when fallback closes (so that a handshake
// that ends early never leaves an actor waiting).
func (e *vf26Env) wait(s vf26Start, ch <-chan struct{}, fallback <-chan struct{}) {
	select {
	case <-e.barrier:
	case <-e.abort:
		return
	}
	switch s.Kind {
	case vf26StartRdBytes, vf26StartWrBytes:
		select {
		case <-ch:
		case <-fallback:
		case <-e.abort:
		}
	case vf26StartHS0:
		select {
		case <-e.hs0Done:
		case <-e.abort:
		}
	case vf26StartHSAll:
		select {
		case <-e.hsAllDone:
		case <-e.abort:
		}
	}
	for i := 0; i < s.Gosched; i++ {
		runtime.Gosched()
	}
}

func vf26RunCase(s *vf26Sched) *vf26Result {
	par := vf26ParrotByName(s.Parrot)
	scfg := vfServerConfig("ecdsa", "example.test")
	scfg.MaxVersion = s.ServerMax
	ccfg := vfClientConfig("example.test")
	if vfIsPSKParrot(par) {
		ccfg.OmitEmptyPsk = true
	}
	if s.Cache {
		ccfg.ClientSessionCache = NewLRUClientSessionCache(4)
	}

	cp, sp := vfPipe()
	var gi atomic.Int64
	gran := append([]int(nil), s.Gran...)
	cp.maxRead = func() int { return gran[int(gi.Add(1))%len(gran)] }
	dl := time.Now().Add(vf26IODeadline)
	cp.SetDeadline(dl)
	sp.SetDeadline(dl)
	trig := &vf26Trig{}
	cc := &vf26Conn{vfConn: cp, trig: trig, yields: append([]int(nil), s.Yields...)}
	uc := UClient(cc, ccfg, par.ID)
	srv := Server(sp, scfg)

	env := &vf26Env{barrier: make(chan struct{}), hs0Done: make(chan struct{}), hsAllDone: make(chan struct{}),
		abort: make(chan struct{}), trig: trig}
	n := len(s.HS)
	res := &vf26Result{HSErr: make([]error, n), HSClosed: make([]bool, n), HSComplete: make([]bool, n),
		HSCancel: make([]bool, n), CtxErr: make([]error, n)}

	var actors sync.WaitGroup // client-side actors (the calls under test)
	var helpers sync.WaitGroup

	// server: handshake + echo until error
	helpers.Add(1)
	go func() {
		defer helpers.Done()
		defer sp.Close()
		if err := srv.Handshake(); err != nil {
			return
		}
		buf := make([]byte, 4096)
		for {
			k, err := srv.Read(buf)
			if k > 0 {
				if _, werr := srv.Write(buf[:k]); werr != nil {
					return
				}
			}
			if err != nil {
				return
			}
		}
	}()

	// handshake callers
	var hsWG sync.WaitGroup
	cancels := make([]context.CancelFunc, n)
	cancelled := make([]atomic.Bool, n)
	for i := range s.HS {
		i := i
		c := s.HS[i]
		ctx := context.Background()
		if c.Call == "HandshakeContext(cancellable)" {
			ctx, cancels[i] = context.WithCancel(context.Background())
		}
		startCh := env.prepare(c.Start)
		callerDone := make(chan struct{})
		if c.Cancel == "during" {
			cch := env.prepare(c.CStart)
			helpers.Add(1)
			go func() { // canceller
				defer helpers.Done()
				env.wait(c.CStart, cch, callerDone)
				cancelled[i].Store(true)
				cancels[i]()
			}()
		}
		actors.Add(1)
		hsWG.Add(1)
		go func() { // actor: handshake caller
			defer actors.Done()
			defer hsWG.Done()
			defer close(callerDone)
			if i == 0 {
				defer close(env.hs0Done)
			}
			env.wait(c.Start, startCh, env.hs0Done)
			if c.Cancel == "before" {
				cancelled[i].Store(true)
				cancels[i]()
			}
			var err error
			switch c.Call {
			case "Handshake":
				err = uc.Handshake()
			default:
				err = uc.HandshakeContext(ctx)
			}
			res.HSCancel[i] = cancelled[i].Load()
			res.HSClosed[i] = cp.IsClosed()
			res.HSComplete[i] = uc.isHandshakeComplete.Load()
			res.CtxErr[i] = ctx.Err()
			res.HSErr[i] = err
			if c.Cancel == "after" {
				for k := 0; k < c.CStart.Gosched; k++ {
					runtime.Gosched()
				}
				cancelled[i].Store(true)
				cancels[i]()
			}
		}()
	}
	helpers.Add(1)
	go func() { defer helpers.Done(); hsWG.Wait(); close(env.hsAllDone) }()

	// writer
	total := 0
	for _, c := range s.WChunks {
		total += c
	}
	msg := vf26Pattern(total, byte(len(s.Parrot)))
	{
		ch := env.prepare(s.WStart)
		actors.Add(1)
		go func() { // actor: writer
			defer actors.Done()
			env.wait(s.WStart, ch, env.hsAllDone)
			off := 0
			for _, c := range s.WChunks {
				k, err := uc.Write(msg[off : off+c])
				res.WriterN += k
				if err != nil {
					res.WriterErr = err
					return
				}
				off += c
			}
		}()
	}
	// reader
	if s.Reader {
		ch := env.prepare(s.RStart)
		actors.Add(1)
		go func() { // actor: reader
			defer actors.Done()
			env.wait(s.RStart, ch, env.hsAllDone)
			buf := make([]byte, s.RBuf)
			for len(res.ReaderGot) < total {
				k, err := uc.Read(buf)
				res.ReaderGot = append(res.ReaderGot, buf[:k]...)
				if err != nil {
					res.ReaderErr = err
					return
				}
			}
		}()
	}
	// closer
	if s.Closer != "" {
		ch := env.prepare(s.CStart)
		actors.Add(1)
		go func() { // actor: closer
			defer actors.Done()
			env.wait(s.CStart, ch, env.hsAllDone)
			if s.Closer == "Close" {
				res.CloserErr = uc.Close()
			} else {
				res.CloserErr = uc.CloseWrite()
			}
			res.CloserRan = true
		}()
	}

	allDone := make(chan struct{})
	go func() { actors.Wait(); close(allDone) }()
	close(env.barrier)
	bound := time.Until(dl) + vf26HangGrace
	res.Hang, res.Slow = vf26Watch(allDone, bound)
	if res.Hang != "" || res.Slow != "" {
		close(env.abort)
		for _, c := range cancels {
			if c != nil {
				c()
			}
		}
		cp.Close()
		sp.Close()
		return res
	}

	// all calls under test have returned: final state (sequential from here on)
	post := make(chan struct{})
	go func() { // bounded like everything else
		defer close(post)
		res.FinalErr = uc.Handshake()
		res.FinalComplete = uc.ConnectionState().HandshakeComplete
		res.PipeClosed = cp.IsClosed()
		closerEffective := s.Closer == "Close" || (s.Closer == "CloseWrite" && res.CloserErr != errEarlyCloseWrite)
		if !s.Reader && res.FinalErr == nil && res.WriterErr == nil && !res.PipeClosed && !closerEffective {
			// nobody consumed the echo yet: do it now (also proves the connection still works after late cancels)
			buf := make([]byte, 4096)
			for len(res.PostGot) < total {
				k, err := uc.Read(buf)
				res.PostGot = append(res.PostGot, buf[:k]...)
				if err != nil {
					res.PostErr = err
					return
				}
			}
		}
	}()
	res.Hang, res.Slow = vf26Watch(post, time.Until(dl)+vf26HangGrace)
	for _, c := range cancels {
		if c != nil {
			c()
		}
	}
	close(env.abort)
	cp.Close()
	sp.Close()
	if res.Hang == "" && res.Slow == "" {
		hd := make(chan struct{})
		go func() { helpers.Wait(); close(hd) }()
		select {
		case <-hd:
		case <-time.After(vf26IODeadline + vf26HangGrace):
			res.Slow = "harness helper goroutines (server/cancellers) did not end"
		}
	}
	return res
}

// vf26Judge applies the oracle. It returns the violation text ("" = property held) and whether the case had to be
// left undecided because the I/O deadline itself was hit (slow machine).
func vf26Judge(s *vf26Sched, r *vf26Result, st *vfStats) (violation string, deadlineHit bool) {
	anyCtxErr := false
	for i, c := range s.HS {
		err := r.HSErr[i]
		if err == nil {
			if !r.HSComplete[i] {
				return fmt.Sprintf("caller %d (%s) returned nil but the handshake was not complete", i, c.Call), false
			}
			continue
		}
		if vf26IsTimeout(err) {
			deadlineHit = true
		}
		own := r.CtxErr[i] != nil && err == r.CtxErr[i]
		if own && !vf26SameErr(err, r.FinalErr) {
			// the caller's own context error
			anyCtxErr = true
			if !r.HSCancel[i] {
				return fmt.Sprintf("caller %d (%s) returned %v although its context had not been cancelled", i, c.Call, err), false
			}
			if !r.HSClosed[i] {
				return fmt.Sprintf("caller %d (%s) returned its context error %v but the connection was not closed", i, c.Call, err), false
			}
			continue
		}
		if errors.Is(err, context.Canceled) && r.CtxErr[i] == nil && !vf26SameErr(err, r.FinalErr) {
			return fmt.Sprintf("caller %d (%s) returned %v although its own context is not cancelled (ctx.Err()==nil)", i, c.Call, err), false
		}
		// otherwise it must be the shared outcome
		if !vf26SameErr(err, r.FinalErr) {
			return fmt.Sprintf("caller %d (%s) returned %T %q which is neither its context's error (%v) nor the shared outcome %T %q",
				i, c.Call, err, err.Error(), r.CtxErr[i], r.FinalErr, fmt.Sprint(r.FinalErr)), false
		}
	}
	if (r.FinalErr == nil) != r.FinalComplete {
		return fmt.Sprintf("shared outcome %v but ConnectionState.HandshakeComplete=%v", r.FinalErr, r.FinalComplete), false
	}
	if vf26IsTimeout(r.FinalErr) {
		deadlineHit = true
	}
	for i := range s.HS {
		if r.HSErr[i] == nil && r.FinalErr != nil {
			return fmt.Sprintf("caller %d returned nil but the shared outcome is %v", i, r.FinalErr), false
		}
	}
	if anyCtxErr {
		st.Class("some-caller-got-ctx-error")
	}

	closerEffective := s.Closer == "Close" || (s.Closer == "CloseWrite" && r.CloserErr != errEarlyCloseWrite)
	if s.Closer == "CloseWrite" && r.CloserErr == errEarlyCloseWrite {
		st.Class("closewrite-early(no-effect)")
	}
	if closerEffective || anyCtxErr {
		// the connection was legitimately shut down at some point: only "returned" and the result shapes are required
		return "", deadlineHit
	}

	// Nothing was allowed to close the connection.
	st.Class("healthy-expected")
	if vf26IsTimeout(r.WriterErr) || vf26IsTimeout(r.ReaderErr) || vf26IsTimeout(r.PostErr) {
		deadlineHit = true
	}
	if deadlineHit {
		return "", true
	}
	what := "no Close/CloseWrite took effect and no caller returned a context error"
	if r.FinalErr != nil {
		return fmt.Sprintf("%s, yet the handshake failed: %T %v", what, r.FinalErr, r.FinalErr), false
	}
	if r.PipeClosed {
		return what + ", yet the underlying connection has been closed", false
	}
	total := 0
	for _, c := range s.WChunks {
		total += c
	}
	msg := vf26Pattern(total, byte(len(s.Parrot)))
	if r.WriterErr != nil || r.WriterN != total {
		return fmt.Sprintf("%s, yet Write failed after %d/%d bytes: %v", what, r.WriterN, total, r.WriterErr), false
	}
	got, gerr := r.PostGot, r.PostErr
	if s.Reader {
		got, gerr = r.ReaderGot, r.ReaderErr
	}
	if gerr != nil {
		return fmt.Sprintf("%s, yet Read failed after %d/%d echoed bytes: %v", what, len(got), total, gerr), false
	}
	if !bytes.Equal(got, msg) {
		return fmt.Sprintf("%s, yet the echoed data differs (%d bytes, want %d)", what, len(got), total), false
	}
	return "", false
}

func vf26Classes(s *vf26Sched, r *vf26Result, st *vfStats) (nontrivial bool) {
	st.Class(fmt.Sprintf("hs-callers=%d", len(s.HS)))
	st.Class(fmt.Sprintf("server-max=%#04x", s.ServerMax))
	during := false
	for i, c := range s.HS {
		if c.Cancel != "" {
			st.Class("cancel-" + c.Cancel)
		}
		if c.Cancel == "during" || c.Cancel == "before" {
			if r.HSErr[i] != nil && r.CtxErr[i] != nil && r.HSErr[i] == r.CtxErr[i] {
				st.Class("cancel-" + c.Cancel + "-won(ctx error returned)")
				during = true
			} else if r.HSErr[i] == nil {
				st.Class("cancel-" + c.Cancel + "-lost(nil returned)")
			}
		}
	}
	if s.Closer != "" {
		st.Class("closer=" + s.Closer)
	} else {
		st.Class("closer=none")
	}
	if s.Reader {
		st.Class("reader")
	}
	if r.FinalErr == nil {
		st.Class("outcome=complete")
	} else {
		st.Class("outcome=failed")
	}
	return len(s.HS) >= 2 || during
}

func vf26Check(t vfFataler, st *vfStats, s *vf26Sched) {
	st.Eval()
	fmt.Fprintf(os.Stderr, "vf26-case %s\n", s)
	r := vf26RunCase(s)
	if r.Hang != "" {
		st.Violation(vf26HardFail{}, "HANG: %s\nschedule: %s", r.Hang, s)
	}
	if r.Slow != "" {
		vf26Inconclusive(st, r.Slow+"\nschedule: "+s.String())
	}
	if vf26Classes(s, r, st) {
		st.NonTrivial(vfHashHex([]byte(s.String())))
	}
	hsRes := make([]string, len(r.HSErr))
	for i, e := range r.HSErr {
		hsRes[i] = fmt.Sprint(e)
	}
	st.Sample(map[string]any{"schedule": s, "handshake_results": hsRes, "shared_outcome": fmt.Sprint(r.FinalErr),
		"writer": fmt.Sprintf("%d bytes, %v", r.WriterN, r.WriterErr), "closer": fmt.Sprint(r.CloserErr)})
	v, dlHit := vf26Judge(s, r, st)
	if v != "" {
		errs := make([]string, len(r.HSErr))
		for i, e := range r.HSErr {
			errs[i] = fmt.Sprintf("%d:%v(cancelled=%v closed=%v complete=%v)", i, e, r.HSCancel[i], r.HSClosed[i], r.HSComplete[i])
		}
		st.Violation(t, "%s\nresults: hs=[%s] writer=%d,%v reader=%d,%v closer=%v final=%v pipeClosed=%v\nschedule: %s",
			v, strings.Join(errs, " "), r.WriterN, r.WriterErr, len(r.ReaderGot), r.ReaderErr, r.CloserErr, r.FinalErr, r.PipeClosed, s)
	}
	if dlHit {
		st.Class("deadline-hit(undecided)")
		// A healthy case (nothing may close the connection, the peer echoes) whose handshake COMPLETED but whose reader
		// or writer was only released by the 8 s I/O deadline is a deadlock among the connection's own goroutines, unless
		// the machine is just slow. Re-execute the schedule once: the same stall twice, each time with a completed
		// handshake, is reported; a single stall stays undecided.
		stalled := func(x *vf26Result) bool {
			return x.FinalErr == nil && x.FinalComplete && (vf26IsTimeout(x.WriterErr) || vf26IsTimeout(x.ReaderErr))
		}
		closerEffective := s.Closer == "Close" || (s.Closer == "CloseWrite" && r.CloserErr != errEarlyCloseWrite)
		anyCtx := false
		for i := range r.HSErr {
			if r.CtxErr[i] != nil && r.HSErr[i] == r.CtxErr[i] {
				anyCtx = true
			}
		}
		if !closerEffective && !anyCtx && stalled(r) {
			r2 := vf26RunCase(s)
			closer2 := s.Closer == "Close" || (s.Closer == "CloseWrite" && r2.CloserErr != errEarlyCloseWrite)
			if r2.Hang == "" && r2.Slow == "" && !closer2 && stalled(r2) {
				st.Violation(t, "DEADLOCK until the I/O deadline, twice in a row: the handshake completed, nothing closed the connection, yet reader/writer were only released by the %v deadline (writer=%d,%v reader=%d,%v; second run writer=%d,%v reader=%d,%v)\nschedule: %s",
					vf26IODeadline, r.WriterN, r.WriterErr, len(r.ReaderGot), r.ReaderErr, r2.WriterN, r2.WriterErr, len(r2.ReaderGot), r2.ReaderErr, s)
			}
			st.Class("stall-not-reproduced")
		}
	}
}

func TestVerifC26Concurrent(t *testing.T) {
	st := vfNewStats(t, "C26")
	rapid.Check(t, func(rt *rapid.T) {
		s := vf26GenSched(rt)
		vf26Check(rt, st, s)
	})
	st.mu.Lock()
	dl, ev := st.classes["deadline-hit(undecided)"], st.evals
	st.mu.Unlock()
	if ev > 0 && dl*5 > int(ev) {
		vf26Inconclusive(st, fmt.Sprintf("%d of %d cases hit the I/O deadline: machine too slow to decide", dl, ev))
	}
}

// Directed, deterministic schedules: the contract in the simplest settings, for every parrot.
func TestVerifC26Directed(t *testing.T) {
	st := vfNewStats(t, "C26")
	now := vf26Start{Kind: vf26StartNow}
	for pi, p := range vf26Parrots {
		if !vfThorough() && pi%4 != 0 && !vfIsPSKParrot(p) {
			continue
		}
		for _, max := range []uint16{VersionTLS13, VersionTLS12} {
			base := func() *vf26Sched {
				return &vf26Sched{Parrot: p.Name, ServerMax: max, WStart: vf26Start{Kind: vf26StartHSAll}, WChunks: []int{100},
					Gran: []int{0}, Yields: []int{0}}
			}
			// 1. one cancellable caller, cancel after return, then I/O
			s := base()
			s.HS = []vf26HSCaller{{Call: "HandshakeContext(cancellable)", Cancel: "after", Start: now, CStart: now}}
			vf26Check(t, st, s)
			// 2. four concurrent callers + reader + writer from the start
			s = base()
			s.HS = []vf26HSCaller{{Call: "Handshake", Start: now}, {Call: "HandshakeContext(bg)", Start: now},
				{Call: "HandshakeContext(cancellable)", Start: now}, {Call: "HandshakeContext(cancellable)", Cancel: "after", Start: now, CStart: now}}
			s.Reader, s.RStart, s.RBuf, s.WStart = true, now, 64, now
			vf26Check(t, st, s)
			// 3. cancelled before the call, with a second caller that must see the shared outcome or success
			s = base()
			s.HS = []vf26HSCaller{{Call: "HandshakeContext(cancellable)", Cancel: "before", Start: now, CStart: now},
				{Call: "Handshake", Start: vf26Start{Kind: vf26StartHS0}}}
			vf26Check(t, st, s)
			// 4. cancelled after the first server bytes arrived; Close once everything returned
			s = base()
			s.HS = []vf26HSCaller{{Call: "HandshakeContext(cancellable)", Cancel: "during", Start: now, CStart: vf26Start{Kind: vf26StartRdBytes, K: 5}},
				{Call: "Handshake", Start: vf26Start{Kind: vf26StartWrBytes, K: 1}}}
			s.Gran = []int{5}
			s.Closer, s.CStart = "Close", vf26Start{Kind: vf26StartHSAll}
			vf26Check(t, st, s)
		}
	}
}

var _ = io.EOF
