//go:build verif

package tls

// C33 - hostile server input never crashes or hangs a uTLS client.

import (
	"bytes"
	"fmt"
	"runtime"
	"testing"
	"time"

	"pgregory.net/rapid"
)

// bytes allocated per case (TotalAlloc delta of the whole process: client, scripted server and the in-memory pipe with its
// recorder) must stay below this base plus a multiple of what the server actually put on the wire (the harness itself copies
// every written byte several times: mutation, record layer, recorder, pipe buffer growth)
const vf33AllocBound = 8 << 20
const vf33AllocPerWireByte = 10

type vf33Mut struct {
	Msg  int // index of the outgoing handshake message it applies to
	Kind string
	A, B int // parameters (per-mille positions, values)
}

func (m vf33Mut) String() string { return fmt.Sprintf("%s@%d(%d,%d)", m.Kind, m.Msg, m.A, m.B) }

var vf33MutKinds = []string{"flip", "truncate-consistent", "truncate-lying", "hdrlen", "overwrite16", "overwrite8", "insert", "append-fixlen", "retype", "duplicate", "drop", "zero-body", "grow-huge", "empty-vectors"}

func vf33GenMuts(t *rapid.T, maxMsg int) []vf33Mut {
	n := rapid.IntRange(1, 3).Draw(t, "nmut")
	var out []vf33Mut
	for i := 0; i < n; i++ {
		out = append(out, vf33Mut{
			Msg:  rapid.IntRange(0, maxMsg).Draw(t, fmt.Sprintf("mmsg%d", i)),
			Kind: vf33MutKinds[rapid.IntRange(0, len(vf33MutKinds)-1).Draw(t, fmt.Sprintf("mkind%d", i))],
			A:    rapid.IntRange(0, 1000).Draw(t, fmt.Sprintf("ma%d", i)),
			B:    rapid.IntRange(0, 0xffff).Draw(t, fmt.Sprintf("mb%d", i)),
		})
	}
	return out
}

func vf33SetHdrLen(raw []byte, n int) {
	if len(raw) >= 4 {
		raw[1], raw[2], raw[3] = byte(n>>16), byte(n>>8), byte(n)
	}
}

// vf33Apply applies one mutation to a handshake message (4-byte header + body); deterministic.
func vf33Apply(raw []byte, m vf33Mut) []byte {
	if len(raw) < 4 {
		return raw
	}
	out := append([]byte(nil), raw...)
	body := len(out) - 4
	pos := 4
	if body > 0 {
		pos = 4 + (body-1)*m.A/1000
	}
	special16 := []uint16{0, 1, 0xffff, 0x7fff, 0x8000, uint16(body), uint16(body + 1), uint16(body - 1), 0x0100, 0x4000}
	switch m.Kind {
	case "flip":
		if body > 0 {
			out[pos] ^= 1 << uint(m.B%8)
		}
	case "truncate-consistent":
		out = out[:pos]
		vf33SetHdrLen(out, len(out)-4)
	case "truncate-lying":
		out = out[:pos]
	case "hdrlen":
		vals := []int{0, body - 1, body + 1, body + 100, 0xffffff, 0x10000, 0x40001, 1 << 20}
		v := vals[m.B%len(vals)]
		if v < 0 {
			v = 0
		}
		vf33SetHdrLen(out, v)
	case "overwrite16":
		if pos+1 < len(out) {
			v := special16[m.B%len(special16)]
			out[pos], out[pos+1] = byte(v>>8), byte(v)
		}
	case "overwrite8":
		if body > 0 {
			out[pos] = []byte{0, 1, 0xff, 0x7f, 0x80, byte(body)}[m.B%6]
		}
	case "insert":
		ins := bytes.Repeat([]byte{byte(m.B)}, 1+m.B%40)
		out = append(out[:pos], append(ins, out[pos:]...)...)
		vf33SetHdrLen(out, len(out)-4)
	case "append-fixlen":
		// an extension-looking tail: type, length, data
		tail := []byte{byte(m.B >> 8), byte(m.B), 0, 3, 1, 2, 3}
		out = append(out, tail...)
		vf33SetHdrLen(out, len(out)-4)
	case "retype":
		out[0] = []byte{0, 1, 2, 4, 5, 8, 11, 12, 13, 14, 15, 16, 20, 21, 22, 24, 25, 67, 254, 255}[m.B%20]
	case "duplicate":
		out = append(out, raw...)
	case "drop":
		return nil
	case "zero-body":
		out = out[:4]
		vf33SetHdrLen(out, 0)
	case "empty-vectors":
		// a structurally valid message whose vectors are all empty: N zero bytes read as empty length-prefixed lists
		// (Certificate with an empty certificate_list = 3, CertificateRequest = 5, NewSessionTicket = 6, ...)
		n := []int{3, 3, 5, 6, 4, 7}[m.B%6]
		out = append(out[:4:4], make([]byte, n)...)
		vf33SetHdrLen(out, n)
	case "grow-huge":
		// declared sizes up to 2^24-1 with a body that really is large (bounded so that the harness stays cheap)
		n := []int{70000, 300000, 1 << 20}[m.B%3]
		out = append(out, make([]byte, n)...)
		vf33SetHdrLen(out, len(out)-4)
	}
	return out
}

type vf33Outcome struct {
	CliErr   error
	ReadErr  error
	Panic    *vfPanic
	Hang     bool
	Alloc    uint64
	Wire     uint64 // bytes the server side wrote
	Harness  uint64 // bytes produced by the harness' mutators
	Quiesced bool
}

// bound: Wire = bytes delivered to the client; Harness = bytes the mutators produced (they are allocated and pass
// through the record layer even when the client has already gone away and nothing is delivered)
func (o vf33Outcome) bound() uint64 {
	w := o.Wire
	if o.Harness > w {
		w = o.Harness
	}
	return vf33AllocBound + vf33AllocPerWireByte*w
}

// vf33Drive runs the client's Handshake followed by one Read against whatever the server side does; the server side is
// closed as soon as both ends are blocked reading (nothing can happen any more) or when serverFn returns.
func vf33Drive(uc *UConn, cp, sp *vfConn, serverFn func()) vf33Outcome {
	return vf33DriveOpt(uc, cp, sp, serverFn, true)
}

const vf33Deadline = 2 * time.Second

func vf33DriveOpt(uc *UConn, cp, sp *vfConn, serverFn func(), closeWhenServerReturns bool) vf33Outcome {
	var out vf33Outcome
	dl := time.Now().Add(vf33Deadline)
	cp.SetDeadline(dl)
	sp.SetDeadline(dl)
	vfPipeQuiescent(cp, sp, func() { out.Quiesced = true; sp.Close() })
	var ms0, ms1 runtime.MemStats
	runtime.ReadMemStats(&ms0)
	sdone := make(chan struct{})
	go func() {
		defer close(sdone)
		serverFn()
		if closeWhenServerReturns {
			sp.Close()
		}
	}()
	cdone := make(chan struct{})
	go func() {
		defer close(cdone)
		out.Panic = vfCatch(func() {
			out.CliErr = uc.Handshake()
			if out.CliErr == nil {
				buf := make([]byte, 4096)
				_, out.ReadErr = uc.Read(buf)
			}
		})
		cp.Close()
	}()
	select {
	case <-cdone:
	case <-time.After(vf33Deadline + 10*time.Second):
		out.Hang = true
		cp.Close()
		sp.Close()
		return out
	}
	sp.Close()
	select {
	case <-sdone:
	case <-time.After(12 * time.Second):
	}
	runtime.ReadMemStats(&ms1)
	out.Alloc = ms1.TotalAlloc - ms0.TotalAlloc
	out.Wire = uint64(sp.Delivered())
	return out
}

func vf33Judge(rt *rapid.T, st *vfStats, desc string, o vf33Outcome) {
	if o.Panic != nil {
		st.Violation(rt, "%s: client panicked: %v\n%s", desc, o.Panic.Val, o.Panic.Stack)
	}
	if o.Hang {
		st.Violation(rt, "%s: client Handshake/Read did not return within the connection deadline + 10 s", desc)
	}
	if o.Alloc > o.bound() {
		st.KnownOrViolation(rt, "C33:allocation-beyond-protocol-limits", "%s: %d bytes allocated during the case, server wrote %d bytes (bound %d)", desc, o.Alloc, o.Wire, o.bound())
	}
}

// (b) well-formed TLS 1.3 flights from the scripted server with 1-3 message-level mutations
func TestVerifC33MutatedFlight13(t *testing.T) {
	st := vfNewStats(t, "C33")
	rapid.Check(t, func(rt *rapid.T) {
		src := vfGenTLS13Src(rt)
		sni := vfGenDNSName(rt, "sni")
		withCache := rapid.Bool().Draw(rt, "cache")
		st.Eval()
		prep, err := vfPrepareClient(src, sni, rapid.Uint64().Draw(rt, "randseed"), func(c *Config) {
			if withCache {
				c.ClientSessionCache = NewLRUClientSessionCache(4)
			}
			c.ApplicationSettings = map[string][]byte{"h2": []byte("settings")}
		})
		if err != nil {
			st.Violation(rt, "%s: %v", src, err)
		}
		o := prep.Offer
		if !o.HasVersion(VersionTLS13) {
			prep.CP.Close()
			return
		}
		s := &vsrvScript{SendTicket: rapid.Bool().Draw(rt, "ticket")}
		// flight shape
		if rapid.IntRange(0, 3).Draw(rt, "hrr") == 0 && !o.PSK {
			var cands []uint16
			for _, g := range o.Groups {
				if vfContains16(vfClassicalGroups, g) && !vfContains16(o.Shares, g) {
					cands = append(cands, g)
				}
			}
			if len(cands) > 0 {
				s.HRR = true
				s.HRRGroup = cands[rapid.IntRange(0, len(cands)-1).Draw(rt, "hrrgroup")]
				if rapid.Bool().Draw(rt, "cookie") {
					s.HRRCookie = rapid.SliceOfN(rapid.Byte(), 1, 600).Draw(rt, "cookiebytes")
				}
			}
		}
		if !s.HRR && len(o.Shares) > 0 && rapid.IntRange(0, 4).Draw(rt, "share_len") == 0 {
			// a ServerHello key_share for a group the client sent a share for, with a key_exchange of the wrong length
			// (well-formed otherwise: the length prefix matches)
			var cands []uint16
			for _, g := range o.Shares {
				if !vfIsGREASE(g) {
					cands = append(cands, g)
				}
			}
			if len(cands) > 0 {
				s.Group = cands[rapid.IntRange(0, len(cands)-1).Draw(rt, "share_group")]
				s.ShareLen = rapid.SampledFrom([]int{0, 1, 31, 32, 33, 64, 65, 66, 97, 133, 1087, 1088, 1089, 1119, 1120, 1121, 1216, 2000}).Draw(rt, "share_bytes")
				s.ShareLenSet = true
				st.Class("serverhello-key-share-length-drawn")
			}
		}
		if len(o.ALPN) > 0 && rapid.Bool().Draw(rt, "alpn") {
			a := o.ALPN[0]
			s.ALPN = &a
			for _, cp := range []uint16{17513, 17613} {
				if o.Hello.Ext(cp) != nil && rapid.Bool().Draw(rt, "alps") {
					s.ALPSCodepoint = cp
					s.ALPSData = rapid.SliceOfN(rapid.Byte(), 0, 30).Draw(rt, "alpsdata")
				}
			}
		}
		if rapid.IntRange(0, 3).Draw(rt, "ee_unsolicited") == 0 {
			// well-formed extensions in EncryptedExtensions that the client did not ask for, or that do not belong
			// there (byte-level mutation of the encrypted flight cannot build these): error or completion, no panic
			pool := []vfExt{{Type: 42}, {Type: 42, Body: []byte{0, 0, 0, 1}}, {Type: 0}, {Type: 10, Body: []byte{0, 2, 0, 29}}, {Type: 1, Body: []byte{1}},
				{Type: 28, Body: []byte{0x40, 0}}, {Type: 45, Body: []byte{1, 1}}, {Type: 44, Body: []byte{0, 1, 0}}, {Type: 51, Body: []byte{0, 29, 0, 0}},
				{Type: 41, Body: []byte{0, 0}}, {Type: 0xfe0d, Body: []byte{0, 0}}, {Type: 0xfe0d, Body: []byte{0, 4, 0xfe, 0x0d, 0, 0}}, {Type: 57}, {Type: 57, Body: []byte{1, 1, 0}},
				{Type: 16, Body: []byte{0, 3, 2, 'h', '2'}}, {Type: 5}, {Type: 18}, {Type: 19, Body: []byte{0}}, {Type: 20, Body: []byte{2}}, {Type: 43, Body: []byte{3, 4}},
				{Type: 17513, Body: []byte{}}, {Type: 17613, Body: []byte{0, 1, 'x'}}, {Type: 0xff01, Body: []byte{0}}, {Type: 35}, {Type: 23}}
			n := rapid.IntRange(1, 3).Draw(rt, "ee_unsolicited_n")
			for i := 0; i < n; i++ {
				s.ExtraEEExts = append(s.ExtraEEExts, pool[rapid.IntRange(0, len(pool)-1).Draw(rt, "ee_unsolicited_ext")])
			}
			st.Class("encrypted-extensions-with-unsolicited-extensions")
		}
		if algs := o.Hello.CertCompAlgs(); len(algs) > 0 && rapid.Bool().Draw(rt, "compress") {
			alg := algs[rapid.IntRange(0, len(algs)-1).Draw(rt, "compalg")]
			if alg >= 1 && alg <= 3 {
				declaredKind := rapid.IntRange(0, 4).Draw(rt, "declkind")
				s.CompressAlg = alg
				s.CompressFn = func(m []byte) ([]byte, uint32) {
					d := uint32(len(m))
					switch declaredKind {
					case 1:
						d = 0xffffff
					case 2:
						d = 0
					case 3:
						d = uint32(maxHandshakeCertificateMsg)
					}
					return vfCompressCert(alg, m), d
				}
			}
		}
		// hostile but well-formed certificate lists (also inside a CompressedCertificate, where byte-level mutation of
		// the compressed blob cannot produce them)
		certBodyKind := rapid.IntRange(0, 9).Draw(rt, "certbody")
		if certBodyKind >= 5 {
			k := certBodyKind
			s.CertBody = func(body []byte) []byte {
				switch k {
				case 5: // empty certificate_list
					return []byte{0, 0, 0, 0}
				case 6: // one entry with empty cert_data
					return []byte{0, 0, 0, 5, 0, 0, 0, 0, 0}
				case 7: // request context present (illegal for server certificates)
					return append([]byte{3, 1, 2, 3}, body[1:]...)
				case 8: // list length one short
					out := append([]byte(nil), body...)
					if len(out) >= 4 && out[3] > 0 {
						out[3]--
					}
					return out
				default: // first entry replaced by garbage DER of the same size
					out := append([]byte(nil), body...)
					for i := 7; i < len(out) && i < 60; i++ {
						out[i] = 0xff
					}
					return out
				}
			}
		}
		s.CertRequest = rapid.IntRange(0, 5).Draw(rt, "certreq") == 0
		muts := vf33GenMuts(rt, 7)
		if s.CertBody != nil && rapid.Bool().Draw(rt, "nomuts") {
			muts = nil // let the flight reach the certificate untouched
		}
		landed := map[int]bool{}
		var mutBytes uint64
		s.Mutate = func(idx int, typ uint8, raw []byte) []byte {
			for _, m := range muts {
				if m.Msg == idx {
					landed[idx] = true
					raw = vf33Apply(raw, m)
					if raw == nil {
						return nil
					}
				}
			}
			mutBytes += uint64(len(raw))
			return raw
		}
		keys := vfCertKeysFor(o, VersionTLS13, "")
		if len(keys) == 0 {
			prep.CP.Close()
			return
		}
		scfg := vfServerConfig(keys[0], vfCertNames(sni)...)
		srv := Server(prep.SP, scfg)
		vsrvInstall(srv, s)
		postN := rapid.IntRange(0, 3).Draw(rt, "npost")
		var post [][]byte
		for i := 0; i < postN; i++ {
			typ := []uint8{typeNewSessionTicket, typeKeyUpdate, typeCertificateRequest, typeEncryptedExtensions, 25, typeFinished, 99}[rapid.IntRange(0, 6).Draw(rt, fmt.Sprintf("posttype%d", i))]
			body := rapid.SliceOfN(rapid.Byte(), 0, 60).Draw(rt, fmt.Sprintf("postbody%d", i))
			if typ == typeKeyUpdate && rapid.Bool().Draw(rt, fmt.Sprintf("postku%d", i)) {
				body = []byte{byte(rapid.IntRange(0, 2).Draw(rt, fmt.Sprintf("postkuv%d", i)))}
			}
			if typ == typeNewSessionTicket && rapid.Bool().Draw(rt, fmt.Sprintf("postnst%d", i)) {
				// a WELL-FORMED NewSessionTicket with boundary field values (RFC 8446 4.6.1): lifetime, 0..255-byte
				// ticket_nonce, 1..65535-byte ticket, extensions (early_data with any max size, unknown ones)
				b := &vsrvB{}
				lt := rapid.SampledFrom([]uint32{0, 1, 7200, 604800, 604801, 0xffffffff}).Draw(rt, fmt.Sprintf("nst_lifetime%d", i))
				b.u16(uint16(lt >> 16))
				b.u16(uint16(lt))
				b.u16(0x1234)
				b.u16(0x5678) // ticket_age_add
				nl := rapid.SampledFrom([]int{0, 1, 8, 32, 254, 255}).Draw(rt, fmt.Sprintf("nst_nonce%d", i))
				b.vec8(bytes.Repeat([]byte{0x6e}, nl))
				tl := rapid.SampledFrom([]int{1, 2, 32, 255, 256, 4000}).Draw(rt, fmt.Sprintf("nst_ticket%d", i))
				b.vec16(bytes.Repeat([]byte{0x74}, tl))
				var exts []vfExt
				switch rapid.IntRange(0, 3).Draw(rt, fmt.Sprintf("nst_exts%d", i)) {
				case 1:
					exts = append(exts, vfExt{Type: 42, Body: []byte{0xff, 0xff, 0xff, 0xff}})
				case 2:
					exts = append(exts, vfExt{Type: 42, Body: []byte{0, 0, 0, 0}}, vfExt{Type: 0x7a7a, Body: []byte{1, 2, 3}})
				case 3:
					exts = append(exts, vfExt{Type: 0x1234})
				}
				b.vec16(vsrvExts(exts))
				body = b.b
				st.Class(fmt.Sprintf("post-handshake-NewSessionTicket(well-formed,nonce=%d)", nl))
			}
			post = append(post, vsrvMsg(typ, body))
		}
		out := vf33Drive(prep.UC, prep.CP, prep.SP, func() {
			if err := srv.Handshake(); err == nil {
				for _, m := range post {
					srv.writeHandshakeRecord(&vsrvRaw{m}, nil)
				}
				srv.Write([]byte("hello from the server"))
			}
		})
		out.Harness = mutBytes
		desc := fmt.Sprintf("%s | flight hrr=%v(cookie %d) alps=%d compress=%d certbody=%d certreq=%v ticket=%v | mutations %v | post-handshake %d msgs", src, s.HRR, len(s.HRRCookie), s.ALPSCodepoint, s.CompressAlg, certBodyKind, s.CertRequest, s.SendTicket, muts, len(post))
		if s.CertBody != nil {
			st.Class(fmt.Sprintf("certbody=%d compressed=%v", certBodyKind, s.CompressAlg != 0))
		}
		vf33Judge(rt, st, desc, out)
		for _, m := range muts {
			st.Class("mut=" + m.Kind)
		}
		if out.CliErr == nil {
			st.Class("client-completed")
		} else {
			st.Class("client-rejected")
		}
		if out.Quiesced {
			st.Class("ended-by-quiescence")
		}
		if len(landed) > 0 || s.CertBody != nil {
			st.NonTrivial(fmt.Sprintf("13|%s|%v|%v|%d|%d|%d", src.Name, muts, s.HRR, s.ALPSCodepoint, s.CompressAlg, certBodyKind))
		}
		st.Sample(map[string]any{"client": src.String(), "mutations": fmt.Sprint(muts), "client_error": fmt.Sprint(out.CliErr), "alloc": out.Alloc})
	})
}

// (b') TLS <= 1.2: upstream's server, plaintext handshake messages mutated by a man in the middle
func TestVerifC33MutatedFlight12(t *testing.T) {
	st := vfNewStats(t, "C33")
	rapid.Check(t, func(rt *rapid.T) {
		src := vfGenClientSrc(rt, "src")
		sni := vfGenDNSName(rt, "sni")
		st.Eval()
		prep, err := vfPrepareClient(src, sni, rapid.Uint64().Draw(rt, "randseed"), func(c *Config) {
			c.ClientSessionCache = NewLRUClientSessionCache(4)
		})
		if err != nil {
			st.Violation(rt, "%s: %v", src, err)
		}
		o := prep.Offer
		var vers []uint16
		for _, v := range o.Versions {
			if v <= VersionTLS12 {
				vers = append(vers, v)
			}
		}
		if len(vers) == 0 {
			prep.CP.Close()
			return
		}
		ver := vers[rapid.IntRange(0, len(vers)-1).Draw(rt, "ver")]
		scfg := vfServerConfig([]string{"rsa", "ecdsa"}[rapid.IntRange(0, 1).Draw(rt, "cert")], vfCertNames(sni)...)
		scfg.MinVersion, scfg.MaxVersion = ver, ver
		if rapid.Bool().Draw(rt, "clientauth") {
			scfg.ClientAuth = RequestClientCert
		}
		if len(o.ALPN) > 0 {
			scfg.NextProtos = []string{o.ALPN[0]}
		}
		muts := vf33GenMuts(rt, 5)
		idx := 0
		landed := false
		encrypted := false
		var mutBytes12 uint64
		prep.SP.filter = func(rec []byte) []byte {
			if encrypted || len(rec) < 5 {
				return rec
			}
			if rec[0] == 20 {
				encrypted = true
				return rec
			}
			if rec[0] != 22 {
				return rec
			}
			body := rec[5:]
			var outBody []byte
			// split the record into handshake messages (the server writes one message per record, but be general)
			for len(body) >= 4 {
				n := int(body[1])<<16 | int(body[2])<<8 | int(body[3])
				if len(body) < 4+n {
					break
				}
				msg := body[:4+n]
				body = body[4+n:]
				for _, m := range muts {
					if m.Msg == idx && msg != nil {
						landed = true
						msg = vf33Apply(msg, m)
					}
				}
				mutBytes12 += uint64(len(msg))
				idx++
				outBody = append(outBody, msg...)
			}
			outBody = append(outBody, body...)
			var out []byte
			for len(outBody) > 0 {
				k := len(outBody)
				if k > 16384 {
					k = 16384
				}
				out = append(out, rec[0], rec[1], rec[2], byte(k>>8), byte(k))
				out = append(out, outBody[:k]...)
				outBody = outBody[k:]
			}
			return out
		}
		srv := Server(prep.SP, scfg)
		out := vf33Drive(prep.UC, prep.CP, prep.SP, func() {
			if err := srv.Handshake(); err == nil {
				srv.Write([]byte("hello"))
			}
		})
		out.Harness = mutBytes12
		desc := fmt.Sprintf("%s | TLS %04x flight from upstream's server, mutations %v", src, ver, muts)
		vf33Judge(rt, st, desc, out)
		for _, m := range muts {
			st.Class("mut12=" + m.Kind)
		}
		if landed {
			st.NonTrivial(fmt.Sprintf("12|%s|%04x|%v", src.Name, ver, muts))
		}
	})
}

// (a) arbitrary record streams as the server's side
func TestVerifC33RawStreams(t *testing.T) {
	st := vfNewStats(t, "C33")
	rapid.Check(t, func(rt *rapid.T) {
		src := vfGenClientSrc(rt, "src")
		st.Eval()
		prep, err := vfPrepareClient(src, "raw.example", rapid.Uint64().Draw(rt, "randseed"), nil)
		if err != nil {
			st.Violation(rt, "%s: %v", src, err)
		}
		var stream []byte
		nrec := rapid.IntRange(0, 6).Draw(rt, "nrec")
		kinds := ""
		for i := 0; i < nrec; i++ {
			l := fmt.Sprintf("r%d_", i)
			typ := []byte{22, 22, 22, 21, 20, 23, 24, 0, 255}[rapid.IntRange(0, 8).Draw(rt, l+"type")]
			ver := []uint16{0x0303, 0x0301, 0x0304, 0x0300, 0x0000, 0xffff}[rapid.IntRange(0, 5).Draw(rt, l+"ver")]
			var body []byte
			switch rapid.IntRange(0, 3).Draw(rt, l+"bodykind") {
			case 0:
				body = rapid.SliceOfN(rapid.Byte(), 0, 80).Draw(rt, l+"body")
			case 1: // a handshake message with a drawn type and a lying/true length
				ht := []byte{2, 2, 2, 8, 11, 12, 13, 14, 15, 20, 4, 25, 0, 1}[rapid.IntRange(0, 13).Draw(rt, l+"hstype")]
				hb := rapid.SliceOfN(rapid.Byte(), 0, 120).Draw(rt, l+"hsbody")
				declared := len(hb)
				switch rapid.IntRange(0, 4).Draw(rt, l+"lie") {
				case 1:
					declared = 0xffffff
				case 2:
					declared = len(hb) + 1
				case 3:
					declared = 0x010000
				}
				body = append([]byte{ht, byte(declared >> 16), byte(declared >> 8), byte(declared)}, hb...)
			case 2: // a plausible ServerHello prefix
				b := &vsrvB{}
				b.u16(0x0303)
				b.raw(rapid.SliceOfN(rapid.Byte(), 32, 32).Draw(rt, l+"random"))
				b.vec8(prep.Offer.Hello.SessionID)
				suite := rapid.SampledFrom([]uint16{0x1301, 0xc02f, 0x0a0a, 0x0000}).Draw(rt, l+"suite")
				if offered := prep.Offer.Suites; len(offered) > 0 && rapid.Bool().Draw(rt, l+"suite_offered") {
					// a suite the hello really offers (TLS 1.3 or legacy): with the echoed session id and no extensions this
					// is a well-formed ServerHello of a server that claims to resume a session the client never had
					suite = offered[rapid.IntRange(0, len(offered)-1).Draw(rt, l+"suite_idx")]
				}
				b.u16(suite)
				b.u8(0)
				switch rapid.IntRange(0, 3).Draw(rt, l+"extkind") {
				case 0:
					b.vec16(rapid.SliceOfN(rapid.Byte(), 0, 60).Draw(rt, l+"exts"))
				case 1: // no extensions block at all
				case 2:
					b.vec16(nil)
				default: // well-formed: renegotiation_info and extended_master_secret
					b.vec16([]byte{0xff, 0x01, 0x00, 0x01, 0x00, 0x00, 0x17, 0x00, 0x00})
				}
				body = vsrvMsg(2, b.b)
			default:
				body = make([]byte, rapid.SampledFrom([]int{0, 1, 16384, 16385, 18000}).Draw(rt, l+"biglen"))
			}
			declared := len(body)
			if rapid.IntRange(0, 5).Draw(rt, l+"reclie") == 0 {
				declared = rapid.SampledFrom([]int{0, len(body) + 1, 0xffff, 16385}).Draw(rt, l+"reclen")
			}
			stream = append(stream, typ, byte(ver>>8), byte(ver), byte(declared>>8), byte(declared))
			stream = append(stream, body...)
			kinds += fmt.Sprintf("%d/%d ", typ, len(body))
		}
		closeAfter := rapid.IntRange(0, 9).Draw(rt, "close") != 0 // 1 in 10: the server stays silent until the deadline
		out := vf33DriveOpt(prep.UC, prep.CP, prep.SP, func() {
			// wait for the ClientHello, then answer
			buf := make([]byte, 70000)
			prep.SP.Read(buf)
			prep.SP.Write(stream)
		}, closeAfter)
		desc := fmt.Sprintf("%s | raw stream of %d records (%s) %d bytes", src, nrec, kinds, len(stream))
		vf33Judge(rt, st, desc, out)
		if out.CliErr == nil {
			st.Violation(rt, "%s: handshake completed against garbage", desc)
		}
		if nrec > 0 {
			st.NonTrivial("raw|" + src.Name + "|" + kinds)
		}
		st.Class(fmt.Sprintf("raw-records=%d", nrec))
	})
}

// Directed: the declared-length allocation class (CompressedCertificate announcing 2^24-1 bytes).
func TestVerifC33DirectedHugeDeclaredLength(t *testing.T) {
	st := vfNewStats(t, "C33")
	for _, id := range []ClientHelloID{HelloChrome_120, HelloSafari_16_0, HelloFirefox_120} {
		prep, err := vfPrepareClient(vfClientSrc{Kind: "parrot", Name: id.Str(), ID: id}, "huge.example", 1, nil)
		if err != nil {
			st.Violation(t, "%v", err)
		}
		algs := prep.Offer.Hello.CertCompAlgs()
		if len(algs) == 0 {
			prep.CP.Close()
			continue
		}
		st.Eval()
		alg := algs[0]
		s := &vsrvScript{CompressAlg: alg, CompressFn: func(m []byte) ([]byte, uint32) { return vfCompressCert(alg, m), 0xffffff }}
		srv := Server(prep.SP, vfServerConfig("ecdsa", "huge.example"))
		vsrvInstall(srv, s)
		out := vf33Drive(prep.UC, prep.CP, prep.SP, func() { srv.Handshake() })
		if out.Panic != nil || out.Hang {
			st.Violation(t, "%s: panic=%v hang=%v", id.Str(), out.Panic, out.Hang)
		}
		if out.Alloc > out.bound() {
			st.KnownOrViolation(t, "C33:allocation-beyond-protocol-limits", "%s: CompressedCertificate declaring 16777215 bytes made the client allocate %d bytes", id.Str(), out.Alloc)
		}
		if out.CliErr == nil {
			st.Violation(t, "%s: accepted a CompressedCertificate with a wrong declared length", id.Str())
		}
		st.NonTrivial("huge|" + id.Str())
		st.Sample(map[string]any{"client": id.Str(), "declared": 0xffffff, "alloc": out.Alloc, "client_error": fmt.Sprint(out.CliErr)})
	}
}
