//go:build verif

package tls

// C10 - every offered fingerprint completes a handshake with a compliant server.

import (
	"testing"

	"pgregory.net/rapid"
)

func TestVerifC10Grid(t *testing.T) {
	st := vfNewStats(t, "C10")
	rapid.Check(t, func(rt *rapid.T) {
		mod, desc := vfGenCfgKnobs(rt, "cfg")
		if desc != "" {
			st.Class("with-" + desc)
		}
		smod, sdesc := vfGenSrvKnobs(rt, "srvcfg")
		if sdesc != "" {
			st.Class("with-" + sdesc)
			desc += " " + sdesc
		}
		opts := vfGridOpts{CCfgMod: mod, SCfgMod: smod, Note: desc}
		if rapid.IntRange(0, 11).Draw(rt, "hello_golang") == 0 {
			// the predefined ID that lets crypto/tls' own code build the hello, driven through a UConn like the others
			opts.Src = &vfClientSrc{Kind: "golang", Name: "HelloGolang", ID: HelloGolang}
			opts.CCfgMod = nil // (for this ID the Config IS the offer: the knobs a spec overrides would change it)
			st.Class("source:HelloGolang")
		}
		vfGridRun(rt, st, "C10", opts)
	})
}

// Directed regression cases for the classes recorded in known_findings.json.
func TestVerifC10Directed(t *testing.T) {
	st := vfNewStats(t, "C10")
	// (1) fixed: server selects the second classical share of a Firefox parrot
	for _, p := range []ClientHelloID{HelloFirefox_63, HelloFirefox_102, HelloFirefox_120} {
		prep, err := vfPrepareClient(vfClientSrc{Kind: "parrot", Name: p.Str(), ID: p}, "directed.example", 1, nil)
		if err != nil {
			st.Violation(t, "directed %s: %v", p.Str(), err)
		}
		st.Eval()
		if !vfContains16(prep.Offer.Shares, 0x0017) || prep.Offer.Shares[0] == 0x0017 {
			continue // spec changed: no longer a second-share case
		}
		scfg := vfServerConfig("ecdsa", "directed.example")
		scfg.CurvePreferences = []CurveID{CurveP256}
		pair := &vfPair{CP: prep.CP, SP: prep.SP, Cli: prep.UC, Srv: Server(prep.SP, scfg)}
		cerr, serr := pair.Handshake()
		if cerr != nil || serr != nil {
			st.KnownOrViolation(t, "C10:server-selects-non-first-classical-share", "directed %s vs CurvePreferences=[P256]: client err=%v server err=%v", p.Str(), cerr, serr)
		} else if err := pair.Echo([]byte("a"), []byte("b")); err != nil {
			st.Violation(t, "directed %s: echo %v", p.Str(), err)
		}
		st.NonTrivial("directed-second-share:" + p.Str())
		pair.Close()
	}
	// (2) a randomized spec listing the hybrid group without a share, against a default server
	for i := 0; i < 400; i++ {
		var seed PRNGSeed
		seed[0], seed[1] = byte(i), byte(i>>8)
		id := HelloRandomized
		id.Seed = &seed
		w := DefaultWeights
		w.TLSVersMax_Set_VersionTLS13 = 1
		id.Weights = &w
		prep, err := vfPrepareClient(vfClientSrc{Kind: "randomized", Name: "directed", ID: id}, "directed.example", 1, nil)
		if err != nil {
			st.Violation(t, "directed randomized %d: %v", i, err)
		}
		if !vfContains16(prep.Offer.Groups, vfGroupX25519MLKEM768) || vfContains16(prep.Offer.Shares, vfGroupX25519MLKEM768) {
			continue
		}
		st.Eval()
		scfg := vfServerConfig("ecdsa", "directed.example")
		pair := &vfPair{CP: prep.CP, SP: prep.SP, Cli: prep.UC, Srv: Server(prep.SP, scfg)}
		cerr, serr := pair.Handshake()
		if cerr != nil || serr != nil {
			st.KnownOrViolation(t, "C10:hybrid-group-listed-without-share", "directed randomized seed %d vs default server: client err=%v server err=%v", i, cerr, serr)
		}
		st.NonTrivial("directed-hybrid-without-share")
		pair.Close()
		break
	}
}
