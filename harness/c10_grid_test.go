//go:build verif

package tls

// C10 - every offered fingerprint completes a handshake with a compliant server.

import (
	"fmt"
	"strings"
	"testing"

	"pgregory.net/rapid"
)

// server-side errors that mean "the server rejects the offer" (negotiation failure, allowed by the property);
// anything else on the server side (bad record MAC, decrypt error, bad Finished...) is a cryptographic or
// protocol disagreement and is not excused.
var vf10ServerRejections = []string{
	"no cipher suite supported by both client and server",
	"client offered only unsupported versions",
	"client requested unsupported application protocols",
	"no ECDHE curve supported by both client and server",
	"client doesn't support any of the certificate's signature algorithms",
	"client doesn't support certificate curve",
	"no supported signature algorithm",
	"peer doesn't support any of the certificate's signature algorithms",
}

func vf10IsServerRejection(serr error) bool {
	if serr == nil {
		return false
	}
	for _, m := range vf10ServerRejections {
		if strings.Contains(serr.Error(), m) {
			return true
		}
	}
	return false
}

type vf10Result struct {
	Prepared *vfPrepared
	Choice   vfSrvChoice
	Pair     *vfPair
	OK       bool
}

// vf10Run executes one grid case. It returns the finished pair when both handshakes succeeded and the
// application-data echo worked; violations are reported through st.
func vf10Run(rt *rapid.T, st *vfStats, prop string) *vf10Result {
	src := vfGenClientSrc(rt, "src")
	sni := vfGenDNSName(rt, "sni")
	rseed := rapid.Uint64().Draw(rt, "randseed")
	st.Eval()
	p, err := vfPrepareClient(src, sni, rseed, nil)
	if err != nil {
		st.Violation(rt, "%s: client could not build its ClientHello: %v", src, err)
	}
	if len(p.Offer.Hello.Violations) > 0 {
		st.Class("malformed-hello(C02's business)")
	}
	choice, ok := vfGenSrvChoice(rt, p.Offer, "srv")
	if !ok {
		st.Class("no-implemented-choice")
		return nil
	}
	scfg := vfServerConfigFor(choice, vfCertNames(sni)...)
	pair := &vfPair{CP: p.CP, SP: p.SP, Cli: p.UC, Srv: Server(p.SP, scfg)}
	defer pair.Close()
	cerr, serr := pair.Handshake()
	desc := fmt.Sprintf("%s sni=%s | %s", src, sni, choice)
	res := &vf10Result{Prepared: p, Choice: choice, Pair: pair}

	// which group did the server actually select?
	var selGroup uint16
	shs := vfServerHellosOnWire(pair.SP.Written())
	if len(shs) > 0 {
		selGroup = shs[len(shs)-1].KeyShareGroup()
	}
	st.Class(fmt.Sprintf("ver=%04x", choice.Ver))
	st.Class("kind=" + src.Kind)
	if choice.HRR {
		st.Class("hrr")
	}

	if cerr != nil || serr != nil {
		if cerr == errVfHang || serr == errVfHang {
			st.Violation(rt, "%s: handshake hung (cerr=%v serr=%v)", desc, cerr, serr)
		}
		if vf10IsServerRejection(serr) && (cerr == nil || vfIsRemoteAlert(cerr) || strings.Contains(cerr.Error(), "EOF") || strings.Contains(cerr.Error(), "closed")) {
			st.Class("server-rejected-offer: " + serr.Error())
			return nil
		}
		// known class: the server selected a classical share that is not the first classical share of the hello
		if cerr != nil && strings.Contains(cerr.Error(), "invalid server key share") && selGroup != 0 && vfContains16(p.Offer.Shares, selGroup) {
			first := uint16(0)
			for _, g := range p.Offer.Shares {
				if vfContains16(vfClassicalGroups, g) {
					first = g
					break
				}
			}
			if first != 0 && selGroup != first && vfContains16(vfClassicalGroups, selGroup) {
				st.KnownOrViolation(rt, prop+":server-selects-non-first-classical-share",
					"%s: server selected group %#x for which the client sent a share, client aborts: %v", desc, selGroup, cerr)
				return nil
			}
		}
		// known class: the hello lists a hybrid group in supported_groups without sending a share for it (C09's
		// defect in randomized specs); a server preferring that group answers with a HelloRetryRequest for it, which
		// neither crypto/tls nor utls can follow
		if cerr != nil && strings.Contains(cerr.Error(), "CurvePreferences includes unsupported curve") && len(shs) > 0 && shs[0].IsHRR &&
			shs[0].KeyShareGroup() == vfGroupX25519MLKEM768 && !vfContains16(p.Offer.Shares, vfGroupX25519MLKEM768) {
			st.KnownOrViolation(rt, prop+":hybrid-group-listed-without-share",
				"%s: supported_groups lists X25519MLKEM768 without a key share; server HRR for it makes the client abort: %v", desc, cerr)
			return nil
		}
		st.Violation(rt, "%s: handshake failed although every server choice was offered on the wire and is implemented: client err=%v, server err=%v", desc, cerr, serr)
	}
	// both completed: parameters must be the chosen ones and data must flow both ways
	cs, ss := pair.Cli.ConnectionState(), pair.Srv.ConnectionState()
	if cs.Version != choice.Ver || ss.Version != choice.Ver {
		st.Violation(rt, "%s: negotiated version client=%04x server=%04x", desc, cs.Version, ss.Version)
	}
	if choice.Suite != 0 && (cs.CipherSuite != choice.Suite || ss.CipherSuite != choice.Suite) {
		st.Violation(rt, "%s: negotiated suite client=%04x server=%04x", desc, cs.CipherSuite, ss.CipherSuite)
	}
	if !vfContains16(p.Offer.Suites, cs.CipherSuite) {
		st.Violation(rt, "%s: negotiated suite %04x was not offered", desc, cs.CipherSuite)
	}
	if cs.NegotiatedProtocol != choice.ALPN || ss.NegotiatedProtocol != choice.ALPN {
		st.Violation(rt, "%s: ALPN client=%q server=%q", desc, cs.NegotiatedProtocol, ss.NegotiatedProtocol)
	}
	if choice.Ver == VersionTLS13 && choice.Group != 0 && selGroup != choice.Group {
		st.Violation(rt, "%s: server selected group %#x", desc, selGroup)
	}
	c2s := rapid.SliceOfN(rapid.Byte(), 1, 300).Draw(rt, "c2s")
	s2c := rapid.SliceOfN(rapid.Byte(), 1, 300).Draw(rt, "s2c")
	if err := pair.Echo(c2s, s2c); err != nil {
		st.Violation(rt, "%s: application data round trip failed: %v", desc, err)
	}
	if err := pair.Echo(s2c, c2s); err != nil {
		st.Violation(rt, "%s: second application data round trip failed: %v", desc, err)
	}
	res.OK = true
	// non-trivial: the server's choice differs from what a default tls.Server would pick
	nt := choice.HRR || choice.Ver != p.Offer.Versions[0] || choice.Suite != 0 || choice.CertKey != "rsa" ||
		(choice.Group != 0 && len(p.Offer.Shares) > 0 && choice.Group != p.Offer.Shares[0])
	if nt {
		st.NonTrivial(fmt.Sprintf("%s|%04x|%04x|%04x|%v|%s|%v", src.Kind+":"+src.Name, choice.Ver, cs.CipherSuite, selGroup, choice.HRR, choice.CertKey, choice.ALPN != ""))
	}
	st.Sample(map[string]any{"client": src.String(), "sni": sni, "server": choice.String(), "suite": fmt.Sprintf("%04x", cs.CipherSuite), "group": fmt.Sprintf("%04x", selGroup)})
	return res
}

func TestVerifC10Grid(t *testing.T) {
	st := vfNewStats(t, "C10")
	rapid.Check(t, func(rt *rapid.T) {
		vf10Run(rt, st, "C10")
	})
}

// Directed regression cases for the classes recorded in known_findings.json.
func TestVerifC10Directed(t *testing.T) {
	st := vfNewStats(t, "C10")
	// (1) fixed: server selects the second classical share of a Firefox parrot
	for _, p := range []ClientHelloID{HelloFirefox_63, HelloFirefox_102, HelloFirefox_120} {
		prep, err := vfPrepareClient(vfClientSrc{Kind: "parrot", Name: p.Str(), ID: p}, "directed.example", 1, nil)
		if err != nil {
			st.Violation(t, "directed %s: %v", p.Str(), err)
		}
		st.Eval()
		if !vfContains16(prep.Offer.Shares, 0x0017) || prep.Offer.Shares[0] == 0x0017 {
			continue // spec changed: no longer a second-share case
		}
		scfg := vfServerConfig("ecdsa", "directed.example")
		scfg.CurvePreferences = []CurveID{CurveP256}
		pair := &vfPair{CP: prep.CP, SP: prep.SP, Cli: prep.UC, Srv: Server(prep.SP, scfg)}
		cerr, serr := pair.Handshake()
		if cerr != nil || serr != nil {
			st.KnownOrViolation(t, "C10:server-selects-non-first-classical-share", "directed %s vs CurvePreferences=[P256]: client err=%v server err=%v", p.Str(), cerr, serr)
		} else if err := pair.Echo([]byte("a"), []byte("b")); err != nil {
			st.Violation(t, "directed %s: echo %v", p.Str(), err)
		}
		st.NonTrivial("directed-second-share:" + p.Str())
		pair.Close()
	}
	// (2) a randomized spec listing the hybrid group without a share, against a default server
	for i := 0; i < 400; i++ {
		var seed PRNGSeed
		seed[0], seed[1] = byte(i), byte(i>>8)
		id := HelloRandomized
		id.Seed = &seed
		w := DefaultWeights
		w.TLSVersMax_Set_VersionTLS13 = 1
		id.Weights = &w
		prep, err := vfPrepareClient(vfClientSrc{Kind: "randomized", Name: "directed", ID: id}, "directed.example", 1, nil)
		if err != nil {
			st.Violation(t, "directed randomized %d: %v", i, err)
		}
		if !vfContains16(prep.Offer.Groups, vfGroupX25519MLKEM768) || vfContains16(prep.Offer.Shares, vfGroupX25519MLKEM768) {
			continue
		}
		st.Eval()
		scfg := vfServerConfig("ecdsa", "directed.example")
		pair := &vfPair{CP: prep.CP, SP: prep.SP, Cli: prep.UC, Srv: Server(prep.SP, scfg)}
		cerr, serr := pair.Handshake()
		if cerr != nil || serr != nil {
			st.KnownOrViolation(t, "C10:hybrid-group-listed-without-share", "directed randomized seed %d vs default server: client err=%v server err=%v", i, cerr, serr)
		}
		st.NonTrivial("directed-hybrid-without-share")
		pair.Close()
		break
	}
}
