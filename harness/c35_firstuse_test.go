//go:build verif

package tls

// C35 (extension): the first use of a Config is concurrent. A Config is documented as usable by several goroutines;
// a server that has just started seals its first tickets on several connections at once, and the automatically managed
// ticket keys are created on that first use. Every ticket sealed by the Config must open on the same, untouched Config
// and give back its state, whichever goroutine created the keys. The schedule is sampled: G goroutines are released
// together on a fresh Config, many fresh Configs per generated case.

import (
	"fmt"
	"runtime"
	"sync"
	"sync/atomic"
	"testing"

	"pgregory.net/rapid"
)

func TestVerifC35ConcurrentFirstUse(t *testing.T) {
	st := vfNewStats(t, "C35")
	trials := 150
	if vfThorough() {
		trials = 300
	}
	n := 0
	rapid.Check(t, func(rt *rapid.T) {
		// bounded by case count (each case is `trials` fresh Configs x G goroutines, ~0.3 ms per Config): all cases of the
		// quick tier, the first 1500 per shard of the thorough tier
		if n++; n > 1500 {
			return
		}
		d := vf35GenState(rt)
		g := rapid.IntRange(2, 8).Draw(rt, "goroutines")
		legacy := rapid.IntRange(0, 3).Draw(rt, "legacy_key") == 0 // Config.SessionTicketKey set by the application
		var lk [32]byte
		if legacy {
			lk = vf35GenKey(rt, "legacy")
		}
		seed := rapid.Uint64().Draw(rt, "seed")
		for trial := 0; trial < trials; trial++ {
			cfg := vf35NewConfig(seed+uint64(trial), "first-use")
			cfg.Rand = nil // several goroutines draw from it
			if legacy {
				cfg.SessionTicketKey = lk
			}
			tickets := make([][]byte, g)
			errs := make([]error, g)
			var ready atomic.Int32
			var wg sync.WaitGroup
			for i := 0; i < g; i++ {
				wg.Add(1)
				go func(i int) {
					defer wg.Done()
					ready.Add(1)
					for int(ready.Load()) < g {
						runtime.Gosched()
					}
					tickets[i], errs[i] = cfg.EncryptTicket(ConnectionState{}, d.toSessionState())
				}(i)
			}
			wg.Wait()
			st.Eval()
			for i := 0; i < g; i++ {
				if errs[i] != nil {
					st.Violation(rt, "goroutine %d of %d: EncryptTicket on a fresh Config failed: %v", i, g, errs[i])
				}
				got, derr, pan := vf35Decrypt(cfg, tickets[i])
				if pan != nil {
					st.Violation(rt, "DecryptTicket panicked: %v", pan.Val)
				}
				if derr != nil || got == nil {
					st.Violation(rt, "fresh Config first used by %d goroutines at once (trial %d, legacy key=%v): the ticket sealed by goroutine %d is rejected by DecryptTicket of the same, untouched Config: (%v, %v)", g, trial, legacy, i, got, derr)
				}
				if diff := vf35Diff(got, d); diff != "" {
					st.Violation(rt, "fresh Config first used by %d goroutines at once: ticket of goroutine %d opens to a different state: %s", g, i, diff)
				}
			}
		}
		st.Class(fmt.Sprintf("first-use:goroutines=%d", g))
		st.Class(fmt.Sprintf("first-use:legacy-key=%v", legacy))
		st.NonTrivial(fmt.Sprintf("first-use|%d|%v|%s", g, legacy, vf35StateClass(d)))
	})
}
