//go:build verif

package tls

import (
	"fmt"
	"testing"
)

func TestVerifC23ZDebug(t *testing.T) {
	for i, mod := range []func(c *vf23Case){
		func(c *vf23Case) { c.Shares = nil },
		func(c *vf23Case) { c.ALPN = []string{"h3"}; c.SrvProtos = []string{"h3"} },
		func(c *vf23Case) { c.Extras = []string{"pskmodes"} },
		func(c *vf23Case) { c.Extras = []string{"grease1"} },
	} {
		c := &vf23Case{Name: "quic.example.test", Suites: []uint16{TLS_AES_128_GCM_SHA256}, Groups: []CurveID{X25519, CurveP256},
			Shares: []CurveID{X25519}, TPs: nil, OrderKeys: make([]int, 24), SpecVers: true, KeyType: "ecdsa", SrvTP: []byte{1, 2, 3}, Fault: "none", SrvCurves: []CurveID{CurveP256}}
		mod(c)
		res := vf23Run(c, false)
		fmt.Printf("%d cli err: %+v (%s) srv err: %v\n", i, res.cli.err, res.cli.errCall, res.srv.err)
	}
}
