//go:build verif

package tls

// C12 (TLS <= 1.2 part): unoffered cipher suite, compression method or ALPN protocol announced by a scripted
// legacy server whose own state follows the announcement (a lax client would complete).

import (
	"fmt"
	"testing"

	"pgregory.net/rapid"
)

func TestVerifC12TLS12(t *testing.T) {
	st := vfNewStats(t, "C12")
	rapid.Check(t, func(rt *rapid.T) {
		src := vfGenClientSrc(rt, "src")
		sni := vfGenDNSName(rt, "sni")
		st.Eval()
		// Config.NextProtos is an application-level wish list; what counts is the ALPN extension on the wire
		var nextProtos []string
		if rapid.Bool().Draw(rt, "cfgnextprotos") {
			nextProtos = [][]string{{"h2"}, {"h2", "http/1.1"}, {"vf-proto", "h3"}}[rapid.IntRange(0, 2).Draw(rt, "cfgnextprotosv")]
		}
		p, err := vfPrepareClient(src, sni, rapid.Uint64().Draw(rt, "randseed"), func(c *Config) { c.NextProtos = nextProtos })
		if err != nil {
			st.Violation(rt, "%s: %v", src, err)
		}
		defer p.CP.Close()
		o := p.Offer
		// an advertised legacy version
		var vers []uint16
		for _, v := range o.Versions {
			if v <= VersionTLS12 && v >= VersionTLS10 {
				vers = append(vers, v)
			}
		}
		if len(vers) == 0 {
			st.Class("no-legacy-version-advertised")
			return
		}
		ver := vers[rapid.IntRange(0, len(vers)-1).Draw(rt, "ver")]
		s := &vsrv12Script{Version: ver, Canary: "none"}
		kind := []string{"suite-unoffered", "suite-grease-or-tls13", "compression", "alpn-unoffered"}[rapid.IntRange(0, 3).Draw(rt, "kind")]
		// baseline: an offered suite valid for the version (so only ONE parameter is adversarial)
		var good []*vfSuiteInfo
		var bad []*vfSuiteInfo
		for i := range vfLegacySuites {
			si := &vfLegacySuites[i]
			if si.TLS12 && ver < VersionTLS12 {
				continue
			}
			if vfContains16(o.Suites, si.ID) {
				if len(vfCertKeysFor(o, ver, si.Auth)) > 0 {
					good = append(good, si)
				}
			} else {
				bad = append(bad, si)
			}
		}
		// the weak suites utls enables only through EnableWeakCiphers and the legacy ChaCha20 code points
		if len(good) == 0 {
			st.Class("no-good-suite")
			return
		}
		base := good[rapid.IntRange(0, len(good)-1).Draw(rt, "goodsuite")]
		s.Suite = base.ID
		auth := base.Auth
		desc := ""
		var badSuite uint16
		var badALPN string
		switch kind {
		case "suite-unoffered":
			if len(bad) == 0 {
				st.Class("all-suites-offered")
				return
			}
			b := bad[rapid.IntRange(0, len(bad)-1).Draw(rt, "badsuite")]
			s.Suite, auth, badSuite = b.ID, b.Auth, b.ID
			desc = fmt.Sprintf("ServerHello selects suite %04x (%s) which the hello does not list", b.ID, b.Name)
		case "suite-grease-or-tls13":
			// announce a value that is on the wire but is no TLS <= 1.2 offer: the client's GREASE suite or a TLS 1.3 suite;
			// the scripted server keeps using the good suite's algorithms
			var cands []uint16
			for _, x := range o.Hello.Suites {
				if vfIsGREASE(x) || vfContains16(vfTLS13Suites, x) || x == 0x00ff || x == 0x5600 {
					cands = append(cands, x)
				}
			}
			if len(cands) == 0 {
				st.Class("no-non-offer-value-on-wire")
				return
			}
			badSuite = cands[rapid.IntRange(0, len(cands)-1).Draw(rt, "wirevalue")]
			desc = fmt.Sprintf("TLS %04x ServerHello selects %04x (GREASE / TLS 1.3 suite / SCSV present in the hello)", ver, badSuite)
		case "compression":
			s.Compression = uint8(rapid.IntRange(1, 255).Draw(rt, "comp"))
			desc = fmt.Sprintf("ServerHello selects compression method %d (offered %v)", s.Compression, o.Hello.Compression)
			for _, c := range o.Hello.Compression {
				if c == s.Compression {
					st.Class("compression-offered")
					return
				}
			}
		case "alpn-unoffered":
			offered := map[string]bool{}
			for _, a := range o.ALPN {
				offered[a] = true
			}
			var c2 []string
			for _, a := range []string{"h2", "http/1.1", "h3", "spdy/3.1", "vf-proto", "H2"} {
				if !offered[a] {
					c2 = append(c2, a)
				}
			}
			// preferably a protocol the application listed in Config.NextProtos although the hello does not offer it
			var wished []string
			for _, a := range nextProtos {
				if !offered[a] {
					wished = append(wished, a)
				}
			}
			if len(wished) > 0 && rapid.Bool().Draw(rt, "alpn_from_config") {
				c2 = wished
				st.Class("tls12-alpn-from-config-not-on-wire")
			}
			a := c2[rapid.IntRange(0, len(c2)-1).Draw(rt, "alpn")]
			s.ALPN, badALPN = &a, a
			desc = fmt.Sprintf("ServerHello selects ALPN %q; offered %q", a, o.ALPN)
		}
		keys := vfCertKeysFor(o, ver, auth)
		if len(keys) == 0 {
			// the client's signature_algorithms rule out every key type for this suite: use any
			if auth == "rsa" {
				keys = []string{"rsa"}
			} else {
				keys = []string{"ecdsa"}
			}
		}
		scfg := vfServerConfig(keys[0], vfCertNames(sni)...)
		scfg.MaxVersion = VersionTLS12
		srv := Server(p.SP, scfg)
		if kind == "suite-grease-or-tls13" {
			// announce badSuite on the wire but run the handshake with the good suite: done by a record-level rewrite of the
			// ServerHello's suite field (transcripts then differ, a lax client fails at Finished at the latest; the value
			// must be rejected before that, and in any case never be reported)
			good := s.Suite
			p.SP.filter = vf12RewriteServerHelloSuite(good, badSuite)
		}
		vsrv12Install(srv, s)
		pair := &vfPair{CP: p.CP, SP: p.SP, Cli: p.UC, Srv: srv}
		cerr, serr := pair.Handshake()
		full := fmt.Sprintf("%s | TLS %04x %s: %s", src, ver, kind, desc)
		st.Class(fmt.Sprintf("tls12-kind=%s", kind))
		cs := pair.Cli.ConnectionState()
		if cerr == errVfHang || serr == errVfHang {
			st.Violation(rt, "%s: hang", full)
		}
		if cerr == nil || cs.HandshakeComplete || s.Completed {
			st.Violation(rt, "%s: the client accepted it (client err=%v complete=%v, scripted server complete=%v err=%v)", full, cerr, cs.HandshakeComplete, s.Completed, serr)
		}
		if badSuite != 0 && cs.CipherSuite == badSuite {
			st.Violation(rt, "%s: client ConnectionState reports suite %04x", full, cs.CipherSuite)
		}
		if badALPN != "" && cs.NegotiatedProtocol == badALPN {
			st.Violation(rt, "%s: client ConnectionState reports protocol %q", full, cs.NegotiatedProtocol)
		}
		if _, werr := pair.Cli.Write([]byte("x")); werr == nil {
			st.Violation(rt, "%s: client Write succeeded after the rejected handshake", full)
		}
		st.NonTrivial(fmt.Sprintf("tls12|%s|%04x|%s|%04x|%s", src.Kind+":"+src.Name, ver, kind, badSuite, badALPN))
		st.Sample(map[string]any{"client": src.String(), "version": fmt.Sprintf("%04x", ver), "kind": kind, "what": desc, "client_error": fmt.Sprint(cerr)})
	})
}

// vf12RewriteServerHelloSuite returns a record filter that replaces the cipher_suite field of the first ServerHello.
func vf12RewriteServerHelloSuite(from, to uint16) func(rec []byte) []byte {
	done := false
	return func(rec []byte) []byte {
		if done || len(rec) < 5+4+2+32+1 || rec[0] != 22 || rec[5] != 2 {
			return rec
		}
		// record header(5) handshake header(4) version(2) random(32) sid_len(1) sid suite(2)
		off := 5 + 4 + 2 + 32
		sidLen := int(rec[off])
		off += 1 + sidLen
		if len(rec) < off+2 {
			return rec
		}
		if uint16(rec[off])<<8|uint16(rec[off+1]) == from {
			out := append([]byte(nil), rec...)
			out[off], out[off+1] = byte(to>>8), byte(to)
			done = true
			return out
		}
		return rec
	}
}
