//go:build verif

package tls

// C20 (extension): the injected session is a TLS 1.0 / TLS 1.1 one. Session tickets exist since TLS 1.0; a session
// obtained from a server capped at 1.1 (or 1.0), handed back through SetSessionState / SetSessionTicketExtension in a
// documented order, must be accepted by the setter and resume against that server - for every fingerprint whose
// version range reaches that low.

import (
	"fmt"
	"testing"

	"pgregory.net/rapid"
)

type vf20GrabCache struct{ last *ClientSessionState }

func (c *vf20GrabCache) Get(string) (*ClientSessionState, bool) { return nil, false }
func (c *vf20GrabCache) Put(_ string, cs *ClientSessionState) {
	if cs != nil {
		c.last = cs
	}
}

func TestVerifC20LegacyVersionSession(t *testing.T) {
	st := vfNewStats(t, "C20")
	rapid.Check(t, func(rt *rapid.T) {
		p := vfGenParrot(rt, "parrot")
		ver := rapid.SampledFrom([]uint16{VersionTLS11, VersionTLS11, VersionTLS10, VersionTLS12}).Draw(rt, "server_max")
		src := vfClientSrc{Kind: "parrot", Name: p.Name, ID: p.ID}
		sni := "legacy.c20.test"
		grab := &vf20GrabCache{}
		st.Eval()
		p1, err := vfPrepareClient(src, sni, rapid.Uint64().Draw(rt, "seed1"), func(c *Config) {
			c.ClientSessionCache = grab
			c.OmitEmptyPsk = true
			c.PreferSkipResumptionOnNilExtension = true
		})
		if err != nil {
			st.Violation(rt, "%s: %v", src, err)
		}
		o := p1.Offer
		keys := vfCertKeysFor(o, ver, "")
		if !o.HasVersion(ver) || o.Hello.Ext(35) == nil || len(keys) == 0 {
			st.Class("legacy-session:version-or-ticket-not-offered")
			p1.CP.Close()
			return
		}
		scfg := vfServerConfig(keys[0], sni)
		scfg.MinVersion, scfg.MaxVersion = VersionTLS10, ver
		scfg.CipherSuites = vfAllServerSuites()
		pair1 := &vfPair{CP: p1.CP, SP: p1.SP, Cli: p1.UC, Srv: Server(p1.SP, scfg)}
		cerr, serr := pair1.Handshake()
		if cerr != nil || serr != nil || pair1.Echo([]byte("a"), []byte("b")) != nil || grab.last == nil {
			pair1.Close()
			st.Class(fmt.Sprintf("legacy-session:first-connection-failed-or-no-ticket(%04x)", ver))
			return
		}
		pair1.Close()
		how := rapid.SampledFrom([]string{"SetSessionState", "SetSessionTicketExtension", "BuildWithoutSession+SetSessionState"}).Draw(rt, "how")
		cp, sp := vfPipe()
		ccfg := vfClientConfig(sni)
		ccfg.OmitEmptyPsk = true
		uc := UClient(cp, ccfg, p.ID)
		uc.SetSessionCache(NewLRUClientSessionCache(2)) // documented: resumption needs a cache to be enabled
		desc := fmt.Sprintf("%s: session of version %04x obtained from a server capped at %04x, injected with %s", p.Name, ver, ver, how)
		var serrSet error
		switch how {
		case "SetSessionState":
			serrSet = uc.SetSessionState(grab.last)
		case "SetSessionTicketExtension":
			ticket, state, rerr := grab.last.ResumptionState()
			if rerr != nil || state == nil {
				cp.Close()
				sp.Close()
				return
			}
			// (exported fields: InitializeByUtls is the library's own entry point and asserts a TLS 1.2 session)
			serrSet = uc.SetSessionTicketExtension(&SessionTicketExtension{Session: state, Ticket: ticket, Initialized: true})
		default:
			if err := uc.BuildHandshakeStateWithoutSession(); err != nil {
				st.Violation(rt, "%s: BuildHandshakeStateWithoutSession: %v", desc, err)
			}
			serrSet = uc.SetSessionState(grab.last)
		}
		if serrSet != nil {
			st.Violation(rt, "%s: the setter refused a session the library itself produced: %v", desc, serrSet)
		}
		pair := &vfPair{CP: cp, SP: sp, Cli: uc, Srv: Server(sp, scfg)}
		defer pair.Close()
		cerr, serr = pair.Handshake()
		if cerr == errVfHang || serr == errVfHang {
			st.Violation(rt, "%s: hang", desc)
		}
		if cerr != nil || serr != nil {
			st.Violation(rt, "%s: handshake failed: client=%v server=%v", desc, cerr, serr)
		}
		cs, ss := pair.Cli.ConnectionState(), pair.Srv.ConnectionState()
		if !cs.DidResume || !ss.DidResume {
			st.Violation(rt, "%s: the session was not resumed (client DidResume=%v, server DidResume=%v, version %04x)", desc, cs.DidResume, ss.DidResume, cs.Version)
		}
		st.Class(fmt.Sprintf("legacy-session:resumed(%04x,%s)", ver, how))
		st.NonTrivial(fmt.Sprintf("legacy-session|%s|%04x|%s", p.Name, ver, how))
	})
}
