//go:build verif

package tls

// C12 - the client rejects any server choice it did not offer on the wire (TLS 1.3 part, scripted server).

import (
	"fmt"
	"strings"
	"testing"

	"pgregory.net/rapid"
)

type vf12Case struct {
	Kind   string
	Script *vsrvScript
	Desc   string
	// what must not show up in the client's ConnectionState
	BadSuite uint16
	BadALPN  string
}

func vf12OtherGREASE(t *rapid.T, label string, avoid map[uint16]bool) uint16 {
	for {
		n := uint16(rapid.IntRange(0, 15).Draw(t, label))
		v := n<<12 | 0x0a00 | n<<4 | 0x0a
		if !avoid[v] {
			return v
		}
		if len(avoid) >= 16 {
			return v
		}
	}
}

// vf12GenCase13 draws one adversarial TLS 1.3 server behaviour from the complement of the on-wire offer.
func vf12GenCase13(t *rapid.T, o *vfOffer) *vf12Case {
	h := o.Hello
	kinds := []string{"suite13-unoffered", "suite12-in-13", "suite-grease", "group-no-share", "group-unlisted", "group-grease",
		"hrr-group-unlisted", "hrr-group-grease", "alpn-unoffered", "compression", "psk-index", "sessionid", "certcomp-unadvertised"}
	kind := kinds[rapid.IntRange(0, len(kinds)-1).Draw(t, "kind")]
	if len(h.SessionID) == 0 && rapid.IntRange(0, 2).Draw(t, "kind_sessionid_for_empty_id") == 0 {
		kind = "sessionid" // hellos without session id are rare in this generator: judge the echo rule on them often
	}
	c := &vf12Case{Kind: kind, Script: &vsrvScript{}}
	s := c.Script
	offeredSuites := map[uint16]bool{}
	for _, x := range h.Suites {
		offeredSuites[x] = true
	}
	offeredGroups := map[uint16]bool{}
	for _, g := range h.Groups() {
		offeredGroups[g] = true
	}
	shareGroups := map[uint16]bool{}
	for _, ks := range h.KeyShares() {
		shareGroups[ks.Group] = true
	}
	pickNot := func(cands []uint16, have map[uint16]bool, label string) (uint16, bool) {
		var c []uint16
		for _, x := range cands {
			if !have[x] {
				c = append(c, x)
			}
		}
		if len(c) == 0 {
			return 0, false
		}
		return c[rapid.IntRange(0, len(c)-1).Draw(t, label)], true
	}
	allGroups := []uint16{0x001d, 0x0017, 0x0018, 0x0019, vfGroupX25519MLKEM768, 0x6399, 0x0100, 0x001e}
	switch kind {
	case "suite13-unoffered":
		v, ok := pickNot(vfTLS13Suites, offeredSuites, "suite")
		if !ok {
			// all three offered: fall back to the two CCM suites of RFC 8446 the library does not implement
			v, ok = pickNot([]uint16{0x1304, 0x1305}, offeredSuites, "suite")
			if !ok {
				return nil
			}
		}
		s.Suite, c.BadSuite = v, v
		c.Desc = fmt.Sprintf("ServerHello selects TLS 1.3 suite %#04x which the hello does not list", v)
	case "suite12-in-13":
		// a TLS <= 1.2 suite (offered or not) announced in a TLS 1.3 ServerHello
		all := []uint16{}
		for _, si := range vfLegacySuites {
			all = append(all, si.ID)
		}
		v := all[rapid.IntRange(0, len(all)-1).Draw(t, "suite")]
		s.Suite, c.BadSuite = v, v
		c.Desc = fmt.Sprintf("TLS 1.3 ServerHello selects the TLS 1.2 suite %#04x (offered=%v)", v, offeredSuites[v])
	case "suite-grease":
		var sent []uint16
		for _, x := range h.Suites {
			if vfIsGREASE(x) {
				sent = append(sent, x)
			}
		}
		if len(sent) > 0 && rapid.Bool().Draw(t, "sentgrease") {
			s.Suite = sent[0]
			c.Desc = fmt.Sprintf("ServerHello selects the GREASE suite %#04x the client sent", s.Suite)
		} else {
			s.Suite = vf12OtherGREASE(t, "grease", offeredSuites)
			c.Desc = fmt.Sprintf("ServerHello selects GREASE suite %#04x", s.Suite)
		}
		c.BadSuite = s.Suite
	case "group-no-share":
		// listed in supported_groups but no key share sent, selected directly in ServerHello (no HRR)
		var cands []uint16
		for _, g := range h.Groups() {
			if !shareGroups[g] && !vfIsGREASE(g) {
				cands = append(cands, g)
			}
		}
		if len(cands) == 0 {
			return nil
		}
		s.Group = cands[rapid.IntRange(0, len(cands)-1).Draw(t, "group")]
		c.Desc = fmt.Sprintf("ServerHello key_share uses group %#04x for which no share was sent", s.Group)
	case "group-unlisted":
		have := map[uint16]bool{}
		for g := range offeredGroups {
			have[g] = true
		}
		for g := range shareGroups {
			have[g] = true
		}
		v, ok := pickNot(allGroups, have, "group")
		if !ok {
			return nil
		}
		s.Group = v
		c.Desc = fmt.Sprintf("ServerHello key_share uses group %#04x which is neither listed nor shared", v)
	case "group-grease":
		var sent uint16
		for _, ks := range h.KeyShares() {
			if vfIsGREASE(ks.Group) {
				sent = ks.Group
			}
		}
		if sent != 0 && rapid.Bool().Draw(t, "sentgrease") {
			s.Group = sent
			// cooperative: do a real exchange with the client's first classical share, labelled with the GREASE group
			for _, ks := range h.KeyShares() {
				if vfContains16(vfClassicalGroups, ks.Group) && s.ExchangeAs == 0 {
					s.ExchangeAs = ks.Group
				}
			}
			c.Desc = fmt.Sprintf("ServerHello key_share uses the GREASE group %#04x the client sent a dummy share for (real exchange done as %#04x)", sent, s.ExchangeAs)
		} else {
			have := map[uint16]bool{}
			for g := range offeredGroups {
				have[g] = true
			}
			s.Group = vf12OtherGREASE(t, "grease", have)
			c.Desc = fmt.Sprintf("ServerHello key_share uses GREASE group %#04x", s.Group)
		}
	case "hrr-group-unlisted":
		v, ok := pickNot(allGroups, offeredGroups, "group")
		if !ok {
			return nil
		}
		s.HRR, s.HRRGroup = true, v
		c.Desc = fmt.Sprintf("HelloRetryRequest selects group %#04x which supported_groups does not list", v)
	case "hrr-group-grease":
		var sent uint16
		for _, g := range h.Groups() {
			if vfIsGREASE(g) {
				sent = g
			}
		}
		if sent != 0 && rapid.Bool().Draw(t, "sentgrease") {
			s.HRR, s.HRRGroup = true, sent
			c.Desc = fmt.Sprintf("HelloRetryRequest selects the GREASE group %#04x from supported_groups", sent)
		} else {
			s.HRR, s.HRRGroup = true, vf12OtherGREASE(t, "grease", offeredGroups)
			c.Desc = fmt.Sprintf("HelloRetryRequest selects GREASE group %#04x", s.HRRGroup)
		}
	case "alpn-unoffered":
		offered := map[string]bool{}
		for _, p := range h.ALPN() {
			offered[p] = true
		}
		cands := []string{"h2", "http/1.1", "h3", "spdy/3.1", "vf-proto", "H2", "h2 "}
		var c2 []string
		for _, p := range cands {
			if !offered[p] {
				c2 = append(c2, p)
			}
		}
		p := c2[rapid.IntRange(0, len(c2)-1).Draw(t, "alpn")]
		s.ALPN = &p
		c.BadALPN = p
		c.Desc = fmt.Sprintf("EncryptedExtensions selects ALPN %q; offered %q", p, h.ALPN())
	case "compression":
		s.Compression = uint8(rapid.IntRange(1, 255).Draw(t, "comp"))
		c.Desc = fmt.Sprintf("ServerHello selects compression method %d", s.Compression)
	case "psk-index":
		n := 0
		if p := h.PSK(); p != nil {
			n = len(p.Identities)
		}
		idx := uint16(n + rapid.IntRange(0, 3).Draw(t, "pskidx"))
		s.SelectedPSK = &idx
		c.Desc = fmt.Sprintf("ServerHello selects PSK identity %d of %d offered", idx, n)
	case "sessionid":
		s.OverrideSessionID = true
		switch rapid.IntRange(0, 3).Draw(t, "sidkind") {
		case 0:
			s.SessionID = nil
			if len(h.SessionID) == 0 {
				s.SessionID = []byte{1, 2, 3, 4}
			}
		case 1:
			s.SessionID = append([]byte(nil), h.SessionID...)
			if len(s.SessionID) == 0 {
				s.SessionID = []byte{9}
			} else {
				i := rapid.IntRange(0, len(s.SessionID)-1).Draw(t, "sidflip")
				s.SessionID[i] ^= 1 << uint(rapid.IntRange(0, 7).Draw(t, "sidbit"))
			}
		case 2:
			if len(h.SessionID) > 1 {
				s.SessionID = append([]byte(nil), h.SessionID[:len(h.SessionID)-1]...)
			} else {
				s.SessionID = []byte{7, 7}
			}
		default:
			s.SessionID = rapid.SliceOfN(rapid.Byte(), 32, 32).Draw(t, "sidrand")
			if string(s.SessionID) == string(h.SessionID) {
				s.SessionID[0] ^= 0xff
			}
		}
		c.Desc = fmt.Sprintf("ServerHello echoes session id %x instead of %x", s.SessionID, h.SessionID)
	case "certcomp-unadvertised":
		adv := map[uint16]bool{}
		for _, a := range h.CertCompAlgs() {
			adv[a] = true
		}
		v, ok := pickNot([]uint16{1, 2, 3, 4, 0x0a0a}, adv, "alg")
		if !ok {
			return nil
		}
		s.CompressAlg = v
		s.CompressFn = func(m []byte) ([]byte, uint32) { return vfCompressCert(v, m), uint32(len(m)) }
		c.Desc = fmt.Sprintf("CompressedCertificate with algorithm %d; advertised %v", v, h.CertCompAlgs())
	}
	switch kind {
	case "suite13-unoffered", "suite12-in-13", "suite-grease", "compression", "sessionid", "psk-index", "alpn-unoffered", "certcomp-unadvertised":
		// optionally the bad choice only shows in the ServerHello that follows a compliant HelloRetryRequest
		var cands []uint16
		for _, g := range h.Groups() {
			if !shareGroups[g] && (g == 0x001d || g == 0x0017 || g == 0x0018 || g == 0x0019) {
				cands = append(cands, g)
			}
		}
		if len(cands) > 0 && h.Ext(51) != nil && rapid.IntRange(0, 2).Draw(t, "after_valid_hrr") == 0 {
			s.HRR, s.HRRClean = true, true
			s.HRRGroup = cands[rapid.IntRange(0, len(cands)-1).Draw(t, "valid_hrr_group")]
			c.Kind += "+after-valid-hrr"
			c.Desc += fmt.Sprintf(" (after a compliant HelloRetryRequest for group %#04x)", s.HRRGroup)
		}
	}
	return c
}

func TestVerifC12TLS13(t *testing.T) {
	st := vfNewStats(t, "C12")
	rapid.Check(t, func(rt *rapid.T) {
		src := vfGenTLS13Src(rt)
		sni := vfGenDNSName(rt, "sni")
		st.Eval()
		// Config.NextProtos is an application-level wish list; what counts is the ALPN extension on the wire
		var nextProtos []string
		if rapid.Bool().Draw(rt, "cfgnextprotos") {
			nextProtos = [][]string{{"h2"}, {"h2", "http/1.1"}, {"vf-proto"}}[rapid.IntRange(0, 2).Draw(rt, "cfgnextprotosv")]
		}
		p, err := vfPrepareClient(src, sni, rapid.Uint64().Draw(rt, "randseed"), func(c *Config) { c.NextProtos = nextProtos })
		if err != nil {
			st.Violation(rt, "%s: %v", src, err)
		}
		defer p.CP.Close()
		if !p.Offer.HasVersion(VersionTLS13) {
			st.Class("no-tls13")
			return
		}
		if src.Kind != "golang" && p.Offer.Hello.PSK() == nil && rapid.IntRange(0, 5).Draw(rt, "empty_session_id") == 0 {
			// a hello without legacy session id (documented edit of Hello.SessionId after the build; QUIC clients send
			// none either): "echo" then means an empty one, everything else is a value the client did not send
			p.UC.HandshakeState.Hello.SessionId = nil
			if err := p.UC.BuildHandshakeState(); err != nil {
				st.Violation(rt, "%s: rebuild after clearing Hello.SessionId: %v", src, err)
			}
			p.Offer = vfOfferOf(vfParseClientHello(p.UC.HandshakeState.Hello.Raw), p.UC.config.MinVersion)
			if len(p.Offer.Hello.SessionID) == 0 {
				st.Class("hello-without-session-id")
			}
		}
		c := vf12GenCase13(rt, p.Offer)
		if c == nil {
			st.Class("complement-empty")
			return
		}
		keys := vfCertKeysFor(p.Offer, VersionTLS13, "")
		if len(keys) == 0 {
			return
		}
		scfg := vfServerConfig(keys[0], vfCertNames(sni)...)
		srv := Server(p.SP, scfg)
		vsrvInstall(srv, c.Script)
		pair := &vfPair{CP: p.CP, SP: p.SP, Cli: p.UC, Srv: srv}
		cerr, serr := pair.Handshake()
		desc := fmt.Sprintf("%s | %s: %s", src, c.Kind, c.Desc)
		st.Class("kind=" + c.Kind)
		cs := pair.Cli.ConnectionState()
		if cerr == errVfHang || serr == errVfHang {
			st.Violation(rt, "%s: handshake hung", desc)
		}
		if cerr == nil || cs.HandshakeComplete || c.Script.Completed {
			st.Violation(rt, "%s: the client accepted it (client err=%v, complete=%v; scripted server complete=%v err=%v; log=%v)", desc, cerr, cs.HandshakeComplete, c.Script.Completed, serr, c.Script.Log)
		}
		if c.BadSuite != 0 && cs.CipherSuite == c.BadSuite && !vfContains16(p.Offer.Suites, c.BadSuite) {
			st.Violation(rt, "%s: client ConnectionState reports the unoffered suite %#04x", desc, cs.CipherSuite)
		}
		if c.BadALPN != "" && cs.NegotiatedProtocol == c.BadALPN {
			st.Violation(rt, "%s: client ConnectionState reports the unoffered protocol %q", desc, cs.NegotiatedProtocol)
		}
		// no application data may have been written by the client: its Write must fail
		if _, werr := pair.Cli.Write([]byte("x")); werr == nil {
			st.Violation(rt, "%s: client Write succeeded after the rejected handshake", desc)
		}
		st.NonTrivial(fmt.Sprintf("%s|%s|%s", src.Kind+":"+src.Name, c.Kind, strings.SplitN(c.Desc, ";", 2)[0]))
		st.Sample(map[string]any{"client": src.String(), "kind": c.Kind, "what": c.Desc, "client_error": fmt.Sprint(cerr)})
	})
}
