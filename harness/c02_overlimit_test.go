//go:build verif

package tls

// C02, last clause: "If a spec cannot be encoded, BuildHandshakeState or Handshake returns an error instead of emitting
// malformed bytes." The other C02 tests keep every field within its wire limit; here ONE field of a sane TLS 1.3 spec is
// pushed to, or beyond, the capacity of its length prefix (a drawn amount around the limit), and the oracle is two-sided:
// either the build fails (any error, no panic), or the hello that comes out is valid under the reference grammar -
// never err == nil together with bytes whose length prefixes do not match their bodies.

import (
	"fmt"
	"testing"

	"pgregory.net/rapid"
)

type vf02Over struct {
	name string
	// limit = the largest count the wire format can carry; mk builds the extension with n entries / bytes
	limit int
	mk    func(n int) TLSExtension
	// replaces the base extension of this wire type (0 = appended)
	wire uint16
}

func vf02U16s(n int, base uint16) []uint16 {
	out := make([]uint16, n)
	for i := range out {
		out[i] = base + uint16(i%200)
	}
	return out
}

var vf02Overs = []vf02Over{
	{"supported_versions(count)", 127, func(n int) TLSExtension {
		v := make([]uint16, n)
		for i := range v {
			v[i] = VersionTLS12
		}
		v[0] = VersionTLS13
		return &SupportedVersionsExtension{Versions: v}
	}, 43},
	{"supported_groups(count)", 32766, func(n int) TLSExtension {
		c := make([]CurveID, n)
		for i := range c {
			c[i] = CurveID(0x0100 + i%5)
		}
		c[0], c[1] = X25519, CurveP256
		return &SupportedCurvesExtension{Curves: c}
	}, 10},
	{"signature_algorithms(count)", 32766, func(n int) TLSExtension {
		s := make([]SignatureScheme, n)
		for i := range s {
			s[i] = PSSWithSHA256
		}
		s[0] = ECDSAWithP256AndSHA256
		return &SignatureAlgorithmsExtension{SupportedSignatureAlgorithms: s}
	}, 13},
	{"signature_algorithms_cert(count)", 32766, func(n int) TLSExtension {
		s := make([]SignatureScheme, n)
		for i := range s {
			s[i] = PSSWithSHA256
		}
		return &SignatureAlgorithmsCertExtension{SupportedSignatureAlgorithms: s}
	}, 0},
	{"ec_point_formats(count)", 255, func(n int) TLSExtension { return &SupportedPointsExtension{SupportedPoints: make([]uint8, n)} }, 11},
	{"psk_key_exchange_modes(count)", 255, func(n int) TLSExtension {
		m := make([]uint8, n)
		for i := range m {
			m[i] = 1
		}
		return &PSKKeyExchangeModesExtension{Modes: m}
	}, 45},
	{"compress_certificate(count)", 127, func(n int) TLSExtension {
		a := make([]CertCompressionAlgo, n)
		for i := range a {
			a[i] = CertCompressionBrotli
		}
		return &UtlsCompressCertExtension{Algorithms: a}
	}, 0},
	{"alpn(one-protocol-bytes)", 255, func(n int) TLSExtension {
		return &ALPNExtension{AlpnProtocols: []string{"h2", string(make([]byte, n))}}
	}, 16},
	{"alpn(list-bytes)", 65535 - 2, func(n int) TLSExtension {
		var l []string
		for n > 0 {
			k := 200
			if n < k+1 {
				k = n - 1
			}
			if k < 1 {
				break
			}
			l = append(l, string(make([]byte, k)))
			n -= k + 1
		}
		return &ALPNExtension{AlpnProtocols: l}
	}, 16},
	{"application_settings(one-protocol-bytes)", 255, func(n int) TLSExtension {
		return &ApplicationSettingsExtension{SupportedProtocols: []string{"h2", string(make([]byte, n))}}
	}, 0},
	{"key_share(share-bytes)", 65535 - 4 - 2, func(n int) TLSExtension {
		return &KeyShareExtension{KeyShares: []KeyShare{{Group: CurveID(0x7a7a), Data: make([]byte, n)}}}
	}, 51},
	{"cookie(bytes)", 65535 - 2, func(n int) TLSExtension { return &CookieExtension{Cookie: make([]byte, n)} }, 0},
	{"session_ticket(bytes)", 65535, func(n int) TLSExtension { return &SessionTicketExtension{Ticket: make([]byte, n), Initialized: true} }, 0},
	{"generic(bytes)", 65535, func(n int) TLSExtension { return &GenericExtension{Id: 0x7a7b, Data: make([]byte, n)} }, 0},
	{"delegated_credentials(count)", 32766, func(n int) TLSExtension {
		s := make([]SignatureScheme, n)
		for i := range s {
			s[i] = ECDSAWithP256AndSHA256
		}
		return &FakeDelegatedCredentialsExtension{SupportedSignatureAlgorithms: s}
	}, 0},
	{"grease-extension(body-bytes)", 65535, func(n int) TLSExtension { return &UtlsGREASEExtension{Body: make([]byte, n)} }, 0},
	{"server_name(bytes)", 65535 - 5, func(n int) TLSExtension {
		b := make([]byte, n)
		for i := range b {
			b[i] = 'a'
		}
		return &SNIExtension{ServerName: string(b)}
	}, 0},
	{"padding(bytes)", 65535, func(n int) TLSExtension { return &UtlsPaddingExtension{PaddingLen: n, WillPad: true} }, 0},
	{"renegotiation_info(bytes)", 255, func(n int) TLSExtension {
		return &RenegotiationInfoExtension{Renegotiation: RenegotiateOnceAsClient, RenegotiatedConnection: make([]byte, n)}
	}, 0},
	{"token_binding(key-parameters)", 255, func(n int) TLSExtension {
		return &FakeTokenBindingExtension{MajorVersion: 0, MinorVersion: 13, KeyParameters: make([]uint8, n)}
	}, 0},
	{"application_settings_new(one-protocol-bytes)", 255, func(n int) TLSExtension {
		return &ApplicationSettingsExtensionNew{SupportedProtocols: []string{"h2", string(make([]byte, n))}}
	}, 0},
}

// vf02WireTypeOf reads the extension number off the encoding of a (small, base) extension.
func vf02WireTypeOf(e TLSExtension) uint16 {
	b := make([]byte, e.Len())
	if len(b) < 4 {
		return 0xffff
	}
	e.Read(b)
	return uint16(b[0])<<8 | uint16(b[1])
}

func vf02OverBase() []TLSExtension {
	return []TLSExtension{
		&SNIExtension{},
		&SupportedCurvesExtension{Curves: []CurveID{X25519, CurveP256}},
		&SupportedPointsExtension{SupportedPoints: []uint8{0}},
		&ALPNExtension{AlpnProtocols: []string{"h2", "http/1.1"}},
		&SignatureAlgorithmsExtension{SupportedSignatureAlgorithms: []SignatureScheme{ECDSAWithP256AndSHA256, PSSWithSHA256}},
		&KeyShareExtension{KeyShares: []KeyShare{{Group: X25519}}},
		&PSKKeyExchangeModesExtension{Modes: []uint8{pskModeDHE}},
		&SupportedVersionsExtension{Versions: []uint16{VersionTLS13, VersionTLS12}},
	}
}

func TestVerifC02OverLimitSpecs(t *testing.T) {
	st := vfNewStats(t, "C02")
	one := func(tt vfFataler, o vf02Over, n int) {
		st.Eval()
		ext := o.mk(n)
		var exts []TLSExtension
		replaced := false
		for _, e := range vf02OverBase() {
			if o.wire != 0 && vf02WireTypeOf(e) == o.wire {
				exts = append(exts, ext)
				replaced = true
				continue
			}
			if _, isSNI := e.(*SNIExtension); isSNI && o.name == "server_name(bytes)" {
				exts = append(exts, ext)
				replaced = true
				continue
			}
			exts = append(exts, e)
		}
		if !replaced {
			exts = append(exts, ext)
		}
		spec := &ClientHelloSpec{TLSVersMin: VersionTLS12, TLSVersMax: VersionTLS13, CipherSuites: []uint16{TLS_AES_128_GCM_SHA256, TLS_ECDHE_ECDSA_WITH_AES_128_GCM_SHA256},
			CompressionMethods: []uint8{0}, Extensions: exts}
		what := fmt.Sprintf("over-limit %s: %d (wire limit %d)", o.name, n, o.limit)
		cm := vfCfgMeta{ServerName: "example.test", RandSeed: uint64(n)}
		cp, _ := vfPipe()
		defer cp.Close()
		uc, err, pan := vf02Build(vf02Case{Source: "custom", Name: what, ID: HelloCustom, Spec: spec}, cm.Config(), cm, cp)
		rel := "at-or-below-limit"
		if n > o.limit {
			rel = "beyond-limit"
		}
		st.Class("overlimit:" + o.name + ":" + rel)
		if pan != nil {
			st.Violation(tt, "%s: panic instead of an error: %v", what, pan.Val)
		}
		if err != nil {
			st.Class("overlimit-outcome:error")
			if n > o.limit {
				st.NonTrivial(fmt.Sprintf("overlimit|%s|refused", o.name))
			}
			return
		}
		h := vfParseClientHello(uc.HandshakeState.Hello.Raw)
		viol := append(append([]string{}, h.Violations...), vf02ExtraViolations(h)...)
		if len(viol) > 0 {
			st.Violation(tt, "%s: BuildHandshakeState returned no error and emitted a %d-byte hello with %d grammar violations: %v", what, len(uc.HandshakeState.Hello.Raw), len(viol), viol[:min(3, len(viol))])
		}
		st.Class("overlimit-outcome:valid-hello")
		if n > o.limit {
			st.NonTrivial(fmt.Sprintf("overlimit|%s|valid", o.name))
		}
	}
	// the boundary itself and one beyond, for every field
	for _, o := range vf02Overs {
		for _, n := range []int{o.limit - 1, o.limit, o.limit + 1, o.limit + 2} {
			one(t, o, n)
		}
	}
	rapid.Check(t, func(rt *rapid.T) {
		o := vf02Overs[rapid.IntRange(0, len(vf02Overs)-1).Draw(rt, "field")]
		var n int
		switch rapid.IntRange(0, 3).Draw(rt, "how") {
		case 0:
			n = o.limit + rapid.IntRange(-3, 3).Draw(rt, "delta")
		case 1:
			n = o.limit + rapid.IntRange(1, 300).Draw(rt, "beyond")
		case 2:
			n = 2*o.limit + rapid.IntRange(-2, 2).Draw(rt, "double") // wraps a truncated prefix to a small value
		default:
			n = o.limit + 1 + rapid.SampledFrom([]int{0, 1, 127, 128, 255, 256}).Draw(rt, "wrap")
		}
		if n < 1 {
			n = 1
		}
		one(rt, o, n)
	})
}
