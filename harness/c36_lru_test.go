//go:build verif

package tls

// C36 - the LRU client session cache behaves as a bounded LRU map.
//
// Sequential part: rapid state machine (rt.Repeat) over NewLRUClientSessionCache(n), n in 1..5, 6 keys, 4 distinct
// session values; oracle = a reference LRU map written here (slice in recency order; Get refreshes, Put(k,nil)
// deletes and is a no-op on an absent key, at most n entries). Only the values returned by Get through the
// ClientSessionCache interface decide the verdict; in-package access is used for the "never holds more than n
// entries" invariant (len(m), q.Len()).
// Concurrent part (-race): 2-4 clients x <= 6 operations on one cache, call/return stamps from one atomic counter
// (a logical clock, no wall time), porcupine linearizability check against the same reference model.
//
// Known class C36:put-absent-nil-inserts-nil-entry: a second model that differs from the reference in exactly one
// rule (Put(absentKey, nil) inserts an entry holding nil) is run in lock step; a Get that disagrees with the
// reference is excluded only if the history contains such a Put *and* the observed value is the one the
// deviation model predicts. Everything else is a violation.

import (
	"fmt"
	"runtime"
	"strings"
	"sync"
	"sync/atomic"
	"testing"

	"github.com/anishathalye/porcupine"
	"pgregory.net/rapid"
)

const vf36KnownKey = "C36:put-absent-nil-inserts-nil-entry"

type vf36Entry struct {
	k string
	v int // value id; 0 = nil *ClientSessionState
}

// vf36Model is the reference LRU map; q[0] is the most recently used entry.
type vf36Model struct {
	capacity int
	q        []vf36Entry
	// nilInserts switches on the one deviating rule of the known class.
	nilInserts bool
	evictions  int
}

func (m *vf36Model) find(k string) int {
	for i, e := range m.q {
		if e.k == k {
			return i
		}
	}
	return -1
}

func (m *vf36Model) toFront(i int) {
	e := m.q[i]
	copy(m.q[1:i+1], m.q[:i])
	m.q[0] = e
}

func (m *vf36Model) Get(k string) (int, bool) {
	i := m.find(k)
	if i < 0 {
		return 0, false
	}
	m.toFront(i)
	return m.q[0].v, true
}

// Put returns true when a live (non-nil) entry was evicted.
func (m *vf36Model) Put(k string, v int) (evictedLive bool) {
	if i := m.find(k); i >= 0 {
		if v == 0 {
			m.q = append(m.q[:i:i], m.q[i+1:]...)
			return false
		}
		m.q[i].v = v
		m.toFront(i)
		return false
	}
	if v == 0 && !m.nilInserts {
		return false // deleting an absent key changes nothing
	}
	if len(m.q) >= m.capacity {
		last := m.q[len(m.q)-1]
		evictedLive = last.v != 0
		m.q = m.q[:len(m.q)-1]
		m.evictions++
	}
	m.q = append([]vf36Entry{{k, v}}, m.q...)
	return evictedLive
}

func (m *vf36Model) String() string {
	var sb strings.Builder
	for _, e := range m.q {
		fmt.Fprintf(&sb, "%s=%d ", e.k, e.v)
	}
	return "[" + strings.TrimSpace(sb.String()) + "]"
}

func (m *vf36Model) clone() *vf36Model {
	c := *m
	c.q = append([]vf36Entry(nil), m.q...)
	return &c
}

// ---- values ----

type vf36Vals struct {
	ptr []*ClientSessionState // index = id; ptr[0] == nil
	id  map[*ClientSessionState]int
}

func vf36NewVals(n int) *vf36Vals {
	v := &vf36Vals{ptr: []*ClientSessionState{nil}, id: map[*ClientSessionState]int{nil: 0}}
	for i := 1; i <= n; i++ {
		p := &ClientSessionState{session: &SessionState{version: uint16(i)}}
		v.ptr = append(v.ptr, p)
		v.id[p] = i
	}
	return v
}

func (v *vf36Vals) idOf(p *ClientSessionState) int {
	if id, ok := v.id[p]; ok {
		return id
	}
	return -1
}

// ---- sequential runner ----

type vf36Run struct {
	st                                                      *vfStats
	t                                                       vfFataler
	capacity                                                int
	cache                                                   ClientSessionCache
	vals                                                    *vf36Vals
	spec                                                    *vf36Model
	dev                                                     *vf36Model // reference + the deviating rule
	tainted                                                 bool       // history contains Put(k,nil) with k absent (in the deviation model == the real cache if the defect exists)
	hist                                                    []string
	knownHit                                                bool
	nilPresent, nilAbsent, evicts, hits, misses, overwrites int
}

func vf36NewRun(st *vfStats, t vfFataler, requested int) *vf36Run {
	eff := requested
	if eff < 1 {
		eff = 64 // documented default
	}
	return &vf36Run{st: st, t: t, capacity: eff, cache: NewLRUClientSessionCache(requested), vals: vf36NewVals(4),
		spec: &vf36Model{capacity: eff}, dev: &vf36Model{capacity: eff, nilInserts: true},
		hist: []string{fmt.Sprintf("New(%d)", requested)}}
}

func (r *vf36Run) Put(k string, v int) {
	if v == 0 {
		if r.dev.find(k) < 0 {
			r.tainted = true
			r.nilAbsent++
		} else {
			r.nilPresent++
		}
		r.hist = append(r.hist, fmt.Sprintf("Put(%s,nil)", k))
	} else {
		if r.spec.find(k) >= 0 {
			r.overwrites++
		}
		r.hist = append(r.hist, fmt.Sprintf("Put(%s,v%d)", k, v))
	}
	before := r.spec.evictions
	r.spec.Put(k, v)
	r.evicts += r.spec.evictions - before
	r.dev.Put(k, v)
	r.cache.Put(k, r.vals.ptr[v])
	r.invariants()
}

func (r *vf36Run) Get(k string) {
	wv, wok := r.spec.Get(k)
	dv, dok := r.dev.Get(k)
	p, ok := r.cache.Get(k)
	gv := r.vals.idOf(p)
	r.hist = append(r.hist, fmt.Sprintf("Get(%s)=(%s,%v)", k, vf36ValName(gv), ok))
	if wok {
		r.hits++
	} else {
		r.misses++
	}
	if gv == wv && ok == wok {
		r.invariants()
		return
	}
	detail := fmt.Sprintf("capacity %d, history %s: Get(%s) returned (%s,%v), a sequential LRU map returns (%s,%v)",
		r.capacity, strings.Join(r.hist, "; "), k, vf36ValName(gv), ok, vf36ValName(wv), wok)
	if r.tainted && gv == dv && ok == dok {
		// exactly the behaviour of "Put(absent,nil) inserts an entry holding nil"
		r.knownHit = true
		r.st.KnownOrViolation(r.t, vf36KnownKey, "%s", detail)
		r.invariants()
		return
	}
	r.st.Violation(r.t, "%s", detail)
}

func vf36ValName(id int) string {
	switch {
	case id == 0:
		return "nil"
	case id < 0:
		return "UNKNOWN-POINTER"
	}
	return fmt.Sprintf("v%d", id)
}

// invariants: never more than n entries, map and list agree (in-package view).
func (r *vf36Run) invariants() {
	c := r.cache.(*lruSessionCache)
	c.Lock()
	ql, ml := c.q.Len(), len(c.m)
	c.Unlock()
	if ql > r.capacity || ml > r.capacity {
		r.st.Violation(r.t, "capacity %d, history %s: cache holds %d list entries / %d map entries", r.capacity,
			strings.Join(r.hist, "; "), ql, ml)
	}
	if ql != ml {
		r.st.Violation(r.t, "capacity %d, history %s: list has %d entries, map has %d", r.capacity, strings.Join(r.hist, "; "), ql, ml)
	}
}

func (r *vf36Run) finish() {
	r.st.Eval()
	if r.evicts > 0 {
		r.st.Class("seq:had-eviction")
	}
	if r.nilPresent > 0 {
		r.st.Class("seq:had-delete-of-present-key")
	}
	if r.nilAbsent > 0 {
		r.st.Class("seq:had-delete-of-absent-key")
	}
	if r.overwrites > 0 {
		r.st.Class("seq:had-overwrite")
	}
	if r.hits > 0 {
		r.st.Class("seq:had-hit")
	}
	if r.misses > 0 {
		r.st.Class("seq:had-miss")
	}
	if r.knownHit {
		r.st.Class("seq:known-deviation-observed")
	}
	r.st.Class(fmt.Sprintf("seq:capacity=%d", r.capacity))
	if r.evicts > 0 || r.nilPresent+r.nilAbsent > 0 {
		r.st.NonTrivial("s:" + strings.Join(r.hist, ";"))
	}
	r.st.Sample(map[string]any{"history": strings.Join(r.hist, "; ")})
}

var vf36Keys = []string{"a", "b", "c", "d", "e", "f"}

func TestVerifC36Sequential(t *testing.T) {
	st := vfNewStats(t, "C36")
	rapid.Check(t, func(rt *rapid.T) {
		capacity := rapid.IntRange(1, 5).Draw(rt, "capacity")
		r := vf36NewRun(st, rt, capacity)
		key := rapid.SampledFrom(vf36Keys)
		rt.Repeat(map[string]func(*rapid.T){
			"Get": func(rt *rapid.T) { r.Get(key.Draw(rt, "k")) },
			"Put": func(rt *rapid.T) { r.Put(key.Draw(rt, "k"), rapid.IntRange(1, 4).Draw(rt, "v")) },
			"PutFresh": func(rt *rapid.T) { // a key not in the reference map, if any: drives evictions
				var absent []string
				for _, k := range vf36Keys {
					if r.spec.find(k) < 0 {
						absent = append(absent, k)
					}
				}
				if len(absent) == 0 {
					rt.Skip("all keys present")
				}
				r.Put(rapid.SampledFrom(absent).Draw(rt, "k"), rapid.IntRange(1, 4).Draw(rt, "v"))
			},
			"PutNil": func(rt *rapid.T) { r.Put(key.Draw(rt, "k"), 0) },
		})
		// final sweep: everything the cache holds is observable through Get
		for _, k := range vf36Keys {
			r.Get(k)
		}
		r.finish()
	})
}

// Directed cases: the two minimal histories of the known class, the documented default capacity, a full
// eviction cycle at every capacity 1..5.
func TestVerifC36Directed(t *testing.T) {
	st := vfNewStats(t, "C36")
	// (1) deleting an absent key must not evict a live entry
	r := vf36NewRun(st, t, 1)
	r.Put("a", 1)
	r.Put("b", 0)
	r.Get("a")
	r.finish()
	// (2) deleting an absent key must not make it "found"
	r = vf36NewRun(st, t, 2)
	r.Put("a", 0)
	r.Get("a")
	r.finish()
	// (3) delete of a present key, then re-insert
	r = vf36NewRun(st, t, 2)
	r.Put("a", 1)
	r.Put("b", 2)
	r.Put("a", 0)
	r.Get("a")
	r.Put("c", 3)
	r.Get("b")
	r.Get("c")
	r.Put("a", 4)
	r.Get("b")
	r.Get("c")
	r.Get("a")
	r.finish()
	// (4) capacity < 1 means the default of 64
	for _, req := range []int{0, -1, -1 << 31} {
		r = vf36NewRun(st, t, req)
		var ks []string
		for i := 0; i < 70; i++ {
			ks = append(ks, fmt.Sprintf("k%02d", i))
		}
		for i, k := range ks {
			r.Put(k, 1+i%4)
		}
		for _, k := range ks {
			r.Get(k)
		}
		r.finish()
	}
	// (5) recency: at every capacity fill, touch the oldest, overflow by one, see who went
	for n := 1; n <= 5; n++ {
		r = vf36NewRun(st, t, n)
		for i := 0; i < n; i++ {
			r.Put(vf36Keys[i], 1+i%4)
		}
		r.Get(vf36Keys[0])
		r.Put("f", 4)
		for _, k := range vf36Keys {
			r.Get(k)
		}
		r.finish()
	}
}

// ---- concurrent part ----

type vf36In struct {
	get bool
	k   string
	v   int
}

type vf36Out struct {
	v  int
	ok bool
}

// porcupine state: the recency list rendered as a string (immutable, comparable with ==).
func vf36Encode(q []vf36Entry) string {
	var sb strings.Builder
	for _, e := range q {
		fmt.Fprintf(&sb, "%s%d,", e.k, e.v)
	}
	return sb.String()
}

func vf36Decode(s string) []vf36Entry {
	var q []vf36Entry
	for _, f := range strings.Split(s, ",") {
		if f == "" {
			continue
		}
		var v int
		fmt.Sscanf(f[1:], "%d", &v)
		q = append(q, vf36Entry{f[:1], v})
	}
	return q
}

func vf36PorcupineModel(capacity int, nilInserts bool) porcupine.Model {
	return porcupine.Model{
		Init: func() interface{} { return "" },
		Step: func(state, input, output interface{}) (bool, interface{}) {
			m := &vf36Model{capacity: capacity, nilInserts: nilInserts, q: vf36Decode(state.(string))}
			in := input.(vf36In)
			if in.get {
				v, ok := m.Get(in.k)
				out := output.(vf36Out)
				return v == out.v && ok == out.ok, vf36Encode(m.q)
			}
			m.Put(in.k, in.v)
			return true, vf36Encode(m.q)
		},
		DescribeOperation: func(input, output interface{}) string {
			in := input.(vf36In)
			if in.get {
				out := output.(vf36Out)
				return fmt.Sprintf("Get(%s)=(%s,%v)", in.k, vf36ValName(out.v), out.ok)
			}
			return fmt.Sprintf("Put(%s,%s)", in.k, vf36ValName(in.v))
		},
	}
}

func vf36DescribeHistory(m porcupine.Model, ops []porcupine.Operation) string {
	var sb strings.Builder
	for _, o := range ops {
		fmt.Fprintf(&sb, "client%d [%d,%d] %s; ", o.ClientId, o.Call, o.Return, m.DescribeOperation(o.Input, o.Output))
	}
	return sb.String()
}

var vf36ConcKeys = []string{"a", "b", "c", "d"}

func vf36GenIn(rt *rapid.T, label string) vf36In {
	k := rapid.SampledFrom(vf36ConcKeys).Draw(rt, label+"_k")
	switch rapid.IntRange(0, 9).Draw(rt, label+"_op") {
	case 0, 1, 2, 3:
		return vf36In{get: true, k: k}
	case 4:
		return vf36In{k: k, v: 0}
	default:
		return vf36In{k: k, v: rapid.IntRange(1, 4).Draw(rt, label+"_v")}
	}
}

func TestVerifC36Concurrent(t *testing.T) {
	st := vfNewStats(t, "C36")
	rapid.Check(t, func(rt *rapid.T) {
		capacity := rapid.IntRange(1, 3).Draw(rt, "capacity")
		clients := rapid.IntRange(2, 4).Draw(rt, "clients")
		vals := vf36NewVals(4)
		cache := NewLRUClientSessionCache(capacity)
		var clock int64
		var ops []porcupine.Operation
		exec := func(client int, in vf36In, yield bool) porcupine.Operation {
			op := porcupine.Operation{ClientId: client, Input: in}
			op.Call = atomic.AddInt64(&clock, 1)
			if yield {
				runtime.Gosched() // widens the recorded interval; the history stays a valid observation
			}
			if in.get {
				p, ok := cache.Get(in.k)
				op.Output = vf36Out{vals.idOf(p), ok}
			} else {
				cache.Put(in.k, vals.ptr[in.v])
				op.Output = vf36Out{}
			}
			op.Return = atomic.AddInt64(&clock, 1)
			return op
		}
		// sequential prefill by client 0 so that the concurrent phase starts on a (nearly) full cache
		nilPut, absentNilPossible := false, false
		npre := rapid.IntRange(0, capacity+1).Draw(rt, "prefill")
		for i := 0; i < npre; i++ {
			in := vf36In{k: vf36ConcKeys[i%len(vf36ConcKeys)], v: 1 + i%4}
			ops = append(ops, exec(0, in, false))
		}
		progs := make([][]vf36In, clients)
		yields := make([][]bool, clients)
		for c := range progs {
			n := rapid.IntRange(1, 6).Draw(rt, fmt.Sprintf("n%d", c))
			for i := 0; i < n; i++ {
				in := vf36GenIn(rt, fmt.Sprintf("c%d_%d", c, i))
				if !in.get && in.v == 0 {
					nilPut = true
				}
				progs[c] = append(progs[c], in)
				yields[c] = append(yields[c], rapid.Bool().Draw(rt, fmt.Sprintf("y%d_%d", c, i)))
			}
		}
		absentNilPossible = nilPut
		results := make([][]porcupine.Operation, clients)
		var ready int32
		var wg sync.WaitGroup
		for c := range progs {
			wg.Add(1)
			go func(c int) {
				defer wg.Done()
				// spin barrier: all clients enter their first call at (nearly) the same instant
				atomic.AddInt32(&ready, 1)
				for spins := 0; atomic.LoadInt32(&ready) < int32(clients); spins++ {
					if spins > 1000 {
						runtime.Gosched()
					}
				}
				for i, in := range progs[c] {
					results[c] = append(results[c], exec(c, in, yields[c][i]))
				}
			}(c)
		}
		wg.Wait()
		overlaps := 0
		for c := range results {
			ops = append(ops, results[c]...)
		}
		// final sequential sweep: the end state must be explained by the same linearization
		for _, k := range vf36ConcKeys {
			ops = append(ops, exec(0, vf36In{get: true, k: k}, false))
		}
		for i := range ops {
			for j := i + 1; j < len(ops); j++ {
				if ops[i].ClientId != ops[j].ClientId && ops[i].Call < ops[j].Return && ops[j].Call < ops[i].Return {
					overlaps++
				}
			}
		}
		st.Eval()
		if overlaps > 0 {
			st.Class("conc:history-with-overlapping-calls")
		} else {
			st.Class("conc:history-without-overlap")
		}
		if nilPut {
			st.Class("conc:has-nil-put")
		}
		st.Class(fmt.Sprintf("conc:clients=%d", clients))
		c := cache.(*lruSessionCache)
		if c.q.Len() > capacity || len(c.m) != c.q.Len() {
			st.Violation(rt, "capacity %d: after the history the cache holds %d list / %d map entries", capacity, c.q.Len(), len(c.m))
		}
		spec := vf36PorcupineModel(capacity, false)
		desc := vf36DescribeHistory(spec, ops)
		if overlaps > 0 || nilPut {
			st.NonTrivial("c:" + desc)
		}
		st.Sample(map[string]any{"capacity": capacity, "clients": clients, "overlapping_pairs": overlaps, "history": desc})
		if porcupine.CheckOperations(spec, ops) {
			return
		}
		if absentNilPossible && porcupine.CheckOperations(vf36PorcupineModel(capacity, true), ops) {
			st.Class("conc:known-deviation-observed")
			st.KnownOrViolation(rt, vf36KnownKey, "capacity %d: history not linearizable against the LRU map, but linearizable when Put(absent,nil) inserts a nil entry: %s", capacity, desc)
			return
		}
		st.Violation(rt, "capacity %d: history is not linearizable against a sequential LRU map: %s", capacity, desc)
	})
}
