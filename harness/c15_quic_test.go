//go:build verif

// C15 over the QUIC API: the same ECH clauses hold when the hello travels as QUIC CRYPTO data (QUICClient, and a
// UQUICClient driving HelloGolang): the Initial-level bytes hide Config.ServerName and name the public name; the
// server decrypts an inner hello that is the client's real hello - which for QUIC includes the client's
// quic_transport_parameters - an accepting server completes with ECHAccepted and ServerName on both sides, a
// rejecting one makes the client fail with ECHRejectionError carrying the retry configs.

package tls

import (
	"bytes"
	"context"
	"errors"
	"fmt"
	"testing"
	"time"

	"pgregory.net/rapid"
)

type vf15QResult struct {
	plain                      []byte
	cliDone, srvDone           bool
	srvGotParams, cliGotParams []byte
	err                        error
	errSide                    string
	cliStartErr                error
}

func vf15QPump(cli interface {
	NextEvent() QUICEvent
	HandleData(QUICEncryptionLevel, []byte) error
}, srv *QUICConn) *vf15QResult {
	res := &vf15QResult{}
	type end interface {
		NextEvent() QUICEvent
		HandleData(QUICEncryptionLevel, []byte) error
	}
	var a, z end = cli, srv
	aIsCli := true
	idle := 0
	for steps := 0; steps < 400; steps++ {
		e := a.NextEvent()
		switch e.Kind {
		case QUICNoEvent:
			idle++
			if idle == 2 {
				return res
			}
			a, z = z, a
			aIsCli = !aIsCli
			continue
		case QUICWriteData:
			if aIsCli && e.Level == QUICEncryptionLevelInitial {
				res.plain = append(res.plain, e.Data...)
			}
			if err := z.HandleData(e.Level, e.Data); err != nil {
				res.err = err
				res.errSide = map[bool]string{true: "server", false: "client"}[aIsCli]
				return res
			}
		case QUICTransportParameters:
			if aIsCli {
				res.cliGotParams = append([]byte{}, e.Data...)
			} else {
				res.srvGotParams = append([]byte{}, e.Data...)
			}
		case QUICTransportParametersRequired:
			res.err = errors.New("transport parameters required although they were set")
			return res
		case QUICHandshakeDone:
			if aIsCli {
				res.cliDone = true
			} else {
				res.srvDone = true
			}
		}
		idle = 0
	}
	res.err = errors.New("pump did not settle within 400 events")
	return res
}

func TestVerifC15OverQUIC(t *testing.T) {
	st := vfNewStats(t, "C15")
	run := func(rt vfFataler, client string, mode string, seed uint64, secret, public string, cliTP, srvTP []byte) {
		st.Eval()
		what := fmt.Sprintf("client=%s server=%s secret=%q public=%q client transport parameters %d bytes (config seed %d)", client, mode, secret, public, len(cliTP), seed)
		list, key := vfMakeECHConfig(seed, public)
		ccfg := vfClientConfig(secret)
		ccfg.MinVersion = VersionTLS13
		ccfg.EncryptedClientHelloConfigList = list
		ccfg.NextProtos = []string{"h3"}
		scfg := vfServerConfig("ecdsa", secret, public)
		scfg.MinVersion = VersionTLS13
		scfg.NextProtos = []string{"h3"}
		var retryList []byte
		switch mode {
		case "accept":
			scfg.EncryptedClientHelloKeys = []EncryptedClientHelloKey{key}
		case "reject":
			var other EncryptedClientHelloKey
			retryList, other = vfMakeECHConfig(seed+1000003, public)
			other.SendAsRetry = true
			scfg.EncryptedClientHelloKeys = []EncryptedClientHelloKey{other}
		}
		ctx, cancel := context.WithTimeout(context.Background(), vfIOTimeout)
		defer cancel()
		srv := QUICServer(&QUICConfig{TLSConfig: scfg})
		defer srv.Close()
		srv.SetTransportParameters(srvTP)
		var res *vf15QResult
		var cs ConnectionState
		var startErr error
		if client == "QUICClient" {
			cli := QUICClient(&QUICConfig{TLSConfig: ccfg})
			defer cli.Close()
			cli.SetTransportParameters(cliTP)
			if startErr = cli.Start(ctx); startErr == nil {
				if err := srv.Start(ctx); err != nil {
					st.Violation(rt, "%s: server Start: %v", what, err)
				}
				res = vf15QPump(cli, srv)
				cs = cli.ConnectionState()
			}
		} else {
			cli := UQUICClient(&QUICConfig{TLSConfig: ccfg}, HelloGolang)
			defer cli.Close()
			cli.SetTransportParameters(cliTP)
			if startErr = cli.Start(ctx); startErr == nil {
				if err := srv.Start(ctx); err != nil {
					st.Violation(rt, "%s: server Start: %v", what, err)
				}
				res = vf15QPump(cli, srv)
				cs = cli.ConnectionState()
			}
		}
		if startErr != nil {
			st.Violation(rt, "%s: client Start failed: %v", what, startErr)
		}
		// clause 1: the plaintext flight
		if len(res.plain) == 0 {
			st.Violation(rt, "%s: no Initial-level client data captured", what)
		}
		if bytes.Contains(res.plain, []byte(secret)) {
			st.Violation(rt, "%s: the client's Initial-level bytes contain Config.ServerName", what)
		}
		if len(res.plain) < 4 || res.plain[0] != typeClientHello || 4+(int(res.plain[1])<<16|int(res.plain[2])<<8|int(res.plain[3])) > len(res.plain) {
			st.Violation(rt, "%s: the Initial-level client data does not start with a complete ClientHello", what)
		}
		h := vfParseClientHello(res.plain[:4+(int(res.plain[1])<<16|int(res.plain[2])<<8|int(res.plain[3]))])
		if h == nil {
			st.Violation(rt, "%s: the outer ClientHello does not parse", what)
		}
		if sni, _ := h.SNI(); sni != public {
			st.Violation(rt, "%s: outer SNI is %q, want the public name", what, sni)
		}
		switch mode {
		case "accept":
			if res.err != nil || !res.cliDone || !res.srvDone {
				st.Violation(rt, "%s: the handshake with an accepting server did not complete: err=%v (%s side) client done=%v server done=%v", what, res.err, res.errSide, res.cliDone, res.srvDone)
			}
			ss := srv.ConnectionState()
			if !cs.ECHAccepted || !ss.ECHAccepted {
				st.Violation(rt, "%s: ECHAccepted client=%v server=%v", what, cs.ECHAccepted, ss.ECHAccepted)
			}
			if cs.ServerName != secret || ss.ServerName != secret {
				st.Violation(rt, "%s: ServerName client=%q server=%q", what, cs.ServerName, ss.ServerName)
			}
			if !bytes.Equal(res.srvGotParams, cliTP) {
				st.Violation(rt, "%s: the inner hello the server acted upon carries transport parameters %x, the client set %x", what, res.srvGotParams, cliTP)
			}
			if !bytes.Equal(res.cliGotParams, srvTP) {
				st.Violation(rt, "%s: the client saw server transport parameters %x, want %x", what, res.cliGotParams, srvTP)
			}
			st.Class("quic:accept:" + client)
		case "reject":
			var rej *ECHRejectionError
			if res.cliDone || !errors.As(res.err, &rej) || res.errSide != "client" {
				st.Violation(rt, "%s: a rejecting server must make the client fail with ECHRejectionError, got done=%v err=%v (%s side)", what, res.cliDone, res.err, res.errSide)
			}
			if !bytes.Equal(rej.RetryConfigList, retryList) {
				st.Violation(rt, "%s: ECHRejectionError carries retry configs %x, the server sent %x", what, rej.RetryConfigList, retryList)
			}
			st.Class("quic:reject:" + client)
		}
		st.NonTrivial("quic|" + what)
	}
	for i, client := range []string{"QUICClient", "UQUICClient(HelloGolang)"} {
		for j, mode := range []string{"accept", "reject"} {
			run(t, client, mode, uint64(10+i*2+j), "hidden-name.c15.test", "front.public.test", []byte("client-transport-parameters"), []byte("server-transport-parameters"))
		}
	}
	rapid.Check(t, func(rt *rapid.T) {
		client := rapid.SampledFrom([]string{"QUICClient", "UQUICClient(HelloGolang)"}).Draw(rt, "client")
		mode := rapid.SampledFrom([]string{"accept", "accept", "reject"}).Draw(rt, "server")
		secret := vf15GenLabel(rt, "secret", 12, 40) + ".c15.test"
		public := vf15GenLabel(rt, "public", 1, 30) + ".public.test"
		cliTP := rapid.SliceOfN(rapid.Byte(), 0, 300).Draw(rt, "client_tp")
		srvTP := rapid.SliceOfN(rapid.Byte(), 0, 100).Draw(rt, "server_tp")
		run(rt, client, mode, rapid.Uint64Range(0, 1<<40).Draw(rt, "config_seed"), secret, public, cliTP, srvTP)
	})
	_ = time.Second
}
