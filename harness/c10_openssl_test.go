//go:build verif

package tls

// C10 (independent peer): OpenSSL s_server over loopback TCP as a standards-compliant server that shares no code with
// this repository. One s_server process per pinned configuration (version, TLS 1.3 ciphersuite or TLS 1.2 cipher, group,
// certificate type, ALPN); every client source is run against it; "-rev" makes the server echo each line reversed, which
// is the application-data round trip. The expectation (must complete / server may reject) is derived from the on-wire
// offer as in the grid test. Skipped with a note when no openssl binary is available.

import (
	"bufio"
	"crypto/x509"
	"encoding/pem"
	"fmt"
	"net"
	"os"
	"os/exec"
	"path/filepath"
	"strings"
	"testing"
	"time"

	"pgregory.net/rapid"
)

type vf10OSSLConfig struct {
	Ver     uint16
	Suite   uint16 // TLS 1.3 suite or TLS 1.2 suite id
	OName   string // openssl name of the suite
	Group   uint16
	GName   string
	CertKey string
	GList   []uint16 // set for a preference list of several groups (Group is 0 then): the selected group is OpenSSL's choice
}

func (c vf10OSSLConfig) String() string {
	return fmt.Sprintf("openssl ver=%04x suite=%s group=%s cert=%s", c.Ver, c.OName, c.GName, c.CertKey)
}

var vf10OSSLGroups = []struct {
	ID   uint16
	Name string
}{{0x001d, "X25519"}, {0x0017, "P-256"}, {0x0018, "P-384"}, {0x0019, "P-521"}, {vfGroupX25519MLKEM768, "X25519MLKEM768"}}

var vf10OSSL13 = []struct {
	ID   uint16
	Name string
}{{TLS_AES_128_GCM_SHA256, "TLS_AES_128_GCM_SHA256"}, {TLS_AES_256_GCM_SHA384, "TLS_AES_256_GCM_SHA384"}, {TLS_CHACHA20_POLY1305_SHA256, "TLS_CHACHA20_POLY1305_SHA256"}}

var vf10OSSL12 = []struct {
	ID   uint16
	Name string
	Auth string
}{{0xc02f, "ECDHE-RSA-AES128-GCM-SHA256", "rsa"}, {0xc030, "ECDHE-RSA-AES256-GCM-SHA384", "rsa"}, {0xc02b, "ECDHE-ECDSA-AES128-GCM-SHA256", "ecdsa"},
	{0xc02c, "ECDHE-ECDSA-AES256-GCM-SHA384", "ecdsa"}, {0xcca8, "ECDHE-RSA-CHACHA20-POLY1305", "rsa"}, {0xcca9, "ECDHE-ECDSA-CHACHA20-POLY1305", "ecdsa"},
	{0xc013, "ECDHE-RSA-AES128-SHA", "rsa"}, {0xc014, "ECDHE-RSA-AES256-SHA", "rsa"}, {0x009c, "AES128-GCM-SHA256", "rsa"}, {0x002f, "AES128-SHA", "rsa"},
	{0xc027, "ECDHE-RSA-AES128-SHA256", "rsa"}, {0xc009, "ECDHE-ECDSA-AES128-SHA", "ecdsa"}}

func vf10WritePEM(dir, keyType, name string) (certFile, keyFile string, err error) {
	leaf := vfLeaf(vfLeafSpec{KeyType: keyType, Names: []string{name}})
	certFile = filepath.Join(dir, keyType+"-cert.pem")
	keyFile = filepath.Join(dir, keyType+"-key.pem")
	der, err := x509.MarshalPKCS8PrivateKey(leaf.PrivateKey)
	if err != nil {
		return "", "", err
	}
	if err := os.WriteFile(certFile, pem.EncodeToMemory(&pem.Block{Type: "CERTIFICATE", Bytes: leaf.Certificate[0]}), 0o600); err != nil {
		return "", "", err
	}
	return certFile, keyFile, os.WriteFile(keyFile, pem.EncodeToMemory(&pem.Block{Type: "PRIVATE KEY", Bytes: der}), 0o600)
}

type vf10OSSLServer struct {
	cmd    *exec.Cmd
	addr   string
	exited chan struct{} // closed when the s_server process has ended
}

// alive: the s_server this harness started is still running. A free port is found by binding and releasing it, so
// another process (a parallel shard's s_server) may take it first; ours then exits at once, and whatever answers on
// that port is not the server configured here.
func (s *vf10OSSLServer) alive() bool {
	select {
	case <-s.exited:
		return false
	default:
		return true
	}
}

func vf10StartOpenSSL(bin, dir string, c vf10OSSLConfig, name string) (*vf10OSSLServer, error) {
	ln, err := net.Listen("tcp", "127.0.0.1:0")
	if err != nil {
		return nil, err
	}
	port := ln.Addr().(*net.TCPAddr).Port
	ln.Close()
	cert, key, err := vf10WritePEM(dir, c.CertKey, name)
	if err != nil {
		return nil, err
	}
	args := []string{"s_server", "-accept", fmt.Sprintf("127.0.0.1:%d", port), "-cert", cert, "-key", key, "-rev", "-quiet", "-no_ticket",
		"-groups", c.GName, "-alpn", "h2,http/1.1"}
	if c.Ver == VersionTLS13 {
		args = append(args, "-tls1_3", "-ciphersuites", c.OName)
	} else {
		args = append(args, "-tls1_2", "-cipher", c.OName+":@SECLEVEL=0")
	}
	cmd := exec.Command(bin, args...)
	cmd.Stdout, cmd.Stderr = nil, nil
	if err := cmd.Start(); err != nil {
		return nil, err
	}
	s := &vf10OSSLServer{cmd: cmd, addr: fmt.Sprintf("127.0.0.1:%d", port), exited: make(chan struct{})}
	go func() { cmd.Wait(); close(s.exited) }()
	for i := 0; i < 100 && s.alive(); i++ {
		conn, err := net.DialTimeout("tcp", s.addr, 200*time.Millisecond)
		if err == nil {
			conn.Close()
			time.Sleep(60 * time.Millisecond) // a process that lost the port has exited by now
			if !s.alive() {
				break
			}
			return s, nil
		}
		time.Sleep(30 * time.Millisecond)
	}
	s.Stop()
	return nil, fmt.Errorf("s_server did not come up on %s (or lost the port to another process)", s.addr)
}

func (s *vf10OSSLServer) Stop() {
	if s.cmd != nil && s.cmd.Process != nil {
		s.cmd.Process.Kill()
		<-s.exited
	}
}

func vf10OSSLExpect(o *vfOffer, c vf10OSSLConfig) (mustWork bool, why string) {
	if !o.HasVersion(c.Ver) {
		return false, "version-not-offered"
	}
	if !vfContains16(o.Suites, c.Suite) {
		return false, "suite-not-offered"
	}
	if c.Ver == VersionTLS13 && c.GList != nil {
		// whichever group OpenSSL picks (directly or through a HelloRetryRequest) is one the client listed; require a
		// share for one of them so that a choice without HelloRetryRequest exists as well
		shared := false
		for _, g := range c.GList {
			if vfContains16(o.Shares, g) && vfContains16(o.Groups, g) {
				shared = true
			}
		}
		if !shared {
			return false, "no-share-for-a-listed-group"
		}
		for _, k := range vfCertKeysFor(o, c.Ver, "") {
			if k == c.CertKey {
				return true, ""
			}
		}
		return false, "cert-type-not-offered"
	}
	if c.Ver == VersionTLS13 {
		if !vfContains16(o.Groups, c.Group) {
			return false, "group-not-offered"
		}
		if c.Group == vfGroupX25519MLKEM768 && !vfContains16(o.Shares, c.Group) {
			return false, "hybrid-via-hrr-not-implemented"
		}
		for _, k := range vfCertKeysFor(o, c.Ver, "") {
			if k == c.CertKey {
				return true, ""
			}
		}
		return false, "cert-type-not-offered"
	}
	si := vfLegacySuite(c.Suite)
	if si == nil {
		return false, "suite-unknown"
	}
	if si.Kx == "ecdhe" && o.Hello.Ext(10) != nil && !vfContains16(o.Groups, c.Group) {
		return false, "group-not-offered"
	}
	for _, k := range vfCertKeysFor(o, c.Ver, si.Auth) {
		if k == c.CertKey {
			return true, ""
		}
	}
	return false, "cert-type-not-offered"
}

func TestVerifC10OpenSSL(t *testing.T) {
	if sh := os.Getenv("VERIF_SHARD"); sh != "" && sh != "0" {
		t.Skip("deterministic sweep: runs in shard 0 only")
	}
	st := vfNewStats(t, "C10")
	bin, err := exec.LookPath("openssl")
	if err != nil {
		st.Extra("openssl", "not available: differential against OpenSSL skipped")
		t.Skip("no openssl binary")
	}
	dir := t.TempDir()
	name := "ossl.example.test"
	// configurations: quick = a handful, thorough = the full grid
	var cfgs []vf10OSSLConfig
	for gi, g := range vf10OSSLGroups {
		for si, s := range vf10OSSL13 {
			for ci, ck := range []string{"ecdsa", "rsa"} {
				if !vfThorough() && (gi+si+ci)%5 != 0 {
					continue
				}
				cfgs = append(cfgs, vf10OSSLConfig{Ver: VersionTLS13, Suite: s.ID, OName: s.Name, Group: g.ID, GName: g.Name, CertKey: ck})
			}
		}
	}
	// preference lists of several classical groups: OpenSSL then reports its supported_groups in EncryptedExtensions
	// whenever the negotiated group is not its first preference (RFC 8446 4.2.7)
	lists := []struct {
		Name string
		IDs  []uint16
	}{{"P-521:P-384:X25519:P-256", []uint16{0x0019, 0x0018, 0x001d, 0x0017}}, {"P-384:P-256:X25519", []uint16{0x0018, 0x0017, 0x001d}},
		{"P-256:X25519", []uint16{0x0017, 0x001d}}, {"X25519:P-256:P-384", []uint16{0x001d, 0x0017, 0x0018}}}
	for li, l := range lists {
		if !vfThorough() && li >= 2 {
			continue
		}
		s := vf10OSSL13[li%len(vf10OSSL13)]
		cfgs = append(cfgs, vf10OSSLConfig{Ver: VersionTLS13, Suite: s.ID, OName: s.Name, GName: l.Name, GList: l.IDs, CertKey: []string{"ecdsa", "rsa"}[li%2]})
	}
	for si, s := range vf10OSSL12 {
		for gi, g := range vf10OSSLGroups[:4] {
			if !vfThorough() && (gi*5+si)%9 != 0 {
				continue
			}
			cfgs = append(cfgs, vf10OSSLConfig{Ver: VersionTLS12, Suite: s.ID, OName: s.Name, Group: g.ID, GName: g.Name, CertKey: s.Auth})
		}
	}
	st.Extra("openssl_configs", len(cfgs))
	started := 0
	for _, c := range cfgs {
		srv, err := vf10StartOpenSSL(bin, dir, c, name)
		if err != nil {
			st.Class("openssl-config-not-started: " + c.OName + "/" + c.GName)
			continue
		}
		started++
		func() {
			defer srv.Stop()
			// sources: every parrot, plus randomized specs on fixed seeds
			var srcs []vfClientSrc
			for _, p := range vfParrots {
				srcs = append(srcs, vfClientSrc{Kind: "parrot", Name: p.Name, ID: p.ID})
			}
			for i := 0; i < 6; i++ {
				var seed PRNGSeed
				seed[0], seed[5] = byte(i*37+1), byte(started)
				id := []ClientHelloID{HelloRandomized, HelloRandomizedALPN, HelloRandomizedNoALPN}[i%3]
				id.Seed = &seed
				w := DefaultWeights
				id.Weights = &w
				srcs = append(srcs, vfClientSrc{Kind: "randomized", Name: id.Client, ID: id, SeedHx: fmt.Sprintf("%02x", seed[0])})
			}
			for _, src := range srcs {
				st.Eval()
				tcp, err := net.DialTimeout("tcp", srv.addr, 5*time.Second)
				if err != nil {
					st.Class("openssl-dial-failed")
					return
				}
				ccfg := vfClientConfig(name)
				ccfg.OmitEmptyPsk = true
				uc := UClient(tcp, ccfg, src.ID)
				if err := uc.BuildHandshakeState(); err != nil {
					tcp.Close()
					st.Violation(t, "%s: %v", src, err)
				}
				o := vfOfferOf(vfParseClientHello(uc.HandshakeState.Hello.Raw), uc.config.MinVersion)
				must, why := vf10OSSLExpect(o, c)
				tcp.SetDeadline(time.Now().Add(vfIOTimeout))
				herr := uc.Handshake()
				desc := fmt.Sprintf("%s | %s", src, c)
				if !srv.alive() {
					tcp.Close()
					st.Class("openssl-server-gone(no verdict)")
					return
				}
				if herr != nil {
					tcp.Close()
					if !must {
						st.Class("openssl-rejected-as-expected:" + why)
						continue
					}
					if vfIsRemoteAlert(herr) || strings.Contains(herr.Error(), "EOF") || strings.Contains(herr.Error(), "reset") {
						// OpenSSL refused an offer this harness believed acceptable: no verdict on utls (could be OpenSSL policy),
						// but visible in the evidence
						st.Class("openssl-refused-unexpectedly: " + herr.Error())
						continue
					}
					st.Violation(t, "%s: every pinned value was offered on the wire, yet the CLIENT aborted against OpenSSL: %v", desc, herr)
				}
				cs := uc.ConnectionState()
				if cs.Version != c.Ver || cs.CipherSuite != c.Suite {
					tcp.Close()
					st.Violation(t, "%s: negotiated version %04x suite %04x", desc, cs.Version, cs.CipherSuite)
				}
				if !must {
					st.Class("openssl-accepted-although-not-expected:" + why)
				}
				// application data: "-rev" echoes each line reversed
				msg := fmt.Sprintf("ping-%s-%d", src.Name, started)
				if _, err := uc.Write([]byte(msg + "\n")); err != nil {
					tcp.Close()
					st.Violation(t, "%s: write: %v", desc, err)
				}
				line, err := bufio.NewReader(uc).ReadString('\n')
				tcp.Close()
				if err != nil {
					st.Violation(t, "%s: reading the echo: %v", desc, err)
				}
				rev := []byte(msg)
				for i, j := 0, len(rev)-1; i < j; i, j = i+1, j-1 {
					rev[i], rev[j] = rev[j], rev[i]
				}
				if strings.TrimSpace(line) != string(rev) {
					st.Violation(t, "%s: echo %q, want %q", desc, line, rev)
				}
				st.Class(fmt.Sprintf("openssl-ok ver=%04x", c.Ver))
				st.NonTrivial(fmt.Sprintf("ossl|%s|%04x|%04x|%s|%s", src.Kind+":"+src.Name, c.Ver, c.Suite, c.GName, c.CertKey))
				st.Sample(map[string]any{"client": src.String(), "server": c.String()})
			}
		}()
	}
	if started == 0 {
		st.Extra("openssl", "no s_server configuration could be started")
	}
}

var _ = rapid.Bool
