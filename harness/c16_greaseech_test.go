//go:build verif

package tls

// C16 - GREASE ECH extensions look like real outer ECH extensions.
//
// Every case opens several fresh connections with an identity that carries a GREASE ECH extension (the
// predefined parrots that have one, or a custom spec with BoringGREASEECH() / drawn candidate lists inserted
// at a drawn position) against tls.Server, with or without a HelloRetryRequest forced through the server's
// CurvePreferences. The ClientHello(s) are cut out of the bytes the client wrote and decoded with the
// reference parser (common_refparse_test.go). Oracle:
//   - exactly one encrypted_client_hello extension, type outer, strict grammar;
//   - (KDF, AEAD) is one of the candidate pairs, |enc| == 32, |payload| - 16 is one of the candidate lengths
//     (candidates are read from the spec handed to utls, before the handshake, never from the output);
//   - the extension bytes in the second ClientHello (after HRR) are identical to the first;
//   - across the connections of a case enc and payload are pairwise distinct and the config id takes
//     at least two values (unless the spec pins the config ids).

import (
	"bytes"
	"crypto/ecdh"
	"crypto/rand"
	"fmt"
	"sort"
	"strings"
	"testing"

	"pgregory.net/rapid"
)

const vf16ExtECH = 0xfe0d

func vf16FindGrease(spec *ClientHelloSpec) *GREASEEncryptedClientHelloExtension {
	for _, e := range spec.Extensions {
		if g, ok := e.(*GREASEEncryptedClientHelloExtension); ok {
			return g
		}
	}
	return nil
}

// vf16GreaseParrots lists the predefined identities whose spec carries a GREASE ECH extension.
func vf16GreaseParrots(t testing.TB) []vfParrot {
	var out []vfParrot
	for _, p := range vfParrots {
		spec, err := UTLSIdToSpec(p.ID)
		if err != nil {
			t.Fatalf("UTLSIdToSpec(%s): %v", p.Name, err)
		}
		if vf16FindGrease(&spec) != nil {
			out = append(out, p)
		}
	}
	return out
}

// what the spec allows, snapshotted before the library touches the extension
type vf16Want struct {
	suites    []HPKESymmetricCipherSuite // empty => default {HKDF-SHA256, AES-128-GCM}
	lens      []uint16                   // empty => {128}
	configIDs []uint8                    // empty => any, must vary
}

func vf16Snapshot(g *GREASEEncryptedClientHelloExtension) vf16Want {
	return vf16Want{
		suites:    append([]HPKESymmetricCipherSuite(nil), g.CandidateCipherSuites...),
		lens:      append([]uint16(nil), g.CandidatePayloadLens...),
		configIDs: append([]uint8(nil), g.CandidateConfigIds...),
	}
}

func (w vf16Want) suiteOK(kdf, aead uint16) bool {
	if len(w.suites) == 0 {
		return kdf == 0x0001 && aead == 0x0001
	}
	for _, s := range w.suites {
		if s.KdfId == kdf && s.AeadId == aead {
			return true
		}
	}
	return false
}

func (w vf16Want) lenOK(payloadLen int) bool {
	const tag = 16 // AES-128-GCM, AES-256-GCM and ChaCha20-Poly1305 all have 16-byte tags (RFC 9180 7.3)
	if len(w.lens) == 0 {
		return payloadLen == 128+tag
	}
	for _, l := range w.lens {
		if payloadLen == int(l)+tag {
			return true
		}
	}
	return false
}

func (w vf16Want) configOK(id uint8) bool {
	if len(w.configIDs) == 0 {
		return true
	}
	return bytes.IndexByte(w.configIDs, id) >= 0
}

// a case's identity: how to obtain a *fresh* spec for every connection
type vf16Ident struct {
	desc  string
	id    ClientHelloID                                                   // predefined parrot, or HelloCustom
	build func() (*ClientHelloSpec, *GREASEEncryptedClientHelloExtension) // custom only
}

func vf16MinimalSpec() *ClientHelloSpec {
	return &ClientHelloSpec{
		CipherSuites: []uint16{GREASE_PLACEHOLDER, TLS_AES_128_GCM_SHA256, TLS_AES_256_GCM_SHA384, TLS_CHACHA20_POLY1305_SHA256,
			TLS_ECDHE_ECDSA_WITH_AES_128_GCM_SHA256, TLS_ECDHE_RSA_WITH_AES_128_GCM_SHA256},
		CompressionMethods: []uint8{0},
		Extensions: []TLSExtension{
			&UtlsGREASEExtension{},
			&SNIExtension{},
			&ExtendedMasterSecretExtension{},
			&RenegotiationInfoExtension{Renegotiation: RenegotiateOnceAsClient},
			&SupportedCurvesExtension{Curves: []CurveID{GREASE_PLACEHOLDER, X25519, CurveP256, CurveP384}},
			&SupportedPointsExtension{SupportedPoints: []byte{0}},
			&ALPNExtension{AlpnProtocols: []string{"h2", "http/1.1"}},
			&StatusRequestExtension{},
			&SignatureAlgorithmsExtension{SupportedSignatureAlgorithms: []SignatureScheme{ECDSAWithP256AndSHA256, PSSWithSHA256,
				PKCS1WithSHA256, ECDSAWithP384AndSHA384, PSSWithSHA384, PKCS1WithSHA384, PSSWithSHA512, PKCS1WithSHA512}},
			&SCTExtension{},
			&KeyShareExtension{KeyShares: []KeyShare{{Group: CurveID(GREASE_PLACEHOLDER), Data: []byte{0}}, {Group: X25519}}},
			&PSKKeyExchangeModesExtension{Modes: []uint8{PskModeDHE}},
			&SupportedVersionsExtension{Versions: []uint16{GREASE_PLACEHOLDER, VersionTLS13, VersionTLS12}},
			&UtlsGREASEExtension{},
		},
	}
}

var vf16LenBoundaries = []int{0, 1, 15, 16, 17, 31, 32, 127, 128, 129, 223, 239, 240, 255, 256, 257, 511, 512, 1000}

func vf16GenIdent(rt *rapid.T, parrots []vfParrot) vf16Ident {
	identKind := rapid.IntRange(0, 5).Draw(rt, "identKind")
	if identKind <= 1 {
		p := parrots[rapid.IntRange(0, len(parrots)-1).Draw(rt, "parrot")]
		return vf16Ident{desc: p.Name, id: p.ID}
	}
	// custom spec: base x GREASE ECH flavour x insertion point
	baseKind := rapid.IntRange(0, 2).Draw(rt, "base")
	flavour := []int{0, 1, 2, 2}[identKind-2]
	var suites []HPKESymmetricCipherSuite
	var lens []uint16
	var ids []uint8
	switch flavour {
	case 0: // BoringGREASEECH()
	case 1: // empty extension => library defaults
	case 2:
		ns := rapid.IntRange(0, 4).Draw(rt, "nSuites")
		for i := 0; i < ns; i++ {
			suites = append(suites, HPKESymmetricCipherSuite{
				KdfId:  uint16(rapid.IntRange(1, 3).Draw(rt, fmt.Sprintf("kdf%d", i))),
				AeadId: uint16(rapid.IntRange(1, 3).Draw(rt, fmt.Sprintf("aead%d", i))),
			})
		}
		nl := rapid.IntRange(0, 4).Draw(rt, "nLens")
		for i := 0; i < nl; i++ {
			if rapid.Bool().Draw(rt, fmt.Sprintf("lenB%d", i)) {
				lens = append(lens, uint16(vf16LenBoundaries[rapid.IntRange(0, len(vf16LenBoundaries)-1).Draw(rt, fmt.Sprintf("lenI%d", i))]))
			} else {
				lens = append(lens, uint16(rapid.IntRange(0, 600).Draw(rt, fmt.Sprintf("len%d", i))))
			}
		}
		ni := rapid.IntRange(0, 2).Draw(rt, "nIDs")
		for i := 0; i < ni; i++ {
			ids = append(ids, rapid.Byte().Draw(rt, fmt.Sprintf("cid%d", i)))
		}
	}
	posSel := rapid.IntRange(0, 1000).Draw(rt, "pos")
	baseNames := []string{"minimal", "HelloChrome_102", "HelloFirefox_105"}
	desc := fmt.Sprintf("custom/%s/%s", baseNames[baseKind], []string{"boring", "defaults", "drawn"}[flavour])
	if flavour == 2 {
		desc += fmt.Sprintf("/s=%v/l=%v/i=%v", suites, lens, ids)
	}
	build := func() (*ClientHelloSpec, *GREASEEncryptedClientHelloExtension) {
		var spec *ClientHelloSpec
		switch baseKind {
		case 0:
			spec = vf16MinimalSpec()
		case 1:
			s, _ := UTLSIdToSpec(HelloChrome_102)
			spec = &s
		default:
			s, _ := UTLSIdToSpec(HelloFirefox_105)
			spec = &s
		}
		var g *GREASEEncryptedClientHelloExtension
		switch flavour {
		case 0:
			g = BoringGREASEECH()
		case 1:
			g = &GREASEEncryptedClientHelloExtension{}
		default:
			g = &GREASEEncryptedClientHelloExtension{
				CandidateCipherSuites: append([]HPKESymmetricCipherSuite(nil), suites...),
				CandidatePayloadLens:  append([]uint16(nil), lens...),
				CandidateConfigIds:    append([]uint8(nil), ids...),
			}
		}
		// insert anywhere but behind a trailing padding/PSK extension (none of the bases has a PSK)
		pos := posSel % (len(spec.Extensions) + 1)
		ext := make([]TLSExtension, 0, len(spec.Extensions)+1)
		ext = append(ext, spec.Extensions[:pos]...)
		ext = append(ext, g)
		ext = append(ext, spec.Extensions[pos:]...)
		spec.Extensions = ext
		return spec, g
	}
	return vf16Ident{desc: desc, id: HelloCustom, build: build}
}

// vf16NewClient returns a fresh client for the identity plus the candidate lists of its (fresh) GREASE extension.
func vf16NewClient(ident vf16Ident, ccfg *Config, cp *vfConn) (*UConn, vf16Want, error) {
	uc := UClient(cp, ccfg, ident.id)
	if ident.build == nil {
		spec, err := UTLSIdToSpec(ident.id)
		if err != nil {
			return nil, vf16Want{}, err
		}
		g := vf16FindGrease(&spec)
		if g == nil {
			return nil, vf16Want{}, fmt.Errorf("%s carries no GREASE ECH extension", ident.desc)
		}
		return uc, vf16Snapshot(g), nil
	}
	spec, g := ident.build()
	want := vf16Snapshot(g)
	if err := uc.ApplyPreset(spec); err != nil {
		return nil, want, fmt.Errorf("ApplyPreset: %w", err)
	}
	return uc, want, nil
}

// vf16HRRGroup returns a classical group the identity lists in supported_groups without sending a share for it
// (0 if there is none), read off a throw-away ClientHello with the reference parser.
func vf16HRRGroup(ident vf16Ident) (CurveID, error) {
	cp, _ := vfPipe()
	uc, _, err := vf16NewClient(ident, vfClientConfig("probe.c16.test"), cp)
	if err != nil {
		return 0, err
	}
	if err := uc.BuildHandshakeState(); err != nil {
		return 0, err
	}
	h := vfParseClientHello(uc.HandshakeState.Hello.Raw)
	shared := map[uint16]bool{}
	for _, ks := range h.KeyShares() {
		shared[ks.Group] = true
	}
	for _, want := range []uint16{uint16(CurveP384), uint16(CurveP256), uint16(CurveP521), uint16(X25519)} {
		if vfContains16(h.Groups(), want) && !shared[want] {
			return CurveID(want), nil
		}
	}
	return 0, nil
}

type vf16Obs struct {
	kdf, aead uint16
	configID  uint8
	enc       []byte
	payload   []byte
}

func vf16ECHServerKeys() []EncryptedClientHelloKey {
	// a real client-facing server: it will trial-decrypt the GREASE payload, fail, and send retry configs
	k, err := ecdh.X25519().GenerateKey(rand.Reader)
	if err != nil {
		panic(err)
	}
	var cfg []byte
	cfg = append(cfg, 0xfe, 0x0d, 0, 0)
	cfg = append(cfg, 7)       // config id
	cfg = append(cfg, 0, 0x20) // DHKEM(X25519)
	cfg = append(cfg, 0, 32)
	cfg = append(cfg, k.PublicKey().Bytes()...)
	cfg = append(cfg, 0, 8, 0, 1, 0, 1, 0, 1, 0, 3) // two suites
	cfg = append(cfg, 32)                           // max name length
	name := "public.c16.test"
	cfg = append(cfg, byte(len(name)))
	cfg = append(cfg, name...)
	cfg = append(cfg, 0, 0)
	cfg[2], cfg[3] = byte((len(cfg)-4)>>8), byte(len(cfg)-4)
	return []EncryptedClientHelloKey{{Config: cfg, PrivateKey: k.Bytes(), SendAsRetry: true}}
}

// vf16One runs one connection and returns the observation of its GREASE ECH extension.
// vf16Cookie > 0: the HelloRetryRequest comes from the scripted server and carries a cookie of that many bytes (upstream's
// server never sends one); the client then inserts a cookie extension into its second hello. Set by the tests before a
// case runs (cases run one at a time).
var vf16Cookie int

func vf16One(st *vfStats, t vfFataler, ident vf16Ident, hrrGroup CurveID, serverHasECH bool, conn int) vf16Obs {
	const name = "grease.c16.test"
	ccfg := vfClientConfig(name)
	scfg := vfServerConfig("ecdsa", name)
	if hrrGroup != 0 {
		scfg.CurvePreferences = []CurveID{hrrGroup}
	}
	if serverHasECH {
		scfg.EncryptedClientHelloKeys = vf16ECHServerKeys()
	}
	cp, sp := vfPipe()
	pair := &vfPair{CP: cp, SP: sp}
	uc, want, err := vf16NewClient(ident, ccfg, cp)
	if err != nil {
		st.Violation(t, "%s: cannot build client: %v", ident.desc, err)
	}
	pair.Cli = uc
	pair.Srv = Server(sp, scfg)
	if hrrGroup != 0 && vf16Cookie > 0 {
		ck := bytes.Repeat([]byte{0xc0, 0x0c, byte(conn)}, vf16Cookie/3+1)[:vf16Cookie]
		vsrvInstall(pair.Srv, &vsrvScript{HRR: true, HRRGroup: uint16(hrrGroup), HRRCookie: ck})
	}
	cerr, serr := pair.Handshake()
	defer pair.Close()
	hellos := vfClientHellosOnWire(cp.Written())
	wantHellos := 1
	if hrrGroup != 0 {
		wantHellos = 2
	}
	if cerr != nil || serr != nil {
		st.Violation(t, "%s conn %d hrr=%v serverECH=%v: handshake failed: client=%v server=%v", ident.desc, conn, hrrGroup, serverHasECH, cerr, serr)
	}
	if len(hellos) != wantHellos {
		st.Violation(t, "%s conn %d: %d ClientHello(s) on the wire, expected %d (hrr group %v)", ident.desc, conn, len(hellos), wantHellos, hrrGroup)
	}
	if hrrGroup != 0 && !pair.Cli.didHRR {
		st.Violation(t, "%s conn %d: two hellos but client does not report a HelloRetryRequest", ident.desc, conn)
	}
	var obs vf16Obs
	var first []byte
	for i, raw := range hellos {
		h := vfParseClientHello(raw)
		if len(h.Violations) > 0 {
			st.Violation(t, "%s conn %d hello %d: malformed ClientHello: %v", ident.desc, conn, i+1, h.Violations)
		}
		n := 0
		for _, e := range h.Exts {
			if e.Type == vf16ExtECH {
				n++
			}
		}
		if n != 1 {
			st.Violation(t, "%s conn %d hello %d: %d encrypted_client_hello extensions, want exactly 1", ident.desc, conn, i+1, n)
		}
		body := h.Ext(vf16ExtECH).Body
		e := h.ECH()
		if e.Type != 0 {
			st.Violation(t, "%s conn %d hello %d: ECH type %d, want outer(0)", ident.desc, conn, i+1, e.Type)
		}
		// exact framing: 1 + 2 + 2 + 1 + 2 + |enc| + 2 + |payload|
		if len(body) != 10+len(e.Enc)+len(e.Payload) {
			st.Violation(t, "%s conn %d hello %d: ECH body has %d bytes, fields account for %d", ident.desc, conn, i+1, len(body), 10+len(e.Enc)+len(e.Payload))
		}
		if !want.suiteOK(e.KDF, e.AEAD) {
			st.Violation(t, "%s conn %d hello %d: suite (kdf=%#04x,aead=%#04x) is not a candidate pair %v", ident.desc, conn, i+1, e.KDF, e.AEAD, want.suites)
		}
		if len(e.Enc) != 32 {
			st.Violation(t, "%s conn %d hello %d: enc has %d bytes, want 32", ident.desc, conn, i+1, len(e.Enc))
		}
		if !want.lenOK(len(e.Payload)) {
			st.Violation(t, "%s conn %d hello %d: payload has %d bytes; candidates (pre-encryption) %v + 16-byte tag", ident.desc, conn, i+1, len(e.Payload), want.lens)
		}
		if !want.configOK(e.ConfigID) {
			st.Violation(t, "%s conn %d hello %d: config id %d not among the candidates %v", ident.desc, conn, i+1, e.ConfigID, want.configIDs)
		}
		if i == 0 {
			first = body
			obs = vf16Obs{e.KDF, e.AEAD, e.ConfigID, e.Enc, e.Payload}
		} else if !bytes.Equal(first, body) {
			st.Violation(t, "%s conn %d: GREASE ECH changed across the HelloRetryRequest:\n first  %x\n second %x", ident.desc, conn, first, body)
		}
	}
	return obs
}

func vf16Connections() int {
	if vfThorough() {
		return 12
	}
	return 8
}

func vf16RunCase(st *vfStats, t vfFataler, ident vf16Ident, hrr, serverHasECH bool) {
	st.Eval()
	var hrrGroup CurveID
	if hrr {
		g, err := vf16HRRGroup(ident)
		if err != nil {
			st.Violation(t, "%s: cannot build a ClientHello: %v", ident.desc, err)
		}
		if g == 0 {
			st.Class("hrr:impossible(no share-less classical group)")
		}
		hrrGroup = g
	}
	n := vf16Connections()
	var all []vf16Obs
	for i := 0; i < n; i++ {
		all = append(all, vf16One(st, t, ident, hrrGroup, serverHasECH, i))
	}
	// freshness
	pinnedIDs := false
	if ident.build != nil {
		_, g := ident.build()
		pinnedIDs = len(g.CandidateConfigIds) > 0
	}
	ids := map[uint8]bool{}
	for i := range all {
		ids[all[i].configID] = true
		for j := 0; j < i; j++ {
			if bytes.Equal(all[i].enc, all[j].enc) {
				st.Violation(t, "%s: connections %d and %d carry the same GREASE enc %x", ident.desc, j, i, all[i].enc)
			}
			// a payload of >= 16 random bytes never repeats by chance
			if bytes.Equal(all[i].payload, all[j].payload) {
				st.Violation(t, "%s: connections %d and %d carry the same GREASE payload %x", ident.desc, j, i, all[i].payload)
			}
		}
	}
	if !pinnedIDs && len(ids) < 2 {
		st.Violation(t, "%s: all %d connections used config id %d", ident.desc, n, all[0].configID)
	}
	// statistics
	kind := "parrot"
	if ident.build != nil {
		kind = strings.Join(strings.Split(ident.desc, "/")[:3], "/")
	} else {
		kind = ident.desc
	}
	st.Class("ident:" + kind)
	st.Class(fmt.Sprintf("hrr:%v", hrrGroup != 0))
	st.Class(fmt.Sprintf("server-ech-keys:%v", serverHasECH))
	suites := map[string]bool{}
	lens := map[int]bool{}
	for _, o := range all {
		suites[fmt.Sprintf("%04x/%04x", o.kdf, o.aead)] = true
		lens[len(o.payload)] = true
		st.Class(fmt.Sprintf("picked-suite:%04x/%04x", o.kdf, o.aead))
	}
	var sl []string
	for s := range suites {
		sl = append(sl, s)
	}
	sort.Strings(sl)
	var ll []int
	for l := range lens {
		ll = append(ll, l)
	}
	sort.Ints(ll)
	st.NonTrivial(fmt.Sprintf("%s|hrr=%v|ech=%v|%v|%v", ident.desc, hrrGroup, serverHasECH, sl, ll))
	st.Sample(map[string]any{"identity": ident.desc, "hrr_group": fmt.Sprint(hrrGroup), "server_ech_keys": serverHasECH,
		"connections": n, "suites_seen": sl, "payload_lens_seen": ll, "distinct_config_ids": len(ids),
		"first_ext": fmt.Sprintf("kdf=%04x aead=%04x id=%d enc=%s payload[%d]", all[0].kdf, all[0].aead, all[0].configID, vfHex(all[0].enc), len(all[0].payload))})
}

// Directed sweep: every GREASE-ECH parrot and BoringGREASEECH() on a custom spec, with and without HRR.
func TestVerifC16Directed(t *testing.T) {
	st := vfNewStats(t, "C16")
	parrots := vf16GreaseParrots(t)
	var names []string
	for _, p := range parrots {
		names = append(names, p.Name)
	}
	st.Extra("grease_ech_parrots", names)
	// the property names Chrome 120+ and Firefox 120; make sure the scan found them
	for _, must := range []string{"HelloChrome_120", "HelloChrome_120_PQ", "HelloChrome_131", "HelloChrome_133", "HelloFirefox_120"} {
		found := false
		for _, n := range names {
			found = found || n == must
		}
		if !found {
			st.Violation(t, "%s carries no GREASE ECH extension (found only %v)", must, names)
		}
	}
	var idents []vf16Ident
	for _, p := range parrots {
		idents = append(idents, vf16Ident{desc: p.Name, id: p.ID})
	}
	idents = append(idents, vf16Ident{desc: "custom/minimal/boring", id: HelloCustom, build: func() (*ClientHelloSpec, *GREASEEncryptedClientHelloExtension) {
		spec := vf16MinimalSpec()
		g := BoringGREASEECH()
		spec.Extensions = append(spec.Extensions[:len(spec.Extensions)-1:len(spec.Extensions)-1], g, &UtlsGREASEExtension{})
		return spec, g
	}})
	for _, id := range idents {
		for _, hrr := range []bool{false, true} {
			for _, sech := range []bool{false, true} {
				vf16RunCase(st, t, id, hrr, sech)
			}
		}
		// HelloRetryRequest with a cookie (scripted server)
		vf16Cookie = 32
		vf16RunCase(st, t, id, true, false)
		vf16Cookie = 0
	}
}

func TestVerifC16Random(t *testing.T) {
	st := vfNewStats(t, "C16")
	parrots := vf16GreaseParrots(t)
	rapid.Check(t, func(rt *rapid.T) {
		ident := vf16GenIdent(rt, parrots)
		hrr := rapid.Bool().Draw(rt, "hrr")
		sech := rapid.IntRange(0, 3).Draw(rt, "serverECH") == 0
		vf16Cookie = 0
		if hrr {
			vf16Cookie = rapid.SampledFrom([]int{0, 0, 1, 32, 300}).Draw(rt, "hrr_cookie")
		}
		if vf16Cookie > 0 {
			st.Class("hrr-with-cookie")
		}
		vf16RunCase(st, rt, ident, hrr, sech)
		vf16Cookie = 0
	})
}
