//go:build verif

package tls

// C31 - public views of handshake messages convert losslessly.
//
//  1. UnmarshalClientHello(b).Marshal() == b for valid ClientHello bytes (all parrots, randomized, Go default,
//     and hellos generated field by field); the parsed public fields agree with the shared independent parser.
//  2. public <-> private conversions preserve every field that has a counterpart. The name table below is
//     checked against the struct definitions by reflection: a field that is in neither the map nor the list of
//     known one-sided fields makes the run INCONCLUSIVE (new field, nobody decided what it corresponds to).
//  3. parse -> clear Raw -> Marshal -> parse gives the same field values.

import (
	"bytes"
	"crypto"
	"crypto/ecdh"
	"crypto/md5"
	"crypto/mlkem"
	"crypto/rand"
	"crypto/sha1"
	"crypto/sha256"
	"crypto/sha512"
	"encoding/binary"
	"encoding/hex"
	"fmt"
	"hash"
	"os"
	"reflect"
	"sort"
	"strings"
	"sync"
	"syscall"
	"testing"
	"time"
	"unsafe"

	"pgregory.net/rapid"
)

// ---------------------------------------------------------------------------------------------------------
// reflection helpers
// ---------------------------------------------------------------------------------------------------------

// vf31RW returns a settable/readable view of v even when it was reached through an unexported field.
func vf31RW(v reflect.Value) reflect.Value {
	if v.CanAddr() {
		return reflect.NewAt(v.Type(), unsafe.Pointer(v.UnsafeAddr())).Elem()
	}
	return v
}

func vf31Field(structVal reflect.Value, name string) reflect.Value {
	f := structVal.FieldByName(name)
	if !f.IsValid() {
		return f
	}
	return vf31RW(f)
}

func vf31LowerFirst(s string) string {
	if s == "" {
		return s
	}
	return strings.ToLower(s[:1]) + s[1:]
}

var vf31TimeType = reflect.TypeOf(time.Time{})

// vf31Canon maps a value to a comparable tree in which the public and the private spelling of the same data
// coincide: struct fields are keyed by lower-cased name (KeyShare{Group,Data} ~ keyShare{group,data}), nil and
// empty slices coincide unless nilSig, functions/pointers/interfaces are compared by identity.
func vf31Canon(v reflect.Value, nilSig bool) any {
	if !v.IsValid() {
		return nil
	}
	v = vf31RW(v)
	switch v.Kind() {
	case reflect.Bool:
		return v.Bool()
	case reflect.Int, reflect.Int8, reflect.Int16, reflect.Int32, reflect.Int64:
		return v.Int()
	case reflect.Uint, reflect.Uint8, reflect.Uint16, reflect.Uint32, reflect.Uint64, reflect.Uintptr:
		return v.Uint()
	case reflect.String:
		return "s:" + v.String()
	case reflect.Slice:
		if v.IsNil() && nilSig {
			return "nil-slice"
		}
		if v.Type().Elem().Kind() == reflect.Uint8 {
			return "b:" + hex.EncodeToString(v.Bytes())
		}
		out := []any{}
		for i := 0; i < v.Len(); i++ {
			out = append(out, vf31Canon(v.Index(i), false))
		}
		return out
	case reflect.Array:
		out := []any{}
		for i := 0; i < v.Len(); i++ {
			out = append(out, vf31Canon(v.Index(i), false))
		}
		return out
	case reflect.Struct:
		if v.Type() == vf31TimeType {
			t := v.Interface().(time.Time)
			return fmt.Sprintf("time:%d.%09d zero=%v", t.Unix(), t.Nanosecond(), t.IsZero())
		}
		m := map[string]any{}
		for i := 0; i < v.NumField(); i++ {
			m[vf31LowerFirst(v.Type().Field(i).Name)] = vf31Canon(v.Field(i), false)
		}
		return m
	case reflect.Map:
		if v.IsNil() && nilSig {
			return "nil-map"
		}
		var ents []string
		for _, k := range v.MapKeys() {
			ents = append(ents, fmt.Sprintf("%v=>%v", vf31Canon(k, false), vf31Canon(v.MapIndex(k), false)))
		}
		sort.Strings(ents)
		return "map[" + strings.Join(ents, " ") + "]"
	case reflect.Ptr, reflect.Func, reflect.UnsafePointer, reflect.Chan:
		if v.IsNil() {
			return nil
		}
		return fmt.Sprintf("%s:%x", v.Kind(), v.Pointer())
	case reflect.Interface:
		if v.IsNil() {
			return nil
		}
		return fmt.Sprintf("iface(%s):%v", v.Elem().Type(), vf31Canon(v.Elem(), false))
	}
	return fmt.Sprintf("unsupported-kind:%s", v.Kind())
}

func vf31CanonStr(v reflect.Value, nilSig bool) string {
	return fmt.Sprintf("%v", vf31Canon(v, nilSig))
}

// ---------------------------------------------------------------------------------------------------------
// the public <-> private name table
// ---------------------------------------------------------------------------------------------------------

type vf31Pair struct {
	name     string
	pub      reflect.Type
	priv     reflect.Type
	fields   map[string]string // public field -> private field
	pubOnly  map[string]string // public field without private counterpart -> why
	privOnly map[string]string // private field without public counterpart -> why
	nilSig   map[string]bool   // public fields whose nil-ness carries meaning on the wire
	toPriv   func(pub any) any // *Pub -> *priv
	toPub    func(priv any) any
	// fields the generic generator must leave to special handling
	skipGen map[string]bool
}

func vf31Same(names ...string) map[string]string {
	m := map[string]string{}
	for _, n := range names {
		m[n] = vf31LowerFirst(n)
	}
	return m
}

func vf31Pairs() []*vf31Pair {
	ch := vf31Same("Vers", "Random", "SessionId", "CipherSuites", "CompressionMethods", "NextProtoNeg", "ServerName", "OcspStapling", "Scts",
		"SupportedCurves", "SupportedPoints", "TicketSupported", "SessionTicket", "SupportedSignatureAlgorithms", "SecureRenegotiation",
		"SecureRenegotiationSupported", "AlpnProtocols", "SupportedSignatureAlgorithmsCert", "SupportedVersions", "Cookie", "KeyShares", "EarlyData",
		"PskModes", "PskIdentities", "PskBinders", "QuicTransportParameters")
	ch["Raw"] = "original"
	ch["Ems"] = "extendedMasterSecret"
	ch["encryptedClientHello"] = "encryptedClientHello"
	sh := vf31Same("Vers", "Random", "SessionId", "CipherSuite", "CompressionMethod", "NextProtoNeg", "NextProtos", "OcspStapling", "Scts",
		"ExtendedMasterSecret", "TicketSupported", "SecureRenegotiation", "SecureRenegotiationSupported", "AlpnProtocol", "SupportedVersion", "ServerShare",
		"SelectedIdentityPresent", "SelectedIdentity", "Cookie", "SelectedGroup")
	sh["Raw"] = "original"
	fh := vf31Same("Client", "Server", "ClientMD5", "ServerMD5", "Buffer", "Version")
	fh["Prfv2"] = "prf"
	ksk := map[string]string{"CurveID": "curveID", "Ecdhe": "ecdhe", "Mlkem": "mlkem", "MlkemEcdhe": "mlkemEcdhe"}
	if _, ok := reflect.TypeOf(KeySharePrivateKeys{}).FieldByName("EcdheExtra"); ok {
		ksk["EcdheExtra"] = "ecdheExtra" // added by the C10/C18 fix (keys of the additional classical shares, by group)
	}
	return []*vf31Pair{
		{name: "ClientHello", pub: reflect.TypeOf(PubClientHelloMsg{}), priv: reflect.TypeOf(clientHelloMsg{}), fields: ch,
			pubOnly:  map[string]string{"cachedPrivateHello": "cache of the last private form, not data"},
			privOnly: map[string]string{"extensions": "list of extension numbers seen by unmarshal, server side only"},
			nilSig:   map[string]bool{"QuicTransportParameters": true},
			toPriv:   func(p any) any { return p.(*PubClientHelloMsg).getPrivatePtr() },
			toPub:    func(p any) any { return p.(*clientHelloMsg).getPublicPtr() }},
		{name: "ServerHello", pub: reflect.TypeOf(PubServerHelloMsg{}), priv: reflect.TypeOf(serverHelloMsg{}), fields: sh,
			privOnly: map[string]string{"supportedPoints": "no public field", "encryptedClientHello": "no public field", "serverNameAck": "no public field"},
			toPriv:   func(p any) any { return p.(*PubServerHelloMsg).getPrivatePtr() },
			toPub:    func(p any) any { return p.(*serverHelloMsg).getPublicPtr() }},
		{name: "CertificateRequestTLS13", pub: reflect.TypeOf(CertificateRequestMsgTLS13{}), priv: reflect.TypeOf(certificateRequestMsgTLS13{}),
			fields:   vf31Same("OcspStapling", "Scts", "SupportedSignatureAlgorithms", "SupportedSignatureAlgorithmsCert", "CertificateAuthorities"),
			pubOnly:  map[string]string{"Raw": "deprecated; populated from marshal() on the way out, ignored on the way in"},
			privOnly: map[string]string{"original": "bytes as received; not exposed"},
			toPriv:   func(p any) any { return p.(*CertificateRequestMsgTLS13).toPrivate() },
			toPub:    func(p any) any { return p.(*certificateRequestMsgTLS13).toPublic() }},
		{name: "CipherSuiteTLS13", pub: reflect.TypeOf(PubCipherSuiteTLS13{}), priv: reflect.TypeOf(cipherSuiteTLS13{}),
			fields: vf31Same("Id", "KeyLen", "Aead", "Hash"),
			toPriv: func(p any) any { return p.(*PubCipherSuiteTLS13).toPrivate() },
			toPub:  func(p any) any { return p.(*cipherSuiteTLS13).toPublic() }},
		{name: "CipherSuite", pub: reflect.TypeOf(PubCipherSuite{}), priv: reflect.TypeOf(cipherSuite{}),
			fields: vf31Same("Id", "KeyLen", "MacLen", "IvLen", "Ka", "Flags", "Cipher", "Mac", "Aead"),
			toPriv: func(p any) any { return p.(*PubCipherSuite).getPrivatePtr() },
			toPub:  func(p any) any { v := p.(*cipherSuite).getPublicObj(); return &v }},
		{name: "FinishedHash", pub: reflect.TypeOf(FinishedHash{}), priv: reflect.TypeOf(finishedHash{}), fields: fh,
			pubOnly: map[string]string{"Prf": "deprecated old-style PRF: derived from prf on the way out, fallback for Prfv2 on the way in (checked behaviourally)"},
			toPriv:  func(p any) any { v := p.(*FinishedHash).getPrivateObj(); return &v },
			toPub:   func(p any) any { v := p.(*finishedHash).getPublicObj(); return &v }},
		{name: "KeyShare", pub: reflect.TypeOf(KeyShare{}), priv: reflect.TypeOf(keyShare{}), fields: vf31Same("Group", "Data"),
			toPriv: func(p any) any { v := KeyShares{*p.(*KeyShare)}.ToPrivate()[0]; return &v },
			toPub:  func(p any) any { v := keyShares{*p.(*keyShare)}.ToPublic()[0]; return &v }},
		{name: "PskIdentity", pub: reflect.TypeOf(PskIdentity{}), priv: reflect.TypeOf(pskIdentity{}), fields: vf31Same("Label", "ObfuscatedTicketAge"),
			toPriv: func(p any) any { v := PskIdentities{*p.(*PskIdentity)}.ToPrivate()[0]; return &v },
			toPub:  func(p any) any { v := pskIdentities{*p.(*pskIdentity)}.ToPublic()[0]; return &v }},
		{name: "TicketKey", pub: reflect.TypeOf(TicketKey{}), priv: reflect.TypeOf(ticketKey{}), fields: vf31Same("AesKey", "HmacKey", "Created"),
			toPriv: func(p any) any { v := p.(*TicketKey).ToPrivate(); return &v },
			toPub:  func(p any) any { v := p.(*ticketKey).ToPublic(); return &v }},
		{name: "KemPrivateKey", pub: reflect.TypeOf(KemPrivateKey{}), priv: reflect.TypeOf(kemPrivateKey{}), fields: map[string]string{"SecretKey": "secretKey", "CurveID": "curveID"},
			toPriv: func(p any) any { return p.(*KemPrivateKey).ToPrivate() },
			toPub:  func(p any) any { return p.(*kemPrivateKey).ToPublic() }},
		{name: "KeySharePrivateKeys", pub: reflect.TypeOf(KeySharePrivateKeys{}), priv: reflect.TypeOf(keySharePrivateKeys{}),
			fields: ksk,
			toPriv: func(p any) any { return p.(*KeySharePrivateKeys).ToPrivate() },
			toPub:  func(p any) any { return p.(*keySharePrivateKeys).ToPublic() }},
	}
}

// vf31TableProblems compares the table with the struct definitions.
func vf31TableProblems(p *vf31Pair) (unmapped []string, stale []string) {
	privMapped := map[string]bool{}
	for pubName, privName := range p.fields {
		privMapped[privName] = true
		if _, ok := p.pub.FieldByName(pubName); !ok {
			stale = append(stale, p.name+": public field "+pubName+" no longer exists")
		}
		if _, ok := p.priv.FieldByName(privName); !ok {
			stale = append(stale, p.name+": private field "+privName+" no longer exists")
		}
	}
	for i := 0; i < p.pub.NumField(); i++ {
		n := p.pub.Field(i).Name
		if _, ok := p.fields[n]; !ok && p.pubOnly[n] == "" {
			unmapped = append(unmapped, p.name+": public field "+p.pub.Name()+"."+n+" has no entry")
		}
	}
	for i := 0; i < p.priv.NumField(); i++ {
		n := p.priv.Field(i).Name
		if !privMapped[n] && p.privOnly[n] == "" {
			unmapped = append(unmapped, p.name+": private field "+p.priv.Name()+"."+n+" has no entry")
		}
	}
	sort.Strings(unmapped)
	sort.Strings(stale)
	return
}

func vf31Inconclusive(st *vfStats, reason string) {
	st.Extra("inconclusive", reason)
	st.Flush()
	fmt.Printf("VERIF-INCONCLUSIVE C31: %s\n", reason)
	os.Stdout.Sync()
	syscall.Kill(os.Getpid(), syscall.SIGKILL)
	select {}
}

func TestVerifC31FieldTable(t *testing.T) {
	st := vfNewStats(t, "C31")
	var all []string
	oneSided := map[string]string{}
	for _, p := range vf31Pairs() {
		um, stale := vf31TableProblems(p)
		all = append(all, um...)
		all = append(all, stale...)
		for k, v := range p.pubOnly {
			oneSided[p.name+"."+k] = v
		}
		for k, v := range p.privOnly {
			oneSided[p.name+"."+k] = v
		}
		st.Eval()
	}
	// the handshake-state views (checked field by field in TestVerifC31HandshakeState)
	for _, c := range []struct {
		typ  reflect.Type
		want string
	}{
		{reflect.TypeOf(PubClientHandshakeState{}), "C ServerHello Hello MasterSecret Session State12 State13 uconn"},
		{reflect.TypeOf(TLS13OnlyState{}), "EcdheKey KeySharesParams KEMKey KeyShareKeys Suite EarlySecret BinderKey CertReq UsingPSK SentDummyCCS Transcript TrafficSecret"},
		{reflect.TypeOf(TLS12OnlyState{}), "FinishedHash Suite"},
		{reflect.TypeOf(clientHandshakeStateTLS13{}), "c ctx serverHello hello keyShareKeys session earlySecret binderKey certReq usingPSK sentDummyCCS suite transcript masterSecret trafficSecret echContext uconn"},
		{reflect.TypeOf(clientHandshakeState{}), "c ctx serverHello hello suite finishedHash masterSecret session ticket uconn"},
	} {
		var got []string
		for i := 0; i < c.typ.NumField(); i++ {
			got = append(got, c.typ.Field(i).Name)
		}
		if strings.Join(got, " ") != c.want {
			all = append(all, fmt.Sprintf("%s: fields are now [%s], the harness was written for [%s]", c.typ.Name(), strings.Join(got, " "), c.want))
		}
		st.Eval()
	}
	st.Extra("fields_without_counterpart(noted,not-checked)", oneSided)
	if len(all) > 0 {
		vf31Inconclusive(st, "public/private field table out of date: "+strings.Join(all, "; "))
	}
}

// ---------------------------------------------------------------------------------------------------------
// generic value generator
// ---------------------------------------------------------------------------------------------------------

var (
	vf31PoolOnce sync.Once
	vf31Funcs    map[reflect.Type][]reflect.Value
	vf31ECDH     []*ecdh.PrivateKey
	vf31MLKEM    []*mlkem.DecapsulationKey768
	vf31Hashes   []hash.Hash
	vf31Prfs     []prfFunc
)

func vf31InitPools() {
	vf31PoolOnce.Do(func() {
		vf31Funcs = map[reflect.Type][]reflect.Value{}
		addFunc := func(f any) {
			v := reflect.ValueOf(f)
			for _, have := range vf31Funcs[v.Type()] {
				if have.Pointer() == v.Pointer() {
					return
				}
			}
			vf31Funcs[v.Type()] = append(vf31Funcs[v.Type()], v)
		}
		for _, f := range []func([]byte, []byte) aead{aeadAESGCM, aeadAESGCMTLS13, aeadChaCha20Poly1305} {
			addFunc(f)
		}
		for _, f := range []func(uint16) keyAgreement{rsaKA, ecdheECDSAKA, ecdheRSAKA} {
			addFunc(f)
		}
		for _, f := range []func([]byte, []byte, bool) any{cipherRC4, cipher3DES, cipherAES} {
			addFunc(f)
		}
		for _, f := range []func([]byte) hash.Hash{macSHA1, macSHA256} {
			addFunc(f)
		}
		for i := 0; i < 2; i++ {
			k, err := ecdh.X25519().GenerateKey(rand.Reader)
			if err != nil {
				panic(err)
			}
			vf31ECDH = append(vf31ECDH, k)
		}
		k, err := ecdh.P256().GenerateKey(rand.Reader)
		if err != nil {
			panic(err)
		}
		vf31ECDH = append(vf31ECDH, k)
		mk, err := mlkem.GenerateKey768()
		if err != nil {
			panic(err)
		}
		vf31MLKEM = append(vf31MLKEM, mk)
		vf31Hashes = []hash.Hash{sha256.New(), sha512.New384(), md5.New(), sha1.New(), sha256.New()}
		vf31Prfs = []prfFunc{prf10, prf12(sha256.New), prf12(sha512.New384)}
	})
}

var vf31HashIface = reflect.TypeOf((*hash.Hash)(nil)).Elem()
var vf31AnyIface = reflect.TypeOf((*any)(nil)).Elem()

func vf31Gen(t *rapid.T, typ reflect.Type, label string) reflect.Value {
	vf31InitPools()
	out := reflect.New(typ).Elem()
	switch typ.Kind() {
	case reflect.Bool:
		out.SetBool(rapid.Bool().Draw(t, label))
	case reflect.Uint8:
		out.SetUint(uint64(rapid.Byte().Draw(t, label)))
	case reflect.Uint16:
		// a third of the 16-bit fields take values that mean something to the library (registered suite ids, versions,
		// groups, signature schemes, GREASE): a conversion must not special-case them
		if rapid.IntRange(0, 2).Draw(t, label+"_known") == 0 {
			out.SetUint(uint64(rapid.SampledFrom([]uint16{0x1301, 0x1302, 0x1303, 0xc02b, 0xc02f, 0xc030, 0xcca8, 0xcca9, 0x009c, 0x002f, 0x000a, 0x00ff, 0x5600,
				0x0301, 0x0302, 0x0303, 0x0304, 0x001d, 0x0017, 0x0018, 0x0019, 0x11ec, 0x6399, 0x0403, 0x0804, 0x0401, 0x0807, 0x0a0a, 0xfafa, 0, 0xffff}).Draw(t, label)))
		} else {
			out.SetUint(uint64(rapid.Uint16().Draw(t, label)))
		}
	case reflect.Uint32:
		out.SetUint(uint64(rapid.Uint32().Draw(t, label)))
	case reflect.Uint64:
		out.SetUint(rapid.Uint64().Draw(t, label))
	case reflect.Uint:
		if typ == reflect.TypeOf(crypto.Hash(0)) {
			out.SetUint(uint64([]crypto.Hash{0, crypto.SHA256, crypto.SHA384, crypto.SHA1, crypto.MD5}[rapid.IntRange(0, 4).Draw(t, label)]))
		} else {
			out.SetUint(uint64(rapid.IntRange(0, 1<<20).Draw(t, label)))
		}
	case reflect.Int, reflect.Int64, reflect.Int32:
		out.SetInt(int64(rapid.IntRange(-3, 1<<20).Draw(t, label)))
	case reflect.String:
		out.SetString(rapid.StringMatching(`[a-z0-9./-]{0,24}`).Draw(t, label))
	case reflect.Slice:
		n := rapid.IntRange(-1, 4).Draw(t, label+"_n")
		if n < 0 {
			return out // nil
		}
		if typ.Elem().Kind() == reflect.Uint8 && rapid.Bool().Draw(t, label+"_long") {
			n = rapid.IntRange(0, 48).Draw(t, label+"_len")
		}
		s := reflect.MakeSlice(typ, n, n)
		for i := 0; i < n; i++ {
			s.Index(i).Set(vf31Gen(t, typ.Elem(), fmt.Sprintf("%s[%d]", label, i)))
		}
		out.Set(s)
	case reflect.Array:
		for i := 0; i < typ.Len(); i++ {
			out.Index(i).Set(vf31Gen(t, typ.Elem(), fmt.Sprintf("%s[%d]", label, i)))
		}
	case reflect.Map:
		n := rapid.IntRange(-1, 3).Draw(t, label+"_n")
		if n < 0 {
			return out
		}
		m := reflect.MakeMap(typ)
		for i := 0; i < n; i++ {
			m.SetMapIndex(vf31Gen(t, typ.Key(), fmt.Sprintf("%s_k%d", label, i)), vf31Gen(t, typ.Elem(), fmt.Sprintf("%s_v%d", label, i)))
		}
		out.Set(m)
	case reflect.Struct:
		if typ == vf31TimeType {
			if rapid.IntRange(0, 5).Draw(t, label+"_zero") != 0 {
				out.Set(reflect.ValueOf(time.Unix(int64(rapid.IntRange(0, 1<<31).Draw(t, label+"_s")), int64(rapid.IntRange(0, 999999999).Draw(t, label+"_ns")))))
			}
			return out
		}
		for i := 0; i < typ.NumField(); i++ {
			vf31RW(out.Field(i)).Set(vf31Gen(t, typ.Field(i).Type, label+"."+typ.Field(i).Name))
		}
	case reflect.Ptr:
		switch typ {
		case reflect.TypeOf((*ecdh.PrivateKey)(nil)):
			if i := rapid.IntRange(-1, len(vf31ECDH)-1).Draw(t, label); i >= 0 {
				out.Set(reflect.ValueOf(vf31ECDH[i]))
			}
		case reflect.TypeOf((*mlkem.DecapsulationKey768)(nil)):
			if i := rapid.IntRange(-1, len(vf31MLKEM)-1).Draw(t, label); i >= 0 {
				out.Set(reflect.ValueOf(vf31MLKEM[i]))
			}
		}
	case reflect.Func:
		pool := vf31Funcs[typ]
		if typ == reflect.TypeOf(prfFunc(nil)) {
			out.Set(reflect.ValueOf(vf31Prfs[rapid.IntRange(0, len(vf31Prfs)-1).Draw(t, label)]))
		} else if i := rapid.IntRange(-1, len(pool)-1).Draw(t, label); i >= 0 {
			out.Set(pool[i])
		}
	case reflect.Interface:
		switch typ {
		case vf31HashIface:
			if i := rapid.IntRange(-1, len(vf31Hashes)-1).Draw(t, label); i >= 0 {
				out.Set(reflect.ValueOf(vf31Hashes[i]))
			}
		case vf31AnyIface:
			switch rapid.IntRange(0, 3).Draw(t, label) {
			case 1:
				out.Set(reflect.ValueOf(vf31ECDH[0]))
			case 2:
				out.Set(reflect.ValueOf(vf31MLKEM[0]))
			case 3:
				out.Set(reflect.ValueOf("opaque"))
			}
		}
	}
	return out
}

// ---------------------------------------------------------------------------------------------------------
// struct round trips
// ---------------------------------------------------------------------------------------------------------

func vf31CheckPair(st *vfStats, rt *rapid.T, p *vf31Pair, fromPublic bool) {
	pubNames := make([]string, 0, len(p.fields))
	for n := range p.fields {
		pubNames = append(pubNames, n)
	}
	sort.Strings(pubNames)
	var src, mid, back reflect.Value // pointers
	nonZero := 0
	if fromPublic {
		src = reflect.New(p.pub)
		for _, n := range pubNames {
			f := vf31Field(src.Elem(), n)
			f.Set(vf31Gen(rt, f.Type(), n))
			if !f.IsZero() {
				nonZero++
			}
		}
		var midAny, backAny any
		if pn := vfCatch(func() { midAny = p.toPriv(src.Interface()); backAny = p.toPub(midAny) }); pn != nil {
			st.Violation(rt, "%s public->private->public panicked: %v", p.name, pn.Val)
		}
		mid, back = reflect.ValueOf(midAny), reflect.ValueOf(backAny)
	} else {
		src = reflect.New(p.priv)
		for _, n := range pubNames {
			f := vf31Field(src.Elem(), p.fields[n])
			f.Set(vf31Gen(rt, f.Type(), p.fields[n]))
			if !f.IsZero() {
				nonZero++
			}
		}
		var midAny, backAny any
		if pn := vfCatch(func() { midAny = p.toPub(src.Interface()); backAny = p.toPriv(midAny) }); pn != nil {
			st.Violation(rt, "%s private->public->private panicked: %v", p.name, pn.Val)
		}
		mid, back = reflect.ValueOf(midAny), reflect.ValueOf(backAny)
	}
	st.Eval()
	dir := map[bool]string{true: "pub->priv->pub", false: "priv->pub->priv"}[fromPublic]
	st.Class(p.name + ":" + dir)
	if mid.IsNil() || back.IsNil() {
		st.Violation(rt, "%s %s: conversion of a non-nil value returned nil", p.name, dir)
	}
	var sig []string
	for _, n := range pubNames {
		srcName, midName := n, p.fields[n]
		if !fromPublic {
			srcName, midName = p.fields[n], n
		}
		a := vf31CanonStr(vf31Field(src.Elem(), srcName), p.nilSig[n])
		b := vf31CanonStr(vf31Field(mid.Elem(), midName), p.nilSig[n])
		c := vf31CanonStr(vf31Field(back.Elem(), srcName), p.nilSig[n])
		if a != b {
			st.Violation(rt, "%s %s: field %s = %s arrives as %s = %s after the first conversion", p.name, dir, srcName, a, midName, b)
		}
		if a != c {
			st.Violation(rt, "%s %s: field %s = %s comes back as %s", p.name, dir, srcName, a, c)
		}
		sig = append(sig, vfHashHex([]byte(a))[:6])
	}
	if nonZero >= 2 {
		st.NonTrivial(p.name + ":" + dir + ":" + strings.Join(sig, ""))
	}
	st.Sample(map[string]any{"pair": p.name, "direction": dir, "nonzero_fields": nonZero, "of": len(pubNames)})
}

func TestVerifC31StructRoundTrips(t *testing.T) {
	st := vfNewStats(t, "C31")
	for _, p := range vf31Pairs() {
		p := p
		t.Run(p.name, func(tt *testing.T) {
			rapid.Check(tt, func(rt *rapid.T) {
				vf31CheckPair(st, rt, p, rapid.Bool().Draw(rt, "from_public"))
			})
		})
	}
}

// nil receivers convert to nil (pointer conversions) and the slice conversions keep length and order.
func TestVerifC31SlicesAndNil(t *testing.T) {
	st := vfNewStats(t, "C31")
	if (*PubClientHelloMsg)(nil).getPrivatePtr() != nil || (*clientHelloMsg)(nil).getPublicPtr() != nil ||
		(*PubServerHelloMsg)(nil).getPrivatePtr() != nil || (*serverHelloMsg)(nil).getPublicPtr() != nil ||
		(*CertificateRequestMsgTLS13)(nil).toPrivate() != nil || (*certificateRequestMsgTLS13)(nil).toPublic() != nil ||
		(*PubCipherSuiteTLS13)(nil).toPrivate() != nil || (*cipherSuiteTLS13)(nil).toPublic() != nil ||
		(*PubCipherSuite)(nil).getPrivatePtr() != nil || (*KemPrivateKey)(nil).ToPrivate() != nil || (*kemPrivateKey)(nil).ToPublic() != nil ||
		(*KeySharePrivateKeys)(nil).ToPrivate() != nil || (*keySharePrivateKeys)(nil).ToPublic() != nil ||
		(*PubClientHandshakeState)(nil).toPrivate13() != nil || (*PubClientHandshakeState)(nil).toPrivate12() != nil ||
		(*clientHandshakeStateTLS13)(nil).toPublic13() != nil || (*clientHandshakeState)(nil).toPublic12() != nil {
		st.Violation(t, "a nil view converted to a non-nil value")
	}
	st.Eval()
	rapid.Check(t, func(rt *rapid.T) {
		st.Eval()
		ks := vf31Gen(rt, reflect.TypeOf([]KeyShare{}), "ks").Interface().([]KeyShare)
		priv := KeyShares(ks).ToPrivate()
		back := keyShares(priv).ToPublic()
		if a, b, c := vf31CanonStr(reflect.ValueOf(ks), false), vf31CanonStr(reflect.ValueOf(priv), false), vf31CanonStr(reflect.ValueOf(back), false); a != b || a != c {
			st.Violation(rt, "KeyShares %s -> %s -> %s", a, b, c)
		}
		ids := vf31Gen(rt, reflect.TypeOf([]PskIdentity{}), "ids").Interface().([]PskIdentity)
		pi := PskIdentities(ids).ToPrivate()
		bi := pskIdentities(pi).ToPublic()
		if a, b, c := vf31CanonStr(reflect.ValueOf(ids), false), vf31CanonStr(reflect.ValueOf(pi), false), vf31CanonStr(reflect.ValueOf(bi), false); a != b || a != c {
			st.Violation(rt, "PskIdentities %s -> %s -> %s", a, b, c)
		}
		tks := vf31Gen(rt, reflect.TypeOf([]TicketKey{}), "tks").Interface().([]TicketKey)
		pt := TicketKeys(tks).ToPrivate()
		bt := ticketKeys(pt).ToPublic()
		if a, b, c := vf31CanonStr(reflect.ValueOf(tks), false), vf31CanonStr(reflect.ValueOf(pt), false), vf31CanonStr(reflect.ValueOf(bt), false); a != b || a != c {
			st.Violation(rt, "TicketKeys %s -> %s -> %s", a, b, c)
		}
		if len(ks)+len(ids)+len(tks) >= 3 {
			st.NonTrivial(fmt.Sprintf("slices:%d/%d/%d:%s", len(ks), len(ids), len(tks), vfHashHex([]byte(vf31CanonStr(reflect.ValueOf(ks), false)))[:8]))
		}
		st.Class("slices")
		// TicketKeyFromBytes is the public view of Config.ticketKeyFromBytes
		raw := vf31Gen(rt, reflect.TypeOf([32]byte{}), "tkraw").Interface().([32]byte)
		pubTK := TicketKeyFromBytes(raw)
		privTK := (&Config{}).ticketKeyFromBytes(raw)
		if pubTK.AesKey != privTK.aesKey || pubTK.HmacKey != privTK.hmacKey {
			st.Violation(rt, "TicketKeyFromBytes(%x) differs from the internal derivation", raw)
		}
	})
}

// FinishedHash.Prf is the deprecated spelling of Prfv2: derived on the way out, a fallback on the way in.
func TestVerifC31FinishedHashPrf(t *testing.T) {
	st := vfNewStats(t, "C31")
	vf31InitPools()
	rapid.Check(t, func(rt *rapid.T) {
		st.Eval()
		st.Class("finishedhash-prf")
		prf := vf31Prfs[rapid.IntRange(0, len(vf31Prfs)-1).Draw(rt, "prf")]
		secret := rapid.SliceOfN(rapid.Byte(), 0, 48).Draw(rt, "secret")
		label := rapid.SampledFrom([]string{"master secret", "key expansion", "client finished", ""}).Draw(rt, "label")
		seed := rapid.SliceOfN(rapid.Byte(), 0, 64).Draw(rt, "seed")
		n := rapid.IntRange(0, 100).Draw(rt, "n")
		want := prf(secret, label, seed, n)
		pub := (&finishedHash{prf: prf, version: VersionTLS12}).getPublicObj()
		if pub.Prfv2 == nil || pub.Prf == nil {
			st.Violation(rt, "public FinishedHash lacks a PRF")
		}
		if got := pub.Prfv2(secret, label, seed, n); !bytes.Equal(got, want) {
			st.Violation(rt, "Prfv2 output differs from the private prf")
		}
		res := make([]byte, n)
		pub.Prf(res, secret, []byte(label), seed)
		if !bytes.Equal(res, want) {
			st.Violation(rt, "deprecated Prf output %x differs from prf output %x", res, want)
		}
		// way in: Prfv2 wins; Prf alone is adapted
		old := func(result, s, l, sd []byte) { copy(result, prf(s, string(l), sd, len(result))) }
		other := vf31Prfs[(rapid.IntRange(0, len(vf31Prfs)-1).Draw(rt, "other"))]
		for _, c := range []struct {
			fh   FinishedHash
			want []byte
			what string
		}{
			{FinishedHash{Prf: old}, want, "Prf only"},
			{FinishedHash{Prfv2: prf, Prf: func(result, s, l, sd []byte) { copy(result, other(s, "x"+string(l), sd, len(result))) }}, want, "Prfv2 takes precedence"},
		} {
			priv := c.fh.getPrivateObj()
			if priv.prf == nil {
				st.Violation(rt, "%s: private prf is nil", c.what)
			}
			if got := priv.prf(secret, label, seed, n); !bytes.Equal(got, c.want) {
				st.Violation(rt, "%s: private prf output differs", c.what)
			}
		}
		st.NonTrivial(fmt.Sprintf("prf:%s:%d:%d", label, len(secret), n))
	})
}

// ---------------------------------------------------------------------------------------------------------
// ClientHello bytes
// ---------------------------------------------------------------------------------------------------------

// vf31FromRef builds the expected public view from the shared independent parser's result.
func vf31FromRef(h *vfHello) *PubClientHelloMsg {
	m := &PubClientHelloMsg{Raw: h.Raw, Vers: h.Version, Random: h.Random, SessionId: h.SessionID, CipherSuites: h.Suites, CompressionMethods: h.Compression}
	for _, s := range h.Suites {
		if s == 0x00ff {
			m.SecureRenegotiationSupported = true
		}
	}
	vec8 := func(b []byte) []byte {
		if len(b) < 1 || len(b) < 1+int(b[0]) {
			return nil
		}
		return b[1 : 1+int(b[0])]
	}
	vec16 := func(b []byte) []byte {
		if len(b) < 2 || len(b) < 2+int(binary.BigEndian.Uint16(b)) {
			return nil
		}
		return b[2 : 2+int(binary.BigEndian.Uint16(b))]
	}
	for _, e := range h.Exts {
		switch e.Type {
		case 0:
			m.ServerName, _ = h.SNI()
		case 5:
			m.OcspStapling = len(e.Body) > 0 && e.Body[0] == 1
		case 10:
			for _, g := range h.Groups() {
				m.SupportedCurves = append(m.SupportedCurves, CurveID(g))
			}
		case 11:
			m.SupportedPoints = vec8(e.Body)
		case 13:
			for _, s := range vfU16List16(e.Body) {
				m.SupportedSignatureAlgorithms = append(m.SupportedSignatureAlgorithms, SignatureScheme(s))
			}
		case 16:
			m.AlpnProtocols = h.ALPN()
		case 18:
			m.Scts = true
		case 23:
			m.Ems = true
		case 35:
			m.TicketSupported = true
			m.SessionTicket = e.Body
		case 41:
			if o := h.PSK(); o != nil {
				for i := range o.Identities {
					m.PskIdentities = append(m.PskIdentities, PskIdentity{Label: o.Identities[i], ObfuscatedTicketAge: o.Ages[i]})
				}
				m.PskBinders = o.Binders
			}
		case 42:
			m.EarlyData = true
		case 43:
			m.SupportedVersions, _ = h.SupportedVersions()
		case 44:
			m.Cookie = vec16(e.Body)
		case 45:
			m.PskModes = vec8(e.Body)
		case 50:
			for _, s := range vfU16List16(e.Body) {
				m.SupportedSignatureAlgorithmsCert = append(m.SupportedSignatureAlgorithmsCert, SignatureScheme(s))
			}
		case 51:
			for _, ks := range h.KeyShares() {
				m.KeyShares = append(m.KeyShares, KeyShare{Group: CurveID(ks.Group), Data: ks.Data})
			}
		case 57:
			m.QuicTransportParameters = append([]byte{}, e.Body...)
		case 0xfe0d:
			m.encryptedClientHello = e.Body
		case 0xff01:
			m.SecureRenegotiationSupported = true
			m.SecureRenegotiation = vec8(e.Body)
		}
	}
	return m
}

var vf31HelloFields = func() []string {
	var out []string
	for n := range vf31Pairs()[0].fields {
		if n != "Raw" {
			out = append(out, n)
		}
	}
	sort.Strings(out)
	return out
}()

// vf31DiffHello compares two public hellos on every mapped field except Raw.
func vf31DiffHello(a, b *PubClientHelloMsg) string {
	va, vb := reflect.ValueOf(a).Elem(), reflect.ValueOf(b).Elem()
	for _, n := range vf31HelloFields {
		nilSig := n == "QuicTransportParameters"
		x, y := vf31CanonStr(vf31Field(va, n), nilSig), vf31CanonStr(vf31Field(vb, n), nilSig)
		if x != y {
			return fmt.Sprintf("field %s: %s vs %s", n, x, y)
		}
	}
	return ""
}

// vf31CheckHelloBytes runs the three byte-level statements on one valid ClientHello. want (optional) is the
// field-level expectation of the caller.
func vf31CheckHelloBytes(st *vfStats, t vfFataler, b []byte, src string, want *PubClientHelloMsg) {
	t.Helper()
	ref := vfParseClientHello(b)
	if len(ref.Violations) > 0 {
		// not a valid ClientHello by the shared strict grammar: outside this property's domain (C02's subject)
		st.Class("skipped:not-valid-by-reference-grammar")
		st.Extra("invalid_by_reference:"+src, ref.Violations[0])
		return
	}
	orig := append([]byte(nil), b...)
	pub := UnmarshalClientHello(b)
	if pub == nil {
		st.Violation(t, "%s: UnmarshalClientHello rejects a ClientHello the reference grammar accepts: %s", src, vfHex(b))
	}
	out, err := pub.Marshal()
	if err != nil || !bytes.Equal(out, orig) {
		st.Violation(t, "%s: UnmarshalClientHello(b).Marshal() != b (err=%v): %s", src, err, vf31DiffBytes(out, orig))
	}
	if !bytes.Equal(b, orig) {
		st.Violation(t, "%s: UnmarshalClientHello/Marshal modified the input bytes", src)
	}
	if !bytes.Equal(pub.Raw, orig) {
		st.Violation(t, "%s: Raw of the parsed hello is not the input", src)
	}
	if d := vf31DiffHello(pub, vf31FromRef(ref)); d != "" {
		st.Violation(t, "%s: parsed public view disagrees with the reference parser: %s", src, d)
	}
	if want != nil {
		if d := vf31DiffHello(pub, want); d != "" {
			st.Violation(t, "%s: parsed public view disagrees with the values that were marshaled: %s", src, d)
		}
	}
	// third statement: clear Raw, marshal, parse again
	pub.Raw = nil
	re, err := pub.Marshal()
	if err != nil {
		st.Violation(t, "%s: Marshal after clearing Raw failed: %v", src, err)
	}
	pub2 := UnmarshalClientHello(re)
	if pub2 == nil {
		st.Violation(t, "%s: re-marshaled hello does not parse: %s", src, vfHex(re))
	}
	if d := vf31DiffHello(pub, pub2); d != "" {
		st.Violation(t, "%s: parse -> clear Raw -> Marshal -> parse changed a field: %s", src, d)
	}
	ref2 := vfParseClientHello(re)
	if len(ref2.Violations) > 0 {
		st.Violation(t, "%s: re-marshaled hello is not valid by the reference grammar: %s", src, ref2.Violations[0])
	}
	if d := vf31DiffHello(pub, vf31FromRef(ref2)); d != "" {
		st.Violation(t, "%s: re-marshaled bytes disagree with the fields (reference parser): %s", src, d)
	}
	if bytes.Equal(re, orig) {
		st.Class("remarshal:identical-bytes")
	} else {
		st.Class("remarshal:different-bytes(order/unknown-extensions)")
	}
	// the view is an object with exported fields: after it has been parsed (and marshaled once), a caller changes
	// fields, clears Raw and marshals again - the bytes then carry the NEW values (parse them back and compare)
	for round := 0; round < 2; round++ {
		pub.Raw = nil
		pub.SessionId = append([]byte{byte(0x51 + round)}, pub.SessionId...)
		if len(pub.SessionId) > 32 {
			pub.SessionId = pub.SessionId[:32]
		}
		pub.CipherSuites = append([]uint16{uint16(0x1301 + round)}, pub.CipherSuites...)
		if pub.ServerName != "" {
			pub.ServerName = fmt.Sprintf("edited%d.%s", round, pub.ServerName)
			if len(pub.ServerName) > 200 {
				pub.ServerName = pub.ServerName[:200]
			}
		}
		if len(pub.AlpnProtocols) > 0 {
			pub.AlpnProtocols = append([]string{fmt.Sprintf("vf-edited-%d", round)}, pub.AlpnProtocols...)
		}
		re3, err := pub.Marshal()
		if err != nil {
			st.Violation(t, "%s: Marshal after editing fields failed: %v", src, err)
		}
		pub3 := UnmarshalClientHello(re3)
		if pub3 == nil {
			st.Violation(t, "%s: hello marshaled after editing fields does not parse: %s", src, vfHex(re3))
		}
		if d := vf31DiffHello(pub, pub3); d != "" {
			st.Violation(t, "%s: parse -> edit fields -> clear Raw -> Marshal -> parse (round %d): the bytes do not carry the edited values: %s", src, round, d)
		}
	}
	st.Class("edited-after-parse")
}

func vf31DiffBytes(got, want []byte) string {
	i := 0
	for i < len(got) && i < len(want) && got[i] == want[i] {
		i++
	}
	return fmt.Sprintf("%d vs %d bytes, first difference at offset %d", len(got), len(want), i)
}

type vf31Source struct {
	name string
	id   ClientHelloID
	rnd  bool
}

func vf31Sources() []vf31Source {
	var out []vf31Source
	for _, p := range vfParrots {
		out = append(out, vf31Source{name: p.Name, id: p.ID})
	}
	out = append(out, vf31Source{name: "HelloGolang", id: HelloGolang},
		vf31Source{name: "HelloRandomized", id: HelloRandomized, rnd: true},
		vf31Source{name: "HelloRandomizedALPN", id: HelloRandomizedALPN, rnd: true},
		vf31Source{name: "HelloRandomizedNoALPN", id: HelloRandomizedNoALPN, rnd: true})
	return out
}

// vf31BuildHello builds a real ClientHello through the public API and returns its bytes.
func vf31BuildHello(src vf31Source, serverName string, seed uint64, alpn []string) ([]byte, error) {
	cp, sp := vfPipe()
	defer cp.Close()
	defer sp.Close()
	cfg := &Config{ServerName: serverName, OmitEmptyPsk: true, Rand: vfNewDetRand(seed, "c31"), Time: vfNow, NextProtos: alpn}
	if serverName == "" {
		cfg.InsecureSkipVerify = true
	}
	id := src.id
	if src.rnd {
		var s PRNGSeed
		vfNewDetRand(seed, "c31-prng").Read(s[:])
		id.Seed = &s
	}
	uc := UClient(cp, cfg, id)
	var err error
	if p := vfCatch(func() { err = uc.BuildHandshakeState() }); p != nil {
		return nil, fmt.Errorf("BuildHandshakeState panicked: %v", p.Val)
	}
	if err != nil {
		return nil, err
	}
	b := uc.HandshakeState.Hello.Raw
	if len(b) == 0 { // HelloGolang: the hello is marshaled at handshake time
		b, err = uc.HandshakeState.Hello.Marshal()
		if err != nil {
			return nil, err
		}
	}
	return append([]byte(nil), b...), nil
}

func TestVerifC31ParrotHellos(t *testing.T) {
	st := vfNewStats(t, "C31")
	srcs := vf31Sources()
	// every source once, deterministically
	for i, s := range srcs {
		b, err := vf31BuildHello(s, "c31.example.test", uint64(i+1), nil)
		if err != nil {
			st.Violation(t, "%s: cannot build a ClientHello: %v", s.name, err)
		}
		st.Eval()
		st.Class("hello:directed:" + s.name)
		st.NonTrivial("hello:" + s.name + ":" + vfHashHex(b)[:10])
		vf31CheckHelloBytes(st, t, b, s.name, nil)
	}
	rapid.Check(t, func(rt *rapid.T) {
		// rapid's integer generators favour small values; spread the sources with a hash of two draws
		pick := sha256.Sum256([]byte(fmt.Sprintf("%d/%d", rapid.IntRange(0, len(srcs)-1).Draw(rt, "source"), rapid.Uint32().Draw(rt, "source_mix"))))
		s := srcs[int(binary.BigEndian.Uint32(pick[:4])%uint32(len(srcs)))]
		var name string
		switch rapid.IntRange(0, 4).Draw(rt, "name_kind") {
		case 0:
			name = "" // no SNI
		case 1:
			name = "192.0.2.7" // IP literal: no SNI
		case 2:
			name = vfDNSNameOfLen(rapid.IntRange(1, 253).Draw(rt, "name_len"), 'n')
		default:
			name = vfGenDNSName(rt, "name")
		}
		seed := rapid.Uint64().Draw(rt, "seed")
		var alpn []string
		if rapid.Bool().Draw(rt, "alpn") {
			alpn = []string{"h2", "http/1.1"}
		}
		b, err := vf31BuildHello(s, name, seed, alpn)
		if err != nil {
			st.Violation(rt, "%s: cannot build a ClientHello for %q: %v", s.name, name, err)
		}
		st.Eval()
		st.Class("hello:source:" + s.name)
		st.NonTrivial("hello:" + s.name + ":" + vfHashHex(b)[:10])
		st.Sample(map[string]any{"source": s.name, "server_name_len": len(name), "hello_len": len(b)})
		vf31CheckHelloBytes(st, rt, b, s.name, nil)
	})
}

// vf31Reencode rebuilds ClientHello bytes from a reference parse with the extensions in the given order.
func vf31Reencode(h *vfHello, exts []vfExt) []byte {
	var eb []byte
	for _, e := range exts {
		eb = append(eb, byte(e.Type>>8), byte(e.Type), byte(len(e.Body)>>8), byte(len(e.Body)))
		eb = append(eb, e.Body...)
	}
	body := []byte{byte(h.Version >> 8), byte(h.Version)}
	body = append(body, h.Random...)
	body = append(body, byte(len(h.SessionID)))
	body = append(body, h.SessionID...)
	body = append(body, byte(len(h.Suites)*2>>8), byte(len(h.Suites)*2))
	for _, s := range h.Suites {
		body = append(body, byte(s>>8), byte(s))
	}
	body = append(body, byte(len(h.Compression)))
	body = append(body, h.Compression...)
	if h.HasExts {
		body = append(body, byte(len(eb)>>8), byte(len(eb)))
		body = append(body, eb...)
	}
	return append([]byte{1, byte(len(body) >> 16), byte(len(body) >> 8), byte(len(body))}, body...)
}

// Valid ClientHellos nobody's marshaller would produce: a real hello with its extensions permuted
// (pre_shared_key kept last) and unknown extensions spliced in.
func TestVerifC31PermutedHellos(t *testing.T) {
	st := vfNewStats(t, "C31")
	srcs := vf31Sources()
	rapid.Check(t, func(rt *rapid.T) {
		pick := sha256.Sum256([]byte(fmt.Sprintf("p%d/%d", rapid.IntRange(0, len(srcs)-1).Draw(rt, "source"), rapid.Uint32().Draw(rt, "source_mix"))))
		s := srcs[int(binary.BigEndian.Uint32(pick[:4])%uint32(len(srcs)))]
		b, err := vf31BuildHello(s, vfGenDNSName(rt, "name"), rapid.Uint64().Draw(rt, "seed"), nil)
		if err != nil {
			st.Violation(rt, "%s: cannot build a ClientHello: %v", s.name, err)
		}
		h := vfParseClientHello(b)
		if len(h.Violations) > 0 || !h.HasExts {
			st.Class("skipped:not-valid-by-reference-grammar")
			return
		}
		exts := append([]vfExt(nil), h.Exts...)
		var psk *vfExt
		if n := len(exts); n > 0 && exts[n-1].Type == 41 {
			psk = &exts[n-1]
			exts = exts[:n-1]
		}
		// permutation by drawn swaps
		for i := len(exts) - 1; i > 0; i-- {
			j := rapid.IntRange(0, i).Draw(rt, fmt.Sprintf("swap%d", i))
			exts[i], exts[j] = exts[j], exts[i]
		}
		have := map[uint16]bool{}
		for _, e := range h.Exts {
			have[e.Type] = true
		}
		nIns := rapid.IntRange(0, 2).Draw(rt, "ninsert")
		for i := 0; i < nIns; i++ {
			typ := rapid.SampledFrom([]uint16{0x7777, 0x1234, 0x0031, 0x5a5a, 0xcaca, 0x0fff, 0x0014, 0x0039 + 0x4000}).Draw(rt, fmt.Sprintf("instype%d", i))
			if have[typ] {
				continue
			}
			have[typ] = true
			at := rapid.IntRange(0, len(exts)).Draw(rt, fmt.Sprintf("insat%d", i))
			e := vfExt{Type: typ, Body: rapid.SliceOfN(rapid.Byte(), 0, 40).Draw(rt, fmt.Sprintf("insbody%d", i))}
			exts = append(exts[:at], append([]vfExt{e}, exts[at:]...)...)
		}
		// valid encodings the library's own marshaller never produces: minimal bodies of known extensions
		minimal := map[uint16][]byte{
			51:     {0, 0},              // key_share with an empty client_shares vector (RFC 8446 4.2.8: asks for a HelloRetryRequest)
			35:     {},                  // empty session_ticket
			0xff01: {0},                 // renegotiation_info with empty renegotiated_connection
			18:     {},                  // signed_certificate_timestamp request
			5:      {1, 0, 0, 0, 0},     // status_request: ocsp, no responder ids, no extensions
			16:     {0, 3, 2, 'h', '2'}, // one ALPN protocol
			43:     {2, 3, 4},           // one supported version
			45:     {1, 1},              // one PSK key exchange mode
			10:     {0, 2, 0, 29},       // one group
			13:     {0, 2, 4, 3},        // one signature algorithm
			11:     {1, 0},              // one point format
			23:     {},                  // extended_master_secret
		}
		nMin := 0
		for i := range exts {
			if body, ok := minimal[exts[i].Type]; ok && rapid.IntRange(0, 3).Draw(rt, fmt.Sprintf("minimal%d", i)) == 0 {
				exts[i].Body = body
				nMin++
				st.Class(fmt.Sprintf("hello:minimal-body-of-extension-%d", exts[i].Type))
			}
		}
		if psk != nil {
			exts = append(exts, *psk)
		}
		nb := vf31Reencode(h, exts)
		st.Eval()
		st.Class("hello:permuted+unknown-extensions")
		st.NonTrivial("perm:" + vfHashHex(nb)[:12])
		vf31CheckHelloBytes(st, rt, nb, s.name+"(permuted)", nil)
	})
}

// vf31GenHello draws the fields of a PubClientHelloMsg inside the ClientHello grammar (so that the marshaled
// bytes are a valid ClientHello) and returns it together with the field values expected after parsing.
func vf31GenHello(t *rapid.T) *PubClientHelloMsg {
	by := func(label string, lo, hi int) []byte { return rapid.SliceOfN(rapid.Byte(), lo, hi).Draw(t, label) }
	opt := func(label string) bool { return rapid.Bool().Draw(t, label) }
	u16s := func(label string, lo, hi int) []uint16 {
		return rapid.SliceOfN(rapid.SampledFrom([]uint16{0x1301, 0x1302, 0xc02b, 0x0a0a, 0xfafa, 0x0017, 0x001d, 0x0403, 0x0804, 0x0304, 0x0303, 0x0001, 0xfffe, 0x00fe}), lo, hi).Draw(t, label)
	}
	m := &PubClientHelloMsg{
		Vers:               rapid.SampledFrom([]uint16{0x0303, 0x0301, 0x0304, 0x0000, 0xffff}).Draw(t, "vers"),
		Random:             by("random", 32, 32),
		SessionId:          by("sid", 0, 32),
		CipherSuites:       u16s("suites", 1, 12),
		CompressionMethods: by("comp", 1, 3),
	}
	if rapid.IntRange(0, 3).Draw(t, "scsv") == 0 {
		m.CipherSuites = append(m.CipherSuites, 0x00ff)
	}
	if opt("sni") {
		m.ServerName = vfGenDNSName(t, "name")
	}
	m.OcspStapling, m.Scts, m.Ems, m.EarlyData = opt("ocsp"), opt("scts"), opt("ems"), opt("early")
	if opt("ticket") {
		m.TicketSupported = true
		m.SessionTicket = by("ticketv", 0, 60)
	}
	if opt("curves") {
		for _, v := range u16s("curvesv", 1, 6) {
			m.SupportedCurves = append(m.SupportedCurves, CurveID(v))
		}
	}
	if opt("points") {
		m.SupportedPoints = by("pointsv", 1, 3)
	}
	if opt("sigalgs") {
		for _, v := range u16s("sigalgsv", 1, 8) {
			m.SupportedSignatureAlgorithms = append(m.SupportedSignatureAlgorithms, SignatureScheme(v))
		}
	}
	if opt("sigalgscert") {
		for _, v := range u16s("sigalgscertv", 1, 8) {
			m.SupportedSignatureAlgorithmsCert = append(m.SupportedSignatureAlgorithmsCert, SignatureScheme(v))
		}
	}
	if opt("reneg") {
		m.SecureRenegotiationSupported = true
		m.SecureRenegotiation = by("renegv", 0, 24)
	}
	if opt("alpn") {
		m.AlpnProtocols = rapid.SliceOfN(rapid.StringMatching(`[a-z0-9/.]{1,12}`), 1, 4).Draw(t, "alpnv")
	}
	if opt("versions") {
		m.SupportedVersions = u16s("versionsv", 1, 4)
	}
	if opt("cookie") {
		m.Cookie = by("cookiev", 1, 40)
	}
	if opt("keyshares") {
		type g struct {
			id   uint16
			size int
		}
		pool := []g{{0x001d, 32}, {0x0017, 65}, {0x2a2a, 1}, {0x4444, 0}, {0x11ec, 1216}, {0x0018, 97}}
		n := rapid.IntRange(1, 3).Draw(t, "nks")
		start := rapid.IntRange(0, len(pool)-1).Draw(t, "ks0")
		for i := 0; i < n; i++ {
			e := pool[(start+i)%len(pool)]
			size := e.size
			if size == 0 {
				size = rapid.IntRange(1, 50).Draw(t, fmt.Sprintf("kslen%d", i))
			}
			m.KeyShares = append(m.KeyShares, KeyShare{Group: CurveID(e.id), Data: by(fmt.Sprintf("ks%d", i), size, size)})
		}
	}
	if opt("pskmodes") {
		m.PskModes = by("pskmodesv", 1, 2)
	}
	if opt("quic") {
		m.QuicTransportParameters = []byte{}
		n := rapid.IntRange(0, 3).Draw(t, "ntp")
		for i := 0; i < n; i++ {
			id := rapid.Uint64Range(0, 1<<30).Draw(t, fmt.Sprintf("tpid%d", i))
			val := by(fmt.Sprintf("tpv%d", i), 0, 20)
			m.QuicTransportParameters = append(m.QuicTransportParameters, vfRefVarintEncode(id, vfRefVarintLen(id))...)
			m.QuicTransportParameters = append(m.QuicTransportParameters, vfRefVarintEncode(uint64(len(val)), vfRefVarintLen(uint64(len(val))))...)
			m.QuicTransportParameters = append(m.QuicTransportParameters, val...)
		}
	}
	if opt("ech") {
		enc, payload := by("echenc", 0, 40), by("echpayload", 1, 200)
		e := []byte{0, 0, 1, 0, 1, rapid.Byte().Draw(t, "echcfg"), byte(len(enc) >> 8), byte(len(enc))}
		e = append(e, enc...)
		e = append(e, byte(len(payload)>>8), byte(len(payload)))
		m.encryptedClientHello = append(e, payload...)
	}
	if opt("psk") {
		n := rapid.IntRange(1, 2).Draw(t, "npsk")
		for i := 0; i < n; i++ {
			m.PskIdentities = append(m.PskIdentities, PskIdentity{Label: by(fmt.Sprintf("pskid%d", i), 1, 120), ObfuscatedTicketAge: rapid.Uint32().Draw(t, fmt.Sprintf("pskage%d", i))})
			m.PskBinders = append(m.PskBinders, by(fmt.Sprintf("binder%d", i), 32, 48))
		}
	}
	return m
}

func TestVerifC31GeneratedHellos(t *testing.T) {
	st := vfNewStats(t, "C31")
	rapid.Check(t, func(rt *rapid.T) {
		m := vf31GenHello(rt)
		st.Eval()
		// expectation after the wire: what was drawn, plus the renegotiation SCSV implying support
		want := *m
		for _, s := range m.CipherSuites {
			if s == 0x00ff {
				want.SecureRenegotiationSupported = true
			}
		}
		b, err := m.Marshal()
		if err != nil {
			st.Violation(rt, "Marshal of generated fields failed: %v", err)
		}
		n := 0
		v := reflect.ValueOf(m).Elem()
		for _, f := range vf31HelloFields {
			if !vf31Field(v, f).IsZero() {
				n++
			}
		}
		st.Class(fmt.Sprintf("generated-hello:populated-fields:%02d-%02d", n/5*5, n/5*5+4))
		st.NonTrivial("gen:" + vfHashHex(b)[:12])
		st.Sample(map[string]any{"source": "generated", "populated_fields": n, "hello_len": len(b)})
		vf31CheckHelloBytes(st, rt, b, "generated", &want)
	})
}

// ---------------------------------------------------------------------------------------------------------
// handshake-state views (compose the conversions above)
// ---------------------------------------------------------------------------------------------------------

func TestVerifC31HandshakeState(t *testing.T) {
	st := vfNewStats(t, "C31")
	pairs := vf31Pairs()
	byName := map[string]*vf31Pair{}
	for _, p := range pairs {
		byName[p.name] = p
	}
	genPub := func(rt *rapid.T, p *vf31Pair, label string) reflect.Value {
		v := reflect.New(p.pub)
		names := []string{}
		for k := range p.fields {
			names = append(names, k)
		}
		sort.Strings(names)
		for _, k := range names {
			f := vf31Field(v.Elem(), k)
			f.Set(vf31Gen(rt, f.Type(), label+"."+k))
		}
		return v
	}
	same := func(p *vf31Pair, a, b reflect.Value) string { // two public values of pair p
		if a.IsNil() != b.IsNil() {
			return "nil-ness differs"
		}
		if a.IsNil() {
			return ""
		}
		for n := range p.fields {
			x, y := vf31CanonStr(vf31Field(a.Elem(), n), p.nilSig[n]), vf31CanonStr(vf31Field(b.Elem(), n), p.nilSig[n])
			if x != y {
				return fmt.Sprintf("%s.%s: %s vs %s", p.name, n, x, y)
			}
		}
		return ""
	}
	rapid.Check(t, func(rt *rapid.T) {
		st.Eval()
		vf31InitPools()
		pub := &PubClientHandshakeState{C: &Conn{}, Session: &SessionState{}, uconn: &UConn{}}
		if rapid.Bool().Draw(rt, "hello") {
			pub.Hello = genPub(rt, byName["ClientHello"], "hello").Interface().(*PubClientHelloMsg)
		}
		if rapid.Bool().Draw(rt, "serverhello") {
			pub.ServerHello = genPub(rt, byName["ServerHello"], "sh").Interface().(*PubServerHelloMsg)
		}
		pub.MasterSecret = rapid.SliceOfN(rapid.Byte(), 0, 48).Draw(rt, "ms")
		if rapid.Bool().Draw(rt, "tls13") {
			st.Class("handshake-state:tls13")
			s := &pub.State13
			if rapid.Bool().Draw(rt, "ksk") {
				s.KeyShareKeys = genPub(rt, byName["KeySharePrivateKeys"], "ksk").Interface().(*KeySharePrivateKeys)
				// "KeyShareKeys will take precedence if both are set": callers that still mirror a key into the
				// deprecated field must get the KeyShareKeys view converted, not the deprecated key.
				if rapid.Bool().Draw(rt, "deprecated_ecdhe_too") {
					s.EcdheKey = vf31ECDH[rapid.IntRange(0, len(vf31ECDH)-1).Draw(rt, "deprecated_key")]
					st.Class("handshake-state:tls13:both-key-fields-set")
				}
			}
			if rapid.Bool().Draw(rt, "suite") {
				s.Suite = genPub(rt, byName["CipherSuiteTLS13"], "suite").Interface().(*PubCipherSuiteTLS13)
			}
			if rapid.Bool().Draw(rt, "certreq") {
				s.CertReq = genPub(rt, byName["CertificateRequestTLS13"], "cr").Interface().(*CertificateRequestMsgTLS13)
			}
			s.BinderKey = rapid.SliceOfN(rapid.Byte(), 0, 48).Draw(rt, "bk")
			s.TrafficSecret = rapid.SliceOfN(rapid.Byte(), 0, 48).Draw(rt, "ts")
			s.UsingPSK, s.SentDummyCCS = rapid.Bool().Draw(rt, "psk"), rapid.Bool().Draw(rt, "ccs")
			s.Transcript = vf31Hashes[rapid.IntRange(0, len(vf31Hashes)-1).Draw(rt, "transcript")]
			var priv *clientHandshakeStateTLS13
			var back *PubClientHandshakeState
			if p := vfCatch(func() { priv = pub.toPrivate13(); back = priv.toPublic13() }); p != nil {
				st.Violation(rt, "toPrivate13/toPublic13 panicked: %v", p.Val)
			}
			if priv.c != pub.C || priv.session != pub.Session || priv.uconn != pub.uconn || !bytes.Equal(priv.binderKey, s.BinderKey) ||
				!bytes.Equal(priv.trafficSecret, s.TrafficSecret) || priv.usingPSK != s.UsingPSK || priv.sentDummyCCS != s.SentDummyCCS || priv.transcript != s.Transcript {
				st.Violation(rt, "toPrivate13 lost a scalar field")
			}
			b := &back.State13
			if back.C != pub.C || back.Session != pub.Session || back.uconn != pub.uconn || !bytes.Equal(b.BinderKey, s.BinderKey) ||
				!bytes.Equal(b.TrafficSecret, s.TrafficSecret) || b.UsingPSK != s.UsingPSK || b.SentDummyCCS != s.SentDummyCCS || b.Transcript != s.Transcript {
				st.Violation(rt, "toPrivate13 -> toPublic13 lost a scalar field")
			}
			for _, d := range []string{
				same(byName["ClientHello"], reflect.ValueOf(pub.Hello), reflect.ValueOf(back.Hello)),
				same(byName["ServerHello"], reflect.ValueOf(pub.ServerHello), reflect.ValueOf(back.ServerHello)),
				same(byName["KeySharePrivateKeys"], reflect.ValueOf(s.KeyShareKeys), reflect.ValueOf(b.KeyShareKeys)),
				same(byName["CipherSuiteTLS13"], reflect.ValueOf(s.Suite), reflect.ValueOf(b.Suite)),
				same(byName["CertificateRequestTLS13"], reflect.ValueOf(s.CertReq), reflect.ValueOf(b.CertReq)),
			} {
				if d != "" {
					st.Violation(rt, "toPrivate13 -> toPublic13: %s", d)
				}
			}
			// deprecated EcdheKey is honoured when KeyShareKeys is unset
			if s.KeyShareKeys == nil {
				pub.State13.EcdheKey = vf31ECDH[0]
				if p2 := pub.toPrivate13(); p2.keyShareKeys == nil || p2.keyShareKeys.ecdhe != vf31ECDH[0] {
					st.Violation(rt, "deprecated State13.EcdheKey not carried into the private state")
				}
			}
		} else {
			st.Class("handshake-state:tls12")
			s := &pub.State12
			s.Suite = *genPub(rt, byName["CipherSuite"], "suite12").Interface().(*PubCipherSuite)
			s.FinishedHash = *genPub(rt, byName["FinishedHash"], "fh").Interface().(*FinishedHash)
			var priv *clientHandshakeState
			var back *PubClientHandshakeState
			if p := vfCatch(func() { priv = pub.toPrivate12(); back = priv.toPublic12() }); p != nil {
				st.Violation(rt, "toPrivate12/toPublic12 panicked: %v", p.Val)
			}
			if priv.c != pub.C || priv.session != pub.Session || priv.uconn != pub.uconn || !bytes.Equal(priv.masterSecret, pub.MasterSecret) {
				st.Violation(rt, "toPrivate12 lost a scalar field")
			}
			if back.C != pub.C || back.Session != pub.Session || back.uconn != pub.uconn || !bytes.Equal(back.MasterSecret, pub.MasterSecret) {
				st.Violation(rt, "toPrivate12 -> toPublic12 lost a scalar field")
			}
			bs, bf := back.State12.Suite, back.State12.FinishedHash
			for _, d := range []string{
				same(byName["ClientHello"], reflect.ValueOf(pub.Hello), reflect.ValueOf(back.Hello)),
				same(byName["ServerHello"], reflect.ValueOf(pub.ServerHello), reflect.ValueOf(back.ServerHello)),
				same(byName["CipherSuite"], reflect.ValueOf(&s.Suite), reflect.ValueOf(&bs)),
				same(byName["FinishedHash"], reflect.ValueOf(&s.FinishedHash), reflect.ValueOf(&bf)),
			} {
				if d != "" {
					st.Violation(rt, "toPrivate12 -> toPublic12: %s", d)
				}
			}
		}
		st.NonTrivial(fmt.Sprintf("hs:%v:%s", pub.Hello != nil, vfHashHex(pub.MasterSecret)[:10]))
	})
}
