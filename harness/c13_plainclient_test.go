//go:build verif

package tls

// C13 (extension): the package's plain client (tls.Client / Dial, the code path without a UConn) against the legacy
// scripted server. Same oracle as for the fingerprints: a completed handshake is at a version the hello advertised, and
// a client that offered TLS 1.3 (resp. 1.2) rejects a lower version whose ServerHello.random carries EITHER downgrade
// sentinel of RFC 8446 4.1.3 (resp. the TLS 1.1 one).

import (
	"fmt"
	"testing"
	"time"

	"pgregory.net/rapid"
)

func TestVerifC13PlainClient(t *testing.T) {
	st := vfNewStats(t, "C13")
	rapid.Check(t, func(rt *rapid.T) {
		minV := rapid.SampledFrom([]uint16{0, VersionTLS10, VersionTLS11, VersionTLS12}).Draw(rt, "client_min")
		maxV := rapid.SampledFrom([]uint16{0, VersionTLS13, VersionTLS12}).Draw(rt, "client_max")
		ver := rapid.SampledFrom([]uint16{VersionTLS10, VersionTLS11, VersionTLS12}).Draw(rt, "server_version")
		canary := rapid.SampledFrom([]string{"none", "tls12", "tls11", "auto"}).Draw(rt, "sentinel")
		name := "plain.c13.test"
		st.Eval()
		cp, sp := vfPipe()
		defer cp.Close()
		defer sp.Close()
		ccfg := vfClientConfig(name)
		ccfg.MinVersion, ccfg.MaxVersion = minV, maxV
		cli := Client(cp, ccfg)
		scfg := vfServerConfig("ecdsa", name)
		scfg.MaxVersion = VersionTLS12
		scfg.MinVersion = VersionTLS10
		scfg.CipherSuites = vfAllServerSuites()
		srv := Server(sp, scfg)
		s := &vsrv12Script{Version: ver, Canary: canary}
		vsrv12Install(srv, s)
		dl := time.Now().Add(vfIOTimeout)
		cp.SetDeadline(dl)
		sp.SetDeadline(dl)
		vfPipeQuiescent(cp, sp, func() { sp.Close() })
		sdone := make(chan error, 1)
		go func() { sdone <- srv.Handshake() }()
		cerr := cli.Handshake()
		if cerr != nil {
			cp.Close()
		}
		select {
		case <-sdone:
		case <-time.After(vfIOTimeout + 10*time.Second):
			st.Violation(rt, "plain client min=%04x max=%04x vs legacy server %04x/%s: server side did not return", minV, maxV, ver, canary)
		}
		hs := vfClientHellosOnWire(cp.Written())
		if len(hs) == 0 {
			st.Class("plain-client:no-hello")
			return
		}
		o := vfOfferOf(vfParseClientHello(hs[0]), minV)
		tail := ""
		if len(s.Random) == 32 {
			tail = string(s.Random[24:])
		}
		has12, has11 := tail == downgradeCanaryTLS12, tail == downgradeCanaryTLS11
		desc := fmt.Sprintf("tls.Client(MinVersion=%04x, MaxVersion=%04x) advertising %04x | legacy server picks %04x, sentinel %s (on the wire: tls12=%v tls11=%v)", minV, maxV, o.Versions, ver, canary, has12, has11)
		completed := cerr == nil && cli.ConnectionState().HandshakeComplete
		st.Class(fmt.Sprintf("plain-client: server=%04x advertised=%v sentinel=%v completed=%v", ver, o.HasVersion(ver), has12 || has11, completed))
		if !completed {
			return
		}
		if got := cli.ConnectionState().Version; got != ver {
			st.Violation(rt, "%s: client reports version %04x", desc, got)
		}
		if !o.HasVersion(ver) {
			st.Violation(rt, "%s: handshake COMPLETED at a version the hello did not advertise", desc)
		}
		if o.HasVersion(VersionTLS13) && (has12 || has11) {
			st.Violation(rt, "%s: client offered TLS 1.3 and accepted a downgraded ServerHello carrying a downgrade sentinel", desc)
		}
		if !o.HasVersion(VersionTLS13) && o.HasVersion(VersionTLS12) && ver <= VersionTLS11 && has11 {
			st.Violation(rt, "%s: client offered TLS 1.2 and accepted a TLS <= 1.1 ServerHello carrying the TLS 1.1 sentinel", desc)
		}
		st.NonTrivial(fmt.Sprintf("plain|%04x|%04x|%04x|%s", minV, maxV, ver, canary))
	})
}
