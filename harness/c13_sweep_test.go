//go:build verif

package tls

// C13 (extension): every predefined parrot against a legacy server (negotiates from legacy_version, ignores
// supported_versions, sends no downgrade sentinel) at every version 1.0 .. 1.2 and with every offered suite kind that
// lets the handshake finish: a completed handshake must be at a version the hello advertised. The random check draws
// (parrot, version, sentinel) triples; a single parrot whose accepted range is wider than its advertised list is a
// 1-in-~500 event there, so the product is also enumerated here once per run.

import (
	"fmt"
	"os"
	"testing"
)

func TestVerifC13AllParrotsLegacySweep(t *testing.T) {
	if s := os.Getenv("VERIF_SHARD"); s != "" && s != "0" {
		t.Skip("deterministic sweep: shard 0 only")
	}
	st := vfNewStats(t, "C13")
	for pi, pr := range vfParrots {
		for _, ver := range []uint16{VersionTLS10, VersionTLS11, VersionTLS12} {
			src := vfClientSrc{Kind: "parrot", Name: pr.Name, ID: pr.ID}
			sni := "sweep.c13.test"
			p, err := vfPrepareClient(src, sni, uint64(1000+pi), nil)
			if err != nil {
				st.Violation(t, "%s: %v", src, err)
				continue
			}
			o := p.Offer
			if o.Hello.Version < ver {
				p.CP.Close()
				continue
			}
			var si *vfSuiteInfo
			var keys []string
			for _, id := range o.Suites {
				c := vfLegacySuite(id)
				if c == nil || (c.TLS12 && ver < VersionTLS12) {
					continue
				}
				if k := vfCertKeysFor(o, ver, c.Auth); len(k) > 0 {
					si, keys = c, k
					break
				}
			}
			if si == nil {
				st.Class("sweep:no-legacy-suite-for-version")
				p.CP.Close()
				continue
			}
			st.Eval()
			s := &vsrv12Script{Version: ver, Canary: "none", Suite: si.ID}
			scfg := vfServerConfig(keys[0], vfCertNames(sni)...)
			scfg.MaxVersion = VersionTLS12
			srv := Server(p.SP, scfg)
			vsrv12Install(srv, s)
			pair := &vfPair{CP: p.CP, SP: p.SP, Cli: p.UC, Srv: srv}
			cerr, serr := pair.Handshake()
			advertised := o.HasVersion(ver)
			desc := fmt.Sprintf("%s | legacy server picks %04x (hello advertises %04x), no sentinel, suite %04x", src, ver, o.Versions, si.ID)
			if cerr == errVfHang || serr == errVfHang {
				st.Violation(t, "%s: hang", desc)
			}
			completed := cerr == nil && pair.Cli.ConnectionState().HandshakeComplete
			st.Class(fmt.Sprintf("sweep: server=%04x advertised=%v completed=%v", ver, advertised, completed))
			if completed {
				if got := pair.Cli.ConnectionState().Version; got != ver {
					st.Violation(t, "%s: client reports version %04x", desc, got)
				}
				if !advertised {
					st.KnownOrViolation(t, "C13:"+src.Name+"-accepts-version-below-supported_versions", "%s: handshake COMPLETED at a version the hello did not advertise", desc)
				}
			}
			if !advertised {
				st.NonTrivial(fmt.Sprintf("sweep|%s|%04x", pr.Name, ver))
			}
			pair.Close()
		}
	}
}
