//go:build verif

package tls

// C22 - application settings (ALPS) are exchanged consistently.

import (
	"bytes"
	"fmt"
	"testing"

	"pgregory.net/rapid"
)

// vf22Sources: parrots whose spec carries an ALPS extension, plus custom specs derived from them.
func vf22ALPSParrots() (old, nw []vfParrot) {
	for _, p := range vfParrots {
		spec, err := UTLSIdToSpec(p.ID)
		if err != nil {
			continue
		}
		for _, e := range spec.Extensions {
			switch e.(type) {
			case *ApplicationSettingsExtension:
				old = append(old, p)
			case *ApplicationSettingsExtensionNew:
				nw = append(nw, p)
			}
		}
	}
	return
}

func TestVerifC22ALPS(t *testing.T) {
	st := vfNewStats(t, "C22")
	oldP, newP := vf22ALPSParrots()
	if len(oldP) == 0 || len(newP) == 0 {
		t.Fatalf("VERIF-INCONCLUSIVE no ALPS parrots found (old=%d new=%d)", len(oldP), len(newP))
	}
	st.Extra("alps_parrots_old_codepoint", len(oldP))
	st.Extra("alps_parrots_new_codepoint", len(newP))
	rapid.Check(t, func(rt *rapid.T) {
		all := oldP
		if rapid.Bool().Draw(rt, "newcodepoint") {
			all = newP
		}
		p := all[rapid.IntRange(0, len(all)-1).Draw(rt, "parrot")]
		src := vfClientSrc{Kind: "parrot", Name: p.Name, ID: p.ID}
		// optionally a custom spec: the parrot's spec with the ALPS protocol list / ALPN list redrawn
		protoPool := []string{"h2", "http/1.1", "h3", "vf-proto"}
		custom := rapid.IntRange(0, 2).Draw(rt, "custom") == 0
		if custom {
			spec, _ := UTLSIdToSpec(p.ID)
			alpn := rapid.SliceOfNDistinct(rapid.SampledFrom(protoPool), 1, 3, func(s string) string { return s }).Draw(rt, "alpnlist")
			alps := rapid.SliceOfNDistinct(rapid.SampledFrom(alpn), 1, len(alpn), func(s string) string { return s }).Draw(rt, "alpslist")
			for i, e := range spec.Extensions {
				switch x := e.(type) {
				case *ALPNExtension:
					spec.Extensions[i] = &ALPNExtension{AlpnProtocols: alpn}
				case *ApplicationSettingsExtension:
					spec.Extensions[i] = &ApplicationSettingsExtension{SupportedProtocols: alps}
				case *ApplicationSettingsExtensionNew:
					spec.Extensions[i] = &ApplicationSettingsExtensionNew{SupportedProtocols: alps}
				case PreSharedKeyExtension:
					_ = x
				}
			}
			src = vfClientSrc{Kind: "custom", Name: "alps(" + p.Name + ")", ID: HelloCustom, Spec: &spec}
		}
		sni := vfGenDNSName(rt, "sni")
		// client-side settings map
		settings := map[string][]byte{}
		for _, proto := range protoPool {
			switch rapid.IntRange(0, 3).Draw(rt, "cfg_"+proto) {
			case 0: // absent
			case 1:
				settings[proto] = []byte{}
			default:
				n := []int{1, 7, 255, 256, 1000}[rapid.IntRange(0, 4).Draw(rt, "cfglen_"+proto)]
				settings[proto] = bytes.Repeat([]byte{byte('A' + len(proto))}, n)
			}
		}
		st.Eval()
		// client authentication: the client's EncryptedExtensions comes first in its flight, before Certificate
		clientAuth := []string{"none", "none", "requested-no-cert", "requested-cert"}[rapid.IntRange(0, 3).Draw(rt, "client_auth")]
		prep, err := vfPrepareClient(src, sni, rapid.Uint64().Draw(rt, "randseed"), func(c *Config) {
			c.ApplicationSettings = settings
			if clientAuth == "requested-cert" {
				c.Certificates = []Certificate{*vfLeaf(vfLeafSpec{KeyType: "ecdsa", Names: []string{"client.c22.test"}})}
			}
		})
		if err != nil {
			st.Violation(rt, "%s: %v", src, err)
		}
		defer prep.CP.Close()
		o := prep.Offer
		h := o.Hello
		// what the hello offers: ALPS code points and protocol lists
		var offeredCP []uint16
		alpsProtos := map[string]bool{}
		for _, cp := range []uint16{17513, 17613} {
			if e := h.Ext(cp); e != nil {
				offeredCP = append(offeredCP, cp)
				for _, pr := range vfProtoList(e.Body) {
					alpsProtos[pr] = true
				}
			}
		}
		if len(offeredCP) == 0 || len(o.ALPN) == 0 {
			st.Class("no-alps-or-alpn-on-wire")
			return
		}
		mode := []string{"ok", "ok", "ok", "ok", "no-alpn", "other-codepoint"}[rapid.IntRange(0, 5).Draw(rt, "mode")]
		s := &vsrvScript{}
		alpnCands := o.ALPN
		if rapid.IntRange(0, 4).Draw(rt, "alpnlisted") != 0 {
			var listed []string
			for _, a := range o.ALPN {
				if alpsProtos[a] {
					listed = append(listed, a)
				}
			}
			if len(listed) > 0 {
				alpnCands = listed
			}
		}
		alpn := alpnCands[rapid.IntRange(0, len(alpnCands)-1).Draw(rt, "alpn")]
		s.ALPN = &alpn
		s.ALPSCodepoint = offeredCP[0]
		if mode == "other-codepoint" {
			if s.ALPSCodepoint == 17513 {
				s.ALPSCodepoint = 17613
			} else {
				s.ALPSCodepoint = 17513
			}
		}
		switch rapid.IntRange(0, 2).Draw(rt, "srvsettingskind") {
		case 0:
			s.ALPSData = []byte{}
		case 1:
			s.ALPSData = rapid.SliceOfN(rapid.Byte(), 1, 40).Draw(rt, "srvsettings")
		default:
			s.ALPSData = bytes.Repeat([]byte{0x5a}, []int{255, 256, 1000, 4000}[rapid.IntRange(0, 3).Draw(rt, "srvsettingslen")])
		}
		if mode == "no-alpn" {
			empty := ""
			s.ALPN = &empty
		}
		if s.ALPSFirst = rapid.IntRange(0, 2).Draw(rt, "alps_before_alpn") == 0; s.ALPSFirst {
			st.Class("ee-order:alps-before-alpn")
		}
		keys := vfCertKeysFor(o, VersionTLS13, "")
		if len(keys) == 0 {
			return
		}
		// other extensions a server may list AFTER application_settings in EncryptedExtensions
		eeExtra := rapid.IntRange(0, 7).Draw(rt, "ee_after_alps")
		if eeExtra&1 != 0 && o.HasSNI {
			s.ExtraEEExts = append(s.ExtraEEExts, vfExt{Type: extensionServerName})
		}
		if eeExtra&2 != 0 {
			s.ExtraEEExts = append(s.ExtraEEExts, vfExt{Type: extensionSupportedCurves, Body: []byte{0, 4, 0, 29, 0, 23}})
		}
		if eeExtra&4 != 0 {
			s.ExtraEEExts = append(s.ExtraEEExts, vfExt{Type: 0x3a3a, Body: []byte{0}})
		}
		if len(s.ExtraEEExts) > 0 {
			st.Class(fmt.Sprintf("ee-extensions-after-alps=%d", len(s.ExtraEEExts)))
		}
		s.CertRequest = clientAuth != "none"
		st.Class("client-auth=" + clientAuth)
		scfg := vfServerConfig(keys[0], vfCertNames(sni)...)
		srv := Server(prep.SP, scfg)
		vsrvInstall(srv, s)
		pair := &vfPair{CP: prep.CP, SP: prep.SP, Cli: prep.UC, Srv: srv}
		cerr, serr := pair.Handshake()
		desc := fmt.Sprintf("%s | client-auth=%s mode=%s ALPN=%q ALPS codepoint=%d (offered %v for %v) server settings %d bytes, client configured %v", src, clientAuth, mode, *s.ALPN, s.ALPSCodepoint, offeredCP, alpsProtos, len(s.ALPSData), vf22Describe(settings))
		st.Class("mode=" + mode)
		st.Class(fmt.Sprintf("codepoint=%d", s.ALPSCodepoint))
		if cerr == errVfHang || serr == errVfHang {
			st.Violation(rt, "%s: hang", desc)
		}
		switch mode {
		case "no-alpn":
			if cerr == nil || s.Completed {
				st.Violation(rt, "%s: application settings without a negotiated ALPN protocol were accepted", desc)
			}
			st.NonTrivial(fmt.Sprintf("%s|no-alpn|%d", src.Name, s.ALPSCodepoint))
			return
		case "other-codepoint":
			// the statement quantifies over ALPS-capable parrots x server codepoint {old, new}: the server may negotiate
			// on the codepoint this hello did not carry; the client then answers on the SERVER's codepoint, like in the
			// matching case (judged below)
			st.Class(fmt.Sprintf("other-codepoint-accepted=%v", cerr == nil))
		}
		if !alpsProtos[alpn] {
			// settings for a protocol the client did not list in its ALPS extension: outside the statement
			st.Class(fmt.Sprintf("alps-for-unlisted-protocol-accepted=%v", cerr == nil))
			return
		}
		if cerr != nil || serr != nil || !s.Completed {
			st.Violation(rt, "%s: handshake failed: client err=%v server err=%v log=%v", desc, cerr, serr, s.Log)
		}
		cs := pair.Cli.ConnectionState()
		if !bytes.Equal(cs.PeerApplicationSettings, s.ALPSData) {
			st.Violation(rt, "%s: ConnectionState.PeerApplicationSettings = %d bytes (%s), server sent %d bytes", desc, len(cs.PeerApplicationSettings), vfHex(cs.PeerApplicationSettings), len(s.ALPSData))
		}
		if cs.NegotiatedProtocol != alpn {
			st.Violation(rt, "%s: NegotiatedProtocol=%q", desc, cs.NegotiatedProtocol)
		}
		if s.ClientEE == nil {
			st.Violation(rt, "%s: no client EncryptedExtensions received", desc)
		}
		if s.ClientEE.applicationSettingsCodepoint != s.ALPSCodepoint {
			st.Violation(rt, "%s: client EncryptedExtensions uses code point %d", desc, s.ClientEE.applicationSettingsCodepoint)
		}
		want := settings[alpn]
		if !bytes.Equal(s.ClientEE.applicationSettings, want) {
			st.KnownOrViolation(rt, "C22:client-settings-looked-up-by-serverhello-alpn", "%s: client sent settings %d bytes (%s) for %q, configured %d bytes", desc, len(s.ClientEE.applicationSettings), vfHex(s.ClientEE.applicationSettings), alpn, len(want))
			return
		}
		if err := pair.Echo([]byte("a"), []byte("b")); err != nil {
			st.Violation(rt, "%s: echo: %v", desc, err)
		}
		if _, configured := settings[alpn]; configured {
			st.Class("client-settings-configured")
		} else {
			st.Class("client-settings-absent")
		}
		st.NonTrivial(fmt.Sprintf("%s|%s|%d|%d|%d", src.Name, alpn, s.ALPSCodepoint, len(s.ALPSData), len(want)))
		st.Sample(map[string]any{"client": src.String(), "alpn": alpn, "codepoint": s.ALPSCodepoint, "server_settings_len": len(s.ALPSData), "client_settings_len": len(want)})
	})
}

func vf22Describe(m map[string][]byte) string {
	out := ""
	for _, k := range []string{"h2", "http/1.1", "h3", "vf-proto"} {
		if v, ok := m[k]; ok {
			out += fmt.Sprintf("%s:%d ", k, len(v))
		}
	}
	return "{" + out + "}"
}

// Below TLS 1.3 application settings must be refused. A TLS 1.2 server has no EncryptedExtensions, so the clause is
// exercised on the function that interprets them, with a connection state at a drawn lower version.
func TestVerifC22BelowTLS13(t *testing.T) {
	st := vfNewStats(t, "C22")
	rapid.Check(t, func(rt *rapid.T) {
		ver := uint16(rapid.IntRange(int(VersionTLS10), int(VersionTLS13)).Draw(rt, "ver"))
		cp := []uint16{17513, 17613}[rapid.IntRange(0, 1).Draw(rt, "cp")]
		withALPN := rapid.Bool().Draw(rt, "withalpn")
		st.Eval()
		c1, _ := vfPipe()
		defer c1.Close()
		uc := UClient(c1, &Config{InsecureSkipVerify: true, ApplicationSettings: map[string][]byte{"h2": []byte("x")}}, HelloChrome_120)
		uc.vers = ver
		if withALPN {
			uc.clientProtocol = "h2"
		}
		hs := &clientHandshakeStateTLS13{c: uc.Conn, uconn: uc, serverHello: &serverHelloMsg{}}
		ee := &encryptedExtensionsMsg{}
		ee.utls.applicationSettingsCodepoint = cp
		ee.utls.applicationSettings = rapid.SliceOfN(rapid.Byte(), 0, 20).Draw(rt, "data")
		err := hs.utlsReadServerParameters(ee)
		st.Class(fmt.Sprintf("ver=%04x alpn=%v", ver, withALPN))
		if ver < VersionTLS13 && err == nil {
			st.Violation(rt, "application settings (code point %d) accepted at version %04x", cp, ver)
		}
		if !withALPN && err == nil {
			st.Violation(rt, "application settings accepted without a negotiated ALPN protocol (version %04x)", ver)
		}
		if ver == VersionTLS13 && withALPN && err != nil {
			st.Violation(rt, "application settings refused at TLS 1.3 with ALPN: %v", err)
		}
		st.NonTrivial(fmt.Sprintf("below|%04x|%d|%v", ver, cp, withALPN))
	})
}
