//go:build verif

package tls

// C12 (PSK identity): a real resumption (the client holds a ticket and offers n identities) against a scripted server
// that knows the PSK, really resumes with it, and announces selected_identity = k. k = 0 is the positive control (must
// resume); k >= n was never offered and must be rejected even though the server's key schedule is the one a lax client
// would follow.

import (
	"fmt"
	"testing"

	"pgregory.net/rapid"
)

func TestVerifC12PSKIdentity(t *testing.T) {
	st := vfNewStats(t, "C12")
	var ids []vfClientSrc
	for _, p := range vfParrots {
		if vfIsPSKParrot(p) {
			ids = append(ids, vfClientSrc{Kind: "parrot", Name: p.Name, ID: p.ID})
		}
	}
	ids = append(ids, vfClientSrc{Kind: "golang", Name: "HelloGolang", ID: HelloGolang})
	rapid.Check(t, func(rt *rapid.T) {
		src := ids[rapid.IntRange(0, len(ids)-1).Draw(rt, "id")]
		sni := vfGenDNSName(rt, "sni")
		cache := NewLRUClientSessionCache(4)
		scfg := vfServerConfig("ecdsa", vfCertNames(sni)...)
		scfg.MinVersion = VersionTLS13
		mk := func() *Config {
			c := vfClientConfig(sni)
			c.OmitEmptyPsk = true
			c.ClientSessionCache = cache
			return c
		}
		st.Eval()
		// connection 1: upstream's server issues a ticket
		p1 := vfNewPair(mk(), src.ID, scfg)
		if cerr, serr := p1.Handshake(); cerr != nil || serr != nil {
			p1.Close()
			st.Class("first-connection-failed")
			return
		}
		if err := p1.Echo([]byte("a"), []byte("b")); err != nil {
			p1.Close()
			return
		}
		p1.Close()
		// connection 2: scripted server that knows the PSK
		k := uint16([]int{0, 1, 1, 1, 2, 3, 255, 65535}[rapid.IntRange(0, 7).Draw(rt, "k")])
		cp, sp := vfPipe()
		uc := UClient(cp, mk(), src.ID)
		srv := Server(sp, scfg)
		s := &vsrvScript{ResumePSK: true, SelectedPSK: &k}
		vsrvInstall(srv, s)
		pair := &vfPair{CP: cp, SP: sp, Cli: uc, Srv: srv}
		cerr, serr := pair.Handshake()
		defer pair.Close()
		n := 0
		if hellos := vfClientHellosOnWire(cp.Written()); len(hellos) > 0 {
			if o := vfParseClientHello(hellos[0]).PSK(); o != nil {
				n = len(o.Identities)
			}
		}
		desc := fmt.Sprintf("%s: resumption hello offers %d PSK identities, scripted server (using the PSK: %v) selects identity %d", src, n, s.UsedPSK, k)
		st.Class(fmt.Sprintf("offered=%d selected=%d", n, k))
		if n == 0 || !s.UsedPSK {
			st.Class("no-psk-offered-or-not-decryptable")
			return
		}
		if int(k) < n {
			// positive control: the offered identity, must resume
			if cerr != nil || serr != nil || !pair.Cli.ConnectionState().DidResume {
				st.Violation(rt, "%s: an offered identity was selected, yet: client err=%v server err=%v didResume=%v log=%v", desc, cerr, serr, pair.Cli.ConnectionState().DidResume, s.Log)
			}
			st.Class("psk-positive-control-resumed")
			return
		}
		cs := pair.Cli.ConnectionState()
		if cerr == nil || cs.HandshakeComplete || s.Completed {
			st.Violation(rt, "%s: the client accepted an identity it never offered (client err=%v, complete=%v didResume=%v; server complete=%v err=%v)", desc, cerr, cs.HandshakeComplete, cs.DidResume, s.Completed, serr)
		}
		st.NonTrivial(fmt.Sprintf("pskid|%s|%d|%d", src.Name, n, k))
		st.Sample(map[string]any{"client": src.String(), "offered": n, "selected": k, "client_error": fmt.Sprint(cerr)})
	})
}
