//go:build verif

package tls

// C21 - compressed server certificates are recovered exactly.

import (
	"bytes"
	"compress/zlib"
	"fmt"
	"io"
	"strings"
	"testing"

	"github.com/andybalholm/brotli"
	"github.com/klauspost/compress/zstd"
	"pgregory.net/rapid"
)

type vf21Enc struct {
	Alg      uint16
	Settings string
	Out      []byte
	Blocks   int // number of flush/frame boundaries + 1
}

type vf21Params struct {
	Alg       uint16
	CutsPM    []int // flush/frame boundaries in per-mille of the message length
	ZLevel    int
	BQuality  int
	BLgwin    int
	SLevel    int
	SWinLog   int
	SMultiFrm bool
	SCRC      bool
}

func vf21GenParams(t *rapid.T, alg uint16) vf21Params {
	p := vf21Params{Alg: alg}
	n := rapid.IntRange(0, 4).Draw(t, "nsplit")
	for i := 0; i < n; i++ {
		p.CutsPM = append(p.CutsPM, rapid.IntRange(1, 999).Draw(t, fmt.Sprintf("cut%d", i)))
	}
	switch alg {
	case 1:
		p.ZLevel = rapid.IntRange(-2, 9).Draw(t, "zlevel")
	case 2:
		p.BQuality = rapid.IntRange(0, 11).Draw(t, "bquality")
		p.BLgwin = rapid.IntRange(10, 24).Draw(t, "blgwin")
	case 3:
		p.SLevel = rapid.IntRange(0, 3).Draw(t, "slevel")
		p.SWinLog = rapid.IntRange(10, 23).Draw(t, "swinlog")
		p.SMultiFrm = rapid.Bool().Draw(t, "smultiframe")
		p.SCRC = rapid.Bool().Draw(t, "scrc")
	}
	return p
}

// vf21Compress encodes m with a drawn encoder configuration and block/flush/frame structure.
func vf21Compress(t *rapid.T, alg uint16, m []byte) vf21Enc {
	return vf21CompressWith(vf21GenParams(t, alg), m)
}

// vf21CompressWith is deterministic in (p, m).
func vf21CompressWith(p vf21Params, m []byte) vf21Enc {
	alg := p.Alg
	if p.SWinLog < 10 {
		p.SWinLog = 17
	}
	if p.BLgwin < 10 {
		p.BLgwin = 18
	}
	var cuts []int
	for _, pm := range p.CutsPM {
		c := len(m) * pm / 1000
		if c >= 1 && c <= len(m)-1 {
			cuts = append(cuts, c)
		}
	}
	for i := range cuts {
		for j := i + 1; j < len(cuts); j++ {
			if cuts[j] < cuts[i] {
				cuts[i], cuts[j] = cuts[j], cuts[i]
			}
		}
	}
	var chunks [][]byte
	prev := 0
	for _, c := range cuts {
		if c > prev {
			chunks = append(chunks, m[prev:c])
			prev = c
		}
	}
	chunks = append(chunks, m[prev:])
	var buf bytes.Buffer
	e := vf21Enc{Alg: alg, Blocks: len(chunks)}
	switch alg {
	case 1: // zlib
		w, err := zlib.NewWriterLevel(&buf, p.ZLevel)
		if err != nil {
			panic(err)
		}
		for i, c := range chunks {
			w.Write(c)
			if i < len(chunks)-1 {
				w.Flush()
			}
		}
		w.Close()
		e.Settings = fmt.Sprintf("zlib level=%d chunks=%d", p.ZLevel, len(chunks))
	case 2: // brotli
		w := brotli.NewWriterOptions(&buf, brotli.WriterOptions{Quality: p.BQuality, LGWin: p.BLgwin})
		for i, c := range chunks {
			w.Write(c)
			if i < len(chunks)-1 {
				w.Flush()
			}
		}
		w.Close()
		e.Settings = fmt.Sprintf("brotli q=%d lgwin=%d chunks=%d", p.BQuality, p.BLgwin, len(chunks))
	case 3: // zstd
		level := []zstd.EncoderLevel{zstd.SpeedFastest, zstd.SpeedDefault, zstd.SpeedBetterCompression, zstd.SpeedBestCompression}[p.SLevel]
		opts := []zstd.EOption{zstd.WithEncoderLevel(level), zstd.WithWindowSize(1 << uint(p.SWinLog)), zstd.WithEncoderCRC(p.SCRC), zstd.WithEncoderConcurrency(1)}
		if p.SMultiFrm {
			for _, c := range chunks {
				w, err := zstd.NewWriter(&buf, opts...)
				if err != nil {
					panic(err)
				}
				w.Write(c)
				w.Close()
			}
		} else {
			w, err := zstd.NewWriter(&buf, opts...)
			if err != nil {
				panic(err)
			}
			for i, c := range chunks {
				w.Write(c)
				if i < len(chunks)-1 {
					w.Flush()
				}
			}
			w.Close()
		}
		e.Settings = fmt.Sprintf("zstd level=%v win=%d multiframe=%v crc=%v chunks=%d", level, 1<<uint(p.SWinLog), p.SMultiFrm, p.SCRC, len(chunks))
	default:
		panic("alg")
	}
	e.Out = buf.Bytes()
	return e
}

// vf21GenCertMsg builds the body of a TLS 1.3 Certificate message (without handshake header) with drawn structure:
// 1-6 certificate entries of drawn sizes, OCSP/SCT extensions on the leaf.
func vf21GenCertMsg(t *rapid.T) (body []byte, desc string) {
	n := rapid.IntRange(1, 6).Draw(t, "ncerts")
	sizeClass := rapid.IntRange(0, 9).Draw(t, "sizeclass")
	maxEach := 2000
	switch {
	case sizeClass >= 9:
		maxEach = 40000 // total up to ~240 KB (beyond maxHandshakeCertificateMsg sometimes: filtered below)
	case sizeClass >= 7:
		maxEach = 12000
	}
	b := &vsrvB{}
	b.vec8(nil) // certificate_request_context
	lst := &vsrvB{}
	total := 0
	for i := 0; i < n; i++ {
		sz := rapid.IntRange(1, maxEach).Draw(t, fmt.Sprintf("certlen%d", i))
		var data []byte
		switch rapid.IntRange(0, 2).Draw(t, fmt.Sprintf("certkind%d", i)) {
		case 0: // compressible
			data = bytes.Repeat([]byte{byte(0x30 + i)}, sz)
		case 1: // structured repetition
			pat := []byte(fmt.Sprintf("cert-%d-common-name-example.test|", i))
			data = bytes.Repeat(pat, sz/len(pat)+1)[:sz]
		default: // incompressible
			data = make([]byte, sz)
			r := vfNewDetRand(uint64(sz*31+i), "cert")
			r.Read(data)
		}
		total += sz
		lst.vec24(data)
		exts := &vsrvB{}
		if i == 0 && rapid.Bool().Draw(t, "ocsp") {
			o := &vsrvB{}
			o.u8(1)
			o.vec24(bytes.Repeat([]byte{0xaa}, rapid.IntRange(1, 600).Draw(t, "ocsplen")))
			exts.u16(5)
			exts.vec16(o.b)
		}
		if i == 0 && rapid.Bool().Draw(t, "sct") {
			sl := &vsrvB{}
			for k := 0; k < rapid.IntRange(1, 3).Draw(t, "nsct"); k++ {
				sl.vec16(bytes.Repeat([]byte{0xbb}, rapid.IntRange(1, 120).Draw(t, fmt.Sprintf("sctlen%d", k))))
			}
			o := &vsrvB{}
			o.vec16(sl.b)
			exts.u16(18)
			exts.vec16(o.b)
		}
		lst.vec16(exts.b)
	}
	b.vec24(lst.b)
	return b.b, fmt.Sprintf("%d certs, %d bytes", n, len(b.b))
}

// vf21Client returns a client connection advertising algs and the peer pipe end (to read alerts from).
func vf21Client(algs []CertCompressionAlgo) (*clientHandshakeStateTLS13, *vfConn, *vfConn) {
	cp, sp := vfPipe()
	uc := UClient(cp, &Config{InsecureSkipVerify: true}, HelloCustom)
	uc.certCompressionAlgs = algs
	uc.Extensions = []TLSExtension{&UtlsCompressCertExtension{Algorithms: algs}}
	hs := &clientHandshakeStateTLS13{c: uc.Conn, uconn: uc}
	return hs, cp, sp
}

// vf21LastAlert returns the description of the last alert record the client wrote (-1 if none).
func vf21LastAlert(cp *vfConn) int {
	recs, _ := vfSplitRecords(cp.Written())
	a := -1
	for _, r := range recs {
		if r.Type == 21 && len(r.Body) == 2 {
			a = int(r.Body[1])
		}
	}
	return a
}

const vf21BadCertificate = 42

func vf21GenAlgs(t *rapid.T) []CertCompressionAlgo {
	all := []CertCompressionAlgo{CertCompressionZlib, CertCompressionBrotli, CertCompressionZstd}
	perm := rapid.Permutation(all).Draw(t, "algperm")
	n := rapid.IntRange(1, 3).Draw(t, "nalgs")
	return perm[:n]
}

func TestVerifC21Direct(t *testing.T) {
	st := vfNewStats(t, "C21")
	rapid.Check(t, func(rt *rapid.T) {
		algs := vf21GenAlgs(rt)
		body, cdesc := vf21GenCertMsg(rt)
		if len(body)+4 > maxHandshakeCertificateMsg {
			st.Class("cert-message-over-handshake-limit")
			return
		}
		alg := uint16(algs[rapid.IntRange(0, len(algs)-1).Draw(rt, "alg")])
		enc := vf21Compress(rt, alg, body)
		fault := []string{"none", "none", "none", "truncate", "flip", "declared-longer", "declared-shorter", "trailing-garbage", "unadvertised"}[rapid.IntRange(0, 8).Draw(rt, "fault")]
		st.Eval()
		declared := uint32(len(body))
		compressed := append([]byte(nil), enc.Out...)
		msgAlg := alg
		detail := ""
		switch fault {
		case "truncate":
			cut := rapid.IntRange(0, len(compressed)-1).Draw(rt, "truncat")
			compressed = compressed[:cut]
			detail = fmt.Sprintf("cut to %d of %d", cut, len(enc.Out))
		case "flip":
			i := rapid.IntRange(0, len(compressed)-1).Draw(rt, "flipat")
			compressed[i] ^= 1 << uint(rapid.IntRange(0, 7).Draw(rt, "flipbit"))
			detail = fmt.Sprintf("bit flipped in byte %d of %d", i, len(compressed))
		case "declared-longer":
			d := rapid.IntRange(1, 70000).Draw(rt, "delta")
			declared += uint32(d)
			detail = fmt.Sprintf("declared %d, actual %d", declared, len(body))
		case "declared-shorter":
			d := rapid.IntRange(1, len(body)).Draw(rt, "delta")
			declared -= uint32(d)
			detail = fmt.Sprintf("declared %d, actual %d", declared, len(body))
		case "trailing-garbage":
			g := rapid.SliceOfN(rapid.Byte(), 1, 40).Draw(rt, "garbage")
			compressed = append(compressed, g...)
			detail = fmt.Sprintf("%d garbage bytes appended", len(g))
		case "unadvertised":
			var other []uint16
			for _, a := range []uint16{1, 2, 3} {
				adv := false
				for _, x := range algs {
					if uint16(x) == a {
						adv = true
					}
				}
				if !adv {
					other = append(other, a)
				}
			}
			if len(other) == 0 {
				other = []uint16{4, 0, 0xffff}
			}
			msgAlg = other[rapid.IntRange(0, len(other)-1).Draw(rt, "otheralg")]
			if msgAlg >= 1 && msgAlg <= 3 {
				compressed = vfCompressCert(msgAlg, body)
			}
			detail = fmt.Sprintf("message uses algorithm %d, advertised %v", msgAlg, algs)
		}
		hs, cp, _ := vf21Client(algs)
		defer cp.Close()
		m := utlsCompressedCertificateMsg{algorithm: msgAlg, uncompressedLength: declared, compressedCertificateMessage: compressed}
		var got *certificateMsgTLS13
		var derr error
		if p := vfCatch(func() { got, derr = hs.decompressCert(m) }); p != nil {
			st.Violation(rt, "decompressCert panicked (%s; %s; fault=%s %s): %v", cdesc, enc.Settings, fault, detail, p.Val)
		}
		alert := vf21LastAlert(cp)
		desc := fmt.Sprintf("%s | %s -> %d bytes | fault=%s %s", cdesc, enc.Settings, len(enc.Out), fault, detail)
		want := vsrvMsg(typeCertificate, body)
		st.Class("alg=" + map[uint16]string{1: "zlib", 2: "brotli", 3: "zstd"}[alg])
		st.Class("fault=" + fault)
		if enc.Blocks > 1 {
			st.Class("multi-block")
		}
		accepted := derr == nil && got != nil
		var gotRaw []byte
		if accepted {
			gotRaw, _ = got.marshal()
		}
		switch fault {
		case "none":
			if !accepted {
				key := "C21:valid-encoding-rejected-short-read"
				if derr != nil && strings.Contains(derr.Error(), "does not match specified len") {
					st.KnownOrViolation(rt, key, "%s: a valid encoding was rejected: %v", desc, derr)
					return
				}
				st.Violation(rt, "%s: a valid encoding was rejected: %v", desc, derr)
			}
			if !bytes.Equal(gotRaw, want) {
				st.Violation(rt, "%s: recovered certificate message differs from the original (%d vs %d bytes)", desc, len(gotRaw), len(want))
			}
		case "unadvertised":
			if accepted {
				st.Violation(rt, "%s: accepted", desc)
			}
			if alert != vf21BadCertificate {
				st.Violation(rt, "%s: rejected with alert %d, want bad_certificate(42)", desc, alert)
			}
		case "declared-longer", "declared-shorter":
			if accepted {
				key := "C21:length-mismatch-accepted"
				st.KnownOrViolation(rt, key, "%s: accepted although the decompressed length differs from the declared length (got message equal to original: %v)", desc, bytes.Equal(gotRaw, want))
				return
			}
			if alert != vf21BadCertificate {
				st.KnownOrViolation(rt, "C21:length-mismatch-wrong-alert", "%s: rejected (%v) with alert %d, want bad_certificate(42)", desc, derr, alert)
				return
			}
		default:
			// truncate, flip, trailing-garbage: the bytes on the wire now are what "the server compressed". The client must
			// either reject, or return exactly what those bytes decode to: the original, or - when the damaged stream is
			// itself a complete valid stream (formats without checksum) - what an independent full decode yields.
			if accepted && !bytes.Equal(gotRaw, want) {
				ref, rerr := vf21RefDecompress(msgAlg, compressed)
				// gotRaw is the re-marshalled parse of what the client decompressed: compare like with like
				refMsg := new(certificateMsgTLS13)
				var refRaw []byte
				if rerr == nil && refMsg.unmarshal(vsrvMsg(typeCertificate, ref)) {
					refRaw, _ = refMsg.marshal()
				}
				if rerr != nil || len(ref) != int(declared) || !bytes.Equal(gotRaw, refRaw) {
					st.KnownOrViolation(rt, "C21:corrupted-stream-yields-different-certificate", "%s: accepted a certificate message that is neither the original nor what a full decode of the damaged stream yields (full decode err=%v)", desc, rerr)
					return
				}
				st.Class("damaged-stream-is-a-valid-encoding-of-another-message")
			}
		}
		if enc.Blocks > 1 || fault != "none" {
			st.NonTrivial(fmt.Sprintf("%d|%s|%d|%s", alg, enc.Settings, len(body)/4096, fault))
		}
		st.Sample(map[string]any{"cert": cdesc, "encoder": enc.Settings, "compressed_len": len(enc.Out), "fault": fault, "detail": detail, "accepted": accepted, "alert": alert})
	})
}

// vf21RefDecompress decodes the whole stream with io.ReadAll (to the end of input, verifying trailers).
func vf21RefDecompress(alg uint16, b []byte) ([]byte, error) {
	switch alg {
	case 1:
		r, err := zlib.NewReader(bytes.NewReader(b))
		if err != nil {
			return nil, err
		}
		defer r.Close()
		return io.ReadAll(r)
	case 2:
		return io.ReadAll(brotli.NewReader(bytes.NewReader(b)))
	case 3:
		r, err := zstd.NewReader(bytes.NewReader(b), zstd.WithDecoderConcurrency(1))
		if err != nil {
			return nil, err
		}
		defer r.Close()
		return io.ReadAll(r)
	}
	return nil, fmt.Errorf("unknown algorithm %d", alg)
}

// Full handshakes through the scripted server: the CompressedCertificate message replaces Certificate, the client
// must recover it, verify the real chain and the transcript (its Finished is checked by the server).
func TestVerifC21Handshake(t *testing.T) {
	st := vfNewStats(t, "C21")
	rapid.Check(t, func(rt *rapid.T) {
		base := []ClientHelloID{HelloChrome_120, HelloChrome_133, HelloSafari_16_0, HelloFirefox_120, HelloChrome_102}[rapid.IntRange(0, 4).Draw(rt, "base")]
		spec, err := UTLSIdToSpec(base)
		if err != nil {
			rt.Fatalf("spec: %v", err)
		}
		algs := vf21GenAlgs(rt)
		found := false
		for i, e := range spec.Extensions {
			if _, ok := e.(*UtlsCompressCertExtension); ok {
				spec.Extensions[i] = &UtlsCompressCertExtension{Algorithms: algs}
				found = true
			}
		}
		if !found {
			// insert before a trailing padding / psk extension
			n := len(spec.Extensions)
			pos := rapid.IntRange(0, n-1).Draw(rt, "inspos")
			spec.Extensions = append(spec.Extensions[:pos], append([]TLSExtension{&UtlsCompressCertExtension{Algorithms: algs}}, spec.Extensions[pos:]...)...)
		}
		src := vfClientSrc{Kind: "custom", Name: "certcomp(" + base.Str() + ")", ID: HelloCustom, Spec: &spec}
		sni := vfGenDNSName(rt, "sni")
		st.Eval()
		prep, err := vfPrepareClient(src, sni, rapid.Uint64().Draw(rt, "randseed"), nil)
		if err != nil {
			st.Violation(rt, "%s: %v", src, err)
		}
		defer prep.CP.Close()
		o := prep.Offer
		if !o.HasVersion(VersionTLS13) || o.PSK {
			return
		}
		// the documented build - edit - handshake sequence: the list advertised is the one in the hello actually sent
		var prevAlgs []CertCompressionAlgo
		if rapid.Bool().Draw(rt, "edit_algorithms_after_build") {
			prevAlgs = algs
			algs = vf21GenAlgs(rt)
			for _, e := range prep.UC.Extensions {
				if ce, ok := e.(*UtlsCompressCertExtension); ok {
					ce.Algorithms = algs
				}
			}
			st.Class("hs-algorithms-edited-after-build")
		}
		alg := uint16(algs[rapid.IntRange(0, len(algs)-1).Draw(rt, "alg")])
		params := vf21GenParams(rt, alg)
		fault := []string{"none", "none", "none", "declared-longer", "declared-shorter", "unadvertised", "truncate"}[rapid.IntRange(0, 6).Draw(rt, "fault")]
		delta := rapid.IntRange(1, 300).Draw(rt, "delta")
		keys := vfCertKeysFor(o, VersionTLS13, "")
		if len(keys) == 0 {
			return
		}
		// chain: leaf + 0..4 copies of the root (real certificates, so the client can parse them), optional staples
		leaf := *vfLeaf(vfLeafSpec{KeyType: keys[rapid.IntRange(0, len(keys)-1).Draw(rt, "cert")], Names: vfCertNames(sni)})
		cert := leaf
		cert.Certificate = append([][]byte{}, leaf.Certificate...)
		for i := rapid.IntRange(0, 4).Draw(rt, "extracerts"); i > 0; i-- {
			cert.Certificate = append(cert.Certificate, vfGetCA("main").Cert.Raw)
		}
		if rapid.Bool().Draw(rt, "ocsp") {
			cert.OCSPStaple = bytes.Repeat([]byte{0xaa}, rapid.IntRange(1, 2000).Draw(rt, "ocsplen"))
		}
		if rapid.Bool().Draw(rt, "scts") {
			cert.SignedCertificateTimestamps = [][]byte{bytes.Repeat([]byte{0xbb}, rapid.IntRange(1, 300).Draw(rt, "sctlen"))}
		}
		var original []byte
		var enc vf21Enc
		msgAlg := alg
		if fault == "unadvertised" {
			adv := map[uint16]bool{}
			for _, a := range algs {
				adv[uint16(a)] = true
			}
			msgAlg = 0
			for _, a := range []uint16{1, 2, 3} {
				if !adv[a] {
					msgAlg = a
				}
			}
			for _, a := range prevAlgs { // preferably one that an earlier build of the hello did list
				if !adv[uint16(a)] {
					msgAlg = uint16(a)
					st.Class("hs-unadvertised-but-listed-before-the-edit")
				}
			}
			if msgAlg == 0 {
				fault = "none"
				msgAlg = alg
			} else {
				params.Alg = msgAlg
			}
		}
		// with or without a CertificateRequest in front of the (compressed) certificate: the transcript order matters
		s := &vsrvScript{Cert: &cert, CompressAlg: msgAlg, CertRequest: rapid.Bool().Draw(rt, "certificate_request")}
		if s.CertRequest {
			st.Class("hs-with-certificate-request")
		}
		s.CompressFn = func(m []byte) ([]byte, uint32) {
			original = append([]byte(nil), m...)
			enc = vf21CompressWith(params, m)
			out, declared := enc.Out, uint32(len(m))
			switch fault {
			case "declared-longer":
				declared += uint32(delta)
			case "declared-shorter":
				d := delta
				if d >= len(m) {
					d = len(m) - 1
				}
				declared -= uint32(d)
			case "truncate":
				out = out[:len(out)*delta/301]
			}
			return out, declared
		}
		scfg := vfServerConfig("ecdsa", vfCertNames(sni)...)
		srv := Server(prep.SP, scfg)
		vsrvInstall(srv, s)
		pair := &vfPair{CP: prep.CP, SP: prep.SP, Cli: prep.UC, Srv: srv}
		cerr, serr := pair.Handshake()
		desc := fmt.Sprintf("%s advertising %v (before an edit: %v) | chain of %d certs, message %d bytes | %s | certreq=%v fault=%s", src, algs, prevAlgs, len(cert.Certificate), len(original), enc.Settings, s.CertRequest, fault)
		st.Class("hs-fault=" + fault)
		st.Class("hs-alg=" + map[uint16]string{1: "zlib", 2: "brotli", 3: "zstd"}[msgAlg])
		if cerr == errVfHang || serr == errVfHang {
			st.Violation(rt, "%s: hang", desc)
		}
		if fault == "none" {
			if cerr != nil || serr != nil || !s.Completed {
				st.Violation(rt, "%s: handshake with a valid CompressedCertificate failed: client err=%v server err=%v", desc, cerr, serr)
			}
			cs := pair.Cli.ConnectionState()
			if len(cs.PeerCertificates) != len(cert.Certificate) || !bytes.Equal(cs.PeerCertificates[0].Raw, leaf.Certificate[0]) {
				st.Violation(rt, "%s: client reports %d peer certificates", desc, len(cs.PeerCertificates))
			}
			if len(cert.OCSPStaple) > 0 && o.Hello.Ext(5) != nil && !bytes.Equal(cs.OCSPResponse, cert.OCSPStaple) {
				st.Violation(rt, "%s: OCSP staple not recovered", desc)
			}
			if err := pair.Echo([]byte("x"), []byte("y")); err != nil {
				st.Violation(rt, "%s: echo: %v", desc, err)
			}
		} else {
			if cerr == nil || s.Completed {
				st.Violation(rt, "%s: accepted", desc)
			}
			if fault != "truncate" {
				// the alert is encrypted under the handshake keys: take it from what the scripted server received
				if serr == nil || !strings.Contains(serr.Error(), "remote error: tls: bad certificate") {
					st.Violation(rt, "%s: client aborted (%v); the server received %v, want the bad_certificate alert", desc, cerr, serr)
				}
			}
		}
		if enc.Blocks > 1 || fault != "none" {
			st.NonTrivial(fmt.Sprintf("hs|%d|%s|%s", msgAlg, enc.Settings, fault))
		}
		st.Sample(map[string]any{"client": src.String(), "algs": fmt.Sprint(algs), "encoder": enc.Settings, "msg_len": len(original), "fault": fault, "client_error": fmt.Sprint(cerr)})
	})
}
