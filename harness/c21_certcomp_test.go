//go:build verif

package tls

// C21 - compressed server certificates are recovered exactly.

import (
	"bytes"
	"compress/zlib"
	"fmt"
	"io"
	"strings"
	"testing"

	"github.com/andybalholm/brotli"
	"github.com/klauspost/compress/zstd"
	"pgregory.net/rapid"
)

type vf21Enc struct {
	Alg      uint16
	Settings string
	Out      []byte
	Blocks   int // number of flush/frame boundaries + 1
}

// vf21Compress encodes m with a drawn encoder configuration and block/flush/frame structure.
func vf21Compress(t *rapid.T, alg uint16, m []byte) vf21Enc {
	// split points
	nsplit := rapid.IntRange(0, 4).Draw(t, "nsplit")
	var cuts []int
	for i := 0; i < nsplit && len(m) > 1; i++ {
		cuts = append(cuts, rapid.IntRange(1, len(m)-1).Draw(t, fmt.Sprintf("cut%d", i)))
	}
	// sort cuts
	for i := range cuts {
		for j := i + 1; j < len(cuts); j++ {
			if cuts[j] < cuts[i] {
				cuts[i], cuts[j] = cuts[j], cuts[i]
			}
		}
	}
	var chunks [][]byte
	prev := 0
	for _, c := range cuts {
		if c > prev {
			chunks = append(chunks, m[prev:c])
			prev = c
		}
	}
	chunks = append(chunks, m[prev:])
	var buf bytes.Buffer
	e := vf21Enc{Alg: alg, Blocks: len(chunks)}
	switch alg {
	case 1: // zlib
		level := rapid.IntRange(-2, 9).Draw(t, "zlevel")
		w, err := zlib.NewWriterLevel(&buf, level)
		if err != nil {
			panic(err)
		}
		for i, c := range chunks {
			w.Write(c)
			if i < len(chunks)-1 {
				w.Flush()
			}
		}
		w.Close()
		e.Settings = fmt.Sprintf("zlib level=%d chunks=%d", level, len(chunks))
	case 2: // brotli
		q := rapid.IntRange(0, 11).Draw(t, "bquality")
		lgwin := rapid.IntRange(10, 24).Draw(t, "blgwin")
		w := brotli.NewWriterOptions(&buf, brotli.WriterOptions{Quality: q, LGWin: lgwin})
		for i, c := range chunks {
			w.Write(c)
			if i < len(chunks)-1 {
				w.Flush()
			}
		}
		w.Close()
		e.Settings = fmt.Sprintf("brotli q=%d lgwin=%d chunks=%d", q, lgwin, len(chunks))
	case 3: // zstd
		level := []zstd.EncoderLevel{zstd.SpeedFastest, zstd.SpeedDefault, zstd.SpeedBetterCompression, zstd.SpeedBestCompression}[rapid.IntRange(0, 3).Draw(t, "slevel")]
		win := 1 << uint(rapid.IntRange(10, 23).Draw(t, "swinlog"))
		multiFrame := rapid.Bool().Draw(t, "smultiframe")
		crc := rapid.Bool().Draw(t, "scrc")
		opts := []zstd.EOption{zstd.WithEncoderLevel(level), zstd.WithWindowSize(win), zstd.WithEncoderCRC(crc), zstd.WithEncoderConcurrency(1)}
		if multiFrame {
			for _, c := range chunks {
				w, err := zstd.NewWriter(&buf, opts...)
				if err != nil {
					panic(err)
				}
				w.Write(c)
				w.Close()
			}
		} else {
			w, err := zstd.NewWriter(&buf, opts...)
			if err != nil {
				panic(err)
			}
			for i, c := range chunks {
				w.Write(c)
				if i < len(chunks)-1 {
					w.Flush()
				}
			}
			w.Close()
		}
		e.Settings = fmt.Sprintf("zstd level=%v win=%d multiframe=%v crc=%v chunks=%d", level, win, multiFrame, crc, len(chunks))
	default:
		panic("alg")
	}
	e.Out = buf.Bytes()
	return e
}

// vf21GenCertMsg builds the body of a TLS 1.3 Certificate message (without handshake header) with drawn structure:
// 1-6 certificate entries of drawn sizes, OCSP/SCT extensions on the leaf.
func vf21GenCertMsg(t *rapid.T) (body []byte, desc string) {
	n := rapid.IntRange(1, 6).Draw(t, "ncerts")
	sizeClass := rapid.IntRange(0, 9).Draw(t, "sizeclass")
	maxEach := 2000
	switch {
	case sizeClass >= 9:
		maxEach = 40000 // total up to ~240 KB (beyond maxHandshakeCertificateMsg sometimes: filtered below)
	case sizeClass >= 7:
		maxEach = 12000
	}
	b := &vsrvB{}
	b.vec8(nil) // certificate_request_context
	lst := &vsrvB{}
	total := 0
	for i := 0; i < n; i++ {
		sz := rapid.IntRange(1, maxEach).Draw(t, fmt.Sprintf("certlen%d", i))
		var data []byte
		switch rapid.IntRange(0, 2).Draw(t, fmt.Sprintf("certkind%d", i)) {
		case 0: // compressible
			data = bytes.Repeat([]byte{byte(0x30 + i)}, sz)
		case 1: // structured repetition
			pat := []byte(fmt.Sprintf("cert-%d-common-name-example.test|", i))
			data = bytes.Repeat(pat, sz/len(pat)+1)[:sz]
		default: // incompressible
			data = make([]byte, sz)
			r := vfNewDetRand(uint64(sz*31+i), "cert")
			r.Read(data)
		}
		total += sz
		lst.vec24(data)
		exts := &vsrvB{}
		if i == 0 && rapid.Bool().Draw(t, "ocsp") {
			o := &vsrvB{}
			o.u8(1)
			o.vec24(bytes.Repeat([]byte{0xaa}, rapid.IntRange(1, 600).Draw(t, "ocsplen")))
			exts.u16(5)
			exts.vec16(o.b)
		}
		if i == 0 && rapid.Bool().Draw(t, "sct") {
			sl := &vsrvB{}
			for k := 0; k < rapid.IntRange(1, 3).Draw(t, "nsct"); k++ {
				sl.vec16(bytes.Repeat([]byte{0xbb}, rapid.IntRange(1, 120).Draw(t, fmt.Sprintf("sctlen%d", k))))
			}
			o := &vsrvB{}
			o.vec16(sl.b)
			exts.u16(18)
			exts.vec16(o.b)
		}
		lst.vec16(exts.b)
	}
	b.vec24(lst.b)
	return b.b, fmt.Sprintf("%d certs, %d bytes", n, len(b.b))
}

// vf21Client returns a client connection advertising algs and the peer pipe end (to read alerts from).
func vf21Client(algs []CertCompressionAlgo) (*clientHandshakeStateTLS13, *vfConn, *vfConn) {
	cp, sp := vfPipe()
	uc := UClient(cp, &Config{InsecureSkipVerify: true}, HelloCustom)
	uc.certCompressionAlgs = algs
	uc.Extensions = []TLSExtension{&UtlsCompressCertExtension{Algorithms: algs}}
	hs := &clientHandshakeStateTLS13{c: uc.Conn, uconn: uc}
	return hs, cp, sp
}

// vf21LastAlert returns the description of the last alert record the client wrote (-1 if none).
func vf21LastAlert(cp *vfConn) int {
	recs, _ := vfSplitRecords(cp.Written())
	a := -1
	for _, r := range recs {
		if r.Type == 21 && len(r.Body) == 2 {
			a = int(r.Body[1])
		}
	}
	return a
}

const vf21BadCertificate = 42

func vf21GenAlgs(t *rapid.T) []CertCompressionAlgo {
	all := []CertCompressionAlgo{CertCompressionZlib, CertCompressionBrotli, CertCompressionZstd}
	perm := rapid.Permutation(all).Draw(t, "algperm")
	n := rapid.IntRange(1, 3).Draw(t, "nalgs")
	return perm[:n]
}

func TestVerifC21Direct(t *testing.T) {
	st := vfNewStats(t, "C21")
	rapid.Check(t, func(rt *rapid.T) {
		algs := vf21GenAlgs(rt)
		body, cdesc := vf21GenCertMsg(rt)
		if len(body)+4 > maxHandshakeCertificateMsg {
			st.Class("cert-message-over-handshake-limit")
			return
		}
		alg := uint16(algs[rapid.IntRange(0, len(algs)-1).Draw(rt, "alg")])
		enc := vf21Compress(rt, alg, body)
		fault := []string{"none", "none", "none", "truncate", "flip", "declared-longer", "declared-shorter", "trailing-garbage", "unadvertised"}[rapid.IntRange(0, 8).Draw(rt, "fault")]
		st.Eval()
		declared := uint32(len(body))
		compressed := append([]byte(nil), enc.Out...)
		msgAlg := alg
		detail := ""
		switch fault {
		case "truncate":
			cut := rapid.IntRange(0, len(compressed)-1).Draw(rt, "truncat")
			compressed = compressed[:cut]
			detail = fmt.Sprintf("cut to %d of %d", cut, len(enc.Out))
		case "flip":
			i := rapid.IntRange(0, len(compressed)-1).Draw(rt, "flipat")
			compressed[i] ^= 1 << uint(rapid.IntRange(0, 7).Draw(rt, "flipbit"))
			detail = fmt.Sprintf("bit flipped in byte %d of %d", i, len(compressed))
		case "declared-longer":
			d := rapid.IntRange(1, 70000).Draw(rt, "delta")
			declared += uint32(d)
			detail = fmt.Sprintf("declared %d, actual %d", declared, len(body))
		case "declared-shorter":
			d := rapid.IntRange(1, len(body)).Draw(rt, "delta")
			declared -= uint32(d)
			detail = fmt.Sprintf("declared %d, actual %d", declared, len(body))
		case "trailing-garbage":
			g := rapid.SliceOfN(rapid.Byte(), 1, 40).Draw(rt, "garbage")
			compressed = append(compressed, g...)
			detail = fmt.Sprintf("%d garbage bytes appended", len(g))
		case "unadvertised":
			var other []uint16
			for _, a := range []uint16{1, 2, 3} {
				adv := false
				for _, x := range algs {
					if uint16(x) == a {
						adv = true
					}
				}
				if !adv {
					other = append(other, a)
				}
			}
			if len(other) == 0 {
				other = []uint16{4, 0, 0xffff}
			}
			msgAlg = other[rapid.IntRange(0, len(other)-1).Draw(rt, "otheralg")]
			if msgAlg >= 1 && msgAlg <= 3 {
				compressed = vfCompressCert(msgAlg, body)
			}
			detail = fmt.Sprintf("message uses algorithm %d, advertised %v", msgAlg, algs)
		}
		hs, cp, _ := vf21Client(algs)
		defer cp.Close()
		m := utlsCompressedCertificateMsg{algorithm: msgAlg, uncompressedLength: declared, compressedCertificateMessage: compressed}
		var got *certificateMsgTLS13
		var derr error
		if p := vfCatch(func() { got, derr = hs.decompressCert(m) }); p != nil {
			st.Violation(rt, "decompressCert panicked (%s; %s; fault=%s %s): %v", cdesc, enc.Settings, fault, detail, p.Val)
		}
		alert := vf21LastAlert(cp)
		desc := fmt.Sprintf("%s | %s -> %d bytes | fault=%s %s", cdesc, enc.Settings, len(enc.Out), fault, detail)
		want := vsrvMsg(typeCertificate, body)
		st.Class("alg=" + map[uint16]string{1: "zlib", 2: "brotli", 3: "zstd"}[alg])
		st.Class("fault=" + fault)
		if enc.Blocks > 1 {
			st.Class("multi-block")
		}
		accepted := derr == nil && got != nil
		var gotRaw []byte
		if accepted {
			gotRaw, _ = got.marshal()
		}
		switch fault {
		case "none":
			if !accepted {
				key := "C21:valid-encoding-rejected-short-read"
				if derr != nil && strings.Contains(derr.Error(), "does not match specified len") {
					st.KnownOrViolation(rt, key, "%s: a valid encoding was rejected: %v", desc, derr)
					return
				}
				st.Violation(rt, "%s: a valid encoding was rejected: %v", desc, derr)
			}
			if !bytes.Equal(gotRaw, want) {
				st.Violation(rt, "%s: recovered certificate message differs from the original (%d vs %d bytes)", desc, len(gotRaw), len(want))
			}
		case "unadvertised":
			if accepted {
				st.Violation(rt, "%s: accepted", desc)
			}
			if alert != vf21BadCertificate {
				st.Violation(rt, "%s: rejected with alert %d, want bad_certificate(42)", desc, alert)
			}
		case "declared-longer", "declared-shorter":
			if accepted {
				key := "C21:length-mismatch-accepted"
				st.KnownOrViolation(rt, key, "%s: accepted although the decompressed length differs from the declared length (got message equal to original: %v)", desc, bytes.Equal(gotRaw, want))
				return
			}
			if alert != vf21BadCertificate {
				st.KnownOrViolation(rt, "C21:length-mismatch-wrong-alert", "%s: rejected (%v) with alert %d, want bad_certificate(42)", desc, derr, alert)
				return
			}
		default:
			// truncate, flip, trailing-garbage: the bytes on the wire now are what "the server compressed". The client must
			// either reject, or return exactly what those bytes decode to: the original, or - when the damaged stream is
			// itself a complete valid stream (formats without checksum) - what an independent full decode yields.
			if accepted && !bytes.Equal(gotRaw, want) {
				ref, rerr := vf21RefDecompress(msgAlg, compressed)
				if rerr != nil || !bytes.Equal(gotRaw, vsrvMsg(typeCertificate, ref)) {
					st.KnownOrViolation(rt, "C21:corrupted-stream-yields-different-certificate", "%s: accepted a certificate message that is neither the original nor what a full decode of the damaged stream yields (full decode err=%v)", desc, rerr)
					return
				}
				st.Class("damaged-stream-is-a-valid-encoding-of-another-message")
			}
		}
		if enc.Blocks > 1 || fault != "none" {
			st.NonTrivial(fmt.Sprintf("%d|%s|%d|%s", alg, enc.Settings, len(body)/4096, fault))
		}
		st.Sample(map[string]any{"cert": cdesc, "encoder": enc.Settings, "compressed_len": len(enc.Out), "fault": fault, "detail": detail, "accepted": accepted, "alert": alert})
	})
}

// vf21RefDecompress decodes the whole stream with io.ReadAll (to the end of input, verifying trailers).
func vf21RefDecompress(alg uint16, b []byte) ([]byte, error) {
	switch alg {
	case 1:
		r, err := zlib.NewReader(bytes.NewReader(b))
		if err != nil {
			return nil, err
		}
		defer r.Close()
		return io.ReadAll(r)
	case 2:
		return io.ReadAll(brotli.NewReader(bytes.NewReader(b)))
	case 3:
		r, err := zstd.NewReader(bytes.NewReader(b), zstd.WithDecoderConcurrency(1))
		if err != nil {
			return nil, err
		}
		defer r.Close()
		return io.ReadAll(r)
	}
	return nil, fmt.Errorf("unknown algorithm %d", alg)
}
