//go:build verif

package tls

// C19 (extension): the session was negotiated with a cipher suite that the fingerprint offers but crypto/tls' own
// default client list leaves out (RSA key exchange, 3DES, CBC-SHA256). What a uTLS hello offers comes from its spec,
// not from Config.CipherSuites: a cached TLS 1.2 session with such a suite is still on offer and must be resumed by the
// second and third connection to the same server.

import (
	"fmt"
	"testing"

	"pgregory.net/rapid"
)

func TestVerifC19SuitesOutsideGoDefaults(t *testing.T) {
	st := vfNewStats(t, "C19")
	type odd struct {
		id  uint16
		key string
	}
	odds := []odd{{TLS_RSA_WITH_AES_128_GCM_SHA256, "rsa"}, {TLS_RSA_WITH_AES_256_GCM_SHA384, "rsa"}, {TLS_RSA_WITH_AES_128_CBC_SHA, "rsa"},
		{TLS_RSA_WITH_AES_256_CBC_SHA, "rsa"}, {TLS_RSA_WITH_3DES_EDE_CBC_SHA, "rsa"}, {TLS_ECDHE_RSA_WITH_3DES_EDE_CBC_SHA, "rsa"},
		{TLS_ECDHE_ECDSA_WITH_AES_128_CBC_SHA256, "ecdsa"}, {TLS_ECDHE_RSA_WITH_AES_128_CBC_SHA256, "rsa"},
		// controls inside the default list
		{TLS_ECDHE_RSA_WITH_AES_128_GCM_SHA256, "rsa"}, {TLS_ECDHE_ECDSA_WITH_AES_128_GCM_SHA256, "ecdsa"}}
	rapid.Check(t, func(rt *rapid.T) {
		p := vfGenParrot(rt, "parrot")
		o := odds[rapid.IntRange(0, len(odds)-1).Draw(rt, "suite")]
		spec, err := UTLSIdToSpec(p.ID)
		if err != nil {
			return
		}
		offered, hasTicket := false, false
		for _, cs := range spec.CipherSuites {
			offered = offered || cs == o.id
		}
		for _, e := range spec.Extensions {
			if _, ok := e.(*SessionTicketExtension); ok {
				hasTicket = true
			}
		}
		st.Eval()
		if !offered || !hasTicket || spec.TLSVersMin > VersionTLS12 {
			st.Class("odd-suite:not-offered-or-no-session_ticket")
			return
		}
		name := "oddsuite.c19.test"
		cache := NewLRUClientSessionCache(4)
		scfg := vfServerConfig(o.key, name)
		scfg.MaxVersion = VersionTLS12
		scfg.CipherSuites = []uint16{o.id}
		for i := 0; i < 3; i++ {
			ccfg := vfClientConfig(name)
			ccfg.ClientSessionCache = cache
			ccfg.OmitEmptyPsk = true
			pair := vfNewPair(ccfg, p.ID, scfg)
			cerr, serr := pair.Handshake()
			if cerr != nil || serr != nil {
				pair.Close()
				st.Class(fmt.Sprintf("odd-suite:handshake-failed(%04x)", o.id)) // C10's business
				return
			}
			if err := pair.Echo([]byte("a"), []byte("b")); err != nil {
				pair.Close()
				st.Violation(rt, "%s vs a TLS 1.2 server with suite %04x only, connection %d: data exchange: %v", p.Name, o.id, i+1, err)
			}
			cs, ss := pair.Cli.ConnectionState(), pair.Srv.ConnectionState()
			offeredTicket := 0
			if hs := vfClientHellosOnWire(pair.CP.Written()); len(hs) > 0 {
				if e := vfParseClientHello(hs[0]).Ext(35); e != nil {
					offeredTicket = len(e.Body)
				}
			}
			pair.Close()
			if cs.CipherSuite != o.id {
				st.Violation(rt, "%s: negotiated %04x with a server that only speaks %04x", p.Name, cs.CipherSuite, o.id)
			}
			if i > 0 && (!cs.DidResume || !ss.DidResume) {
				st.Violation(rt, "%s vs a TLS 1.2 server with suite %04x only: connection %d did not resume the cached session (client DidResume=%v, server DidResume=%v, session_ticket on the wire: %d bytes)",
					p.Name, o.id, i+1, cs.DidResume, ss.DidResume, offeredTicket)
			}
		}
		st.Class(fmt.Sprintf("odd-suite:resumed-twice(%04x)", o.id))
		st.NonTrivial(fmt.Sprintf("odd-suite|%s|%04x", p.Name, o.id))
	})
}
