//go:build verif

package tls

// C08 - every extension's encoder (Len/Read) and decoder (Write) agree.
//
// Oracle: vf08RefEnc, an independent reference encoder (type switch over the exported fields of each built-in
// TLSExtension, RFC-prescribed body, own extension-number table; never calls Len or Read), plus a matcher for the
// one extension whose content is drawn from crypto/rand (GREASE ECH). For TLSExtensionWriter types the body
// produced by Read is decoded with Write into the value ExtensionFromID hands out and encoded again; the result
// must equal the original up to the normalisations the property lists (vf08Norm).

import (
	"bytes"
	"encoding/binary"
	"fmt"
	"io"
	"net"
	"os"
	"path/filepath"
	"reflect"
	"regexp"
	"sort"
	"strings"
	"syscall"
	"testing"

	"pgregory.net/rapid"
)

// ---------------------------------------------------------------------------------------------------------
// reference encoder
// ---------------------------------------------------------------------------------------------------------

// extension numbers from the IANA registry / drafts (deliberately not the package constants)
const (
	vf08ExtSNI          = 0
	vf08ExtStatusReq    = 5
	vf08ExtGroups       = 10
	vf08ExtPoints       = 11
	vf08ExtSigAlgs      = 13
	vf08ExtALPN         = 16
	vf08ExtStatusReqV2  = 17
	vf08ExtSCT          = 18
	vf08ExtPadding      = 21
	vf08ExtEMS          = 23
	vf08ExtTokenBinding = 24
	vf08ExtCompressCert = 27
	vf08ExtRecSizeLimit = 28
	vf08ExtDelegated    = 34
	vf08ExtTicket       = 35
	vf08ExtPSK          = 41
	vf08ExtVersions     = 43
	vf08ExtCookie       = 44
	vf08ExtPSKModes     = 45
	vf08ExtSigAlgsCert  = 50
	vf08ExtKeyShare     = 51
	vf08ExtQUICTP       = 57
	vf08ExtNPN          = 13172
	vf08ExtALPS         = 17513
	vf08ExtALPSNew      = 17613
	vf08ExtChannelIDOld = 30031
	vf08ExtChannelID    = 30032
	vf08ExtECH          = 0xfe0d
	vf08ExtReneg        = 0xff01
	vf08Placeholder     = 0x0a0a
)

// vf08W is a tiny big-endian builder that notices vectors overflowing their length prefix.
type vf08W struct {
	b    []byte
	over bool
}

func (w *vf08W) u8(v int)       { w.b = append(w.b, byte(v)) }
func (w *vf08W) u16(v int)      { w.b = append(w.b, byte(v>>8), byte(v)) }
func (w *vf08W) u32(v uint32)   { w.b = append(w.b, byte(v>>24), byte(v>>16), byte(v>>8), byte(v)) }
func (w *vf08W) raw(p []byte)   { w.b = append(w.b, p...) }
func (w *vf08W) str(s string)   { w.b = append(w.b, s...) }
func (w *vf08W) vec8(p []byte)  { w.lenN(1, len(p)); w.raw(p) }
func (w *vf08W) vec16(p []byte) { w.lenN(2, len(p)); w.raw(p) }
func (w *vf08W) lenN(n, l int) {
	if l >= 1<<(8*uint(n)) {
		w.over = true
	}
	if n == 1 {
		w.u8(l)
	} else {
		w.u16(l)
	}
}

func vf08U16Vec16[E ~uint16](l []E) *vf08W {
	in := &vf08W{}
	for _, v := range l {
		in.u16(int(v))
	}
	out := &vf08W{}
	out.vec16(in.b)
	return out
}

func vf08U16Vec8[E ~uint16](l []E) *vf08W {
	in := &vf08W{}
	for _, v := range l {
		in.u16(int(v))
	}
	out := &vf08W{}
	out.vec8(in.b)
	return out
}

func vf08ProtoVec(protos []string) *vf08W {
	in := &vf08W{}
	for _, p := range protos {
		in.vec8([]byte(p))
	}
	out := &vf08W{over: in.over}
	out.vec16(in.b)
	return out
}

// vf08Ref is what the reference says the extension must put on the wire.
type vf08Ref struct {
	wire    []byte                  // complete extension (type, length, body); nil for a zero-length emitter or a matcher
	zero    bool                    // the value legitimately emits nothing: Len()==0, Read -> (0, zeroErr)
	zeroErr error                   // io.EOF, or ErrEmptyPsk for an empty PSK that is not to be concealed
	match   func(got []byte) string // content not fully determined by the exported fields ("" = acceptable)
	over    bool                    // the value does not fit its wire length prefixes (outside the property's domain)
	unknown bool                    // type not known to the reference
}

func vf08Wrap(typ int, body *vf08W) *vf08Ref {
	w := &vf08W{over: body.over}
	w.u16(typ)
	w.vec16(body.b)
	return &vf08Ref{wire: w.b, over: w.over}
}

// vf08SNIHost: RFC 6066 section 3 - no IP literals, no trailing dot, no empty name.
func vf08SNIHost(name string) string {
	h := name
	if len(h) >= 2 && h[0] == '[' && h[len(h)-1] == ']' {
		h = h[1 : len(h)-1]
	}
	if i := strings.LastIndexByte(h, '%'); i > 0 {
		h = h[:i]
	}
	if net.ParseIP(h) != nil {
		return ""
	}
	return strings.TrimRight(name, ".")
}

func vf08PSKBody(ids []PskIdentity, binders [][]byte) *vf08W {
	idw := &vf08W{}
	for _, id := range ids {
		idw.vec16(id.Label)
		idw.u32(id.ObfuscatedTicketAge)
	}
	bw := &vf08W{}
	for _, b := range binders {
		bw.vec8(b)
	}
	body := &vf08W{over: idw.over || bw.over}
	body.vec16(idw.b)
	body.vec16(bw.b)
	return body
}

// vf08RefEnc: the bytes RFC 8446 / 6066 / 7301 / 7627 / 8879 / 9001 / the drafts prescribe for the value.
func vf08RefEnc(ext TLSExtension) *vf08Ref {
	switch e := ext.(type) {
	case *SNIExtension:
		host := vf08SNIHost(e.ServerName)
		if host == "" {
			return &vf08Ref{zero: true, zeroErr: io.EOF}
		}
		entry := &vf08W{}
		entry.u8(0) // name_type host_name
		entry.vec16([]byte(host))
		body := &vf08W{over: entry.over}
		body.vec16(entry.b)
		return vf08Wrap(vf08ExtSNI, body)
	case *StatusRequestExtension:
		return vf08Wrap(vf08ExtStatusReq, &vf08W{b: []byte{1, 0, 0, 0, 0}})
	case *SupportedCurvesExtension:
		return vf08Wrap(vf08ExtGroups, vf08U16Vec16(e.Curves))
	case *SupportedPointsExtension:
		body := &vf08W{}
		body.vec8(e.SupportedPoints)
		return vf08Wrap(vf08ExtPoints, body)
	case *SignatureAlgorithmsExtension:
		return vf08Wrap(vf08ExtSigAlgs, vf08U16Vec16(e.SupportedSignatureAlgorithms))
	case *StatusRequestV2Extension:
		// CertificateStatusRequestListV2 with one item: type ocsp_multi(2), request length 4, two empty vectors
		return vf08Wrap(vf08ExtStatusReqV2, &vf08W{b: []byte{0, 7, 2, 0, 4, 0, 0, 0, 0}})
	case *SignatureAlgorithmsCertExtension:
		return vf08Wrap(vf08ExtSigAlgsCert, vf08U16Vec16(e.SupportedSignatureAlgorithms))
	case *ALPNExtension:
		return vf08Wrap(vf08ExtALPN, vf08ProtoVec(e.AlpnProtocols))
	case *ApplicationSettingsExtension:
		return vf08Wrap(vf08ExtALPS, vf08ProtoVec(e.SupportedProtocols))
	case *ApplicationSettingsExtensionNew:
		return vf08Wrap(vf08ExtALPSNew, vf08ProtoVec(e.SupportedProtocols))
	case *SCTExtension:
		return vf08Wrap(vf08ExtSCT, &vf08W{})
	case *GenericExtension:
		return vf08Wrap(int(e.Id), &vf08W{b: e.Data})
	case *ExtendedMasterSecretExtension:
		return vf08Wrap(vf08ExtEMS, &vf08W{})
	case *UtlsGREASEExtension:
		return vf08Wrap(int(e.Value), &vf08W{b: e.Body})
	case *UtlsPaddingExtension:
		if !e.WillPad {
			return &vf08Ref{zero: true, zeroErr: io.EOF}
		}
		if e.PaddingLen < 0 {
			return &vf08Ref{over: true}
		}
		return vf08Wrap(vf08ExtPadding, &vf08W{b: make([]byte, e.PaddingLen)})
	case *UtlsCompressCertExtension:
		return vf08Wrap(vf08ExtCompressCert, vf08U16Vec8(e.Algorithms))
	case *KeyShareExtension:
		in := &vf08W{}
		for _, ks := range e.KeyShares {
			in.u16(int(ks.Group))
			in.vec16(ks.Data)
		}
		body := &vf08W{over: in.over}
		body.vec16(in.b)
		return vf08Wrap(vf08ExtKeyShare, body)
	case *QUICTransportParametersExtension:
		// RFC 9000 section 18: sequence of (varint id, varint length, value); ids/values are C24's subject and
		// are taken from the parameters, the framing is rebuilt here with the reference varint codec.
		body := &vf08W{}
		for _, tp := range e.TransportParameters {
			id, val := tp.ID(), tp.Value()
			if vfRefVarintLen(id) < 0 {
				return &vf08Ref{over: true}
			}
			body.raw(vfRefVarintEncode(id, vfRefVarintLen(id)))
			body.raw(vfRefVarintEncode(uint64(len(val)), vfRefVarintLen(uint64(len(val)))))
			body.raw(val)
		}
		return vf08Wrap(vf08ExtQUICTP, body)
	case *PSKKeyExchangeModesExtension:
		body := &vf08W{}
		body.vec8(e.Modes)
		return vf08Wrap(vf08ExtPSKModes, body)
	case *SupportedVersionsExtension:
		return vf08Wrap(vf08ExtVersions, vf08U16Vec8(e.Versions))
	case *CookieExtension:
		body := &vf08W{}
		body.vec16(e.Cookie)
		return vf08Wrap(vf08ExtCookie, body)
	case *NPNExtension:
		return vf08Wrap(vf08ExtNPN, &vf08W{})
	case *RenegotiationInfoExtension:
		body := &vf08W{}
		body.vec8(e.RenegotiatedConnection)
		return vf08Wrap(vf08ExtReneg, body)
	case *FakeChannelIDExtension:
		if e.OldExtensionID {
			return vf08Wrap(vf08ExtChannelIDOld, &vf08W{})
		}
		return vf08Wrap(vf08ExtChannelID, &vf08W{})
	case *FakeRecordSizeLimitExtension:
		body := &vf08W{}
		body.u16(int(e.Limit))
		return vf08Wrap(vf08ExtRecSizeLimit, body)
	case *FakeTokenBindingExtension:
		body := &vf08W{}
		body.u8(int(e.MajorVersion))
		body.u8(int(e.MinorVersion))
		body.vec8(e.KeyParameters)
		return vf08Wrap(vf08ExtTokenBinding, body)
	case *FakeDelegatedCredentialsExtension:
		return vf08Wrap(vf08ExtDelegated, vf08U16Vec16(e.SupportedSignatureAlgorithms))
	case *SessionTicketExtension:
		return vf08Wrap(vf08ExtTicket, &vf08W{b: e.Ticket})
	case *UtlsPreSharedKeyExtension:
		zerr := error(ErrEmptyPsk)
		if e.OmitEmptyPsk {
			zerr = io.EOF
		}
		if e.Session == nil || len(e.Identities) == 0 || len(e.Binders) == 0 {
			return &vf08Ref{zero: true, zeroErr: zerr}
		}
		return vf08Wrap(vf08ExtPSK, vf08PSKBody(e.Identities, e.Binders))
	case *FakePreSharedKeyExtension:
		zerr := error(ErrEmptyPsk)
		if e.OmitEmptyPsk {
			zerr = io.EOF
		}
		if len(e.Identities) == 0 || len(e.Binders) == 0 {
			return &vf08Ref{zero: true, zeroErr: zerr}
		}
		return vf08Wrap(vf08ExtPSK, vf08PSKBody(e.Identities, e.Binders))
	case *GREASEEncryptedClientHelloExtension:
		return vf08RefECH(e)
	}
	return &vf08Ref{unknown: true}
}

type vf08ECHWire struct {
	kdf, aead    uint16
	configID     uint8
	enc, payload []byte
}

// vf08ParseECH parses an outer encrypted_client_hello extension (draft-ietf-tls-esni-17 section 5) strictly.
func vf08ParseECH(got []byte) (*vf08ECHWire, string) {
	if len(got) < 4 || binary.BigEndian.Uint16(got) != vf08ExtECH {
		return nil, "not an encrypted_client_hello extension"
	}
	if int(binary.BigEndian.Uint16(got[2:])) != len(got)-4 {
		return nil, fmt.Sprintf("extension length field %d != body %d", binary.BigEndian.Uint16(got[2:]), len(got)-4)
	}
	b := got[4:]
	if len(b) < 1+4+1+2 || b[0] != 0 {
		return nil, "body too short or type != outer(0)"
	}
	w := &vf08ECHWire{kdf: binary.BigEndian.Uint16(b[1:]), aead: binary.BigEndian.Uint16(b[3:]), configID: b[5]}
	b = b[6:]
	n := int(binary.BigEndian.Uint16(b))
	if len(b) < 2+n+2 {
		return nil, "enc length prefix exceeds body"
	}
	w.enc = b[2 : 2+n]
	b = b[2+n:]
	n = int(binary.BigEndian.Uint16(b))
	if len(b) != 2+n {
		return nil, fmt.Sprintf("payload length prefix %d != remaining %d", n, len(b)-2)
	}
	w.payload = b[2:]
	return w, ""
}

// vf08RefECH: config id, enc and payload come from crypto/rand, the suite and the payload length from a random
// pick among the candidates: the reference is a matcher over the exported fields.
func vf08RefECH(e *GREASEEncryptedClientHelloExtension) *vf08Ref {
	// snapshot of the exported fields *before* the first Len() (init fills EncapsulatedKey/CandidatePayloadLens)
	suites := append([]HPKESymmetricCipherSuite(nil), e.CandidateCipherSuites...)
	ids := append([]uint8(nil), e.CandidateConfigIds...)
	enc := append([]byte(nil), e.EncapsulatedKey...)
	plens := append([]uint16(nil), e.CandidatePayloadLens...)
	encLen := len(enc)
	if encLen == 0 {
		encLen = 32 // generated
	}
	for _, p := range append([]uint16{128}, plens...) {
		if int(p)+16 > 0xffff || 1+4+1+2+encLen+2+int(p)+16 > 0xffff {
			return &vf08Ref{over: true}
		}
	}
	return &vf08Ref{match: func(got []byte) string {
		w, msg := vf08ParseECH(got)
		if msg != "" {
			return msg
		}
		if len(suites) == 0 {
			if w.kdf != 1 || w.aead != 1 { // HKDF-SHA256 / AES-128-GCM
				return fmt.Sprintf("no candidate suites: expected the default (1,1), got (%d,%d)", w.kdf, w.aead)
			}
		} else {
			ok := false
			for _, s := range suites {
				if s.KdfId == w.kdf && s.AeadId == w.aead {
					ok = true
				}
			}
			if !ok {
				return fmt.Sprintf("suite (%d,%d) is not one of the candidates %v", w.kdf, w.aead, suites)
			}
		}
		if len(ids) > 0 && bytes.IndexByte(ids, w.configID) < 0 {
			return fmt.Sprintf("config id %d is not one of the candidates %v", w.configID, ids)
		}
		if len(enc) > 0 {
			if !bytes.Equal(enc, w.enc) {
				return "enc differs from EncapsulatedKey"
			}
		} else if len(w.enc) != 32 { // X25519 encapsulated key
			return fmt.Sprintf("generated enc has %d bytes, want 32", len(w.enc))
		}
		if len(plens) == 0 {
			plens = []uint16{128}
		}
		ok := false
		for _, p := range plens {
			if len(w.payload) == int(p)+16 {
				ok = true
			}
		}
		if !ok {
			return fmt.Sprintf("payload of %d bytes is not candidate+16 for any of %v", len(w.payload), plens)
		}
		return ""
	}}
}

// vf08UnGREASE maps a GREASE value to the placeholder (reference predicate from the shared parser).
func vf08UnGREASE(v uint16) uint16 {
	if vfIsGREASE(v) {
		return vf08Placeholder
	}
	return v
}

func vf08UnGREASEList[E ~uint16](l []E) []E {
	out := make([]E, len(l))
	for i, v := range l {
		out[i] = E(vf08UnGREASE(uint16(v)))
	}
	return out
}

// vf08Norm returns a copy of the value with the normalisations the property allows a Write->Read round trip to
// apply: GREASE values -> placeholder; non-GREASE key-share data, SNI name, ticket dropped; renegotiation-info
// and real-PSK bodies ignored; padding left to the policy. (ECH-GREASE is compared by sizes separately.)
func vf08Norm(ext TLSExtension) TLSExtension {
	switch e := ext.(type) {
	case *SNIExtension:
		return &SNIExtension{}
	case *SupportedCurvesExtension:
		return &SupportedCurvesExtension{Curves: vf08UnGREASEList(e.Curves)}
	case *SignatureAlgorithmsExtension:
		return &SignatureAlgorithmsExtension{SupportedSignatureAlgorithms: vf08UnGREASEList(e.SupportedSignatureAlgorithms)}
	case *SignatureAlgorithmsCertExtension:
		return &SignatureAlgorithmsCertExtension{SupportedSignatureAlgorithms: vf08UnGREASEList(e.SupportedSignatureAlgorithms)}
	case *FakeDelegatedCredentialsExtension:
		return &FakeDelegatedCredentialsExtension{SupportedSignatureAlgorithms: vf08UnGREASEList(e.SupportedSignatureAlgorithms)}
	case *SupportedVersionsExtension:
		return &SupportedVersionsExtension{Versions: vf08UnGREASEList(e.Versions)}
	case *UtlsCompressCertExtension:
		return &UtlsCompressCertExtension{Algorithms: vf08UnGREASEList(e.Algorithms)}
	case *UtlsGREASEExtension:
		return &UtlsGREASEExtension{Value: vf08UnGREASE(e.Value), Body: e.Body}
	case *KeyShareExtension:
		out := &KeyShareExtension{}
		for _, ks := range e.KeyShares {
			g := vf08UnGREASE(uint16(ks.Group))
			if g == vf08Placeholder {
				out.KeyShares = append(out.KeyShares, KeyShare{Group: CurveID(g), Data: ks.Data})
			} else {
				out.KeyShares = append(out.KeyShares, KeyShare{Group: CurveID(g)})
			}
		}
		return out
	case *SessionTicketExtension:
		return &SessionTicketExtension{}
	case *RenegotiationInfoExtension:
		return &RenegotiationInfoExtension{}
	case *UtlsPreSharedKeyExtension:
		return &UtlsPreSharedKeyExtension{OmitEmptyPsk: true}
	case *UtlsPaddingExtension:
		return &UtlsPaddingExtension{}
	}
	return ext
}

// ---------------------------------------------------------------------------------------------------------
// the check proper
// ---------------------------------------------------------------------------------------------------------

type vf08Case struct {
	ext      TLSExtension
	typ      string
	sizes    []int  // size vector of the variable-length fields
	belowMin bool   // below the minimum the RFC grammar (and therefore Write) insists on: Write may reject the body
	variable bool   // encoding depends on drawn fields (non-triviality rule)
	note     string // extra class
}

func vf08TypeName(ext TLSExtension) string {
	return strings.TrimPrefix(reflect.TypeOf(ext).String(), "*tls.")
}

// vf08BufSizes: every shorter size when Len <= 64, otherwise a boundary sample plus the drawn extras.
func vf08BufSizes(L int, extra []int) []int {
	var out []int
	if L <= 64 {
		for i := 0; i < L; i++ {
			out = append(out, i)
		}
		return out
	}
	seen := map[int]bool{}
	for _, s := range append([]int{0, 1, 2, 3, 4, 5, 6, 7, 8, 9, L / 2, L - 5, L - 4, L - 3, L - 2, L - 1}, extra...) {
		if s >= 0 && s < L && !seen[s] {
			seen[s] = true
			out = append(out, s)
		}
	}
	return out
}

// vf08CheckValue checks Len/Read/short-buffer behaviour of one value against the reference and returns the
// bytes the extension put on the wire (nil for a zero-length emitter).
func vf08CheckValue(st *vfStats, t vfFataler, ext TLSExtension, ctx string, extra []int, k int) []byte {
	t.Helper()
	name := vf08TypeName(ext)
	ref := vf08RefEnc(ext) // before the first Len(): snapshots exported fields of lazily initialised types
	if ref.unknown {
		st.Violation(t, "%s%s: the harness' reference encoder does not know this type", ctx, name)
	}
	if ref.over {
		return nil // outside wire limits (generators avoid this; nothing is claimed)
	}
	var L int
	if p := vfCatch(func() { L = ext.Len() }); p != nil {
		st.Violation(t, "%s%s.Len() panicked: %v", ctx, name, p.Val)
	}
	if ref.zero {
		if L != 0 {
			st.Violation(t, "%s%s emits nothing for this value but Len()=%d", ctx, name, L)
		}
		for _, sz := range []int{0, 1, 4, 64} {
			buf := make([]byte, sz)
			var n int
			var err error
			if p := vfCatch(func() { n, err = ext.Read(buf) }); p != nil {
				st.Violation(t, "%s%s.Read(%d-byte buffer) panicked: %v", ctx, name, sz, p.Val)
			}
			if n != 0 || err != ref.zeroErr {
				st.Violation(t, "%s%s (zero-length emitter).Read(%d-byte buffer) = (%d, %v), want (0, %v)", ctx, name, sz, n, err, ref.zeroErr)
			}
		}
		st.Class("zero-length-emitter")
		return nil
	}
	if ref.match == nil && L != len(ref.wire) {
		st.Violation(t, "%s%s.Len()=%d but the value encodes to %d bytes (%s)", ctx, name, L, len(ref.wire), vfHex(ref.wire))
	}
	if L < 4 {
		st.Violation(t, "%s%s.Len()=%d for a value that must be emitted", ctx, name, L)
	}
	// shorter buffers first: they must not yield anything
	if L <= 64 {
		st.Class("buffers:exhaustive(len<=64)")
	} else {
		st.Class("buffers:sampled(len>64)")
	}
	for _, sz := range vf08BufSizes(L, extra) {
		buf := make([]byte, sz)
		var n int
		var err error
		if p := vfCatch(func() { n, err = ext.Read(buf) }); p != nil {
			st.Violation(t, "%s%s.Read(%d of %d bytes) panicked: %v", ctx, name, sz, L, p.Val)
		}
		if n != 0 || err != io.ErrShortBuffer {
			st.Violation(t, "%s%s.Read(buffer of %d, Len()=%d) = (%d, %v), want (0, io.ErrShortBuffer)", ctx, name, sz, L, n, err)
		}
	}
	// exact buffer
	full := make([]byte, L)
	var n int
	var err error
	if p := vfCatch(func() { n, err = ext.Read(full) }); p != nil {
		st.Violation(t, "%s%s.Read(exact %d bytes) panicked: %v", ctx, name, L, p.Val)
	}
	if n != L || err != io.EOF {
		st.Violation(t, "%s%s.Read(exact buffer) = (%d, %v), want (Len()=%d, io.EOF)", ctx, name, n, err, L)
	}
	if int(binary.BigEndian.Uint16(full[2:])) != L-4 {
		st.Violation(t, "%s%s: extension length field %d != Len()-4 = %d", ctx, name, binary.BigEndian.Uint16(full[2:]), L-4)
	}
	if ref.match != nil {
		if msg := ref.match(full); msg != "" {
			st.Violation(t, "%s%s: %s; wire=%s", ctx, name, msg, vfHex(full))
		}
	} else if !bytes.Equal(full, ref.wire) {
		st.Violation(t, "%s%s: Read produced %s, the fields encode to %s", ctx, name, vf08Diff(full, ref.wire), vfHex(ref.wire))
	}
	// longer buffer: same bytes, same count
	long := make([]byte, L+k)
	if p := vfCatch(func() { n, err = ext.Read(long) }); p != nil {
		st.Violation(t, "%s%s.Read(%d bytes, Len()=%d) panicked: %v", ctx, name, L+k, L, p.Val)
	}
	if n != L || err != io.EOF {
		st.Violation(t, "%s%s.Read(longer buffer, +%d) = (%d, %v), want (%d, io.EOF)", ctx, name, k, n, err, L)
	}
	if !bytes.Equal(long[:L], full) {
		st.Violation(t, "%s%s: Read into a longer buffer produced different bytes: %s", ctx, name, vf08Diff(long[:L], full))
	}
	if L2 := ext.Len(); L2 != L {
		st.Violation(t, "%s%s.Len() changed from %d to %d across Read calls", ctx, name, L, L2)
	}
	return full
}

func vf08Diff(got, want []byte) string {
	i := 0
	for i < len(got) && i < len(want) && got[i] == want[i] {
		i++
	}
	lo := i - 4
	if lo < 0 {
		lo = 0
	}
	hi := func(b []byte) int {
		if i+8 < len(b) {
			return i + 8
		}
		return len(b)
	}
	return fmt.Sprintf("[%d bytes, first difference at offset %d: got ..%x.. want ..%x..]", len(got), i, got[lo:hi(got)], want[lo:hi(want)])
}

// vf08RefBoringPadding: BoringSSL's ClientHello padding rule (t1_lib.c, ext_padding_add_clienthello).
func vf08RefBoringPadding(unpadded int) (int, bool) {
	if unpadded > 0xff && unpadded < 0x200 {
		p := 0x200 - unpadded
		if p >= 5 {
			return p - 4, true
		}
		return 1, true
	}
	return 0, false
}

// vf08RoundTrip decodes wire (produced by orig.Read) with Write into the value the library hands out for that
// extension number and checks the re-encoding.
func vf08RoundTrip(st *vfStats, t vfFataler, c *vf08Case, wire []byte, unpadded int, extra []int, k int) {
	t.Helper()
	orig := c.ext
	if _, ok := orig.(TLSExtensionWriter); !ok {
		st.Class("no-Write-method")
		return
	}
	id := binary.BigEndian.Uint16(wire)
	var fresh TLSExtension
	switch orig.(type) {
	case *UtlsPreSharedKeyExtension:
		fresh = &UtlsPreSharedKeyExtension{} // ReadTLSExtensions chooses real/fake itself
	case *FakePreSharedKeyExtension:
		fresh = &FakePreSharedKeyExtension{}
	default:
		fresh = ExtensionFromID(id)
	}
	if fresh == nil || reflect.TypeOf(fresh) != reflect.TypeOf(orig) {
		if _, isG := orig.(*UtlsGREASEExtension); isG && !vfIsGREASE(id) {
			st.Class("grease-ext-with-non-grease-id(no-round-trip)")
			return
		}
		st.Violation(t, "%s: ExtensionFromID(%d) = %T, cannot decode what %T emitted", c.typ, id, fresh, orig)
	}
	w := fresh.(TLSExtensionWriter)
	body := append([]byte(nil), wire[4:]...)
	var err error
	if p := vfCatch(func() { _, err = w.Write(body) }); p != nil {
		st.Violation(t, "%s.Write(%s) panicked: %v", c.typ, vfHex(body), p.Val)
	}
	if !bytes.Equal(body, wire[4:]) {
		st.Violation(t, "%s.Write modified its input", c.typ)
	}
	if err != nil {
		if c.belowMin {
			st.Class("roundtrip:write-rejects-below-rfc-minimum")
			return
		}
		st.Violation(t, "%s.Write rejected a body its own Read produced (%s): %v", c.typ, vfHex(body), err)
	}
	ctx := "after Write: "
	switch d := fresh.(type) {
	case *UtlsPaddingExtension:
		// padding is recomputed by policy: nothing until Update, then BoringSSL's rule
		if d.GetPaddingLen == nil {
			st.Violation(t, "UtlsPaddingExtension.Write left no padding policy")
		}
		if got := vf08CheckValue(st, t, d, ctx+"(before Update) ", extra, k); got != nil {
			st.Violation(t, "UtlsPaddingExtension emits %d bytes after Write before any Update", len(got))
		}
		d.Update(unpadded)
		wl, wp := vf08RefBoringPadding(unpadded)
		if d.WillPad != wp || (wp && d.PaddingLen != wl) {
			st.Violation(t, "padding policy after Write: Update(%d) -> (%d,%v), BoringSSL rule gives (%d,%v)", unpadded, d.PaddingLen, d.WillPad, wl, wp)
		}
		vf08CheckValue(st, t, d, ctx+"(after Update) ", extra, k)
		st.Class("roundtrip-ok")
		return
	case *GREASEEncryptedClientHelloExtension:
		ow, _ := vf08ParseECH(wire)
		got := vf08CheckValue(st, t, d, ctx, extra, k)
		nw, msg := vf08ParseECH(got)
		if msg != "" {
			st.Violation(t, "GREASE ECH re-encoding does not parse: %s", msg)
		}
		if nw.kdf != ow.kdf || nw.aead != ow.aead || len(nw.enc) != len(ow.enc) || len(nw.payload) != len(ow.payload) {
			st.Violation(t, "GREASE ECH round trip: (kdf %d aead %d enc %dB payload %dB) became (kdf %d aead %d enc %dB payload %dB)",
				ow.kdf, ow.aead, len(ow.enc), len(ow.payload), nw.kdf, nw.aead, len(nw.enc), len(nw.payload))
		}
		st.Class("roundtrip-ok")
		return
	case *UtlsPreSharedKeyExtension:
		d.SetOmitEmptyPsk(true)
	}
	vf08CheckValue(st, t, fresh, ctx, extra, k)
	a, b := vf08RefEnc(vf08Norm(orig)), vf08RefEnc(vf08Norm(fresh))
	if a.zero != b.zero || !bytes.Equal(a.wire, b.wire) {
		st.Violation(t, "%s round trip: %s decoded and re-encoded gives %s; normalised forms differ: %s", c.typ, vfHex(wire),
			vfHex(vf08RefEnc(fresh).wire), vf08Diff(b.wire, a.wire))
	}
	st.Class("roundtrip-ok")
	// the same body decoded into a receiver that already holds content (here: the value that produced it - an
	// application re-using an extension object, or decoding captured bytes into the extension of a parrot spec):
	// decoding replaces what the receiver held, so the re-encoding is still the body's
	if _, isPSK := orig.(*UtlsPreSharedKeyExtension); isPSK {
		return
	}
	if p := vfCatch(func() { _, err = orig.(TLSExtensionWriter).Write(body) }); p != nil {
		st.Violation(t, "%s.Write(%s) into a populated receiver panicked: %v", c.typ, vfHex(body), p.Val)
	}
	if err != nil {
		st.Violation(t, "%s.Write into a populated receiver rejected a body its own Read produced (%s): %v", c.typ, vfHex(body), err)
	}
	if b2 := vf08RefEnc(vf08Norm(orig)); a.zero != b2.zero || !bytes.Equal(a.wire, b2.wire) {
		st.Violation(t, "%s round trip into a populated receiver (the value that produced the body): %s decoded and re-encoded gives %s; normalised forms differ: %s",
			c.typ, vfHex(wire), vfHex(vf08RefEnc(orig).wire), vf08Diff(b2.wire, a.wire))
	}
	st.Class("roundtrip-populated-receiver-ok")
}

// ---------------------------------------------------------------------------------------------------------
// generators
// ---------------------------------------------------------------------------------------------------------

func vf08Clamp(v, lo, hi int) int {
	if v < lo {
		return lo
	}
	if v > hi {
		return hi
	}
	return v
}

// vf08Size draws a length in [lo,hi] with bias to both ends and to the 8-bit carry points.
func vf08Size(t *rapid.T, label string, lo, hi int) int {
	if hi <= lo {
		return lo
	}
	switch rapid.IntRange(0, 11).Draw(t, label+"_k") {
	case 0:
		return lo
	case 1:
		return vf08Clamp(lo+1, lo, hi)
	case 2:
		return hi
	case 3:
		return vf08Clamp(hi-1, lo, hi)
	case 4:
		return vf08Clamp([]int{126, 127, 128, 129, 254, 255, 256, 257}[rapid.IntRange(0, 7).Draw(t, label+"_c")], lo, hi)
	case 5:
		return rapid.IntRange(lo, hi).Draw(t, label+"_u")
	default:
		return rapid.IntRange(lo, vf08Clamp(lo+12, lo, hi)).Draw(t, label+"_s")
	}
}

// vf08Bytes: n bytes; short ones drawn byte by byte, long ones from a drawn 16-byte pattern (rapid is slow and
// shrinks badly on 64 KiB slices; the content of a long opaque field is irrelevant to the framing).
func vf08Bytes(t *rapid.T, label string, n int) []byte {
	if n <= 24 {
		return rapid.SliceOfN(rapid.Byte(), n, n).Draw(t, label)
	}
	pat := rapid.SliceOfN(rapid.Byte(), 16, 16).Draw(t, label+"_pat")
	out := make([]byte, n)
	for i := range out {
		out[i] = pat[i%16] + byte(i>>4)
	}
	return out
}

var vf08U16Pool = []uint16{0x0a0a, 0x1a1a, 0x2a2a, 0x7a7a, 0xaaaa, 0xfafa, // GREASE
	0x0a0b, 0x0a1a, 0x1a0a, 0x0b0b, 0x0a00, 0x000a, // near misses
	0x001d, 0x0017, 0x0018, 0x11ec, 0x6399, 0x0304, 0x0303, 0x0403, 0x0804, 0x0001, 0x0002, 0x0000, 0xffff, 0x00ff, 0xff00, 0x0100}

func vf08U16(t *rapid.T, label string) uint16 {
	if rapid.IntRange(0, 3).Draw(t, label+"_k") == 0 {
		return rapid.Uint16().Draw(t, label+"_r")
	}
	return vf08U16Pool[rapid.IntRange(0, len(vf08U16Pool)-1).Draw(t, label+"_p")]
}

// vf08U16s: n values; long lists cycle through a small drawn palette.
func vf08U16s[E ~uint16](t *rapid.T, label string, n int) []E {
	out := make([]E, n)
	if n <= 12 {
		for i := range out {
			out[i] = E(vf08U16(t, fmt.Sprintf("%s%d", label, i)))
		}
		return out
	}
	pal := make([]uint16, 7)
	for i := range pal {
		pal[i] = vf08U16(t, fmt.Sprintf("%s_pal%d", label, i))
	}
	for i := range out {
		out[i] = E(pal[(i*3+i/7)%7] + uint16(i/7)&0xff00)
	}
	return out
}

func vf08HasGREASE[E ~uint16](l []E) bool {
	for _, v := range l {
		if vfIsGREASE(uint16(v)) {
			return true
		}
	}
	return false
}

// vf08Protos draws a protocol-name list whose vector fits in 16 bits.
func vf08Protos(t *rapid.T, label string) (protos []string, belowMin bool, sizes []int) {
	n := vf08Size(t, label+"_n", 0, 40)
	budget := 65533
	for i := 0; i < n; i++ {
		lo := 1
		if rapid.IntRange(0, 29).Draw(t, fmt.Sprintf("%s_empty%d", label, i)) == 0 {
			lo = 0
		}
		l := vf08Size(t, fmt.Sprintf("%s_l%d", label, i), lo, 255)
		if 1+l > budget {
			break
		}
		budget -= 1 + l
		if l == 0 {
			belowMin = true
		}
		protos = append(protos, string(vf08Bytes(t, fmt.Sprintf("%s_p%d", label, i), l)))
		sizes = append(sizes, l)
	}
	if rapid.IntRange(0, 19).Draw(t, label+"_fill") == 0 { // fill the vector to its 16-bit limit
		for budget >= 1 {
			l := vf08Clamp(budget-1, 0, 255)
			if l == 0 {
				break
			}
			protos = append(protos, strings.Repeat("x", l))
			sizes = append(sizes, l)
			budget -= 1 + l
		}
	}
	if len(protos) == 0 {
		belowMin = true
	}
	return
}

func vf08GenPskIdentities(t *rapid.T, label string, budget *int) (ids []PskIdentity, sizes []int) {
	n := rapid.IntRange(0, 4).Draw(t, label+"_n")
	for i := 0; i < n; i++ {
		hi := vf08Clamp(*budget-6, 0, 65535)
		if *budget < 6 {
			break
		}
		l := vf08Size(t, fmt.Sprintf("%s_l%d", label, i), 0, hi)
		if l > 2000 && i < n-1 {
			l = l % 2000 // leave room for the others
		}
		*budget -= 6 + l
		ids = append(ids, PskIdentity{Label: vf08Bytes(t, fmt.Sprintf("%s_id%d", label, i), l), ObfuscatedTicketAge: rapid.Uint32().Draw(t, fmt.Sprintf("%s_age%d", label, i))})
		sizes = append(sizes, l)
	}
	return
}

var vf08SNINames = []string{"", ".", "...", "a", "example.com", "example.com.", "example.com..", "xn--nxasmq6b.test", "1.2.3.4", "127.0.0.1",
	"::1", "[::1]", "2001:db8::1", "[2001:db8::1]", "fe80::1%eth0", "[fe80::1%25eth0]", "a.b", "A.B.C", "localhost", "1.2.3", "256.1.1.1"}

type vf08Gen struct {
	name string
	gen  func(t *rapid.T) *vf08Case
}

func vf08SigList(t *rapid.T) ([]SignatureScheme, bool, []int) {
	n := vf08Size(t, "n", 0, 32766)
	return vf08U16s[SignatureScheme](t, "v", n), n == 0, []int{n}
}

var vf08Gens = []vf08Gen{
	{"SNIExtension", func(t *rapid.T) *vf08Case {
		var name string
		switch rapid.IntRange(0, 3).Draw(t, "kind") {
		case 0:
			name = vf08SNINames[rapid.IntRange(0, len(vf08SNINames)-1).Draw(t, "fixed")]
		case 1:
			name = vfDNSNameOfLen(vf08Size(t, "len", 1, 253), byte('a'+rapid.IntRange(0, 25).Draw(t, "fill")))
			name += strings.Repeat(".", rapid.IntRange(0, 2).Draw(t, "dots"))
		case 2: // wire-legal but longer than any DNS name
			name = vfDNSNameOfLen(vf08Size(t, "biglen", 254, 65535-9), 'z')
		default:
			name = vfGenDNSName(t, "dns")
		}
		return &vf08Case{ext: &SNIExtension{ServerName: name}, sizes: []int{len(name)}, variable: true}
	}},
	{"StatusRequestExtension", func(t *rapid.T) *vf08Case { return &vf08Case{ext: &StatusRequestExtension{}} }},
	{"SupportedCurvesExtension", func(t *rapid.T) *vf08Case {
		n := vf08Size(t, "n", 0, 32766)
		l := vf08U16s[CurveID](t, "v", n)
		return &vf08Case{ext: &SupportedCurvesExtension{Curves: l}, sizes: []int{n}, belowMin: n == 0, variable: true}
	}},
	{"SupportedPointsExtension", func(t *rapid.T) *vf08Case {
		n := vf08Size(t, "n", 0, 255)
		return &vf08Case{ext: &SupportedPointsExtension{SupportedPoints: vf08Bytes(t, "v", n)}, sizes: []int{n}, belowMin: n == 0, variable: true}
	}},
	{"SignatureAlgorithmsExtension", func(t *rapid.T) *vf08Case {
		l, bm, sz := vf08SigList(t)
		return &vf08Case{ext: &SignatureAlgorithmsExtension{SupportedSignatureAlgorithms: l}, sizes: sz, belowMin: bm, variable: true}
	}},
	{"StatusRequestV2Extension", func(t *rapid.T) *vf08Case { return &vf08Case{ext: &StatusRequestV2Extension{}} }},
	{"SignatureAlgorithmsCertExtension", func(t *rapid.T) *vf08Case {
		l, bm, sz := vf08SigList(t)
		return &vf08Case{ext: &SignatureAlgorithmsCertExtension{SupportedSignatureAlgorithms: l}, sizes: sz, belowMin: bm, variable: true}
	}},
	{"ALPNExtension", func(t *rapid.T) *vf08Case {
		p, bm, sz := vf08Protos(t, "p")
		return &vf08Case{ext: &ALPNExtension{AlpnProtocols: p}, sizes: sz, belowMin: bm, variable: true}
	}},
	{"ApplicationSettingsExtension", func(t *rapid.T) *vf08Case {
		p, bm, sz := vf08Protos(t, "p")
		return &vf08Case{ext: &ApplicationSettingsExtension{SupportedProtocols: p}, sizes: sz, belowMin: bm, variable: true}
	}},
	{"ApplicationSettingsExtensionNew", func(t *rapid.T) *vf08Case {
		p, bm, sz := vf08Protos(t, "p")
		return &vf08Case{ext: &ApplicationSettingsExtensionNew{SupportedProtocols: p}, sizes: sz, belowMin: bm, variable: true}
	}},
	{"SCTExtension", func(t *rapid.T) *vf08Case { return &vf08Case{ext: &SCTExtension{}} }},
	{"GenericExtension", func(t *rapid.T) *vf08Case {
		n := vf08Size(t, "n", 0, 65535)
		return &vf08Case{ext: &GenericExtension{Id: vf08U16(t, "id"), Data: vf08Bytes(t, "d", n)}, sizes: []int{n}, variable: true}
	}},
	{"ExtendedMasterSecretExtension", func(t *rapid.T) *vf08Case { return &vf08Case{ext: &ExtendedMasterSecretExtension{}} }},
	{"UtlsGREASEExtension", func(t *rapid.T) *vf08Case {
		n := vf08Size(t, "n", 0, 65535)
		v := uint16(rapid.IntRange(0, 15).Draw(t, "g"))*0x1010 + 0x0a0a
		if rapid.IntRange(0, 9).Draw(t, "nongrease") == 0 {
			v = vf08U16(t, "id")
		}
		return &vf08Case{ext: &UtlsGREASEExtension{Value: v, Body: vf08Bytes(t, "d", n)}, sizes: []int{n}, variable: true}
	}},
	{"UtlsPaddingExtension", func(t *rapid.T) *vf08Case {
		n := vf08Size(t, "n", 0, 65535)
		e := &UtlsPaddingExtension{PaddingLen: n, WillPad: rapid.IntRange(0, 4).Draw(t, "willpad") != 0}
		switch rapid.IntRange(0, 2).Draw(t, "policy") { // the policy must not matter until Update is called
		case 1:
			e.GetPaddingLen = BoringPaddingStyle
		case 2:
			e.GetPaddingLen = AlwaysPadToLen(rapid.IntRange(0, 2000).Draw(t, "padto"))
		}
		return &vf08Case{ext: e, sizes: []int{n}, variable: true}
	}},
	{"UtlsCompressCertExtension", func(t *rapid.T) *vf08Case {
		n := vf08Size(t, "n", 0, 127)
		return &vf08Case{ext: &UtlsCompressCertExtension{Algorithms: vf08U16s[CertCompressionAlgo](t, "v", n)}, sizes: []int{n}, variable: true}
	}},
	{"KeyShareExtension", func(t *rapid.T) *vf08Case {
		n := vf08Size(t, "n", 0, 12)
		budget := 65533
		c := &vf08Case{variable: true}
		e := &KeyShareExtension{}
		for i := 0; i < n && budget >= 4; i++ {
			lo := 1
			if rapid.IntRange(0, 19).Draw(t, fmt.Sprintf("empty%d", i)) == 0 {
				lo = 0
			}
			var l int
			switch rapid.IntRange(0, 5).Draw(t, fmt.Sprintf("lk%d", i)) {
			case 0:
				l = vf08Size(t, fmt.Sprintf("l%d", i), lo, budget-4)
			case 1:
				l = []int{32, 65, 97, 133, 1184, 1216}[rapid.IntRange(0, 5).Draw(t, fmt.Sprintf("real%d", i))]
			default:
				l = rapid.IntRange(lo, 40).Draw(t, fmt.Sprintf("small%d", i))
			}
			l = vf08Clamp(l, 0, budget-4)
			if l > 3000 && i < n-1 {
				l %= 3000
			}
			if l == 0 {
				c.belowMin = true
			}
			budget -= 4 + l
			e.KeyShares = append(e.KeyShares, KeyShare{Group: CurveID(vf08U16(t, fmt.Sprintf("g%d", i))), Data: vf08Bytes(t, fmt.Sprintf("d%d", i), l)})
			c.sizes = append(c.sizes, l)
		}
		if rapid.IntRange(0, 9).Draw(t, "nilshares") == 0 && len(e.KeyShares) == 0 {
			e.KeyShares = nil
		}
		c.ext = e
		return c
	}},
	{"QUICTransportParametersExtension", func(t *rapid.T) *vf08Case {
		n := rapid.IntRange(0, 8).Draw(t, "n")
		e := &QUICTransportParametersExtension{}
		c := &vf08Case{variable: true}
		for i := 0; i < n; i++ {
			var tp TransportParameter
			switch rapid.IntRange(0, 6).Draw(t, fmt.Sprintf("k%d", i)) {
			case 0:
				tp = MaxIdleTimeout(rapid.Uint64Range(0, 1<<62-1).Draw(t, fmt.Sprintf("v%d", i)))
			case 1:
				tp = InitialMaxData(rapid.Uint64Range(0, 1<<62-1).Draw(t, fmt.Sprintf("v%d", i)))
			case 2:
				tp = &DisableActiveMigration{}
			case 3:
				tp = InitialSourceConnectionID(vf08Bytes(t, fmt.Sprintf("cid%d", i), rapid.IntRange(0, 20).Draw(t, fmt.Sprintf("cl%d", i))))
			case 4:
				tp = &GREASETransportParameter{Length: uint16(rapid.IntRange(0, 70).Draw(t, fmt.Sprintf("gl%d", i)))}
			case 5:
				tp = PaddingTransportParameter(make([]byte, vf08Size(t, fmt.Sprintf("pad%d", i), 0, 5000)))
			default:
				l := vf08Size(t, fmt.Sprintf("fl%d", i), 0, 5000)
				tp = &FakeQUICTransportParameter{Id: rapid.Uint64Range(1, 1<<62-1).Draw(t, fmt.Sprintf("fid%d", i)), Val: vf08Bytes(t, fmt.Sprintf("fv%d", i), l)}
			}
			e.TransportParameters = append(e.TransportParameters, tp)
			c.sizes = append(c.sizes, len(tp.Value()))
		}
		c.ext = e
		return c
	}},
	{"PSKKeyExchangeModesExtension", func(t *rapid.T) *vf08Case {
		n := vf08Size(t, "n", 0, 255)
		return &vf08Case{ext: &PSKKeyExchangeModesExtension{Modes: vf08Bytes(t, "v", n)}, sizes: []int{n}, variable: true}
	}},
	{"SupportedVersionsExtension", func(t *rapid.T) *vf08Case {
		n := vf08Size(t, "n", 0, 127)
		return &vf08Case{ext: &SupportedVersionsExtension{Versions: vf08U16s[uint16](t, "v", n)}, sizes: []int{n}, belowMin: n == 0, variable: true}
	}},
	{"CookieExtension", func(t *rapid.T) *vf08Case {
		n := vf08Size(t, "n", 0, 65533)
		return &vf08Case{ext: &CookieExtension{Cookie: vf08Bytes(t, "v", n)}, sizes: []int{n}, variable: true}
	}},
	{"NPNExtension", func(t *rapid.T) *vf08Case {
		return &vf08Case{ext: &NPNExtension{NextProtos: rapid.SliceOfN(rapid.SampledFrom([]string{"h2", "http/1.1", "spdy/3.1", ""}), 0, 3).Draw(t, "np")}}
	}},
	{"RenegotiationInfoExtension", func(t *rapid.T) *vf08Case {
		n := vf08Size(t, "n", 0, 255)
		mode := []RenegotiationSupport{RenegotiateNever, RenegotiateOnceAsClient, RenegotiateFreelyAsClient}[rapid.IntRange(0, 2).Draw(t, "mode")]
		return &vf08Case{ext: &RenegotiationInfoExtension{Renegotiation: mode, RenegotiatedConnection: vf08Bytes(t, "v", n)}, sizes: []int{n}, variable: true}
	}},
	{"FakeChannelIDExtension", func(t *rapid.T) *vf08Case {
		old := rapid.Bool().Draw(t, "old")
		return &vf08Case{ext: &FakeChannelIDExtension{OldExtensionID: old}, sizes: []int{map[bool]int{false: 0, true: 1}[old]}, variable: true}
	}},
	{"FakeRecordSizeLimitExtension", func(t *rapid.T) *vf08Case {
		v := vf08U16(t, "limit")
		return &vf08Case{ext: &FakeRecordSizeLimitExtension{Limit: v}, sizes: []int{int(v)}, variable: true}
	}},
	{"FakeTokenBindingExtension", func(t *rapid.T) *vf08Case {
		n := vf08Size(t, "n", 0, 255)
		return &vf08Case{ext: &FakeTokenBindingExtension{MajorVersion: rapid.Byte().Draw(t, "maj"), MinorVersion: rapid.Byte().Draw(t, "min"),
			KeyParameters: vf08Bytes(t, "kp", n)}, sizes: []int{n}, variable: true}
	}},
	{"FakeDelegatedCredentialsExtension", func(t *rapid.T) *vf08Case {
		l, bm, sz := vf08SigList(t)
		return &vf08Case{ext: &FakeDelegatedCredentialsExtension{SupportedSignatureAlgorithms: l}, sizes: sz, belowMin: bm, variable: true}
	}},
	{"SessionTicketExtension", func(t *rapid.T) *vf08Case {
		n := vf08Size(t, "n", 0, 65535)
		e := &SessionTicketExtension{Ticket: vf08Bytes(t, "v", n), Initialized: rapid.Bool().Draw(t, "init")}
		if e.Initialized {
			e.Session = &SessionState{version: VersionTLS12}
		}
		if n == 0 && rapid.Bool().Draw(t, "nil") {
			e.Ticket = nil
		}
		return &vf08Case{ext: e, sizes: []int{n}, variable: true}
	}},
	{"UtlsPreSharedKeyExtension", func(t *rapid.T) *vf08Case {
		e := &UtlsPreSharedKeyExtension{OmitEmptyPsk: rapid.Bool().Draw(t, "omit")}
		c := &vf08Case{ext: e, variable: true}
		budget := 65535 - 4
		switch rapid.IntRange(0, 3).Draw(t, "kind") {
		case 0: // never initialised
			c.note = "psk:uninitialised"
		case 1, 2: // initialised the way loadSession does it
			suite := []uint16{TLS_AES_128_GCM_SHA256, TLS_AES_256_GCM_SHA384, TLS_CHACHA20_POLY1305_SHA256}[rapid.IntRange(0, 2).Draw(t, "suite")]
			b := budget - 49*4
			ids, sz := vf08GenPskIdentities(t, "ids", &b)
			e.InitializeByUtls(&SessionState{version: VersionTLS13, cipherSuite: suite}, vf08Bytes(t, "es", 32), vf08Bytes(t, "bk", 32), ids)
			c.sizes = sz
			c.note = "psk:InitializeByUtls"
		default: // initialised through the exported fields
			e.Session = &SessionState{version: VersionTLS13, cipherSuite: TLS_AES_128_GCM_SHA256}
			nb := rapid.IntRange(0, 3).Draw(t, "nb")
			for i := 0; i < nb; i++ {
				l := vf08Size(t, fmt.Sprintf("bl%d", i), 0, 255)
				e.Binders = append(e.Binders, vf08Bytes(t, fmt.Sprintf("b%d", i), l))
				budget -= 1 + l
				c.sizes = append(c.sizes, l)
			}
			ids, sz := vf08GenPskIdentities(t, "ids", &budget)
			e.Identities = ids
			c.sizes = append(c.sizes, sz...)
			c.note = "psk:exported-fields"
		}
		return c
	}},
	{"FakePreSharedKeyExtension", func(t *rapid.T) *vf08Case {
		e := &FakePreSharedKeyExtension{OmitEmptyPsk: rapid.Bool().Draw(t, "omit")}
		c := &vf08Case{ext: e, variable: true}
		budget := 65535 - 4
		nb := rapid.IntRange(0, 4).Draw(t, "nb")
		for i := 0; i < nb; i++ {
			l := []int{32, 48}[rapid.IntRange(0, 1).Draw(t, fmt.Sprintf("bl%d", i))]
			e.Binders = append(e.Binders, vf08Bytes(t, fmt.Sprintf("b%d", i), l))
			budget -= 1 + l
			c.sizes = append(c.sizes, l)
		}
		ids, sz := vf08GenPskIdentities(t, "ids", &budget)
		e.Identities = ids
		c.sizes = append(c.sizes, sz...)
		if len(ids) != len(e.Binders) {
			c.note = "psk:identities!=binders"
		}
		return c
	}},
	{"GREASEEncryptedClientHelloExtension", func(t *rapid.T) *vf08Case {
		e := &GREASEEncryptedClientHelloExtension{}
		c := &vf08Case{ext: e, variable: true}
		ns := rapid.IntRange(0, 3).Draw(t, "ns")
		for i := 0; i < ns; i++ {
			kdf := uint16(rapid.IntRange(1, 3).Draw(t, fmt.Sprintf("kdf%d", i)))
			if rapid.IntRange(0, 14).Draw(t, fmt.Sprintf("oddkdf%d", i)) == 0 {
				kdf = vf08U16(t, fmt.Sprintf("kdfv%d", i))
				if kdf < 1 || kdf > 3 {
					c.belowMin = true // a KDF outside the registry: Write refuses to fingerprint it
				}
			}
			e.CandidateCipherSuites = append(e.CandidateCipherSuites, HPKESymmetricCipherSuite{KdfId: kdf, AeadId: uint16(rapid.IntRange(1, 3).Draw(t, fmt.Sprintf("aead%d", i)))})
		}
		e.CandidateConfigIds = rapid.SliceOfN(rapid.Byte(), 0, 3).Draw(t, "cfg")
		encLen := 0
		if rapid.Bool().Draw(t, "hasenc") {
			encLen = vf08Size(t, "enc", 1, 30000)
			e.EncapsulatedKey = vf08Bytes(t, "encv", encLen)
		}
		np := rapid.IntRange(0, 3).Draw(t, "np")
		effEnc := encLen
		if effEnc == 0 {
			effEnc = 32 // the library generates an X25519 encapsulated key
		}
		maxp := 65535 - (1 + 4 + 1 + 2 + effEnc + 2) - 16
		for i := 0; i < np; i++ {
			p := vf08Size(t, fmt.Sprintf("p%d", i), 0, maxp)
			e.CandidatePayloadLens = append(e.CandidatePayloadLens, uint16(p))
			c.sizes = append(c.sizes, p)
		}
		c.sizes = append(c.sizes, encLen, ns, len(e.CandidateConfigIds))
		return c
	}},
}

// ---------------------------------------------------------------------------------------------------------
// tests
// ---------------------------------------------------------------------------------------------------------

func vf08SizeKey(typ string, sizes []int) string {
	return fmt.Sprintf("%s:%v", typ, sizes)
}

func vf08RunCase(st *vfStats, t vfFataler, c *vf08Case, unpadded int, extra []int, k int) {
	t.Helper()
	c.typ = vf08TypeName(c.ext)
	st.Eval()
	st.Class("type:" + c.typ)
	if c.note != "" {
		st.Class(c.note)
	}
	if c.variable {
		st.NonTrivial(vf08SizeKey(c.typ, c.sizes))
	}
	if c.belowMin {
		st.Class("below-rfc-minimum(write-may-reject)")
	}
	for _, s := range c.sizes {
		if s >= 65000 {
			st.Class("size>=65000")
			break
		}
	}
	wire := vf08CheckValue(st, t, c.ext, "", extra, k)
	if wire == nil {
		return
	}
	st.Sample(map[string]any{"type": c.typ, "sizes": fmt.Sprint(c.sizes), "wire": vfHex(wire)})
	vf08RoundTrip(st, t, c, wire, unpadded, extra, k)
}

func TestVerifC08Extensions(t *testing.T) {
	st := vfNewStats(t, "C08")
	for _, g := range vf08Gens {
		g := g
		t.Run(g.name, func(tt *testing.T) {
			rapid.Check(tt, func(rt *rapid.T) {
				c := g.gen(rt)
				if got := vf08TypeName(c.ext); got != g.name {
					rt.Fatalf("harness: generator %s produced %s", g.name, got)
				}
				unpadded := rapid.IntRange(0, 1200).Draw(rt, "unpadded")
				if rapid.Bool().Draw(rt, "unpadded_window") {
					unpadded = rapid.IntRange(250, 520).Draw(rt, "unpadded_w")
				}
				extra := rapid.SliceOfN(rapid.IntRange(0, 70000), 0, 4).Draw(rt, "bufsizes")
				k := rapid.IntRange(1, 40).Draw(rt, "longer_by")
				vf08RunCase(st, rt, c, unpadded, extra, k)
			})
		})
	}
}

// vf08Directed: deterministic boundary values per type (also the place where every class is hit on every run).
func vf08DirectedCases() []*vf08Case {
	u16s := func(n int) []uint16 {
		out := make([]uint16, n)
		for i := range out {
			out[i] = vf08U16Pool[(i*5)%len(vf08U16Pool)]
		}
		return out
	}
	conv := func(n int) []SignatureScheme {
		out := make([]SignatureScheme, n)
		for i, v := range u16s(n) {
			out[i] = SignatureScheme(v)
		}
		return out
	}
	curves := func(n int) []CurveID {
		out := make([]CurveID, n)
		for i, v := range u16s(n) {
			out[i] = CurveID(v)
		}
		return out
	}
	algs := func(n int) []CertCompressionAlgo {
		out := make([]CertCompressionAlgo, n)
		for i, v := range u16s(n) {
			out[i] = CertCompressionAlgo(v)
		}
		return out
	}
	fill := func(n int) []byte {
		out := make([]byte, n)
		for i := range out {
			out[i] = byte(i*7 + 1)
		}
		return out
	}
	var cs []*vf08Case
	add := func(e TLSExtension, belowMin bool, sizes ...int) {
		cs = append(cs, &vf08Case{ext: e, belowMin: belowMin, sizes: sizes, variable: true})
	}
	for _, n := range []int{0, 1, 2, 126, 127, 128, 254, 255, 256, 32765, 32766} {
		add(&SupportedCurvesExtension{Curves: curves(n)}, n == 0, n)
		add(&SignatureAlgorithmsExtension{SupportedSignatureAlgorithms: conv(n)}, n == 0, n)
		add(&SignatureAlgorithmsCertExtension{SupportedSignatureAlgorithms: conv(n)}, n == 0, n)
		add(&FakeDelegatedCredentialsExtension{SupportedSignatureAlgorithms: conv(n)}, n == 0, n)
	}
	for _, n := range []int{0, 1, 2, 63, 64, 126, 127} {
		add(&SupportedVersionsExtension{Versions: u16s(n)}, n == 0, n)
		add(&UtlsCompressCertExtension{Algorithms: algs(n)}, false, n)
	}
	for _, n := range []int{0, 1, 2, 127, 128, 254, 255} {
		add(&SupportedPointsExtension{SupportedPoints: fill(n)}, n == 0, n)
		add(&PSKKeyExchangeModesExtension{Modes: fill(n)}, false, n)
		add(&RenegotiationInfoExtension{RenegotiatedConnection: fill(n)}, false, n)
		add(&FakeTokenBindingExtension{MajorVersion: 1, MinorVersion: 0, KeyParameters: fill(n)}, false, n)
	}
	for _, n := range []int{0, 1, 250, 251, 252, 255, 256, 257, 65531, 65532, 65533} {
		add(&CookieExtension{Cookie: fill(n)}, false, n)
	}
	for _, n := range []int{0, 1, 251, 252, 255, 256, 65534, 65535} {
		add(&GenericExtension{Id: 0x1234, Data: fill(n)}, false, n)
		add(&UtlsGREASEExtension{Value: 0x3a3a, Body: fill(n)}, false, n)
		add(&SessionTicketExtension{Ticket: fill(n)}, false, n)
		add(&UtlsPaddingExtension{PaddingLen: n, WillPad: true}, false, n)
		add(&UtlsPaddingExtension{PaddingLen: n, WillPad: false}, false, n)
	}
	for _, n := range []int{1, 2, 245, 246, 247, 250, 251, 253, 65526} {
		add(&SNIExtension{ServerName: vfDNSNameOfLen(n, 'q')}, false, n)
	}
	for _, name := range vf08SNINames {
		add(&SNIExtension{ServerName: name}, false, len(name))
	}
	for _, ps := range [][]string{nil, {}, {"h2"}, {"h2", "http/1.1"}, {strings.Repeat("a", 255)}, {strings.Repeat("a", 249)}, {strings.Repeat("a", 250)}, {strings.Repeat("a", 252)}, {""}, {"h2", ""}} {
		bm := len(ps) == 0
		var sz []int
		for _, p := range ps {
			sz = append(sz, len(p))
			if p == "" {
				bm = true
			}
		}
		add(&ALPNExtension{AlpnProtocols: ps}, bm, sz...)
		add(&ApplicationSettingsExtension{SupportedProtocols: ps}, bm, sz...)
		add(&ApplicationSettingsExtensionNew{SupportedProtocols: ps}, bm, sz...)
	}
	{ // protocol vector filled to exactly 65533 and to one below
		for _, last := range []int{254, 253} {
			var ps []string
			total := 0
			for total+256 <= 65533-1-last {
				ps = append(ps, strings.Repeat("p", 255))
				total += 256
			}
			rest := 65533 - total - (1 + last)
			for rest > 0 {
				l := vf08Clamp(rest-1, 1, 255)
				ps = append(ps, strings.Repeat("r", l))
				rest -= 1 + l
			}
			ps = append(ps, strings.Repeat("l", last))
			add(&ALPNExtension{AlpnProtocols: ps}, false, len(ps), last)
		}
	}
	for _, ks := range [][]KeyShare{nil, {}, {{Group: X25519, Data: fill(32)}}, {{Group: 0x4a4a, Data: []byte{0}}, {Group: X25519, Data: fill(32)}},
		{{Group: 0x0a0a, Data: fill(1)}, {Group: X25519MLKEM768, Data: fill(1216)}, {Group: X25519, Data: fill(32)}},
		{{Group: CurveP256, Data: fill(65)}, {Group: CurveP384, Data: fill(97)}, {Group: CurveP521, Data: fill(133)}},
		{{Group: X25519, Data: fill(252)}}, {{Group: X25519, Data: fill(250)}}, {{Group: X25519, Data: fill(256)}}, {{Group: 0xfafa, Data: fill(65529)}},
		{{Group: X25519, Data: nil}}, {{Group: 0x1a1a, Data: fill(3)}, {Group: 0x2a2a, Data: nil}}} {
		bm := false
		var sz []int
		for _, k := range ks {
			sz = append(sz, len(k.Data))
			if len(k.Data) == 0 {
				bm = true
			}
		}
		add(&KeyShareExtension{KeyShares: ks}, bm, sz...)
	}
	for _, l := range []uint16{0, 1, 0x0a0a, 0x4000, 0xffff} {
		add(&FakeRecordSizeLimitExtension{Limit: l}, false, int(l))
	}
	add(&FakeChannelIDExtension{}, false, 0)
	add(&FakeChannelIDExtension{OldExtensionID: true}, false, 1)
	for _, e := range []TLSExtension{&StatusRequestExtension{}, &StatusRequestV2Extension{}, &SCTExtension{}, &ExtendedMasterSecretExtension{}, &NPNExtension{NextProtos: []string{"h2"}}} {
		cs = append(cs, &vf08Case{ext: e})
	}
	// PSK
	id := func(n int, age uint32) PskIdentity { return PskIdentity{Label: fill(n), ObfuscatedTicketAge: age} }
	for _, omit := range []bool{false, true} {
		add(&FakePreSharedKeyExtension{OmitEmptyPsk: omit}, false)
		add(&FakePreSharedKeyExtension{OmitEmptyPsk: omit, Identities: []PskIdentity{id(10, 1)}}, false, 10)
		add(&FakePreSharedKeyExtension{OmitEmptyPsk: omit, Binders: [][]byte{fill(32)}}, false, 32)
		add(&FakePreSharedKeyExtension{OmitEmptyPsk: omit, Identities: []PskIdentity{id(138, 0xdeadbeef)}, Binders: [][]byte{fill(32)}}, false, 138, 32)
		add(&FakePreSharedKeyExtension{OmitEmptyPsk: omit, Identities: []PskIdentity{id(0, 0), id(250, 1<<31)}, Binders: [][]byte{fill(48), fill(32), fill(48)}}, false, 0, 250, 48, 32, 48)
		add(&FakePreSharedKeyExtension{OmitEmptyPsk: omit, Identities: []PskIdentity{id(65492, 7)}, Binders: [][]byte{fill(32)}}, false, 65492, 32)
		add(&UtlsPreSharedKeyExtension{OmitEmptyPsk: omit}, false)
		u := &UtlsPreSharedKeyExtension{OmitEmptyPsk: omit}
		u.InitializeByUtls(&SessionState{version: VersionTLS13, cipherSuite: TLS_AES_256_GCM_SHA384}, fill(48), fill(48), []PskIdentity{id(200, 99)})
		add(u, false, 200, 48)
		u2 := &UtlsPreSharedKeyExtension{OmitEmptyPsk: omit}
		u2.InitializeByUtls(&SessionState{version: VersionTLS13, cipherSuite: TLS_AES_128_GCM_SHA256}, fill(32), fill(32), nil)
		add(u2, false, 0)
	}
	// GREASE ECH
	add(&GREASEEncryptedClientHelloExtension{}, false, 0)
	add(BoringGREASEECH(), false, 4)
	add(&GREASEEncryptedClientHelloExtension{CandidateCipherSuites: []HPKESymmetricCipherSuite{{KdfId: 2, AeadId: 3}}, CandidateConfigIds: []uint8{7}, EncapsulatedKey: fill(32), CandidatePayloadLens: []uint16{0}}, false, 32, 0)
	add(&GREASEEncryptedClientHelloExtension{CandidateCipherSuites: []HPKESymmetricCipherSuite{{KdfId: 3, AeadId: 2}}, EncapsulatedKey: fill(1), CandidatePayloadLens: []uint16{65535 - 11 - 16 - 1 - 4}}, false, 1, 65535-11-16)
	add(&GREASEEncryptedClientHelloExtension{CandidateCipherSuites: []HPKESymmetricCipherSuite{{KdfId: 1, AeadId: 1}}, EncapsulatedKey: fill(300), CandidatePayloadLens: []uint16{240, 239, 241}}, false, 300, 240)
	// QUIC transport parameters
	add(&QUICTransportParametersExtension{}, false, 0)
	add(&QUICTransportParametersExtension{TransportParameters: TransportParameters{InitialMaxData(63), InitialMaxData(64), MaxIdleTimeout(16383), MaxIdleTimeout(16384),
		&FakeQUICTransportParameter{Id: 0x3fffffffffffffff, Val: fill(64)}, PaddingTransportParameter(make([]byte, 16384))}}, false, 6)
	return cs
}

func TestVerifC08Directed(t *testing.T) {
	st := vfNewStats(t, "C08")
	for i, c := range vf08DirectedCases() {
		st.Class("directed")
		unps := []int{300}
		if _, isPad := c.ext.(*UtlsPaddingExtension); isPad {
			unps = []int{0, 255, 256, 300, 507, 508, 511, 512}
		}
		for _, unpadded := range unps {
			cc := *c
			vf08RunCase(st, t, &cc, unpadded, []int{10, 100, 1000, 10000, 65535}, 1+i%7)
		}
	}
	// exhaustive buffer sweep for one mid-size value per variable-length type (all sizes 0..Len-1)
	mid := []TLSExtension{
		&SNIExtension{ServerName: vfDNSNameOfLen(200, 'm')},
		&ALPNExtension{AlpnProtocols: []string{"h2", "http/1.1", strings.Repeat("z", 200)}},
		&KeyShareExtension{KeyShares: []KeyShare{{Group: 0x0a0a, Data: []byte{0}}, {Group: X25519MLKEM768, Data: make([]byte, 1216)}, {Group: X25519, Data: make([]byte, 32)}}},
		&FakePreSharedKeyExtension{Identities: []PskIdentity{{Label: make([]byte, 300), ObfuscatedTicketAge: 5}}, Binders: [][]byte{make([]byte, 32)}},
		BoringGREASEECH(),
		&UtlsPaddingExtension{PaddingLen: 300, WillPad: true},
		&SessionTicketExtension{Ticket: make([]byte, 260)},
		&CookieExtension{Cookie: make([]byte, 260)},
		&SupportedCurvesExtension{Curves: make([]CurveID, 130)},
	}
	for _, e := range mid {
		L := e.Len()
		all := make([]int, L)
		for i := range all {
			all[i] = i
		}
		st.Eval()
		st.Class("directed:exhaustive-buffer-sweep")
		vf08CheckValue(st, t, e, "sweep: ", all, 3)
	}
}

// The set of built-in extension types is read from the source tree under test: a type the reference does not
// know makes the run inconclusive instead of silently unchecked.
func TestVerifC08TypeListComplete(t *testing.T) {
	st := vfNewStats(t, "C08")
	repo := os.Getenv("VERIF_REPO")
	if repo == "" {
		repo = "/repo"
	}
	files, _ := filepath.Glob(filepath.Join(repo, "*.go"))
	re := regexp.MustCompile(`(?m)^func \((?:\w+ )?\*?(\w+)\) writeToUConn\(`)
	found := map[string]bool{}
	for _, f := range files {
		if strings.HasSuffix(f, "_test.go") {
			continue
		}
		src, err := os.ReadFile(f)
		if err != nil {
			continue
		}
		for _, m := range re.FindAllSubmatch(src, -1) {
			found[string(m[1])] = true
		}
	}
	if len(found) == 0 {
		vf08Inconclusive(st, "could not read the extension type list from "+repo)
	}
	// placeholders without behaviour of their own, and the unexported ALPS core both ALPS types embed
	known := map[string]bool{"UnimplementedECHExtension": true, "UnimplementedPreSharedKeyExtension": true, "applicationSettingsExtension": true}
	for _, g := range vf08Gens {
		known[g.name] = true
	}
	found["ApplicationSettingsExtension"], found["ApplicationSettingsExtensionNew"] = found["applicationSettingsExtension"], found["applicationSettingsExtension"]
	var missing, gone []string
	for n := range found {
		if !known[n] {
			missing = append(missing, n)
		}
	}
	for n := range known {
		if !found[n] {
			gone = append(gone, n)
		}
	}
	sort.Strings(missing)
	sort.Strings(gone)
	st.Eval()
	st.Extra("extension_types_in_tree", len(found))
	st.Extra("extension_types_generated", len(vf08Gens))
	if len(missing) > 0 {
		vf08Inconclusive(st, fmt.Sprintf("extension types without a generator/reference in the harness: %v", missing))
	}
	if len(gone) > 0 {
		t.Logf("note: types known to the harness but no longer in the tree: %v", gone)
	}
}

// Observation only (no verdict): UtlsPreSharedKeyExtension with Identities/Binders set through the exported
// fields but no Session reports Len()==0 while Read emits the extension when OmitEmptyPsk is set. The type's
// documented life cycle never produces this state (InitializeByUtls always sets Session); see notes/C08.md.
func TestVerifC08ObservePSKHalfInitialised(t *testing.T) {
	st := vfNewStats(t, "C08")
	e := &UtlsPreSharedKeyExtension{OmitEmptyPsk: true}
	e.Identities = []PskIdentity{{Label: []byte("ticket"), ObfuscatedTicketAge: 1}}
	e.Binders = [][]byte{make([]byte, 32)}
	L := e.Len()
	n, err := e.Read(make([]byte, 200))
	st.Eval()
	st.Extra("observe_utls_psk_identities_without_session", fmt.Sprintf("Len()=%d Read(200-byte buffer)=(%d,%v)", L, n, err))
	if L != n {
		st.Class("observation:utls-psk-without-session:len!=read(outside-domain,no-verdict)")
	}
	// Second observation: a candidate AEAD the package has no length rule for (HPKE registry has 1,2,3 and 0xffff).
	g := &GREASEEncryptedClientHelloExtension{CandidateCipherSuites: []HPKESymmetricCipherSuite{{KdfId: 1, AeadId: 0xffff}}}
	var gl int
	p := vfCatch(func() { gl = g.Len() })
	if p != nil {
		st.Extra("observe_grease_ech_unsupported_aead", fmt.Sprintf("Len() panics: %v", p.Val))
		st.Class("observation:grease-ech-unsupported-aead:Len-panics(outside-domain,no-verdict)")
	} else {
		st.Extra("observe_grease_ech_unsupported_aead", fmt.Sprintf("Len()=%d", gl))
	}
}

// vf08Inconclusive ends the process in a way the driver reports as INCONCLUSIVE (worker death), never as a verdict.
func vf08Inconclusive(st *vfStats, reason string) {
	st.Extra("inconclusive", reason)
	st.Flush()
	fmt.Printf("VERIF-INCONCLUSIVE C08: %s\n", reason)
	os.Stdout.Sync()
	syscall.Kill(os.Getpid(), syscall.SIGKILL)
	select {}
}
