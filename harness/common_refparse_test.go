//go:build verif

package tls

// Reference ClientHello parser (DESIGN.md 3.1). Written from the RFCs with encoding/binary only: it shares no
// code with clientHelloMsg.unmarshal, FromRaw or the extensions' Write methods.

import (
	"bytes"
	"encoding/binary"
	"fmt"
	"sort"
	"strings"
)

type vfExt struct {
	Type uint16
	Body []byte
}

type vfKeyShare struct {
	Group uint16
	Data  []byte
}

type vfHello struct {
	Raw         []byte // handshake message incl. 4-byte header
	Version     uint16
	Random      []byte
	SessionID   []byte
	Suites      []uint16
	Compression []uint8
	HasExts     bool
	Exts        []vfExt
	// Violations of the strict grammar (empty = syntactically valid)
	Violations []string
}

func (h *vfHello) bad(format string, a ...any) {
	h.Violations = append(h.Violations, fmt.Sprintf(format, a...))
}

func (h *vfHello) Ext(t uint16) *vfExt {
	for i := range h.Exts {
		if h.Exts[i].Type == t {
			return &h.Exts[i]
		}
	}
	return nil
}

func (h *vfHello) ExtTypes() []uint16 {
	out := make([]uint16, len(h.Exts))
	for i, e := range h.Exts {
		out[i] = e.Type
	}
	return out
}

type vfRd struct {
	b   []byte
	err bool
}

func (r *vfRd) u8() uint8 {
	if len(r.b) < 1 {
		r.err = true
		return 0
	}
	v := r.b[0]
	r.b = r.b[1:]
	return v
}
func (r *vfRd) u16() uint16 {
	if len(r.b) < 2 {
		r.err = true
		r.b = nil
		return 0
	}
	v := binary.BigEndian.Uint16(r.b)
	r.b = r.b[2:]
	return v
}
func (r *vfRd) u24() int {
	if len(r.b) < 3 {
		r.err = true
		r.b = nil
		return 0
	}
	v := int(r.b[0])<<16 | int(r.b[1])<<8 | int(r.b[2])
	r.b = r.b[3:]
	return v
}
func (r *vfRd) take(n int) []byte {
	if n < 0 || len(r.b) < n {
		r.err = true
		r.b = nil
		return nil
	}
	v := r.b[:n]
	r.b = r.b[n:]
	return v
}
func (r *vfRd) vec8() []byte  { return r.take(int(r.u8())) }
func (r *vfRd) vec16() []byte { return r.take(int(r.u16())) }
func (r *vfRd) empty() bool   { return len(r.b) == 0 }

func vfIsGREASE(v uint16) bool { return v&0x0f0f == 0x0a0a && v>>8 == v&0xff }

// vfParseClientHello parses one ClientHello handshake message (type byte + 3 length bytes + body).
// It always returns a structure; h.Violations lists every departure from the grammar.
func vfParseClientHello(msg []byte) *vfHello {
	h := &vfHello{Raw: msg}
	if len(msg) < 4 {
		h.bad("message shorter than a handshake header")
		return h
	}
	if msg[0] != 1 {
		h.bad("handshake type %d is not client_hello", msg[0])
	}
	n := int(msg[1])<<16 | int(msg[2])<<8 | int(msg[3])
	if n != len(msg)-4 {
		h.bad("handshake length field %d != body length %d", n, len(msg)-4)
		if n < len(msg)-4 {
			msg = msg[:4+n]
		}
	}
	r := &vfRd{b: msg[4:]}
	h.Version = r.u16()
	h.Random = append([]byte(nil), r.take(32)...)
	sid := r.vec8()
	if len(sid) > 32 {
		h.bad("legacy_session_id longer than 32 bytes (%d)", len(sid))
	}
	h.SessionID = append([]byte(nil), sid...)
	cs := r.vec16()
	if r.err {
		h.bad("truncated before/inside cipher_suites")
		return h
	}
	if len(cs)%2 != 0 {
		h.bad("cipher_suites has odd length %d", len(cs))
	}
	if len(cs) < 2 {
		h.bad("cipher_suites is empty")
	}
	for i := 0; i+1 < len(cs); i += 2 {
		h.Suites = append(h.Suites, binary.BigEndian.Uint16(cs[i:]))
	}
	cm := r.vec8()
	if r.err {
		h.bad("truncated inside compression_methods")
		return h
	}
	if len(cm) < 1 {
		h.bad("compression_methods is empty")
	}
	h.Compression = append([]uint8(nil), cm...)
	if r.empty() {
		return h
	}
	h.HasExts = true
	exts := r.vec16()
	if r.err {
		h.bad("extensions block length exceeds message")
		return h
	}
	if !r.empty() {
		h.bad("%d trailing bytes after extensions block", len(r.b))
	}
	er := &vfRd{b: exts}
	seen := map[uint16]bool{}
	for !er.empty() {
		t := er.u16()
		body := er.vec16()
		if er.err {
			h.bad("extension %d: truncated header or body", t)
			break
		}
		if seen[t] {
			h.bad("extension type %d appears more than once", t)
		}
		seen[t] = true
		h.Exts = append(h.Exts, vfExt{Type: t, Body: append([]byte(nil), body...)})
	}
	for i, e := range h.Exts {
		if e.Type == 41 && i != len(h.Exts)-1 {
			h.bad("pre_shared_key is not the last extension (index %d of %d)", i, len(h.Exts))
		}
		if msg := vfCheckExtBody(e.Type, e.Body); msg != "" {
			h.bad("extension %d (%s): %s", e.Type, vfExtName(e.Type), msg)
		}
	}
	return h
}

func vfExtName(t uint16) string {
	names := map[uint16]string{0: "server_name", 5: "status_request", 10: "supported_groups", 11: "ec_point_formats",
		13: "signature_algorithms", 16: "alpn", 17: "status_request_v2", 18: "sct", 21: "padding", 22: "encrypt_then_mac", 23: "extended_master_secret",
		24: "token_binding", 27: "compress_certificate", 28: "record_size_limit", 34: "delegated_credentials", 35: "session_ticket",
		41: "pre_shared_key", 42: "early_data", 43: "supported_versions", 44: "cookie", 45: "psk_key_exchange_modes", 50: "signature_algorithms_cert",
		51: "key_share", 57: "quic_transport_parameters", 13172: "next_protocol_negotiation", 17513: "application_settings",
		17613: "application_settings_new", 30031: "channel_id_old", 30032: "channel_id", 0xfe0d: "encrypted_client_hello", 0xff01: "renegotiation_info"}
	if n, ok := names[t]; ok {
		return n
	}
	if vfIsGREASE(t) {
		return "GREASE"
	}
	return "unknown"
}

// key share sizes by group (0 = unknown group, any non-empty size accepted)
func vfShareSize(g uint16) int {
	switch g {
	case 0x001d:
		return 32
	case 0x0017:
		return 65
	case 0x0018:
		return 97
	case 0x0019:
		return 133
	case 0x6399: // X25519Kyber768Draft00
		return 32 + 1184
	case 0x11ec: // X25519MLKEM768
		return 1184 + 32
	case 0x11eb: // SecP256r1MLKEM768
		return 65 + 1184
	}
	return 0
}

// vfCheckExtBody checks a ClientHello extension body against its RFC grammar; "" = fine.
func vfCheckExtBody(t uint16, b []byte) string {
	r := &vfRd{b: b}
	u16list := func(min int) string {
		v := r.vec16()
		if r.err {
			return "list length prefix exceeds body"
		}
		if !r.empty() {
			return fmt.Sprintf("%d trailing bytes after list", len(r.b))
		}
		if len(v)%2 != 0 {
			return "list of 16-bit values has odd length"
		}
		if len(v) < min {
			return fmt.Sprintf("list shorter than the minimum of %d bytes", min)
		}
		return ""
	}
	switch {
	case vfIsGREASE(t):
		return ""
	}
	switch t {
	case 0: // server_name, RFC 6066 s3
		lst := r.vec16()
		if r.err || !r.empty() {
			return "server_name_list length mismatch"
		}
		if len(lst) == 0 {
			return "empty server_name_list"
		}
		lr := &vfRd{b: lst}
		hosts := 0
		for !lr.empty() {
			nt := lr.u8()
			name := lr.vec16()
			if lr.err {
				return "truncated ServerName entry"
			}
			if nt == 0 {
				hosts++
				if len(name) == 0 {
					return "empty host_name"
				}
				if name[len(name)-1] == '.' {
					return "host_name with trailing dot"
				}
				if vfLooksLikeIP(string(name)) {
					return "host_name is an IP literal"
				}
			}
		}
		if hosts > 1 {
			return "more than one host_name"
		}
	case 5: // status_request, RFC 6066 s8
		st := r.u8()
		r.vec16()
		r.vec16()
		if r.err || !r.empty() {
			return "malformed CertificateStatusRequest"
		}
		if st != 1 {
			return "status_type is not ocsp(1)"
		}
	case 17: // status_request_v2, RFC 6961
		lst := r.vec16()
		if r.err || !r.empty() || len(lst) == 0 {
			return "malformed certificate_status_req_list"
		}
		lr := &vfRd{b: lst}
		for !lr.empty() {
			lr.u8()
			req := lr.vec16()
			if lr.err {
				return "truncated CertificateStatusRequestItemV2"
			}
			rr := &vfRd{b: req}
			rr.vec16()
			rr.vec16()
			if rr.err || !rr.empty() {
				return "malformed OCSPStatusRequest"
			}
		}
	case 10:
		return u16list(2)
	case 13, 50, 34:
		return u16list(2)
	case 11:
		v := r.vec8()
		if r.err || !r.empty() || len(v) < 1 {
			return "malformed ec_point_format_list"
		}
	case 16, 17513, 17613: // ALPN RFC 7301, ALPS draft (same shape)
		lst := r.vec16()
		if r.err || !r.empty() {
			return "protocol_name_list length mismatch"
		}
		if t == 16 && len(lst) < 2 {
			return "empty protocol_name_list"
		}
		lr := &vfRd{b: lst}
		for !lr.empty() {
			p := lr.vec8()
			if lr.err {
				return "truncated protocol name"
			}
			if len(p) == 0 {
				return "empty protocol name"
			}
		}
	case 18: // SCT in ClientHello: empty
		if len(b) != 0 {
			return "non-empty signed_certificate_timestamp in ClientHello"
		}
	case 21:
		for _, x := range b {
			if x != 0 {
				return "padding contains a non-zero byte"
			}
		}
	case 22, 23, 13172, 30031, 30032:
		if len(b) != 0 {
			return "extension_data must be empty"
		}
	case 24: // token binding RFC 8472
		r.u8()
		r.u8()
		kp := r.vec8()
		if r.err || !r.empty() {
			return "malformed TokenBindingParameters"
		}
		_ = kp
	case 27: // RFC 8879
		v := r.vec8()
		if r.err || !r.empty() || len(v) < 2 || len(v)%2 != 0 {
			return "malformed CertificateCompressionAlgorithms"
		}
	case 28:
		if len(b) != 2 {
			return "record_size_limit is not a uint16"
		}
	case 35:
		return "" // opaque ticket, may be empty
	case 41: // RFC 8446 4.2.11
		ids := r.vec16()
		bnd := r.vec16()
		if r.err || !r.empty() {
			return "OfferedPsks length mismatch"
		}
		if len(ids) < 7 {
			return "identities shorter than 7 bytes"
		}
		if len(bnd) < 33 {
			return "binders shorter than 33 bytes"
		}
		nid := 0
		ir := &vfRd{b: ids}
		for !ir.empty() {
			id := ir.vec16()
			ir.take(4)
			if ir.err {
				return "truncated PskIdentity"
			}
			if len(id) < 1 {
				return "empty PskIdentity.identity"
			}
			nid++
		}
		nb := 0
		br := &vfRd{b: bnd}
		for !br.empty() {
			e := br.vec8()
			if br.err {
				return "truncated PskBinderEntry"
			}
			if len(e) < 32 {
				return "binder shorter than 32 bytes"
			}
			nb++
		}
		if nid != nb {
			return fmt.Sprintf("%d identities but %d binders", nid, nb)
		}
	case 42:
		if len(b) != 0 {
			return "early_data in ClientHello must be empty"
		}
	case 43:
		v := r.vec8()
		if r.err || !r.empty() || len(v) < 2 || len(v)%2 != 0 {
			return "malformed versions list"
		}
	case 44:
		v := r.vec16()
		if r.err || !r.empty() || len(v) < 1 {
			return "malformed cookie"
		}
	case 45:
		v := r.vec8()
		if r.err || !r.empty() || len(v) < 1 {
			return "malformed ke_modes"
		}
	case 51:
		lst := r.vec16()
		if r.err || !r.empty() {
			return "client_shares length mismatch"
		}
		lr := &vfRd{b: lst}
		seen := map[uint16]bool{}
		for !lr.empty() {
			g := lr.u16()
			k := lr.vec16()
			if lr.err {
				return "truncated KeyShareEntry"
			}
			if len(k) < 1 {
				return "empty key_exchange"
			}
			if seen[g] {
				return fmt.Sprintf("group %#x has two key shares", g)
			}
			seen[g] = true
			if want := vfShareSize(g); want != 0 && len(k) != want {
				return fmt.Sprintf("key share for group %#x has %d bytes, want %d", g, len(k), want)
			}
		}
	case 57:
		if _, err := vfParseTLVs(b); err != nil {
			return "transport parameters: " + err.Error()
		}
	case 0xfe0d: // draft-ietf-tls-esni-17 s5
		typ := r.u8()
		if typ == 1 { // inner
			if !r.empty() {
				return "inner ECH extension must have an empty payload"
			}
			return ""
		}
		if typ != 0 {
			return "ECHClientHelloType is neither outer nor inner"
		}
		r.u16() // kdf
		r.u16() // aead
		r.u8()  // config id
		enc := r.vec16()
		payload := r.vec16()
		if r.err || !r.empty() {
			return "outer ECH: length mismatch"
		}
		_ = enc
		if len(payload) < 1 {
			return "outer ECH: empty payload"
		}
	case 0xff01:
		v := r.vec8()
		if r.err || !r.empty() {
			return "malformed renegotiated_connection"
		}
		_ = v
	}
	return ""
}

func vfLooksLikeIP(s string) bool {
	if strings.Contains(s, ":") {
		return true
	}
	parts := strings.Split(s, ".")
	if len(parts) != 4 {
		return false
	}
	for _, p := range parts {
		if p == "" || len(p) > 3 {
			return false
		}
		for _, c := range p {
			if c < '0' || c > '9' {
				return false
			}
		}
	}
	return true
}

// ---- typed accessors (all tolerant: they return what can be read) ----

func vfU16List16(b []byte) []uint16 { // u16 length-prefixed list of u16
	r := &vfRd{b: b}
	v := r.vec16()
	var out []uint16
	for i := 0; i+1 < len(v); i += 2 {
		out = append(out, binary.BigEndian.Uint16(v[i:]))
	}
	return out
}

func vfU16List8(b []byte) []uint16 { // u8 length-prefixed list of u16
	r := &vfRd{b: b}
	v := r.vec8()
	var out []uint16
	for i := 0; i+1 < len(v); i += 2 {
		out = append(out, binary.BigEndian.Uint16(v[i:]))
	}
	return out
}

func (h *vfHello) SNI() (string, bool) {
	e := h.Ext(0)
	if e == nil {
		return "", false
	}
	r := &vfRd{b: e.Body}
	lr := &vfRd{b: r.vec16()}
	for !lr.empty() {
		nt := lr.u8()
		name := lr.vec16()
		if lr.err {
			break
		}
		if nt == 0 {
			return string(name), true
		}
	}
	return "", true
}

func (h *vfHello) SupportedVersions() ([]uint16, bool) {
	e := h.Ext(43)
	if e == nil {
		return nil, false
	}
	return vfU16List8(e.Body), true
}

func (h *vfHello) Groups() []uint16 {
	e := h.Ext(10)
	if e == nil {
		return nil
	}
	return vfU16List16(e.Body)
}

func (h *vfHello) SigAlgs() []uint16 {
	e := h.Ext(13)
	if e == nil {
		return nil
	}
	return vfU16List16(e.Body)
}

func (h *vfHello) KeyShares() []vfKeyShare {
	e := h.Ext(51)
	if e == nil {
		return nil
	}
	r := &vfRd{b: e.Body}
	lr := &vfRd{b: r.vec16()}
	var out []vfKeyShare
	for !lr.empty() {
		g := lr.u16()
		k := lr.vec16()
		if lr.err {
			break
		}
		out = append(out, vfKeyShare{g, append([]byte(nil), k...)})
	}
	return out
}

func vfProtoList(b []byte) []string {
	r := &vfRd{b: b}
	lr := &vfRd{b: r.vec16()}
	var out []string
	for !lr.empty() {
		p := lr.vec8()
		if lr.err {
			break
		}
		out = append(out, string(p))
	}
	return out
}

func (h *vfHello) ALPN() []string {
	e := h.Ext(16)
	if e == nil {
		return nil
	}
	return vfProtoList(e.Body)
}

func (h *vfHello) CertCompAlgs() []uint16 {
	e := h.Ext(27)
	if e == nil {
		return nil
	}
	return vfU16List8(e.Body)
}

type vfPSKOffer struct {
	Identities [][]byte
	Ages       []uint32
	Binders    [][]byte
}

func (h *vfHello) PSK() *vfPSKOffer {
	e := h.Ext(41)
	if e == nil {
		return nil
	}
	r := &vfRd{b: e.Body}
	ir := &vfRd{b: r.vec16()}
	br := &vfRd{b: r.vec16()}
	o := &vfPSKOffer{}
	for !ir.empty() {
		id := ir.vec16()
		age := ir.take(4)
		if ir.err {
			break
		}
		o.Identities = append(o.Identities, append([]byte(nil), id...))
		o.Ages = append(o.Ages, binary.BigEndian.Uint32(age))
	}
	for !br.empty() {
		b := br.vec8()
		if br.err {
			break
		}
		o.Binders = append(o.Binders, append([]byte(nil), b...))
	}
	return o
}

type vfECHOuter struct {
	Type     uint8
	KDF      uint16
	AEAD     uint16
	ConfigID uint8
	Enc      []byte
	Payload  []byte
}

func (h *vfHello) ECH() *vfECHOuter {
	e := h.Ext(0xfe0d)
	if e == nil {
		return nil
	}
	r := &vfRd{b: e.Body}
	o := &vfECHOuter{}
	o.Type = r.u8()
	if o.Type != 0 {
		return o
	}
	o.KDF = r.u16()
	o.AEAD = r.u16()
	o.ConfigID = r.u8()
	o.Enc = append([]byte(nil), r.vec16()...)
	o.Payload = append([]byte(nil), r.vec16()...)
	return o
}

// ---- normalisation (masking of per-connection material) ----

// vfNormOpts selects what is masked.
type vfNormOpts struct {
	KeepSNI     bool
	KeepPadding bool // keep padding length (otherwise masked)
}

// vfNormExt returns a printable normal form of one extension: type (GREASE -> "G") and body with
// per-connection material replaced by sizes.
func vfNormExt(e vfExt, o vfNormOpts) string {
	t := fmt.Sprintf("%d", e.Type)
	if vfIsGREASE(e.Type) {
		return fmt.Sprintf("G:%x", e.Body)
	}
	b := e.Body
	switch e.Type {
	case 0:
		if o.KeepSNI {
			return t + ":" + fmt.Sprintf("%x", b)
		}
		return t + fmt.Sprintf(":sni[%d]", len(b))
	case 10, 43, 13, 50:
		// mask GREASE entries
		var vals []uint16
		if e.Type == 43 {
			vals = vfU16List8(b)
		} else {
			vals = vfU16List16(b)
		}
		s := make([]string, len(vals))
		for i, v := range vals {
			if vfIsGREASE(v) {
				s[i] = "G"
			} else {
				s[i] = fmt.Sprintf("%04x", v)
			}
		}
		return t + ":" + strings.Join(s, ",")
	case 21:
		if o.KeepPadding {
			return t + fmt.Sprintf(":pad[%d]", len(b))
		}
		return t + ":pad"
	case 35:
		return t + fmt.Sprintf(":ticket[%d]", len(b))
	case 41:
		h := &vfHello{Exts: []vfExt{e}}
		p := h.PSK()
		s := []string{}
		for i := range p.Identities {
			s = append(s, fmt.Sprintf("id[%d]", len(p.Identities[i])))
		}
		for i := range p.Binders {
			s = append(s, fmt.Sprintf("b[%d]", len(p.Binders[i])))
		}
		return t + ":" + strings.Join(s, ",")
	case 51:
		h := &vfHello{Exts: []vfExt{e}}
		s := []string{}
		for _, ks := range h.KeyShares() {
			if vfIsGREASE(ks.Group) {
				s = append(s, fmt.Sprintf("G=%x", ks.Data))
			} else {
				s = append(s, fmt.Sprintf("%04x[%d]", ks.Group, len(ks.Data)))
			}
		}
		return t + ":" + strings.Join(s, ",")
	case 0xfe0d:
		h := &vfHello{Exts: []vfExt{e}}
		ec := h.ECH()
		if ec.Type != 0 {
			return t + fmt.Sprintf(":inner:%x", b)
		}
		return t + fmt.Sprintf(":outer kdf=%04x aead=%04x enc[%d] payload[%d]", ec.KDF, ec.AEAD, len(ec.Enc), len(ec.Payload))
	}
	return t + ":" + fmt.Sprintf("%x", b)
}

// vfNormHello renders the whole hello in normal form, one line per field.
func vfNormHello(h *vfHello, o vfNormOpts) []string {
	out := []string{fmt.Sprintf("version=%04x", h.Version), fmt.Sprintf("sid[%d]", len(h.SessionID))}
	s := make([]string, len(h.Suites))
	for i, v := range h.Suites {
		if vfIsGREASE(v) {
			s[i] = "G"
		} else {
			s[i] = fmt.Sprintf("%04x", v)
		}
	}
	out = append(out, "suites="+strings.Join(s, ","), fmt.Sprintf("comp=%x", h.Compression))
	for _, e := range h.Exts {
		out = append(out, "ext "+vfNormExt(e, o))
	}
	return out
}

func vfSortedCopy(s []string) []string {
	c := append([]string(nil), s...)
	sort.Strings(c)
	return c
}

func vfDiffLines(a, b []string) string {
	var sb strings.Builder
	n := len(a)
	if len(b) > n {
		n = len(b)
	}
	for i := 0; i < n; i++ {
		var x, y string
		if i < len(a) {
			x = a[i]
		}
		if i < len(b) {
			y = b[i]
		}
		if x != y {
			fmt.Fprintf(&sb, "  [%d] %q  !=  %q\n", i, x, y)
		}
	}
	return sb.String()
}

// vfUnpaddedLen returns the length of the handshake message (header included) without the padding extension.
func vfUnpaddedLen(h *vfHello) int {
	n := len(h.Raw)
	if e := h.Ext(21); e != nil {
		n -= 4 + len(e.Body)
	}
	return n
}

func vfContains16(l []uint16, v uint16) bool {
	for _, x := range l {
		if x == v {
			return true
		}
	}
	return false
}

var _ = bytes.Equal

// ---- minimal reference ServerHello parser ----

type vfServerHello struct {
	Version     uint16
	Random      []byte
	SessionID   []byte
	Suite       uint16
	Compression uint8
	Exts        []vfExt
	IsHRR       bool
	OK          bool
}

var vfHRRRandom = []byte{0xCF, 0x21, 0xAD, 0x74, 0xE5, 0x9A, 0x61, 0x11, 0xBE, 0x1D, 0x8C, 0x02, 0x1E, 0x65, 0xB8, 0x91,
	0xC2, 0xA2, 0x11, 0x16, 0x7A, 0xBB, 0x8C, 0x5E, 0x07, 0x9E, 0x09, 0xE2, 0xC8, 0xA8, 0x33, 0x9C}

func vfParseServerHello(msg []byte) *vfServerHello {
	sh := &vfServerHello{}
	if len(msg) < 4 || msg[0] != 2 {
		return sh
	}
	r := &vfRd{b: msg[4:]}
	sh.Version = r.u16()
	sh.Random = append([]byte(nil), r.take(32)...)
	sh.SessionID = append([]byte(nil), r.vec8()...)
	sh.Suite = r.u16()
	sh.Compression = r.u8()
	if r.err {
		return sh
	}
	sh.IsHRR = bytes.Equal(sh.Random, vfHRRRandom)
	if !r.empty() {
		er := &vfRd{b: r.vec16()}
		for !er.empty() {
			t := er.u16()
			b := er.vec16()
			if er.err {
				return sh
			}
			sh.Exts = append(sh.Exts, vfExt{t, append([]byte(nil), b...)})
		}
	}
	sh.OK = true
	return sh
}

func (sh *vfServerHello) Ext(t uint16) *vfExt {
	for i := range sh.Exts {
		if sh.Exts[i].Type == t {
			return &sh.Exts[i]
		}
	}
	return nil
}

// SelectedVersion: supported_versions if present else legacy version.
func (sh *vfServerHello) SelectedVersion() uint16 {
	if e := sh.Ext(43); e != nil && len(e.Body) == 2 {
		return binary.BigEndian.Uint16(e.Body)
	}
	return sh.Version
}

// KeyShareGroup returns the group of the key_share extension (server share, or selected_group in a HRR).
func (sh *vfServerHello) KeyShareGroup() uint16 {
	if e := sh.Ext(51); e != nil && len(e.Body) >= 2 {
		return binary.BigEndian.Uint16(e.Body)
	}
	return 0
}

// vfServerHellosOnWire returns the plaintext ServerHello/HRR messages at the start of the server's stream.
func vfServerHellosOnWire(stream []byte) []*vfServerHello {
	recs, _ := vfSplitRecords(stream)
	var hs []byte
	for _, r := range recs {
		if r.Type == 22 {
			hs = append(hs, r.Body...)
		} else if r.Type == 20 {
			continue
		} else {
			break
		}
	}
	var out []*vfServerHello
	for len(hs) >= 4 {
		n := int(hs[1])<<16 | int(hs[2])<<8 | int(hs[3])
		if len(hs) < 4+n || hs[0] != 2 {
			break
		}
		out = append(out, vfParseServerHello(hs[:4+n]))
		hs = hs[4+n:]
	}
	return out
}

// vfSerializeHello re-encodes a parsed hello (after edits to its fields / extension bodies) as a handshake message.
func vfSerializeHello(h *vfHello) []byte {
	b := &vfWr{}
	b.u16(h.Version)
	b.raw(h.Random)
	b.vec8(h.SessionID)
	s := &vfWr{}
	for _, x := range h.Suites {
		s.u16(x)
	}
	b.vec16(s.b)
	b.vec8(h.Compression)
	if h.HasExts {
		e := &vfWr{}
		for _, x := range h.Exts {
			e.u16(x.Type)
			e.vec16(x.Body)
		}
		b.vec16(e.b)
	}
	out := []byte{1, byte(len(b.b) >> 16), byte(len(b.b) >> 8), byte(len(b.b))}
	return append(out, b.b...)
}

type vfWr struct{ b []byte }

func (w *vfWr) u8(v uint8)   { w.b = append(w.b, v) }
func (w *vfWr) u16(v uint16) { w.b = append(w.b, byte(v>>8), byte(v)) }
func (w *vfWr) raw(v []byte) { w.b = append(w.b, v...) }
func (w *vfWr) vec8(v []byte) {
	w.u8(uint8(len(v)))
	w.raw(v)
}
func (w *vfWr) vec16(v []byte) {
	w.u16(uint16(len(v)))
	w.raw(v)
}

// vfRecordOf wraps a handshake message into one TLS record.
func vfRecordOf(msg []byte) []byte {
	return append([]byte{22, 3, 1, byte(len(msg) >> 8), byte(len(msg))}, msg...)
}
