//go:build verif

package tls

// C06 (extension): a ClientHelloSpec VARIABLE that is parsed into more than once. FromRaw documents nothing about the
// receiver having to be empty; an application that fingerprints one capture after another into the same variable must
// get, for each capture, the spec it would get from a fresh variable. Oracle: the hello regenerated from the reused spec
// equals (normal form, total length) the hello regenerated from a fresh spec of the same capture.

import (
	"fmt"
	"strings"
	"testing"

	"pgregory.net/rapid"
)

func vf06BuildFromSpec(spec *ClientHelloSpec, sniLen int, seed uint64) ([]byte, error) {
	name := "reuse.example.test"
	if sniLen > 0 {
		name = vfDNSNameOfLen(sniLen, 'u')
	}
	cm := vfCfgMeta{ServerName: name, OmitEmptyPsk: true, RandSeed: seed}
	cp, _ := vfPipe()
	defer cp.Close()
	var out []byte
	var err error
	if pan := vfCatch(func() {
		var uc *UConn
		uc, err = vfNewCustomUConn(cp, cm.Config(), cm, spec)
		if err != nil {
			return
		}
		if err = uc.BuildHandshakeState(); err == nil {
			out = uc.HandshakeState.Hello.Raw
		}
	}); pan != nil {
		return nil, fmt.Errorf("panic: %v", pan.Val)
	}
	return out, err
}

func TestVerifC06ReusedSpecVariable(t *testing.T) {
	st := vfNewStats(t, "C06")
	capture := func(p vfParrot, seed uint64) []byte {
		cm := vfCfgMeta{ServerName: "capture.example.test", OmitEmptyPsk: true, RandSeed: seed}
		cp, _ := vfPipe()
		defer cp.Close()
		uc := UClient(cp, cm.Config(), p.ID)
		if err := uc.BuildHandshakeState(); err != nil {
			return nil
		}
		return uc.HandshakeState.Hello.Raw
	}
	rapid.Check(t, func(rt *rapid.T) {
		n := rapid.IntRange(2, 4).Draw(rt, "captures")
		reused := &ClientHelloSpec{}
		hist := ""
		st.Eval()
		for i := 0; i < n; i++ {
			p := vfGenParrot(rt, fmt.Sprintf("parrot%d", i))
			raw := capture(p, uint64(i)+7)
			if raw == nil {
				return
			}
			hc := vfParseClientHello(raw)
			hist += " FromRaw(" + p.Name + ")"
			blunt := rapid.Bool().Draw(rt, fmt.Sprintf("blunt%d", i))
			fresh := &ClientHelloSpec{}
			errF := fresh.FromRaw(vf06Record(raw), blunt)
			errR := reused.FromRaw(vf06Record(raw), blunt)
			if (errF == nil) != (errR == nil) {
				st.Violation(rt, "reused spec variable:%s: FromRaw error %v, with a fresh variable %v", hist, errR, errF)
			}
			if errF != nil {
				st.Class("reuse:fromraw-error")
				reused = &ClientHelloSpec{} // an error leaves the receiver unspecified
				continue
			}
			if len(reused.Extensions) != len(fresh.Extensions) || fmt.Sprint(reused.CipherSuites) != fmt.Sprint(fresh.CipherSuites) ||
				fmt.Sprint(reused.CompressionMethods) != fmt.Sprint(fresh.CompressionMethods) {
				st.Violation(rt, "reused spec variable:%s: %d extensions / %d suites, a fresh variable gives %d / %d", hist,
					len(reused.Extensions), len(reused.CipherSuites), len(fresh.Extensions), len(fresh.CipherSuites))
			}
			seed := rapid.Uint64().Draw(rt, fmt.Sprintf("seed%d", i))
			// build from a second fresh parse (building mutates the extension objects of a spec) and from the reused one
			fresh2 := &ClientHelloSpec{}
			fresh2.FromRaw(vf06Record(raw), blunt)
			a, errA := vf06BuildFromSpec(fresh2, vf06SNILen(hc), seed)
			b, errB := vf06BuildFromSpec(reused, vf06SNILen(hc), seed)
			if (errA == nil) != (errB == nil) {
				st.Violation(rt, "reused spec variable:%s: building gives error %v, from a fresh variable %v", hist, errB, errA)
			}
			if errA != nil {
				st.Class("reuse:build-error-both")
				reused = &ClientHelloSpec{}
				continue
			}
			na := vf06Normalise(vfParseClientHello(a), false, false)
			nb := vf06Normalise(vfParseClientHello(b), false, false)
			if strings.Join(na.Lines, "\n") != strings.Join(nb.Lines, "\n") || len(a) != len(b) {
				st.Violation(rt, "reused spec variable:%s: regenerated hello differs from the one of a fresh variable (%d vs %d bytes):\n%s", hist, len(b), len(a), vfDiffLines(na.Lines, nb.Lines))
			}
			// the reused variable was built from: parse again below anyway
		}
		st.Class("reuse:compared")
		st.NonTrivial("reuse|" + hist)
		st.Sample(map[string]any{"source": "reused-spec-variable", "history": hist})
	})
}

// Padded captures of ANY size: clients that do not follow BoringSSL's 256..511 window (compact TLS 1.2 stacks that pad
// every hello to a fixed size, captures padded far beyond 512). The unpadded size runs from about 100 to 900 bytes, the
// captured padding body from 1 to 600 bytes; each capture goes through the full round-trip oracle with every flag set.
func TestVerifC06PaddedCapturesAnySize(t *testing.T) {
	st := vfNewStats(t, "C06")
	mk := func(generic, pad int) *ClientHelloSpec {
		g := &GenericExtension{Id: 0xfff1, Data: make([]byte, generic)}
		for i := range g.Data {
			g.Data[i] = byte(i*5 + 3)
		}
		return &ClientHelloSpec{TLSVersMin: VersionTLS10, TLSVersMax: VersionTLS12,
			CipherSuites: []uint16{TLS_ECDHE_ECDSA_WITH_AES_128_GCM_SHA256, TLS_ECDHE_RSA_WITH_AES_128_GCM_SHA256, TLS_RSA_WITH_AES_128_CBC_SHA},
			Extensions: []TLSExtension{&SNIExtension{}, &ExtendedMasterSecretExtension{}, &RenegotiationInfoExtension{Renegotiation: RenegotiateOnceAsClient},
				&SupportedCurvesExtension{Curves: []CurveID{X25519, CurveP256}}, &SupportedPointsExtension{SupportedPoints: []byte{0}},
				&SignatureAlgorithmsExtension{SupportedSignatureAlgorithms: []SignatureScheme{ECDSAWithP256AndSHA256, PSSWithSHA256, PKCS1WithSHA256}},
				g, &UtlsPaddingExtension{PaddingLen: pad, WillPad: true}}}
	}
	n := 0
	for _, generic := range []int{0, 40, 90, 120, 150, 200, 300, 340, 400, 700} {
		for _, pad := range []int{1, 37, 71, 200, 600} {
			n++
			raw, err := vf06BuildFromSpec(mk(generic, pad), 12, uint64(n))
			if err != nil {
				t.Fatalf("harness: %v", err)
			}
			h := vfParseClientHello(raw)
			if e := h.Ext(21); e == nil || len(e.Body) != pad {
				t.Fatalf("harness: capture without the %d-byte padding", pad)
			}
			flags := n % 8
			f := &Fingerprinter{AllowBluntMimicry: true, AlwaysAddPadding: flags&2 != 0, RealPSKResumption: flags&4 != 0}
			vf06RoundTrip(st, t, vf06Src{Kind: "custom", Name: fmt.Sprintf("padded-capture(unpadded=%d,padding=%d)", vfUnpaddedLen(h), pad)}, raw, f, 'q', uint64(n)+500)
			st.Class("padded-capture-any-size")
		}
	}
}
