//go:build verif

package tls

// C06 (extension): a ClientHelloSpec VARIABLE that is parsed into more than once. FromRaw documents nothing about the
// receiver having to be empty; an application that fingerprints one capture after another into the same variable must
// get, for each capture, the spec it would get from a fresh variable. Oracle: the hello regenerated from the reused spec
// equals (normal form, total length) the hello regenerated from a fresh spec of the same capture.

import (
	"fmt"
	"strings"
	"testing"

	"pgregory.net/rapid"
)

func vf06BuildFromSpec(spec *ClientHelloSpec, sniLen int, seed uint64) ([]byte, error) {
	name := "reuse.example.test"
	if sniLen > 0 {
		name = vfDNSNameOfLen(sniLen, 'u')
	}
	cm := vfCfgMeta{ServerName: name, OmitEmptyPsk: true, RandSeed: seed}
	cp, _ := vfPipe()
	defer cp.Close()
	var out []byte
	var err error
	if pan := vfCatch(func() {
		var uc *UConn
		uc, err = vfNewCustomUConn(cp, cm.Config(), cm, spec)
		if err != nil {
			return
		}
		if err = uc.BuildHandshakeState(); err == nil {
			out = uc.HandshakeState.Hello.Raw
		}
	}); pan != nil {
		return nil, fmt.Errorf("panic: %v", pan.Val)
	}
	return out, err
}

func TestVerifC06ReusedSpecVariable(t *testing.T) {
	st := vfNewStats(t, "C06")
	capture := func(p vfParrot, seed uint64) []byte {
		cm := vfCfgMeta{ServerName: "capture.example.test", OmitEmptyPsk: true, RandSeed: seed}
		cp, _ := vfPipe()
		defer cp.Close()
		uc := UClient(cp, cm.Config(), p.ID)
		if err := uc.BuildHandshakeState(); err != nil {
			return nil
		}
		return uc.HandshakeState.Hello.Raw
	}
	rapid.Check(t, func(rt *rapid.T) {
		n := rapid.IntRange(2, 4).Draw(rt, "captures")
		reused := &ClientHelloSpec{}
		hist := ""
		st.Eval()
		for i := 0; i < n; i++ {
			p := vfGenParrot(rt, fmt.Sprintf("parrot%d", i))
			raw := capture(p, uint64(i)+7)
			if raw == nil {
				return
			}
			hc := vfParseClientHello(raw)
			hist += " FromRaw(" + p.Name + ")"
			blunt := rapid.Bool().Draw(rt, fmt.Sprintf("blunt%d", i))
			fresh := &ClientHelloSpec{}
			errF := fresh.FromRaw(vf06Record(raw), blunt)
			errR := reused.FromRaw(vf06Record(raw), blunt)
			if (errF == nil) != (errR == nil) {
				st.Violation(rt, "reused spec variable:%s: FromRaw error %v, with a fresh variable %v", hist, errR, errF)
			}
			if errF != nil {
				st.Class("reuse:fromraw-error")
				reused = &ClientHelloSpec{} // an error leaves the receiver unspecified
				continue
			}
			if len(reused.Extensions) != len(fresh.Extensions) || fmt.Sprint(reused.CipherSuites) != fmt.Sprint(fresh.CipherSuites) ||
				fmt.Sprint(reused.CompressionMethods) != fmt.Sprint(fresh.CompressionMethods) {
				st.Violation(rt, "reused spec variable:%s: %d extensions / %d suites, a fresh variable gives %d / %d", hist,
					len(reused.Extensions), len(reused.CipherSuites), len(fresh.Extensions), len(fresh.CipherSuites))
			}
			seed := rapid.Uint64().Draw(rt, fmt.Sprintf("seed%d", i))
			// build from a second fresh parse (building mutates the extension objects of a spec) and from the reused one
			fresh2 := &ClientHelloSpec{}
			fresh2.FromRaw(vf06Record(raw), blunt)
			a, errA := vf06BuildFromSpec(fresh2, vf06SNILen(hc), seed)
			b, errB := vf06BuildFromSpec(reused, vf06SNILen(hc), seed)
			if (errA == nil) != (errB == nil) {
				st.Violation(rt, "reused spec variable:%s: building gives error %v, from a fresh variable %v", hist, errB, errA)
			}
			if errA != nil {
				st.Class("reuse:build-error-both")
				reused = &ClientHelloSpec{}
				continue
			}
			na := vf06Normalise(vfParseClientHello(a), false, false)
			nb := vf06Normalise(vfParseClientHello(b), false, false)
			if strings.Join(na.Lines, "\n") != strings.Join(nb.Lines, "\n") || len(a) != len(b) {
				st.Violation(rt, "reused spec variable:%s: regenerated hello differs from the one of a fresh variable (%d vs %d bytes):\n%s", hist, len(b), len(a), vfDiffLines(na.Lines, nb.Lines))
			}
			// the reused variable was built from: parse again below anyway
		}
		st.Class("reuse:compared")
		st.NonTrivial("reuse|" + hist)
		st.Sample(map[string]any{"source": "reused-spec-variable", "history": hist})
	})
}
