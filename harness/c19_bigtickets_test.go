//go:build verif

package tls

// C19 (extension): servers that issue LARGE tickets (state stored through WrapSession / SessionState.Extra, client
// certificate chains, other stacks): a few hundred bytes up to several kilobytes. The cached session must still be
// offered and resumed by the second and third connection - the hello then exceeds 4 KiB, the pre_shared_key /
// session_ticket body exceeds 255 bytes.

import (
	"fmt"
	"testing"

	"pgregory.net/rapid"
)

func TestVerifC19LargeTickets(t *testing.T) {
	st := vfNewStats(t, "C19")
	rapid.Check(t, func(rt *rapid.T) {
		p := vfGenParrot(rt, "parrot")
		if rapid.IntRange(0, 2).Draw(rt, "psk_parrot") == 0 {
			var psk []vfParrot
			for _, q := range vfParrots {
				if vfIsPSKParrot(q) {
					psk = append(psk, q)
				}
			}
			p = psk[rapid.IntRange(0, len(psk)-1).Draw(rt, "psk_idx")]
		}
		extra := rapid.SampledFrom([]int{0, 120, 200, 300, 1000, 2500, 4000, 6000}).Draw(rt, "ticket_extra")
		srvMax := rapid.SampledFrom([]uint16{VersionTLS12, VersionTLS13}).Draw(rt, "server_max")
		src := vfClientSrc{Kind: "parrot", Name: p.Name, ID: p.ID}
		name := "bigticket.c19.test"
		cache := NewLRUClientSessionCache(4)
		mod := func(c *Config) {
			c.ClientSessionCache = cache
			c.OmitEmptyPsk = true
			c.PreferSkipResumptionOnNilExtension = true
		}
		st.Eval()
		var scfg *Config
		for i := 0; i < 3; i++ {
			prep, err := vfPrepareClient(src, name, rapid.Uint64().Draw(rt, fmt.Sprintf("seed%d", i)), mod)
			if err != nil {
				st.Violation(rt, "%s, tickets enlarged by %d bytes, connection %d: the hello cannot be built: %v", p.Name, extra, i+1, err)
			}
			o := prep.Offer
			if scfg == nil {
				keys := vfCertKeysFor(o, srvMax, "")
				sessExt := o.Hello.Ext(35) != nil
				if srvMax == VersionTLS13 {
					sessExt = vfIsPSKParrot(p)
				}
				if !o.HasVersion(srvMax) || len(keys) == 0 || !sessExt {
					st.Class("large-tickets:version-or-session-extension-not-offered")
					prep.CP.Close()
					return
				}
				scfg = vfServerConfig(keys[0], name)
				scfg.MaxVersion = srvMax
				cfg := scfg
				scfg.WrapSession = func(cs ConnectionState, ss *SessionState) ([]byte, error) {
					if extra > 0 {
						ss.Extra = append(ss.Extra, make([]byte, extra))
					}
					return cfg.EncryptTicket(cs, ss)
				}
				scfg.UnwrapSession = func(id []byte, cs ConnectionState) (*SessionState, error) { return cfg.DecryptTicket(id, cs) }
			}
			pair := &vfPair{CP: prep.CP, SP: prep.SP, Cli: prep.UC, Srv: Server(prep.SP, scfg)}
			cerr, serr := pair.Handshake()
			if cerr != nil || serr != nil {
				pair.Close()
				if i == 0 {
					st.Class("large-tickets:first-connection-failed")
					return
				}
				st.Violation(rt, "%s vs TLS %04x server whose tickets are enlarged by %d bytes: connection %d (session cached, hello of %d bytes) failed: client=%v server=%v",
					p.Name, srvMax, extra, i+1, len(o.Hello.Raw), cerr, serr)
			}
			if err := pair.Echo([]byte("a"), []byte("b")); err != nil {
				pair.Close()
				st.Violation(rt, "%s: connection %d: data exchange: %v", p.Name, i+1, err)
			}
			cs, ss := pair.Cli.ConnectionState(), pair.Srv.ConnectionState()
			pair.Close()
			if i > 0 && (!cs.DidResume || !ss.DidResume) {
				st.Violation(rt, "%s vs TLS %04x server whose tickets are enlarged by %d bytes: connection %d did not resume (client %v, server %v; hello of %d bytes)",
					p.Name, srvMax, extra, i+1, cs.DidResume, ss.DidResume, len(o.Hello.Raw))
			}
		}
		st.Class(fmt.Sprintf("large-tickets:resumed-twice(%04x,+%d)", srvMax, extra))
		st.NonTrivial(fmt.Sprintf("large-tickets|%s|%04x|%d", p.Name, srvMax, extra))
	})
}
