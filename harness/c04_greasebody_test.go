//go:build verif

package tls

// C04 (extension): fingerprinted captures whose GREASE key share / GREASE extension bodies have other sizes than the
// parrots' own (1 byte / 0-1 bytes): GREASE code points must still be refreshed per connection and the key_share GREASE
// group must equal the supported_groups GREASE group.

import (
	"fmt"
	"testing"

	"pgregory.net/rapid"
)

func TestVerifC04FingerprintedGreaseBodies(t *testing.T) {
	st := vfNewStats(t, "C04")
	var greasy []vfParrot
	for _, p := range vfParrots {
		spec, err := UTLSIdToSpec(p.ID)
		if err != nil {
			continue
		}
		for _, e := range spec.Extensions {
			if ks, ok := e.(*KeyShareExtension); ok {
				for _, s := range ks.KeyShares {
					if vfIsGREASE(uint16(s.Group)) {
						greasy = append(greasy, p)
					}
				}
			}
		}
	}
	if len(greasy) == 0 {
		t.Fatalf("VERIF-INCONCLUSIVE no parrot with a GREASE key share")
	}
	rapid.Check(t, func(rt *rapid.T) {
		p := greasy[rapid.IntRange(0, len(greasy)-1).Draw(rt, "parrot")]
		cp, _ := vfPipe()
		defer cp.Close()
		cfg := vfClientConfig("grease.example")
		cfg.OmitEmptyPsk = true
		uc := UClient(cp, cfg, p.ID)
		if err := uc.BuildHandshakeState(); err != nil {
			st.Violation(rt, "%s: %v", p.Name, err)
		}
		h := vfParseClientHello(uc.HandshakeState.Hello.Raw)
		// rewrite the capture: GREASE key share body of k bytes, GREASE extension bodies of drawn sizes
		k := rapid.IntRange(1, 8).Draw(rt, "ksbody")
		for i := range h.Exts {
			e := &h.Exts[i]
			if e.Type == 51 {
				w := &vfWr{}
				for _, ks := range h.KeyShares() {
					w.u16(ks.Group)
					if vfIsGREASE(ks.Group) {
						w.vec16(rapid.SliceOfN(rapid.Byte(), k, k).Draw(rt, "ksdata"))
					} else {
						w.vec16(ks.Data)
					}
				}
				o := &vfWr{}
				o.vec16(w.b)
				e.Body = o.b
			} else if vfIsGREASE(e.Type) {
				e.Body = rapid.SliceOfN(rapid.Byte(), 0, 6).Draw(rt, fmt.Sprintf("gbody%d", i))
			}
		}
		rec := vfRecordOf(vfSerializeHello(h))
		st.Eval()
		n := 12
		seenGroup, seenExt, seenSuite := map[uint16]bool{}, map[uint16]bool{}, map[uint16]bool{}
		for c := 0; c < n; c++ {
			spec, err := (&Fingerprinter{AllowBluntMimicry: true}).FingerprintClientHello(rec)
			if err != nil {
				st.Violation(rt, "%s: fingerprinting the rewritten capture failed: %v", p.Name, err)
			}
			cp2, _ := vfPipe()
			cfg2 := vfClientConfig("grease.example")
			cfg2.OmitEmptyPsk = true
			cfg2.Rand = vfNewDetRand(uint64(c)*7919+uint64(k), "c04")
			uc2 := UClient(cp2, cfg2, HelloCustom)
			if err := uc2.ApplyPreset(spec); err != nil {
				cp2.Close()
				st.Violation(rt, "%s: ApplyPreset of the fingerprinted spec: %v", p.Name, err)
			}
			if err := uc2.BuildHandshakeState(); err != nil {
				cp2.Close()
				st.Violation(rt, "%s: BuildHandshakeState of the fingerprinted spec: %v", p.Name, err)
			}
			h2 := vfParseClientHello(uc2.HandshakeState.Hello.Raw)
			cp2.Close()
			var ksG, sgG uint16
			for _, ks := range h2.KeyShares() {
				if vfIsGREASE(ks.Group) {
					ksG = ks.Group
					if len(ks.Data) != k {
						st.Class("grease-share-body-size-changed")
					}
				}
			}
			for _, g := range h2.Groups() {
				if vfIsGREASE(g) {
					sgG = g
				}
			}
			if ksG == 0 || sgG == 0 {
				st.Violation(rt, "%s (GREASE share body %d bytes): GREASE group missing after fingerprinting (key_share %#04x, supported_groups %#04x)", p.Name, k, ksG, sgG)
			}
			if ksG != sgG {
				st.Violation(rt, "%s (GREASE share body %d bytes), connection %d: key_share GREASE group %#04x != supported_groups GREASE group %#04x", p.Name, k, c, ksG, sgG)
			}
			seenGroup[ksG] = true
			var gexts []uint16
			for _, e := range h2.Exts {
				if vfIsGREASE(e.Type) {
					gexts = append(gexts, e.Type)
					seenExt[e.Type] = true
				}
			}
			if len(gexts) == 2 && gexts[0] == gexts[1] {
				st.Violation(rt, "%s: the two GREASE extensions share code point %#04x", p.Name, gexts[0])
			}
			for _, s := range h2.Suites {
				if vfIsGREASE(s) {
					seenSuite[s] = true
				}
			}
		}
		// freshness: 12 connections on distinct random streams; P(all equal) = 16^-11
		if len(seenGroup) < 2 {
			st.Violation(rt, "%s (GREASE share body %d bytes): GREASE group did not vary over %d connections: %v", p.Name, k, n, seenGroup)
		}
		if len(seenExt) < 2 || (len(seenSuite) > 0 && len(seenSuite) < 2) {
			st.Violation(rt, "%s: GREASE extension/suite values did not vary over %d connections: ext %v suite %v", p.Name, n, seenExt, seenSuite)
		}
		st.Class(fmt.Sprintf("ksbody=%d", k))
		if k != 1 {
			st.NonTrivial(fmt.Sprintf("fpgrease|%s|%d", p.Name, k))
		}
		st.Sample(map[string]any{"parrot": p.Name, "grease_share_body": k, "connections": n})
	})
}
